import ApolloModel.Proofs.SchemaSerialize4
/-
C12 — Schema serialization round-trips and preserves order.

Model: Model/SchemaSerialize.lean (`Schema::to_ast`: definition + one extension per `ExtensionId` in
`extensions()` = first-appearance order over directives ++ interfaces ++ members; built-in definitions
skipped; implicit `schema` detection) on the abstract schema of Model/SchemaBuild.lean, re-built by the
SchemaBuilder model (`XType::from_ast`, `extend_ast`).

Per type (any kind, any number of extensions, any well-formed body):
  `toAst_build_type`          re-building the definitions `to_ast` emits gives, without any diagnostic, the type
                              with every component list regrouped by origin in `extensions()` order (exact)
  `order_preserved_partial`   PARTIAL (guard `Consistent`): then every list is unchanged — same order
  `consistent_iff_order_preserved`  the guard is exact (necessary and sufficient)
  `toAst_build_type_partial`  the two combined: build (toAst t) = t
  `C12_counterexample`, `C12_counterexample_is_built`  without the guard false, on a schema the builder produces
  `extensions_stable`, `toAst_fixpoint`, `regroup_idempotent`  second serialization = first, for every type (full)
Built schemas:
  `built_types_grouped`       every type the builder produces from definitions with distinct positions has its
                              lists grouped by origin in application order
  `order_preserved_of_discovery_follows_application`  sufficient condition on built types
Whole schema:
  `toAst_build_schema`        explicit schema definition + extensions, new directive definitions, all non built-in
                              types in map order: re-built exactly (regrouped), no diagnostics
  `implicit_roots_spec`       implicit schema definition: the regenerated roots are the ones `to_ast` compared with
Still tied by correspondence only: extensions of built-in types, redefined built-in directives, the
implicit-schema case as a whole, `finishRaw` after the re-build.
-/
namespace Apollo.C12
open Apollo.SchemaBuild Apollo.SchemaSerialize

/-- Re-building what `to_ast` emits for a type: no diagnostics, and exactly the regrouped type. -/
theorem toAst_build_type (t : TypeEntry) (wf : BodyWF t.body) (p : Pos) (hp : t.pos = some p)
    (hb : t.builtin = false) (errs : List Err) :
    ∃ d es, toAstType t = d :: es ∧ typeFromAst t.kind d es errs = (regroupType t, errs) := by
  refine ⟨_, _, by simp only [toAstType, hb]; rfl, ?_⟩
  unfold typeFromAst typeOfDef
  have hdef := extendBody_def (dupIface t.kind t.name) (dupMember t.kind t.name) t.body wf
    (.typeDef t.kind) t.name (t.pos.getD 0) errs
  have e1 : (defOfBody (.typeDef t.kind) t.name (t.pos.getD 0) none t.body).name = t.name := rfl
  have e2 : (defOfBody (.typeDef t.kind) t.name (t.pos.getD 0) none t.body).pos = p := by simp [defOfBody, hp]
  simp only [e1, e2, hdef]
  have := foldl_adoptStep_exts t.kind t.name t.body wf
    { name := t.name, kind := t.kind, builtin := false, pos := some p, body := t.body }
    (extensionsOf t.body) [] errs (by simpa [extensionsOf] using firstOcc_nodup (extOrigins t.body))
  simp only [List.nil_append] at this
  rw [this]
  obtain ⟨n, k, b, pos, body⟩ := t
  simp only [regroupType, regroupBody, groupedBody] at *
  subst hp hb
  rfl

/-- PARTIAL (guard `Consistent`: the order in which `extensions()` discovers the extensions agrees with an
    order in which every component list is grouped): directives, interfaces and fields / values / members keep
    their order.  Missing: bodies where an extension without directives precedes one with directives (etc.),
    for which the code reorders (`C12_counterexample`). -/
theorem order_preserved_partial (t : TypeEntry) (h : Consistent t.body) : regroupType t = t := by
  unfold regroupType
  rw [regroupBody_of_consistent t.body h]

theorem toAst_build_type_partial (t : TypeEntry) (wf : BodyWF t.body) (p : Pos) (hp : t.pos = some p)
    (hb : t.builtin = false) (h : Consistent t.body) (errs : List Err) :
    ∃ d es, toAstType t = d :: es ∧ typeFromAst t.kind d es errs = (t, errs) := by
  obtain ⟨d, es, h1, h2⟩ := toAst_build_type t wf p hp hb errs
  exact ⟨d, es, h1, by rw [h2, order_preserved_partial t h]⟩

/-- the unguarded statement -/
def order_preserved : Prop :=
  ∀ (t : TypeEntry), BodyWF t.body → regroupType t = t

/-- `type Q { f } extend type Q { a } extend type Q @d { b }` as built: positions 0… / 20… / 40… -/
def cexQ : TypeEntry :=
  { name := "Q", kind := .object, builtin := false, pos := some 0,
    body := ⟨[⟨"d", some 50, some 40, ""⟩], [],
             [⟨"f", some 9, none, ""⟩, ⟨"a", some 29, some 20, ""⟩, ⟨"b", some 55, some 40, ""⟩]⟩ }

theorem cexQ_wf : BodyWF cexQ.body :=
  ⟨by unfold HasPos; decide, by unfold HasPos; decide, by unfold HasPos; decide, by decide, by decide⟩

/-- the code re-serializes the extension with the directive first, so the fields come back as f, b, a -/
theorem C12_counterexample_order :
    (regroupType cexQ).body.members.map (·.name) = ["f", "b", "a"]
    ∧ (toAstType cexQ).map (fun d => (d.directives.map (·.name), d.members.map (·.name)))
        = [([], ["f"]), (["d"], ["b"]), ([], ["a"])] := by
  decide +kernel

theorem C12_counterexample : ¬ order_preserved := by
  intro h
  have := h cexQ cexQ_wf
  revert this
  decide +kernel

/-- Regrouping does not change which components an origin contributes, nor their order: the definitions that a
    second `to_ast` emits for the extensions it finds have the same content. -/
theorem parts_preserved (cs : List Comp) (exts : List Pos) (hnd : exts.Nodup) :
    partOf none (regroup exts cs) = partOf none cs
    ∧ ∀ e ∈ exts, partOf (some e) (regroup exts cs) = partOf (some e) cs := by
  refine ⟨?_, ?_⟩
  · unfold partOf; rw [filter_regroup_none]
  · intro e he; unfold partOf; rw [filter_regroup_some cs exts hnd e he]

/-- `extensions()` of a re-built (regrouped) body is `extensions()` of the body — for EVERY body. -/
theorem extensions_stable (b : Body) : extensionsOf (regroupBody b) = extensionsOf b :=
  extensionsOf_regroupBody b

/-- Second serialization = first serialization, for every type (no hypothesis): serializing the re-built type
    emits the same definition and the same extensions in the same order with the same contents. -/
theorem toAst_fixpoint (t : TypeEntry) : toAstType (regroupType t) = toAstType t := by
  have hext := extensionsOf_regroupBody t.body
  have hnd := firstOcc_nodup (extOrigins t.body)
  have pd := parts_preserved t.body.directives (extensionsOf t.body) hnd
  have pi := parts_preserved t.body.interfaces (extensionsOf t.body) hnd
  have pm := parts_preserved t.body.members (extensionsOf t.body) hnd
  unfold toAstType
  simp only [regroupType, hext]
  have hdef : defOfBody (.typeDef t.kind) t.name (t.pos.getD 0) none (regroupBody t.body)
      = defOfBody (.typeDef t.kind) t.name (t.pos.getD 0) none t.body := by
    simp only [defOfBody, regroupBody, pd.1, pi.1, pm.1]
  have hexts : (extensionsOf t.body).map (fun e => defOfBody (.typeExt t.kind) t.name e (some e) (regroupBody t.body))
      = (extensionsOf t.body).map (fun e => defOfBody (.typeExt t.kind) t.name e (some e) t.body) := by
    apply List.map_congr_left
    intro e he
    simp only [defOfBody, regroupBody, pd.2 e he, pi.2 e he, pm.2 e he]
  rw [hdef, hexts]

/-- … hence one round trip reaches a fixed point of the order as well: re-building twice = re-building once. -/
theorem regroup_idempotent (b : Body) : regroupBody (regroupBody b) = regroupBody b := by
  have hnd := firstOcc_nodup (extOrigins b)
  have key : ∀ cs, regroup (extensionsOf b) (regroup (extensionsOf b) cs) = regroup (extensionsOf b) cs := by
    intro cs
    show (regroup (extensionsOf b) cs).filter (fun c => c.origin == none)
        ++ (extensionsOf b).flatMap (fun e => (regroup (extensionsOf b) cs).filter (fun c => c.origin == some e))
      = cs.filter (fun c => c.origin == none)
        ++ (extensionsOf b).flatMap (fun e => cs.filter (fun c => c.origin == some e))
    rw [filter_regroup_none]
    congr 1
    apply flatMap_congr_mem
    intro e he
    exact filter_regroup_some cs (extensionsOf b) hnd e he
  show (⟨_, _, _⟩ : Body) = _
  simp only [extensionsOf_regroupBody b]
  simp only [regroupBody, key]

/-! ### built schemas: grouped by application order; what the guard means -/

/-- For ANY list of definitions with pairwise distinct positions (any interleaving of definitions, extensions,
    collisions, kind mismatches, duplicates), every type in the builder's state has each component list
    grouped by origin: the definition's components, then one block per extension, the blocks in the order
    `P` in which the extensions were applied (queued ones first, in queue order). -/
theorem built_types_grouped (adopt ignoreBuiltin : Bool) (srcs : List (List Def))
    (hnd : (srcs.flatten.map (·.pos)).Nodup) :
    ∀ t ∈ (addSources (Builder.new adopt ignoreBuiltin) srcs).types,
      ∃ P : List Pos, P.Nodup ∧ (∀ p ∈ P, p ∈ srcs.flatten.map (·.pos)) ∧ GroupedBody P t.body := by
  rw [addSources_flatten]
  have := addDocument_inv srcs.flatten [] (Builder.new adopt ignoreBuiltin) (inv_new adopt ignoreBuiltin) (by simpa using hnd)
  simpa using this.2

/-- The guard of `order_preserved_partial` is exact: `Consistent` holds iff the round trip keeps every list. -/
theorem consistent_iff_order_preserved (t : TypeEntry) : Consistent t.body ↔ regroupType t = t := by
  rw [consistent_iff_regroup]
  constructor
  · intro h; unfold regroupType; rw [h]
  · intro h
    have := congrArg TypeEntry.body h
    simpa [regroupType] using this

/-- For a built type (lists grouped by the application order `P`): if `extensions()` discovers the
    extensions in application order, the order is preserved.  Read on the source document: the guard can
    only fail when an extension applied LATER is discovered EARLIER, i.e. it adds to an earlier kind of list
    (directives before interfaces before fields/values/members) than every list an earlier extension adds to,
    while the two share a list — e.g. `extend type Q { a }` followed by `extend type Q @d { b }`. -/
theorem order_preserved_of_discovery_follows_application (t : TypeEntry) (P : List Pos) (hnd : P.Nodup)
    (hg : GroupedBody P t.body) (hsub : (extensionsOf t.body).Sublist P) : regroupType t = t :=
  order_preserved_partial t (consistent_of_grouped P t.body hnd hg hsub)

/-- the source document of the counterexample: `type Q { f }`, `extend type Q { a }`, `extend type Q @d { b }` -/
def cexDoc : List Def :=
  [⟨.typeDef .object, "Q", 0, 5, [], [], [⟨"f", 9, 9, ""⟩]⟩,
   ⟨.typeExt .object, "Q", 20, 32, [], [], [⟨"a", 29, 29, ""⟩]⟩,
   ⟨.typeExt .object, "Q", 40, 52, [⟨"d", 50, 50, ""⟩], [], [⟨"b", 55, 55, ""⟩]⟩]

/-- The counterexample is a built schema whose guard fails: the builder produces exactly `cexQ` from the
    document, its lists are grouped by the application order [20, 40], but `extensions()` discovers [40, 20]
    (the later extension carries the directive), which is not consistent with the field list. -/
theorem C12_counterexample_is_built :
    (addDocument (Builder.new false false) cexDoc).types.find? (fun t => t.name == "Q") = some cexQ
    ∧ extensionsOf cexQ.body = [40, 20]
    ∧ ¬ Consistent cexQ.body := by
  refine ⟨by decide +kernel, by decide +kernel, ?_⟩
  rw [consistent_iff_regroup]
  decide +kernel

-- `Consistent` is weaker than "discovered in application order": an extension adding only a member applied
-- before one adding only a directive is discovered later, yet nothing is reordered (they share no list)
example : Consistent (⟨[⟨"d", some 50, some 40, ""⟩], [], [⟨"a", some 29, some 20, ""⟩]⟩ : Body)
    ∧ ¬ (extensionsOf (⟨[⟨"d", some 50, some 40, ""⟩], [], [⟨"a", some 29, some 20, ""⟩]⟩ : Body)).Sublist [20, 40] := by
  refine ⟨(consistent_iff_regroup _).mpr (by decide +kernel), by decide +kernel⟩

/-! ### the whole schema -/

/-- `Schema::to_ast` re-built from a fresh builder, for a schema with an explicit `schema` definition, new
    (not redefining built-in) directive definitions and untouched built-in types: the result has the same
    `schema` definition (directives and root operations regrouped), the directive definitions in the same
    order, the built-in types followed by the same types IN THE SAME ORDER, each regrouped — and no
    diagnostic.  (`B`: the built-in entries of `s.types`, `U`: the others.) -/
theorem toAst_build_schema (adopt ignoreBuiltin : Bool) (s : Builder) (B U : List TypeEntry) (p : Pos)
    (htypes : s.types = B ++ U)
    (hB : ∀ t ∈ B, t.builtin = true ∧ t.body = Body.empty)
    (hU : ∀ t ∈ U, TypeWF t) (hUn : (U.map (·.name)).Nodup)
    (hUb : ∀ t ∈ U, findType builtinTypes t.name = none)
    (hDn : ((s.directiveDefs.filter (fun d => !d.builtin)).map (·.name)).Nodup)
    (hDb : ∀ d ∈ s.directiveDefs.filter (fun d => !d.builtin), findDir builtinDirectives d.name = none)
    (hsd : BodyWF (schemaBody s.schemaDef)) (hp : s.schemaDef.pos = some p)
    (hexpl : implicitSchema s.schemaDef s.types = false) :
    addDocument (Builder.new adopt ignoreBuiltin) (toAst s) =
      { Builder.new adopt ignoreBuiltin with
        schemaDef := ⟨some p, regroupBody (schemaBody s.schemaDef)⟩, schemaFound := true,
        directiveDefs := builtinDirectives
          ++ (s.directiveDefs.filter (fun d => !d.builtin)).map (fun d => ⟨d.name, some (d.pos.getD 0), false⟩),
        types := builtinTypes ++ U.map regroupType } := by
  have hBnil : B.flatMap toAstType = [] := by
    apply List.flatMap_eq_nil_iff.mpr
    intro t ht
    obtain ⟨h1, h2⟩ := hB t ht
    simp [toAstType, h1, h2, extensionsOf, extOrigins, Body.empty, firstOcc]
  unfold toAst
  rw [htypes, List.flatMap_append, hBnil, List.nil_append, ← htypes, addDocument_append, addDocument_append,
    addDocument_toAstSchema _ _ _ p hsd hp hexpl rfl rfl,
    addDocument_dirDefs _ _ hDn (by intro d hd; exact hDb d hd),
    addDocument_toAstTypes U _ hU hUn (by intro t ht; exact hUb t ht) rfl]
  rfl

/-- When `to_ast` omits the `schema` definition it has checked, for each operation type, that the root is the
    default-named object type if there is one and absent otherwise; `add_implicit_root_types` produces exactly
    those roots when the serialized text is built again. -/
theorem implicit_roots_spec (ts : List TypeEntry) (op dflt : Name)
    (h : (op, dflt) ∈ [("query", "Query"), ("mutation", "Mutation"), ("subscription", "Subscription")]) :
    actualRoot (setRoots ⟨none, Body.empty⟩ (implicitRoots ts)) op = (if isObject ts dflt then some dflt else none) := by
  simp only [List.mem_cons, Prod.mk.injEq, List.mem_nil_iff, or_false] at h
  unfold actualRoot setRoots implicitRoots Body.empty
  cases hq : isObject ts "Query" <;> cases hm : isObject ts "Mutation" <;> cases hs : isObject ts "Subscription" <;>
    rcases h with ⟨rfl, rfl⟩ | ⟨rfl, rfl⟩ | ⟨rfl, rfl⟩ <;> simp [hq, hm, hs, List.filter]

-- non-vacuity: a body whose extension order is consistent (directive-carrying extension first)
def okQ : TypeEntry :=
  { name := "Q", kind := .object, builtin := false, pos := some 0,
    body := ⟨[⟨"d", some 30, some 20, ""⟩], [],
             [⟨"f", some 9, none, ""⟩, ⟨"a", some 35, some 20, ""⟩, ⟨"b", some 49, some 40, ""⟩]⟩ }
example : Consistent okQ.body := ⟨[20, 40], by decide, by decide +kernel, by decide, by decide, by decide⟩
example : BodyWF okQ.body := ⟨by unfold HasPos; decide, by unfold HasPos; decide, by unfold HasPos; decide, by decide, by decide⟩

end Apollo.C12
