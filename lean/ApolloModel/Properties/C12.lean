import ApolloModel.Proofs.SchemaSerialize
/-
C12 — Schema serialization round-trips and preserves order.

Model: Model/SchemaSerialize.lean (`Schema::to_ast`: definition + one extension per `ExtensionId` in
`extensions()` = first-appearance order over directives ++ interfaces ++ members; built-in definitions
skipped; implicit `schema` detection) on the abstract schema of Model/SchemaBuild.lean, re-built by the
SchemaBuilder model (`XType::from_ast`, `extend_ast`).

Per type (any kind, any number of extensions, any well-formed body):
  `toAst_build_type`          re-building the definitions `to_ast` emits gives, without any diagnostic, the type
                              with every component list regrouped by origin in `extensions()` order (exact)
  `order_preserved_partial`   PARTIAL (guard `Consistent`): then every list is unchanged — same order
  `toAst_build_type_partial`  the two combined: build (toAst t) = t
  `C12_counterexample`        without the guard false: `type Q {f} extend type Q {a} extend type Q @d {b}`
                              re-builds with fields f, b, a
  `parts_preserved`, `toAst_fixpoint_partial`  second serialization = first, given that `extensions()` is
                              unchanged by the regrouping (PARTIAL: that last fact is not proved in general)
  `implicit_roots_spec`       the roots the builder generates when no `schema` definition is serialized are
                              exactly the ones `to_ast` compared against when it decided to omit it
The whole-schema round trip (types in map order, schema definition, directive definitions, built-ins) is tied
by correspondence, not proved.
-/
namespace Apollo.C12
open Apollo.SchemaBuild Apollo.SchemaSerialize

/-- Re-building what `to_ast` emits for a type: no diagnostics, and exactly the regrouped type. -/
theorem toAst_build_type (t : TypeEntry) (wf : BodyWF t.body) (p : Pos) (hp : t.pos = some p)
    (hb : t.builtin = false) (errs : List Err) :
    ∃ d es, toAstType t = d :: es ∧ typeFromAst t.kind d es errs = (regroupType t, errs) := by
  refine ⟨_, _, by simp only [toAstType, hb]; rfl, ?_⟩
  unfold typeFromAst typeOfDef
  have hdef := extendBody_def (dupIface t.kind t.name) (dupMember t.kind t.name) t.body wf
    (.typeDef t.kind) t.name (t.pos.getD 0) errs
  have e1 : (defOfBody (.typeDef t.kind) t.name (t.pos.getD 0) none t.body).name = t.name := rfl
  have e2 : (defOfBody (.typeDef t.kind) t.name (t.pos.getD 0) none t.body).pos = p := by simp [defOfBody, hp]
  simp only [e1, e2, hdef]
  have := foldl_adoptStep_exts t.kind t.name t.body wf
    { name := t.name, kind := t.kind, builtin := false, pos := some p, body := t.body }
    (extensionsOf t.body) [] errs (by simpa [extensionsOf] using firstOcc_nodup (extOrigins t.body))
  simp only [List.nil_append] at this
  rw [this]
  obtain ⟨n, k, b, pos, body⟩ := t
  simp only [regroupType, regroupBody, groupedBody] at *
  subst hp hb
  rfl

/-- PARTIAL (guard `Consistent`: the order in which `extensions()` discovers the extensions agrees with an
    order in which every component list is grouped): directives, interfaces and fields / values / members keep
    their order.  Missing: bodies where an extension without directives precedes one with directives (etc.),
    for which the code reorders (`C12_counterexample`). -/
theorem order_preserved_partial (t : TypeEntry) (h : Consistent t.body) : regroupType t = t := by
  unfold regroupType
  rw [regroupBody_of_consistent t.body h]

theorem toAst_build_type_partial (t : TypeEntry) (wf : BodyWF t.body) (p : Pos) (hp : t.pos = some p)
    (hb : t.builtin = false) (h : Consistent t.body) (errs : List Err) :
    ∃ d es, toAstType t = d :: es ∧ typeFromAst t.kind d es errs = (t, errs) := by
  obtain ⟨d, es, h1, h2⟩ := toAst_build_type t wf p hp hb errs
  exact ⟨d, es, h1, by rw [h2, order_preserved_partial t h]⟩

/-- the unguarded statement -/
def order_preserved : Prop :=
  ∀ (t : TypeEntry), BodyWF t.body → regroupType t = t

/-- `type Q { f } extend type Q { a } extend type Q @d { b }` as built: positions 0… / 20… / 40… -/
def cexQ : TypeEntry :=
  { name := "Q", kind := .object, builtin := false, pos := some 0,
    body := ⟨[⟨"d", some 50, some 40, ""⟩], [],
             [⟨"f", some 9, none, ""⟩, ⟨"a", some 29, some 20, ""⟩, ⟨"b", some 55, some 40, ""⟩]⟩ }

theorem cexQ_wf : BodyWF cexQ.body :=
  ⟨by unfold HasPos; decide, by unfold HasPos; decide, by unfold HasPos; decide, by decide, by decide⟩

/-- the code re-serializes the extension with the directive first, so the fields come back as f, b, a -/
theorem C12_counterexample_order :
    (regroupType cexQ).body.members.map (·.name) = ["f", "b", "a"]
    ∧ (toAstType cexQ).map (fun d => (d.directives.map (·.name), d.members.map (·.name)))
        = [([], ["f"]), (["d"], ["b"]), ([], ["a"])] := by
  decide +kernel

theorem C12_counterexample : ¬ order_preserved := by
  intro h
  have := h cexQ cexQ_wf
  revert this
  decide +kernel

/-- Regrouping does not change which components an origin contributes, nor their order: the definitions that a
    second `to_ast` emits for the extensions it finds have the same content. -/
theorem parts_preserved (cs : List Comp) (exts : List Pos) (hnd : exts.Nodup) :
    partOf none (regroup exts cs) = partOf none cs
    ∧ ∀ e ∈ exts, partOf (some e) (regroup exts cs) = partOf (some e) cs := by
  refine ⟨?_, ?_⟩
  · unfold partOf; rw [filter_regroup_none]
  · intro e he; unfold partOf; rw [filter_regroup_some cs exts hnd e he]

/-- the unconditional statement: serializing the re-built type gives the same definitions again -/
def toAst_fixpoint : Prop := ∀ (t : TypeEntry), toAstType (regroupType t) = toAstType t

/-- PARTIAL (hypothesis `hext`: the regrouped body has the same `extensions()` order; true of the
    counterexample below and checked on the implementation by the oracle's byte-identical re-serialization,
    not proved in general). -/
theorem toAst_fixpoint_partial (t : TypeEntry)
    (hext : extensionsOf (regroupBody t.body) = extensionsOf t.body) :
    toAstType (regroupType t) = toAstType t := by
  have hnd := firstOcc_nodup (extOrigins t.body)
  have pd := parts_preserved t.body.directives (extensionsOf t.body) hnd
  have pi := parts_preserved t.body.interfaces (extensionsOf t.body) hnd
  have pm := parts_preserved t.body.members (extensionsOf t.body) hnd
  unfold toAstType
  simp only [regroupType, hext]
  have hdef : defOfBody (.typeDef t.kind) t.name (t.pos.getD 0) none (regroupBody t.body)
      = defOfBody (.typeDef t.kind) t.name (t.pos.getD 0) none t.body := by
    simp only [defOfBody, regroupBody, pd.1, pi.1, pm.1]
  have hexts : (extensionsOf t.body).map (fun e => defOfBody (.typeExt t.kind) t.name e (some e) (regroupBody t.body))
      = (extensionsOf t.body).map (fun e => defOfBody (.typeExt t.kind) t.name e (some e) t.body) := by
    apply List.map_congr_left
    intro e he
    simp only [defOfBody, regroupBody, pd.2 e he, pi.2 e he, pm.2 e he]
  rw [hdef, hexts]

example : toAstType (regroupType cexQ) = toAstType cexQ :=
  toAst_fixpoint_partial cexQ (by decide +kernel)

/-- When `to_ast` omits the `schema` definition it has checked, for each operation type, that the root is the
    default-named object type if there is one and absent otherwise; `add_implicit_root_types` produces exactly
    those roots when the serialized text is built again. -/
theorem implicit_roots_spec (ts : List TypeEntry) (op dflt : Name)
    (h : (op, dflt) ∈ [("query", "Query"), ("mutation", "Mutation"), ("subscription", "Subscription")]) :
    actualRoot (setRoots ⟨none, Body.empty⟩ (implicitRoots ts)) op = (if isObject ts dflt then some dflt else none) := by
  simp only [List.mem_cons, Prod.mk.injEq, List.mem_nil_iff, or_false] at h
  unfold actualRoot setRoots implicitRoots Body.empty
  cases hq : isObject ts "Query" <;> cases hm : isObject ts "Mutation" <;> cases hs : isObject ts "Subscription" <;>
    rcases h with ⟨rfl, rfl⟩ | ⟨rfl, rfl⟩ | ⟨rfl, rfl⟩ <;> simp [hq, hm, hs, List.filter]

-- non-vacuity: a body whose extension order is consistent (directive-carrying extension first)
def okQ : TypeEntry :=
  { name := "Q", kind := .object, builtin := false, pos := some 0,
    body := ⟨[⟨"d", some 30, some 20, ""⟩], [],
             [⟨"f", some 9, none, ""⟩, ⟨"a", some 35, some 20, ""⟩, ⟨"b", some 49, some 40, ""⟩]⟩ }
example : Consistent okQ.body := ⟨[20, 40], by decide, by decide +kernel, by decide, by decide, by decide⟩
example : BodyWF okQ.body := ⟨by unfold HasPos; decide, by unfold HasPos; decide, by unfold HasPos; decide, by decide, by decide⟩

end Apollo.C12
