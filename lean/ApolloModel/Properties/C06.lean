import ApolloModel.Proofs.Strings4
import ApolloModel.Proofs.FromCst
/-
C06 — String literals decode to their spec-defined values.

Model: Model/Strings.lean mirrors `unescape_string`, `GraphQLLines`, `replace_into`,
`unescape_block_string` and `String::from(&cst::StringValue)` of cst/node_ext.rs (hand-written,
tied by the correspondence stream S: every lexically valid literal over a 12-symbol quoted alphabet
up to length 5/6 and an 8-symbol block alphabet up to length 6/7, plus random).
Spec side: `SChar`/`valuesAll` (StringValue semantics) and `specBlockStringValue`
(BlockStringValue steps 1–9) transcribed from October 2021 §2.9.4.
-/
namespace Apollo.C06
open Apollo.Strs

/-- Quoted strings: for every sequence of valid StringCharacters, decoding the rendered body gives
    exactly their semantic values (`\"  \\  \/  \b \f \n \r \t`, `\uXXXX`). -/
theorem unescape_string_spec (items : List SChar) (hv : ∀ x ∈ items, x.valid = true) :
    unescapeString (renderAll items) = valuesAll items := Strs.unescape_string_spec items hv

/-- …and decoding such a body never panics (no `unwrap` on a bad digit or surrogate). -/
theorem unescape_string_no_panic (items : List SChar) (hv : ∀ x ∈ items, x.valid = true) :
    (unescapeString (renderAll items)).isSome = true := by
  rw [unescape_string_spec items hv]; exact valuesAll_isSome items hv

/-- Block strings: `unescape_block_string` is BlockStringValue — common indentation of the lines
    after the first removed, blank leading and trailing lines removed, lines joined with LF, only
    `\"""` unescaped — for EVERY raw value (any mix of `\n`, `\r\n`, `\r`, tabs, BOM, non-ASCII). -/
theorem block_string_spec (raw : Str) : unescapeBlockString raw = specBlockStringValue raw :=
  Strs.block_string_spec raw

/-- the spec's loop for commonIndent (steps 2–3) computes the minimum the code takes -/
theorem common_indent_spec (lines : List Str) :
    specCommonIndent lines = listMin? ((lines.drop 1).filterMap fun l =>
      if countIndent l < l.length then some (countIndent l) else none) := specCommonIndent_eq lines

/-- `String::from(&cst::StringValue)` slices `[3..len-3]` of a block string: in range (no panic)
    for every text that starts with `"""` and has at least the closing three characters. -/
theorem block_decode_no_panic (rest : Str) (h : 3 ≤ rest.length) :
    (decodeStringToken ('"' :: '"' :: '"' :: rest)).isSome = true := by
  unfold decodeStringToken
  have hlt : ¬ (('"' :: '"' :: '"' :: rest).length < 6) := by simp only [List.length_cons]; omega
  simp only [hlt, if_false, Option.isSome_some]

-- Non-vacuity (kernel-evaluated on the model)
example : decodeStringToken ['"', '"', '"', '\n', ' ', ' ', 'a', '\n', ' ', ' ', ' ', 'b', '\n', ' ', '"', '"', '"'] =
    some ['a', '\n', ' ', 'b'] := by decide
example : decodeStringToken ['"', 'a', '\\', 'n', '\\', 'u', '0', '0', 'e', '9', '"'] = some ['a', '\n', 'é'] := by decide

/-! ### growth: what the AST stores is the decoder's reading of the token (Model/FromCst.lean) -/
open Apollo.FromCst in
/-- a string value stored in the AST by `from_cst.rs` (`String::from(&cst::StringValue)`) is `decodeStringToken`
    — the decoder model of this property — applied to the text of the STRING token -/
theorem ast_string_value_is_decoded {R : List Loc} (n : Nat) (p : PE R) (hk : p.kind = "STRING_VALUE")
    (v : Ast.Value) (ls : Locs R) (h : cValue (n + 1) p = some (v, ls)) :
    ∃ t s, textOfFirstToken p = some t ∧ decodeStringToken t = some s ∧ v = .str s :=
  cValue_string_spec n p hk v ls h

open Apollo.FromCst in
/-- the same for descriptions (`cst::Description` → its STRING_VALUE child → the decoder) -/
theorem ast_description_is_decoded {R : List Loc} (p : PE R) (s : Ast.Str) (ls : Locs R)
    (h : descOf p = some (some s, ls)) :
    ∃ d sv t, child "DESCRIPTION" p = some d ∧ child "STRING_VALUE" d = some sv ∧ textOfFirstToken sv = some t ∧
      decodeStringToken t = some s :=
  descOf_spec p s ls h

end Apollo.C06
