import ApolloModel.Proofs.ExecDoc
import ApolloModel.Proofs.AstDocument3
import ApolloModel.Properties.C12
/-
C19 — Executable documents and field sets round-trip.

Model: Model/ExecDoc.lean (`fromDoc` = `document_from_ast` with a schema, `toAst` = `ExecutableDocument::to_ast`,
`cFieldSet` = `FieldSet::serialize_impl`) over the AST, the serializer (`cDocument`, `interp`) and the reference
parser (`pDocument`) of property C08 (Model/Ast.lean, Model/AstParse.lean).
All theorems hold for every schema and every document `document_from_ast` can return (valid or not: what a
valid document adds is that nothing was dropped, so the printed text is never an empty selection set).
-/
namespace Apollo.C19
open Apollo.Ast Apollo.Exec

/-- `to_ast` lists the anonymous operation first, then the named operations, then the fragments. -/
theorem to_ast_order (d : XDoc) :
    toAst d = d.anon.toList.map XOp.toAst ++ d.named.map XOp.toAst ++ d.frags.map XFrag.toAst := rfl

/-- Building is a function of (schema, AST) and every annotation it stores is recomputed from the schema:
    the built document satisfies `ann` (definition = `type_field(parent, name)`, selection-set types as in C18,
    nothing left that a rebuild would drop) with pairwise distinct operation and fragment names. -/
theorem typing_functional (s : XSchema) (ast : Document) : DocInv s (fromDoc s ast) := fromDoc_inv s ast

/-- `to_ast` is a right inverse of `document_from_ast` on its image, for every schema and every source
    document (dropped selections, duplicate names, misplaced anonymous operations included). -/
theorem exec_to_ast_inverse (s : XSchema) (ast : Document) :
    fromDoc s (toAst (fromDoc s ast)) = fromDoc s ast :=
  fromDoc_toAst_of_inv s _ (fromDoc_inv s ast)

/-- the same for a selection set converted under any parent type (field sets) -/
theorem selection_set_to_ast_inverse (s : XSchema) (parent : Str) (t : Sels) :
    fromSels s parent (toSels (fromSels s parent t)) = fromSels s parent t :=
  from_to s _ parent (fromSels_ann s parent t)

/-- **Round trip.** For every indentation setting (prefix or none, initial level): print the typed document,
    read the printed tokens back with the reference parser, build against the same schema: the same typed
    document.  Hypotheses: the printed AST is non-empty and well formed in the sense of C08 (no operation,
    fragment or inline fragment with an empty selection set, no fragment named `on`, no enum value `true` /
    `false` / `null`) — which holds for a valid document. -/
theorem exec_roundtrip (pre : Option Str) (level : Nat) (s : XSchema) (ast : Document)
    (hne : toAst (fromDoc s ast) ≠ []) (hwf : wfDefinitions (toAst (fromDoc s ast)) = true) :
    (pDocument (szDefinitions (toAst (fromDoc s ast)))
        (toksOf (cDocument (outputEmptyAtStart pre level) (toAst (fromDoc s ast))))).map (fromDoc s)
      = some (fromDoc s ast) := by
  rw [C08_print_parse pre level _ hne hwf]
  simp [exec_to_ast_inverse]
where
  C08_print_parse (pre : Option Str) (level : Nat) (doc : Document) (hne : doc ≠ []) (h : wfDefinitions doc = true) :
      pDocument (szDefinitions doc) (toksOf (cDocument (outputEmptyAtStart pre level) doc)) = some doc := by
    rw [toksOf_cDocument]
    exact document_roundtrip _ doc _ hne h (Nat.le_refl _)

/-- …and printing the re-read document again gives byte-identical text. -/
theorem exec_reprint_identical (pre : Option Str) (level : Nat) (s : XSchema) (ast : Document) (doc' : Document)
    (hne : toAst (fromDoc s ast) ≠ []) (hwf : wfDefinitions (toAst (fromDoc s ast)) = true)
    (hp : pDocument (szDefinitions (toAst (fromDoc s ast)))
        (toksOf (cDocument (outputEmptyAtStart pre level) (toAst (fromDoc s ast)))) = some doc') :
    (serializeDocument pre level (toAst (fromDoc s doc'))).out =
      (serializeDocument pre level (toAst (fromDoc s ast))).out := by
  rw [exec_roundtrip.C08_print_parse pre level _ hne hwf] at hp
  cases hp
  rw [exec_to_ast_inverse]

/-! ### field sets -/

/-- reference reader of a field set: a selection set whose outer braces are optional, up to the end of input -/
def pFieldSet (f : Nat) (ts : List Tok) : Option Sels :=
  match ts with
  | .p .lCurly :: r =>
    match pSelsNE f r with
    | some (ss, []) => some ss
    | _ => none
  | _ =>
    match pSelsNE f (ts ++ [.p .rCurly]) with
    | some (ss, []) => some ss
    | _ => none

theorem toksOf_cFieldSet (sels : Sels) : toksOf (cFieldSet sels) = tSels sels := by
  unfold cFieldSet
  cases h : cSels sels with
  | nil =>
    have := toksAll_cSels sels
    rw [h] at this
    simpa using this.symm
  | cons first rest =>
    have := toksAll_cSels sels
    rw [h] at this
    rw [← this]
    simp only [toksOf_append, toksAll_cons]
    congr 1
    have := toksOf_flatten_sep [Cmd.newLineOrSpace] rfl rest
    simpa using this

theorem tSel_head (s : Sel) (r : List Tok) : ∃ t tl, tSel s ++ r = t :: tl ∧ t ≠ .p .lCurly := by
  cases s with
  | field alias name args dirs sels =>
    cases alias <;> simp [tSel]
  | spread name dirs => simp [tSel]
  | inline tc dirs sels => cases tc <;> simp [tSel]

/-- A field set is printed without the outer braces (`a b { c }`), and that text reads back to the same
    selections, whatever the indentation setting (the tokens do not depend on it). -/
theorem fieldset_roundtrip (sels : Sels) (hne : sels ≠ .nil) (hwf : wfSels sels = true) :
    pFieldSet (szSels sels) (toksOf (cFieldSet sels)) = some sels := by
  rw [toksOf_cFieldSet]
  have h := selsNE_roundtrip sels (szSels sels) [] hne hwf (Nat.le_refl _)
  cases sels with
  | nil => exact absurd rfl hne
  | cons s tl =>
    obtain ⟨t, r, ht, hn⟩ := tSel_head s (tSels tl)
    have hts : tSels (.cons s tl) = t :: r := by simpa [tSels] using ht
    rw [hts] at h ⊢
    unfold pFieldSet
    split
    · next heq => simp at heq; exact absurd heq.1 hn
    · simp only [List.cons_append] at h
      simp [h]

/-- …and rebuilding it against the same schema and parent type gives the same typed field set. -/
theorem fieldset_typed_roundtrip (s : XSchema) (parent : Str) (t : Sels)
    (hne : toSels (fromSels s parent t) ≠ .nil) (hwf : wfSels (toSels (fromSels s parent t)) = true) :
    (pFieldSet (szSels (toSels (fromSels s parent t))) (toksOf (cFieldSet (toSels (fromSels s parent t))))).map
        (fromSels s parent) = some (fromSels s parent t) := by
  rw [fieldset_roundtrip _ hne hwf]
  simp [selection_set_to_ast_inverse]

/-! ### schema and executable document from one mixed text (`Parser::parse_mixed_validate`) -/

/-- an executable definition (the schema builder skips these in a mixed document, `document_from_ast` skips
    all the others: `executable_definitions_are_errors = type_system_definitions_are_errors = false`) -/
def isExecDef : Definition → Bool
  | .operation .. => true
  | .fragment .. => true
  | _ => false

theorem fromDef_skip (s : XSchema) (d : XDoc) (x : Definition) (h : isExecDef x = false) : fromDef s d x = d := by
  cases x <;> simp [isExecDef] at h <;> rfl

theorem foldl_fromDef_filter (s : XSchema) (m : Document) : ∀ d : XDoc,
    m.foldl (fromDef s) d = (m.filter isExecDef).foldl (fromDef s) d := by
  induction m with
  | nil => intro d; rfl
  | cons x m ih =>
    intro d
    cases hx : isExecDef x with
    | true => simp [List.filter_cons, hx, ih]
    | false => simp [List.filter_cons, hx, fromDef_skip s d x hx, ih]

/-- The executable document built from a mixed text only depends on its executable definitions, in their order:
    the type-system definitions in between are skipped. -/
theorem mixed_exec_ignores_type_system (s : XSchema) (m : Document) :
    fromDoc s m = fromDoc s (m.filter isExecDef) := foldl_fromDef_filter s m {}

/-- **Mixed round trip, executable half.**  `m`: the AST of the mixed text; `sd'`: whatever type-system
    definitions the re-serialized schema consists of.  For every indentation setting: print `sd'` followed by the
    executable document built from `m`, read the tokens back, build against the same schema: the same executable
    document.  (Hypotheses as in `exec_roundtrip`: the printed AST is well formed in the sense of C08.) -/
theorem mixed_roundtrip_exec (pre : Option Str) (level : Nat) (s : XSchema) (m sd' : Document)
    (hsd : ∀ x ∈ sd', isExecDef x = false)
    (hne : sd' ++ toAst (fromDoc s m) ≠ []) (hwf : wfDefinitions (sd' ++ toAst (fromDoc s m)) = true) :
    (pDocument (szDefinitions (sd' ++ toAst (fromDoc s m)))
        (toksOf (cDocument (outputEmptyAtStart pre level) (sd' ++ toAst (fromDoc s m))))).map (fromDoc s)
      = some (fromDoc s m) := by
  rw [exec_roundtrip.C08_print_parse pre level _ hne hwf]
  have hfilter : (sd' ++ toAst (fromDoc s m)).filter isExecDef = (toAst (fromDoc s m)).filter isExecDef := by
    rw [List.filter_append]
    have : sd'.filter isExecDef = [] := by
      rw [List.filter_eq_nil_iff]; intro x hx; simp [hsd x hx]
    rw [this, List.nil_append]
  simp only [Option.map_some, Option.some.injEq]
  rw [mixed_exec_ignores_type_system, hfilter, ← mixed_exec_ignores_type_system, exec_to_ast_inverse]

open Apollo.SchemaBuild Apollo.SchemaSerialize in
/-- **Mixed round trip** as the conjunction of its two halves, with their exact hypotheses.
    Schema half (property C12, its own model of `SchemaBuilder` / `Schema::to_ast`): for a schema with an explicit
    `schema` definition, new directive definitions and untouched built-in types, building `to_ast` again from a
    fresh builder gives the same schema definition, directive definitions and types in the same order, each
    regrouped, and no diagnostic.  Executable half: `mixed_roundtrip_exec`.  The two models are not connected in
    Lean: that the re-built schema types the executable document identically is the statement that the two
    schemas are equal, which is what the schema half says. -/
theorem mixed_roundtrip
    -- schema half
    (adopt ignoreBuiltin : Bool) (b : Builder) (B U : List TypeEntry) (p : Pos)
    (htypes : b.types = B ++ U) (hB : ∀ t ∈ B, t.builtin = true ∧ t.body = Body.empty)
    (hU : ∀ t ∈ U, TypeWF t) (hUn : (U.map (·.name)).Nodup) (hUb : ∀ t ∈ U, findType builtinTypes t.name = none)
    (hDn : ((b.directiveDefs.filter (fun d => !d.builtin)).map (·.name)).Nodup)
    (hDb : ∀ d ∈ b.directiveDefs.filter (fun d => !d.builtin), findDir builtinDirectives d.name = none)
    (hsd : BodyWF (schemaBody b.schemaDef)) (hp : b.schemaDef.pos = some p)
    (hexpl : implicitSchema b.schemaDef b.types = false)
    -- executable half
    (pre : Option Str) (level : Nat) (s : XSchema) (m sd' : Document)
    (hsd' : ∀ x ∈ sd', isExecDef x = false)
    (hne : sd' ++ toAst (fromDoc s m) ≠ []) (hwf : wfDefinitions (sd' ++ toAst (fromDoc s m)) = true) :
    addDocument (Builder.new adopt ignoreBuiltin) (Apollo.SchemaSerialize.toAst b) =
      { Builder.new adopt ignoreBuiltin with
        schemaDef := ⟨some p, regroupBody (schemaBody b.schemaDef)⟩, schemaFound := true,
        directiveDefs := builtinDirectives
          ++ (b.directiveDefs.filter (fun d => !d.builtin)).map (fun d => ⟨d.name, some (d.pos.getD 0), false⟩),
        types := builtinTypes ++ U.map regroupType } ∧
    (pDocument (szDefinitions (sd' ++ toAst (fromDoc s m)))
        (toksOf (cDocument (outputEmptyAtStart pre level) (sd' ++ toAst (fromDoc s m))))).map (fromDoc s)
      = some (fromDoc s m) :=
  ⟨Apollo.C12.toAst_build_schema adopt ignoreBuiltin b B U p htypes hB hU hUn hUb hDn hDb hsd hp hexpl,
   mixed_roundtrip_exec pre level s m sd' hsd' hne hwf⟩

/-! ### non-vacuity -/

def wS : XSchema :=
  { types := [{ name := "Query".toList, kind := .object,
                fields := [("a".toList, { id := 3, ty := "Int".toList }), ("o".toList, { id := 4, ty := "A".toList })] },
              { name := "Int".toList, kind := .scalar, fields := [] },
              { name := "A".toList, kind := .object, fields := [("a".toList, { id := 5, ty := "Int".toList })] }],
    query := some "Query".toList, mutation := none, subscription := none }

-- `query N { x: o { ... { a } ...F } }  fragment F on A { a __typename }  { a }` (anonymous last in the source)
def wAst : Document :=
  [.operation .query (some "N".toList) [] []
      (.cons (.field (some "x".toList) "o".toList [] []
        (.cons (.inline none [] (.cons (.field none "a".toList [] [] .nil) .nil)) (.cons (.spread "F".toList []) .nil))) .nil),
   .fragment "F".toList "A".toList [] (.cons (.field none "a".toList [] [] .nil) (.cons (.field none "__typename".toList [] [] .nil) .nil))]

example : toAst (fromDoc wS wAst) ≠ [] := by
  intro h
  have := congrArg List.length h
  simp [toAst, fromDoc, wAst, fromDef, wS, XSchema.root, XSchema.findType] at this
example : wfDefinitions wAst = true := by decide

end Apollo.C19
