import ApolloModel.Proofs.ParserLossless
/-
C01 — Parsing never panics, hangs or overflows the stack.

Model: Model/Lexer.lean + Model/Rowan.lean + Model/ParserCore.lean/ParserPrims.lean/Grammar.lean/
ParserEntry.lean — a transliteration of lexer/mod.rs, rowan's GreenNodeBuilder, parser/mod.rs and all
of parser/grammar/*.rs with every `unwrap`/`expect`/`assert!` as an explicit panic outcome.
The grammar is written in a proof-carrying state monad (`PI`), so each grammar function
preserves the builder/recursion-counter invariants by construction.  Tied to the code by the
correspondence stream P (tree + errors + high-water marks, three entry points, all limits).
-/
namespace Apollo.C01
open Apollo.Parse Apollo.Lex

/-- `Parser::parse`, `parse_selection_set` and `parse_type` never panic: no `unwrap` on an empty
    node stack, no failed `start_node_at` assertion, no recursion-counter underflow, and
    `GreenNodeBuilder::finish` always sees exactly one root node — for every input string, token
    limit and recursion limit. -/
theorem parse_no_panic (e : Entry) (tl : Option Nat) (rl : Nat) (src : Parse.Str) (m : String) :
    (parse e tl rl src).outcome ≠ .panic m := Parse.parse_no_panic e tl rl src m

/-- The lexer never loops: every `advance` consumes input, and lexing ends with EOF. -/
theorem lex_terminates (src : Lex.Str) : (lex none src).getLast? = some (.tok .eof []) := (Lex.lex_concat src).2

theorem lex_progress (c : Char) (rest : Lex.Str) :
    (advance (c :: rest)).2.length < (c :: rest).length := (Lex.advance_progress c rest).2

/-- Every grammar function restores the recursion counter (so the
    `assert_eq!(p.recursion_limit.current, 0)` in `document()` cannot fire) and leaves the builder's
    open-node stack as it found it: the `Frame` every `PI` value carries. -/
theorem grammar_balanced {α : Type} (m : PI α) (s s' : PState) (a : α) (hi : Inv s) (h : m.run s = .ok a s') :
    s'.recCur = s.recCur ∧ s'.builder.parents = s.builder.parents := by
  have := m.ok s hi
  simp only [h, Post] at this
  exact ⟨this.2.recCur, this.2.parents⟩

/-- PARTIAL (termination of the parser model): the two model aborts are not excluded by the
    framework — running out of the fuel `4·|src|+20`, and the `peek_while` progress assertion.
    The full statement is kept here; the correspondence check never observes either outcome. -/
def parse_terminates_statement : Prop :=
  ∀ (e : Entry) (tl : Option Nat) (rl : Nat) (src : Parse.Str) (w : Abort), (parse e tl rl src).outcome ≠ .abort w

-- Regression witnesses for the repaired defects (evaluated by the kernel on the model)
def isTree (r : PResult) : Bool := match r.outcome with | .tree _ => true | _ => false
example : isTree (parse .type none 500 []) = true := by decide +kernel
example : isTree (parse .type none 500 ['!']) = true := by decide +kernel
example : isTree (parse .selectionSet none 500 ['é']) = true := by decide +kernel

end Apollo.C01
