import ApolloModel.Proofs.ParserLossless
import ApolloModel.Proofs.ParserTermination8
/-
C01 — Parsing never panics, hangs or overflows the stack.

Model: Model/Lexer.lean + Model/Rowan.lean + Model/ParserCore.lean/ParserPrims.lean/Grammar.lean/
ParserEntry.lean — a transliteration of lexer/mod.rs, rowan's GreenNodeBuilder, parser/mod.rs and all
of parser/grammar/*.rs with every `unwrap`/`expect`/`assert!` as an explicit panic outcome.
The grammar is written in a proof-carrying state monad (`PI`), so each grammar function
preserves the builder/recursion-counter invariants by construction.  Tied to the code by the
correspondence stream P (tree + errors + high-water marks, three entry points, all limits).
-/
namespace Apollo.C01
open Apollo.Parse Apollo.Lex

/-- `Parser::parse`, `parse_selection_set` and `parse_type` never panic: no `unwrap` on an empty
    node stack, no failed `start_node_at` assertion, no recursion-counter underflow, and
    `GreenNodeBuilder::finish` always sees exactly one root node — for every input string, token
    limit and recursion limit. -/
theorem parse_no_panic (e : Entry) (tl : Option Nat) (rl : Nat) (src : Parse.Str) (m : String) :
    (parse e tl rl src).outcome ≠ .panic m := Parse.parse_no_panic e tl rl src m

/-- The lexer never loops: every `advance` consumes input, and lexing ends with EOF. -/
theorem lex_terminates (src : Lex.Str) : (lex none src).getLast? = some (.tok .eof []) := (Lex.lex_concat src).2

theorem lex_progress (c : Char) (rest : Lex.Str) :
    (advance (c :: rest)).2.length < (c :: rest).length := (Lex.advance_progress c rest).2

/-- Every grammar function restores the recursion counter (so the
    `assert_eq!(p.recursion_limit.current, 0)` in `document()` cannot fire) and leaves the builder's
    open-node stack as it found it: the `Frame` every `PI` value carries. -/
theorem grammar_balanced {α : Type} (m : PI α) (s s' : PState) (a : α) (hi : Inv s) (h : m.run s = .ok a s') :
    s'.recCur = s.recCur ∧ s'.builder.parents = s.builder.parents := by
  have := m.ok s hi
  simp only [h, Post] at this
  exact ⟨this.2.recCur, this.2.parents⟩

/-- PARTIAL (termination of the parser model): the two model aborts are not excluded by the
    framework — running out of the fuel `4·|src|+20`, and the `peek_while` progress assertion.
    The full statement is kept here; the correspondence check never observes either outcome. -/
def parse_terminates_statement : Prop :=
  ∀ (e : Entry) (tl : Option Nat) (rl : Nat) (src : Parse.Str) (w : Abort), (parse e tl rl src).outcome ≠ .abort w

/-! ## Termination of the parser model (growth of `parse_terminates_statement`)

Two measures on the token-stream part of the state (Proofs/ParserTermination.lean): `Mm` = how many
tokens can still be consumed, `Phi` = where the first unconsumed token starts.  `Term m s Q`: `m` run
from `s` does not abort (neither `fuel` nor `stuck`) and, if it ends normally, no measure went
backwards, the current token was kept or progress was made (`Keep`), and `Q` holds. -/

/-- Every token-plumbing primitive of parser/mod.rs terminates and never un-consumes input;
    `bump`, `eat` and `err_and_pop` make strict progress in both measures whenever there is a current
    token (otherwise the input is exhausted). In particular the `skip_ignored` loop never runs out of
    its fuel. -/
theorem primitives_progress (kind : Rowan.SK) (s : PState) (hw : W s) :
    Run skipIgnored s (fun _ c l => Skipped c l) ∧
    Run (bump kind) s (fun _ c l => Consumed s c l ∧ Skipped c l) ∧
    Run (eat kind) s (fun _ c l => c = none ∧ Consumed s c l) ∧
    Run errAndPop s (fun _ c l => Consumed s c l) ∧
    Run peekToken s (fun a c l => a = c ∧ Looked s c l) :=
  ⟨skipIgnored_run s hw, bump_run kind s hw, eat_run kind s hw, errAndPop_run s hw, peekToken_run' s hw⟩

/-- progress changes the current token: with a current token, `Phi` is determined by it, so a body
    that made strict progress cannot trip the `debug_assert!(before != self.current_token)` -/
theorem progress_changes_current (s s' : PState) (h : Strict s s') (hs : s.current.isSome = true) :
    s'.current ≠ s.current := strict_current_ne h hs

/-- `STUCK`-FREEDOM AND LOOP FUEL, for every loop body: if the body of a `peek_while` terminates from
    every state that has a current token and makes strict progress whenever it asks to continue, then
    the loop never fails its progress assertion and never exhausts its fuel (`|src| + 3`). -/
theorem peek_while_terminates (body : Kind → PI Bool) (s : PState) (hw : W s)
    (hbody : ∀ kind s1, W s1 → Mm s1 ≤ Mm s → (∃ t, s1.current = some t ∧ t.kind = kind) →
      Term (body kind) s1 (fun b c l => b = true → StrictT s1 c l)) :
    Term (peekWhile body) s (fun _ _ _ => True) := peekWhile_term body s hw hbody

/-- the same for `peek_while_kind` -/
theorem peek_while_kind_terminates (expectK : Kind) (body : PI Unit) (s : PState) (hw : W s)
    (hbody : ∀ s1, W s1 → Mm s1 ≤ Mm s → (∃ t, s1.current = some t ∧ t.kind = expectK) →
      Term body s1 (fun _ c l => StrictT s1 c l)) :
    Term (peekWhileKind expectK body) s (fun _ _ _ => True) := peekWhileKind_term expectK body s hw hbody

/-- the node / recursion-limit / checkpoint combinators add no abort of their own -/
theorem combinators_terminate {α : Type} (kind : Rowan.SK) (body onLimit : PI α) (s : PState) (hw : W s)
    {Q : α → Option Tok → LexSt → Prop}
    (hb : ∀ s1, W s1 → s1.current = s.current → s1.lx = s.lx → Term body s1 Q)
    (hl : ∀ s1, W s1 → s1.current = s.current → s1.lx = s.lx → Term onLimit s1 Q) :
    Term (withRec onLimit body) s Q ∧
    ((∀ s1, W s1 → s1.current = s.current → s1.lx = s.lx → Term (skipIgnored >>= fun _ => body) s1 Q) →
      Term (withNode kind body) s Q) :=
  ⟨withRec_term onLimit body s hw hl hb, fun h => withNode_term kind body s hw h⟩

/-- ty.rs: the type grammar (unbounded `[[[…]]]!` nesting, checkpoint/wrap for `!`) terminates whenever
    the fuel exceeds the number of tokens left: each recursive call follows a consumed `[` -/
theorem type_grammar_terminates (n : Nat) (s : PState) (hw : W s) (hn : Mm s + 1 ≤ n) :
    Term (tyParse n) s (fun _ _ _ => True) := tyParse_term n s hw hn

/-- building blocks every remaining loop body reduces to: `let _g = start_node(k); bump(k')` consumes
    the current token, and `name()` consumes it when it is a Name (so `peek_while_kind(Name, …)` bodies
    that start with `name` satisfy the hypothesis of `peek_while_kind_terminates`) -/
theorem node_bump_and_name_consume (kind k : Rowan.SK) (s : PState) (hw : W s) :
    Term (withNode kind (bump k)) s (fun _ c l => s.current.isSome = true → StrictT s c l) ∧
    Term name s (fun _ c l => ∀ t, s.current = some t → t.kind = .name → StrictT s c l) :=
  ⟨withNode_bump_term kind k s hw, name_term s hw⟩

/-- value.rs: the mutually recursive value grammar (`value` → `list_value` / `object_value` →
    `object_field` → `value`, unbounded nesting, const and non-const, with and without
    `pop_on_error`) terminates whenever the fuel is at least `2·Mm + 2` (`2·Mm + 1` for the three
    inner functions): both loops (`peek_while` in list_value, `peek_while_kind(Name)` in object_value)
    are instances of the loop theorems — their bodies consume a token under the guard — and every
    recursive call follows a consumed token.  With `pop_on_error`, `value` always consumes the token it
    looks at (what the list loop needs); `object_field` consumes its Name. -/
theorem value_grammar_terminates (n : Nat) : ValueGoal n := value_family n

/-- PARTIAL of `parse_terminates_statement` — the entry point `Parser::parse_type`, for every input,
    token limit and recursion limit: never out of fuel, never stuck.  Remaining obligations for the
    other two entry points: a `Term` lemma per grammar function of selection.rs/field.rs/
    fragment.rs, and the definition parsers dispatched by document.rs — each is an instance of
    `peek_while_terminates` / `peek_while_kind_terminates` once its loop bodies are shown to consume a
    token under the loop guard (the guards are token kinds, and every body starts by bumping or by
    `name`/`expect` on that kind), plus the depth bound `4·|src|+20 ≥ 4·Mm + rank` for the mutual
    recursion selectionSet→selection→field→selectionSet (value.rs is done: `value_grammar_terminates`). -/
theorem parse_terminates_partial (tl : Option Nat) (rl : Nat) (src : Parse.Str) (w : Abort) :
    (parse .type tl rl src).outcome ≠ .abort w := parse_type_terminates tl rl src w

/-- argument.rs / directive.rs: `arguments` and `directives` (and their loop bodies `argument`,
    `directive`, which consume the Name / `@` their `peek_while_kind` guard saw) terminate whenever
    the fuel is at least `4·Mm + 4` -/
theorem arguments_directives_terminate (n : Nat) (isConst : Bool) (s : PState) (hw : W s) (hb : 4 * Mm s + 4 ≤ n) :
    Term (arguments n isConst) s (fun _ _ _ => True) ∧ Term (directives n isConst) s (fun _ _ _ => True) :=
  ⟨ta_arguments n isConst s hw hb, ta_directives n isConst s hw hb⟩

/-- selection.rs / field.rs / fragment.rs: the cycle selectionSet → selection → field / inlineFragment
    → selectionSet terminates with the depth bounds `4·Mm + 2 / 5 / 4 / 4` (each turn of the cycle
    consumes a token; `selection`'s flag loop is an instance of the loop theorem: every `Continue`
    follows a consumed `...` or field Name) -/
theorem selection_grammar_terminates (n : Nat) : SelGoal n := sel_family n

/-- PARTIAL of `parse_terminates_statement` — the entry point `Parser::parse_selection_set`, for
    every input, token limit and recursion limit: never out of fuel, never stuck. -/
theorem parse_selection_set_terminates (tl : Option Nat) (rl : Nat) (src : Parse.Str) (w : Abort) :
    (parse .selectionSet tl rl src).outcome ≠ .abort w := Parse.parse_selection_set_terminates tl rl src w

/-- the definition parsers dispatched by `document()`: each terminates (fuel `≥ 4·Mm + 4`) and consumes a
    token when entered on a description string or on its keyword — what the `document()` loop's
    progress assertion needs.  Proved for the scalar / object / interface / union / enum / input-object
    / schema / directive definitions (and, in Proofs/ParserTermination7.lean, for the fragment
    definition and the scalar / object / interface / union / enum / input-object extensions, entered on
    any token). -/
theorem definitions_terminate_and_consume (n : Nat) (s : PState) (hw : W s) (hb : 4 * Mm s + 4 ≤ n) :
    Term (scalarTypeDefinition n) s (GC (DefGuard "scalar") s) ∧
    Term (objectTypeDefinition n) s (GC (DefGuard "type") s) ∧
    Term (interfaceTypeDefinition n) s (GC (DefGuard "interface") s) ∧
    Term (unionTypeDefinition n) s (GC (DefGuard "union") s) ∧
    Term (enumTypeDefinition n) s (GC (DefGuard "enum") s) ∧
    Term (inputObjectTypeDefinition n) s (GC (DefGuard "input") s) ∧
    Term (schemaDefinition n) s (GC (DefGuard "schema") s) ∧
    Term (directiveDefinition n) s (GC (DefGuard "directive") s) ∧
    Term (fragmentDefinition n) s (GC GAny s) :=
  ⟨gc_scalarTypeDefinition n s hw hb, gc_objectTypeDefinition n s hw hb, gc_interfaceTypeDefinition n s hw hb,
   gc_unionTypeDefinition n s hw hb, gc_enumTypeDefinition n s hw hb, gc_inputObjectTypeDefinition n s hw hb,
   gc_schemaDefinition n s hw hb, gc_directiveDefinition n s hw hb, gc_fragmentDefinition n s hw hb⟩

/-- THE PARSER MODEL TERMINATES — `parse_terminates_statement` is a theorem: for every entry point
    (`Parser::parse`, `parse_selection_set`, `parse_type`), every input, token limit and recursion
    limit, the outcome is never an abort: the model's fuel `4·|src|+20` never runs out and the
    `peek_while` / `peek_while_kind` progress assertions never fail.  With `parse_no_panic` this is the
    "never panics, never hangs" clause of C01 for the whole parser model.
    (document.rs: every definition parser consumes a token when `document()` dispatches to it —
    on a description string or on its keyword — so the top-level `peek_while` is an instance of
    `peek_while_terminates`; Proofs/ParserTermination4–8.lean.) -/
theorem parse_terminates : parse_terminates_statement :=
  fun e tl rl src w => Parse.parse_terminates e tl rl src w

-- Regression witnesses for the repaired defects (evaluated by the kernel on the model)
def isTree (r : PResult) : Bool := match r.outcome with | .tree _ => true | _ => false
example : isTree (parse .type none 500 []) = true := by decide +kernel
example : isTree (parse .type none 500 ['!']) = true := by decide +kernel
example : isTree (parse .selectionSet none 500 ['é']) = true := by decide +kernel

end Apollo.C01
