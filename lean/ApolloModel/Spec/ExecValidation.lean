import ApolloModel.Model.ExecValidation
import ApolloModel.Spec.Types
/-
Specification side of C17, written from the GraphQL specification (October 2021), not from the Rust:
§5.3.2 (identical arguments, SameResponseShape, FieldsInSetCanMerge), §5.2.3.1 with §6.3.2
CollectFields, §5.5.1.4 (fragments must be used).  Data types are shared with the model.
-/
namespace Apollo.Spec.ExecVal
open Apollo Apollo.ExecVal Apollo.Spec

/-! ### identical argument values
Two input values are the same value when they are the same kind of literal with the same content;
lists are equal element by element (so they have the same length); input objects are unordered:
every field of one occurs, with the same value, in the other. -/
mutual
inductive SpecEq : Value → Value → Prop where
  | null : SpecEq .null .null
  | enum (a : String) : SpecEq (.enum a) (.enum a)
  | var (a : String) : SpecEq (.var a) (.var a)
  | str (a : String) : SpecEq (.str a) (.str a)
  | float (a : String) : SpecEq (.float a) (.float a)
  | int (a : String) : SpecEq (.int a) (.int a)
  | bool (a : Bool) : SpecEq (.bool a) (.bool a)
  | list {l r : List Value} : ListEq l r → SpecEq (.list l) (.list r)
  | object {l r : List (String × Value)} : FieldsSub l r → FieldsSup l r → SpecEq (.object l) (.object r)
inductive ListEq : List Value → List Value → Prop where
  | nil : ListEq [] []
  | cons {a b : Value} {l r : List Value} : SpecEq a b → ListEq l r → ListEq (a :: l) (b :: r)
/-- every field of the left object occurs in the right one -/
inductive FieldsSub : List (String × Value) → List (String × Value) → Prop where
  | nil {r : List (String × Value)} : FieldsSub [] r
  | cons {k : String} {v : Value} {l r : List (String × Value)} : HasField k v r → FieldsSub l r → FieldsSub ((k, v) :: l) r
/-- every field of the right object occurs in the left one -/
inductive FieldsSup : List (String × Value) → List (String × Value) → Prop where
  | nil {l : List (String × Value)} : FieldsSup l []
  | cons {k : String} {v : Value} {l r : List (String × Value)} : FieldOf k v l → FieldsSup l r → FieldsSup l ((k, v) :: r)
/-- `(k, v')` with `SpecEq v v'` is a member -/
inductive HasField : String → Value → List (String × Value) → Prop where
  | here {k : String} {v v' : Value} {r : List (String × Value)} : SpecEq v v' → HasField k v ((k, v') :: r)
  | there {k : String} {v : Value} {kv : String × Value} {r : List (String × Value)} : HasField k v r → HasField k v (kv :: r)
/-- `(k, v')` with `SpecEq v' v` is a member -/
inductive FieldOf : String → Value → List (String × Value) → Prop where
  | here {k : String} {v v' : Value} {l : List (String × Value)} : SpecEq v' v → FieldOf k v ((k, v') :: l)
  | there {k : String} {v : Value} {kv : String × Value} {l : List (String × Value)} : FieldOf k v l → FieldOf k v (kv :: l)
end

/-! ### SameResponseShape, steps 3–6 on the two field types (§5.3.2) -/

/-- `kind` gives the kind of a named type.  3: non-null on either side — both must be, unwrap.
    4: list on either side — both must be, take the item types, repeat.  5: a scalar or enum on
    either side — the same type.  6: otherwise both composite. -/
def sameNamedShape (kind : Name → Option TypeKind) (a b : Name) : Bool :=
  match kind a, kind b with
  | some ka, some kb =>
    if ka.isLeaf || kb.isLeaf then a == b        -- 5
    else ka.isComposite && kb.isComposite        -- 6
  | _, _ => true      -- a type the schema does not define: other rules report it

def sameShape (kind : Name → Option TypeKind) : STy → STy → Bool
  | .nonNull a, .nonNull b => sameShape kind a b
  | .nonNull _, .named _ => false
  | .nonNull _, .list _ => false
  | .named _, .nonNull _ => false
  | .list _, .nonNull _ => false
  | .list a, .list b => sameShape kind a b
  | .list _, .named _ => false
  | .named _, .list _ => false
  | .named a, .named b => sameNamedShape kind a b

/-! ### subscriptions: CollectFields (§6.3.2) at the root, all fragments applicable, no variables -/

abbrev Grouped := List (String × List String)    -- ordered map: response key ↦ field names

/-- "Let groupForResponseKey be the list in groupedFields for responseKey; if no such list exists,
    create it as an empty list.  Append selection to the groupForResponseKey." -/
def addField (k n : String) : Grouped → Grouped
  | [] => [(k, [n])]
  | (k', ns) :: rest => if k == k' then (k', ns ++ [n]) :: rest else (k', ns) :: addField k n rest

structure CSt where
  visited : List Nat
  grouped : Grouped

/-- CollectFields; the grouped field set of a fragment is merged into the current one, which is the
    same as collecting into it.  `@skip`/`@include` are not interpreted here: apollo-compiler's own
    rule (a deliberate difference) rejects them at the root of a subscription. -/
def goCollect (frags : List Sels) (rec : Sels → CSt → CSt) : Sels → CSt → CSt
  | .nil, st => st
  | .field key name _ rest, st => goCollect frags rec rest { st with grouped := addField key name st.grouped }
  | .inline _ sub rest, st => goCollect frags rec rest (goCollect frags rec sub st)
  | .spread j _ rest, st =>
    if st.visited.contains j then goCollect frags rec rest st
    else
      let st := { st with visited := j :: st.visited }
      match frags[j]? with
      | none => goCollect frags rec rest st
      | some body => goCollect frags rec rest (rec body st)

def collect (frags : List Sels) : Nat → Sels → CSt → CSt
  | 0 => goCollect frags (fun _ st => st)
  | k + 1 => goCollect frags (collect frags k)

def collectFields (frags : List Sels) (op : Sels) : Grouped :=
  (collect frags frags.length op { visited := [], grouped := [] }).grouped

/-- "groupedFieldSet must have exactly one entry": more than one entry is the error the
    implementation calls SubscriptionUsesMultipleFields -/
def moreThanOneEntry (frags : List Sels) (op : Sels) : Bool := (collectFields frags op).length > 1

/-! ### FieldsInSetCanMerge / SameResponseShape as the spec's pairwise recursive definitions -/

/-- "given each pair of members" of a list -/
def allPairs {α : Type} (rel : α → α → Bool) : List α → Bool
  | [] => true
  | a :: rest => rest.all (rel a) && allPairs rel rest

/-- SameResponseShape(fieldA, fieldB): the types have the same shape and, for the merged
    sub-selections, every pair with the same response name has the same response shape -/
def sameResponseShape : Nat → AField → AField → Bool
  | 0, _, _ => true
  | n + 1, a, b =>
    a.shape == b.shape &&
      allPairs (fun x y => x.key != y.key || sameResponseShape n x y) (a.subs ++ b.subs)

/-- FieldsInSetCanMerge(set) on the collected fields of `set` -/
def fieldsInSetCanMerge : Nat → List AField → Bool
  | 0, _ => true
  | n + 1, fs =>
    allPairs (fun a b =>
      a.key != b.key ||
        (sameResponseShape (n + 1) a b &&
          (!(a.parent == b.parent || !a.parentIsObject || !b.parentIsObject) ||
            (a.nameArgs == b.nameArgs && fieldsInSetCanMerge n (a.subs ++ b.subs))))) fs

/-- "Let set be any selection set defined in the GraphQL document": the set itself and the
    sub-selection of every field in it -/
def documentFieldsCanMerge : Nat → List AField → Bool
  | 0, _ => true
  | n + 1, fs => fieldsInSetCanMerge (n + 1) fs && fs.all fun f => documentFieldsCanMerge n f.subs

/-! ### fragments must be used: reachability through spreads -/

/-- fragment `j` is spread by an operation, or by a fragment that is used -/
inductive Used (frags : List (List Nat)) (ops : List (List Nat)) : Nat → Prop where
  | root {op : List Nat} {j : Nat} : op ∈ ops → j ∈ op → Used frags ops j
  | step {i j : Nat} {body : List Nat} : Used frags ops i → frags[i]? = some body → j ∈ body → Used frags ops j

end Apollo.Spec.ExecVal
