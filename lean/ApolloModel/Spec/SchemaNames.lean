import ApolloModel.Model.SchemaNames
/-
§2.1.9 / §3 "Reserved Names": "Any Name within a GraphQL type system must not start with two underscores
'__' unless it is part of the introspection system as defined by this specification" — stated for types
(§3.4), fields and arguments (§3.6, §3.7), input fields (§3.10), enum values (§3.9: via Name), directives and
their arguments (§3.13).
-/
namespace Apollo.SchemaNames.Spec
open Apollo.SchemaNames

/-- the name starts with two underscores -/
def Reserved (cs : List Char) : Prop := ∃ rest, cs = '_' :: '_' :: rest

/-- the names a type-system document introduces, with the kind of thing they name -/
inductive NamesOf (s : SchemaNames) : Site → N → Prop where
  | directive (d : DirNames) : d ∈ s.directives → NamesOf s .directive d.name
  | directiveArg (d : DirNames) (a : N) : d ∈ s.directives → a ∈ d.args → NamesOf s .argument a
  | type (t : TypeNames) : t ∈ s.types → NamesOf s .type t.name
  | field (t : TypeNames) (fs : List FieldNames) (f : FieldNames) :
      t ∈ s.types → t.members = .fields fs → f ∈ fs → NamesOf s .field f.name
  | fieldArg (t : TypeNames) (fs : List FieldNames) (f : FieldNames) (a : N) :
      t ∈ s.types → t.members = .fields fs → f ∈ fs → a ∈ f.args → NamesOf s .argument a
  | enumValue (t : TypeNames) (vs : List N) (v : N) : t ∈ s.types → t.members = .values vs → v ∈ vs → NamesOf s .enumValue v
  | inputField (t : TypeNames) (fs : List N) (f : N) :
      t ∈ s.types → t.members = .inputFields fs → f ∈ fs → NamesOf s .inputField f

/-- no name outside the introspection system is reserved -/
def NoReservedNames (s : SchemaNames) : Prop :=
  ∀ site n, NamesOf s site n → n.builtIn = false → ¬ Reserved n.chars

end Apollo.SchemaNames.Spec
