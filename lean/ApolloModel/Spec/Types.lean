import ApolloModel.Model.Types
/-
The GraphQL specification's view of type references (October 2021 §3.4, §5.8.5, §3.6.1):
named | list | non-null wrappers, and the three algorithms AreTypesCompatible,
IsVariableUsageAllowed, IsValidImplementationFieldType written from the spec text.
-/
namespace Apollo.Spec

inductive STy where
  | named (n : Name)
  | list (t : STy)
  | nonNull (t : STy)
  deriving Repr, DecidableEq, Inhabited

namespace STy

/-- The grammar forbids `T!!`. -/
def WF : STy → Bool
  | .named _ => true
  | .list t => WF t
  | .nonNull (.nonNull _) => false
  | .nonNull t => WF t

def isNonNull : STy → Bool
  | .nonNull _ => true
  | _ => false

/-- AreTypesCompatible(variableType, locationType), spec §5.8.5:
1. If locationType is a non-null type: if variableType is NOT non-null return false; recurse on the
   two nullable types.  2. Otherwise, if variableType is non-null, recurse on its nullable type.
3. Otherwise, if locationType is a list type: if variableType is NOT a list return false; recurse on
   the item types.  4. Otherwise, if variableType is a list type, return false.
5. Return true iff the two types are the same. -/
def compat : STy → STy → Bool
  | .nonNull v, .nonNull l => compat v l
  | .named _, .nonNull _ => false
  | .list _, .nonNull _ => false
  | .nonNull v, .named l => compat v (.named l)
  | .nonNull v, .list l => compat v (.list l)
  | .list v, .list l => compat v l
  | .named _, .list _ => false
  | .list _, .named _ => false
  | .named a, .named b => a == b

end STy

/-- embedding of the four-constructor representation -/
def embed : Ty → STy
  | .named n => .named n
  | .nonNullNamed n => .nonNull (.named n)
  | .list t => .list (embed t)
  | .nonNullList t => .nonNull (.list (embed t))

/-- Inverse on well-formed types. -/
def unembed : STy → Ty
  | .named n => .named n
  | .list t => .list (unembed t)
  | .nonNull (.named n) => .nonNullNamed n
  | .nonNull (.list t) => .nonNullList (unembed t)
  | .nonNull (.nonNull t) => unembed (.nonNull t)

/-- What the rule needs to know about a variable definition's default value. -/
inductive DefaultValue where
  | absent
  | null
  | nonNullValue
  deriving Repr, DecidableEq

/-- IsVariableUsageAllowed(variableDefinition, variableUsage), spec §5.8.5. -/
def variableUsageAllowed (variableType : STy) (varDefault : DefaultValue)
    (locationType : STy) (hasLocationDefault : Bool) : Bool :=
  match locationType, variableType.isNonNull with
  | .nonNull nullableLocationType, false =>
    let hasNonNullVariableDefaultValue := varDefault == .nonNullValue
    if !hasNonNullVariableDefaultValue && !hasLocationDefault then false
    else STy.compat variableType nullableLocationType
  | _, _ => STy.compat variableType locationType

/-- IsValidImplementationFieldType(fieldType, implementedFieldType), spec §3.6.1 / §3.7, with the
    schema's relation `sub abstractName concreteName` ("is a possible type of / declares it
    implements") abstract. -/
def validImplFieldType (sub : Name → Name → Bool) : STy → STy → Bool
  -- 1. fieldType non-null: unwrap it, and unwrap implementedFieldType if it is non-null too
  | .nonNull f, .nonNull i => validImplFieldType sub f i
  | .nonNull f, .named i => validImplFieldType sub f (.named i)
  | .nonNull f, .list i => validImplFieldType sub f (.list i)
  -- 2. both lists: recurse on item types
  | .list f, .list i => validImplFieldType sub f i
  -- 3./4./5. same type, or implementedFieldType is an abstract type that fieldType belongs to
  | .named f, .named i => f == i || sub i f
  -- 6. otherwise false
  | .named _, .list _ => false
  | .named _, .nonNull _ => false
  | .list _, .named _ => false
  | .list _, .nonNull _ => false

end Apollo.Spec
