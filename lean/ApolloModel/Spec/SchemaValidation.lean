import ApolloModel.Model.SchemaValidation
/-
Declarative side of C14/C15, written from the GraphQL specification (October 2021):
§3.10 Input Objects "Circular References", §3.6/§3.7 transitive interfaces, §3.3.1 root operation
types, §3.13 directive definitions must not reference themselves directly or indirectly.
The data types (`IGraph`, `ISchema`, `DSchema`, …) are shared with the model; the predicates below do
not mention the search algorithms.
-/
namespace Apollo.SchemaValidation.Spec
open Apollo.SchemaValidation

/-! ### input objects: a chain of non-null singular fields -/

/-- input object `a` has a non-null, non-list field whose type is input object `b` -/
def IEdge (g : IGraph) (a b : Nat) : Prop :=
  ∃ f ∈ g.fields a, f.nonNullNamed = true ∧ f.target = b ∧ b < g.length

/-- one or more such references in a row -/
inductive IReach (g : IGraph) : Nat → Nat → Prop
  | single {a b} : IEdge g a b → IReach g a b
  | cons {a b c} : IEdge g a b → IReach g b c → IReach g a c

/-- "an Input Object references itself … through a chain of Non-Null singular fields" -/
def InputCycleThrough (g : IGraph) (r : Nat) : Prop := IReach g r r

/-- an explicit path `u → ws₀ → … → r` -/
def IPath (g : IGraph) : Nat → List Nat → Nat → Prop
  | u, [], r => IEdge g u r
  | u, w :: ws, r => IEdge g u w ∧ IPath g w ws r

/-! ### interfaces: transitively implemented interfaces -/

/-- type `a` lists `b` after `implements` -/
def Declares (s : ISchema) (a b : Nat) : Prop := ∃ t, s[a]? = some t ∧ b ∈ t.implements

/-- `c` is implemented by `a` directly or through a chain of (defined) interfaces -/
inductive ImplReach (s : ISchema) : Nat → Nat → Prop
  | base {a c} : Declares s a c → ImplReach s a c
  | step {a b c} : Declares s a b → (getInterface s b).isSome → ImplReach s b c → ImplReach s a c

/-- every transitively implemented interface is declared by the implementing type -/
def TransitiveClosed (s : ISchema) : Prop := ∀ a c, ImplReach s a c → Declares s a c

/-! ### root operation types -/

/-- query provided; every provided root is an object type; all provided roots are different types -/
def RootsValid (q m sub : Option RootTarget) : Prop :=
  q.isSome = true ∧ (∀ t ∈ [q, m, sub].filterMap id, ∃ n, t = RootTarget.object n) ∧
    (([q, m, sub].filterMap id).map RootTarget.name).Nodup

/-! ### directive definitions referencing themselves -/

inductive DStep (s : DSchema) : Item → Item → Prop
  | dirArg {d args a} : s.dirs[d]? = some args → a ∈ args → DStep s (.dir d) (.arg a)
  | argDir {a d} : d ∈ a.dirs → DStep s (.arg a) (.dir d)
  | argTy {a k} : a.ty = some k → k < s.types.length → DStep s (.arg a) (.ty k)
  | tyItem {k t x} : s.types[k]? = some t → x ∈ typeItems t → DStep s (.ty k) x

inductive DReach (s : DSchema) : Item → Item → Prop
  | refl {x} : DReach s x x
  | step {x y z} : DStep s x y → DReach s y z → DReach s x z

/-- directive `d`'s definition contains (directly, or through argument types and other directives'
    definitions) a use of `@d` -/
def DirectiveSelfReference (s : DSchema) (d : Nat) : Prop :=
  ∃ args a, s.dirs[d]? = some args ∧ a ∈ args ∧ DReach s (.arg a) (.dir d)

end Apollo.SchemaValidation.Spec
