/-
The lexical grammar of GraphQL, October 2021 edition, §2.1–§2.9 (Appendix B.2/B.3), written from
the specification text — independent of the lexer model.  Import-free.

  SourceCharacter :: U+0009 | U+000A | U+000D | U+0020–U+FFFF
  LineTerminator  :: LF | CR [lookahead != LF] | CR LF
  Comment         :: # CommentChar*          CommentChar :: SourceCharacter but not LineTerminator
  Punctuator      :: one of ! $ & ( ) ... : = @ [ ] { | }
  Name            :: NameStart NameContinue* [lookahead != NameContinue]
  IntValue        :: IntegerPart [lookahead != {Digit, `.`, NameStart}]
  IntegerPart     :: NegativeSign? 0 | NegativeSign? NonZeroDigit Digit*
  FloatValue      :: IntegerPart FractionalPart ExponentPart [lookahead != {Digit, `.`, NameStart}]
                   | IntegerPart FractionalPart [lookahead …] | IntegerPart ExponentPart [lookahead …]
  FractionalPart  :: . Digit+        ExponentPart :: ExponentIndicator Sign? Digit+
  StringValue     :: `""` [lookahead != `"`] | `"` StringCharacter+ `"` | BlockString
  StringCharacter :: SourceCharacter but not `"` or `\` or LineTerminator
                   | \u EscapedUnicode (4 hex digits) | \ EscapedCharacter (one of " \ / b f n r t)
-/
namespace Apollo.Spec.Lexical

abbrev Str := List Char

def isDigit (c : Char) : Bool := '0' ≤ c && c ≤ '9'
def isNonZeroDigit (c : Char) : Bool := '1' ≤ c && c ≤ '9'
def isLetter (c : Char) : Bool := ('A' ≤ c && c ≤ 'Z') || ('a' ≤ c && c ≤ 'z')
def isNameStart (c : Char) : Bool := isLetter c || c == '_'
def isNameContinue (c : Char) : Bool := isLetter c || isDigit c || c == '_'
def isLineTerminator (c : Char) : Bool := c == '\n' || c == '\r'
def isHexDigit (c : Char) : Bool := isDigit c || ('A' ≤ c && c ≤ 'F') || ('a' ≤ c && c ≤ 'f')
/-- EscapedCharacter :: one of `"` `\` `/` b f n r t -/
def isEscapedCharacter (c : Char) : Bool :=
  c == '"' || c == '\\' || c == '/' || c == 'b' || c == 'f' || c == 'n' || c == 'r' || c == 't'
/-- SourceCharacter (October 2021) -/
def isSourceCharacter (c : Char) : Bool :=
  c == '\t' || c == '\n' || c == '\r' || (0x20 ≤ c.toNat && c.toNat ≤ 0xFFFF)

/-! ### numbers (§2.9.1, §2.9.2) -/

def IsNegativeSignOpt (s : Str) : Prop := s = [] ∨ s = ['-']

/-- IntegerPart :: NegativeSign? 0 | NegativeSign? NonZeroDigit Digit* -/
def IsIntegerPart (s : Str) : Prop :=
  ∃ neg ds, s = neg ++ ds ∧ IsNegativeSignOpt neg ∧
    (ds = ['0'] ∨ ∃ d rest, ds = d :: rest ∧ isNonZeroDigit d = true ∧ rest.all isDigit = true)

/-- FractionalPart :: . Digit+ -/
def IsFractionalPart (s : Str) : Prop := ∃ ds, s = '.' :: ds ∧ ds ≠ [] ∧ ds.all isDigit = true

/-- ExponentPart :: ExponentIndicator Sign? Digit+ -/
def IsExponentPart (s : Str) : Prop :=
  ∃ c sign ds, s = c :: (sign ++ ds) ∧ (c = 'e' ∨ c = 'E') ∧ (sign = [] ∨ sign = ['+'] ∨ sign = ['-']) ∧
    ds ≠ [] ∧ ds.all isDigit = true

/-- the text of an IntValue token -/
def IsIntValue (s : Str) : Prop := IsIntegerPart s

/-- the text of a FloatValue token (three alternatives) -/
def IsFloatValue (s : Str) : Prop :=
  ∃ i f e, s = i ++ f ++ e ∧ IsIntegerPart i ∧
    ((IsFractionalPart f ∧ IsExponentPart e) ∨ (IsFractionalPart f ∧ e = []) ∨ (f = [] ∧ IsExponentPart e))

/-- `[lookahead != {Digit, ., NameStart}]` on what follows a number token -/
def NumberLookaheadOk : Str → Prop
  | [] => True
  | c :: _ => isDigit c = false ∧ c ≠ '.' ∧ isNameStart c = false

/-! ### strings (§2.9.4), quoted form -/

/-- StringCharacter*; `src` says which characters count as SourceCharacter (the specification's
    `isSourceCharacter`, or `fun _ => true` for the lexer's documented relaxation) -/
inductive StringChars (src : Char → Bool) : Str → Prop where
  | nil : StringChars src []
  | plain {c : Char} {rest : Str} : src c = true → c ≠ '"' → c ≠ '\\' → isLineTerminator c = false →
      StringChars src rest → StringChars src (c :: rest)
  | escaped {c : Char} {rest : Str} : isEscapedCharacter c = true → StringChars src rest →
      StringChars src ('\\' :: c :: rest)
  | unicode {a b c d : Char} {rest : Str} : isHexDigit a = true → isHexDigit b = true → isHexDigit c = true →
      isHexDigit d = true → StringChars src rest → StringChars src ('\\' :: 'u' :: a :: b :: c :: d :: rest)

/-- the text of a quoted StringValue token: `""` or `"` StringCharacter+ `"` -/
def IsQuotedString (src : Char → Bool) (s : Str) : Prop :=
  ∃ body, s = '"' :: (body ++ ['"']) ∧ StringChars src body

/-- BlockStringCharacter* followed by the closing `"""`.  BlockStringCharacter :: SourceCharacter
    but not `"""` or `\"""` | `\"""` — so the closing delimiter is the first unescaped `"""`. -/
inductive BlockBody (src : Char → Bool) : Str → Prop where
  | close : BlockBody src ['"', '"', '"']
  | escapedQuotes {rest : Str} : BlockBody src rest → BlockBody src ('\\' :: '"' :: '"' :: '"' :: rest)
  | plain {c : Char} {rest : Str} : src c = true → (c :: rest).take 3 ≠ ['"', '"', '"'] →
      (c :: rest).take 4 ≠ ['\\', '"', '"', '"'] → BlockBody src rest → BlockBody src (c :: rest)

/-- the text of a block StringValue token -/
def IsBlockString (src : Char → Bool) (s : Str) : Prop :=
  ∃ r, s = '"' :: '"' :: '"' :: r ∧ BlockBody src r

/-- `""` [lookahead != `"`]: the empty string is only a token when no third quote follows -/
def StringLookaheadOk (s rest : Str) : Prop := s = ['"', '"'] → rest.head? ≠ some '"'

/-! ### comments, ignored tokens, punctuators, names -/

/-- Comment :: # CommentChar* -/
def IsComment (src : Char → Bool) (s : Str) : Prop :=
  ∃ body, s = '#' :: body ∧ ∀ c ∈ body, isLineTerminator c = false ∧ src c = true

/-- a comment token extends to the line terminator or the end of input -/
def CommentLookaheadOk : Str → Prop
  | [] => True
  | c :: _ => isLineTerminator c = true

/-- Punctuator :: one of ! $ & ( ) ... : = @ [ ] { | } -/
def IsPunctuator (s : Str) : Prop :=
  s ∈ [['!'], ['$'], ['&'], ['('], [')'], ['.', '.', '.'], [':'], ['='], ['@'], ['['], [']'], ['{'], ['|'], ['}']]

/-- Name :: NameStart NameContinue* -/
def IsName (s : Str) : Prop := ∃ c cs, s = c :: cs ∧ isNameStart c = true ∧ cs.all isNameContinue = true

def NameLookaheadOk : Str → Prop
  | [] => True
  | c :: _ => isNameContinue c = false

/-- Ignored tokens other than comments: UnicodeBOM, WhiteSpace (TAB, SPACE), LineTerminator, Comma -/
def isIgnoredChar (c : Char) : Bool :=
  c == Char.ofNat 0xFEFF || c == '\t' || c == ' ' || c == '\n' || c == '\r' || c == ','

end Apollo.Spec.Lexical
