import ApolloModel.Model.ExecValues
import ApolloModel.Spec.ValueCheck
import ApolloModel.Spec.Types
/-!
  Specification of §5.6 (Values of Correct Type, Input Object Field Names, Input Object Field Uniqueness,
  Input Object Required Fields) at an EXECUTABLE position, i.e. for values that may contain variables,
  on top of `Spec.ValueCheck` (constant values) and §5.8.5 IsVariableUsageAllowed (`Spec.Types`).
-/
set_option linter.unusedVariables false
namespace Apollo.ExecValues
open Apollo Apollo.Spec Apollo.ValueCheck Apollo.ValueCheck.Spec

/-! ### the specification of a value at an executable position -/

/-- a literal without variables at its head and without parts: what §3.5/§3.9/§3.12 coerce directly -/
def IsLeaf : Value → Prop
  | .int _ | .float _ | .string | .boolean | .null | .enum _ => True
  | _ => False

/-- a literal given to a custom scalar: object literals name no field twice at any depth (§5.6.3) and every
    variable inside is defined (§5.8.3) -/
inductive OpaqueOK (vars : List XVarDef) : Value → Prop where
  | leaf (v : Value) : IsLeaf v → OpaqueOK vars v
  | variable (n : Name) : (vars.any fun v => v.name == n) = true → OpaqueOK vars (.variable n)
  | list (vs : Values) : (∀ v ∈ vs.toList, OpaqueOK vars v) → OpaqueOK vars (.list vs)
  | object (fs : Fields) : fs.names.Nodup → (∀ p ∈ fs.toList, OpaqueOK vars p.2) → OpaqueOK vars (.object fs)

/-- how a variable occurrence is judged: the variable's definition, the type of the position, and whether the
    position (argument or input-object field) has a default value -/
abbrev VarRule := XVarDef → ValueCheck.Ty → Bool → Prop

/-- `v` is a value of the input type `ty` at a position with / without default value, in an operation whose
    variables are `vars`.  Constants: `ValueCheck.Spec.Coerces` (C14).  A variable: `rule`.  List and object
    literals: item by item / field by field, each at its own position. -/
inductive CoercesV (S : Schema) (vars : List XVarDef) (rule : VarRule) : ValueCheck.Ty → Bool → Value → Prop where
  | leaf (ty : ValueCheck.Ty) (hd : Bool) (v : Value) : IsLeaf v → Coerces S ty v → CoercesV S vars rule ty hd v
  | variable (ty : ValueCheck.Ty) (hd : Bool) (n : Name) (vd : XVarDef) :
      vars.find? (fun v => v.name == n) = some vd → rule vd ty hd → CoercesV S vars rule ty hd (.variable n)
  /-- §3.11: a list literal at a list type, item by item (an item position has no default value) -/
  | listItems (ty : ValueCheck.Ty) (hd : Bool) (vs : Values) : ty.isList = true →
      (∀ v ∈ vs.toList, CoercesV S vars rule ty.itemType false v) → CoercesV S vars rule ty hd (.list vs)
  /-- a custom scalar accepts any list or object literal (opaque) -/
  | customList (ty : ValueCheck.Ty) (hd : Bool) (vs : Values) : ty.isList = false →
      S.lookup ty.innerNamed = some (.scalar false) → OpaqueOK vars (.list vs) → CoercesV S vars rule ty hd (.list vs)
  | customObject (ty : ValueCheck.Ty) (hd : Bool) (fs : Fields) :
      S.lookup ty.innerNamed = some (.scalar false) → OpaqueOK vars (.object fs) → CoercesV S vars rule ty hd (.object fs)
  /-- §3.10, §5.6.2–4 (an object literal at a list type is the single item, §3.11) -/
  | inputObject (ty : ValueCheck.Ty) (hd : Bool) (fields : List InField) (fs : Fields) :
      S.lookup ty.innerNamed = some (.input fields) →
      fs.names.Nodup →
      (∀ name ∈ fs.names, ∃ f ∈ fields, f.name = name) →
      (∀ f ∈ fields, InField.required f → f.name ∈ fs.names ∧ ∀ p ∈ fs.toList, p.1 = f.name → p.2 ≠ .null) →
      (∀ p ∈ fs.toList, ∀ f ∈ fields, f.name = p.1 → CoercesV S vars rule f.ty f.hasDefault p.2) →
      CoercesV S vars rule ty hd (.object fs)

/-- §5.8.5 IsVariableUsageAllowed -/
def UsageRule : VarRule := fun vd ty hd =>
  variableUsageAllowed (embed (toTy vd.ty)) vd.default (embed (toTy ty)) hd = true

/-- what `value_of_correct_type` compares for a variable INSIDE a literal (the known finding `nested-position`):
    the position's named type is an input type and is the variable's named type -/
def NamedRule (S : Schema) : VarRule := fun vd ty _ =>
  (∃ td, S.lookup ty.innerNamed = some td ∧ td.isInputType = true) ∧ vd.ty.innerNamed = ty.innerNamed

/-! ### the argument as a whole -/

/-- what the code accepts for one argument: the variable given DIRECTLY as the value passes
    IsVariableUsageAllowed; everything else is `CoercesV` with the named-type rule for variables inside literals -/
def ExecArgOK (S : Schema) (vars : List XVarDef) (ty : ValueCheck.Ty) (hd : Bool) (v : Value) : Prop :=
  (∀ n vd, v = .variable n → vars.find? (fun x => x.name == n) = some vd → UsageRule vd ty hd) ∧
    CoercesV S vars (NamedRule S) ty hd v

/-! ### … and, when no variable stands INSIDE a list or object literal, the converse -/

mutual
def varFree : Value → Bool
  | .variable _ => false
  | .list vs => varFreeList vs
  | .object fs => varFreeFields fs
  | _ => true
def varFreeList : Values → Bool
  | .nil => true
  | .cons v tl => varFree v && varFreeList tl
def varFreeFields : Fields → Bool
  | .nil => true
  | .cons _ v tl => varFree v && varFreeFields tl
end

/-- the value is a variable, or contains none -/
def NoNestedVariable (v : Value) : Prop := (∃ n, v = .variable n) ∨ varFree v = true

end Apollo.ExecValues
