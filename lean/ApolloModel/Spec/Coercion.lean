import ApolloModel.Model.ExecSchema
/-
Input coercion and CoerceVariableValues as the GraphQL specification (October 2021) states them:
§3.12 Non-Null, §3.11 List ("if the value passed as an input to a list type is not a list and not the
null value, then the result of input coercion is a list of size one"), §3.5.1–§3.5.5 scalars,
§3.9 Enums, §3.10 Input Objects, §6.1.2 CoerceVariableValues.  Written from the spec text as a
relation `Coerces ty v r` ("input coercion of v to ty succeeds with result r"); a request error is the
absence of any `r`.  Result objects are unordered maps: they are constrained through lookups only.

`Rules` holds the place where apollo-compiler's behaviour is a parameter of the statement.
-/
namespace Apollo.Spec
open Apollo

structure Rules where
  /-- `false` (spec): a default value is coerced like a provided value (§3.10: "the default value …
      coerced"); `true`: it is used as written -/
  rawDefaults : Bool

/-- the specification -/
def Rules.spec : Rules := { rawDefaults := false }

/-- what `coerce_variable_value` implements today -/
def Rules.apollo : Rules := { rawDefaults := true }

/-- Scalar input coercion under apollo-compiler's documented rules: Int within 32 bits; Float from a
    float or from an integer of magnitude below 2^53 − 1 (`MAX_SAFE_INT`); String, Boolean from their
    own kind only (no coercion of strings to numbers); ID from a string or an integer; a custom
    scalar accepts every value unchanged. -/
def ScalarOk (name : String) (v : Json) : Prop :=
  if name = "Int" then ∃ z, v = .int z ∧ -2147483648 ≤ z ∧ z ≤ 2147483647
  else if name = "Float" then (∃ t, v = .float t) ∨ ∃ z, v = .int z ∧ -9007199254740991 < z ∧ z < 9007199254740991
  else if name = "String" then ∃ x, v = .str x
  else if name = "Boolean" then ∃ b, v = .bool b
  else if name = "ID" then (∃ x, v = .str x) ∨ ∃ z, v = .int z
  else True

def fieldNames (fields : List InputDef) : List String := fields.map (·.name)

inductive Coerces (R : Rules) (s : ExecSchema) : Ty → Json → Json → Prop
  /-- §3.12: a nullable type accepts null -/
  | null (ty : Ty) : ty.isNonNull = false → Coerces R s ty .null .null
  /-- §3.11: a list value is coerced item by item -/
  | listItems (ty inner : Ty) (xs ys : List Json) :
      ty.shape = .list inner → xs.length = ys.length →
      (∀ p, p ∈ xs.zip ys → Coerces R s inner p.1 p.2) →
      Coerces R s ty (.arr xs) (.arr ys)
  /-- §3.11: any other non-null value becomes a list of size one -/
  | listSingle (ty inner : Ty) (v r : Json) :
      ty.shape = .list inner → v.isNull = false → (∀ xs, v ≠ .arr xs) →
      Coerces R s inner v r →
      Coerces R s ty v (.arr [r])
  /-- §3.5: scalars -/
  | scalar (ty : Ty) (name : String) (v : Json) :
      ty.shape = .named name → s.typeDef? name = some .scalar → v.isNull = false →
      ScalarOk name v →
      Coerces R s ty v v
  /-- §3.9: an enum value is given by its name (in JSON: a string) -/
  | enum (ty : Ty) (name : String) (values : List String) (x : String) :
      ty.shape = .named name → s.typeDef? name = some (.enum values) → x ∈ values →
      Coerces R s ty (.str x) (.str x)
  /-- §3.10: input objects -/
  | inputObject (ty : Ty) (name : String) (fields : List InputDef) (kvs r : AList Json) :
      ty.shape = .named name → s.typeDef? name = some (.input fields) →
      -- no entry that is not a field of the type
      (∀ k, (AList.get? kvs k).isSome → k ∈ fieldNames fields) →
      (∀ k, (AList.get? r k).isSome → k ∈ fieldNames fields) →
      -- a provided field (null included) is coerced to the field's type
      (∀ fd, fd ∈ fields → (AList.get? kvs fd.name).isSome → (AList.get? r fd.name).isSome) →
      (∀ fd fv rv, fd ∈ fields → AList.get? kvs fd.name = some fv → AList.get? r fd.name = some rv →
        Coerces R s fd.ty fv rv) →
      -- a field that is not provided takes its default value
      (∀ fd d, fd ∈ fields → AList.get? kvs fd.name = none → fd.default = some d →
        (AList.get? r fd.name).isSome) →
      (∀ fd d rd, fd ∈ fields → AList.get? kvs fd.name = none → fd.default = some d →
        AList.get? r fd.name = some rd → R.rawDefaults = false → Coerces R s fd.ty d.toJson rd) →
      (∀ fd d rd, fd ∈ fields → AList.get? kvs fd.name = none → fd.default = some d →
        AList.get? r fd.name = some rd → R.rawDefaults = true → rd = d.toJson) →
      -- without default: an error if the field is non-null, otherwise no entry
      (∀ fd, fd ∈ fields → AList.get? kvs fd.name = none → fd.default = none →
        fd.ty.isNonNull = false ∧ AList.get? r fd.name = none) →
      Coerces R s ty (.obj kvs) (.obj r)

/-- how a default value enters the result -/
def DefaultOutcome (R : Rules) (s : ExecSchema) (ty : Ty) (d : Value) (rd : Json) : Prop :=
  if R.rawDefaults then rd = d.toJson else Coerces R s ty d.toJson rd

/-- CoerceVariableValues(schema, operation, variableValues), §6.1.2, as a relation to the result map -/
def CoercesVars (R : Rules) (s : ExecSchema) (defs : List InputDef) (values r : AList Json) : Prop :=
  (∀ k, (AList.get? r k).isSome → k ∈ fieldNames defs) ∧
  ∀ vd, vd ∈ defs →
    match AList.get? values vd.name with
    | some v => ∃ rv, AList.get? r vd.name = some rv ∧ Coerces R s vd.ty v rv
    | none =>
      match vd.default with
      | some d => ∃ rd, AList.get? r vd.name = some rd ∧ DefaultOutcome R s vd.ty d rd
      | none => vd.ty.isNonNull = false ∧ AList.get? r vd.name = none

/-- "conforms to its declared type": the shape of a coerced value (single values wrapped per list
    layer, unknown input fields absent, defaults filled in, null only where the type is nullable) -/
inductive Conforms (s : ExecSchema) : Ty → Json → Prop
  | null (ty : Ty) : ty.isNonNull = false → Conforms s ty .null
  | list (ty inner : Ty) (ys : List Json) :
      ty.shape = .list inner → (∀ y, y ∈ ys → Conforms s inner y) → Conforms s ty (.arr ys)
  | scalar (ty : Ty) (name : String) (v : Json) :
      ty.shape = .named name → s.typeDef? name = some .scalar → v.isNull = false →
      ScalarOk name v → Conforms s ty v
  | enum (ty : Ty) (name : String) (values : List String) (x : String) :
      ty.shape = .named name → s.typeDef? name = some (.enum values) → x ∈ values →
      Conforms s ty (.str x)
  | inputObject (ty : Ty) (name : String) (fields : List InputDef) (r : AList Json) :
      ty.shape = .named name → s.typeDef? name = some (.input fields) →
      (∀ k, (AList.get? r k).isSome → k ∈ fieldNames fields) →
      (∀ fd rv, fd ∈ fields → AList.get? r fd.name = some rv → Conforms s fd.ty rv) →
      (∀ fd, fd ∈ fields → AList.get? r fd.name = none → fd.ty.isNonNull = false ∧ fd.default = none) →
      Conforms s ty (.obj r)

end Apollo.Spec
