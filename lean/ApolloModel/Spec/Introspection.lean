import ApolloModel.Model.Introspection
import ApolloModel.Spec.Types
/-
Specification §4.2.2 "Type Kinds" / "Wrapping types": a List type has kind LIST and `ofType` the item
type; a Non-Null type has kind NON_NULL and `ofType` the nullable type; a named type has its own kind, its
name, and `ofType` null.  Over the specification's type grammar (Spec/Types.lean).
-/
namespace Apollo.Spec
open Apollo Apollo.Introspection

def specChain (kindOf : String → TKind) : STy → List Link
  | .named n => [{ kind := kindOf n, name := some n }]
  | .list t => { kind := .list, name := none } :: specChain kindOf t
  | .nonNull t => { kind := .nonNull, name := none } :: specChain kindOf t

/-- number of wrappers of a four-constructor type, as the specification counts them -/
def wrappers : Ty → Nat
  | .named _ => 0
  | .nonNullNamed _ => 1
  | .list t => wrappers t + 1
  | .nonNullList t => wrappers t + 2

end Apollo.Spec
