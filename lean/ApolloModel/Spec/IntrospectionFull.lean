import ApolloModel.Model.IntrospectionFull
import ApolloModel.Spec.Introspection
/-
Specification (October 2021) §4 "Introspection", §4.2 "Schema Introspection", transcribed as a function
  schema → introspection query → response
independent of apollo's resolver structure.

The response of an introspection query is the result of executing it (§6, the executor of C26) against
the schema introspection system, whose objects and field values the specification describes type by
type.  Here the objects are: the schema; a *type* — any type of the type system, named or wrapping
(`STy`: named | list | non-null, Spec/Types.lean); a field; an input value; an enum value; a directive.
What a field of such an object is, is `specField`, one clause per sentence of §4.2:

  __Schema   description · types ("all named types") · queryType · mutationType · subscriptionType · directives
  __Type     kind · name · description
             fields(includeDeprecated)       OBJECT, INTERFACE — otherwise null
             interfaces                      OBJECT, INTERFACE — otherwise null
             possibleTypes                   INTERFACE (the OBJECT types implementing it), UNION (its members) — otherwise null
             enumValues(includeDeprecated)   ENUM — otherwise null
             inputFields(includeDeprecated)  INPUT_OBJECT — otherwise null
             ofType                          LIST (item type), NON_NULL (the nullable type) — otherwise null
             specifiedByURL                  SCALAR (may be null) — otherwise null
  __Field, __InputValue, __EnumValue, __Directive: their members, `isDeprecated` / `deprecationReason`
             from `@deprecated(reason: String = "No longer supported")` (§3.13.3)
  includeDeprecated: Boolean = false — deprecated members are listed only when it is true.

The specification does not order `types`, `directives` and `possibleTypes`; this function lists them
in the order of the schema description.
-/
namespace Apollo.Spec.Introspection
open Apollo Apollo.Exec Apollo.Introspection Apollo.Spec

/-- the objects of the schema introspection system -/
inductive SObj where
  | root
  | schema
  | type (t : STy)
  | field (d : IField)
  | inputValue (d : IInputValue)
  | enumValue (d : IEnumValue)
  | directive (d : IDirective)

abbrev SRV := RVg SObj

/-- a `__Type` value for a type of the schema: named types must be defined -/
def typeValue (s : ISchema) : STy → SRV
  | .named n => if (s.typeDef? n).isSome then .object "__Type" (.type (.named n)) else .leaf .null
  | t => .object "__Type" (.type t)

def typeValues (s : ISchema) (names : List String) : SRV :=
  .list ((names.filter fun n => (s.typeDef? n).isSome).map fun n => .object "__Type" (.type (.named n)))

/-- the argument `includeDeprecated: Boolean = false` (after CoerceArgumentValues) -/
def includesDeprecated (args : AList Json) : Bool :=
  match AList.get? args "includeDeprecated" with
  | some (.bool true) => true
  | _ => false

def isDeprecated (d : Deprecation) : Bool := d.isSome

/-- `@deprecated(reason: String = "No longer supported")` -/
def reasonOf : Deprecation → Json
  | none => .null
  | some none => .str "No longer supported"
  | some (some r) => .str r

/-- members listed under `includeDeprecated` -/
def listed {α : Type} (dep : α → Deprecation) (args : AList Json) (xs : List α) : List α :=
  xs.filter fun x => includesDeprecated args || !isDeprecated (dep x)

def str? : Option String → Json
  | some s => .str s
  | none => .null

/-- §4.2.2 "Type Kinds" -/
def kindName : ITypeKind → String
  | .scalar _ => "SCALAR" | .object _ _ => "OBJECT" | .interface _ _ => "INTERFACE" | .union _ => "UNION"
  | .enum _ => "ENUM" | .inputObject _ => "INPUT_OBJECT"

/-- "fields: must be non-null for OBJECT and INTERFACE, otherwise null" -/
def fieldsOfKind : ITypeKind → Option (List IField)
  | .object _ fs => some fs
  | .interface _ fs => some fs
  | _ => none

/-- "interfaces: must be non-null for OBJECT and INTERFACE, otherwise null" -/
def interfacesOfKind : ITypeKind → Option (List String)
  | .object is _ => some is
  | .interface is _ => some is
  | _ => none

/-- the OBJECT types that implement an interface -/
def implementingObjects (s : ISchema) (iface : String) : List String :=
  (s.types.filter fun t => match t.kind with | .object is _ => is.contains iface | _ => false).map (·.name)

/-- "possibleTypes: must be non-null for INTERFACE and UNION, otherwise null" -/
def possibleTypesOf (s : ISchema) (d : ITypeDef) : Option (List String) :=
  match d.kind with
  | .interface _ _ => some (implementingObjects s d.name)
  | .union ms => some ms
  | _ => none

def enumValuesOfKind : ITypeKind → Option (List IEnumValue)
  | .enum vs => some vs
  | _ => none

def inputFieldsOfKind : ITypeKind → Option (List IInputValue)
  | .inputObject fs => some fs
  | _ => none

def specifiedByOfKind : ITypeKind → Option String
  | .scalar u => u
  | _ => none

def orNull : Option SRV → SRV
  | some v => v
  | none => .leaf .null

def inputValueList (args : AList Json) (vs : List IInputValue) : SRV :=
  .list ((listed (·.deprecated) args vs).map fun v => .object "__InputValue" (.inputValue v))

/-- a named type's fields -/
def namedTypeField (s : ISchema) (d : ITypeDef) (f : String) (args : AList Json) : Option SRV :=
  if f = "kind" then some (.leaf (.str (kindName d.kind)))
  else if f = "name" then some (.leaf (.str d.name))
  else if f = "description" then some (.leaf (str? d.description))
  else if f = "fields" then
    some (orNull ((fieldsOfKind d.kind).map fun fs => .list ((listed (·.deprecated) args fs).map fun x => .object "__Field" (.field x))))
  else if f = "interfaces" then some (orNull ((interfacesOfKind d.kind).map (typeValues s)))
  else if f = "possibleTypes" then some (orNull ((possibleTypesOf s d).map (typeValues s)))
  else if f = "enumValues" then
    some (orNull ((enumValuesOfKind d.kind).map fun vs => .list ((listed (·.deprecated) args vs).map fun x => .object "__EnumValue" (.enumValue x))))
  else if f = "inputFields" then some (orNull ((inputFieldsOfKind d.kind).map (inputValueList args)))
  else if f = "ofType" then some (.leaf .null)
  else if f = "specifiedByURL" then some (.leaf (str? (specifiedByOfKind d.kind)))
  else none

/-- the ten fields of `__Type` -/
def typeFieldNames : List String :=
  ["kind", "name", "description", "fields", "interfaces", "possibleTypes", "enumValues", "inputFields", "ofType", "specifiedByURL"]

/-- a wrapping type: `kind`, `ofType`; every other field of `__Type` is null -/
def wrappingTypeField (s : ISchema) (kind : String) (inner : STy) (f : String) : Option SRV :=
  if f = "kind" then some (.leaf (.str kind))
  else if f = "ofType" then some (typeValue s inner)
  else if typeFieldNames.contains f then some (.leaf .null)
  else none

/-- the value of field `f` (with coerced arguments `args`) of an introspection object; `none` = the
    object has no such field.  `defaultText` = the GraphQL-language text of an input value's default
    value (§4.2 `__InputValue.defaultValue`), a parameter so that the two candidate readings — the
    printed coerced value, and the literal as written — can both be stated. -/
def specField (defaultText : ISchema → IInputValue → Option String) (s : ISchema) : SObj → String → AList Json → Option SRV
  | .root, f, args =>
    if f = "__schema" then some (.object "__Schema" .schema)
    else if f = "__type" then
      (match AList.get? args "name" with
       | some (.str n) => some (typeValue s (.named n))
       | _ => none)
    else some .skip        -- not an introspection field: outside this specification (partial execution skips it)
  | .schema, f, _ =>
    if f = "description" then some (.leaf (str? s.description))
    else if f = "types" then some (.list (s.types.map fun d => .object "__Type" (.type (.named d.name))))
    else if f = "queryType" then some (orNull (s.query.map fun n => typeValue s (.named n)))
    else if f = "mutationType" then some (orNull (s.mutation.map fun n => typeValue s (.named n)))
    else if f = "subscriptionType" then some (orNull (s.subscription.map fun n => typeValue s (.named n)))
    else if f = "directives" then some (.list (s.directives.map fun d => .object "__Directive" (.directive d)))
    else none
  | .type (.named n), f, args =>
    (match s.typeDef? n with
     | some d => namedTypeField s d f args
     | none => none)
  | .type (.list t), f, _ => wrappingTypeField s "LIST" t f
  | .type (.nonNull t), f, _ => wrappingTypeField s "NON_NULL" t f
  | .field d, f, args =>
    if f = "name" then some (.leaf (.str d.name))
    else if f = "description" then some (.leaf (str? d.description))
    else if f = "args" then some (inputValueList args d.args)
    else if f = "type" then some (typeValue s (embed d.ty))
    else if f = "isDeprecated" then some (.leaf (.bool (isDeprecated d.deprecated)))
    else if f = "deprecationReason" then some (.leaf (reasonOf d.deprecated))
    else none
  | .inputValue d, f, _ =>
    if f = "name" then some (.leaf (.str d.name))
    else if f = "description" then some (.leaf (str? d.description))
    else if f = "type" then some (typeValue s (embed d.ty))
    else if f = "defaultValue" then some (.leaf (str? (defaultText s d)))
    else if f = "isDeprecated" then some (.leaf (.bool (isDeprecated d.deprecated)))
    else if f = "deprecationReason" then some (.leaf (reasonOf d.deprecated))
    else none
  | .enumValue d, f, _ =>
    if f = "name" then some (.leaf (.str d.name))
    else if f = "description" then some (.leaf (str? d.description))
    else if f = "isDeprecated" then some (.leaf (.bool (isDeprecated d.deprecated)))
    else if f = "deprecationReason" then some (.leaf (reasonOf d.deprecated))
    else none
  | .directive d, f, args =>
    if f = "name" then some (.leaf (.str d.name))
    else if f = "description" then some (.leaf (str? d.description))
    else if f = "locations" then some (.list (d.locations.map fun l => .leaf (.str l)))
    else if f = "args" then some (inputValueList args d.args)
    else if f = "isRepeatable" then some (.leaf (.bool d.repeatable))
    else none

/-- the response of an introspection query: §6 execution of the query against these objects -/
def specResponse (defaultText : ISchema → IInputValue → Option String) (fuel cfuel : Nat) (s : ISchema)
    (frags : AList Frag) (vars : AList Json) (sels : List Sel) : Outcome :=
  executeG fuel (specField defaultText s)
    { schema := execSchemaOf s, frags := frags, vars := vars, world := [], cfuel := cfuel } .root sels

/-! ### `__InputValue.defaultValue`: "a GraphQL-formatted string representing the default value" (§4.2).
The reference implementation prints the COERCED default value — `print(astFromValue(defaultValue, type))`:
the input-coerced value (§3.x input coercion: a single item at a list type becomes a one-item list, an
input object gets the defaults of the fields it leaves out, in definition order), written in the
GraphQL language with every control character of a string escaped. -/

/-- graphql-js `printString`: `"`, `\`, and every control character are escaped -/
def refEscapeChar (c : Char) : String :=
  if c = '"' then "\\\""
  else if c = '\\' then "\\\\"
  else if c.toNat = 8 then "\\b"
  else if c.toNat = 9 then "\\t"
  else if c.toNat = 10 then "\\n"
  else if c.toNat = 12 then "\\f"
  else if c.toNat = 13 then "\\r"
  else if c.toNat < 32 || (127 ≤ c.toNat && c.toNat ≤ 159) then "\\u" ++ hex4 c.toNat
  else String.singleton c

def refPrintString (s : String) : String := "\"" ++ String.join (s.toList.map refEscapeChar) ++ "\""

mutual
/-- graphql-js `print` of a value node -/
def refPrint : Value → String
  | .null => "null"
  | .bool true => "true"
  | .bool false => "false"
  | .int z => toString z
  | .float t => t
  | .str s => refPrintString s
  | .enum n => n
  | .list xs => "[" ++ ", ".intercalate (refPrints xs) ++ "]"
  | .obj kvs => "{" ++ ", ".intercalate (refPrintFields kvs) ++ "}"
def refPrints : List Value → List String
  | [] => []
  | x :: xs => refPrint x :: refPrints xs
def refPrintFields : List (String × Value) → List String
  | [] => []
  | (k, v) :: rest => (k ++ ": " ++ refPrint v) :: refPrintFields rest
end

def vget? : List (String × Value) → String → Option Value
  | [], _ => none
  | (k, v) :: rest, key => if k = key then some v else vget? rest key

def intLike (s : String) : Bool := !s.isEmpty && s.toList.all Char.isDigit

/-- the coerced default value, as a value node (`astFromValue(valueFromAST(default, type), type)`).
    `fmtFloat` = how the reference prints the number a float literal denotes (`1.0` ↦ `1`).
    `fuel` bounds the nesting of the literal and of the defaults it pulls in. -/
def coerceDefault (fmtFloat : String → String) (s : ISchema) : Nat → Ty → Value → Value
  | 0, _, v => v
  | _ + 1, _, .null => .null
  | n + 1, ty, v =>
    match ty.shape with
    | .list inner =>
      (match v with
       | .list xs => .list (xs.map (coerceDefault fmtFloat s n inner))
       | v => .list [coerceDefault fmtFloat s n inner v])
    | .named name =>
      if name = "Float" then (match v with | .float t => .float (fmtFloat t) | v => v)
      else if name = "ID" then (match v with | .str x => if intLike x then .int (Int.ofNat x.toNat!) else .str x | v => v)
      else
        match s.typeDef? name with
        | some d =>
          (match d.kind, v with
           | .inputObject fields, .obj kvs =>
             .obj (fields.filterMap fun fd =>
               match vget? kvs fd.name with
               | some x => some (fd.name, coerceDefault fmtFloat s n fd.ty x)
               | none => fd.default.map fun x => (fd.name, coerceDefault fmtFloat s n fd.ty x))
           | _, v => v)
        | none => v

/-- the reference's `defaultValue` -/
def printedCoerced (fmtFloat : String → String) (fuel : Nat) (s : ISchema) (v : IInputValue) : Option String :=
  v.default.map fun d => refPrint (coerceDefault fmtFloat s fuel v.ty d)

mutual
def Value.eqb : Value → Value → Bool
  | .null, .null => true
  | .bool a, .bool b => a == b
  | .int a, .int b => a == b
  | .float a, .float b => a == b
  | .str a, .str b => a == b
  | .enum a, .enum b => a == b
  | .list a, .list b => Value.eqbList a b
  | .obj a, .obj b => Value.eqbFields a b
  | _, _ => false
def Value.eqbList : List Value → List Value → Bool
  | [], [] => true
  | a :: as, b :: bs => Value.eqb a b && Value.eqbList as bs
  | _, _ => false
def Value.eqbFields : List (String × Value) → List (String × Value) → Bool
  | [], [] => true
  | (k, a) :: as, (l, b) :: bs => k == l && Value.eqb a b && Value.eqbFields as bs
  | _, _ => false
end

mutual
/-- the two string printers agree on every string inside the value -/
def stringsAgree : Value → Bool
  | .str s => s.toList.all fun c => refEscapeChar c == escapeChar c
  | .list xs => stringsAgreeList xs
  | .obj kvs => stringsAgreeFields kvs
  | _ => true
def stringsAgreeList : List Value → Bool
  | [] => true
  | x :: xs => stringsAgree x && stringsAgreeList xs
def stringsAgreeFields : List (String × Value) → Bool
  | [] => true
  | (_, v) :: rest => stringsAgree v && stringsAgreeFields rest
end

/-- "the default is already written in canonical form": coercing it changes nothing, and it contains
    no character the two printers escape differently (decidable) -/
def canonicalDefault (fmtFloat : String → String) (fuel : Nat) (s : ISchema) (v : IInputValue) : Bool :=
  match v.default with
  | none => true
  | some d => Value.eqb (coerceDefault fmtFloat s fuel v.ty d) d && stringsAgree d


end Apollo.Spec.Introspection
