import ApolloModel.Model.DirectiveApplications
/-
Declarative side (GraphQL October 2021): §5.7.1 Directives Are Defined, §5.7.2 Directives Are In Valid
Locations, §5.7.3 Directives Are Unique Per Location, §5.4.1 Argument Names, §5.4.2 Argument Uniqueness,
§5.4.2.1 Required Arguments — for the directives applied at one location of a type-system document (§3.13).
-/
namespace Apollo.DirApps.Spec
open Apollo.Standalone

/-- one applied directive is well-formed at `loc` -/
def DirectiveValid (dirDef : Name → Option DirDef) (loc : Loc) (d : Dir) : Prop :=
  ∃ df, dirDef d.name = some df ∧            -- defined
    loc ∈ df.locs ∧                           -- in a valid location
    (d.args.map (·.name)).Nodup ∧             -- argument uniqueness
    (∀ a ∈ d.args, ∃ ad ∈ df.args, ad.name = a.name) ∧     -- argument names
    (∀ ad ∈ df.args, ad.required = true → ∃ a ∈ d.args, a.name = ad.name ∧ a.value.isNull = false)  -- required arguments

/-- all directives of one location: each valid, and no non-repeatable directive applied twice -/
def DirectivesValid (dirDef : Name → Option DirDef) (loc : Loc) (dirs : List Dir) : Prop :=
  (∀ d ∈ dirs, DirectiveValid dirDef loc d) ∧
  dirs.Pairwise (fun d1 d2 => d1.name = d2.name → ∀ df, dirDef d2.name = some df → df.repeatable = true)

end Apollo.DirApps.Spec
