import ApolloModel.Model.ValueCheck
/-
§3.5 (scalars: input coercion), §3.9 (enums), §3.10 (input objects), §3.11 (lists), §3.12 (non-null), and the
validation rules §5.6.1 "Values of Correct Type", §5.6.2 "Input Object Field Names", §5.6.3 "Input Object Field
Uniqueness", §5.6.4 "Input Object Required Fields" — for *constant* literals (the arguments of directives applied
in a type-system document, default values).

Input coercion of a custom scalar is implementation-defined (§3.5); as in the reference implementation
(`isValidValueNode` → `parseLiteral` = `valueFromASTUntyped`) a custom scalar accepts every constant — scalars, enum
values, lists and objects with `null` anywhere inside — provided object literals obey §5.6.3 at every depth
(`LiteralOK`).
-/
namespace Apollo.ValueCheck

def Values.toList : Values → List Value
  | .nil => []
  | .cons v tl => v :: tl.toList

def Fields.toList : Fields → List (Name × Value)
  | .nil => []
  | .cons n v tl => (n, v) :: tl.toList

namespace Spec

/-- a constant whose object literals, at every depth, name no field twice (§5.6.3) -/
inductive LiteralOK : Value → Prop where
  | int (i : Int) : LiteralOK (.int i)
  | float (b : Bool) : LiteralOK (.float b)
  | string : LiteralOK .string
  | boolean : LiteralOK .boolean
  | null : LiteralOK .null
  | enum (v : Name) : LiteralOK (.enum v)
  | list (vs : Values) : (∀ v ∈ vs.toList, LiteralOK v) → LiteralOK (.list vs)
  | object (fs : Fields) : fs.names.Nodup → (∀ p ∈ fs.toList, LiteralOK p.2) → LiteralOK (.object fs)

/-- §5.6.4: "Input object fields may be required": non-null type and no default value -/
def InField.required (f : InField) : Prop := f.ty.isNonNull = true ∧ f.hasDefault = false

/-- the constant `v` can be coerced to the input type `ty` -/
inductive Coerces (S : Schema) : Ty → Value → Prop where
  /-- §3.12: null is a value of every nullable type -/
  | null (ty : Ty) : ty.isNonNull = false → Coerces S ty .null
  /-- §3.12: a non-null type accepts what the nullable type accepts, except null -/
  | nonNullNamed (n : Name) (v : Value) : v ≠ .null → Coerces S (.named n) v → Coerces S (.nonNullNamed n) v
  | nonNullList (t : Ty) (v : Value) : v ≠ .null → Coerces S (.list t) v → Coerces S (.nonNullList t) v
  /-- §3.11: a list literal, item by item -/
  | listItems (t : Ty) (vs : Values) : (∀ v ∈ vs.toList, Coerces S t v) → Coerces S (.list t) (.list vs)
  /-- §3.11: "if the value passed as an input to a list type is not a list and not the null value, then the result
      of input coercion is a list of size one" (recursively for nested lists) -/
  | listSingle (t : Ty) (v : Value) : v ≠ .null → (∀ vs, v ≠ .list vs) → Coerces S t v → Coerces S (.list t) v
  /-- §3.5.1 Int: a 32-bit integer literal -/
  | int (i : Int) : S.lookup "Int" = some (.scalar true) → -2147483648 ≤ i → i ≤ 2147483647 → Coerces S (.named "Int") (.int i)
  /-- §3.5.2 Float: "both integer and float input values are accepted"; the value must be finite -/
  | floatOfInt (i : Int) : S.lookup "Float" = some (.scalar true) → i.natAbs < 2 ^ 1024 - 2 ^ 970 → Coerces S (.named "Float") (.int i)
  | float : S.lookup "Float" = some (.scalar true) → Coerces S (.named "Float") (.float true)
  /-- §3.5.3 String -/
  | string : S.lookup "String" = some (.scalar true) → Coerces S (.named "String") .string
  /-- §3.5.4 Boolean -/
  | boolean : S.lookup "Boolean" = some (.scalar true) → Coerces S (.named "Boolean") .boolean
  /-- §3.5.5 ID: "a string or an integer input value" -/
  | idOfString : S.lookup "ID" = some (.scalar true) → Coerces S (.named "ID") .string
  | idOfInt (i : Int) : S.lookup "ID" = some (.scalar true) → Coerces S (.named "ID") (.int i)
  /-- §3.9: an enum literal that is one of the enum's values -/
  | enum (n : Name) (values : List Name) (v : Name) : S.lookup n = some (.enum values) → v ∈ values →
      Coerces S (.named n) (.enum v)
  /-- a custom scalar accepts every constant (with unique object fields at every depth) -/
  | custom (n : Name) (v : Value) : S.lookup n = some (.scalar false) → LiteralOK v → Coerces S (.named n) v
  /-- §3.10 / §5.6.2–4: an object literal whose field names are unique and defined, which provides every required
      field with a non-null value, and whose values coerce to the field types -/
  | inputObject (n : Name) (fields : List InField) (fs : Fields) : S.lookup n = some (.input fields) →
      fs.names.Nodup →
      (∀ name ∈ fs.names, ∃ f ∈ fields, f.name = name) →
      (∀ f ∈ fields, InField.required f → f.name ∈ fs.names ∧ ∀ p ∈ fs.toList, p.1 = f.name → p.2 ≠ .null) →
      (∀ p ∈ fs.toList, ∀ f ∈ fields, f.name = p.1 → Coerces S f.ty p.2) →
      Coerces S (.named n) (.object fs)

/-- the type reference names a defined input type -/
def Defined (S : Schema) (ty : Ty) : Prop := ∃ td, S.lookup ty.innerNamed = some td ∧ td.isInputType = true

/-- every input field of the schema has a defined input type ([input-field-type-exists], [input-field-type-input]) -/
def Closed (S : Schema) : Prop := ∀ n fields, S.lookup n = some (.input fields) → ∀ f ∈ fields, Defined S f.ty

/-- only the five built-in scalars are flagged built-in (`ScalarType::is_built_in`) -/
def BuiltinsAreBuiltin (S : Schema) : Prop := ∀ n, S.lookup n = some (.scalar true) → n ∈ builtinScalarNames

end Spec
end Apollo.ValueCheck
