import ApolloModel.Model.Execution
/-
The execution algorithms of the GraphQL specification (October 2021) §6.3 "Executing Selection Sets"
and §6.4 "Executing Fields", written from the specification text over the same data as the model
(schema, operation, coerced variables, resolver world):

  CollectFields, DoesFragmentTypeApply           §6.3.2
  ExecuteSelectionSet                            §6.3
  ExecuteField, CoerceArgumentValues,
  ResolveFieldValue                              §6.4, §6.4.1, §6.4.2
  CompleteValue, ResolveAbstractType,
  MergeSelectionSets                             §6.4.3
  Handling Field Errors                          §6.4.4

Error handling is the specification's: a field error is *raised* (`Res.raised`, after the error with
the path of the position was recorded) and travels outwards until the nearest enclosing position whose
type is nullable *catches* it (`catchAt`): the positions are the fields of a selection set and the
items of a list.  Nothing here has the shape of the Rust code (`Result<Option<_>, PropagateNull>`
nullified at every level, early returns of the list loop).

apollo-compiler's documented choices are the parameter `Choices`.
-/
namespace Apollo.ExecSpec
open Apollo Apollo.Exec

/-- outcome of an algorithm step -/
inductive Res (α : Type) where
  | ok (a : α)
  /-- a field error was raised below and has not been caught yet -/
  | raised
  | outOfFuel

/-- apollo-compiler's documented choices (the reference executor of the harness takes the same ones) -/
structure Choices where
  /-- result coercion of built-in and custom scalars: no conversion between kinds, ID from string or
      integer, custom scalars pass through -/
  scalarResultOk : String → Json → Bool
  /-- an error of the item stream of a list fails the list itself, not the item
      (unit test `test_error_path`) -/
  itemStreamErrorFailsList : Bool
  /-- input coercion of an argument literal (scalars and enums rely on validation) -/
  coerceLiteral : Env → Ty → AVal → Option Json
  /-- `SkipForPartialExecution`: a resolver may ask for the position to be left out -/
  allowSkip : Bool

def Choices.apollo : Choices :=
  { scalarResultOk := leafScalarOk
    itemStreamErrorFailsList := true
    coerceLiteral := fun env ty v => coerceArgValue env (v.size + ty.depth + 2) ty v
    allowSkip := true }

/-- "raise a field error": record it with the path of the position, then travel outwards -/
def raise {α : Type} (path : Path) (st : St) : Res α × St := (.raised, st.push path)

/-- §6.4.4 Handling Field Errors, at a position of type `ty`: "If the field returns null because of a
    field error … the field error is handled as though the field returned null"; "if the field type is
    Non-Null, the field error is propagated to the parent" -/
def catchAt (ty : Ty) : Res (Option Json) → Res (Option Json)
  | .raised => if ty.isNonNull then .raised else .ok (some .null)
  | r => r

/-! ### §6.3.2 CollectFields -/

/-- "@skip … if true" / "@include … if not true" with the directive's `if` a literal or a variable -/
def directiveIf (vars : AList Json) : Option Cond → Option Bool
  | none => none
  | some (.const b) => some b
  | some (.var n) =>
    match AList.get? vars n with
    | some (.bool b) => some b
    | _ => none

def skipped (vars : AList Json) (d : Dirs) : Bool :=
  directiveIf vars d.skip == some true || directiveIf vars d.incl == some false

/-- DoesFragmentTypeApply(objectType, fragmentType) -/
def doesFragmentTypeApply (s : Schema) (objectType fragmentType : String) : Bool :=
  match s.kind? fragmentType with
  -- "If fragmentType is an Object Type: if objectType and fragmentType are the same type, return true"
  | some (.object _) => objectType == fragmentType
  -- "an Interface Type: if objectType is an implementation of fragmentType"
  | some .interface => ((AList.get? s.objects objectType).map fun d => d.implements.contains fragmentType).getD false
  -- "a Union: if objectType is a possible type of fragmentType"
  | some (.union members) => members.contains objectType
  | _ => false

/-- "Let groupForResponseKey be the list in groupedFields for responseKey; if no such list exists,
    create it as an empty list.  Append selection to the groupForResponseKey." -/
def appendToGroup : AList (List Sel) → String → Sel → AList (List Sel)
  | [], key, sel => [(key, [sel])]
  | (k, group) :: rest, key, sel =>
    if k = key then (k, group ++ [sel]) :: rest else (k, group) :: appendToGroup rest key sel

/-- CollectFields(objectType, selectionSet, variableValues, visitedFragments).  `groupedFields` and
    `visitedFragments` are the two pieces of state the algorithm mutates; the "for each fragmentGroup …
    append all items" loop after a recursive call is the same accumulation.  `none` = out of fuel. -/
def collectFields (env : Env) (objectType : String) : Nat → List Sel → List String → AList (List Sel) →
    Option (List String × AList (List Sel))
  | 0, _, _, _ => none
  | _ + 1, [], visitedFragments, groupedFields => some (visitedFragments, groupedFields)
  | n + 1, selection :: rest, visitedFragments, groupedFields =>
    if skipped env.vars selection.dirs then collectFields env objectType n rest visitedFragments groupedFields
    else
      match selection with
      | .field _ _ _ _ _ =>
        collectFields env objectType n rest visitedFragments
          (appendToGroup groupedFields selection.responseKey selection)
      | .spread fragmentSpreadName _ =>
        if visitedFragments.contains fragmentSpreadName then
          collectFields env objectType n rest visitedFragments groupedFields
        else
          match AList.get? env.frags fragmentSpreadName with
          | none => collectFields env objectType n rest (fragmentSpreadName :: visitedFragments) groupedFields
          | some fragment =>
            if doesFragmentTypeApply env.schema objectType fragment.cond then
              match collectFields env objectType n fragment.sub (fragmentSpreadName :: visitedFragments) groupedFields with
              | none => none
              | some (visited', grouped') => collectFields env objectType n rest visited' grouped'
            else collectFields env objectType n rest (fragmentSpreadName :: visitedFragments) groupedFields
      | .inline fragmentType _ fragmentSelectionSet =>
        if (fragmentType.map (doesFragmentTypeApply env.schema objectType)).getD true then
          match collectFields env objectType n fragmentSelectionSet visitedFragments groupedFields with
          | none => none
          | some (visited', grouped') => collectFields env objectType n rest visited' grouped'
        else collectFields env objectType n rest visitedFragments groupedFields

/-! ### §6.4.1 CoerceArgumentValues, §6.4.2 ResolveFieldValue -/

/-- the value given for an argument: `none` = "hasValue is false" -/
inductive ArgSource where
  | absent
  /-- a runtime value taken from `variableValues` -/
  | runtime (v : Json)
  /-- a literal still to be coerced -/
  | literal (v : AVal)

/-- "Let hasValue be true if argumentValues provides a value for the name argumentName … If
    argumentValue is a Variable: let hasValue be true if variableValues provides a value for the name
    variableName; let value be the value provided in variableValues" -/
def argSource (env : Env) (given : List (String × AVal)) (argumentName : String) : ArgSource :=
  match aget? given argumentName with
  | none => .absent
  | some (.var variableName) =>
    match AList.get? env.vars variableName with
    | none => .absent
    | some v => .runtime v
  | some lit => .literal lit

/-- CoerceArgumentValues(objectType, field, variableValues); `none` = a field error is raised -/
def coerceArgumentValues (C : Choices) (env : Env) (given : List (String × AVal)) :
    List InputDef → AList Json → Option (AList Json)
  | [], coercedValues => some coercedValues
  | argumentDefinition :: rest, coercedValues =>
    let argumentName := argumentDefinition.name
    let argumentType := argumentDefinition.ty
    match argSource env given argumentName, argumentDefinition.default with
    -- "If hasValue is not true and defaultValue exists (including null): add an entry … defaultValue"
    | .absent, some defaultValue =>
      coerceArgumentValues C env given rest (AList.insert coercedValues argumentName defaultValue.toJson)
    -- "Otherwise if argumentType is a Non-Nullable type, and either hasValue is not true or value is
    --  null, raise a field error"
    | .absent, none =>
      if argumentType.isNonNull then none else coerceArgumentValues C env given rest coercedValues
    -- "Otherwise if hasValue is true: if value is null: add null; if argumentValue is a Variable: add
    --  value; otherwise coerce"
    | .runtime value, _ =>
      if value.isNull && argumentType.isNonNull then none
      else coerceArgumentValues C env given rest (AList.insert coercedValues argumentName value)
    | .literal lit, _ =>
      if lit.isNull && argumentType.isNonNull then none
      else
        match C.coerceLiteral env argumentType lit with
        | none => none
        | some coercedValue => coerceArgumentValues C env given rest (AList.insert coercedValues argumentName coercedValue)

/-- ResolveFieldValue(objectType, objectValue, fieldName, argumentValues) over the resolver world;
    `__typename` is answered by the executor.  `none` = the resolver raised a field error. -/
def resolveFieldValue (env : Env) (objectType : String) (objectId : Nat) (fieldName : String)
    (argumentValues : AList Json) : Option RV :=
  if fieldName = "__typename" then some (.leaf (.str objectType))
  else
    match env.world.get? objectId fieldName with
    | some .error => none
    | some .echo => some (.leaf (.obj argumentValues))
    | some resolved => some resolved
    | none => none

/-! ### §6.4.3 CompleteValue -/

/-- ResolveAbstractType + the check that the result is a possible type: the resolved object says which
    object type it is; that type must be an object type of the schema, and for an object field type be
    that type, for an interface implement it, for a union be a member. -/
def isPossibleType (s : Schema) (fieldTypeName : String) (k : Kind) (objectTypeName : String) : Bool :=
  match AList.get? s.objects objectTypeName, k with
  | some _, .object _ => objectTypeName == fieldTypeName
  | some d, .interface => d.implements.contains fieldTypeName
  | some _, .union members => members.contains objectTypeName
  | _, _ => false

/-- MergeSelectionSets(fields) -/
def mergeSelectionSets : List Sel → List Sel
  | [] => []
  | field :: rest => field.fsub ++ mergeSelectionSets rest

/-- the recursive call `CompleteValue(innerType, fields, result, variableValues)` at a position -/
abbrev Complete := Path → Ty → RV → List Sel → St → Res (Option Json) × St

/-- ExecuteField(objectType, objectValue, fieldType, fields, variableValues): "Let field be the first
    entry in fields … argumentValues = CoerceArgumentValues … resolvedValue = ResolveFieldValue …
    Return the result of CompleteValue(fieldType, fields, resolvedValue, variableValues)" -/
def executeField (completeValue : Complete) (C : Choices) (env : Env) (fieldPath : Path) (objectType : String)
    (objectId : Nat) (fieldDef : FieldDef) (field : Sel) (fields : List Sel) (st : St) : Res (Option Json) × St :=
  match coerceArgumentValues C env field.fargs fieldDef.args [] with
  | none => raise fieldPath st
  | some argumentValues =>
    match resolveFieldValue env objectType objectId field.fname argumentValues with
    | none => raise fieldPath st
    | some resolvedValue => completeValue fieldPath fieldDef.ty resolvedValue fields st

/-- the field loop of ExecuteSelectionSet with §6.4.4: a raised error is caught by a nullable field
    (its entry is null); a non-null field lets the whole selection set raise -/
def executeGroups (completeValue : Complete) (C : Choices) (env : Env) (path : Path) (objectType : String) (objectId : Nat) :
    AList (List Sel) → AList Json → St → Res (AList Json) × St
  | [], resultMap, st => (.ok resultMap, st)
  | (responseKey, fields) :: rest, resultMap, st =>
    match fields with
    | [] => executeGroups completeValue C env path objectType objectId rest resultMap st
    | field :: _ =>
      -- "Let fieldType be the return type defined for the field fieldName of objectType.  If fieldType is defined:"
      match env.schema.typeField? objectType field.fname with
      | none => executeGroups completeValue C env path objectType objectId rest resultMap st
      | some fieldDef =>
        let executed := executeField completeValue C env (path ++ [.key responseKey]) objectType objectId fieldDef field fields st
        match catchAt fieldDef.ty executed.1 with
        | .raised => (.raised, executed.2)
        | .outOfFuel => (.outOfFuel, executed.2)
        | .ok none => executeGroups completeValue C env path objectType objectId rest resultMap executed.2
        | .ok (some responseValue) =>
          executeGroups completeValue C env path objectType objectId rest (AList.insert resultMap responseKey responseValue) executed.2

/-- ExecuteSelectionSet(selectionSet, objectType, objectValue, variableValues) -/
def executeSelectionSet (completeValue : Complete) (C : Choices) (env : Env) (path : Path) (objectType : String)
    (objectId : Nat) (selectionSet : List Sel) (st : St) : Res (AList Json) × St :=
  match collectFields env objectType env.cfuel selectionSet [] [] with
  | none => (.outOfFuel, st)
  | some (_, groupedFieldSet) => executeGroups completeValue C env path objectType objectId groupedFieldSet [] st

/-- "If fieldType is a List type … return a list where each list item is the result of calling
    CompleteValue(innerType, fields, resultItem, variableValues)", with §6.4.4 for the items:
    a nullable item catches, a non-null item lets the list raise -/
def completeItems (completeValue : Complete) (C : Choices) (path : Path) (innerType : Ty) (fields : List Sel) :
    List RV → Nat → List Json → St → Res (Option Json) × St
  | [], _, completed, st => (.ok (some (.arr completed)), st)
  | resultItem :: rest, index, completed, st =>
    let itemPath := path ++ [.idx index]
    match resultItem with
    | .error =>
      -- the item stream itself failed at this index
      if C.itemStreamErrorFailsList then raise itemPath st
      else if innerType.isNonNull then raise itemPath st
      else completeItems completeValue C path innerType fields rest (index + 1) (completed ++ [.null]) (st.push itemPath)
    | resultItem =>
      match completeValue itemPath innerType resultItem fields st with
      | (completedItem, st1) =>
        match catchAt innerType completedItem with
        | .raised => (.raised, st1)
        | .outOfFuel => (.outOfFuel, st1)
        | .ok none => completeItems completeValue C path innerType fields rest (index + 1) completed st1
        | .ok (some v) => completeItems completeValue C path innerType fields rest (index + 1) (completed ++ [v]) st1

def isNullResult : RV → Bool
  | .leaf .null => true
  | _ => false

/-- CompleteValue(fieldType, fields, result, variableValues) -/
def completeValue (C : Choices) (env : Env) : Nat → Path → Ty → RV → List Sel → St → Res (Option Json) × St
  | 0, _, _, _, _, st => (.outOfFuel, st)
  | n + 1, path, fieldType, result, fields, st =>
    match result with
    | .skip => if C.allowSkip then (.ok none, st) else raise path st
    | result =>
      -- 1. "If the fieldType is a Non-Null type … If completedResult is null, raise a field error"
      -- 2. "If result is null (or another internal value similar to null …), return null"
      if isNullResult result then
        if fieldType.isNonNull then raise path st else (.ok (some .null), st)
      else
        match fieldType.shape with
        -- 3. "If fieldType is a List type: if result is not a collection of values, raise a field error"
        | .list innerType =>
          match result with
          | .list items => completeItems (completeValue C env n) C path innerType fields items 0 [] st
          | _ => raise path st
        | .named typeName =>
          match result, env.schema.kind? typeName with
          -- 4. "If fieldType is a Scalar or Enum type: return the result of 'coercing' result"
          | .leaf value, some .scalar =>
            if C.scalarResultOk typeName value then (.ok (some value), st) else raise path st
          | .leaf (.str name), some (.enum values) =>
            if values.contains name then (.ok (some (.str name)), st) else raise path st
          -- 5. "If fieldType is an Object, Interface, or Union type"
          | .object objectTypeName objectId, some k =>
            if isPossibleType env.schema typeName k objectTypeName then
              match executeSelectionSet (completeValue C env n) C env path objectTypeName objectId (mergeSelectionSets fields) st with
              | (.ok resultMap, st1) => (.ok (some (.obj resultMap)), st1)
              | (.raised, st1) => (.raised, st1)
              | (.outOfFuel, st1) => (.outOfFuel, st1)
            else raise path st
          | _, _ => raise path st

/-- ExecuteQuery: "Let data be the result of running ExecuteSelectionSet(selectionSet, queryType,
    initialValue, variableValues) normally.  Let errors be any field errors produced while executing
    the selection set."  A raise that reaches the root makes `data` null. -/
def execute (C : Choices) (fuel : Nat) (env : Env) (selectionSet : List Sel) : Outcome :=
  match executeSelectionSet (completeValue C env fuel) C env [] env.schema.query 0 selectionSet { errors := [] } with
  | (.ok resultMap, st) => .response { data := some resultMap, errors := st.errors }
  | (.raised, st) => .response { data := none, errors := st.errors }
  | (.outOfFuel, _) => .outOfFuel

end Apollo.ExecSpec
