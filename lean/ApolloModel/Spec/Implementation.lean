import ApolloModel.Model.Implementation
import ApolloModel.Spec.Types
/-
Declarative side (GraphQL October 2021 §3.6 Objects "Type Validation" 4. and IsValidImplementation,
§3.7 Interfaces; §3.6/§3.10/§3.8 "must return a type where IsOutputType / IsInputType", union members
must be Object types), over the data types of Model/Implementation.lean.
-/
namespace Apollo.Implementation.Spec
open Apollo Apollo.SchemaInvariants Apollo.Implementation

/-- IsValidImplementation 2.a–2.b for one field: every argument of the implemented field is present
    with the same (invariant) type; additional arguments are not required -/
def ArgsValid (implemented field : List Arg) : Prop :=
  (∀ ia ∈ implemented, ∃ a, field.find? (fun a => a.name == ia.name) = some a ∧ a.ty = ia.ty) ∧
  (∀ a ∈ field, (∀ ia ∈ implemented, ia.name ≠ a.name) → a.required = false)

/-- IsValidImplementation(type, implementedType) 2.: a field of the same name for every field of the
    implemented type, with valid arguments and a covariant return type -/
def ValidImplementation (sub : Name → Name → Bool) (typeFields implementedFields : List FieldM) : Prop :=
  ∀ f ∈ implementedFields, ∃ g, findField typeFields f.name = some g ∧ ArgsValid f.args g.args ∧
    Apollo.Spec.validImplFieldType sub (Apollo.Spec.embed g.ty) (Apollo.Spec.embed f.ty) = true

/-- every reference of a definition has the kind its position requires, in the validated schema -/
def RefsRightKind (kindOf : String → Option Kind) (t : TypeRefs) : Prop :=
  (∀ n ∈ t.fieldTypes, ∃ k, kindAfter kindOf n = some k ∧ k.isOutput = true) ∧
  (∀ n ∈ t.argTypes, ∃ k, kindAfter kindOf n = some k ∧ k.isInput = true) ∧
  (∀ n ∈ t.inputFieldTypes, ∃ k, kindAfter kindOf n = some k ∧ k.isInput = true) ∧
  (∀ n ∈ t.members, kindOf n = some Kind.object)

end Apollo.Implementation.Spec
