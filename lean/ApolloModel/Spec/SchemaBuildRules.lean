import ApolloModel.Model.SchemaBuild
/-
C14 growth 3: the specification's reading of a type-system document, for the rules that
apollo-compiler checks while *building* the schema (schema/from_ast.rs, modelled in
Model/SchemaBuild.lean) — written in two passes the way the specification is worded: first the
definitions ("all types within a GraphQL schema must have unique names", §3.3; "all directives within a
GraphQL schema must have unique names", §3.3), then the extensions ("the named type must already be
defined and must be a(n) … type", §3.6.3, §3.7.1, §3.8.1, §3.9.1, §3.10.1, §3.5.3; "the Schema must already
be defined", §3.3.2), with no reference to the order of the definitions in the document.
-/
namespace Apollo.SchemaBuild

def Def.defKind (d : Def) : Option Kind :=
  match d.tag with
  | .typeDef k => some k
  | _ => none

def Def.extKind (d : Def) : Option Kind :=
  match d.tag with
  | .typeExt k => some k
  | _ => none

def Def.isSchemaDef (d : Def) : Bool := d.tag == .schemaDef
def Def.isSchemaExt (d : Def) : Bool := d.tag == .schemaExt
def Def.isDirectiveDef (d : Def) : Bool := d.tag == .directiveDef
/-- a type definition or a type extension -/
def Def.isTypePart (d : Def) : Bool := d.defKind.isSome || d.extKind.isSome
def Def.isSchemaPart (d : Def) : Bool := d.isSchemaDef || d.isSchemaExt

def builtinTypeNames : List Name := builtinTypes.map (·.name)
def builtinKind (n : Name) : Option Kind := (findType builtinTypes n).map (·.kind)

/-- names of the type definitions of the document, in order, with repetitions -/
def typeDefNames (ds : List Def) : List Name := (ds.filter (fun d => d.defKind.isSome)).map (·.name)
def dirDefNames (ds : List Def) : List Name := (ds.filter Def.isDirectiveDef).map (·.name)

/-- the kind the document gives to the name (its first definition) -/
def definedKind (ds : List Def) (n : Name) : Option Kind :=
  ds.findSome? (fun d => if d.name == n then d.defKind else none)

/-- the kind of the type named `n` in the schema: built-in, or defined by the document -/
def kindOfName (ds : List Def) (n : Name) : Option Kind :=
  match builtinKind n with
  | some k => some k
  | none => definedKind ds n

/-- everything the document says about the type `n`: its definition and its extensions -/
def partsOf (ds : List Def) (n : Name) : List Def := ds.filter (fun d => d.isTypePart && d.name == n)

/-- fields / enum values / union members / input fields of type `n`, definition and extensions together -/
def memberNames (ds : List Def) (n : Name) : List Name := (partsOf ds n).flatMap (fun d => d.members.map (·.name))
/-- implemented interfaces of type `n`, definition and extensions together -/
def ifaceNames (ds : List Def) (n : Name) : List Name := (partsOf ds n).flatMap (fun d => d.interfaces.map (·.name))

def schemaDefCount (ds : List Def) : Nat := (ds.filter Def.isSchemaDef).length
def schemaExts (ds : List Def) : List Def := ds.filter Def.isSchemaExt
/-- operation types (`query`, `mutation`, `subscription`) named by the schema definition and its extensions -/
def schemaOpNames (ds : List Def) : List Name := (ds.filter Def.isSchemaPart).flatMap (fun d => d.members.map (·.name))

/-- §3.3.1 "Default Root Operation Type Names": without a schema definition the object types called
    `Query`, `Mutation`, `Subscription` are the root operation types -/
def implicitOps (ds : List Def) : List Name :=
  ([("query", "Query"), ("mutation", "Mutation"), ("subscription", "Subscription")].filter
    (fun p => kindOfName ds p.2 == some Kind.object)).map (·.1)

/-- all operation types the schema names, explicitly or by default -/
def rootOpNames (ds : List Def) : List Name :=
  (if schemaDefCount ds = 0 then implicitOps ds else []) ++ schemaOpNames ds

/-- The rules that can be decided from names alone, as the specification states them.
    (In brackets: the rule names of the harness' independent validator, harness/src/specschema.rs.) -/
structure BuildSpec (ds : List Def) : Prop where
  /-- [executable-definition] a type-system document contains no operation or fragment -/
  noExecutable : ∀ d ∈ ds, d.tag ≠ .operation ∧ d.tag ≠ .fragment
  /-- [lone-schema-definition] §3.3 at most one schema definition -/
  loneSchema : schemaDefCount ds ≤ 1
  /-- [unique-type-names] §3.3: no two types with one name, built-in types included -/
  uniqueTypes : (builtinTypeNames ++ typeDefNames ds).Nodup
  /-- [unique-directive-names] §3.3 (a built-in directive may be re-defined once: apollo-compiler's documented
      difference `builtin_directive_redefinable_once`) -/
  uniqueDirectives : (dirDefNames ds).Nodup
  /-- [extension-type-exists], [extension-kind-match]: the extended type is defined (anywhere in the document,
      or built in) and has the extension's kind -/
  extensionsMatch : ∀ e ∈ ds, ∀ k, e.tag = .typeExt k → kindOfName ds e.name = some k
  /-- [schema-extension-without-schema] §3.3.2 -/
  schemaExtended : schemaExts ds ≠ [] → schemaDefCount ds ≠ 0 ∨ implicitOps ds ≠ []
  /-- [unique-field-names], [unique-enum-values], [unique-union-members], [unique-input-fields]: within one type
      (definition and extensions together) -/
  uniqueMembers : ∀ n, kindOfName ds n ≠ none → (memberNames ds n).Nodup
  /-- [unique-implemented-interfaces] -/
  uniqueInterfaces : ∀ n, kindOfName ds n ≠ none → (ifaceNames ds n).Nodup
  /-- [unique-operation-types] §3.3: each operation type at most once (default root types count when there is no
      schema definition) -/
  uniqueRootOps : (rootOpNames ds).Nodup

/-- what the parser guarantees about the abstraction: a schema definition or extension has no `implements` list -/
def WellFormed (ds : List Def) : Prop := ∀ d ∈ ds, d.isSchemaPart = true → d.interfaces = []

/-! ### non-emptiness (§3.6 "An Object type must define one or more fields", §3.7, §3.8 "one or more member
types", §3.9 "one or more unique enum values", §3.10 "one or more input fields") -/

/-- [object-has-fields], [interface-has-fields], [union-has-members], [enum-has-values], [input-has-fields]:
    every type the document defines, other than a scalar, has a member — in its definition or in an extension -/
def NonEmptySpec (ds : List Def) : Prop :=
  ∀ d ∈ ds, ∀ k, d.tag = .typeDef k → k ≠ .scalar → memberNames ds d.name ≠ []

end Apollo.SchemaBuild
