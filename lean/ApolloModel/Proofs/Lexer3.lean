import ApolloModel.Proofs.Lexer2
namespace Apollo.Lex

/-- a state that loops on `p` and otherwise ends the token before the character -/
theorem runD_loop (st : State) (p : Char → Bool) (kind : Kind)
    (hstep : ∀ acc c, step st kind false acc c = if p c then .goto st kind false else .excl (.tok kind))
    (heof : ∀ acc, eofItem st kind acc = .tok kind acc) :
    ∀ (src acc : Str), runD st kind false acc src = (.tok kind (acc ++ src.takeWhile p), src.dropWhile p)
  | [], acc => by simp [runD, heof]
  | c :: rest, acc => by
    unfold runD
    rw [hstep]
    by_cases hp : p c = true
    · simp only [hp, if_true]
      rw [runD_loop st p kind hstep heof rest (acc ++ [c])]
      simp [List.takeWhile_cons, List.dropWhile_cons, hp]
    · simp only [hp, Bool.false_eq_true, if_false]
      simp [List.takeWhile_cons, List.dropWhile_cons, hp, Out.mk]

theorem nameStart_not_punct (c : Char) (h : isNameStart c = true) : punctuationKind c = none := by
  unfold isNameStart at h
  simp only [Bool.or_eq_true, Bool.and_eq_true, decide_eq_true_eq, beq_iff_eq] at h
  unfold punctuationKind
  split <;> first | rfl | omega

/-- Punctuators are single-character tokens of the table's kind. -/
theorem lex_punctuator (c : Char) (k : Kind) (rest : Str) (h : punctuationKind c = some k) :
    advance (c :: rest) = (.tok k [c], rest) := by
  simp [advance, runD, step, h, Out.mk]

/-- Names are maximal: a name start followed by the longest run of name-continue characters. -/
theorem lex_name (c : Char) (rest : Str) (h : isNameStart c = true) :
    advance (c :: rest) = (.tok .name (c :: rest.takeWhile isNameContinue), rest.dropWhile isNameContinue) := by
  have hp := nameStart_not_punct c h
  unfold advance runD
  simp only [step, hp, h, if_true, List.nil_append]
  rw [runD_loop .ident isNameContinue .name (by intro acc c; simp [step, done]) (by intro acc; rfl)]
  simp

end Apollo.Lex
