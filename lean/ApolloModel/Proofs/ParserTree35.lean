import ApolloModel.Proofs.ParserTree34
import ApolloModel.Proofs.AstText12
/-
C08 growth (pipeline), part 35: what the lexer guarantees of the tokens of an accepted source carries over to the
printer's tokens of the AST `from_cst` returns: names are GraphQL names, numbers are IntValue / FloatValue texts.
-/
set_option linter.unusedSimpArgs false
set_option linter.unusedVariables false

namespace Apollo.Parse
open Apollo.Rowan hiding Str
open Apollo.Lex hiding Str

theorem wfName_eq_isValidName (n : Str) : Ast.wfName n = isValidName n := by
  cases n with
  | nil => rfl
  | cons c r =>
    have hr : r.all Lex.isNameContinue = r.all Apollo.isNameContinue := by
      induction r with
      | nil => rfl
      | cons x xs ih => simp only [List.all_cons, ih, nameContinue_agree]
    simp only [Ast.wfName, isValidName, nameStart_agree, hr]

/-- what the lexical grammar says of a grammar token -/
def TokOkA : Ast.Tok → Prop
  | .name n => Ast.wfName n = true
  | .int s => Spec.Lexical.IsIntValue s
  | .float s => Spec.Lexical.IsFloatValue s
  | _ => True

theorem specTokens_num {src : Str} {items : List Lex.Item} (h : SpecTokens src items) :
    ∀ k t, Lex.Item.tok k t ∈ items → (k = .int → Spec.Lexical.IsIntValue t) ∧ (k = .float → Spec.Lexical.IsFloatValue t) := by
  induction h with
  | eof =>
    intro k t hm
    simp only [List.mem_singleton, Lex.Item.tok.injEq] at hm
    obtain ⟨rfl, _⟩ := hm
    exact ⟨(by intro h; cases h), (by intro h; cases h)⟩
  | cons hne hok _ ih =>
    intro k t hm
    rcases List.mem_cons.mp hm with hm | hm
    · simp only [Lex.Item.tok.injEq] at hm
      obtain ⟨rfl, rfl⟩ := hm
      refine ⟨fun hk => ?_, fun hk => ?_⟩
      · subst hk; exact hok.1
      · subst hk; exact hok.1
    · exact ih k t hm

/-- every Int token of a source without lexer error is an IntValue text, every Float token a FloatValue text -/
theorem numQ_srcToks (src : Str) (hclean : LexClean src) :
    ∀ t ∈ srcToks src, (t.kind = .int → Spec.Lexical.IsIntValue t.data) ∧ (t.kind = .float → Spec.Lexical.IsFloatValue t.data) := by
  intro t ht
  have hspec := lex_ok_tokens_sound src ((lexClean_lex src).mp hclean)
  have hm : Lex.Item.tok t.kind t.data ∈ lex none src := by
    rw [lex_eq_srcToks src hclean]
    exact List.mem_map.mpr ⟨t, ht, rfl⟩
  exact specTokens_num hspec t.kind t.data hm

/-- the grammar tokens of an accepted source are lexically valid -/
theorem tokOkA_of_src (src : Str) (hclean : LexClean src) (ts : List Tok) (e : Tok) (hsig : sig (srcToks src) = ts ++ [e])
    (X : List Ast.Tok) (hx : TokIs ts X) : ∀ a ∈ X, TokOkA a := by
  intro a ha
  have h1 : some a ∈ ts.map astOfV := by rw [hx]; exact List.mem_map.mpr ⟨a, ha, rfl⟩
  obtain ⟨t, ht, hta⟩ := List.mem_map.mp h1
  have hmem : t ∈ srcToks src := by
    have : t ∈ sig (srcToks src) := by rw [hsig]; exact List.mem_append_left _ ht
    exact (List.mem_filter.mp this).1
  have hn := nameQ_srcToks src t hmem
  have hnum := numQ_srcToks src hclean t hmem
  cases hk : t.kind <;> simp [astOfV, hk] at hta <;> subst hta <;> try trivial
  · show Ast.wfName t.data = true
    rw [wfName_eq_isValidName]; exact hn hk
  · exact hnum.1 hk
  · exact hnum.2 hk

/-- the printer's tokens of a definition in another form: the same, up to the keyword `query` -/
theorem tDefinition_mem_flag (f f' : Bool) (x : Ast.Definition) (a : Ast.Tok) (h : a ∈ Ast.tDefinition f x) :
    a ∈ Ast.tDefinition f' x ∨ a = .name "query".toList := by
  cases x with
  | operation ty name vars dirs sels =>
    simp only [Ast.tDefinition] at h ⊢
    by_cases h1 : Ast.isShorthand f ty name vars dirs = true <;> by_cases h2 : Ast.isShorthand f' ty name vars dirs = true
    · simp only [h1, h2, if_true] at h ⊢; exact Or.inl h
    · simp only [h1, h2, if_true, Bool.false_eq_true, if_false, List.nil_append] at h ⊢
      exact Or.inl (List.mem_append_right _ h)
    · simp only [h1, h2, if_true, Bool.false_eq_true, if_false, List.nil_append] at h ⊢
      simp only [Ast.isShorthand, Bool.and_eq_true, beq_iff_eq, Option.isNone_iff_eq_none, List.isEmpty_iff] at h2
      obtain ⟨⟨⟨⟨_, rfl⟩, rfl⟩, rfl⟩, rfl⟩ := h2
      simp only [Ast.tVarDefs, Ast.tDirectives, List.isEmpty_nil, if_true, List.append_nil, List.cons_append, List.nil_append,
        List.mem_cons] at h
      rcases h with h | h
      · exact Or.inr h
      · exact Or.inl h
    · simp only [h1, h2, Bool.false_eq_true, if_false] at h ⊢; exact Or.inl h
  | _ => exact Or.inl h

theorem wfName_query : Ast.wfName "query".toList = true := by decide

/-- the printer's tokens of the definitions of `items` (first one with flag `oe`, the others long) are lexically
    valid when the tokens `itemsToks items` are -/
theorem tokOkA_printed (oe : Bool) (items : List Ast.Item) (h : ∀ a ∈ Ast.itemsToks items, TokOkA a) :
    ∀ a ∈ Ast.tDocument oe (items.map (·.2)), TokOkA a := by
  have key : ∀ (i : Ast.Item), i ∈ items → ∀ f a, a ∈ Ast.tDefinition f i.2 → TokOkA a := by
    intro i hi f a ha
    rcases tDefinition_mem_flag f i.1 i.2 a ha with h1 | rfl
    · apply h
      unfold Ast.itemsToks
      exact List.mem_flatten.mpr ⟨_, List.mem_map.mpr ⟨i, hi, rfl⟩, h1⟩
    · exact wfName_query
  intro a ha
  cases items with
  | nil => simp [Ast.tDocument] at ha
  | cons i r =>
    simp only [List.map_cons, Ast.tDocument, List.mem_append, List.mem_flatten, List.mem_map] at ha
    rcases ha with ha | ⟨l, ⟨x, hx, rfl⟩, ha⟩
    · exact key i List.mem_cons_self oe a ha
    · obtain ⟨j, hj, rfl⟩ := hx
      exact key j (List.mem_cons_of_mem _ hj) false a ha

/-- the hypotheses of C08's text theorems, from the validity of the printer's tokens -/
theorem segs_hyps_of_toks (pre : Option Ast.Str) (level : Nat) (doc : Ast.Document)
    (h : ∀ a ∈ Ast.tDocument (Ast.outputEmptyAtStart pre level) doc, TokOkA a) :
    Ast.NamesWf (Ast.docSegs pre level doc) ∧ Ast.IntsSpec (Ast.docSegs pre level doc) ∧ Ast.FloatsSpec (Ast.docSegs pre level doc) := by
  have htoks : Ast.segsToks (Ast.docSegs pre level doc) = Ast.tDocument (Ast.outputEmptyAtStart pre level) doc := by
    unfold Ast.docSegs
    rw [Ast.render_toks, Ast.toksOf_cDocument]
  have hm : ∀ t x, Ast.Seg.tok t x ∈ Ast.docSegs pre level doc → TokOkA t := by
    intro t x hx
    apply h
    rw [← htoks]
    unfold Ast.segsToks
    exact List.mem_filterMap.mpr ⟨_, hx, rfl⟩
  exact ⟨fun n x hx => hm _ x hx, fun s x hx => hm _ x hx, fun s x hx => hm _ x hx⟩

end Apollo.Parse
