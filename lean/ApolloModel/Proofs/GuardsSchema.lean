import ApolloModel.Model.GuardsSchema
/-
C21: the instrumented cycle detectors answer like the uninstrumented ones, never hold more than limit + 1
names, never nest deeper than their fuel, and answer `limit` exactly when a stack overflowed its limit.
-/
namespace Apollo.GuardsSchema
open Apollo.SchemaValidation

/-! ### the stateful loop -/

theorem firstErrG_fst {α σ : Type} (fG : α → σ → R × σ) (f : α → R) : ∀ (l : List α),
    (∀ x ∈ l, ∀ st, (fG x st).1 = f x) → ∀ st, (firstErrG fG l st).1 = firstErr f l
  | [], _, _ => rfl
  | x :: xs, h, st => by
    have hx := h x (by simp) st
    simp only [firstErrG, firstErr]
    cases hr : fG x st with
    | mk r st' =>
      rw [hr] at hx
      simp only at hx
      rw [← hx]
      cases r with
      | ok => simpa using firstErrG_fst fG f xs (fun y hy => h y (by simp [hy])) st'
      | recursed => rfl
      | limit => rfl
      | outOfFuel => rfl

/-- an invariant of the state that every item preserves is preserved by the loop -/
theorem firstErrG_inv {α σ : Type} (f : α → σ → R × σ) (P : σ → Prop) : ∀ (l : List α),
    (∀ x ∈ l, ∀ st, P st → P (f x st).2) → ∀ st, P st → P (firstErrG f l st).2
  | [], _, _, hst => hst
  | x :: xs, h, st, hst => by
    have hx := h x (by simp) st hst
    simp only [firstErrG]
    cases hr : f x st with
    | mk r st' =>
      rw [hr] at hx
      cases r with
      | ok => exact firstErrG_inv f P xs (fun y hy => h y (by simp [hy])) st' hx
      | recursed => exact hx
      | limit => exact hx
      | outOfFuel => exact hx

/-- coherence of answer and flag: `limit` is answered exactly when the flag `F` is raised -/
def Coh {σ : Type} (F : σ → Prop) (r : R × σ) : Prop := (r.1 = .limit ∧ F r.2) ∨ (r.1 ≠ .limit ∧ ¬ F r.2)

theorem firstErrG_coh {α σ : Type} (f : α → σ → R × σ) (F : σ → Prop) : ∀ (l : List α),
    (∀ x ∈ l, ∀ st, ¬ F st → Coh F (f x st)) → ∀ st, ¬ F st → Coh F (firstErrG f l st)
  | [], _, st, hst => Or.inr ⟨by simp [firstErrG], hst⟩
  | x :: xs, h, st, hst => by
    have hx := h x (by simp) st hst
    simp only [firstErrG]
    cases hr : f x st with
    | mk r st' =>
      rw [hr] at hx
      cases r with
      | ok =>
        rcases hx with ⟨h1, _⟩ | ⟨_, h2⟩
        · cases h1
        · exact firstErrG_coh f F xs (fun y hy => h y (by simp [hy])) st' h2
      | recursed => exact hx
      | limit => exact hx
      | outOfFuel => exact hx

/-! ### `FindRecursiveInputValue` -/

theorem searchFieldsG_fst (g : IGraph) (limit : Nat) : ∀ (fuel depth : Nat) (seen : List Nat) (fs : List IField) (st : SG),
    (searchFieldsG g limit fuel depth seen fs st).1 = searchFields g limit fuel seen fs := by
  intro fuel
  induction fuel with
  | zero => intro depth seen fs st; rfl
  | succ fuel ih =>
    intro depth seen fs st
    unfold searchFieldsG searchFields
    apply firstErrG_fst
    intro f _ st'
    by_cases hnn : f.nonNullNamed = true
    · simp only [hnn, if_true]
      by_cases hc : seen.contains f.target = true
      · simp only [hc, Bool.not_true, Bool.false_eq_true, if_false]
        by_cases hh : (seen.head? == some f.target) = true <;> simp [hh]
      · simp only [hc, Bool.not_false, if_true]
        by_cases hlt : f.target < g.length
        · simp only [hlt, if_true]
          by_cases hlim : seen.length + 1 > limit
          · simp [hlim]
          · simp only [hlim, if_false]
            exact ih _ _ _ _
        · simp [hlt]
    · simp [hnn]

theorem checkInputG_fst (g : IGraph) (limit r : Nat) : (checkInputG g limit r).1 = checkInput g limit r :=
  searchFieldsG_fst g limit _ _ _ _ _

/-- stack and depth bounds, for any bounds `B ≥ limit + 1` and `D ≥ depth + fuel` -/
theorem searchFieldsG_bounds (g : IGraph) (limit B D : Nat) (hB : limit + 1 ≤ B) :
    ∀ (fuel depth : Nat) (seen : List Nat) (fs : List IField) (st : SG), seen.length ≤ limit → depth + fuel ≤ D →
      st.high ≤ B ∧ st.dhigh ≤ D →
      (searchFieldsG g limit fuel depth seen fs st).2.high ≤ B ∧ (searchFieldsG g limit fuel depth seen fs st).2.dhigh ≤ D := by
  intro fuel
  induction fuel with
  | zero => intro depth seen fs st _ _ h; exact h
  | succ fuel ih =>
    intro depth seen fs st hs hd hst
    unfold searchFieldsG
    refine firstErrG_inv _ (fun st : SG => st.high ≤ B ∧ st.dhigh ≤ D) fs ?_ _ ?_
    · intro f _ st' hst'
      by_cases hnn : f.nonNullNamed = true
      · simp only [hnn, if_true]
        by_cases hc : seen.contains f.target = true
        · simp only [hc, Bool.not_true, Bool.false_eq_true, if_false]
          by_cases hh : (seen.head? == some f.target) = true <;> simp [hh, hst']
        · simp only [hc, Bool.not_false, if_true]
          by_cases hlt : f.target < g.length
          · simp only [hlt, if_true]
            by_cases hlim : seen.length + 1 > limit
            · simp only [hlim, if_true, SG.push]
              exact ⟨by omega, hst'.2⟩
            · simp only [hlim, if_false]
              refine ih _ _ _ _ (by simp; omega) (by omega) ?_
              simp only [SG.push]
              exact ⟨by omega, hst'.2⟩
          · simp [hlt, hst']
      · simp [hnn, hst']
    · simp only [SG.enter]
      exact ⟨hst.1, by omega⟩

/-- `limit` is answered exactly when the stack held more than `limit` names -/
theorem searchFieldsG_coh (g : IGraph) (limit : Nat) :
    ∀ (fuel depth : Nat) (seen : List Nat) (fs : List IField) (st : SG), ¬ limit < st.high →
      Coh (fun st : SG => limit < st.high) (searchFieldsG g limit fuel depth seen fs st) := by
  intro fuel
  induction fuel with
  | zero => intro depth seen fs st h; exact Or.inr ⟨by simp [searchFieldsG], h⟩
  | succ fuel ih =>
    intro depth seen fs st hst
    unfold searchFieldsG
    refine firstErrG_coh _ _ fs ?_ _ (by simpa [SG.enter] using hst)
    intro f _ st' hst'
    by_cases hnn : f.nonNullNamed = true
    · simp only [hnn, if_true]
      by_cases hc : seen.contains f.target = true
      · simp only [hc, Bool.not_true, Bool.false_eq_true, if_false]
        by_cases hh : (seen.head? == some f.target) = true
        · simp only [hh, if_true]; exact Or.inr ⟨by simp, hst'⟩
        · simp only [hh, Bool.false_eq_true, if_false]; exact Or.inr ⟨by simp, hst'⟩
      · simp only [hc, Bool.not_false, if_true]
        by_cases hlt : f.target < g.length
        · simp only [hlt, if_true]
          by_cases hlim : seen.length + 1 > limit
          · simp only [hlim, if_true]
            exact Or.inl ⟨rfl, by simp only [SG.push]; omega⟩
          · simp only [hlim, if_false]
            exact ih _ _ _ _ (by simp only [SG.push]; omega)
        · simp only [hlt, if_false]; exact Or.inr ⟨by simp, hst'⟩
    · simp only [hnn, Bool.false_eq_true, if_false]; exact Or.inr ⟨by simp, hst'⟩

/-! ### `FindRecursiveDirective` -/

theorem walkG_fst (s : DSchema) (limit : Nat) : ∀ (fuel depth : Nat) (dg tg : List Nat) (x : Item) (st : DG),
    (walkG s limit fuel depth dg tg x st).1 = walk s limit fuel dg tg x := by
  intro fuel
  induction fuel with
  | zero => intro depth dg tg x st; rfl
  | succ fuel ih =>
    intro depth dg tg x st
    cases x with
    | dir d =>
      simp only [walkG, walk]
      by_cases hc : dg.contains d = true
      · simp only [hc, Bool.not_true, Bool.false_eq_true, if_false]
        by_cases hh : (dg.head? == some d) = true <;> simp [hh]
      · simp only [hc, Bool.not_false, if_true]
        cases hd : s.dirs[d]? with
        | none => rfl
        | some args =>
          simp only []
          by_cases hlim : dg.length + 1 > limit
          · simp [hlim]
          · simp only [hlim, if_false]
            exact firstErrG_fst _ _ _ (fun y _ st' => ih _ _ _ y st') _
    | arg a =>
      simp only [walkG, walk]
      have h1 := firstErrG_fst (walkG s limit fuel (depth + 1) dg tg) (walk s limit fuel dg tg) (a.dirs.map Item.dir)
        (fun y _ st' => ih _ _ _ y st') (st.enter depth)
      cases hr : firstErrG (walkG s limit fuel (depth + 1) dg tg) (a.dirs.map Item.dir) (st.enter depth) with
      | mk r st1 =>
        rw [hr] at h1
        simp only at h1
        rw [← h1]
        cases r with
        | ok =>
          simp only []
          cases a.ty with
          | none => rfl
          | some k =>
            simp only []
            by_cases hk : k < s.types.length
            · simp only [hk, if_true]; exact ih _ _ _ _ _
            · simp [hk]
        | recursed => rfl
        | limit => rfl
        | outOfFuel => rfl
    | ty k =>
      simp only [walkG, walk]
      by_cases hc : tg.contains k = true
      · simp only [hc, if_true]
      · simp only [hc, Bool.false_eq_true, if_false]
        cases ht : s.types[k]? with
        | none => rfl
        | some t =>
          simp only []
          by_cases hlim : tg.length + 1 > limit
          · simp [hlim]
          · simp only [hlim, if_false]
            exact firstErrG_fst _ _ _ (fun y _ st' => ih _ _ _ y st') _

theorem checkDirectiveG_fst (s : DSchema) (limit d : Nat) : (checkDirectiveG s limit d).1 = checkDirective s limit d :=
  firstErrG_fst _ _ _ (fun y _ st' => walkG_fst s limit _ _ _ _ y st') _

def DGB (B D : Nat) (st : DG) : Prop := st.highD ≤ B ∧ st.highT ≤ B ∧ st.dhigh ≤ D

theorem walkG_bounds (s : DSchema) (limit B D : Nat) (hB : limit + 1 ≤ B) :
    ∀ (fuel depth : Nat) (dg tg : List Nat) (x : Item) (st : DG), dg.length ≤ limit → tg.length ≤ limit → depth + fuel ≤ D →
      DGB B D st → DGB B D (walkG s limit fuel depth dg tg x st).2 := by
  intro fuel
  induction fuel with
  | zero => intro depth dg tg x st _ _ _ h; exact h
  | succ fuel ih =>
    intro depth dg tg x st hdg htg hd hst
    have hent : DGB B D (st.enter depth) := ⟨hst.1, hst.2.1, by simp only [DG.enter]; have := hst.2.2; omega⟩
    cases x with
    | dir d =>
      simp only [walkG]
      by_cases hc : dg.contains d = true
      · simp only [hc, Bool.not_true, Bool.false_eq_true, if_false]
        by_cases hh : (dg.head? == some d) = true <;> simp [hh, hent]
      · simp only [hc, Bool.not_false, if_true]
        cases hdd : s.dirs[d]? with
        | none => exact hent
        | some args =>
          simp only []
          have hp : DGB B D ((st.enter depth).pushD (dg.length + 1)) :=
            ⟨by simp only [DG.pushD]; have := hent.1; omega, hent.2.1, hent.2.2⟩
          by_cases hlim : dg.length + 1 > limit
          · simp only [hlim, if_true]; exact hp
          · simp only [hlim, if_false]
            exact firstErrG_inv _ (DGB B D) _ (fun y _ st' hst' => ih _ _ _ y st' (by simp; omega) htg (by omega) hst') _ hp
    | arg a =>
      simp only [walkG]
      have h1 := firstErrG_inv (walkG s limit fuel (depth + 1) dg tg) (DGB B D) (a.dirs.map Item.dir)
        (fun y _ st' hst' => ih _ _ _ y st' hdg htg (by omega) hst') _ hent
      cases hr : firstErrG (walkG s limit fuel (depth + 1) dg tg) (a.dirs.map Item.dir) (st.enter depth) with
      | mk r st1 =>
        rw [hr] at h1
        cases r with
        | ok =>
          simp only []
          cases a.ty with
          | none => exact h1
          | some k =>
            simp only []
            by_cases hk : k < s.types.length
            · simp only [hk, if_true]; exact ih _ _ _ _ _ hdg htg (by omega) h1
            · simp only [hk, if_false]; exact h1
        | recursed => exact h1
        | limit => exact h1
        | outOfFuel => exact h1
    | ty k =>
      simp only [walkG]
      by_cases hc : tg.contains k = true
      · simp only [hc, if_true]; exact hent
      · simp only [hc, Bool.false_eq_true, if_false]
        cases ht : s.types[k]? with
        | none => exact hent
        | some t =>
          simp only []
          have hp : DGB B D ((st.enter depth).pushT (tg.length + 1)) :=
            ⟨hent.1, by simp only [DG.pushT]; have := hent.2.1; omega, hent.2.2⟩
          by_cases hlim : tg.length + 1 > limit
          · simp only [hlim, if_true]; exact hp
          · simp only [hlim, if_false]
            exact firstErrG_inv _ (DGB B D) _ (fun y _ st' hst' => ih _ _ _ y st' hdg (by simp; omega) (by omega) hst') _ hp

/-- one of the two stacks held more than `limit` names -/
def Over (limit : Nat) (st : DG) : Prop := limit < st.highD ∨ limit < st.highT

theorem walkG_coh (s : DSchema) (limit : Nat) :
    ∀ (fuel depth : Nat) (dg tg : List Nat) (x : Item) (st : DG), ¬ Over limit st →
      Coh (Over limit) (walkG s limit fuel depth dg tg x st) := by
  intro fuel
  induction fuel with
  | zero => intro depth dg tg x st h; exact Or.inr ⟨by simp [walkG], h⟩
  | succ fuel ih =>
    intro depth dg tg x st hst
    have hent : ¬ Over limit (st.enter depth) := hst
    have okc : ∀ (r : R) (st' : DG), r ≠ .limit → ¬ Over limit st' → Coh (Over limit) (r, st') := fun r st' h1 h2 => Or.inr ⟨h1, h2⟩
    cases x with
    | dir d =>
      simp only [walkG]
      by_cases hc : dg.contains d = true
      · simp only [hc, Bool.not_true, Bool.false_eq_true, if_false]
        by_cases hh : (dg.head? == some d) = true
        · simp only [hh, if_true]; exact okc _ _ (by simp) hent
        · simp only [hh, Bool.false_eq_true, if_false]; exact okc _ _ (by simp) hent
      · simp only [hc, Bool.not_false, if_true]
        cases hdd : s.dirs[d]? with
        | none => exact okc _ _ (by simp) hent
        | some args =>
          simp only []
          by_cases hlim : dg.length + 1 > limit
          · simp only [hlim, if_true]
            exact Or.inl ⟨rfl, Or.inl (by simp only [DG.pushD]; omega)⟩
          · simp only [hlim, if_false]
            refine firstErrG_coh _ _ _ (fun y _ st' hst' => ih _ _ _ y st' hst') _ ?_
            intro h
            rcases h with h | h
            · simp only [DG.pushD] at h
              exact hent (Or.inl (by omega))
            · exact hent (Or.inr h)
    | arg a =>
      simp only [walkG]
      have h1 := firstErrG_coh (walkG s limit fuel (depth + 1) dg tg) (Over limit) (a.dirs.map Item.dir)
        (fun y _ st' hst' => ih _ _ _ y st' hst') _ hent
      cases hr : firstErrG (walkG s limit fuel (depth + 1) dg tg) (a.dirs.map Item.dir) (st.enter depth) with
      | mk r st1 =>
        rw [hr] at h1
        cases r with
        | ok =>
          have h2 : ¬ Over limit st1 := by
            rcases h1 with ⟨h, _⟩ | ⟨_, h⟩
            · cases h
            · exact h
          simp only []
          cases a.ty with
          | none => exact okc _ _ (by simp) h2
          | some k =>
            simp only []
            by_cases hk : k < s.types.length
            · simp only [hk, if_true]; exact ih _ _ _ _ _ h2
            · simp only [hk, if_false]; exact okc _ _ (by simp) h2
        | recursed => exact h1
        | limit => exact h1
        | outOfFuel => exact h1
    | ty k =>
      simp only [walkG]
      by_cases hc : tg.contains k = true
      · simp only [hc, if_true]; exact okc _ _ (by simp) hent
      · simp only [hc, Bool.false_eq_true, if_false]
        cases ht : s.types[k]? with
        | none => exact okc _ _ (by simp) hent
        | some t =>
          simp only []
          by_cases hlim : tg.length + 1 > limit
          · simp only [hlim, if_true]
            exact Or.inl ⟨rfl, Or.inr (by simp only [DG.pushT]; omega)⟩
          · simp only [hlim, if_false]
            refine firstErrG_coh _ _ _ (fun y _ st' hst' => ih _ _ _ y st' hst') _ ?_
            intro h
            rcases h with h | h
            · exact hent (Or.inl h)
            · simp only [DG.pushT] at h
              exact hent (Or.inr (by omega))

/-! ### `walk_selections_with_deduped_fragments` -/

open Apollo.Guards

/-- the deepest call stays within limit + 1, and the walk errs exactly when it tried to go deeper than the limit -/
def WGood (dlimit : Nat) (st : WS) (r : Bool × WS) : Prop :=
  r.2.dhigh ≤ dlimit + 1 ∧ (¬ dlimit < st.dhigh → (r.1 = true ↔ dlimit < r.2.dhigh))

theorem wsList_cons_of_err (doc : Doc) (dlimit depth : Nat) (st : WS) (s : Sel) (rest : List Sel)
    (hne : ∀ st', wsSel doc dlimit depth { st with visited := st.visited + 1 } s = (false, st') → False) :
    wsList doc dlimit depth st (s :: rest) = wsSel doc dlimit depth { st with visited := st.visited + 1 } s := by
  rw [wsList]
  split
  · rename_i st' heq; exact absurd heq (hne st')
  · rfl

theorem ws_all (doc : Doc) (dlimit : Nat) :
    (∀ depth st sels, depth ≤ dlimit → st.dhigh ≤ dlimit + 1 → WGood dlimit st (wsList doc dlimit depth st sels)) ∧
    (∀ depth st s, depth ≤ dlimit → st.dhigh ≤ dlimit + 1 → WGood dlimit st (wsSel doc dlimit depth st s)) := by
  apply wsList.mutual_induct doc dlimit
    (fun depth st sels => depth ≤ dlimit → st.dhigh ≤ dlimit + 1 → WGood dlimit st (wsList doc dlimit depth st sels))
    (fun depth st s => depth ≤ dlimit → st.dhigh ≤ dlimit + 1 → WGood dlimit st (wsSel doc dlimit depth st s))
  · intro depth st _ hb
    rw [wsList]
    exact ⟨hb, fun hn => ⟨fun h => Bool.noConfusion h, fun h => absurd h hn⟩⟩
  · intro depth st s rest st' hs ih2 ih1 hd hb
    rw [wsList, hs]
    have g2 := ih2 hd hb
    rw [hs] at g2
    have g1 := ih1 hd g2.1
    refine ⟨g1.1, fun hn => ?_⟩
    have hn' : ¬ dlimit < st'.dhigh := fun h => by have := (g2.2 hn).mpr h; cases this
    exact g1.2 hn'
  · intro depth st s rest hne ih2 hd hb
    rw [wsList_cons_of_err doc dlimit depth st s rest hne]
    exact ih2 hd hb
  · intro depth st sels hlim hd hb
    rw [wsSel]
    simp only [hlim, if_true]
    refine ⟨by simp only [WS.enter]; omega, fun _ => ⟨fun _ => by simp only [WS.enter]; omega, fun _ => rfl⟩⟩
  · intro depth st sels hlim ih hd hb
    rw [wsSel]
    simp only [hlim, if_false]
    have g := ih (by omega) (by simp only [WS.enter]; omega)
    exact ⟨g.1, fun hn => g.2 (by simp only [WS.enter]; omega)⟩
  · intro depth st n hc _ hb
    rw [wsSel]
    simp only [hc, if_true]
    exact ⟨hb, fun hn => ⟨fun h => Bool.noConfusion h, fun h => absurd h hn⟩⟩
  · intro depth st n hc hl _ hb
    rw [wsSel]
    simp only [hc, hl, Bool.false_eq_true, if_false]
    exact ⟨hb, fun hn => ⟨fun h => Bool.noConfusion h, fun h => absurd h hn⟩⟩
  · intro depth st n hc body hl hlim hd hb
    rw [wsSel]
    simp only [hc, hl, hlim, Bool.false_eq_true, if_false, if_true]
    refine ⟨by simp only [WS.enter]; omega, fun _ => ⟨fun _ => by simp only [WS.enter]; omega, fun _ => rfl⟩⟩
  · intro depth st n hc body hl hlim ih hd hb
    rw [wsSel]
    simp only [hc, hl, hlim, Bool.false_eq_true, if_false]
    have g := ih (by omega) (by simp only [WS.enter]; omega)
    exact ⟨g.1, fun hn => g.2 (by simp only [WS.enter]; omega)⟩

end Apollo.GuardsSchema
