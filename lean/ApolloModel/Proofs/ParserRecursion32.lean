import ApolloModel.Proofs.ParserRecursion31
/-
C04 growth, part 32: (1) the token-limit error is the last element of the error list — once the lexer refused an
item it hands out nothing more, `accept_errors` is false, and `limit_err` finds no token to report at;
(2) a parse without token limit reports a limit error if and only if its recursion limit was hit (the cross-run
calculus of parts 8–17 no longer needs "the larger limit is not hit"), so the closed form of the depth needs
only "no error".
-/
set_option linter.unusedSimpArgs false
set_option linter.unusedVariables false
namespace Apollo.Parse
open Apollo.Rowan hiding Str
open Apollo.Lex hiding Str

/-! ### the token-limit error is last -/

/-- the error list ends with a limit error -/
def EndsWithLimit (es : List PErr) : Prop := ∃ pre i, es = pre ++ [(⟨i, 0, .limit⟩ : PErr)]

structure TL (n : Nat) (Ls : List Item) (s : PState) : Prop where
  ti : TI n Ls s
  last : Hit n s.lx → s.acceptErrors = false ∧ EndsWithLimit s.errors

theorem tl_next {n : Nat} {Ls : List Item} : ∀ (fuel : Nat) (s : PState), TL n Ls s → TL n Ls (nextTokenRaw fuel s).2
  | 0, s, h => by simpa [nextTokenRaw] using h
  | fuel + 1, s, h => by
    obtain ⟨l1, l2, l3⟩ := li_lexNext h.ti.li
    have t1 := ti_next (n := n) (Ls := Ls) 1 s h.ti
    unfold nextTokenRaw at t1 ⊢
    cases hl : lexNext s.lx with
    | mk o l' =>
      rw [hl] at l1 l2 l3 t1
      simp only [] at l1 l2 l3 t1
      have fin_none : Hit n s.lx → o = none := fun y => by
        have : lexNext s.lx = (none, s.lx) := lexNext_finished _ y.1
        rw [hl] at this
        injection this with this _
      cases o with
      | none =>
        simp only [] at t1 ⊢
        exact ⟨by simpa [nextTokenRaw] using t1, fun x => h.last (l3 (fun y => y) x)⟩
      | some out =>
        cases out with
        | tok t =>
          simp only [] at t1 ⊢
          exact ⟨by simpa [nextTokenRaw] using t1, fun x => h.last (l3 (fun y => y) x)⟩
        | err d i =>
          simp only [] at t1 ⊢
          refine tl_next fuel _ ⟨by simpa [nextTokenRaw] using t1, fun x => ?_⟩
          have := fin_none (l3 (fun y => y) x)
          cases this
        | limit i =>
          simp only [] at t1 ⊢
          exact tl_next fuel _ ⟨by simpa [nextTokenRaw] using t1, fun _ => ⟨rfl, s.errors, i, rfl⟩⟩

instance instStInvTL (n : Nat) (Ls : List Item) : StInv (TL n Ls) where
  cong := by
    intro s s' e1 e2 e3 e4 e5 h
    exact ⟨StInv.cong s s' e1 e2 e3 e4 e5 h.ti, by rw [e1, e2, e3]; exact h.last⟩
  next := tl_next
  err := by
    intro s e he ha h
    refine ⟨StInv.err s e he ha h.ti, fun x => ?_⟩
    have := (h.last x).1
    rw [ha] at this
    cases this
  high := by
    intro s hgh hle h
    exact ⟨StInv.high s hgh hle h.ti, h.last⟩
  limit := by
    intro s i hh h
    refine ⟨StInv.limit s i hh h.ti, fun x => ?_⟩
    obtain ⟨ha, hl⟩ := h.last x
    refine ⟨rfl, ?_⟩
    show EndsWithLimit (if s.acceptErrors then s.errors ++ [⟨i, 0, .limit⟩] else s.errors)
    simp only [ha, Bool.false_eq_true, if_false]
    exact hl

/-- **once the token limit refused an item, its error is the last one** — every entry point, every recursion
    limit, no side condition -/
theorem parse_token_limit_error_last (e : Entry) (n r : Nat) (src : Str) (h : (parse e (some n) r src).tokHigh > n) :
    EndsWithLimit (parse e (some n) r src).errors := by
  obtain ⟨s, hr, h1, _, h3, _⟩ := parse_run e (some n) r src
  have h0 : TL n (lex none src) (entryStartT e src (some n) r) := by
    refine ⟨ti_start e src n r, fun x => ?_⟩
    have hl : (entryStartT e src (some n) r).lx = (initState src (some n) r).lx := by cases e <;> rfl
    have := x.1
    rw [hl] at this
    simp [initState] at this
  have tl := (kp_entry e (fuelFor src)).k _ () s h0 hr
  rw [h1]
  rw [h3] at h
  refine (tl.last ?_).2
  by_cases hf : s.lx.finished = true
  · rcases tl.ti.li.fin hf with ⟨a1, _, _, _⟩ | ⟨a1, _, _, _⟩
    · omega
    · exact ⟨hf, a1⟩
  · have hf' : s.lx.finished = false := by simpa using hf
    obtain ⟨a1, a2, _⟩ := tl.ti.li.run hf'
    omega

/-! ### a hit records the limit error -/

/-- the two-run comparison of a parse with itself: not hit, or the limit error is on record -/
theorem parse_hit_records (e : Entry) (R : Nat) (src : Str) (h : (parse e none R src).recHigh > R) :
    HasLim (parse e none R src).errors := by
  obtain ⟨sR, hR, eR1, eR2⟩ := parse_entry_run e R src
  rw [eR1]
  rw [eR2] at h
  have g : GI (entryStart e src) := by
    cases e <;> exact ⟨rfl, fun h => by simp [entryStart, Entry.standalone, initState] at h,
      fun h => by simp [entryStart, Entry.standalone, initState] at h⟩
  have hf : Fresh (entryStart e src) := by cases e <;> exact fun _ => rfl
  have hc0 : (entryStart e src).recCur ≤ R := by cases e <;> exact Nat.zero_le _
  have hh0 : (entryStart e src).recHigh ≤ R := by cases e <;> exact Nat.zero_le _
  rcases xs_entry e (fuelFor src) (entryStart e src) R R () () sR sR (Nat.le_refl _) hc0 hh0 g hf hR hR
    with ⟨t, e1, _, _, th, _, _⟩ | ⟨d1, _, _⟩
  · subst e1
    have : (setL R t).recHigh = t.recHigh := rfl
    omega
  · exact d1

/-- **no token limit: a limit error is reported iff the recursion limit was hit** -/
theorem parse_limit_iff_hit (e : Entry) (R : Nat) (src : Str) :
    HasLim (parse e none R src).errors ↔ (parse e none R src).recHigh > R := by
  constructor
  · intro hl
    by_cases h : (parse e none R src).recHigh ≤ R
    · exact absurd hl (parse_no_limit_error e R src h)
    · omega
  · exact parse_hit_records e R src

/-- the cross-run statement without any side condition on the larger limit -/
theorem parse_cross_all (e : Entry) (r R : Nat) (src : Str) (hrR : r ≤ R) :
    (parse e none r src).recHigh = min (parse e none R src).recHigh (r + 1) ∧
    (HasLim (parse e none r src).errors ↔ (parse e none R src).recHigh > r) := by
  obtain ⟨sr, hr, er1, er2⟩ := parse_entry_run e r src
  obtain ⟨sR, hR, eR1, eR2⟩ := parse_entry_run e R src
  have hiff := parse_limit_iff_hit e R src
  rw [eR1, eR2] at hiff
  rw [er1, er2, eR2]
  have g : GI (entryStart e src) := by
    cases e <;> exact ⟨rfl, fun h => by simp [entryStart, Entry.standalone, initState] at h,
      fun h => by simp [entryStart, Entry.standalone, initState] at h⟩
  have hf : Fresh (entryStart e src) := by cases e <;> exact fun _ => rfl
  have hc0 : (entryStart e src).recCur ≤ r := by cases e <;> exact Nat.zero_le _
  have hh0 : (entryStart e src).recHigh ≤ r := by cases e <;> exact Nat.zero_le _
  rcases xs_entry e (fuelFor src) (entryStart e src) r R () () sr sR hrR hc0 hh0 g hf hr hR
    with ⟨t, e1, e2, _, th, _, _⟩ | ⟨d1, d2, d3⟩
  · subst e1 e2
    refine ⟨?_, ?_⟩
    · show t.recHigh = min t.recHigh (r + 1)
      omega
    · show HasLim t.errors ↔ t.recHigh > r
      constructor
      · intro hl
        have : t.recHigh > R := hiff.mp hl
        omega
      · intro hgt
        have : t.recHigh ≤ r := th
        omega
  · exact ⟨by omega, ⟨fun _ => by omega, fun _ => d1⟩⟩

/-- **the closed form needs only "no error"** -/
theorem parse_depth_of_no_error (e : Entry) (R : Nat) (src : Str) (herr : (parse e none R src).errors = []) :
    ∃ root, (parse e none R src).outcome = .tree root ∧ (parse e none R src).recHigh = gd root := by
  refine parse_depth e R src herr ?_
  by_cases h : (parse e none R src).recHigh ≤ R
  · exact h
  · have := parse_hit_records e R src (by omega)
    rw [herr] at this
    obtain ⟨x, hx, _⟩ := this
    cases hx

end Apollo.Parse
