import ApolloModel.Proofs.ParserExactS7
import ApolloModel.Proofs.ParserType7
/-
EXACT SOUNDNESS, part 8 (namespace Apollo.Parse.Exact): ParserType4 repeated with the recursion budget — an error-free
run of `ty.rs::parse` consumes the tokens of a type whose list nesting is within the budget of the START state.
-/
set_option linter.unusedSimpArgs false
namespace Apollo.Parse.Exact
open Apollo.Rowan hiding Str
open Apollo.Lex hiding Str

/-- what a successful, error-free run of `ty.rs::parse` means -/
structure TyOk (s s' : PState) : Prop where
  ex : ∃ c t, Toks s = c ++ Toks s' ∧ IsTy (sig c) t ∧ NoEof c ∧ tyDepth t ≤ bud s
  eof : EofEnd s'
  settled : Settled s'

def TySound (n : Nat) : Prop :=
  ∀ s s' r, TW s → EofEnd s → (tyParse n).run s = .ok r s' → ¬ Doomed s' →
    (∃ tk, r = TyRes.errTok tk) ∨ (r = TyRes.ok ∧ TyOk s s')


theorem isTy_bang (b : Tok) (c : List Tok) (u : Ast.Ty) (hb : b.kind = .bang) (hu : IsBase u) (h : IsTy c u) :
    ∃ u', IsTy (c ++ [b]) u' ∧ tyDepth u' = tyDepth u := by
  unfold IsTy at *
  have hb' : astOf b = some (.p .bang) := by simp [astOf, hb]
  rcases hu with ⟨n, rfl⟩ | ⟨v, rfl⟩
  · refine ⟨.nonNullNamed n, ?_, by simp [tyDepth]⟩
    rw [List.map_append, h]
    simp [Ast.tTy, hb']
  · refine ⟨.nonNullList v, ?_, by simp [tyDepth]⟩
    rw [List.map_append, h]
    simp [Ast.tTy, hb']

theorem listBranch_sound (n : Nat) (ih : TySound n) (s s' : PState) (r : TyRes) (t : Tok) (rest : List Tok) (w : TW s)
    (he : EofEnd s) (ht : Toks s = t :: rest) (hk : t.kind = .lBracket)
    (h : (withNode "LIST_TYPE" (tyListBody n)).run s = .ok r s') (hnd : ¬ Doomed s') :
    r = .ok ∧ ∃ c u, Toks s = c ++ Toks s' ∧ IsTy (sig c) (.list u) ∧ NoEof c ∧ EofEnd s' ∧ tyDepth u + 1 ≤ bud s := by
  have hni : isIgnoredKind t.kind = false := by rw [hk]; rfl
  have hne : t.kind ≠ .eof := by rw [hk]; decide
  obtain ⟨s1, s2, e1, h1, o2⟩ := withNode_peeked _ _ s s' r t rest w ht hni h
  have ht1 : Toks s1 = t :: rest := by have := e1.toks; rw [ht] at this; simpa using this.symm
  have hnd2 : ¬ Doomed s2 := fun d => hnd (o2.doomed.mpr d)
  -- the rest of the body is Good: no doom so far
  have gl := good_tyListBody n (good_tyParse n)
  unfold tyListBody at h1
  -- bump "L_BRACK"
  obtain ⟨_, s3, h3, h4⟩ := bind_dec (bump "L_BRACK") _ s1 s2 r h1
  unfold bump at h3
  obtain ⟨_, s3a, h3a, h3b⟩ := bind_dec (eat "L_BRACK") _ s1 s3 () h3
  have eb : Eat s1 s3a [t] := by
    rcases eat_spec "L_BRACK" s1 s3a e1.w h3a with ⟨t', rest', hq, e5, _⟩ | ⟨hq, _⟩
    · rw [ht1] at hq; injection hq with hq _; subst hq; exact e5
    · rw [ht1] at hq; cases hq
  obtain ⟨ign1, es, hall1, _⟩ := skipIgnored_spec s3a s3 eb.w h3b
  have e13 : Eat s1 s3 (t :: ign1) := by simpa using eb.trans es
  have he3 : EofEnd s3 := eofEnd_eat (eofEnd_eat he e1 (by intro x hx; cases hx)) e13
    (by intro x hx; rcases List.mem_cons.mp hx with rfl | hx; exact hne; exact noEof_ignored ign1 hall1 x hx)
  -- the recursion guard
  obtain ⟨inner, s4, h5, h6⟩ := bind_dec _ _ s3 s2 r h4
  -- everything after s4 is Good, so s4 is not doomed either; same for later states
  rcases withRec_dec _ _ s3 s4 inner h5 with ⟨_, sl, ol, hl⟩ | ⟨hle, sr1, sr2, c1, l1, er1, a1, r1, rl1, hr, c2, l2, er2, a2, r2, rl2⟩
  · -- recursion limit reached: `limit_err` dooms the parse
    exfalso
    obtain ⟨_, sl2, hl1, hl2⟩ := bind_dec limitErr _ sl s4 inner hl
    rw [run_pure] at hl2
    injection hl2 with hin hs4
    subst hs4 hin
    have wl : TW sl := ol.w e13.w
    obtain ⟨al, dl⟩ := limitErr_adv sl sl2 wl hl1
    have hdl : Doomed sl2 := by
      by_cases hd : Doomed s3
      · exact al.doom (ol.doomed.mpr hd)
      · exact dl (by rw [ol.toks]; exact eofEnd_nonempty s3 he3 hd)
    -- the tail of the list body
    simp only [] at h6
    rw [run_pure] at h6
    injection h6 with _ h6
    subst h6
    exact hnd2 hdl
  · -- the nested type
    have wr1 : TW sr1 := w_same _ _ e13.w er1 l1 a1
    have her1 : EofEnd sr1 := eofEnd_same _ _ he3 c1 l1 er1
    obtain ⟨res, sr2', hr1, hr2⟩ := bind_dec (tyParse n) _ sr1 sr2 inner hr
    rw [run_pure] at hr2
    injection hr2 with hin hs
    subst hs hin
    have adv_r := good_tyParse n sr1 res sr2' wr1 hr1
    have w4 : TW s4 := w_same _ _ adv_r.w er2 l2 a2
    -- the tail: match res …; expect; pure ok
    simp only [] at h6
    have tail_good : ∀ (m : PI TyRes), Good m → m.run s4 = .ok r s2 → ¬ Doomed s4 := by
      intro m gm hm d
      exact hnd2 ((gm s4 r s2 w4 hm).doom d)
    have jp_good : Good (expect .rBracket "R_BRACK" >>= fun _ => (pure TyRes.ok : PI TyRes)) :=
      good_bind _ _ (good_expect _ _) (fun _ => good_pure _)
    have key : ∀ (hnd4 : ¬ Doomed s4) (hjp : (expect .rBracket "R_BRACK" >>= fun _ => (pure TyRes.ok : PI TyRes)).run s4 = .ok r s2)
        (hres : res = .ok ∨ res = .errNone ∨ res = .early),
        r = .ok ∧ ∃ c u, Toks s = c ++ Toks s' ∧ IsTy (sig c) (.list u) ∧ NoEof c ∧ EofEnd s' ∧ tyDepth u + 1 ≤ bud s := by
      intro hnd4 hjp hres
      have hndr : ¬ Doomed sr2' := fun d => hnd4 ((doomed_same _ _ er2 l2).mpr d)
      rcases ih sr1 sr2' res wr1 her1 hr1 hndr with ⟨tk, hx⟩ | ⟨_, ok⟩
      · rcases hres with h | h | h <;> rw [h] at hx <;> cases hx
      · obtain ⟨ci, u, hti, hty, hnoe, hdu⟩ := ok.ex
        have he4 : EofEnd s4 := eofEnd_same _ _ ok.eof c2 l2 er2
        have ht4 : Toks s4 = Toks sr2' := by unfold Toks; rw [c2, l2]
        obtain ⟨_, s5, h7, h8⟩ := bind_dec (expect .rBracket "R_BRACK") _ s4 s2 r hjp
        rw [run_pure] at h8
        injection h8 with h8 h9
        subst h9
        refine ⟨h8.symm, ?_⟩
        obtain ⟨_, hex⟩ := expect_spec .rBracket "R_BRACK" s4 s5 w4 h7
        rcases hex with ⟨hemp, _⟩ | hd | ⟨t2, rest2, ign2, hq, hk2, e2, hall2, _⟩
        · exact absurd hemp (eofEnd_nonempty s4 he4 hnd4)
        · exact absurd hd hnd2
        · have hne2 : t2.kind ≠ .eof := by rw [hk2]; decide
          have hni2 : isIgnoredKind t2.kind = false := by rw [hk2]; rfl
          have hno2 : NoEof (t2 :: ign2) := by
            intro x hx; rcases List.mem_cons.mp hx with rfl | hx; exact hne2; exact noEof_ignored ign2 hall2 x hx
          refine ⟨t :: ign1 ++ ci ++ (t2 :: ign2), u, ?_, ?_, ?_, ?_, ?_⟩
          · have a := e1.toks
            have b := e13.toks
            have c' : Toks s3 = Toks sr1 := by unfold Toks; rw [c1, l1]
            have d := e2.toks
            rw [o2.toks]
            simp only [List.nil_append] at a
            rw [a, b, c', hti, ← ht4, d]
            simp [List.append_assoc]
          · have : sig (t :: ign1 ++ ci ++ (t2 :: ign2)) = t :: sig ci ++ [t2] := by
              have x1 : t :: ign1 ++ ci ++ (t2 :: ign2) = [t] ++ ign1 ++ ci ++ [t2] ++ ign2 := by simp
              rw [x1]
              simp only [sig_append, sig_ignored ign1 hall1, sig_ignored ign2 hall2, sig_single t hni, sig_single t2 hni2]
              simp
            rw [this]
            exact isTy_list t t2 (sig ci) u hk hk2 hty
          · refine noEof_append (noEof_append ?_ hnoe) hno2
            intro x hx; rcases List.mem_cons.mp hx with rfl | hx; exact hne; exact noEof_ignored ign1 hall1 x hx
          · exact eofEnd_same _ _ (eofEnd_eat he4 e2 hno2) o2.current o2.lx o2.errors
          · have hb1 : bud sr1 + 1 = bud s3 := by unfold bud; rw [r1, rl1]; omega
            have hb3 : bud s3 = bud s := by rw [bud_eat e13, bud_eat e1]
            omega
    cases res with
    | errTok tk =>
      exfalso
      simp only [] at h6
      obtain ⟨_, s5, h7, h8⟩ := bind_dec (errAtToken tk) _ s4 s2 r h6
      obtain ⟨a5, d5⟩ := errAtToken_adv tk s4 s5 w4 h7
      exact hnd2 ((jp_good s5 r s2 a5.w h8).doom d5)
    | ok => exact key (tail_good _ jp_good h6) h6 (Or.inl rfl)
    | errNone => exact key (tail_good _ jp_good h6) h6 (Or.inr (Or.inl rfl))
    | early => exact key (tail_good _ jp_good h6) h6 (Or.inr (Or.inr rfl))

theorem isTy_named (t : Tok) (hk : t.kind = .name) : IsTy [t] (.named t.data) := by
  simp [IsTy, Ast.tTy, astOf, hk]

theorem tyBody_sound (n : Nat) (ih : TySound n) (s s' : PState) (r : TyRes) (w : TW s) (he : EofEnd s)
    (h : (tyBody n).run s = .ok r s') (hnd : ¬ Doomed s') :
    (∃ tk, r = TyRes.errTok tk)
    ∨ (r = TyRes.ok ∧ ∃ c u, Toks s = c ++ Toks s' ∧ IsTy (sig c) u ∧ IsBase u ∧ NoEof c ∧ EofEnd s' ∧ tyDepth u ≤ bud s) := by
  unfold tyBody at h
  obtain ⟨k, sP, hp, h2⟩ := bind_dec peek _ s s' r h
  obtain ⟨o, p, hk⟩ := peek_obs s sP k w hp
  subst hk
  have heP : EofEnd sP := by
    rcases he with hd | hx
    · exact Or.inl (p.doom.mpr hd)
    · rw [← p.toks] at hx; exact Or.inr hx
  cases o with
  | none =>
    exfalso
    simp only [Option.map_none] at h2
    rw [run_pure] at h2
    injection h2 with _ h2
    subst h2
    have hh := p.head
    have : Toks s = [] := by
      cases ht : Toks s with
      | nil => rfl
      | cons a b => rw [ht] at hh; cases hh
    exact eofEnd_nonempty s he (fun d => hnd (p.doom.mpr d)) this
  | some t =>
    have htP : Toks sP = t :: (Toks sP).tail := by
      have hh := p.head
      rw [← p.toks] at hh
      cases hq : Toks sP with
      | nil => rw [hq] at hh; cases hh
      | cons a b => rw [hq] at hh; injection hh with hh; subst hh; rfl
    have toS : ∀ c, Toks sP = c ++ Toks s' → Toks s = c ++ Toks s' := by intro c hc; rw [← p.toks]; exact hc
    simp only [Option.map_some] at h2
    by_cases hkl : t.kind = .lBracket
    · simp only [hkl] at h2
      obtain ⟨hr, c, u, hc, hty, hno, hee, hdu⟩ := listBranch_sound n ih sP s' r t _ p.w heP htP hkl h2 hnd
      exact Or.inr ⟨hr, c, .list u, toS c hc, hty, Or.inr ⟨u, rfl⟩, hno, hee, by rw [← bud_peek p]; simpa [tyDepth] using hdu⟩
    · by_cases hkn : t.kind = .name
      · simp only [hkn] at h2
        obtain ⟨hr, e⟩ := nameBranch_sound sP s' r t _ p.w htP hkn h2
        have hne : NoEof [t] := by intro x hx; simp at hx; subst hx; rw [hkn]; decide
        refine Or.inr ⟨hr, [t], .named t.data, toS _ e.toks, ?_, Or.inl ⟨_, rfl⟩, hne, eofEnd_eat heP e hne, by simp [tyDepth]⟩
        rw [sig_single t (by rw [hkn]; rfl)]
        exact isTy_named t hkn
      · refine Or.inl ⟨t, ?_⟩
        have hcur : sP.current = some t := p.current
        cases hk : t.kind <;>
          first
            | exact absurd hk hkl
            | exact absurd hk hkn
            | (simp only [hk] at h2; exact otherBranch_sound sP s' r t hcur p.w h2)

theorem tyParse_sound : ∀ (n : Nat), TySound n
  | 0 => by intro s s' r _ _ h; simp [tyParse, PI.outOfFuel] at h
  | n + 1 => by
    intro s s' r w he h hnd
    rw [tyParse_succ] at h
    obtain ⟨r0, sW, hw, h2⟩ := bind_dec _ _ s s' r h
    have gW : Good (wrapIf "NON_NULL_TYPE" (tyBody n) tyCond (eat "BANG")) :=
      good_wrapIf _ _ _ _ (good_tyBody n (good_tyParse n)) good_tyCond (good_eat _)
    have aW := gW s r0 sW w hw
    obtain ⟨s1, s2, s3, c, o1, hb, hc, hrest⟩ := wrapIf_dec _ _ _ _ s sW r0 hw
    have w1 := o1.w w
    have a2 := good_tyBody n (good_tyParse n) s1 r0 s2 w1 hb
    have a3 := good_tyCond r0 s2 c s3 a2.w hc
    have he1 : EofEnd s1 := eofEnd_same _ _ he o1.current o1.lx o1.errors
    -- the tail after the wrap: `match r with | .ok => skipIgnored | _ => pure (); pure r`
    cases r0 with
    | errTok tk =>
      simp only [] at h2
      rw [run_pure] at h2
      injection h2 with h2 _
      exact Or.inl ⟨tk, h2.symm⟩
    | errNone =>
      exfalso
      simp only [] at h2
      rw [run_pure] at h2
      injection h2 with _ h3
      subst h3
      have hc' : (pure false : PI Bool).run s2 = .ok c s3 := hc
      rw [run_pure] at hc'
      injection hc' with hc1 hc2
      subst hc1 hc2
      rcases hrest with ⟨_, rfl⟩ | ⟨hx, _⟩
      · rcases tyBody_sound n (tyParse_sound n) s1 _ _ w1 he1 hb hnd with ⟨tk, hx⟩ | ⟨hx, _⟩ <;> cases hx
      · cases hx
    | early =>
      exfalso
      simp only [] at h2
      rw [run_pure] at h2
      injection h2 with _ h3
      subst h3
      have hc' : (pure false : PI Bool).run s2 = .ok c s3 := hc
      rw [run_pure] at hc'
      injection hc' with hc1 hc2
      subst hc1 hc2
      rcases hrest with ⟨_, rfl⟩ | ⟨hx, _⟩
      · rcases tyBody_sound n (tyParse_sound n) s1 _ _ w1 he1 hb hnd with ⟨tk, hx⟩ | ⟨hx, _⟩ <;> cases hx
      · cases hx
    | ok =>
      simp only [] at h2
      obtain ⟨_, sF, hf, h3⟩ := bind_dec skipIgnored _ sW s' r h2
      rw [run_pure] at h3
      injection h3 with h3 h4
      subst h4
      refine Or.inr ⟨h3.symm, ?_⟩
      obtain ⟨ignB, eB, hallB, hsetB⟩ := skipIgnored_spec sW sF aW.w hf
      have hndW : ¬ Doomed sW := fun d => hnd (eB.doom.mpr d)
      -- the condition: skip_ignored, peek == `!`
      have hc' : (skipIgnored >>= fun _ => peek >>= fun k => (pure (k == some .bang) : PI Bool)).run s2 = .ok c s3 := hc
      obtain ⟨_, sA, hsA, hc2⟩ := bind_dec skipIgnored _ s2 s3 c hc'
      obtain ⟨ignA, eA, hallA, _⟩ := skipIgnored_spec s2 sA a2.w hsA
      obtain ⟨kk, sP, hpk, hc3⟩ := bind_dec peek _ sA s3 c hc2
      rw [run_pure] at hc3
      injection hc3 with hc3 hc4
      subst hc4
      obtain ⟨o, p, hkk⟩ := peek_obs sA sP kk eA.w hpk
      have e23 : Eat s2 sP ignA := by simpa using eA.trans p.eat
      rcases hrest with ⟨hcf, rfl⟩ | ⟨hct, s4, s5, o4, hi, o5⟩
      · -- no `!`
        have hnd2 : ¬ Doomed s2 := fun d => hndW (e23.doom.mpr d)
        rcases tyBody_sound n (tyParse_sound n) s1 s2 _ w1 he1 hb hnd2 with ⟨tk, hx⟩ | ⟨_, c0, u, hc0, hty, _, hno, hee, hdu⟩
        · cases hx
        · have etail : Eat s2 sF (ignA ++ ignB) := e23.trans eB
          have hnoT : NoEof (ignA ++ ignB) := noEof_append (noEof_ignored _ hallA) (noEof_ignored _ hallB)
          refine ⟨⟨c0 ++ (ignA ++ ignB), u, ?_, ?_, noEof_append hno hnoT, by rw [← bud_obs o1]; exact hdu⟩, eofEnd_eat hee etail hnoT, hsetB⟩
          · rw [← o1.toks, hc0, etail.toks]; simp [List.append_assoc]
          · rw [sig_append, sig_append, sig_ignored _ hallA, sig_ignored _ hallB]; simpa using hty
      · -- `!`: wrap into NON_NULL_TYPE
        have hbang : ∃ tb, o = some tb ∧ tb.kind = .bang := by
          rw [hkk] at hc3
          cases o with
          | none => rw [hct] at hc3; simp at hc3
          | some tb => rw [hct] at hc3; exact ⟨tb, rfl, by simpa using hc3.symm⟩
        obtain ⟨tb, rfl, hkb⟩ := hbang
        have w4 : TW s4 := o4.w p.w
        have ht4 : Toks s4 = tb :: (Toks s4).tail := by
          have hh := p.head
          rw [← p.toks, ← o4.toks] at hh
          cases hq : Toks s4 with
          | nil => rw [hq] at hh; cases hh
          | cons a b => rw [hq] at hh; injection hh with hh; subst hh; rfl
        have e45 : Eat s4 s5 [tb] := by
          rcases eat_spec "BANG" s4 s5 w4 hi with ⟨t', rest', hq, e5, _⟩ | ⟨hq, _⟩
          · rw [ht4] at hq; injection hq with hq _; subst hq; exact e5
          · rw [ht4] at hq; cases hq
        have e2F : Eat s2 sF (ignA ++ [tb] ++ ignB) := by
          have := (((e23.trans (Eat.ofObsEq o4 p.w)).trans e45).trans (Eat.ofObsEq o5 e45.w)).trans eB
          simpa using this
        have hnd2 : ¬ Doomed s2 := fun d => hnd (e2F.doom.mpr d)
        rcases tyBody_sound n (tyParse_sound n) s1 s2 _ w1 he1 hb hnd2 with ⟨tk, hx⟩ | ⟨_, c0, u, hc0, hty, hbase, hno, hee, hdu⟩
        · cases hx
        · have hnb : NoEof [tb] := by intro x hx; simp at hx; subst hx; rw [hkb]; decide
          have hnoT : NoEof (ignA ++ [tb] ++ ignB) :=
            noEof_append (noEof_append (noEof_ignored _ hallA) hnb) (noEof_ignored _ hallB)
          obtain ⟨u', hu', hdu'⟩ := isTy_bang tb (sig c0) u hkb hbase hty
          refine ⟨⟨c0 ++ (ignA ++ [tb] ++ ignB), u', ?_, ?_, noEof_append hno hnoT, by rw [hdu', ← bud_obs o1]; exact hdu⟩, eofEnd_eat hee e2F hnoT, hsetB⟩
          · rw [← o1.toks, hc0, e2F.toks]; simp [List.append_assoc]
          · rw [sig_append, sig_append, sig_append, sig_ignored _ hallA, sig_ignored _ hallB,
              sig_single tb (by rw [hkb]; rfl)]
            simpa using hu'

end Apollo.Parse.Exact
