import ApolloModel.Proofs.ParserComplete29
/-
EXACT-BUDGET COPY (namespace Apollo.Parse.Exact; `vdepth` charges the ITEMS of a list / object, not the list).
C05 / C07 growth (completeness), part 4: values — every well-formed value whose nesting fits the recursion
budget is consumed without error.
-/
set_option linter.unusedSimpArgs false
namespace Apollo.Parse.Exact
open Apollo.Rowan hiding Str
open Apollo.Lex hiding Str

mutual
/-- nesting of lists / objects (what the recursion limit counts) -/
def vdepth : Ast.Value → Nat
  | .list vs => vsdepth vs
  | .obj fs => fdepth fs
  | _ => 0
def vsdepth : Ast.Values → Nat
  | .nil => 0
  | .cons v tl => max (vdepth v + 1) (vsdepth tl)
def fdepth : Ast.ObjFields → Nat
  | .nil => 0
  | .cons _ v tl => max (vdepth v + 1) (fdepth tl)
end

/-- the value language under a recursion budget -/
def LVal (c : Bool) (b : Nat) (x : List Ast.Tok) : Prop :=
  ∃ v, x = Ast.tValue v ∧ valueOk c v = true ∧ vdepth v ≤ b

def ValComp (n : Nat) : Prop :=
  ∀ c p, Cmp (fun _ => True) (value n c p) (LVal c) (fun _ => True) (fun _ => True)

/-- the first token of a value -/
theorem tValue_head (v : Ast.Value) : ∃ a x, Ast.tValue v = a :: x ∧ kindOfA a ≠ .rBracket ∧ kindOfA a ≠ .eof
    ∧ kindOfA a ≠ .colon ∧ kindOfA a ≠ .rCurly ∧ kindOfA a ≠ .rParen := by
  cases v with
  | bool b => cases b <;> exact ⟨_, _, rfl, by simp [kindOfA], by simp [kindOfA], by simp [kindOfA], by simp [kindOfA], by simp [kindOfA]⟩
  | _ => exact ⟨_, _, rfl, by simp [kindOfA], by simp [kindOfA], by simp [kindOfA], by simp [kindOfA], by simp [kindOfA]⟩

theorem kindOfA_ne_eof (a : Ast.Tok) : kindOfA a ≠ .eof := by
  cases a with
  | p k => cases k <;> simp [kindOfA]
  | _ => simp [kindOfA]

/-! ### list values -/

theorem listLoop_comp (n : Nat) (c : Bool) (ih : ValComp n) :
    ∀ (fuel : Nat) (vs : Ast.Values) (s s' : PState) (cv : List Tok) (q0 : Tok) (rest : List Tok), TW s →
      (peekWhileLoop (listLoopBody n c) fuel).run s = .ok () s' → valuesOk c vs = true → vsdepth vs ≤ s.recLimit - s.recCur →
      Spells cv (Ast.tValues vs ++ [.p .rBracket]) → Toks s = cv ++ q0 :: rest → Sigf q0 →
      Eat s s' cv ∧ Toks s' = q0 :: rest := by
  intro fuel
  induction fuel with
  | zero => intro vs s s' cv q0 rest w hr; simp [peekWhileLoop, PI.outOfFuel] at hr
  | succ fuel ihl =>
  intro vs
  cases vs with
  | nil =>
    intro s s' cv q0 rest w hr _ _ hs ht hq
    have hfuel : True := trivial
    cases hfuel with
    | intro =>
      simp only [Ast.tValues, List.nil_append] at hs
      obtain ⟨t, i, rfl, hta, hi⟩ := spells_single hs
      unfold peekWhileLoop at hr
      obtain ⟨ko, sP, hp, h2⟩ := bind_dec peek _ s s' () hr
      obtain ⟨rfl, eP, htP, _⟩ := peek_head s sP ko t (i ++ q0 :: rest) w (by rw [ht]; simp) hp
      have hk : t.kind = .rBracket := kind_of_astOfV hta
      simp only [] at h2
      have h3 := getCurrent_dec _ sP s' () h2
      obtain ⟨b, sB, hb, h4⟩ := bind_dec (listLoopBody n c t.kind) _ sP s' () h3
      unfold listLoopBody at hb
      simp only [hk, beq_self_eq_true, if_true] at hb
      obtain ⟨_, sC, hc1, hc2⟩ := bind_dec (bump "R_BRACK") _ sP sB b hb
      rw [run_pure] at hc2
      injection hc2 with hb' hs'
      subst hb' hs'
      simp only [Bool.false_eq_true, if_false] at h4
      rw [run_pure] at h4
      injection h4 with _ h4
      subst h4
      obtain ⟨e, t2, _⟩ := cmp_bump "R_BRACK" sP sC () (t :: i) [.p .rBracket] q0 rest eP.w hc1 ⟨_, rfl⟩ hs (by rw [htP]; simp) hq trivial trivial
      exact ⟨by simpa using eP.trans e, t2⟩
  | cons v tl =>
    intro s s' cv q0 rest w hr hok hdep hs ht hq
    have hfuel : True := trivial
    cases hfuel with
    | intro =>
      simp only [valuesOk, Bool.and_eq_true] at hok
      simp only [vsdepth] at hdep
      simp only [Ast.tValues, List.append_assoc] at hs
      obtain ⟨a, xv, hxv, hnr, hne, _⟩ := tValue_head v
      obtain ⟨c1, c2, rfl, s1, s2⟩ := spells_split hs (by simp)
      obtain ⟨t, tl1, hc1, hta⟩ := spells_head (by rw [hxv] at s1; exact s1)
      obtain ⟨f, ftl, hc2, htf⟩ : ∃ f ftl, c2 = f :: ftl ∧ Sigf f := by
        cases c2 with
        | nil =>
          have := s2.1
          cases tl <;> simp [TokIs, sig, Ast.tValues] at this
        | cons u r => exact ⟨u, r, rfl, s2.2 u r rfl⟩
      unfold peekWhileLoop at hr
      obtain ⟨ko, sP, hp, h2⟩ := bind_dec peek _ s s' () hr
      obtain ⟨rfl, eP, htP, _⟩ := peek_head s sP ko t (tl1 ++ c2 ++ q0 :: rest) w (by rw [ht, hc1]; simp) hp
      have hk : t.kind = kindOfA a := kind_of_astOfV hta
      simp only [] at h2
      have h3 := getCurrent_dec _ sP s' () h2
      obtain ⟨b, sB, hb, h4⟩ := bind_dec (listLoopBody n c t.kind) _ sP s' () h3
      unfold listLoopBody at hb
      have hk1 : (t.kind == Kind.rBracket) = false := by rw [hk]; simpa using hnr
      have hk2 : (t.kind == Kind.eof) = false := by rw [hk]; simpa using hne
      simp only [hk1, hk2, Bool.false_eq_true, if_false] at hb
      have hbud : sP.recLimit - sP.recCur = s.recLimit - s.recCur := by rw [eP.recLimit, eP.recCur]
      -- the nested value under the recursion guard
      have hbody : Cmp (fun _ => True) (value n c true >>= fun _ => (pure true : PI Bool)) (LVal c) (fun _ => True) (fun b => b = true) := by
        have := cmp_bind (Hk := fun _ => True) (F := fun _ => True) (ih c true) (fun _ _ => cmp_pure (fun _ => True) (fun _ => True) true)
          (fun _ _ _ h => by cases h) (fun _ _ => trivial) (fun _ _ => trivial)
        exact this.mono (fun _ h => h) (fun b x h => ⟨x, [], by simp, h, rfl⟩) (fun _ h => h) (fun _ h => h)
      have hrec := cmp_withRec (Hk := fun _ => True) (limitErr >>= fun _ => (pure false : PI Bool)) _ hbody
        (L := fun b x => ∃ v', x = Ast.tValue v' ∧ valueOk c v' = true ∧ vdepth v' + 1 ≤ b)
        (by rintro b x ⟨v', rfl, hv1, hv2⟩; exact ⟨by omega, v', rfl, hv1, by omega⟩)
      obtain ⟨eB, tB, hbt⟩ := hrec sP sB b c1 (Ast.tValue v) f (ftl ++ q0 :: rest) eP.w hb
        ⟨v, rfl, hok.1, by rw [hbud]; omega⟩ s1 (by rw [htP, hc1, hc2]; simp) htf trivial trivial
      subst hbt
      simp only [if_true] at h4
      have h5 := getCurrent_dec _ sB s' () h4
      by_cases hsame : (sP.current == sB.current) = true
      · simp only [hsame, if_true] at h5
        exact absurd h5 (stuck_not_ok _ _ _)
      · simp only [hsame, Bool.false_eq_true, if_false] at h5
        have hbud2 : sB.recLimit - sB.recCur = s.recLimit - s.recCur := by rw [eB.recLimit, eB.recCur, hbud]
        obtain ⟨eR, tR⟩ := ihl tl sB s' c2 q0 rest eB.w h5 hok.2 (by rw [hbud2]; omega) s2 (by rw [tB, hc2]; simp) hq
        exact ⟨by simpa using (eP.trans eB).trans eR, tR⟩

end Apollo.Parse.Exact

namespace Apollo.Parse.Exact
open Apollo.Rowan hiding Str
open Apollo.Lex hiding Str

def LList (c : Bool) (b : Nat) (x : List Ast.Tok) : Prop :=
  ∃ vs, x = .p .lBracket :: Ast.tValues vs ++ [.p .rBracket] ∧ valuesOk c vs = true ∧ vsdepth vs ≤ b

def LField (c : Bool) (b : Nat) (x : List Ast.Tok) : Prop :=
  ∃ nm v, x = .name nm :: .p .colon :: Ast.tValue v ∧ valueOk c v = true ∧ vdepth v + 1 ≤ b

def LObj (c : Bool) (b : Nat) (x : List Ast.Tok) : Prop :=
  ∃ fs, x = .p .lCurly :: Ast.tObjFields fs ++ [.p .rCurly] ∧ fieldsOk c fs = true ∧ fdepth fs ≤ b

def ListComp (n : Nat) : Prop := ∀ c, Cmp (fun _ => True) (listValue n c) (LList c) (fun _ => True) (fun _ => True)
def FieldComp (n : Nat) : Prop := ∀ c, Cmp (fun _ => True) (objectField n c) (LField c) (fun _ => True) (fun _ => True)
def ObjComp (n : Nat) : Prop := ∀ c, Cmp (fun _ => True) (objectValue n c) (LObj c) (fun _ => True) (fun _ => True)

theorem listValue_comp (n : Nat) (ih : ValComp n) : ListComp (n + 1) := by
  intro c
  rw [listValue_succ]
  refine cmp_withNode _ ?_
  intro s s' u cv x q0 rest w hr hl hs ht hq _ _
  obtain ⟨vs, rfl, hok, hdep⟩ := hl
  obtain ⟨t, i, c', rfl, hta, hi, hs'⟩ := spells_cons hs
  obtain ⟨f, ftl, hc', hsf⟩ : ∃ f ftl, c' = f :: ftl ∧ Sigf f := by
    cases c' with
    | nil =>
      have := hs'.1
      cases vs <;> simp [TokIs, sig, Ast.tValues] at this
    | cons a b => exact ⟨a, b, rfl, hs'.2 a b rfl⟩
  obtain ⟨_, s1, h1, h2⟩ := bind_dec (bump "L_BRACK") _ s s' u hr
  have hs1 : Spells (t :: i) [.p .lBracket] := by
    refine ⟨?_, by intro hd tl e; injection e with e _; subst e; exact sigf_of_astOfV hta⟩
    rw [sig_cons_ignV t i (sigf_of_astOfV hta) hi]
    exact TokIs.single t _ hta
  obtain ⟨e1, t1, _⟩ := cmp_bump "L_BRACK" s s1 () (t :: i) [.p .lBracket] f (ftl ++ q0 :: rest) w h1 ⟨_, rfl⟩ hs1
    (by rw [ht, hc']; simp) hsf trivial trivial
  unfold peekWhile at h2
  obtain ⟨fuel, h3⟩ := srcLen_dec _ s1 s' u h2
  have hbud : s1.recLimit - s1.recCur = s.recLimit - s.recCur := by rw [e1.recLimit, e1.recCur]
  obtain ⟨e2, t2⟩ := listLoop_comp n c ih _ vs s1 s' c' q0 rest e1.w h3 hok (by rw [hbud]; exact hdep) hs'
    (by rw [t1, hc']; simp) hq
  exact ⟨by simpa using e1.trans e2, t2, trivial⟩

theorem objectField_comp (n : Nat) (ih : ValComp n) : FieldComp (n + 1) := by
  intro c
  rw [objectField_succ]
  refine cmp_withNode _ ?_
  -- the value under the recursion guard
  have hval : Cmp (fun _ => True) (withRec limitErr (value n c true))
      (fun b x => ∃ v, x = Ast.tValue v ∧ valueOk c v = true ∧ vdepth v + 1 ≤ b) (fun _ => True) (fun _ => True) :=
    cmp_withRec _ _ (ih c true) (by rintro b x ⟨v, rfl, h1, h2⟩; exact ⟨by omega, v, rfl, h1, by omega⟩)
  have htail : Cmp (fun _ => True) (peek >>= objectFieldTail n c)
      (fun b x => ∃ v, x = .p .colon :: Ast.tValue v ∧ valueOk c v = true ∧ vdepth v + 1 ≤ b) (fun _ => True) (fun _ => True) := by
    apply cmp_peek
    intro k _
    unfold objectFieldTail
    apply cmp_ite
    · intro _
      have := cmp_bind (Hk := fun k' => k' = k) (F := fun _ => True) ((cmp_bump "COLON").mono (fun _ _ => trivial) (fun _ _ h => h) (fun _ h => h) (fun _ h => h))
        (fun _ _ => hval) (fun _ _ _ _ => trivial) (fun _ _ => trivial) (fun _ _ => trivial)
      refine this.mono (fun _ h => h) ?_ (fun _ h => h) (fun _ h => h)
      rintro b x ⟨v, rfl, h1, h2⟩
      exact ⟨[.p .colon], Ast.tValue v, rfl, ⟨_, rfl⟩, v, rfl, h1, h2⟩
    · intro hk
      apply cmp_absurd
      rintro b x cc q0 ⟨v, rfl, _, _⟩ hs _ hkk
      obtain ⟨t, tl, rfl, hta⟩ := spells_head hs
      simp only [headK] at hkk
      rw [kind_of_astOfV hta] at hkk
      simp [← hkk, kindOfA] at hk
  have := cmp_bind (Hk := fun _ => True) (F := fun _ => True) cmp_name (fun _ _ => htail)
    (fun _ _ _ _ => trivial) (fun _ _ => trivial) (fun _ _ => trivial)
  refine this.mono (fun _ h => h) ?_ (fun _ h => h) (fun _ h => h)
  rintro b x ⟨nm, v, rfl, h1, h2⟩
  exact ⟨[.name nm], .p .colon :: Ast.tValue v, rfl, ⟨nm, rfl⟩, v, rfl, h1, h2⟩

/-- the fields of an object as a list of items -/
def fieldItems : Ast.ObjFields → List (List Ast.Tok)
  | .nil => []
  | .cons nm v tl => (.name nm :: .p .colon :: Ast.tValue v) :: fieldItems tl

theorem fieldItems_flatten : ∀ fs, (fieldItems fs).flatten = Ast.tObjFields fs
  | .nil => rfl
  | .cons nm v tl => by simp [fieldItems, Ast.tObjFields, fieldItems_flatten tl]

theorem fieldItems_ok (c : Bool) (b : Nat) : ∀ fs, fieldsOk c fs = true → fdepth fs ≤ b → ∀ i ∈ fieldItems fs, LField c b i
  | .nil, _, _ => by intro i hi; cases hi
  | .cons nm v tl, hok, hd => by
    simp only [fieldsOk, Bool.and_eq_true] at hok
    simp only [fdepth] at hd
    intro i hi
    simp only [fieldItems, List.mem_cons] at hi
    rcases hi with rfl | hi
    · exact ⟨nm, v, rfl, hok.1, by omega⟩
    · exact fieldItems_ok c b tl hok.2 (by omega) i hi

theorem objectValue_comp (n : Nat) (ih : FieldComp n) : ObjComp (n + 1) := by
  intro c
  rw [objectValue_succ]
  refine cmp_withNode _ ?_
  intro s s' u cv x q0 rest w hr hl hs ht hq _ _
  obtain ⟨fs, rfl, hok, hdep⟩ := hl
  obtain ⟨t, i, c', rfl, hta, hi, hs'⟩ := spells_cons hs
  -- `c'` spells the fields and the closing brace
  obtain ⟨cf, cb, rfl, sf, sb⟩ : ∃ cf cb, c' = cf ++ cb ∧ Spells cf (Ast.tObjFields fs) ∧ Spells cb [.p .rCurly] := by
    exact spells_split hs' (by simp)
  obtain ⟨tb, ib, rfl, htb, hib⟩ := spells_single sb
  obtain ⟨f, ftl, hcf, hsf⟩ : ∃ f ftl, cf ++ tb :: ib = f :: ftl ∧ Sigf f := by
    cases cf with
    | nil => exact ⟨tb, ib, rfl, sigf_of_astOfV htb⟩
    | cons a b => exact ⟨a, b ++ tb :: ib, rfl, sf.2 a b rfl⟩
  obtain ⟨_, s1, h1, h2⟩ := bind_dec (bump "L_CURLY") _ s s' u hr
  have hs1 : Spells (t :: i) [.p .lCurly] := by
    refine ⟨?_, by intro hd tl e; injection e with e _; subst e; exact sigf_of_astOfV hta⟩
    rw [sig_cons_ignV t i (sigf_of_astOfV hta) hi]
    exact TokIs.single t _ hta
  obtain ⟨e1, t1, _⟩ := cmp_bump "L_CURLY" s s1 () (t :: i) [.p .lCurly] f (ftl ++ q0 :: rest) w h1 ⟨_, rfl⟩ hs1
    (by rw [ht]; have := congrArg (· ++ q0 :: rest) hcf; simp at this; simp [this]) hsf trivial trivial
  obtain ⟨_, s2, h3, h4⟩ := bind_dec (peekWhileKind .name (objectField n c)) _ s1 s' u h2
  unfold peekWhileKind at h3
  obtain ⟨fuel, h5⟩ := srcLen_dec _ s1 s2 () h3
  have hbud : s1.recLimit - s1.recCur = s.recLimit - s.recCur := by rw [e1.recLimit, e1.recCur]
  have hkb : tb.kind = .rCurly := kind_of_astOfV htb
  obtain ⟨e2, t2⟩ := cmp_kindWhileLoop .name (objectField n c) (LField c) (fun _ => True) (ih c)
    (by rintro b x ⟨nm, v, rfl, _, _⟩; exact ⟨_, _, rfl, rfl⟩) trivial (fieldItems fs) _ s1 s2 cf tb (ib ++ q0 :: rest) e1.w h5
    (by rw [hbud]; exact fieldItems_ok c _ fs hok hdep) (by rw [fieldItems_flatten]; exact sf)
    (by rw [t1]; have := congrArg (· ++ q0 :: rest) hcf; simp at this; simp [this]) (sigf_of_astOfV htb) (by rw [hkb]; decide) trivial
  obtain ⟨e3, t3, _⟩ := cmp_expect .rCurly "R_CURLY" s2 s' u (tb :: ib) [.p .rCurly] q0 rest e2.w h4 ⟨_, rfl, rfl⟩ sb
    (by rw [t2]; simp) hq trivial trivial
  exact ⟨by simpa [List.append_assoc] using (e1.trans e2).trans e3, t3, trivial⟩

end Apollo.Parse.Exact

namespace Apollo.Parse.Exact
open Apollo.Rowan hiding Str
open Apollo.Lex hiding Str

theorem value_comp_step (n : Nat) (hlist : ListComp n) (hobj : ObjComp n) : ValComp (n + 1) := by
  intro c p
  rw [value_succ]
  apply cmp_peek
  intro k _ s s' u cc x q0 rest w hr hl hs ht hq hf hk
  obtain ⟨v, rfl, hok, hd⟩ := hl
  obtain ⟨a, xv, hxv, _⟩ := tValue_head v
  obtain ⟨t, tl, hcc, hta⟩ := spells_head (by rw [hxv] at hs; exact hs)
  have hkk : k = kindOfA a := by
    rw [← hk, hcc]; simp only [headK]; exact kind_of_astOfV hta
  subst hkk
  have nb : ∀ (K sk : SK) (a0 : Ast.Tok) (m : PI Unit), m = withNode K (bump sk) → Ast.tValue v = [a0] →
      m.run s = .ok u s' → Eat s s' cc ∧ Toks s' = q0 :: rest ∧ True := by
    intro K sk a0 m hm hx hrun
    subst hm
    exact cmp_nodeBump K sk s s' u cc _ q0 rest w hrun ⟨a0, hx⟩ hs ht hq trivial trivial
  have nv : ∀ (nm : Ast.Str), Ast.tValue v = [.name nm] → a = .name nm →
      (valueBranch n c p (some (kindOfA a))).run s = .ok u s' → Eat s s' cc ∧ Toks s' = q0 :: rest ∧ True := by
    intro nm hx ha hrun
    subst ha
    exact cmp_nameValue s s' u cc _ q0 rest w hrun ⟨nm, hx⟩ hs ht hq trivial trivial
  cases v with
  | null => simp only [Ast.tValue, List.cons.injEq] at hxv; exact nv _ rfl hxv.1.symm hr
  | bool bb => cases bb <;> (simp only [Ast.tValue, List.cons.injEq] at hxv; exact nv _ rfl hxv.1.symm hr)
  | enum nm => simp only [Ast.tValue, List.cons.injEq] at hxv; exact nv _ rfl hxv.1.symm hr
  | str sv =>
    simp only [Ast.tValue, List.cons.injEq] at hxv
    obtain ⟨rfl, _⟩ := hxv
    exact nb "STRING_VALUE" "STRING" _ _ rfl rfl hr
  | float sv =>
    simp only [Ast.tValue, List.cons.injEq] at hxv
    obtain ⟨rfl, _⟩ := hxv
    exact nb "FLOAT_VALUE" "FLOAT" _ _ rfl rfl hr
  | int sv =>
    simp only [Ast.tValue, List.cons.injEq] at hxv
    obtain ⟨rfl, _⟩ := hxv
    exact nb "INT_VALUE" "INT" _ _ rfl rfl hr
  | var nm =>
    simp only [Ast.tValue, List.cons.injEq] at hxv
    obtain ⟨rfl, _⟩ := hxv
    have hc : c = false := by simpa [valueOk] using hok
    subst hc
    have hr' : variableNode.run s = .ok u s' := hr
    exact cmp_variableNode s s' u cc _ q0 rest w hr' ⟨nm, rfl⟩ hs ht hq trivial trivial
  | list vs =>
    simp only [Ast.tValue, List.cons.injEq] at hxv
    obtain ⟨rfl, _⟩ := hxv
    have hr' : (listValue n c).run s = .ok u s' := hr
    exact hlist c s s' u cc _ q0 rest w hr' ⟨vs, rfl, by simpa [valueOk] using hok, by simpa [vdepth] using hd⟩ hs ht hq trivial trivial
  | obj fs =>
    simp only [Ast.tValue, List.cons.injEq] at hxv
    obtain ⟨rfl, _⟩ := hxv
    have hr' : (objectValue n c).run s = .ok u s' := hr
    exact hobj c s s' u cc _ q0 rest w hr' ⟨fs, rfl, by simpa [valueOk] using hok, by simpa [vdepth] using hd⟩ hs ht hq trivial trivial

theorem cmp_outOfFuel {α : Type} {Hk : Kind → Prop} {L : Nat → List Ast.Tok → Prop} {F : Kind → Prop} {Q : α → Prop} :
    Cmp Hk (PI.outOfFuel : PI α) L F Q := by
  intro s s' a c x q0 rest _ hr; simp [PI.outOfFuel] at hr

theorem value_all_comp : ∀ n, ValComp n ∧ ListComp n ∧ ObjComp n ∧ FieldComp n
  | 0 => ⟨by intro c p; unfold value; exact cmp_outOfFuel, by intro c; unfold listValue; exact cmp_outOfFuel,
          by intro c; unfold objectValue; exact cmp_outOfFuel, by intro c; unfold objectField; exact cmp_outOfFuel⟩
  | n + 1 => by
    obtain ⟨a, b, c, d⟩ := value_all_comp n
    exact ⟨value_comp_step n b c, listValue_comp n a, objectValue_comp n d, objectField_comp n a⟩

/-- **`value.rs::value` is complete**: every well-formed value (constant context: no variables) whose list /
    object nesting is within the remaining recursion budget, spelled with ignored tokens after any token and
    followed by any significant token, is consumed exactly and without error -/
theorem value_complete (n : Nat) (c p : Bool) : Cmp (fun _ => True) (value n c p) (LVal c) (fun _ => True) (fun _ => True) :=
  (value_all_comp n).1 c p

end Apollo.Parse.Exact
