import ApolloModel.Proofs.ParserType4
/-
C07 / C05 growth (type entry point), part 5: `Parser::parse_type` — an error-free parse means that the token
queue is exactly one type followed by the end of input.
-/
set_option linter.unusedSimpArgs false
namespace Apollo.Parse
open Apollo.Rowan hiding Str
open Apollo.Lex hiding Str

/-- the lexer's stream of an unfinished lexer ends with the EOF token, which is the only one -/
theorem stream_eof_end : ∀ (n : Nat) (l : LexSt), l.src.length ≤ n → l.limit = none → l.finished = false →
    ∃ pre e, toksOf (stream l) = pre ++ [e] ∧ e.kind = .eof ∧ NoEof pre := by
  intro n
  induction n with
  | zero =>
    intro l hn hl hf
    have hu := stream_unfold l hl
    rcases lexNext_cases l hl with ⟨h1, _⟩ | ⟨_, _, l', h, hfin, hl', _⟩ | ⟨_, o, l', h, hlen, _, _, _⟩
    · rw [hf] at h1; cases h1
    · rw [h] at hu
      simp only [] at hu
      have : stream l' = [] := by unfold stream; exact pull_finished _ _ hfin
      rw [this] at hu
      exact ⟨[], _, by rw [hu]; rfl, rfl, by intro x hx; cases hx⟩
    · omega
  | succ n ih =>
    intro l hn hl hf
    have hu := stream_unfold l hl
    rcases lexNext_cases l hl with ⟨h1, _⟩ | ⟨_, _, l', h, hfin, hl', _⟩ | ⟨_, o, l', h, hlen, hf', hl', hne⟩
    · rw [hf] at h1; cases h1
    · rw [h] at hu
      simp only [] at hu
      have : stream l' = [] := by unfold stream; exact pull_finished _ _ hfin
      rw [this] at hu
      exact ⟨[], _, by rw [hu]; rfl, rfl, by intro x hx; cases hx⟩
    · rw [h] at hu
      simp only [] at hu
      obtain ⟨pre, e, hp, he, hno⟩ := ih l' (by omega) hl' hf'
      cases o with
      | tok t =>
        refine ⟨t :: pre, e, by rw [hu]; simp [toksOf, outTok] at hp ⊢; exact hp, he, ?_⟩
        intro x hx
        rcases List.mem_cons.mp hx with rfl | hx
        · exact hne x rfl
        · exact hno x hx
      | err d i => exact ⟨pre, e, by rw [hu]; simp [toksOf, outTok] at hp ⊢; exact hp, he, hno⟩
      | limit i => exact ⟨pre, e, by rw [hu]; simp [toksOf, outTok] at hp ⊢; exact hp, he, hno⟩

theorem hasErr_src_nil (l : LexSt) (hl : l.limit = none) (hs : l.src = []) : hasErr (stream l) = false := by
  have hu := stream_unfold l hl
  rcases lexNext_cases l hl with ⟨_, h⟩ | ⟨_, _, l', h, hfin, _, _⟩ | ⟨_, o, l', h, hlen, _, _, _⟩
  · rw [h] at hu; rw [hu]; rfl
  · rw [h] at hu
    simp only [] at hu
    have : stream l' = [] := by unfold stream; exact pull_finished _ _ hfin
    rw [hu, this]; rfl
  · rw [hs] at hlen; simp at hlen

theorem good_ty (n : Nat) : Good (ty n) := by
  unfold ty
  refine good_bind _ _ (good_tyParse n) ?_
  intro r
  cases r <;> first | exact good_pure _ | exact good_pushErr _ | exact good_err

theorem good_expectEndOfInput : Good expectEndOfInput := by
  unfold expectEndOfInput
  refine good_bind _ _ good_skipIgnored (fun _ => good_bind _ _ good_peek ?_)
  intro k
  unfold errUnlessEnd
  split
  · exact good_pure _
  · exact good_err

/-- the token queue of a source text (what the lexer hands to the parser, error items left out) -/
def srcToks (src : Str) : List Tok := toksOf (stream (initState src none 0).lx)

/-- the source text lexes without a lexer error -/
def LexClean (src : Str) : Prop := hasErr (stream (initState src none 0).lx) = false

theorem type_sound_run (fuel : Nat) (s0 s : PState) (hi : Inv s0) (w : TW s0) (he : EofEnd s0)
    (h : (ty fuel >>= fun _ => expectEndOfInput).run s0 = .ok () s) (herr : s.errors = []) :
    ¬ Doomed s0 ∧ ∃ t ts e, sig (Toks s0) = ts ++ [e] ∧ e.kind = .eof ∧ IsTy ts t := by
  obtain ⟨_, s1, h1, h2⟩ := bind_dec (ty fuel) _ s0 s () h
  obtain ⟨hi1, hl1⟩ := PI.run_ok _ s0 hi _ s1 h1
  have a1 := good_ty fuel s0 () s1 w h1
  have a2 := good_expectEndOfInput s1 () s a1.w h2
  have hex := expectEndOfInput_exhausted s1 s hi1 a1.w.limit h2 herr
  have hnd : ¬ Doomed s := by
    rintro (hd | hd)
    · exact hd herr
    · rw [hasErr_src_nil s.lx a2.w.limit hex.2] at hd; cases hd
  have hnd1 : ¬ Doomed s1 := fun d => hnd (a2.doom d)
  refine ⟨fun d => hnd1 (a1.doom d), ?_⟩
  -- `ty`
  unfold ty at h1
  obtain ⟨r, sT, hT, h3⟩ := bind_dec (tyParse fuel) _ s0 s1 () h1
  have aT := good_tyParse fuel s0 r sT w hT
  have hok : r = .ok ∧ sT = s1 := by
    cases r with
    | ok => simp only [] at h3; rw [run_pure] at h3; injection h3 with _ h3; exact ⟨rfl, h3⟩
    | early =>
      exfalso
      simp only [] at h3; rw [run_pure] at h3; injection h3 with _ h3; subst h3
      rcases tyParse_sound fuel s0 sT _ w he hT hnd1 with ⟨tk, hx⟩ | ⟨hx, _⟩ <;> cases hx
    | errTok tk =>
      exfalso
      simp only [] at h3
      exact hnd1 (errAtToken_adv tk sT s1 aT.w h3).2
    | errNone =>
      exfalso
      simp only [] at h3
      have hndT : ¬ Doomed sT := fun d => hnd1 ((good_err sT () s1 aT.w h3).doom d)
      rcases tyParse_sound fuel s0 sT _ w he hT hndT with ⟨tk, hx⟩ | ⟨hx, _⟩ <;> cases hx
  obtain ⟨rfl, rfl⟩ := hok
  rcases tyParse_sound fuel s0 sT _ w he hT hnd1 with ⟨tk, hx⟩ | ⟨_, ok⟩
  · cases hx
  obtain ⟨c, t, hc, hty, hno⟩ := ok.ex
  -- `expect_end_of_input`
  unfold expectEndOfInput at h2
  obtain ⟨_, sK, hK, h4⟩ := bind_dec skipIgnored _ sT s () h2
  obtain ⟨ign, eK, hall, hset⟩ := skipIgnored_spec sT sK aT.w hK
  obtain ⟨k, sP, hP, h5⟩ := bind_dec peek _ sK s () h4
  obtain ⟨o, p, hk⟩ := peek_obs sK sP k eK.w hP
  have heK : EofEnd sK := eofEnd_eat ok.eof eK (noEof_ignored ign hall)
  have hndK : ¬ Doomed sK := by
    intro d
    have : Good (errUnlessEnd k) := by unfold errUnlessEnd; split; exact good_pure _; exact good_err
    exact hnd ((this sP () s p.w h5).doom (p.doom.mpr d))
  -- the head of the queue is the EOF token
  have hhead : ∃ e, Toks sK = [e] ∧ e.kind = .eof := by
    rcases heK with d | ⟨pre, e, hq, hek, hnoe⟩
    · exact absurd d hndK
    · cases o with
      | none =>
        exfalso
        have hh := p.head
        rw [hq] at hh
        cases pre <;> cases hh
      | some t' =>
        have hkind : t'.kind = .eof := by
          subst hk
          unfold errUnlessEnd at h5
          by_cases hke : t'.kind = .eof
          · exact hke
          · exfalso
            have : (some t'.kind == none || some t'.kind == some Kind.eof) = false := by simp [hke]
            simp only [Option.map_some, this, Bool.false_eq_true, if_false] at h5
            have hne : Toks sP ≠ [] := by rw [p.toks, hq]; simp
            exact hnd ((err_adv sP s p.w h5).2 hne)
        have hh := p.head
        rw [hq] at hh
        cases pre with
        | nil => exact ⟨e, hq, hek⟩
        | cons x pre =>
          exfalso
          simp only [List.cons_append, List.head?_cons, Option.some.injEq] at hh
          subst hh
          exact hnoe t' (by simp) hkind
  obtain ⟨e, hq, hek⟩ := hhead
  refine ⟨t, sig c, e, ?_, hek, hty⟩
  rw [hc, eK.toks, hq, sig_append, sig_append, sig_ignored ign hall]
  have : sig [e] = [e] := sig_single e (by rw [hek]; rfl)
  rw [this]; simp

/-- **`Parser::parse_type`, acceptance is sound** (no token limit, any recursion limit): if the parse ends
    with a tree and without any error, the source lexes cleanly and its significant tokens — whitespace,
    comments and commas removed — are exactly the tokens of one type reference of the grammar
    `Type : Name | [Type] | Type!`, followed by the end of input. -/
theorem parseType_sound (rl : Nat) (src : Str) (root : Elem)
    (h : (parse .type none rl src).outcome = .tree root) (herr : (parse .type none rl src).errors = []) :
    LexClean src ∧ ∃ t ts e, sig (srcToks src) = ts ++ [e] ∧ e.kind = .eof ∧ IsTy ts t := by
  unfold parse runEntry at h herr
  simp only [Entry.standalone, Entry.grammar] at h herr
  generalize hs0 : ({ initState src none rl with builder := (initState src none rl).builder.startNode "NAMED_TYPE" } : PState) = s0 at h herr
  have hinv : Inv s0 := by
    subst hs0
    exact ⟨fun _ => by simp [initState, Builder.new, Builder.startNode, textList, pendingText, curText],
      fun p hp => by simp [initState, Builder.new, Builder.startNode] at hp; simp [hp, initState, Builder.new],
      fun h => by simp [initState] at h, fun t h => by simp [initState] at h, fun h => by simp [initState] at h⟩
  have w0 : TW s0 := by subst hs0; exact ⟨rfl, by intro h; simp [initState] at h⟩
  have htoks : Toks s0 = srcToks src := by subst hs0; rfl
  have hdoom : Doomed s0 ↔ ¬ LexClean src := by
    subst hs0
    unfold Doomed LexClean
    show ([] ≠ [] ∨ hasErr (stream (initState src none rl).lx) = true) ↔ _
    have : (initState src none rl).lx = (initState src none 0).lx := rfl
    rw [this]
    constructor
    · rintro (h | h)
      · exact absurd rfl h
      · simp [h]
    · intro h; right; simpa using h
  have he0 : EofEnd s0 := by
    right
    obtain ⟨pre, e, hp, he, hno⟩ := stream_eof_end src.length (initState src none 0).lx (Nat.le_refl _) rfl rfl
    exact ⟨pre, e, by rw [htoks]; exact hp, he, hno⟩
  cases hr : (ty (fuelFor src) >>= fun _ => expectEndOfInput).run s0 with
  | abort w => simp [hr] at h
  | panic m => simp [hr] at h
  | ok a s =>
    simp only [hr] at h herr
    obtain ⟨hnd, t, ts, e, h1, h2, h3⟩ := type_sound_run (fuelFor src) s0 s hinv w0 he0 hr herr
    refine ⟨?_, t, ts, e, by rw [← htoks]; exact h1, h2, h3⟩
    by_cases hc : LexClean src
    · exact hc
    · exact absurd (hdoom.mpr hc) hnd

end Apollo.Parse
