import ApolloModel.Proofs.ParserRecursion34
/-
C04 growth (both limits), part 35: the relational pass `Sim cx` for every loop and every composite primitive of
parser/mod.rs (a clone of part 22 for the two-run judgement).
-/
set_option linter.unusedSimpArgs false
set_option linter.unusedVariables false
namespace Apollo.Parse
open Apollo.Rowan hiding Str
open Apollo.Lex hiding Str

variable {cx : LimCtx}

syntax "sm_leaf" : tactic
macro_rules | `(tactic| sm_leaf) => `(tactic| assumption)
macro_rules | `(tactic| sm_leaf) => `(tactic| first
  | exact sm_pure _
  | exact sm_peekToken | exact sm_moveCurToPending | exact sm_srcLen
  | exact sm_getCurrent | exact sm_pushIgnored | exact sm_moveCurToTree _
  | exact sm_popDrop | exact sm_peekTokenN _ | exact sm_assertRecZero
  | exact sm_outOfFuel | exact sm_stuck
  | exact sm_pushErr _
  | exact sm_limitErr | exact sm_bind _ _ sm_limitErr (fun _ => sm_pure _))

syntax "sm_auto" : tactic
macro_rules | `(tactic| sm_auto) => `(tactic| repeat (first
  | (with_reducible sm_leaf)
  | (with_reducible apply_assumption)
  | (with_reducible apply sm_bind) | (with_reducible apply sm_ite) | (with_reducible apply sm_withRec)
  | (with_reducible apply sm_wrapIf)
  | (extract_lets jp
     have hjp : ∀ r, Sim cx (jp r) := by
       intro r
       dsimp (config := { zeta := false }) only [jp]
       sm_auto
     clear_value jp)
  | intro _
  | split))

theorem sm_skipIgnoredLoop : ∀ (fuel : Nat), Sim cx (skipIgnoredLoop fuel)
  | 0 => sm_outOfFuel
  | fuel + 1 => by
    have ih := sm_skipIgnoredLoop fuel
    unfold skipIgnoredLoop
    sm_auto

theorem sm_skipIgnored : Sim cx skipIgnored := by
  unfold skipIgnored
  exact sm_bind _ _ (sm_srcLen) (fun n => sm_skipIgnoredLoop (n + 3))
macro_rules | `(tactic| sm_leaf) => `(tactic| exact sm_skipIgnored)

theorem sm_withNode' {α : Type} (kind : SK) (body : PI α) (hb : Sim cx body) : Sim cx (withNode kind body) :=
  sm_withNode kind body sm_skipIgnored hb
macro_rules | `(tactic| sm_auto) => `(tactic| repeat (first
  | (with_reducible sm_leaf)
  | (with_reducible apply_assumption)
  | (with_reducible apply sm_withNode')
  | (with_reducible apply sm_bind) | (with_reducible apply sm_ite) | (with_reducible apply sm_withRec)
  | (with_reducible apply sm_wrapIf)
  | (extract_lets jp
     have hjp : ∀ r, Sim cx (jp r) := by
       intro r
       dsimp (config := { zeta := false }) only [jp]
       sm_auto
     clear_value jp)
  | intro _
  | split))

theorem sm_peek : Sim cx peek := by unfold peek; sm_auto
macro_rules | `(tactic| sm_leaf) => `(tactic| exact sm_peek)
theorem sm_peekData : Sim cx peekData := by unfold peekData; sm_auto
macro_rules | `(tactic| sm_leaf) => `(tactic| exact sm_peekData)
theorem sm_peekN (n : Nat) : Sim cx (peekN n) := by unfold peekN; sm_auto
macro_rules | `(tactic| sm_leaf) => `(tactic| exact sm_peekN _)
theorem sm_peekDataN (n : Nat) : Sim cx (peekDataN n) := by unfold peekDataN; sm_auto
macro_rules | `(tactic| sm_leaf) => `(tactic| exact sm_peekDataN _)
theorem sm_eat (k : SK) : Sim cx (eat k) := by unfold eat; sm_auto
macro_rules | `(tactic| sm_leaf) => `(tactic| exact sm_eat _)
theorem sm_bump (k : SK) : Sim cx (bump k) := by unfold bump; sm_auto
macro_rules | `(tactic| sm_leaf) => `(tactic| exact sm_bump _)
theorem sm_errAtToken (t : Tok) : Sim cx (errAtToken t) := sm_pushErr _
macro_rules | `(tactic| sm_leaf) => `(tactic| exact sm_errAtToken _)
theorem sm_err : Sim cx err := by unfold err; sm_auto
macro_rules | `(tactic| sm_leaf) => `(tactic| exact sm_err)
theorem sm_errAndPop : Sim cx errAndPop := by unfold errAndPop; sm_auto
macro_rules | `(tactic| sm_leaf) => `(tactic| exact sm_errAndPop)
theorem sm_expect (t : Kind) (k : SK) : Sim cx (expect t k) := by unfold expect; sm_auto
macro_rules | `(tactic| sm_leaf) => `(tactic| exact sm_expect _ _)
theorem sm_name : Sim cx name := by unfold name; sm_auto
macro_rules | `(tactic| sm_leaf) => `(tactic| exact sm_name)

/-! ### loops -/

theorem sm_peekWhileLoop (body : Kind → PI Bool) (hb : ∀ k, Sim cx (body k)) : ∀ fuel, Sim cx (peekWhileLoop body fuel)
  | 0 => sm_outOfFuel
  | fuel + 1 => by
    have ih := sm_peekWhileLoop body hb fuel
    unfold peekWhileLoop
    sm_auto

theorem sm_peekWhile (body : Kind → PI Bool) (hb : ∀ k, Sim cx (body k)) : Sim cx (peekWhile body) :=
  sm_bind _ _ (sm_srcLen) (fun _ => sm_peekWhileLoop body hb _)

theorem sm_peekWhileKindLoop (k : Kind) (body : PI Unit) (hb : Sim cx body) : ∀ fuel, Sim cx (peekWhileKindLoop k body fuel)
  | 0 => sm_outOfFuel
  | fuel + 1 => by
    have ih := sm_peekWhileKindLoop k body hb fuel
    unfold peekWhileKindLoop
    sm_auto

theorem sm_peekWhileKind (k : Kind) (body : PI Unit) (hb : Sim cx body) : Sim cx (peekWhileKind k body) :=
  sm_bind _ _ (sm_srcLen) (fun _ => sm_peekWhileKindLoop k body hb _)

theorem sm_peekWhileFlagLoop (body : Kind → PI (Bool × Bool)) (hb : ∀ k, Sim cx (body k)) :
    ∀ fuel flag, Sim cx (peekWhileFlagLoop body fuel flag)
  | 0, _ => sm_outOfFuel
  | fuel + 1, flag => by
    have ih := sm_peekWhileFlagLoop body hb fuel
    unfold peekWhileFlagLoop
    sm_auto

theorem sm_peekWhileKindFlagLoop (k : Kind) (body : PI Unit) (hb : Sim cx body) :
    ∀ fuel flag, Sim cx (peekWhileKindFlagLoop k body fuel flag)
  | 0, _ => sm_outOfFuel
  | fuel + 1, flag => by
    have ih := sm_peekWhileKindFlagLoop k body hb fuel
    unfold peekWhileKindFlagLoop
    sm_auto

theorem sm_parseSeparatedList (sep : Kind) (syn : SK) (run : PI Unit) (hr : Sim cx run) : Sim cx (parseSeparatedList sep syn run) := by
  have hk : Sim cx (peekWhileKind sep (bump syn >>= fun _ => run)) := sm_peekWhileKind _ _ (sm_bind _ _ (sm_bump _) (fun _ => hr))
  unfold parseSeparatedList
  sm_auto

macro_rules | `(tactic| sm_auto) => `(tactic| repeat (first
  | (with_reducible sm_leaf)
  | (with_reducible apply_assumption)
  | (with_reducible apply sm_withNode')
  | (with_reducible apply sm_bind) | (with_reducible apply sm_ite) | (with_reducible apply sm_withRec)
  | (with_reducible apply sm_wrapIf)
  | (with_reducible apply sm_peekWhile) | (with_reducible apply sm_peekWhileKind)
  | (with_reducible apply sm_parseSeparatedList) | (with_reducible apply sm_peekWhileKindFlagLoop)
  | (with_reducible apply sm_peekWhileFlagLoop)
  | (extract_lets jp
     have hjp : ∀ r, Sim cx (jp r) := by
       intro r
       dsimp (config := { zeta := false }) only [jp]
       sm_auto
     clear_value jp)
  | intro _
  | split))

end Apollo.Parse
