import ApolloModel.Proofs.ParserRecursion3
/-
C04 growth (recursion limit across runs), part 4: the induction over `ty.rs::parse`.
-/
set_option linter.unusedSimpArgs false
namespace Apollo.Parse
open Apollo.Rowan hiding Str
open Apollo.Lex hiding Str

/-- the statement proved by induction on the fuel -/
def TyRec (n : Nat) : Prop :=
  ∀ s s' r, TW s → EofE s → s.recCur ≤ s.recLimit → s.recCur ≤ s.recHigh →
    (tyParse n).run s = .ok r s' → RecOut s s' (lead (Toks s))

theorem qg_tyJoin : QG (expect .rBracket "R_BRACK" >>= fun _ => (pure TyRes.ok : PI TyRes)) :=
  qg_bind _ _ (good_expect _ _) (qg_expect _ _) (fun _ => qg_pure _)

/-- the list branch: `[` is at the head of the queue and is the current token -/
theorem listBody_rec (n : Nat) (ih : TyRec n) (s s' : PState) (r : TyRes) (t : Tok) (rest : List Tok) (w : TW s)
    (he : EofE s) (ht : Toks s = t :: rest) (hk : t.kind = .lBracket)
    (hrc : s.recCur ≤ s.recLimit) (hH : s.recCur ≤ s.recHigh)
    (h : (tyListBody n).run s = .ok r s') : RecOut s s' (lead (Toks s)) := by
  have hne : t.kind ≠ .eof := by rw [hk]; decide
  unfold tyListBody at h
  -- bump "L_BRACK"
  obtain ⟨_, s3, h3, h4⟩ := bind_dec (bump "L_BRACK") _ s s' r h
  have q3 : Q s s3 := qg_bump _ s () s3 w h3
  unfold bump at h3
  obtain ⟨_, s3a, h3a, h3b⟩ := bind_dec (eat "L_BRACK") _ s s3 () h3
  have eb : Eat s s3a [t] := by
    rcases eat_spec "L_BRACK" s s3a w h3a with ⟨t', rest', hq, e5, _⟩ | ⟨hq, _⟩
    · rw [ht] at hq; injection hq with hq _; subst hq; exact e5
    · rw [ht] at hq; cases hq
  obtain ⟨ign1, es, hall1, hset⟩ := skipIgnored_spec s3a s3 eb.w h3b
  have e13 : Eat s s3 (t :: ign1) := by simpa using eb.trans es
  have he3 : EofE s3 := eofE_eat he e13
    (by intro x hx; rcases List.mem_cons.mp hx with rfl | hx; exact hne; exact noEof_ignored ign1 hall1 x hx)
  have p3 : Pre s s3 := ⟨q3, e13.recCur, e13.recLimit⟩
  have hlead : lead (Toks s) = lead (Toks s3) + 1 := by
    have := e13.toks
    rw [this]
    simp only [List.cons_append]
    refine lead_bracket t ign1 (Toks s3) hk hall1 ?_
    intro x hx
    exact hset.2 x (by rw [hset.1]; exact hx)
  rw [hlead]
  refine recOut_pre p3 ?_
  have hrc3 : s3.recCur ≤ s3.recLimit := by rw [p3.recCur, p3.recLimit]; exact hrc
  have hH3 : s3.recCur ≤ s3.recHigh := by rw [p3.recCur, q3.recHigh]; exact hH
  -- the recursion guard
  obtain ⟨inner, s4, h5, h6⟩ := bind_dec _ _ s3 s' r h4
  rcases withRec_decH _ _ s3 s4 inner h5 with ⟨hover, hl⟩ | ⟨hunder, sr2, hr, hs4⟩
  · -- the limit is reached here
    obtain ⟨_, sl2, hl1, hl2⟩ := bind_dec limitErr _ _ s4 inner hl
    rw [run_pure] at hl2
    injection hl2 with hin hs4
    subst hs4 hin
    simp only [] at h6
    rw [run_pure] at h6
    injection h6 with _ h6
    subst h6
    have wl : TW { s3 with recHigh := max s3.recHigh (s3.recCur + 1) } := w_same _ _ e13.w rfl rfl rfl
    obtain ⟨e1, e2, e3⟩ := limitErr_effect _ sl2 wl hl1
    have htk : Toks { s3 with recHigh := max s3.recHigh (s3.recCur + 1) } = Toks s3 := rfl
    refine ⟨fun hu => by omega, fun _ => ⟨?_, fun ha => e3 (by rw [htk]; exact eofE_nonempty s3 he3) ha, e2⟩⟩
    rw [e1]
    simp only []
    have : s3.recCur + 1 = s3.recLimit + 1 := by omega
    rw [this]
  · -- one level deeper
    obtain ⟨res, sr2', hr1, hr2⟩ := bind_dec (tyParse n) _ _ sr2 inner hr
    rw [run_pure] at hr2
    injection hr2 with hin hs
    subst hs hin
    have w1 : TW { s3 with recCur := s3.recCur + 1, recHigh := max s3.recHigh (s3.recCur + 1) } := w_same _ _ e13.w rfl rfl rfl
    have he1 : EofE { s3 with recCur := s3.recCur + 1, recHigh := max s3.recHigh (s3.recCur + 1) } := eofE_same _ _ he3 rfl rfl
    have ro := ih _ sr2' res w1 he1 (by simpa using hunder) (by simp only []; omega) hr1
    have htk : Toks { s3 with recCur := s3.recCur + 1, recHigh := max s3.recHigh (s3.recCur + 1) } = Toks s3 := rfl
    rw [htk] at ro
    have adv_r := good_tyParse n _ res sr2' w1 hr1
    subst hs4
    -- the tail of the list body is quiet
    simp only [] at h6
    have w4 : TW { sr2' with recCur := sr2'.recCur - 1 } := w_same _ _ adv_r.w rfl rfl rfl
    have qt : Q { sr2' with recCur := sr2'.recCur - 1 } s' := by
      cases res with
      | errTok t => exact qg_bind _ _ (good_pushErr _) (qg_errAtToken t) (fun _ => qg_tyJoin) _ r s' w4 h6
      | ok => exact qg_tyJoin _ r s' w4 h6
      | early => exact qg_tyJoin _ r s' w4 h6
      | errNone => exact qg_tyJoin _ r s' w4 h6
    refine recOut_post ?_ qt
    refine ⟨?_, ?_⟩
    · intro hu
      obtain ⟨h1, h2, h3⟩ := ro.under (by simp only []; omega)
      refine ⟨?_, h2, h3⟩
      simp only [] at h1 ⊢
      rw [h1]; omega
    · intro ho
      obtain ⟨h1, h2, h3⟩ := ro.over (by simp only []; omega)
      refine ⟨?_, h2, h3⟩
      simp only [] at h1 ⊢
      rw [h1]; omega

/-- every branch of `ty.rs::parse` other than the list branch is quiet -/
theorem qg_tyOther (k : Kind) (hk : k ≠ .lBracket) (n : Nat) :
    QG (match some k with
        | some .lBracket => withNode "LIST_TYPE" (tyListBody n)
        | some .name => withNode "NAMED_TYPE" (withNode "NAME" (do eat "IDENT"; pure TyRes.ok))
        | some _ => do
          match ← popDrop with
          | some t => pure (TyRes.errTok t)
          | none => pure TyRes.errNone
        | none => pure TyRes.errNone) := by
  cases k <;> first
    | exact absurd rfl hk
    | exact qg_withNode _ _ (good_withNode _ _ (good_bind _ _ (good_eat _) (fun _ => good_pure _)))
        (qg_withNode _ _ (good_bind _ _ (good_eat _) (fun _ => good_pure _)) (qg_bind _ _ (good_eat _) (qg_eat _) (fun _ => qg_pure _)))
    | (refine qg_bind _ _ good_popDrop qg_popDrop ?_
       intro o
       cases o <;> exact qg_pure _)

theorem tyBody_rec (n : Nat) (ih : TyRec n) (s s' : PState) (r : TyRes) (w : TW s) (he : EofE s)
    (hrc : s.recCur ≤ s.recLimit) (hH : s.recCur ≤ s.recHigh)
    (h : (tyBody n).run s = .ok r s') : RecOut s s' (lead (Toks s)) := by
  unfold tyBody at h
  obtain ⟨k, sp, hp, hb⟩ := bind_dec peek _ s s' r h
  obtain ⟨o, po, hko⟩ := peek_obs s sp k w hp
  have qp : Q s sp := qg_peek s k sp w hp
  have pp : Pre s sp := ⟨qp, po.recCur, po.recLimit⟩
  have hrcp : sp.recCur ≤ sp.recLimit := by rw [pp.recCur, pp.recLimit]; exact hrc
  have hHp : sp.recCur ≤ sp.recHigh := by rw [pp.recCur, qp.recHigh]; exact hH
  rw [← po.toks]
  refine recOut_pre pp ?_
  cases o with
  | none =>
    subst hko
    simp only [Option.map_none] at hb
    rw [run_pure] at hb
    injection hb with _ hb
    subst hb
    have : Toks sp = [] := by
      have := po.head
      rw [po.toks]
      cases ht : Toks s with
      | nil => rfl
      | cons a b => rw [ht] at this; cases this
    rw [this]
    exact recOut_zero (Q.refl sp) hrcp hHp
  | some t =>
    subst hko
    simp only [Option.map_some] at hb
    have htoks : ∃ rest, Toks sp = t :: rest := by
      have := po.head
      rw [po.toks]
      cases ht : Toks s with
      | nil => rw [ht] at this; cases this
      | cons a b => rw [ht] at this; injection this with this; subst this; exact ⟨b, rfl⟩
    obtain ⟨rest, ht⟩ := htoks
    by_cases hk : t.kind = .lBracket
    · -- the list branch
      rw [hk] at hb
      simp only [] at hb
      have hni : isIgnoredKind t.kind = false := by rw [hk]; rfl
      obtain ⟨sa, sb, o1, hr, o2⟩ := withNode_decS _ _ sp s' r hb
      obtain ⟨_, sa', hs, hbody⟩ := bind_dec skipIgnored _ sa sb r hr
      have wa : TW sa := o1.obs.w po.w
      obtain ⟨ign, e, hall, _⟩ := skipIgnored_spec sa sa' wa hs
      have htsa : Toks sa = t :: rest := by rw [o1.obs.toks]; exact ht
      have : ign = [] := skip_nothing sa sa' t rest ign htsa hni e hall
      subst this
      have qs : Q sa sa' := qg_skipIgnored sa () sa' wa hs
      have p1 : Pre sp sa' := (Pre.ofSame o1).trans ⟨qs, e.recCur, e.recLimit⟩
      have htsa' : Toks sa' = t :: rest := by
        have := e.toks
        simp only [List.nil_append] at this
        rw [← this]; exact htsa
      have hesp : EofE sp := by unfold EofE; rw [po.toks]; exact he
      have hesa : EofE sa := eofE_same _ _ hesp o1.current o1.lx
      have hea : EofE sa' := eofE_eat hesa e (by intro x hx; cases hx)
      have hrca : sa'.recCur ≤ sa'.recLimit := by rw [p1.recCur, p1.recLimit]; exact hrcp
      have hHa : sa'.recCur ≤ sa'.recHigh := by rw [p1.recCur, p1.q.recHigh]; exact hHp
      have ro := listBody_rec n ih sa' sb r t rest e.w hea htsa' hk hrca hHa hbody
      rw [htsa'] at ro
      rw [ht]
      exact recOut_post (recOut_pre p1 ro) o2.q
    · -- no nesting
      rw [ht, lead_not_bracket t rest hk]
      exact recOut_zero (qg_tyOther t.kind hk n sp r s' po.w hb) hrcp hHp

theorem tyParse_rec : ∀ (n : Nat), TyRec n
  | 0 => by intro s s' r _ _ _ _ h; simp [tyParse, PI.outOfFuel] at h
  | n + 1 => by
    intro s s' r w he hrc hH h
    rw [tyParse_succ] at h
    obtain ⟨r0, sA, hA, htail⟩ := bind_dec _ _ s s' r h
    have gA := good_wrapIf _ _ _ _ (good_tyBody n (good_tyParse n)) good_tyCond (good_eat "BANG") s r0 sA w hA
    have qtail : Q sA s' := by
      cases r0 with
      | ok => exact qg_bind _ _ good_skipIgnored qg_skipIgnored (fun _ => qg_pure _) sA r s' gA.w htail
      | early => exact qg_bind (pure ()) _ (good_pure ()) (qg_pure ()) (fun _ => qg_pure _) sA r s' gA.w htail
      | errTok t => exact qg_bind (pure ()) _ (good_pure ()) (qg_pure ()) (fun _ => qg_pure _) sA r s' gA.w htail
      | errNone => exact qg_bind (pure ()) _ (good_pure ()) (qg_pure ()) (fun _ => qg_pure _) sA r s' gA.w htail
    refine recOut_post ?_ qtail
    obtain ⟨s1, s2, s3, c, o1, hb, hc, hrest⟩ := wrapIf_decS _ _ _ _ s sA r0 hA
    have w1 : TW s1 := o1.obs.w w
    have he1 : EofE s1 := eofE_same _ _ he o1.current o1.lx
    have ro := tyBody_rec n (tyParse_rec n) s1 s2 r0 w1 he1
      (by rw [o1.recCur, o1.recLimit]; exact hrc) (by rw [o1.recCur, o1.recHigh]; exact hH) hb
    rw [o1.obs.toks] at ro
    have g2 := good_tyBody n (good_tyParse n) s1 r0 s2 w1 hb
    have qc : Q s2 s3 := by
      cases r0 with
      | ok => exact qg_bind _ _ good_skipIgnored qg_skipIgnored (fun _ => qg_bind _ _ good_peek qg_peek (fun _ => qg_pure _)) s2 c s3 g2.w hc
      | early => exact qg_pure _ s2 c s3 g2.w hc
      | errTok t => exact qg_pure _ s2 c s3 g2.w hc
      | errNone => exact qg_pure _ s2 c s3 g2.w hc
    have g3 := good_tyCond r0 s2 c s3 g2.w hc
    rcases hrest with ⟨_, rfl⟩ | ⟨_, s4, s5, o4, hi, o5⟩
    · exact recOut_post (recOut_pre (Pre.ofSame o1) ro) qc
    · have q45 : Q s4 s5 := qg_eat "BANG" s4 () s5 (o4.obs.w g3.w) hi
      exact recOut_post (recOut_pre (Pre.ofSame o1) ro) (((qc.trans o4.q).trans q45).trans o5.q)


end Apollo.Parse
