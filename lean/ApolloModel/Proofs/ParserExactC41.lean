import ApolloModel.Proofs.ParserExactC29
/-
EXACT COMPLETENESS, part 41 (namespace Apollo.Parse.Exact): the object / interface / schema EXTENSIONS with their braces body
written — `{` may follow.
-/
set_option linter.unusedSimpArgs false
namespace Apollo.Parse.Exact
open Apollo.Rowan hiding Str
open Apollo.Lex hiding Str

theorem lfieldsTailP_ne (b : Nat) : ¬ LFieldsTailP b [] := by
  rintro ⟨ds, x2, e, _, h2⟩
  obtain ⟨a', x', e', _⟩ := lfields_head h2
  subst e'
  cases ds <;> simp [Ast.tDirectives] at e

theorem lfieldsTailP_head2 {b : Nat} {a : Ast.Tok} {x : List Ast.Tok} (h : LFieldsTailP b (a :: x)) : kindOfA a ≠ .at ∨ True := Or.inr trivial

theorem cmp_extFieldsP (n : Nat) (m : Bool) :
    Cmp (fun _ => True) (extDirs n (extBodyK .lCurly (fieldsDefinition n)) m) LFieldsTailP (fun _ => True) (fun _ => True) :=
  cmp_extDirsP (Hk := fun _ => True) n _ m (Ln := LFields)
    (fun m' => cmp_extBodyKP (Hk := fun _ => True) .lCurly (fieldsDefinition n) m' (cmp_fieldsDefinition n) (fun b x h => lfields_head h))
    (by intro b a x h
        obtain ⟨a', x', e, hk⟩ := lfields_head h
        injection e with e _
        subst e; rw [hk]; exact ⟨by decide, by decide⟩)
    (by intro b h
        obtain ⟨a', x', e, _⟩ := lfields_head h
        cases e)

def LObjectExtP (word : String) (b : Nat) (x : List Ast.Tok) : Prop :=
  ∃ nm impl ds fs, fs ≠ [] ∧ x = kwE word ++ objectLikeToks nm impl ds fs ∧ objFit b ds fs

theorem cmpT_objExtTailP (n : Nat) :
    CmpT (fun _ => True) (objExtTail n)
      (fun b x => ∃ nm impl ds fs, fs ≠ [] ∧ x = objectLikeToks nm impl ds fs ∧ objFit b ds fs) FObjP (fun _ => True) := by
  unfold objExtTail
  have hi := cmpT_optDataImpl2 (Hk := fun _ => True) _ _ (cmp_extFieldsP n true) (cmp_extFieldsP n false)
    (fun b a x h => (lfieldsTailP_head h).2) (fun b a x h => (lfieldsTailP_head h).1)
  have := cmpT_bindK (Hk := fun _ => True) cmp_nameOrErr (fun _ _ => hi)
  refine this.mono (fun _ h => h) ?_ (fun t h => ⟨trivial, h.1, h.2⟩) (fun _ h => h)
  rintro b x ⟨nm, impl, ds, fs, hne, rfl, hd, hf⟩
  have hbody : LFieldsTailP b (Ast.tDirectives ds ++ Ast.tBraced (Ast.tFieldDefItems fs) fs.isEmpty) :=
    ⟨ds, _, rfl, hd, fs, hne, rfl, hf⟩
  refine ⟨[.name nm], tSepOpt [.name Ast.sImplements] .amp impl ++ (Ast.tDirectives ds ++ Ast.tBraced (Ast.tFieldDefItems fs) fs.isEmpty),
    by simp [objectLikeToks, List.append_assoc], ⟨nm, rfl⟩, ?_⟩
  cases impl with
  | some v =>
    obtain ⟨lead, first, rest⟩ := v
    exact Or.inl ⟨.name Ast.sImplements :: tSepLead .amp lead first rest, _, by simp [tSepOpt], ⟨lead, first, rest, rfl⟩, hbody⟩
  | none =>
    refine Or.inr ?_
    simp only [tSepOpt, List.nil_append]
    exact hbody

/-- **object type extension with its fields written: `{` may follow** -/
theorem cmpT_objectTypeExtensionP (n : Nat) :
    CmpT (fun _ => True) (objectTypeExtension n) (LObjectExtP "type") FObjP (fun _ => True) := by
  rw [objectTypeExtension_eq]
  refine cmpT_withNode _ ?_
  refine (cmpT_ext (Hk := fun _ => True) "type" _ _ _ (cmpT_objExtTailP n)).mono (fun _ h => h) ?_ (fun _ h => h) (fun _ h => h)
  rintro b x ⟨nm, impl, ds, fs, hne, rfl, hfit⟩
  exact ⟨_, rfl, nm, impl, ds, fs, hne, rfl, hfit⟩

/-- **interface type extension with its fields written: `{` may follow** -/
theorem cmpT_interfaceTypeExtensionP (n : Nat) :
    CmpT (fun _ => True) (interfaceTypeExtension n) (LObjectExtP "interface") FObjP (fun _ => True) := by
  rw [interfaceTypeExtension_eq]
  refine cmpT_withNode _ ?_
  refine (cmpT_ext (Hk := fun _ => True) "interface" _ _ _ (cmpT_objExtTailP n)).mono (fun _ h => h) ?_ (fun _ h => h) (fun _ h => h)
  rintro b x ⟨nm, impl, ds, fs, hne, rfl, hfit⟩
  exact ⟨_, rfl, nm, impl, ds, fs, hne, rfl, hfit⟩

/-! ### schema extension with its root operation types written -/

theorem cmp_schemaExtBracesP (meets : Bool) :
    Cmp (fun _ => True) (schemaExtBraces meets) LSBraces (fun _ => True) (fun _ => True) := by
  unfold schemaExtBraces
  have hK : Cmp (fun _ => True) (expect .rCurly "R_CURLY" >>= fun _ => extEnd true) (fun _ x => x = [.p .rCurly]) (fun _ => True) (fun _ => True) := by
    have := cmp_bind (Hk := fun _ => True) (F := fun _ => True) (F1 := fun _ => True) (cmp_expect .rCurly "R_CURLY")
      (fun _ _ => cmp_extEnd (Hk := fun _ => True) (F := fun _ => True) true) (fun _ _ _ _ => trivial) (fun _ _ => trivial) (fun _ h => h)
    refine this.mono (fun _ h => h) ?_ (fun _ h => h) (fun _ h => h)
    rintro b x rfl
    exact ⟨[.p .rCurly], [], rfl, ⟨_, rfl, rfl⟩, rfl, rfl⟩
  apply cmp_peek
  intro k hk0
  by_cases hk : k = .lCurly
  · subst hk
    simp only [beq_self_eq_true, if_true]
    have := cmp_rootsBlock _ hK (by rintro b x rfl; exact ⟨[], rfl⟩)
    intro s s' a c x q0 rst w hrun hl hs ht hq hf hkh
    obtain ⟨roots, hne, rfl⟩ := hl
    exact this s s' a c _ q0 rst w hrun ⟨roots, [.p .rCurly], hne, by simp, rfl⟩ hs ht hq hf trivial
  · have hkk : (some k == some Kind.lCurly) = false := by simpa using hk
    simp only [hkk, Bool.false_eq_true, if_false]
    intro s s' a c x q0 rst w hrun hl hs ht hq hf hkh
    exfalso
    obtain ⟨roots, _, rfl⟩ := hl
    obtain ⟨tk, tl, rfl, hta⟩ := spells_head hs
    simp only [headK] at hkh
    rw [kind_of_astOfV hta] at hkh
    exact hk hkh.symm

def LSchemaExtP (b : Nat) (x : List Ast.Tok) : Prop :=
  ∃ (ds : List Ast.Directive) (roots : List (Ast.OpType × Ast.Str)), roots ≠ [] ∧
    x = kwE "schema" ++ Ast.tDirectives ds ++ Ast.tBraced (tRootOpItemsF (roots.map fun r => (r.1, some r.2))) roots.isEmpty ∧
    dirsFit true b ds

/-- **schema extension with its root operation types written: `{` may follow** -/
theorem cmpT_schemaExtensionP (n : Nat) :
    CmpT (fun _ => True) (schemaExtension n) LSchemaExtP (fun _ => True) (fun _ => True) := by
  rw [schemaExtension_eq]
  refine cmpT_withNode _ ?_
  have hd := cmp_extDirsP (Hk := fun _ => True) (F := fun _ => True) n schemaExtBraces false (Ln := LSBraces)
    (fun m => cmp_schemaExtBracesP m)
    (by rintro b a x ⟨roots, _, e⟩
        injection e with e _
        subst e; exact ⟨by decide, by decide⟩)
    (by rintro b ⟨roots, _, e⟩; cases e)
  refine (cmpT_ext (Hk := fun _ => True) "schema" _ _ _ hd.toT).mono (fun _ h => h) ?_ (fun _ _ => trivial) (fun _ h => h)
  rintro b x ⟨ds, roots, hr, rfl, hdf⟩
  refine ⟨Ast.tDirectives ds ++ Ast.tBraced (tRootOpItemsF (roots.map fun r => (r.1, some r.2))) roots.isEmpty,
    by simp [List.append_assoc], ds, _, rfl, hdf, roots, hr, ?_⟩
  have : roots.isEmpty = false := by cases roots with | nil => exact absurd rfl hr | cons _ _ => rfl
  rw [tRootOpItemsF_full, this]
  simp [Ast.tBraced]

end Apollo.Parse.Exact
