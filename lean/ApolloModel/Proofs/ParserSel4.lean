import ApolloModel.Proofs.ParserSel3
/-
C07 / C05 growth (selection sets), part 4: field and inline fragment, given the selection set one level down.
-/
set_option linter.unusedSimpArgs false
namespace Apollo.Parse
open Apollo.Rowan hiding Str
open Apollo.Lex hiding Str

def SelSetSound (n : Nat) : Prop :=
  ∀ s s' t rest, TW s → EofEnd s → Toks s = t :: rest → t.kind = .lCurly → (selectionSet n).run s = .ok () s' → ¬ Doomed s' →
    Cons s s' (fun x => ∃ ss, ss ≠ Ast.Sels.nil ∧ x = .p .lCurly :: Ast.tSels ss ++ [.p .rCurly])

def SelsSound (n : Nat) : Prop :=
  ∀ s s', TW s → EofEnd s → (selection n).run s = .ok () s' → ¬ Doomed s' →
    Cons s s' (fun x => ∃ ss, ss ≠ Ast.Sels.nil ∧ x = Ast.tSels ss)

def SelFieldSound (n : Nat) : Prop :=
  ∀ s s' t rest, TW s → EofEnd s → Toks s = t :: rest → t.kind = .name → (field n).run s = .ok () s' → ¬ Doomed s' →
    Cons s s' (fun x => ∃ f, x = Ast.tSel f)

def InlineSound (n : Nat) : Prop :=
  ∀ s s' t rest, TW s → EofEnd s → Toks s = t :: rest → t.kind = .spread → (inlineFragment n).run s = .ok () s' → ¬ Doomed s' →
    Cons s s' (fun x => ∃ f, x = Ast.tSel f)

/-- `if peek == k { A }; R` splits into the optional part and the rest -/
theorem optThen_dec (k : Kind) (A R : PI Unit) (s s' : PState)
    (h : (peek >>= fun x => if x == some k then (A >>= fun _ => R) else R).run s = .ok () s') :
    ∃ s1, (peek >>= fun x => if x == some k then A else pure ()).run s = .ok () s1 ∧ R.run s1 = .ok () s' := by
  obtain ⟨ko, sP, hp, h2⟩ := bind_dec peek _ s s' () h
  by_cases hc : (ko == some k) = true
  · simp only [hc, if_true] at h2
    obtain ⟨_, s1, h3, h4⟩ := bind_dec A _ sP s' () h2
    refine ⟨s1, ?_, h4⟩
    rw [run_bind, hp]
    simp only [hc, if_true]
    exact h3
  · simp only [hc, Bool.false_eq_true, if_false] at h2
    refine ⟨sP, ?_, h2⟩
    rw [run_bind, hp]
    simp only [hc, Bool.false_eq_true, if_false]
    rfl

theorem good_opt (k : Kind) (A : PI Unit) (ha : Good A) : Good (peek >>= fun x => if x == some k then A else pure ()) :=
  good_ifPeek k A ha

/-- `if p.peek() == Some(T!['{']) { selection_set }` -/
theorem optSelSet_sound (n : Nat) (ih : SelSetSound n) (s s' : PState) (w : TW s) (he : EofEnd s)
    (h : (peek >>= fun k => if k == some Kind.lCurly then selectionSet n else pure ()).run s = .ok () s') (hnd : ¬ Doomed s') :
    Cons s s' (fun x => ∃ sub, x = Ast.tSubSels sub) := by
  obtain ⟨sP, o, p, hor⟩ := ifPeek_dec .lCurly _ _ s s' () w h
  have heP := p.eofEnd he
  rcases hor with ⟨hk, h2⟩ | ⟨_, h2⟩
  · obtain ⟨t, rfl, hkt⟩ : ∃ t, o = some t ∧ t.kind = .lCurly := by
      cases o with
      | none => simp at hk
      | some t => exact ⟨t, rfl, by simpa using hk⟩
    have c := ih sP s' t _ p.w heP p.head_cons hkt h2 hnd
    refine (c.transport p.toks.symm rfl c.eofEnd).weaken ?_
    rintro x ⟨ss, hne, rfl⟩
    cases ss with
    | nil => exact absurd rfl hne
    | cons a tl => exact ⟨.cons a tl, by rw [Ast.tSubSels_cons]⟩
  · rw [run_pure] at h2
    injection h2 with _ h2
    subst h2
    exact (Cons.nil p.toks heP).weaken (by rintro x rfl; exact ⟨.nil, by simp [Ast.tSubSels]⟩)

def fieldT3 (n : Nat) : PI Unit := peek >>= fun x => if x == some Kind.lCurly then selectionSet n else pure ()
def fieldT2 (n : Nat) : PI Unit := peek >>= fun x => if x == some Kind.at then (directives n false >>= fun _ => fieldT3 n) else fieldT3 n
def fieldT1 (n : Nat) : PI Unit := peek >>= fun x => if x == some Kind.lParen then (arguments n false >>= fun _ => fieldT2 n) else fieldT2 n

theorem good_fieldT3 (n : Nat) : Good (fieldT3 n) := good_opt .lCurly _ (goodSel n).selSet
theorem good_fieldT2 (n : Nat) : Good (fieldT2 n) :=
  good_bind _ _ good_peek (fun _ => good_ite _ _ _ (good_bind _ _ (good_directives n false) (fun _ => good_fieldT3 n)) (good_fieldT3 n))
theorem good_fieldT1 (n : Nat) : Good (fieldT1 n) :=
  good_bind _ _ good_peek (fun _ => good_ite _ _ _ (good_bind _ _ (good_arguments n false) (fun _ => good_fieldT2 n)) (good_fieldT2 n))

/-- the tail of a field: `Arguments? Directives? SelectionSet?` -/
theorem fieldTail_sound (n : Nat) (ih : SelSetSound n) (s s' : PState) (w : TW s) (he : EofEnd s)
    (h : (fieldT1 n).run s = .ok () s')
    (hnd : ¬ Doomed s') :
    Cons s s' (fun x => ∃ args ds sub, x = Ast.tArguments args ++ Ast.tDirectives ds ++ Ast.tSubSels sub) := by
  obtain ⟨s1, h1, h2⟩ := optThen_dec .lParen (arguments n false) (fieldT2 n) s s' h
  obtain ⟨s2, h3, h4⟩ := optThen_dec .at (directives n false) (fieldT3 n) s1 s' h2
  have g3 := good_opt .lCurly _ (goodSel n).selSet
  have g2 := good_opt .at _ (good_directives n false)
  have a1 := good_opt .lParen _ (good_arguments n false) s () s1 w h1
  have a2 := g2 s1 () s2 a1.w h3
  have hnd2 : ¬ Doomed s2 := fun d => hnd ((g3 s2 () s' a2.w h4).doom d)
  have hnd1 : ¬ Doomed s1 := fun d => hnd2 (a2.doom d)
  have c1 := optArguments_sound n s s1 w he h1 hnd1
  have c2 := optDirectives_sound n s1 s2 a1.w c1.eofEnd h3 hnd2
  have c3 := optSelSet_sound n ih s2 s' a2.w c2.eofEnd h4 hnd
  exact ((c1.seq c2).seq c3).weaken (by
    rintro z ⟨xy, y, rfl, ⟨x1, x2, rfl, ⟨args, rfl⟩, ⟨ds, rfl⟩⟩, ⟨sub, rfl⟩⟩
    exact ⟨args, ds, sub, rfl⟩)

end Apollo.Parse

namespace Apollo.Parse
open Apollo.Rowan hiding Str
open Apollo.Lex hiding Str

theorem field_sound_step (n : Nat) (ih : SelSetSound n) : SelFieldSound (n + 1) := by
  intro s s' t rest w he ht hk h hnd
  have hni : isIgnoredKind t.kind = false := by rw [hk]; rfl
  rw [field_succ] at h
  obtain ⟨s1, s2, e1, h1, o2⟩ := withNode_peeked "FIELD" _ s s' () t rest w ht hni h
  have ht1 : Toks s1 = t :: rest := by have := e1.toks; rw [ht] at this; simpa using this.symm
  have hnd2 : ¬ Doomed s2 := fun d => hnd (o2.doomed.mpr d)
  have he1 : EofEnd s1 := eofEnd_eat he e1 (by intro x hx; cases hx)
  have h0 : Toks s = Toks s1 := by simpa using e1.toks
  unfold fieldBody at h1
  obtain ⟨sP, o, p, hor⟩ := ifPeek_dec .name _ _ s1 s2 () e1.w h1
  have ho : o = some t := by rw [p.head, ht1]; rfl
  subst ho
  have htP : Toks sP = t :: rest := by rw [p.toks]; exact ht1
  have heP := p.eofEnd he1
  -- the tail is Good
  have gtail := good_fieldBody n (goodSel n)
  rcases hor with ⟨_, h2⟩ | ⟨hne, _⟩
  · obtain ⟨k2, sQ, hq, h3⟩ := bind_dec (peekN 2) _ sP s2 () h2
    obtain ⟨rfl, hk2⟩ := peekN2_spec sP sQ k2 t rest p.w p.current htP hni hq
    by_cases hc : (k2 == some Kind.colon) = true
    · -- alias
      simp only [hc, if_true] at h3
      obtain ⟨_, s3, h4, h5⟩ := bind_dec alias _ sQ s2 () h3
      obtain ⟨_, s4, h6, h7⟩ := bind_dec name _ s3 s2 () h5
      have a3 := good_alias sQ () s3 p.w h4
      have a4 := good_name s3 () s4 a3.w h6
      have h7' : (fieldT1 n).run s4 = .ok () s2 := h7
      have hnd4 : ¬ Doomed s4 := fun d => hnd2 ((good_fieldT1 n s4 () s2 a4.w h7').doom d)
      have hnd3 : ¬ Doomed s3 := fun d => hnd4 (a4.doom d)
      have ca := alias_sound sQ s3 t rest p.w heP htP hk (by rw [← hk2]; simpa using hc) h4
      obtain ⟨t2, r2, ign2, hq2, hk2', e2, hall2⟩ := name_spec s3 s4 a3.w (eofEnd_nonempty s3 ca.eofEnd hnd3) h6 hnd4
      have cn := cons_of_name e2 ca.eofEnd hk2' hall2
      have ct := fieldTail_sound n ih s4 s2 a4.w cn.eofEnd h7' hnd2
      have c := (((ca.seq cn).seq ct).transport (h0.trans p.toks.symm) o2.toks (eofEnd_same _ _ ct.eofEnd o2.current o2.lx o2.errors))
      exact c.weaken (by
        rintro z ⟨xy, y, rfl, ⟨x1, x2, rfl, rfl, rfl⟩, ⟨args, ds, sub, rfl⟩⟩
        exact ⟨.field (some t.data) t2.data args ds sub, by simp [Ast.tSel, List.append_assoc]⟩)
    · simp only [hc, Bool.false_eq_true, if_false] at h3
      obtain ⟨_, s4, h6, h7⟩ := bind_dec name _ sQ s2 () h3
      obtain ⟨ign, e4, hall, _⟩ := name_settled sQ s4 t rest p.w htP hk h6
      have cn := cons_of_name e4 heP hk hall
      have ct := fieldTail_sound n ih s4 s2 e4.w cn.eofEnd (show (fieldT1 n).run s4 = .ok () s2 from h7) hnd2
      have c := ((cn.seq ct).transport (h0.trans p.toks.symm) o2.toks (eofEnd_same _ _ ct.eofEnd o2.current o2.lx o2.errors))
      exact c.weaken (by
        rintro z ⟨x, y, rfl, rfl, ⟨args, ds, sub, rfl⟩⟩
        exact ⟨.field none t.data args ds sub, by simp [Ast.tSel, List.append_assoc]⟩)
  · exact absurd (by simp [hk]) hne

end Apollo.Parse
