import ApolloModel.Proofs.SchemaSerialize2
/-
C12 growth, part 2: every type body the SchemaBuilder model produces has each component list grouped by
origin in the order in which the extensions were applied (an invariant of `step` over any definition list
with pairwise distinct positions), and what `Consistent` means for such bodies.
-/
set_option linter.unusedSimpArgs false
namespace Apollo.SchemaSerialize
open Apollo.SchemaBuild

/-- `l` is "definition components, then one block per extension in the order `P`", and mentions no other
    extension -/
def GroupedList (P : List Pos) (l : List Comp) : Prop :=
  l = regroup P l ∧ ∀ c ∈ l, ∀ e, c.origin = some e → e ∈ P

def GroupedBody (P : List Pos) (b : Body) : Prop :=
  GroupedList P b.directives ∧ GroupedList P b.interfaces ∧ GroupedList P b.members

theorem flatMap_congr_mem {α β : Type} (f g : α → List β) : ∀ (Q : List α), (∀ e ∈ Q, f e = g e) →
    Q.flatMap f = Q.flatMap g := by
  intro Q
  induction Q with
  | nil => intro _; rfl
  | cons x xs ih =>
    intro h
    simp only [List.flatMap_cons, h x (by simp), ih (fun e he => h e (by simp [he]))]

/-- appending a block of components that all come from the new extension `p` -/
theorem groupedList_snoc (P : List Pos) (l tail : List Comp) (p : Pos) (h : GroupedList P l) (hp : p ∉ P)
    (ht : ∀ c ∈ tail, c.origin = some p) : GroupedList (P ++ [p]) (l ++ tail) := by
  obtain ⟨h1, h2⟩ := h
  constructor
  · rw [regroup_snoc]
    have hnone : (l ++ tail).filter (fun c => c.origin == none) = l.filter (fun c => c.origin == none) := by
      rw [List.filter_append]
      have : tail.filter (fun c => c.origin == none) = [] := by
        apply List.filter_eq_nil_iff.mpr; intro c hc; simp [ht c hc]
      rw [this, List.append_nil]
    have hblocks : P.flatMap (fun e => (l ++ tail).filter (fun c => c.origin == some e))
        = P.flatMap (fun e => l.filter (fun c => c.origin == some e)) := by
      apply flatMap_congr_mem
      intro e he
      rw [List.filter_append]
      have : tail.filter (fun c => c.origin == some e) = [] := by
        apply List.filter_eq_nil_iff.mpr
        intro c hc
        rw [ht c hc]
        have : p ≠ e := fun c => hp (c ▸ he)
        simpa using this
      rw [this, List.append_nil]
    have hp_block : (l ++ tail).filter (fun c => c.origin == some p) = tail := by
      rw [List.filter_append]
      have a : l.filter (fun c => c.origin == some p) = [] := by
        apply List.filter_eq_nil_iff.mpr
        intro c hc hco
        exact hp (h2 c hc p (by simpa using hco))
      have b : tail.filter (fun c => c.origin == some p) = tail := by
        apply List.filter_eq_self.mpr; intro c hc; simp [ht c hc]
      rw [a, b, List.nil_append]
    have : regroup P (l ++ tail) = regroup P l := by
      unfold regroup; rw [hnone, hblocks]
    rw [this, hp_block, ← h1]
  · intro c hc e he
    rcases List.mem_append.mp hc with hc | hc
    · exact List.mem_append.mpr (Or.inl (h2 c hc e he))
    · rw [ht c hc] at he
      injection he with he
      simp [he]

theorem groupedList_def (tail : List Comp) (ht : ∀ c ∈ tail, c.origin = none) : GroupedList [] tail := by
  constructor
  · unfold regroup
    simp only [List.flatMap_nil, List.append_nil]
    exact (List.filter_eq_self.mpr (by intro c hc; simp [ht c hc])).symm
  · intro c hc e he
    rw [ht c hc] at he
    cases he

/-- `extend_sticky` appends components of the given origin only (duplicates are dropped) -/
theorem extendSticky_tail (dup : Name → Diag) (o : Option Pos) (its : List Item) :
    ∀ (cs : List Comp) (errs : List Err),
      ∃ tail, (extendSticky dup o cs errs its).1 = cs ++ tail ∧ ∀ c ∈ tail, c.origin = o := by
  induction its with
  | nil => intro cs errs; exact ⟨[], by simp [extendSticky], by simp⟩
  | cons it rest ih =>
    intro cs errs
    unfold extendSticky
    split
    · exact ih cs _
    · obtain ⟨tail, h1, h2⟩ := ih (cs ++ [it.toComp o]) errs
      refine ⟨it.toComp o :: tail, by rw [h1]; simp, ?_⟩
      intro c hc
      rcases List.mem_cons.mp hc with rfl | hc
      · rfl
      · exact h2 c hc

theorem groupedBody_extendBody (dupI dupM : Name → Diag) (P : List Pos) (b : Body) (e : Def) (errs : List Err) (p : Pos)
    (h : GroupedBody P b) (hp : p ∉ P) :
    GroupedBody (P ++ [p]) (extendBody dupI dupM (some p) b e errs).1 := by
  obtain ⟨hd, hi, hm⟩ := h
  unfold extendBody
  obtain ⟨ti, hti, hti2⟩ := extendSticky_tail dupI (some p) e.interfaces b.interfaces errs
  obtain ⟨tm, htm, htm2⟩ := extendSticky_tail dupM (some p) e.members b.members
    (extendSticky dupI (some p) b.interfaces errs e.interfaces).2
  refine ⟨?_, ?_, ?_⟩
  · exact groupedList_snoc P _ _ p hd hp (by intro c hc; obtain ⟨i, _, rfl⟩ := List.mem_map.mp hc; rfl)
  · show GroupedList _ (extendSticky dupI (some p) b.interfaces errs e.interfaces).1
    rw [hti]; exact groupedList_snoc P _ _ p hi hp hti2
  · show GroupedList _ (extendSticky dupM (some p) b.members _ e.members).1
    rw [htm]; exact groupedList_snoc P _ _ p hm hp htm2

theorem groupedBody_mono (P : List Pos) (b : Body) (p : Pos) (h : GroupedBody P b) (hp : p ∉ P) :
    GroupedBody (P ++ [p]) b := by
  obtain ⟨hd, hi, hm⟩ := h
  have f : ∀ l, GroupedList P l → GroupedList (P ++ [p]) l := by
    intro l hl
    have := groupedList_snoc P l [] p hl hp (by simp)
    simpa using this
  exact ⟨f _ hd, f _ hi, f _ hm⟩

theorem groupedBody_typeOfDef (k : Kind) (d : Def) (errs : List Err) : GroupedBody [] (typeOfDef k d errs).1.body := by
  unfold typeOfDef extendBody Body.empty
  obtain ⟨ti, hti, hti2⟩ := extendSticky_tail (dupIface k d.name) none d.interfaces [] errs
  obtain ⟨tm, htm, htm2⟩ := extendSticky_tail (dupMember k d.name) none d.members []
    (extendSticky (dupIface k d.name) none [] errs d.interfaces).2
  refine ⟨?_, ?_, ?_⟩
  · exact groupedList_def _ (by intro c hc; simp at hc; obtain ⟨i, _, rfl⟩ := hc; rfl)
  · show GroupedList _ (extendSticky (dupIface k d.name) none [] errs d.interfaces).1
    rw [hti]; exact groupedList_def _ (by simpa using hti2)
  · show GroupedList _ (extendSticky (dupMember k d.name) none [] _ d.members).1
    rw [htm]; exact groupedList_def _ (by simpa using htm2)

theorem groupedBody_adoptStep (k : Kind) (P : List Pos) (t : TypeEntry) (errs : List Err) (e : Def)
    (h : GroupedBody P t.body) (hp : e.pos ∉ P) :
    GroupedBody (P ++ [e.pos]) (adoptStep k (t, errs) e).1.body := by
  unfold adoptStep
  split
  · exact groupedBody_extendBody _ _ P t.body e errs e.pos h hp
  · exact groupedBody_mono P t.body e.pos h hp

theorem groupedBody_foldl_adoptStep (k : Kind) : ∀ (es : List Def) (P : List Pos) (acc : TypeEntry × List Err),
    (P ++ es.map (·.pos)).Nodup → GroupedBody P acc.1.body →
    GroupedBody (P ++ es.map (·.pos)) (es.foldl (adoptStep k) acc).1.body := by
  intro es
  induction es with
  | nil => intro P acc _ h; simpa using h
  | cons e es ih =>
    intro P acc hnd h
    have he : e.pos ∉ P := by
      intro hc
      have := List.nodup_append.mp hnd
      exact this.2.2 e.pos hc e.pos (by simp) rfl
    have := ih (P ++ [e.pos]) (adoptStep k acc e) (by simpa using hnd)
      (groupedBody_adoptStep k P acc.1 acc.2 e h he)
    simpa using this

/-- `XType::from_ast(definition, queued extensions)`: grouped in queue order -/
theorem groupedBody_typeFromAst (k : Kind) (d : Def) (exts : List Def) (errs : List Err)
    (hnd : (exts.map (·.pos)).Nodup) : GroupedBody (exts.map (·.pos)) (typeFromAst k d exts errs).1.body := by
  have := groupedBody_foldl_adoptStep k exts [] (typeOfDef k d errs) (by simpa using hnd) (groupedBody_typeOfDef k d errs)
  simpa [typeFromAst] using this

/-! ### the invariant of the builder loop -/

/-- `pre`: the positions of the definitions processed so far -/
def Inv (pre : List Pos) (s : Builder) : Prop :=
  (s.orphanQ.map (·.pos)).Sublist pre
  ∧ ∀ t ∈ s.types, ∃ P, P.Nodup ∧ (∀ p ∈ P, p ∈ pre) ∧ GroupedBody P t.body

theorem inv_mono (pre : List Pos) (s : Builder) (x : Pos) (h : Inv pre s) : Inv (pre ++ [x]) s := by
  refine ⟨h.1.trans (List.sublist_append_left pre [x]), ?_⟩
  intro t ht
  obtain ⟨P, h1, h2, h3⟩ := h.2 t ht
  exact ⟨P, h1, fun p hp => List.mem_append.mpr (Or.inl (h2 p hp)), h3⟩

theorem inv_of_same (pre : List Pos) (s s' : Builder) (h : Inv pre s) (ht : s'.types = s.types) (hq : s'.orphanQ = s.orphanQ) :
    Inv pre s' := by
  unfold Inv; rw [ht, hq]; exact h

theorem mem_setType (ts : List TypeEntry) (n : Name) (t' x : TypeEntry) (hx : x ∈ setType ts n t') : x = t' ∨ x ∈ ts := by
  unfold setType at hx
  obtain ⟨y, hy, rfl⟩ := List.mem_map.mp hx
  split
  · exact Or.inl rfl
  · exact Or.inr hy

theorem step_inv (pre : List Pos) (s : Builder) (d : Def) (h : Inv pre s) (hnd : pre.Nodup) (hd : d.pos ∉ pre) :
    Inv (pre ++ [d.pos]) (step s d) := by
  unfold step
  cases htag : d.tag with
  | schemaDef => simp only []; split <;> exact inv_mono _ _ _ (inv_of_same pre s _ h rfl rfl)
  | schemaExt => simp only []; split <;> exact inv_mono _ _ _ (inv_of_same pre s _ h rfl rfl)
  | operation => exact inv_mono _ _ _ (inv_of_same pre s _ h rfl rfl)
  | fragment => exact inv_mono _ _ _ (inv_of_same pre s _ h rfl rfl)
  | directiveDef =>
    simp only []
    unfold stepDirectiveDef
    cases findDir s.directiveDefs d.name with
    | none => exact inv_mono _ _ _ (inv_of_same pre s _ h rfl rfl)
    | some prev => simp only []; split <;> exact inv_mono _ _ _ (inv_of_same pre s _ h rfl rfl)
  | typeDef k =>
    simp only []
    unfold stepTypeDef
    cases hf : findType s.types d.name with
    | some prev =>
      simp only []
      split
      · exact inv_mono _ _ _ h
      · split <;> exact inv_mono _ _ _ (inv_of_same pre s _ h rfl rfl)
    | none =>
      simp only []
      have hsub : ((s.orphanQ.filter (fun e => e.name == d.name)).map (·.pos)).Sublist pre :=
        ((List.filter_sublist).map _).trans h.1
      refine ⟨?_, ?_⟩
      · exact (((List.filter_sublist).map _).trans h.1).trans (List.sublist_append_left pre _)
      · intro t ht
        rcases List.mem_append.mp ht with ht | ht
        · obtain ⟨P, h1, h2, h3⟩ := h.2 t ht
          exact ⟨P, h1, fun p hp => List.mem_append.mpr (Or.inl (h2 p hp)), h3⟩
        · have : t = (typeFromAst k d (s.orphanQ.filter (fun e => e.name == d.name)) s.errors).1 := by simpa using ht
          subst this
          exact ⟨_, hsub.nodup hnd, fun p hp => List.mem_append.mpr (Or.inl (hsub.subset hp)),
            groupedBody_typeFromAst k d _ s.errors (hsub.nodup hnd)⟩
  | typeExt k =>
    simp only []
    unfold stepTypeExt
    cases hf : findType s.types d.name with
    | none =>
      simp only []
      refine ⟨?_, ?_⟩
      · simp only [List.map_append, List.map_cons, List.map_nil]
        exact List.Sublist.append h.1 (List.Sublist.refl _)
      · intro t ht
        obtain ⟨P, h1, h2, h3⟩ := h.2 t ht
        exact ⟨P, h1, fun p hp => List.mem_append.mpr (Or.inl (h2 p hp)), h3⟩
    | some t0 =>
      simp only []
      split
      · refine ⟨h.1.trans (List.sublist_append_left pre _), ?_⟩
        intro t ht
        rcases mem_setType _ _ _ _ ht with rfl | ht
        · have ht0 : t0 ∈ s.types := by
            unfold findType at hf
            exact List.mem_of_find?_eq_some hf
          obtain ⟨P, h1, h2, h3⟩ := h.2 t0 ht0
          have hp : d.pos ∉ P := fun c => hd (h2 _ c)
          refine ⟨P ++ [d.pos], ?_, ?_, ?_⟩
          · exact List.nodup_append.mpr ⟨h1, by simp, by intro a ha b hb; simp at hb; subst hb; exact fun c => hp (c ▸ ha)⟩
          · intro p hp'
            rcases List.mem_append.mp hp' with hp' | hp'
            · exact List.mem_append.mpr (Or.inl (h2 p hp'))
            · exact List.mem_append.mpr (Or.inr hp')
          · exact groupedBody_extendBody _ _ P t0.body d s.errors d.pos h3 hp
        · obtain ⟨P, h1, h2, h3⟩ := h.2 t ht
          exact ⟨P, h1, fun p hp => List.mem_append.mpr (Or.inl (h2 p hp)), h3⟩
      · exact inv_mono _ _ _ (inv_of_same pre s _ h rfl rfl)

theorem addDocument_inv : ∀ (ds : List Def) (pre : List Pos) (s : Builder),
    Inv pre s → (pre ++ ds.map (·.pos)).Nodup → Inv (pre ++ ds.map (·.pos)) (addDocument s ds) := by
  intro ds
  induction ds with
  | nil => intro pre s h _; simpa [addDocument] using h
  | cons d ds ih =>
    intro pre s h hnd
    have hpre : pre.Nodup := (List.nodup_append.mp hnd).1
    have hd : d.pos ∉ pre := by
      intro hc
      exact (List.nodup_append.mp hnd).2.2 d.pos hc d.pos (by simp) rfl
    have := ih (pre ++ [d.pos]) (step s d) (step_inv pre s d h hpre hd) (by simpa using hnd)
    simpa [addDocument] using this

theorem inv_new (adopt ignoreBuiltin : Bool) : Inv [] (Builder.new adopt ignoreBuiltin) := by
  refine ⟨by simp [Builder.new], ?_⟩
  intro t ht
  refine ⟨[], List.nodup_nil, by simp, ?_⟩
  have hb : t.body = Body.empty := by
    simp only [Builder.new, builtinTypes, List.mem_map] at ht
    obtain ⟨p, _, rfl⟩ := ht
    rfl
  rw [hb]
  exact ⟨groupedList_def [] (by simp), groupedList_def [] (by simp), groupedList_def [] (by simp)⟩

/-! ### what `Consistent` means -/

theorem consistent_iff_regroup (b : Body) : Consistent b ↔ regroupBody b = b := by
  constructor
  · exact regroupBody_of_consistent b
  · intro h
    refine ⟨extensionsOf b, by simpa [extensionsOf] using firstOcc_nodup (extOrigins b), List.Sublist.refl _, ?_, ?_, ?_⟩
    · exact (congrArg Body.directives h).symm
    · exact (congrArg Body.interfaces h).symm
    · exact (congrArg Body.members h).symm

theorem consistent_of_grouped (P : List Pos) (b : Body) (hnd : P.Nodup) (hg : GroupedBody P b)
    (hsub : (extensionsOf b).Sublist P) : Consistent b :=
  ⟨P, hnd, hsub, hg.1.1, hg.2.1.1, hg.2.2.1⟩

end Apollo.SchemaSerialize
