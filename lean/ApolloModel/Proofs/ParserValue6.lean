import ApolloModel.Proofs.ParserValue5
/-
C05 growth (values), part 6: the recursion guard around a nested value, the list loop, object fields.
-/
set_option linter.unusedSimpArgs false
namespace Apollo.Parse
open Apollo.Rowan hiding Str
open Apollo.Lex hiding Str

theorem toks_same (s s' : PState) (hc : s'.current = s.current) (hl : s'.lx = s.lx) : Toks s' = Toks s := by
  unfold Toks; rw [hc, hl]

theorem ValOk.transport {c : Bool} {s1 s2 s s' : PState} (h : ValOk c s1 s2) (h1 : Toks s1 = Toks s)
    (h2 : Toks s' = Toks s2) (he : EofEnd s') : ValOk c s s' := by
  obtain ⟨⟨cs, a, b, d⟩, _⟩ := h
  refine ⟨⟨cs, by rw [← h1, h2]; exact a, b, ?_⟩, he⟩
  rcases d with d | ⟨e, hh, hk⟩
  · exact Or.inl d
  · exact Or.inr ⟨e, by rw [h2]; exact hh, hk⟩

/-- a nested value under `recursion_limit.check_and_increment()` … `decrement()` -/
theorem withRec_value {α : Type} (c : Bool) (x : α) (onLimit body : PI α)
    (honl : ∀ s1 s2 a, TW s1 → Toks s1 ≠ [] → onLimit.run s1 = .ok a s2 → Doomed s2)
    (hgb : Good body)
    (hbody : ∀ s1 s2 a, TW s1 → EofEnd s1 → body.run s1 = .ok a s2 → ¬ Doomed s2 → a = x ∧ ValOk c s1 s2)
    (s s' : PState) (a : α) (w : TW s) (he : EofEnd s) (hne : Toks s ≠ [])
    (h : (withRec onLimit body).run s = .ok a s') (hnd : ¬ Doomed s') : a = x ∧ ValOk c s s' ∧ TW s' := by
  rcases withRec_dec onLimit body s s' a h with ⟨_, sl, ol, hl⟩ | ⟨_, sr1, sr2, c1, l1, er1, a1, r1, rl1, hr, c2, l2, er2, a2, r2, rl2⟩
  · exfalso
    exact hnd (honl sl s' a (ol.w w) (by rw [ol.toks]; exact hne) hl)
  · have wr1 : TW sr1 := w_same _ _ w er1 l1 a1
    have her1 : EofEnd sr1 := eofEnd_same _ _ he c1 l1 er1
    have adv := hgb sr1 a sr2 wr1 hr
    have hnd2 : ¬ Doomed sr2 := fun d => hnd ((doomed_same _ _ er2 l2).mpr d)
    obtain ⟨hax, ok⟩ := hbody sr1 sr2 a wr1 her1 hr hnd2
    exact ⟨hax, ok.transport (toks_same _ _ c1 l1) (toks_same _ _ c2 l2) (eofEnd_same _ _ ok.eof c2 l2 er2),
      w_same _ _ adv.w er2 l2 a2⟩

theorem limitErr_then_dooms {α : Type} (x : α) (s1 s2 : PState) (a : α) (w : TW s1) (hne : Toks s1 ≠ [])
    (h : (limitErr >>= fun _ => (pure x : PI α)).run s1 = .ok a s2) : Doomed s2 := by
  obtain ⟨_, s3, h1, h2⟩ := bind_dec limitErr _ s1 s2 a h
  rw [run_pure] at h2
  injection h2 with _ h2
  subst h2
  exact (limitErr_adv s1 s3 w h1).2 hne

/-- result of the list loop (after `[`): values then `]` — or stopped at the end of input -/
@[reducible] def ListLoopOk (c : Bool) (s s' : PState) : Prop :=
  ∃ cs, Toks s = cs ++ Toks s' ∧ NoEof cs ∧ EofEnd s' ∧
    ((∃ vs, TokIs (sig cs) (Ast.tValues vs ++ [.p .rBracket]) ∧ valuesOk c vs = true) ∨ AtEof s')

theorem tokIs_length {ts : List Tok} {xs : List Ast.Tok} (h : TokIs ts xs) : ts.length = xs.length := by
  have := congrArg List.length h
  simpa using this

theorem listLoop_sound (n : Nat) (c : Bool) (ih : ValSound n) : ∀ (fuel : Nat) (s s' : PState), TW s → EofEnd s →
    (peekWhileLoop (listLoopBody n c) fuel).run s = .ok () s' → ¬ Doomed s' → ListLoopOk c s s'
  | 0, s, s', _, _, h, _ => by simp [peekWhileLoop, PI.outOfFuel] at h
  | fuel + 1, s, s', w, he, h, hnd => by
    unfold peekWhileLoop at h
    obtain ⟨ko, sP, hp, h2⟩ := bind_dec peek _ s s' () h
    obtain ⟨o, p, hko⟩ := peek_obs s sP ko w hp
    subst hko
    have heP : EofEnd sP := eofEnd_eat he p.eat (by intro x hx; cases hx)
    cases o with
    | none =>
      exfalso
      simp only [Option.map_none] at h2
      rw [run_pure] at h2
      injection h2 with _ h2
      subst h2
      have hh := p.head
      have : Toks s = [] := by
        cases ht : Toks s with
        | nil => rfl
        | cons a b => rw [ht] at hh; cases hh
      exact eofEnd_nonempty s he (fun d => hnd (p.doom.mpr d)) this
    | some t =>
      simp only [Option.map_some] at h2
      have htP : Toks sP = t :: (Toks sP).tail := by
        have := p.head; rw [← p.toks] at this; exact toks_head_cons sP t this.symm
      have h3 := getCurrent_dec _ sP s' () h2
      obtain ⟨b, sB, hb, h4⟩ := bind_dec (listLoopBody n c t.kind) _ sP s' () h3
      by_cases hkr : t.kind = .rBracket
      · -- `]`: bump and stop
        have hbody : (bump "R_BRACK" >>= fun _ => (pure false : PI Bool)).run sP = .ok b sB := by
          simpa [listLoopBody, hkr] using hb
        obtain ⟨_, s5, h5, h6⟩ := bind_dec (bump "R_BRACK") _ sP sB b hbody
        rw [run_pure] at h6
        injection h6 with h6 h7
        subst h6 h7
        simp only [Bool.false_eq_true, if_false] at h4
        rw [run_pure] at h4
        injection h4 with _ h4
        subst h4
        obtain ⟨ign, e, hall, _⟩ := bump_spec "R_BRACK" sP s5 p.w t _ htP h5
        have hni : isIgnoredKind t.kind = false := by rw [hkr]; rfl
        have hne : t.kind ≠ .eof := by rw [hkr]; decide
        refine ⟨t :: ign, by rw [← p.toks]; exact e.toks, noEof_cons hne hall, eofEnd_eat heP e (noEof_cons hne hall),
          Or.inl ⟨.nil, ?_, rfl⟩⟩
        rw [sig_cons_ignV t ign hni hall]
        exact TokIs.single t _ (by simp [astOfV, hkr])
      · by_cases hke : t.kind = .eof
        · -- end of input: the loop breaks without an error
          have hbody : (pure false : PI Bool).run sP = .ok b sB := by
            simpa [listLoopBody, hke] using hb
          rw [run_pure] at hbody
          injection hbody with h6 h7
          subst h6 h7
          simp only [Bool.false_eq_true, if_false] at h4
          rw [run_pure] at h4
          injection h4 with _ h4
          subst h4
          exact ⟨[], (by rw [p.toks]; rfl), (by intro x hx; cases hx), heP,
            Or.inr ⟨t, by rw [htP]; rfl, hke⟩⟩
        · -- a value, under the recursion guard
          have hk1 : (t.kind == Kind.rBracket) = false := by simpa using hkr
          have hk2 : (t.kind == Kind.eof) = false := by simpa using hke
          have hbody : (withRec (limitErr >>= fun _ => (pure false : PI Bool))
              (value n c true >>= fun _ => (pure true : PI Bool))).run sP = .ok b sB := by
            simpa [listLoopBody, hk1, hk2] using hb
          have gB : Good (listLoopBody n c t.kind) := good_listLoopBody n c (goodAll n) t.kind
          have aB := gB sP b sB p.w hb
          have hndB : ¬ Doomed sB := by
            intro d
            have : Good (if b = true then (getCurrent >>= fun after =>
                if (sP.current == after) = true then (PI.stuck : PI Unit) else peekWhileLoop (listLoopBody n c) fuel) else pure ()) := by
              cases b with
              | false => exact good_pure _
              | true =>
                exact good_bind _ _ good_getCurrent (fun after => good_ite _ _ _ good_stuck
                  (good_peekWhileLoop _ (good_listLoopBody n c (goodAll n)) fuel))
            exact hnd ((this sB () s' aB.w h4).doom d)
          obtain ⟨hbt, ok, wB⟩ := withRec_value c true _ _
            (fun s1 s2 a w1 hne1 hr => limitErr_then_dooms false s1 s2 a w1 hne1 hr)
            (good_bind _ _ (good_value n c true) (fun _ => good_pure _))
            (by
              intro s1 s2 a w1 he1 hr hnd2
              obtain ⟨_, s3, h5, h6⟩ := bind_dec (value n c true) _ s1 s2 a hr
              rw [run_pure] at h6
              injection h6 with h6 h7
              subst h7
              exact ⟨h6.symm, ih c true s1 s3 w1 he1 h5 hnd2⟩)
            sP sB b p.w heP (by rw [htP]; simp) hbody hndB
          subst hbt
          simp only [if_true] at h4
          have h5 := getCurrent_dec _ sB s' () h4
          by_cases hsame : (sP.current == sB.current) = true
          · simp only [hsame, if_true] at h5
            exact absurd h5 (stuck_not_ok _ _ _)
          · simp only [hsame, Bool.false_eq_true, if_false] at h5
            obtain ⟨⟨c1, hc1, hno1, hr1⟩, he1⟩ := ok
            obtain ⟨c2, hc2, hno2, he2, hr2⟩ := listLoop_sound n c ih fuel sB s' wB he1 h5 hnd
            refine ⟨c1 ++ c2, by rw [← p.toks, hc1, hc2, List.append_assoc], noEof_append hno1 hno2, he2, ?_⟩
            rcases hr1 with ⟨v, hv, hvo⟩ | ha
            · rcases hr2 with ⟨vs, hvs, hvso⟩ | ha2
              · refine Or.inl ⟨.cons v vs, ?_, by simp [valuesOk, hvo, hvso]⟩
                rw [sig_append]
                have := hv.append hvs
                simpa [Ast.tValues, List.append_assoc] using this
              · exact Or.inr ha2
            · exact Or.inr (atEof_rest sB s' c2 he1 hndB ha hc2 hno2)

end Apollo.Parse
