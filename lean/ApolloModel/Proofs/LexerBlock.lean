import ApolloModel.Proofs.LexerTokens
/-
C03 growth: block strings.  The six block-string states of the DFA against `Spec.Lexical.BlockBody`
(BlockStringCharacter* then the closing `"""`, the closing delimiter being the FIRST unescaped `"""`), in the
lexer's exact language (any character counts as SourceCharacter), both directions.
-/
set_option linter.unusedSimpArgs false
namespace Apollo.Lex
open Apollo.Spec.Lexical (BlockBody IsBlockString)

abbrev BB : Str → Prop := BlockBody anyChar

/-! ### inversion of `BlockBody` by the first character -/

theorem bb_nil : ¬ BB [] := by intro h; cases h

theorem bb_other {c : Char} {l : Str} (h1 : c ≠ '"') (h2 : c ≠ '\\') : BB (c :: l) ↔ BB l := by
  constructor
  · intro h
    cases h with
    | close => exact absurd rfl h1
    | escapedQuotes _ => exact absurd rfl h2
    | plain _ _ _ hr => exact hr
  · intro h
    refine BlockBody.plain rfl ?_ ?_ h
    · intro e; cases l with
      | nil => simp at e
      | cons a r => cases r <;> simp at e <;> exact h1 e.1
    · intro e; cases l with
      | nil => simp at e
      | cons a r => cases r with
        | nil => simp at e
        | cons b r2 => cases r2 <;> simp at e <;> exact h2 e.1

theorem bb_quote {l : Str} : BB ('"' :: l) ↔ (l = ['"', '"'] ∨ (l.take 2 ≠ ['"', '"'] ∧ BB l)) := by
  constructor
  · intro h
    cases h with
    | close => exact Or.inl rfl
    | plain _ h3 _ hr =>
      refine Or.inr ⟨?_, hr⟩
      intro e
      apply h3
      cases l with
      | nil => simp at e
      | cons a r => cases r with
        | nil => simp at e
        | cons b r2 => simp at e ⊢; exact e
  · rintro (rfl | ⟨h3, hr⟩)
    · exact BlockBody.close
    · refine BlockBody.plain rfl ?_ ?_ hr
      · intro e
        apply h3
        cases l with
        | nil => simp at e
        | cons a r => cases r with
          | nil => simp at e
          | cons b r2 => simp at e ⊢; exact e
      · intro e
        cases l with
        | nil => simp at e
        | cons a r => cases r with
          | nil => simp at e
          | cons b r2 => cases r2 <;> simp at e

theorem bb_backslash {l : Str} : BB ('\\' :: l) ↔ ((∃ r, l = q3 ++ r ∧ BB r) ∨ (l.take 3 ≠ q3 ∧ BB l)) := by
  constructor
  · intro h
    cases h with
    | escapedQuotes hr => exact Or.inl ⟨_, rfl, hr⟩
    | plain _ _ h4 hr =>
      refine Or.inr ⟨?_, hr⟩
      intro e
      apply h4
      cases l with
      | nil => simp [q3] at e
      | cons a r => cases r with
        | nil => simp [q3] at e
        | cons b r2 => cases r2 with
          | nil => simp [q3] at e
          | cons d r3 => simp [q3] at e ⊢; exact e
  · rintro (⟨r, rfl, hr⟩ | ⟨h4, hr⟩)
    · exact BlockBody.escapedQuotes hr
    · refine BlockBody.plain rfl ?_ ?_ hr
      · intro e
        cases l with
        | nil => simp at e
        | cons a r => cases r <;> simp at e
      · intro e
        apply h4
        cases l with
        | nil => simp at e
        | cons a r => cases r with
          | nil => simp at e
          | cons b r2 => cases r2 with
            | nil => simp at e
            | cons d r3 => simp [q3] at e ⊢; exact e

/-! ### the pending part of a partial match, per state -/

/-- the characters consumed since the last complete BlockStringCharacter -/
def pend : State → Str
  | .blockQuote1 => ['"']
  | .blockQuote2 => ['"', '"']
  | .blockStringLiteralBackslash => ['\\']
  | .blockBackslashQuote1 => ['\\', '"']
  | .blockBackslashQuote2 => ['\\', '"', '"']
  | _ => []

theorem bb_pend (st : State) (h : isBlockState st = true) : ¬ BB (pend st) := by
  cases st <;> simp [isBlockState] at h <;> simp only [pend]
  · exact bb_nil
  · intro hb; rcases bb_quote.mp hb with e | ⟨_, e⟩
    · cases e
    · exact bb_nil e
  · intro hb; rcases bb_quote.mp hb with e | ⟨_, e⟩
    · cases e
    · rcases bb_quote.mp e with e | ⟨_, e⟩
      · cases e
      · exact bb_nil e
  · intro hb; rcases bb_backslash.mp hb with ⟨r, e, _⟩ | ⟨_, e⟩
    · simp [q3] at e
    · exact bb_nil e
  · intro hb; rcases bb_backslash.mp hb with ⟨r, e, _⟩ | ⟨_, e⟩
    · simp [q3] at e
    · rcases bb_quote.mp e with e | ⟨_, e⟩
      · cases e
      · exact bb_nil e
  · intro hb; rcases bb_backslash.mp hb with ⟨r, e, _⟩ | ⟨_, e⟩
    · simp [q3] at e
    · rcases bb_quote.mp e with e | ⟨_, e⟩
      · cases e
      · rcases bb_quote.mp e with e | ⟨_, e⟩
        · cases e
        · exact bb_nil e

/-- one transition of the block-string states: either the token ends here (`none`), or the next state -/
def blockNext (st : State) (c : Char) : Option State :=
  if c = '"' then
    match st with
    | .blockStringLiteral => some .blockQuote1
    | .blockQuote1 => some .blockQuote2
    | .blockQuote2 => none
    | .blockStringLiteralBackslash => some .blockBackslashQuote1
    | .blockBackslashQuote1 => some .blockBackslashQuote2
    | _ => some .blockStringLiteral
  else if c = '\\' then some .blockStringLiteralBackslash
  else some .blockStringLiteral

theorem step_blockNext (st : State) (acc : Str) (c : Char) (h : isBlockState st = true) :
    step st .stringValue false acc c =
      match blockNext st c with
      | some st' => .goto st' .stringValue false
      | none => .incl (.tok .stringValue) := by
  by_cases h1 : c = '"'
  · subst h1
    cases st <;> simp [isBlockState] at h <;> simp [step, blockStep, blockNext, done]
  · by_cases h2 : c = '\\'
    · subst h2
      cases st <;> simp [isBlockState] at h <;> simp [step, blockStep, blockNext]
    · cases st <;> simp [isBlockState] at h <;> simp [step, blockStep, blockNext, h1, h2]

theorem blockNext_block (st st' : State) (c : Char) (h : blockNext st c = some st') : isBlockState st' = true := by
  unfold blockNext at h
  split at h
  · cases st <;> simp at h <;> subst h <;> rfl
  · split at h <;> simp at h <;> subst h <;> rfl

/-- the grammar side of one transition -/
theorem bb_step (st : State) (c : Char) (b : Str) (h : isBlockState st = true) :
    BB (pend st ++ c :: b) ↔
      match blockNext st c with
      | some st' => BB (pend st' ++ b)
      | none => b = [] := by
  have hq1 : ∀ l : Str, BB ('"' :: '\\' :: l) ↔ BB ('\\' :: l) := fun l => by
    rw [bb_quote]; constructor
    · rintro (e | ⟨_, e⟩); cases e; exact e
    · intro e; exact Or.inr ⟨by simp, e⟩
  have hq1o : ∀ (x : Char) (l : Str), x ≠ '"' → x ≠ '\\' → (BB ('"' :: x :: l) ↔ BB l) := fun x l hx1 hx2 => by
    rw [bb_quote, bb_other hx1 hx2]; constructor
    · rintro (e | ⟨_, e⟩)
      · injection e with e _; exact absurd e hx1
      · exact e
    · intro e; exact Or.inr ⟨by simp [hx1], e⟩
  have hq2 : ∀ l : Str, BB ('"' :: '"' :: '\\' :: l) ↔ BB ('\\' :: l) := fun l => by
    rw [bb_quote, hq1]; constructor
    · rintro (e | ⟨_, e⟩); cases e; exact e
    · intro e; exact Or.inr ⟨by simp, e⟩
  have hq2o : ∀ (x : Char) (l : Str), x ≠ '"' → x ≠ '\\' → (BB ('"' :: '"' :: x :: l) ↔ BB l) := fun x l hx1 hx2 => by
    rw [bb_quote, hq1o x l hx1 hx2]; constructor
    · rintro (e | ⟨_, e⟩)
      · simp at e; exact absurd e.1 hx1
      · exact e
    · intro e; exact Or.inr ⟨by simp [hx1], e⟩
  by_cases h1 : c = '"'
  · subst h1
    cases st <;> simp [isBlockState] at h <;> simp only [pend, blockNext, if_true, List.cons_append, List.nil_append]
    · -- blockQuote2: the closing delimiter
      rw [bb_quote]; constructor
      · rintro (e | ⟨e, _⟩)
        · simpa using e
        · simp at e
      · intro e; subst e; exact Or.inl rfl
    · -- blockBackslashQuote2: `\"""`
      rw [bb_backslash]; constructor
      · rintro (⟨r, e, hr⟩ | ⟨e, _⟩)
        · simp [q3] at e; subst e; exact hr
        · simp [q3] at e
      · intro e; exact Or.inl ⟨b, rfl, e⟩
  · by_cases h2 : c = '\\'
    · subst h2
      cases st <;> simp [isBlockState] at h <;>
        simp only [pend, blockNext, h1, if_false, if_true, List.cons_append, List.nil_append]
      · exact hq1 b
      · exact hq2 b
      · rw [bb_backslash]; constructor
        · rintro (⟨r, e, _⟩ | ⟨_, e⟩)
          · simp [q3] at e
          · exact e
        · intro e; exact Or.inr ⟨by simp [q3], e⟩
      · rw [bb_backslash, hq1]; constructor
        · rintro (⟨r, e, _⟩ | ⟨_, e⟩)
          · simp [q3] at e
          · exact e
        · intro e; exact Or.inr ⟨by simp [q3], e⟩
      · rw [bb_backslash, hq2]; constructor
        · rintro (⟨r, e, _⟩ | ⟨_, e⟩)
          · simp [q3] at e
          · exact e
        · intro e; exact Or.inr ⟨by simp [q3], e⟩
    · cases st <;> simp [isBlockState] at h <;>
        simp only [pend, blockNext, h1, h2, if_false, List.cons_append, List.nil_append]
      · exact bb_other h1 h2
      · exact hq1o c b h1 h2
      · exact hq2o c b h1 h2
      · rw [bb_backslash, bb_other h1 h2]; constructor
        · rintro (⟨r, e, _⟩ | ⟨_, e⟩)
          · simp [q3] at e; exact absurd e.1 h1
          · exact e
        · intro e; exact Or.inr ⟨by simp [q3, h1], e⟩
      · rw [bb_backslash, hq1o c b h1 h2]; constructor
        · rintro (⟨r, e, _⟩ | ⟨_, e⟩)
          · simp [q3] at e; exact absurd e.1 h1
          · exact e
        · intro e; exact Or.inr ⟨by simp [q3, h1], e⟩
      · rw [bb_backslash, hq2o c b h1 h2]; constructor
        · rintro (⟨r, e, _⟩ | ⟨_, e⟩)
          · simp [q3] at e; exact absurd e.1 h1
          · exact e
        · intro e; exact Or.inr ⟨by simp [q3, h1], e⟩

/-- **the block-string states, both directions**: from a block state with `acc` consumed, the DFA emits the token
    `t` leaving `rest` exactly when the input is `body ++ rest`, `t = acc ++ body`, and the pending part followed by
    `body` is BlockStringCharacter* `"""` -/
theorem block_run : ∀ (src : Str) (st : State) (acc : Str), isBlockState st = true → ∀ (k : Kind) (t rest : Str),
    (runD st .stringValue false acc src = (.tok k t, rest) ↔
      k = .stringValue ∧ ∃ body, src = body ++ rest ∧ t = acc ++ body ∧ BB (pend st ++ body))
  | [], st, acc, h, k, t, rest => by
    constructor
    · intro hr
      cases st <;> simp [isBlockState] at h <;> simp [runD, eofItem] at hr
    · rintro ⟨_, body, e, _, hb⟩
      have : body = [] := by
        cases body with
        | nil => rfl
        | cons a r => simp at e
      subst this
      exact absurd (by simpa using hb) (bb_pend st h)
  | c :: src, st, acc, h, k, t, rest => by
    unfold runD
    rw [step_blockNext st acc c h]
    have hstep := bb_step st c
    cases hn : blockNext st c with
    | some st' =>
      simp only [hn] at hstep ⊢
      have hb' := blockNext_block st st' c hn
      rw [block_run src st' (acc ++ [c]) hb' k t rest]
      constructor
      · rintro ⟨hk, body, rfl, rfl, hb⟩
        exact ⟨hk, c :: body, rfl, by simp, (hstep body h).mpr hb⟩
      · rintro ⟨hk, body, e, rfl, hb⟩
        cases body with
        | nil => exact absurd (by simpa using hb) (bb_pend st h)
        | cons a body' =>
          simp only [List.cons_append, List.cons.injEq] at e
          obtain ⟨rfl, rfl⟩ := e
          exact ⟨hk, body', rfl, by simp, (hstep body' h).mp hb⟩
    | none =>
      simp only [hn] at hstep ⊢
      simp only [Out.mk, Prod.mk.injEq, Item.tok.injEq]
      constructor
      · rintro ⟨⟨rfl, rfl⟩, rfl⟩
        exact ⟨rfl, [c], rfl, rfl, (hstep [] h).mpr rfl⟩
      · rintro ⟨rfl, body, e, rfl, hb⟩
        cases body with
        | nil => exact absurd (by simpa using hb) (bb_pend st h)
        | cons a body' =>
          simp only [List.cons_append, List.cons.injEq] at e
          obtain ⟨rfl, rfl⟩ := e
          have := (hstep body' h).mp hb
          subst this
          exact ⟨⟨rfl, rfl⟩, rfl⟩

/-- three quotes enter the block-string states -/
theorem advance_q3 (r : Str) : advance (q3 ++ r) = runD .blockStringLiteral .stringValue false q3 r := by
  simp [advance, runD, step, punctuationKind, isNameStart, isAsciiDigit, q3]

/-- **`lex_block_string_iff`**: a StringValue token that starts with `"""` is emitted, leaving `rest`, exactly when the
    source is `t ++ rest` with `t` a block string of the grammar (`"""` BlockStringCharacter* `"""`, the closing delimiter
    being the first unescaped `"""`; any character counts as SourceCharacter) -/
theorem lex_block_string_iff (src t rest : Str) :
    (advance src = (.tok .stringValue t, rest) ∧ ∃ tail, t = q3 ++ tail) ↔ (src = t ++ rest ∧ IsBlockString anyChar t) := by
  constructor
  · rintro ⟨h, tail, rfl⟩
    have hc := advance_concat src
    rw [h] at hc
    simp only [Item.data] at hc
    have hsrc : src = q3 ++ (tail ++ rest) := by rw [← hc]; simp
    rw [hsrc, advance_q3] at h
    obtain ⟨_, body, hb1, hb2, hb⟩ := (block_run _ _ q3 rfl _ _ _).mp h
    have : tail = body := by simpa using hb2
    subst this
    exact ⟨by rw [hsrc]; simp, tail, rfl, by simpa [pend] using hb⟩
  · rintro ⟨rfl, r, rfl, hb⟩
    refine ⟨?_, r, rfl⟩
    have : ('"' :: '"' :: '"' :: r) ++ rest = q3 ++ (r ++ rest) := by simp [q3]
    rw [this, advance_q3]
    exact (block_run _ _ q3 rfl _ _ _).mpr ⟨rfl, r, rfl, rfl, by simpa [pend] using hb⟩

/-- **`lex_block_string_error`**: an opening `"""` that is not followed by BlockStringCharacter* `"""` is an error item
    (unterminated block string) -/
theorem lex_block_string_error (r : Str) (hno : ¬ ∃ body rest, r = body ++ rest ∧ BB body) :
    (advance (q3 ++ r)).1.isErr = true := by
  cases hadv : advance (q3 ++ r) with
  | mk item rest =>
    cases item with
    | err d => rfl
    | limit => rfl
    | tok k t =>
      exfalso
      rw [advance_q3] at hadv
      obtain ⟨_, body, hb1, _, hb⟩ := (block_run _ _ q3 rfl _ _ _).mp hadv
      exact hno ⟨body, rest, hb1, by simpa [pend] using hb⟩

end Apollo.Lex
