import ApolloModel.Proofs.ParserTermination4
/-
selection.rs, field.rs, fragment.rs: the cycle selectionSet → selection → field → selectionSet, and
the entry point `Parser::parse_selection_set`.
-/
set_option linter.unusedSimpArgs false
set_option linter.unusedVariables false
namespace Apollo.Parse
open Apollo.Rowan hiding Str
open Apollo.Lex hiding Str

/-- `peek_while` whose closure also sets a flag -/
theorem peekWhileFlagLoop_term (body : Kind → PI (Bool × Bool)) : ∀ (fuel : Nat) (flag : Bool) (s : PState), W s →
    Mm s + 1 ≤ fuel →
    (∀ kind s1, W s1 → Mm s1 ≤ Mm s → (∃ t, s1.current = some t ∧ t.kind = kind) →
      Term (body kind) s1 (fun r c l => r.1 = true → ∀ t, s1.current = some t → t.kind = kind → StrictT s1 c l)) →
    TA (peekWhileFlagLoop body fuel flag) s
  | 0, _, s, _, h, _ => by omega
  | fuel + 1, flag, s, hw, hf, hbody => by
    unfold peekWhileFlagLoop
    apply term_bind (peek_run' s hw).term
    intro k s1 hw1 hm1 hk1 hq1
    cases k with
    | none => exact ta_pure _ s1 hw1
    | some kind =>
      simp only []
      apply term_bind (getCurrent_run s1 hw1).term
      intro before s2 hw2 hm2 hk2 hq2
      obtain ⟨rfl, hc2, hl2⟩ := hq2
      have hcur : ∃ t, s2.current = some t ∧ t.kind = kind := by
        rw [hc2]; exact cur_of_peek hq1
      have hM2 : Mm s2 ≤ Mm s := by rw [Mm_congr hc2 hl2]; exact hm1.1
      apply term_bind (hbody kind s2 hw2 hM2 hcur)
      intro r s3 hw3 hm3 hk3 hq3
      obtain ⟨cont, set⟩ := r
      simp only []
      cases cont with
      | false => simp only [Bool.false_eq_true, if_false]; exact ta_pure _ s3 hw3
      | true =>
        simp only [if_true]
        apply term_bind (getCurrent_run s3 hw3).term
        intro after s4 hw4 hm4 hk4 hq4
        obtain ⟨rfl, hc4, hl4⟩ := hq4
        obtain ⟨t, ht, htk⟩ := hcur
        have hst : Strict s2 s3 := hq3 rfl t ht htk
        have hne : s3.current ≠ s1.current := by
          rw [← hc2]
          exact strict_current_ne hst (by simp [ht])
        rw [beq_current_false hne]
        simp only [Bool.false_eq_true, if_false]
        have hM4 : Mm s4 < Mm s2 := by rw [Mm_congr hc4 hl4]; exact hst.1
        exact peekWhileFlagLoop_term body fuel _ s4 hw4 (by omega)
          (fun kind' s5 hw5 hM5 hc5 => hbody kind' s5 hw5 (by omega) hc5)

/-- `peek_while_kind` whose closure sets a flag -/
theorem peekWhileKindFlagLoop_term (expectK : Kind) (body : PI Unit) : ∀ (fuel : Nat) (flag : Bool) (s : PState), W s →
    Mm s + 1 ≤ fuel →
    (∀ s1, W s1 → Mm s1 ≤ Mm s → Term body s1 (GC (fun t => t.kind = expectK) s1)) →
    TA (peekWhileKindFlagLoop expectK body fuel flag) s
  | 0, _, s, _, h, _ => by omega
  | fuel + 1, flag, s, hw, hf, hbody => by
    unfold peekWhileKindFlagLoop
    apply term_bind (peek_run' s hw).term
    intro k s1 hw1 hm1 hk1 hq1
    cases k with
    | none => exact ta_pure _ s1 hw1
    | some kind =>
      simp only []
      by_cases hkk : (kind != expectK) = true
      · simp only [hkk, if_true]; exact ta_pure _ s1 hw1
      · simp only [hkk, Bool.false_eq_true, if_false]
        have hke : kind = expectK := by simpa using hkk
        apply term_bind (getCurrent_run s1 hw1).term
        intro before s2 hw2 hm2 hk2 hq2
        obtain ⟨rfl, hc2, hl2⟩ := hq2
        have hcur : ∃ t, s2.current = some t ∧ t.kind = expectK := by
          rw [hc2, ← hke]; exact cur_of_peek hq1
        have hM2 : Mm s2 ≤ Mm s := by rw [Mm_congr hc2 hl2]; exact hm1.1
        apply term_bind (hbody s2 hw2 hM2)
        intro _ s3 hw3 hm3 hk3 hq3
        apply term_bind (getCurrent_run s3 hw3).term
        intro after s4 hw4 hm4 hk4 hq4
        obtain ⟨rfl, hc4, hl4⟩ := hq4
        obtain ⟨t, ht, htk⟩ := hcur
        have hst : Strict s2 s3 := hq3 t ht htk
        have hne : s3.current ≠ s1.current := by
          rw [← hc2]
          exact strict_current_ne hst (by simp [ht])
        rw [beq_current_false hne]
        simp only [Bool.false_eq_true, if_false]
        have hM4 : Mm s4 < Mm s2 := by rw [Mm_congr hc4 hl4]; exact hst.1
        exact peekWhileKindFlagLoop_term expectK body fuel _ s4 hw4 (by omega)
          (fun s5 hw5 hM5 => hbody s5 hw5 (by omega))

/-- after a guarded first step, the rest runs with strictly fewer tokens left than `M0` -/
theorem gc_first_or {α β : Type} {G : Tok → Prop} {first : PI α} {rest : α → PI β} {s : PState} {M0 : Nat}
    (hor : (∃ t, s.current = some t ∧ G t) ∨ Mm s < M0) (hle : Mm s ≤ M0)
    (h1 : Term first s (GC G s)) (h2 : ∀ a s3, W s3 → Mm s3 < M0 → TA (rest a) s3) :
    Term (first >>= rest) s (GC G s) := by
  have key : ∀ a s1, first.run s = .ok a s1 → Mm s1 < M0 := by
    intro a s1 hr
    obtain ⟨_, hm1, _, hq1⟩ := h1.2 a s1 hr
    rcases hor with ⟨t, ht, hg⟩ | hlt
    · have := (hq1 t ht hg).1; unfold Mm at *; omega
    · have := hm1.1; omega
  refine ⟨?_, ?_⟩
  · intro w
    rw [run_bind]
    cases hr : first.run s with
    | ok a s1 => exact (h2 a s1 (h1.2 a s1 hr).1 (key a s1 hr)).1 w
    | abort w' => exact absurd hr (h1.1 w')
    | panic msg => simp
  · intro b s2 hrb
    rw [run_bind] at hrb
    cases hr : first.run s with
    | ok a s1 =>
      rw [hr] at hrb
      obtain ⟨hw1, hm1, hk1, hq1⟩ := h1.2 a s1 hr
      obtain ⟨hw2, hm2, hk2, _⟩ := (h2 a s1 hw1 (key a s1 hr)).2 b s2 hrb
      exact ⟨hw2, hm1.trans hm2, hk1.trans hm1 hk2 hm2, fun t ht hg => Strict.trans_mono (hq1 t ht hg) hm2⟩
    | abort w' => rw [hr] at hrb; simp at hrb
    | panic msg => rw [hr] at hrb; simp at hrb

/-- `withNode` entered under a guard: the body starts either still under the guard or already ahead -/
theorem gc_withNode_or {α : Type} {G : Tok → Prop} (kind : SK) (body : PI α) (s : PState) (hw : W s)
    (hcur : ∃ t, s.current = some t ∧ G t)
    (h : ∀ s2, W s2 → Mm s2 ≤ Mm s → ((∃ t, s2.current = some t ∧ G t) ∨ Mm s2 < Mm s) → Term body s2 (GC G s2)) :
    Term (withNode kind body) s (GC G s) := by
  refine withNode_term kind body s hw ?_
  intro s1 hw1 hc1 hl1
  have hM1 : Mm s1 = Mm s := Mm_congr hc1 hl1
  obtain ⟨t, ht, hg⟩ := hcur
  have ht1 : s1.current = some t := by rw [hc1, ht]
  have hstate : ∀ u s2, skipIgnored.run s1 = .ok u s2 → W s2 ∧ Mm s2 ≤ Mm s ∧ ((∃ t, s2.current = some t ∧ G t) ∨ Mm s2 < Mm s) := by
    intro u s2 hr
    obtain ⟨hw2, hm2, hk2, _⟩ := (skipIgnored_run s1 hw1).term.2 u s2 hr
    refine ⟨hw2, by have := hm2.1; omega, ?_⟩
    rcases hk2 (by rw [ht1]; rfl) with ⟨hc, hl⟩ | hst
    · exact Or.inl ⟨t, by rw [hc, ht1], hg⟩
    · exact Or.inr (by have := hst.1; omega)
  refine ⟨?_, ?_⟩
  · intro w
    rw [run_bind]
    cases hr : skipIgnored.run s1 with
    | ok u s2 => obtain ⟨hw2, hM2, hor⟩ := hstate u s2 hr; exact (h s2 hw2 hM2 hor).1 w
    | abort w' => exact absurd hr ((skipIgnored_run s1 hw1).term.1 w')
    | panic msg => simp
  · intro b sF hrb
    rw [run_bind] at hrb
    cases hr : skipIgnored.run s1 with
    | ok u s2 =>
      rw [hr] at hrb
      obtain ⟨hw2, hm2, hk2, _⟩ := (skipIgnored_run s1 hw1).term.2 u s2 hr
      obtain ⟨_, hM2, hor⟩ := hstate u s2 hr
      obtain ⟨hwF, hmF, hkF, hqF⟩ := (h s2 hw2 hM2 hor).2 b sF hrb
      refine ⟨hwF, hm2.trans hmF, hk2.trans hm2 hkF hmF, ?_⟩
      intro t' ht' hg'
      have ht1' : s1.current = some t' := by rw [hc1, ht']
      rcases hk2 (by rw [ht1']; rfl) with ⟨hc, hl⟩ | hst
      · exact strictT_of_congr hc1 hl1 (strictT_of_congr hc hl (hqF t' (by rw [hc, ht1']) hg'))
      · exact strictT_of_congr hc1 hl1 (hst.trans_mono hmF)
    | abort w' => rw [hr] at hrb; simp at hrb
    | panic msg => rw [hr] at hrb; simp at hrb

abbrev GAny : Tok → Prop := fun _ => True

theorem gc_peek' {β : Type} {G : Tok → Prop} {f : Option Kind → PI β} {s : PState} (hw : W s)
    (h : ∀ k s1, W s1 → Mm s1 ≤ Mm s → k = s1.current.map (·.kind) →
      (s.current.isSome = true → s1.current = s.current) → Term (f k) s1 (GC G s1)) :
    Term (peek >>= f) s (GC G s) :=
  gc_look (Q1 := fun k c _ => k = c.map (·.kind) ∧ (s.current.isSome = true → c = s.current))
    ((peek_run' s hw).term.weaken (fun _ _ _ hq => ⟨⟨hq.1, fun hs => (hq.2.2 hs).1⟩, hq.2.2⟩))
    (fun k s1 hw1 hM1 hq => h k s1 hw1 hM1 hq.1 hq.2)

/-- `peek_n` only looks: the token stream is untouched -/
theorem look_peekN (n : Nat) (s : PState) (hw : W s) :
    Term (peekN n) s (fun _ c l => c = s.current ∧ l = s.lx) := by
  unfold peekN
  apply term_bind (peekTokenN_run n s hw).term
  intro a s1 hw1 _ _ hq1
  exact term_pure _ s1 hw1 hq1

theorem gc_lookN {β : Type} {G : Tok → Prop} (n : Nat) {f : Option Kind → PI β} {s : PState} (hw : W s)
    (h : ∀ k s1, W s1 → Mm s1 ≤ Mm s → s1.current = s.current → Term (f k) s1 (GC G s1)) :
    Term (peekN n >>= f) s (GC G s) :=
  gc_look (Q1 := fun _ c _ => c = s.current) ((look_peekN n s hw).weaken (fun _ _ _ hq => ⟨hq.1, fun _ => hq⟩))
    (fun k s1 hw1 hM1 hc1 => h k s1 hw1 hM1 hc1)

macro "ta_sel" : tactic => `(tactic| ta_auto_with (first
    | exact ta_directives _ _ _ (by assumption) (by omega)
    | exact ta_arguments _ _ _ (by assumption) (by omega)
    | exact ta_fragmentName _ (by assumption)
    | exact ta_typeCondition _ (by assumption)
    | exact ta_alias _ (by assumption)
    | exact ta_namedType _ (by assumption)))

theorem gc_fragmentSpread (n : Nat) (s : PState) (hw : W s) (hb : 4 * Mm s + 4 ≤ n) :
    Term (fragmentSpread n) s (GC GAny s) := by
  unfold fragmentSpread
  refine gc_withNode _ _ s hw ?_
  intro s2 hw2 hM2
  refine gc_first (gc_bump _ s2 hw2) ?_
  ta_sel

theorem gc_alias (s : PState) (hw : W s) : Term alias s (GC (fun t => t.kind = .name) s) := by
  unfold alias
  refine gc_withNode _ _ s hw ?_
  intro s2 hw2 hM2
  refine gc_first (gc_name s2 hw2) ?_
  ta_auto

/-- post-condition of a flag-loop closure -/
def FlagPost (kind : Kind) (s : PState) : Bool × Bool → Option Tok → LexSt → Prop :=
  fun r c l => r.1 = true → ∀ t, s.current = some t → t.kind = kind → StrictT s c l

theorem flag_of_gc {G : Tok → Prop} {kind : Kind} {m : PI Unit} {s : PState} {r : Bool × Bool}
    (h : Term m s (GC G s)) (hg : ∀ t, t.kind = kind → G t) :
    Term (m >>= fun _ => pure r) s (FlagPost kind s) :=
  (gc_first h (fun _ s3 hw3 _ => ta_pure r s3 hw3)).weaken (fun _ c l hq _ t ht hk => hq t ht (hg t hk))

theorem flag_false {kind : Kind} {s : PState} (hw : W s) (b : Bool) :
    Term (pure (false, b) : PI (Bool × Bool)) s (FlagPost kind s) :=
  term_pure _ s hw (fun h => by simp at h)

structure SelGoal (n : Nat) : Prop where
  ss : ∀ s, W s → 4 * Mm s + 2 ≤ n → Term (selectionSet n) s (GC (fun t => t.kind = .lCurly) s)
  sel : ∀ s, W s → 4 * Mm s + 5 ≤ n → TA (selection n) s
  field : ∀ s, W s → 4 * Mm s + 4 ≤ n → (∃ t, s.current = some t ∧ t.kind = .name) →
    Term (field n) s (GC (fun t => t.kind = .name) s)
  inl : ∀ s, W s → 4 * Mm s + 4 ≤ n → (∃ t, s.current = some t ∧ GAny t) → Term (inlineFragment n) s (GC GAny s)

set_option maxHeartbeats 1600000 in
theorem sel_ss (n : Nat) (ih : SelGoal n) :
    ∀ s, W s → 4 * Mm s + 2 ≤ n + 1 → Term (selectionSet (n + 1)) s (GC (fun t => t.kind = .lCurly) s) := by
  intro s hw hb
  unfold selectionSet
  refine gc_peek hw ?_
  intro k s1 hw1 hM1 hk
  split
  · rename_i hcond
    have hcur : ∃ t, s1.current = some t ∧ t.kind = .lCurly := by
      have : k = some Kind.lCurly := by simpa using hcond
      rw [this] at hk
      cases hc : s1.current with
      | none => rw [hc] at hk; simp at hk
      | some t => rw [hc] at hk; simp at hk; exact ⟨t, rfl, hk.symm⟩
    refine gc_withNode_or _ _ s1 hw1 hcur ?_
    intro s2 hw2 hM2 hor
    refine gc_first_or (M0 := Mm s1) hor hM2 (gc_bump _ s2 hw2) ?_
    intro _ s3 hw3 hM3
    refine ta_bind ?_ ?_
    · refine ta_withRec _ _ s3 hw3 ?_ ?_
      · intro s4 hw4 hM4; ta_auto
      · intro s4 hw4 hM4
        refine ta_bind (ih.sel s4 hw4 (by omega)) ?_
        intro _ s5 hw5 _; exact ta_pure _ s5 hw5
    · intro ok s4 hw4 hM4
      split
      · exact ta_expect _ _ s4 hw4
      · exact ta_pure _ s4 hw4
  · exact term_pure _ s1 hw1 (fun t ht hg => by
      exfalso
      rename_i hcond
      apply hcond
      rw [hk, ht]; simp [hg])

set_option maxHeartbeats 1600000 in
theorem sel_sel (n : Nat) (ih : SelGoal n) : ∀ s, W s → 4 * Mm s + 5 ≤ n + 1 → TA (selection (n + 1)) s := by
  intro s hw hb
  unfold selection
  apply term_bind (srcLen_run s hw).term
  intro len s1 hw1 hm1 hk1 hq1
  obtain ⟨rfl, hc1, hl1⟩ := hq1
  have hM1 : Mm s1 = Mm s := Mm_congr hc1 hl1
  refine ta_bind ?_ ?_
  · refine peekWhileFlagLoop_term _ _ _ s1 hw1 (by have := Mm_le s; omega) ?_
    intro kind s2 hw2 hM2 hcur2
    obtain ⟨t2, ht2, hkind2⟩ := hcur2
    split
    · -- `...`
      refine (term_bind (Q := FlagPost kind s2) (peekTokenN_run 2 s2 hw2).term ?_)
      intro next s3 hw3 hm3 hk3 hq3
      have conv : ∀ {r : Bool × Bool → Option Tok → LexSt → Prop}, True := fun {_} => trivial
      have tr : ∀ {c : Option Tok} {l : LexSt} {r : Bool × Bool}, FlagPost kind s3 r c l → FlagPost kind s2 r c l := by
        intro c l r h hr t ht hk
        exact strictT_of_congr hq3.1 hq3.2 (h hr t (by rw [hq3.1]; exact ht) hk)
      have hM3 : Mm s3 = Mm s2 := Mm_congr hq3.1 hq3.2
      cases next with
      | none =>
        simp only []
        refine (term_bind (Q := FlagPost kind s2) (ta_errAndPop s3 hw3) ?_)
        intro _ s4 hw4 _ _ _
        exact term_pure _ s4 hw4 (fun h => by simp at h)
      | some nx =>
        simp only []
        have hfs := gc_fragmentSpread n s3 hw3 (by omega)
        refine Term.weaken ?_ (fun r c l h => tr h)
        split
        · exact flag_of_gc hfs (fun _ _ => trivial)
        · split
          · exact flag_of_gc (ih.inl s3 hw3 (by omega) ⟨t2, by rw [hq3.1, ht2], trivial⟩) (fun _ _ => trivial)
          · refine Term.weaken (Q := GC GAny s3) ?_ (fun r c l h _ t ht _ => h t ht trivial)
            refine gc_look (Q1 := fun _ _ _ => True) ((err_run s3 hw3).term.weaken (fun _ _ _ h => ⟨trivial, h.2⟩)) ?_
            intro _ s4 hw4 _ _
            exact gc_first (gc_bump _ s4 hw4) (fun _ s5 hw5 _ => ta_pure _ s5 hw5)
    · split
      · exact flag_false hw2 _
      · split
        · rename_i hname
          have hkn : kind = Kind.name := by simpa using hname
          exact flag_of_gc (ih.field s2 hw2 (by omega) ⟨t2, ht2, by rw [hkind2, hkn]⟩) (fun t ht => by rw [ht, hkn])
        · exact flag_false hw2 _
  · intro has s2 hw2 hM2
    split
    · exact ta_err s2 hw2
    · exact ta_pure _ s2 hw2

set_option maxHeartbeats 3200000 in
theorem sel_field (n : Nat) (ih : SelGoal n) : ∀ s, W s → 4 * Mm s + 4 ≤ n + 1 →
    (∃ t, s.current = some t ∧ t.kind = .name) → Term (field (n + 1)) s (GC (fun t => t.kind = .name) s) := by
  intro s hw hb hcur
  unfold field
  refine gc_withNode_or _ _ s hw hcur ?_
  intro s2 hw2 hM2 hor
  refine gc_peek' hw2 ?_
  intro k s3 hw3 hM3 hk hkept
  simp only []
  have hM0 : Mm s3 ≤ Mm s := by omega
  split
  · rename_i hcond
    have hcur3 : ∃ t, s3.current = some t ∧ t.kind = .name := by
      have : k = some Kind.name := by simpa using hcond
      rw [this] at hk
      cases hc : s3.current with
      | none => rw [hc] at hk; simp at hk
      | some t => rw [hc] at hk; simp at hk; exact ⟨t, rfl, hk.symm⟩
    refine gc_lookN 2 hw3 ?_
    intro k2 s4 hw4 hM4 hc4
    have hcur4 : ∃ t, s4.current = some t ∧ t.kind = .name := by rw [hc4]; exact hcur3
    split
    · refine gc_first_or (M0 := Mm s) (Or.inl hcur4) (by omega) (gc_alias s4 hw4) ?_
      intro _ s5 hw5 hM5
      ta_auto_with (first
        | exact ta_directives _ _ _ (by assumption) (by omega)
        | exact ta_arguments _ _ _ (by assumption) (by omega)
        | exact ta_of (ih.ss _ (by assumption) (by omega)))
    · refine gc_first_or (M0 := Mm s) (Or.inl hcur4) (by omega) (gc_name s4 hw4) ?_
      intro _ s5 hw5 hM5
      ta_auto_with (first
        | exact ta_directives _ _ _ (by assumption) (by omega)
        | exact ta_arguments _ _ _ (by assumption) (by omega)
        | exact ta_of (ih.ss _ (by assumption) (by omega)))
  · rename_i hcond
    -- the token is not a Name any more: it was consumed before (so fewer tokens are left)
    have hlt : Mm s2 < Mm s := by
      rcases hor with ⟨t, ht, hkn⟩ | h
      · exfalso
        apply hcond
        have := hkept (by rw [ht]; rfl)
        rw [hk, this, ht]; simp [hkn]
      · exact h
    refine Term.weaken (Q := Any) ?_ (fun _ c l _ t ht hkn => by
      exfalso; apply hcond; rw [hk, ht]; simp [hkn])
    ta_auto_with (first
      | exact ta_directives _ _ _ (by assumption) (by omega)
      | exact ta_arguments _ _ _ (by assumption) (by omega)
      | exact ta_of (ih.ss _ (by assumption) (by omega)))

set_option maxHeartbeats 1600000 in
theorem sel_inl (n : Nat) (ih : SelGoal n) : ∀ s, W s → 4 * Mm s + 4 ≤ n + 1 →
    (∃ t, s.current = some t ∧ GAny t) → Term (inlineFragment (n + 1)) s (GC GAny s) := by
  intro s hw hb hcur
  unfold inlineFragment
  refine gc_withNode_or _ _ s hw hcur ?_
  intro s2 hw2 hM2 hor
  refine gc_first_or (M0 := Mm s) hor hM2 (gc_bump _ s2 hw2) ?_
  intro _ s3 hw3 hM3
  ta_auto_with (first
    | exact ta_directives _ _ _ (by assumption) (by omega)
    | exact ta_typeCondition _ (by assumption)
    | exact ta_of (ih.ss _ (by assumption) (by omega)))

theorem sel_family : ∀ n, SelGoal n
  | 0 => ⟨fun s _ h => by omega, fun s _ h => by omega, fun s _ h _ => by omega, fun s _ h _ => by omega⟩
  | n + 1 => ⟨sel_ss n (sel_family n), sel_sel n (sel_family n), sel_field n (sel_family n), sel_inl n (sel_family n)⟩

theorem ta_selectionSet (n : Nat) (s : PState) (hw : W s) (hb : 4 * Mm s + 2 ≤ n) : TA (selectionSet n) s :=
  ta_of ((sel_family n).ss s hw hb)

theorem ta_fieldSet (n : Nat) (s : PState) (hw : W s) (hb : 4 * Mm s + 5 ≤ n) : TA (fieldSet n) s := by
  unfold fieldSet
  ta_auto_with (first
    | exact ta_selectionSet _ _ (by assumption) (by omega)
    | exact (sel_family _).sel _ (by assumption) (by omega))

/-- `Parser::parse_selection_set` terminates: neither out of fuel nor stuck, for every input and limits -/
theorem parse_selection_set_terminates (tl : Option Nat) (rl : Nat) (src : Str) (w : Abort) :
    (parse .selectionSet tl rl src).outcome ≠ .abort w := by
  intro h
  obtain ⟨s0, hc, hl, habort⟩ := runEntry_abort .selectionSet (fuelFor src) (initState src tl rl) w h
  simp only [Entry.grammar] at habort
  have hw0 : W s0 := W_congr hc hl (init_W src tl rl)
  have hM : Mm s0 = src.length + 1 := by rw [Mm_congr hc hl, init_Mm]
  have ht : TA (fieldSet (fuelFor src) >>= fun _ => expectEndOfInput) s0 := by
    refine ta_bind (ta_fieldSet _ s0 hw0 (by unfold fuelFor; omega)) ?_
    intro _ s1 hw1 _
    exact expectEndOfInput_term s1 hw1
  exact ht.1 w habort

end Apollo.Parse
