import ApolloModel.Proofs.Execution
/-
C26 growth: every recorded error path leads to a `null` in `data` — walking the response along the path
reaches `null` at the path's position or at a proper prefix of it (the nearest nullable ancestor where the
error was caught).  List indices are part of paths; the one way an index can stop matching the output array
is `ResolvedValue::SkipForPartialExecution` as a list ITEM (the item is dropped, the index still advances —
the model follows the code), so worlds are required not to put `skip` inside lists.
-/
namespace Apollo.Exec
open Apollo

/-- the value at a path of field keys and list indices -/
def jsonAt : Json → Path → Option Json
  | v, [] => some v
  | .obj m, .key k :: r =>
    match AList.get? m k with
    | some v => jsonAt v r
    | none => none
  | .arr xs, .idx i :: r =>
    match xs[i]? with
    | some v => jsonAt v r
    | none => none
  | _, _ :: _ => none

/-- walking `v` along `rel` meets `null` at `rel` or at a prefix of it -/
def LeadsNull (v : Json) (rel : Path) : Prop := ∃ q, q <+: rel ∧ jsonAt v q = some .null

theorem leads_null_self (rel : Path) : LeadsNull .null rel := ⟨[], List.nil_prefix, rfl⟩

theorem leads_arr {xs : List Json} {i : Nat} {v : Json} {rel : Path} (hi : xs[i]? = some v) (h : LeadsNull v rel) :
    LeadsNull (.arr xs) (.idx i :: rel) := by
  obtain ⟨q, hq, hn⟩ := h
  refine ⟨.idx i :: q, ?_, ?_⟩
  · obtain ⟨t, rfl⟩ := hq; exact ⟨t, rfl⟩
  · simp [jsonAt, hi, hn]

theorem leads_obj {m : AList Json} {k : String} {v : Json} {rel : Path} (hk : AList.get? m k = some v) (h : LeadsNull v rel) :
    LeadsNull (.obj m) (.key k :: rel) := by
  obtain ⟨q, hq, hn⟩ := h
  refine ⟨.key k :: q, ?_, ?_⟩
  · obtain ⟨t, rfl⟩ := hq; exact ⟨t, rfl⟩
  · simp [jsonAt, hk, hn]

theorem drop_seg {path p : Path} {seg : Seg} (h : (path ++ [seg]) <+: p) :
    p.drop path.length = seg :: p.drop (path ++ [seg]).length := by
  obtain ⟨t, rfl⟩ := h
  simp [List.append_assoc]

mutual
def RV.noSkip : RV → Bool
  | .skip => false
  | .list xs => RV.noSkipL xs
  | _ => true
def RV.noSkipL : List RV → Bool
  | [] => true
  | x :: xs => RV.noSkip x && RV.noSkipL xs
end

/-- `skip` does not occur as a list item (it may be the value of a field) -/
def RV.itemsClean : RV → Bool
  | .list xs => RV.noSkipL xs
  | _ => true

theorem noSkip_itemsClean {rv : RV} (h : rv.noSkip = true) : rv.itemsClean = true := by
  cases rv <;> simp_all [RV.noSkip, RV.itemsClean]

theorem noSkip_ne_skip {rv : RV} (h : rv.noSkip = true) : rv ≠ .skip := by
  intro e; subst e; simp [RV.noSkip] at h

def WorldClean (w : World) : Prop := ∀ e, e ∈ w → e.2.itemsClean = true

theorem world_get_clean : ∀ (w : World) (id : Nat) (f : String) (rv : RV), WorldClean w → w.get? id f = some rv →
    rv.itemsClean = true := by
  intro w
  induction w with
  | nil => intro id f rv _ h; simp [World.get?] at h
  | cons e rest ih =>
    intro id f rv hw h
    obtain ⟨⟨i, g⟩, r⟩ := e
    simp only [World.get?] at h
    split at h
    · cases h; exact hw ((i, g), rv) (by simp)
    · exact ih id f rv (fun e he => hw e (by simp [he])) h

/-- what every value-producing call guarantees about its new errors -/
def NullOut (path : Path) (st : St) (x : Out × St) : Prop :=
  ∃ new, Ext path st x.2 new ∧ (x.1 = .ok none → new = []) ∧
    (∀ v, x.1 = .ok (some v) → ∀ p, p ∈ new → LeadsNull v (p.drop path.length))

def RecNull (rec : Rec) : Prop := ∀ path ty rv fields st, rv.itemsClean = true →
  NullOut path st (rec path ty rv fields st) ∧ (rv ≠ .skip → (rec path ty rv fields st).1 ≠ .ok none)

theorem null_error_push (path : Path) (st : St) : NullOut path st (.error .propagate, st.push path) :=
  ⟨[path], ext_push path st, (by intro h; cases h), (by intro v h; cases h)⟩

/-- `try_nullify`: a caught propagation puts `null` at this very position -/
theorem null_tryNullify {path : Path} {ty : Ty} {st : St} {r : Out} {st' : St}
    (h : NullOut path st (r, st')) : NullOut path st (tryNullify ty r, st') := by
  obtain ⟨new, hext, hnone, hv⟩ := h
  refine ⟨new, hext, ?_, ?_⟩
  · intro he
    rcases tryNullify_cases ty r with ⟨j, hr, e⟩ | ⟨_, _, e⟩ | ⟨_, _, e⟩ | ⟨_, e⟩
    · rw [e] at he; cases he; exact hnone hr
    · rw [e] at he; cases he
    · rw [e] at he; cases he
    · rw [e] at he; cases he
  · intro v hvv p hp
    rcases tryNullify_cases ty r with ⟨j, hr, e⟩ | ⟨_, _, e⟩ | ⟨_, _, e⟩ | ⟨_, e⟩
    · rw [e] at hvv; cases hvv; exact hv v hr p hp
    · rw [e] at hvv; cases hvv
    · rw [e] at hvv; cases hvv; exact leads_null_self _
    · rw [e] at hvv; cases hvv

theorem completeLeaf_null (path : Path) (tyName : String) (k : Kind) (j : Json) (st : St) :
    NullOut path st (completeLeaf path tyName k j st) ∧ (completeLeaf path tyName k j st).1 ≠ .ok none := by
  have hok : ∀ v, NullOut path st (.ok (some v), st) ∧ ((Except.ok (some v) : Out), st).1 ≠ .ok none :=
    fun v => ⟨⟨[], ext_refl path st, (by intro h; cases h), (by intro _ _ p hp; cases hp)⟩, by simp⟩
  have herr : NullOut path st (.error .propagate, st.push path) ∧ ((Except.error Fail.propagate : Out), st.push path).1 ≠ .ok none :=
    ⟨null_error_push path st, by simp⟩
  unfold completeLeaf
  cases k with
  | object d => exact herr
  | interface => exact herr
  | union m => exact herr
  | inputObject f => exact herr
  | enum values =>
    cases j with
    | str x => simp only; split; exact hok _; exact herr
    | null => exact herr
    | bool b => exact herr
    | int z => exact herr
    | float t => exact herr
    | arr xs => exact herr
    | obj kvs => exact herr
  | scalar => simp only; split; exact hok _; exact herr

theorem getElem?_of_prefix {acc ys : List Json} {v : Json} (h : (acc ++ [v]) <+: ys) : ys[acc.length]? = some v := by
  obtain ⟨t, rfl⟩ := h
  simp [List.append_assoc]

/-- the item loop: the output array extends the accumulator, and every new error leads to a null in it (or
    the whole list became null) -/
theorem completeItems_null (rec : Rec) (hrec : RecNull rec) (path : Path) (ty inner : Ty) (fields : List Sel) :
    ∀ items i acc st, acc.length = i → RV.noSkipL items = true →
      ∃ new, Ext path st (completeItems rec path ty inner fields items i acc st).2 new ∧
        (completeItems rec path ty inner fields items i acc st).1 ≠ .ok none ∧
        ∀ v, (completeItems rec path ty inner fields items i acc st).1 = .ok (some v) →
          (v = .null ∨ ∃ ys, v = .arr ys ∧ acc <+: ys) ∧ ∀ p, p ∈ new → LeadsNull v (p.drop path.length) := by
  intro items
  induction items with
  | nil =>
    intro i acc st _ _
    simp only [completeItems]
    exact ⟨[], ext_refl path st, by simp, fun v h => by
      cases h; exact ⟨Or.inr ⟨acc, rfl, List.prefix_refl _⟩, fun p hp => by cases hp⟩⟩
  | cons item rest ih =>
    intro i acc st hlen hclean
    simp only [RV.noSkipL, Bool.and_eq_true] at hclean
    by_cases he : item = RV.error
    · subst he
      simp only [completeItems]
      exact ⟨[path ++ [.idx i]], ⟨by simp [St.push], by intro p hp; simp at hp; subst hp; exact List.prefix_append path _⟩,
        by simp, fun v h => by cases h⟩
    · have hunf : completeItems rec path ty inner fields (item :: rest) i acc st =
          (match rec (path ++ [.idx i]) inner item fields st with
          | (r, st1) =>
            match tryNullify inner r with
            | .ok none => completeItems rec path ty inner fields rest (i + 1) acc st1
            | .ok (some v) => completeItems rec path ty inner fields rest (i + 1) (acc ++ [v]) st1
            | .error .propagate => (tryNullify ty (.error .propagate), st1)
            | .error .fuel => (.error .fuel, st1)) := by
        cases item <;> first | rfl | exact absurd rfl he
      rw [hunf]
      obtain ⟨⟨n1, hext1, hnone1, hv1⟩, hns⟩ := hrec (path ++ [.idx i]) inner item fields st (noSkip_itemsClean hclean.1)
      have hns := hns (noSkip_ne_skip hclean.1)
      generalize rec (path ++ [.idx i]) inner item fields st = res at *
      obtain ⟨r, st1⟩ := res
      have hext1' : Ext path st st1 n1 := ext_weaken hext1
      -- what an item value `vi` at index `i` gives for the errors of the item
      have hitem : ∀ (vi : Json) (ys : List Json), (acc ++ [vi]) <+: ys →
          (∀ p, p ∈ n1 → LeadsNull vi (p.drop (path ++ [Seg.idx i]).length)) →
          ∀ p, p ∈ n1 → LeadsNull (.arr ys) (p.drop path.length) := by
        intro vi ys hpre hl p hp
        rw [drop_seg (hext1.2 p hp)]
        have := getElem?_of_prefix hpre
        rw [hlen] at this
        exact leads_arr this (hl p hp)
      simp only
      rcases tryNullify_cases inner r with ⟨j, hr, e⟩ | ⟨hr, _, e⟩ | ⟨hr, _, e⟩ | ⟨_, e⟩
      · rw [e]
        cases j with
        | none => exact absurd hr hns
        | some vi =>
          obtain ⟨n2, h2, hn2, hv2⟩ := ih (i + 1) (acc ++ [vi]) st1 (by simp [hlen]) hclean.2
          refine ⟨n1 ++ n2, ext_trans hext1' h2, hn2, ?_⟩
          intro v hv
          obtain ⟨hshape, hl2⟩ := hv2 v hv
          refine ⟨?_, ?_⟩
          · rcases hshape with h | ⟨ys, h, hpre⟩
            · exact Or.inl h
            · exact Or.inr ⟨ys, h, List.IsPrefix.trans (List.prefix_append acc [vi]) hpre⟩
          · intro p hp
            rcases List.mem_append.mp hp with hp | hp
            · rcases hshape with h | ⟨ys, h, hpre⟩
              · rw [h]; exact leads_null_self _
              · rw [h]; exact hitem vi ys hpre (hv1 vi hr) p hp
            · exact hl2 p hp
      · rw [e]
        refine ⟨n1, hext1', ?_, ?_⟩
        · cases hn : ty.isNonNull <;> simp [tryNullify, hn]
        · intro v hv
          cases hn : ty.isNonNull
          · simp [tryNullify, hn] at hv
            subst hv
            exact ⟨Or.inl rfl, fun p _ => leads_null_self _⟩
          · simp [tryNullify, hn] at hv
      · rw [e]
        obtain ⟨n2, h2, hn2, hv2⟩ := ih (i + 1) (acc ++ [.null]) st1 (by simp [hlen]) hclean.2
        refine ⟨n1 ++ n2, ext_trans hext1' h2, hn2, ?_⟩
        intro v hv
        obtain ⟨hshape, hl2⟩ := hv2 v hv
        refine ⟨?_, ?_⟩
        · rcases hshape with h | ⟨ys, h, hpre⟩
          · exact Or.inl h
          · exact Or.inr ⟨ys, h, List.IsPrefix.trans (List.prefix_append acc [.null]) hpre⟩
        · intro p hp
          rcases List.mem_append.mp hp with hp | hp
          · rcases hshape with h | ⟨ys, h, hpre⟩
            · rw [h]; exact leads_null_self _
            · rw [h]; exact hitem .null ys hpre (fun _ _ => leads_null_self _) p hp
          · exact hl2 p hp
      · rw [e]
        exact ⟨n1, hext1', by simp, fun v h => by cases h⟩

theorem completeList_null (rec : Rec) (hrec : RecNull rec) (path : Path) (ty : Ty) (fields : List Sel)
    (items : List RV) (hclean : RV.noSkipL items = true) (st : St) :
    NullOut path st (completeList rec path ty fields items st) ∧ (completeList rec path ty fields items st).1 ≠ .ok none := by
  unfold completeList
  split
  · exact ⟨null_error_push path st, by simp⟩
  · next inner _ =>
    obtain ⟨new, hext, hne, hv⟩ := completeItems_null rec hrec path ty inner fields items 0 [] st rfl hclean
    exact ⟨⟨new, hext, fun h => absurd h hne, fun v h => (hv v h).2⟩, hne⟩

theorem execField_null (rec : Rec) (hrec : RecNull rec) (env : Env) (hw : WorldClean env.world) (path : Path)
    (objTy : String) (objId : Nat) (fdef : FieldDef) (fields : List Sel) (st : St) :
    NullOut path st (execField rec env path objTy objId fdef fields st) := by
  unfold execField
  split
  · exact ⟨[], ext_refl path st, (fun _ => rfl), (by intro v h; cases h)⟩
  · next f0 tl =>
    split
    · split
      · exact null_error_push path st
      · exact ⟨[path], ext_push path st, (by intro h; cases h), fun v h p _ => by cases h; exact leads_null_self _⟩
    · next args _ =>
      simp only
      split
      · exact null_tryNullify (null_error_push path st)
      · next rv hres =>
        have hclean : rv.itemsClean = true := by
          by_cases hn : f0.fname = "__typename"
          · simp only [hn, if_true, Option.some.injEq] at hres
            subst hres; rfl
          · simp only [hn, if_false] at hres
            cases hg : env.world.get? objId f0.fname with
            | none => simp [hg] at hres
            | some w =>
              have hwc := world_get_clean _ _ _ _ hw hg
              cases w <;> simp [hg] at hres <;> (try subst hres) <;> first | rfl | exact hwc
        have := (hrec path fdef.ty rv (f0 :: tl) st hclean).1
        generalize rec path fdef.ty rv (f0 :: tl) st = res at *
        obtain ⟨r, st1⟩ := res
        exact null_tryNullify this

/-! ### the grouped field set has distinct response keys -/

def keysOf (g : AList (List Sel)) : List String := g.map (·.1)

theorem mem_keys_pushGroup : ∀ (g : AList (List Sel)) (k : String) (s : Sel) (x : String),
    x ∈ keysOf (pushGroup g k s) → x ∈ keysOf g ∨ x = k := by
  intro g
  induction g with
  | nil => intro k s x h; simp [pushGroup, keysOf] at h; exact Or.inr h
  | cons hd tl ih =>
    intro k s x h
    obtain ⟨k', fs⟩ := hd
    simp only [pushGroup] at h
    split at h
    · left; simpa [keysOf] using h
    · simp only [keysOf, List.map_cons, List.mem_cons] at h ⊢
      rcases h with h | h
      · exact Or.inl (Or.inl h)
      · rcases ih k s x h with h | h
        · exact Or.inl (Or.inr h)
        · exact Or.inr h

theorem pushGroup_keys_nodup : ∀ (g : AList (List Sel)) (k : String) (s : Sel),
    (keysOf g).Nodup → (keysOf (pushGroup g k s)).Nodup := by
  intro g
  induction g with
  | nil => intro k s _; simp [pushGroup, keysOf]
  | cons hd tl ih =>
    intro k s h
    obtain ⟨k', fs⟩ := hd
    simp only [keysOf, List.map_cons, List.nodup_cons] at h
    simp only [pushGroup]
    split
    · simpa [keysOf] using h
    · next hne =>
      simp only [keysOf, List.map_cons, List.nodup_cons]
      refine ⟨?_, ih k s h.2⟩
      intro hm
      rcases mem_keys_pushGroup tl k s k' hm with hm | hm
      · exact h.1 hm
      · exact hne hm

theorem collect_keys_nodup (env : Env) (objTy : String) : ∀ n sels visited groups v g,
    collectFields env objTy n sels visited groups = some (v, g) → (keysOf groups).Nodup → (keysOf g).Nodup := by
  intro n
  induction n with
  | zero => intro sels visited groups v g h; simp [collectFields] at h
  | succ n ih =>
    intro sels visited groups v g h hnd
    cases sels with
    | nil => simp only [collectFields, Option.some.injEq, Prod.mk.injEq] at h; rw [← h.2]; exact hnd
    | cons sel rest =>
      simp only [collectFields] at h
      split at h
      · exact ih rest visited groups v g h hnd
      · cases sel with
        | field a nm args dirs sub =>
          exact ih rest visited _ v g h (pushGroup_keys_nodup groups _ _ hnd)
        | spread name dirs =>
          simp only at h
          split at h
          · exact ih rest visited groups v g h hnd
          · split at h
            · exact ih rest _ groups v g h hnd
            · split at h
              · exact ih rest _ groups v g h hnd
              · next frag _ _ =>
                cases hb : collectFields env objTy n frag.sub (name :: visited) groups with
                | none => simp [hb] at h
                | some vg =>
                  obtain ⟨v1, g1⟩ := vg
                  simp only [hb] at h
                  exact ih rest v1 g1 v g h (ih frag.sub _ groups v1 g1 hb hnd)
        | inline cond dirs sub =>
          simp only at h
          have key : ∀ b : Bool,
              (if (!b) = true then collectFields env objTy n rest visited groups
               else
                 match collectFields env objTy n sub visited groups with
                 | none => none
                 | some (visited, groups) => collectFields env objTy n rest visited groups) = some (v, g) →
              (keysOf g).Nodup := by
            intro b hb
            cases b with
            | false => simp only [Bool.not_false, if_true] at hb; exact ih rest visited groups v g hb hnd
            | true =>
              simp only [Bool.not_true, Bool.false_eq_true, if_false] at hb
              cases hc : collectFields env objTy n sub visited groups with
              | none => simp [hc] at hb
              | some vg =>
                obtain ⟨v1, g1⟩ := vg
                simp only [hc] at hb
                exact ih rest v1 g1 v g hb (ih sub _ groups v1 g1 hc hnd)
          cases cond with
          | none => exact key true h
          | some c => exact key (fragmentApplies env.schema objTy c) h

/-! ### `IndexMap::insert` of a fresh key -/

theorem get_insert_self : ∀ (m : AList Json) (k : String) (v : Json), AList.get? (AList.insert m k v) k = some v := by
  intro m
  induction m with
  | nil => intro k v; simp [AList.insert, AList.get?]
  | cons e rest ih =>
    intro k v
    obtain ⟨k', v'⟩ := e
    simp only [AList.insert]
    split
    · next h => simp [AList.get?, h]
    · next h => simp [AList.get?, h, ih]

theorem get_insert_other : ∀ (m : AList Json) (k k0 : String) (v : Json), k0 ≠ k →
    AList.get? (AList.insert m k v) k0 = AList.get? m k0 := by
  intro m
  induction m with
  | nil => intro k k0 v h; simp [AList.insert, AList.get?, Ne.symm h]
  | cons e rest ih =>
    intro k k0 v h
    obtain ⟨k', v'⟩ := e
    simp only [AList.insert]
    split
    · next hk => subst hk; simp [AList.get?, Ne.symm h]
    · simp only [AList.get?]
      split
      · rfl
      · exact ih k k0 v h

/-- the loop over the grouped field set: the map keeps what it had, and every new error leads to a null in it -/
theorem execGroups_null (rec : Rec) (hrec : RecNull rec) (env : Env) (hw : WorldClean env.world) (path : Path)
    (objTy : String) (objId : Nat) :
    ∀ groups acc st, (keysOf groups).Nodup → (∀ k, k ∈ keysOf groups → AList.get? acc k = none) →
      ∃ new, Ext path st (execGroups rec env path objTy objId groups acc st).2 new ∧
        ∀ m, (execGroups rec env path objTy objId groups acc st).1 = .ok m →
          (∀ k v, AList.get? acc k = some v → AList.get? m k = some v) ∧
          ∀ p, p ∈ new → LeadsNull (.obj m) (p.drop path.length) := by
  intro groups
  induction groups with
  | nil =>
    intro acc st _ _
    simp only [execGroups]
    exact ⟨[], ext_refl path st, fun m h => by cases h; exact ⟨fun _ _ h => h, fun p hp => by cases hp⟩⟩
  | cons gr rest ih =>
    intro acc st hnd hfresh
    obtain ⟨key, fields⟩ := gr
    simp only [keysOf, List.map_cons, List.nodup_cons] at hnd
    have hfresh_rest : ∀ k, k ∈ keysOf rest → AList.get? acc k = none :=
      fun k hk => hfresh k (by simp [keysOf] at hk ⊢; exact Or.inr hk)
    simp only [execGroups]
    split
    · exact ih acc st hnd.2 hfresh_rest
    · next f0 tl =>
      split
      · exact ih acc st hnd.2 hfresh_rest
      · next fdef _ =>
        obtain ⟨n1, hext1, hnone1, hv1⟩ := execField_null rec hrec env hw (path ++ [.key key]) objTy objId fdef (f0 :: tl) st
        generalize execField rec env (path ++ [.key key]) objTy objId fdef (f0 :: tl) st = res at *
        obtain ⟨r, st1⟩ := res
        have hext1' : Ext path st st1 n1 := ext_weaken hext1
        cases r with
        | error e => exact ⟨n1, hext1', fun m h => by cases h⟩
        | ok o =>
          cases o with
          | none =>
            have hn1 : n1 = [] := hnone1 rfl
            obtain ⟨n2, h2, hm2⟩ := ih acc st1 hnd.2 hfresh_rest
            refine ⟨n1 ++ n2, ext_trans hext1' h2, ?_⟩
            intro m hm
            obtain ⟨hkeep, hl⟩ := hm2 m hm
            refine ⟨hkeep, ?_⟩
            intro p hp
            rw [hn1] at hp
            exact hl p (by simpa using hp)
          | some v =>
            have hkey_fresh : AList.get? acc key = none := hfresh key (by simp [keysOf])
            obtain ⟨n2, h2, hm2⟩ := ih (AList.insert acc key v) st1 hnd.2 (by
              intro k hk
              have hne : k ≠ key := fun e => hnd.1 (e ▸ hk)
              rw [get_insert_other acc key k v hne]
              exact hfresh_rest k hk)
            refine ⟨n1 ++ n2, ext_trans hext1' h2, ?_⟩
            intro m hm
            obtain ⟨hkeep, hl⟩ := hm2 m hm
            refine ⟨?_, ?_⟩
            · intro k v0 hk
              apply hkeep
              have hne : k ≠ key := by
                intro e; rw [e, hkey_fresh] at hk; cases hk
              rw [get_insert_other acc key k v hne]; exact hk
            · intro p hp
              rcases List.mem_append.mp hp with hp | hp
              · rw [drop_seg (hext1.2 p hp)]
                exact leads_obj (hkeep key v (get_insert_self acc key v)) (hv1 v rfl p hp)
              · exact hl p hp

theorem execSelSet_null (rec : Rec) (hrec : RecNull rec) (env : Env) (hw : WorldClean env.world) (path : Path)
    (objTy : String) (objId : Nat) (sels : List Sel) (st : St) :
    ∃ new, Ext path st (execSelSet rec env path objTy objId sels st).2 new ∧
      ∀ m, (execSelSet rec env path objTy objId sels st).1 = .ok m → ∀ p, p ∈ new → LeadsNull (.obj m) (p.drop path.length) := by
  unfold execSelSet
  split
  · exact ⟨[], ext_refl path st, fun m h => by cases h⟩
  · next v g hc =>
    have hnd := collect_keys_nodup env objTy env.cfuel sels [] [] v g hc (by simp [keysOf])
    obtain ⟨new, hext, hm⟩ := execGroups_null rec hrec env hw path objTy objId g [] st hnd (by intro k _; rfl)
    exact ⟨new, hext, fun m h => (hm m h).2⟩

theorem completeValue_null (env : Env) (hw : WorldClean env.world) : ∀ n, RecNull (completeValue env n) := by
  intro n
  induction n with
  | zero =>
    intro path ty rv fields st _
    exact ⟨⟨[], ext_refl path st, (by intro h; cases h), (by intro v h; cases h)⟩, by simp [completeValue]⟩
  | succ n ih =>
    intro path ty rv fields st hclean
    have herr : NullOut path st (.error .propagate, st.push path) ∧
        (rv ≠ .skip → ((Except.error Fail.propagate : Out), st.push path).1 ≠ .ok none) :=
      ⟨null_error_push path st, fun _ => by simp⟩
    unfold completeValue
    split
    · exact ⟨⟨[], ext_refl path st, (fun _ => rfl), (by intro v h; cases h)⟩, fun h => absurd rfl h⟩
    · split
      · exact herr
      · exact ⟨⟨[], ext_refl path st, (by intro h; cases h), (by intro v _ p hp; cases hp)⟩, fun _ => by simp⟩
    · next items =>
      have := completeList_null _ ih path ty fields items (by simpa [RV.itemsClean] using hclean) st
      exact ⟨this.1, fun _ => this.2⟩
    · exact herr
    · exact herr
    · next rv' hskip hnull hlist herr' hecho =>
      split
      · exact herr
      · next tyName _ =>
        split
        · exact herr
        · exact herr
        · next k _ _ =>
          split
          · next j =>
            have := completeLeaf_null path tyName k j st
            exact ⟨this.1, fun _ => this.2⟩
          · next resolvedTy id =>
            split
            · obtain ⟨n1, hext1, hm1⟩ := execSelSet_null _ ih env hw path resolvedTy id (subSelections fields) st
              generalize execSelSet (completeValue env n) env path resolvedTy id (subSelections fields) st = res at *
              obtain ⟨r, st1⟩ := res
              cases r with
              | ok m =>
                exact ⟨⟨n1, hext1, (by intro h; cases h), fun v h p hp => by cases h; exact hm1 m rfl p hp⟩, fun _ => by simp⟩
              | error e => exact ⟨⟨n1, hext1, (by intro h; cases h), (by intro v h; cases h)⟩, fun _ => by simp⟩
            · exact herr
          · exact herr

/-- **Every error path leads to a null in `data`.**  For every response of the executor model (any schema,
    operation, variables, fuel; any world that does not put `skip` inside a list): either `data` is null, or
    walking `data` along the error's path reaches `null` at the path or at a prefix of it. -/
theorem execute_error_paths_lead_to_null (fuel : Nat) (env : Env) (hw : WorldClean env.world) (sels : List Sel)
    (r : Response) (h : execute fuel env sels = .response r) :
    ∀ p, p ∈ r.errors → match r.data with
      | none => True
      | some m => LeadsNull (.obj m) p := by
  unfold execute at h
  obtain ⟨new, hext, hm⟩ := execSelSet_null _ (completeValue_null env hw fuel) env hw [] env.schema.query 0 sels { errors := [] }
  generalize execSelSet (completeValue env fuel) env [] env.schema.query 0 sels { errors := [] } = res at *
  obtain ⟨x, st1⟩ := res
  cases x with
  | ok m =>
    simp only [Outcome.response.injEq] at h
    subst h
    intro p hp
    have hnew : st1.errors = new := by simpa using hext.1
    simp only
    have := hm m rfl p (by rw [← hnew]; exact hp)
    simpa using this
  | error e =>
    cases e with
    | propagate =>
      simp only [Outcome.response.injEq] at h
      subst h
      intro p _
      trivial
    | fuel => cases h

end Apollo.Exec
