import ApolloModel.Proofs.SchemaValidation
/-
C14 growth: completeness of the directive self-reference search (`FindRecursiveDirective`, two
stacks), its fuel sufficiency and the absence of `limit` answers on schemas with at most `limit`
directive definitions and types.  Same plan as the input-object search: loop removal to a simple path
of items, then induction along the path with the stacks generalised.
-/
namespace Apollo.SchemaValidation
open Apollo.SchemaValidation.Spec

/-- `x → ps₀ → … → z`, all of `x :: ps` before the final step into `z` -/
def DPath (s : DSchema) (z : Item) : List Item → Item → Prop
  | [], x => DStep s x z
  | y :: ps, x => DStep s x y ∧ DPath s z ps y

theorem dpath_suffix (s : DSchema) (z : Item) : ∀ (l1 : List Item) (u x : Item) (l2 : List Item),
    DPath s z (l1 ++ x :: l2) u → DPath s z l2 x := by
  intro l1
  induction l1 with
  | nil => intro u x l2 h; exact h.2
  | cons y l1 ih => intro u x l2 h; exact ih y x l2 h.2

/-- loop removal on the item graph -/
theorem dreach_simple_path (s : DSchema) {x z : Item} (h : DReach s x z) (hne : x ≠ z) :
    ∃ ps, DPath s z ps x ∧ (x :: ps).Nodup ∧ z ∉ x :: ps := by
  induction h with
  | refl => exact absurd rfl hne
  | @step x y z st _ ih =>
    by_cases hyz : y = z
    · subst hyz
      exact ⟨[], st, by simp, by simpa using fun h => hne h.symm⟩
    · obtain ⟨ps, hp, hnd, hz⟩ := ih hyz
      by_cases hxy : x = y
      · subst hxy; exact ⟨ps, hp, hnd, hz⟩
      · by_cases hx : x ∈ ps
        · obtain ⟨l1, l2, rfl⟩ := List.append_of_mem hx
          refine ⟨l2, dpath_suffix s z l1 y x l2 hp, ?_, ?_⟩
          · have := (List.nodup_cons.mp hnd).2
            exact (List.nodup_append.mp this).2.1
          · intro hmem
            apply hz
            rcases List.mem_cons.mp hmem with h | h
            · exact List.mem_cons_of_mem _ (by simp [h])
            · exact List.mem_cons_of_mem _ (by simp [h])
        · refine ⟨y :: ps, ⟨st, hp⟩, ?_, ?_⟩
          · rw [List.nodup_cons]
            refine ⟨?_, hnd⟩
            intro hmem
            rcases List.mem_cons.mp hmem with h | h
            · exact hxy h
            · exact hx h
          · intro hmem
            rcases List.mem_cons.mp hmem with h | h
            · exact hne h.symm
            · exact hz h

/-- an item the two stacks do not make the search skip -/
def Free (dg tg : List Nat) : Item → Prop
  | .dir e => e ∉ dg
  | .ty k => k ∉ tg
  | .arg _ => True

/-- the stacks below item `x` -/
def pushD (dg : List Nat) : Item → List Nat
  | .dir e => dg ++ [e]
  | _ => dg

def pushT (tg : List Nat) : Item → List Nat
  | .ty k => tg ++ [k]
  | _ => tg

theorem free_push {dg tg : List Nat} {x it : Item} (h : Free dg tg it) (hne : it ≠ x) :
    Free (pushD dg x) (pushT tg x) it := by
  cases it with
  | arg a => trivial
  | dir e =>
    cases x with
    | dir e' =>
      simp only [Free, pushD, pushT, List.mem_append, List.mem_singleton, not_or] at *
      exact ⟨h, fun he => hne (by rw [he])⟩
    | arg _ => exact h
    | ty _ => exact h
  | ty k =>
    cases x with
    | ty k' =>
      simp only [Free, pushD, pushT, List.mem_append, List.mem_singleton, not_or] at *
      exact ⟨h, fun he => hne (by rw [he])⟩
    | arg _ => exact h
    | dir _ => exact h

theorem pushD_head {dg : List Nat} {r : Nat} (h : dg.head? = some r) (x : Item) : (pushD dg x).head? = some r := by
  cases x <;> simp only [pushD] <;> first | exact h | exact head?_append_of_head? h

/-- one step of the search: if the child cannot be accepted below `x`, neither can `x` -/
theorem walk_step_ne_ok (s : DSchema) (limit : Nat) {x y : Item} (st : DStep s x y) (fuel : Nat)
    (dg tg : List Nat) (hfree : Free dg tg x)
    (hchild : ∀ fuel', walk s limit fuel' (pushD dg x) (pushT tg x) y ≠ .ok) :
    walk s limit fuel dg tg x ≠ .ok := by
  cases fuel with
  | zero => simp [walk]
  | succ fuel =>
    cases st with
    | @dirArg d args a hd ha =>
      have hc : dg.contains d = false := by simpa [Free] using hfree
      simp only [walk, hc, Bool.not_false, if_true, hd]
      by_cases hlim : dg.length + 1 > limit
      · simp [hlim]
      · simp only [hlim, if_false]
        exact firstErr_ne_ok_of_mem (List.mem_map.mpr ⟨a, ha, rfl⟩) (hchild fuel)
    | @argDir a d hd =>
      simp only [walk]
      have h1 : firstErr (walk s limit fuel dg tg) (a.dirs.map Item.dir) ≠ .ok :=
        firstErr_ne_ok_of_mem (List.mem_map.mpr ⟨d, hd, rfl⟩) (hchild fuel)
      cases hf : firstErr (walk s limit fuel dg tg) (a.dirs.map Item.dir) with
      | ok => exact absurd hf h1
      | recursed => simp
      | limit => simp
      | outOfFuel => simp
    | @argTy a k hty hk =>
      simp only [walk]
      cases hf : firstErr (walk s limit fuel dg tg) (a.dirs.map Item.dir) with
      | ok => simp only [hty, hk, if_true]; exact hchild fuel
      | recursed => simp
      | limit => simp
      | outOfFuel => simp
    | @tyItem k t y ht hy =>
      have hc : tg.contains k = false := by simpa [Free] using hfree
      simp only [walk, hc, Bool.false_eq_true, if_false, ht]
      by_cases hlim : tg.length + 1 > limit
      · simp [hlim]
      · simp only [hlim, if_false]
        exact firstErr_ne_ok_of_mem hy (hchild fuel)

/-- reaching the root directive again is never accepted -/
theorem walk_root_ne_ok (s : DSchema) (limit fuel : Nat) (dg tg : List Nat) (r : Nat)
    (hhead : dg.head? = some r) : walk s limit fuel dg tg (.dir r) ≠ .ok := by
  cases fuel with
  | zero => simp [walk]
  | succ fuel =>
    have hmem : r ∈ dg := by
      cases dg with
      | nil => simp at hhead
      | cons a t => simp at hhead; simp [hhead]
    simp [walk, hmem, hhead]

/-- completeness along a simple path of items that the stacks do not block -/
theorem walk_complete_path (s : DSchema) (limit r : Nat) :
    ∀ (ps : List Item) (x : Item) (fuel : Nat) (dg tg : List Nat),
      dg.head? = some r → DPath s (.dir r) ps x → (∀ it ∈ x :: ps, Free dg tg it) → (x :: ps).Nodup →
      walk s limit fuel dg tg x ≠ .ok := by
  intro ps
  induction ps with
  | nil =>
    intro x fuel dg tg hhead hp hfree _
    exact walk_step_ne_ok s limit hp fuel dg tg (hfree x List.mem_cons_self)
      (fun fuel' => walk_root_ne_ok s limit fuel' _ _ r (pushD_head hhead x))
  | cons y ps ih =>
    intro x fuel dg tg hhead hp hfree hnd
    obtain ⟨st, hrest⟩ := hp
    have hnd' := List.nodup_cons.mp hnd
    apply walk_step_ne_ok s limit st fuel dg tg (hfree x List.mem_cons_self)
    intro fuel'
    apply ih y fuel' _ _ (pushD_head hhead x) hrest _ hnd'.2
    intro it hit
    apply free_push (hfree it (List.mem_cons_of_mem _ hit))
    intro heq
    exact hnd'.1 (heq ▸ hit)

/-- Completeness of `FindRecursiveDirective::check`: a self-referential directive is never accepted. -/
theorem checkDirective_complete (s : DSchema) (limit d : Nat) (h : DirectiveSelfReference s d) :
    checkDirective s limit d ≠ .ok := by
  obtain ⟨args, a, hd, ha, hreach⟩ := h
  obtain ⟨ps, hp, hnd, hz⟩ := dreach_simple_path s hreach (by simp)
  unfold checkDirective
  have hargs : s.dirs.getD d [] = args := by simp [List.getD, hd]
  rw [hargs]
  apply firstErr_ne_ok_of_mem (List.mem_map.mpr ⟨a, ha, rfl⟩)
  apply walk_complete_path s limit d ps (.arg a) _ [d] [] rfl hp _ hnd
  intro it hit
  cases it with
  | arg _ => trivial
  | ty k => simp [Free]
  | dir e =>
    simp only [Free, List.mem_singleton]
    intro he
    exact hz (he ▸ hit)

/-! ### fuel and limit -/

def isArg : Item → Nat
  | .arg _ => 1
  | _ => 0

/-- fuel needed below a call -/
def need (limit : Nat) (dg tg : List Nat) (x : Item) : Nat :=
  2 * (limit + 1 - dg.length) + 2 * (limit + 1 - tg.length) + isArg x + 1

theorem walk_fuel (s : DSchema) (limit : Nat) :
    ∀ (fuel : Nat) (dg tg : List Nat) (x : Item), need limit dg tg x ≤ fuel →
      walk s limit fuel dg tg x ≠ .outOfFuel := by
  intro fuel
  induction fuel with
  | zero => intro dg tg x h; simp [need] at h
  | succ fuel ih =>
    intro dg tg x hneed h
    cases x with
    | dir d =>
      simp only [walk] at h
      by_cases hc : dg.contains d = true
      · simp only [hc, Bool.not_true, Bool.false_eq_true, if_false] at h
        by_cases hh : (dg.head? == some d) = true <;> simp [hh] at h
      · simp only [hc, Bool.not_false, if_true] at h
        cases hd : s.dirs[d]? with
        | none => simp [hd] at h
        | some args =>
          simp only [hd] at h
          by_cases hlim : dg.length + 1 > limit
          · simp [hlim] at h
          · simp only [hlim, if_false] at h
            obtain ⟨y, hy, hwy⟩ := firstErr_err (by decide) h
            obtain ⟨a, _, rfl⟩ := List.mem_map.mp hy
            refine ih _ _ _ ?_ hwy
            simp only [need, isArg, List.length_append, List.length_singleton] at *
            omega
    | arg a =>
      simp only [walk] at h
      cases hf : firstErr (walk s limit fuel dg tg) (a.dirs.map Item.dir) with
      | ok =>
        simp only [hf] at h
        cases hty : a.ty with
        | none => simp [hty] at h
        | some k =>
          simp only [hty] at h
          by_cases hk : k < s.types.length
          · simp only [hk, if_true] at h
            refine ih _ _ _ ?_ h
            simp only [need, isArg] at *; omega
          · simp [hk] at h
      | outOfFuel =>
        obtain ⟨y, hy, hwy⟩ := firstErr_err (by decide) hf
        obtain ⟨e, _, rfl⟩ := List.mem_map.mp hy
        refine ih _ _ _ ?_ hwy
        simp only [need, isArg] at *; omega
      | recursed => simp [hf] at h
      | limit => simp [hf] at h
    | ty k =>
      simp only [walk] at h
      by_cases hc : tg.contains k = true
      · rw [if_pos hc] at h; cases h
      · rw [if_neg hc] at h
        cases ht : s.types[k]? with
        | none => simp [ht] at h
        | some t =>
          simp only [ht] at h
          by_cases hlim : tg.length + 1 > limit
          · simp [hlim] at h
          · simp only [hlim, if_false] at h
            obtain ⟨y, _, hwy⟩ := firstErr_err (by decide) h
            refine ih _ _ _ ?_ hwy
            have : isArg y ≤ 1 := by cases y <;> simp [isArg]
            simp only [need, isArg, List.length_append, List.length_singleton] at *
            omega

theorem nodup_append_singleton {l : List Nat} {x : Nat} (h : l.Nodup) (hx : x ∉ l) : (l ++ [x]).Nodup := by
  rw [List.nodup_append]
  refine ⟨h, by simp, ?_⟩
  intro a ha b hb hab
  have : b = x := by simpa using hb
  exact hx (this ▸ hab ▸ ha)

theorem bounded_append_singleton {l : List Nat} {x n : Nat} (h : ∀ y ∈ l, y < n) (hx : x < n) :
    ∀ y ∈ l ++ [x], y < n := by
  intro y hy
  rcases List.mem_append.mp hy with hy | hy
  · exact h y hy
  · have : y = x := by simpa using hy
    exact this ▸ hx

/-- with at most `limit` directive definitions and at most `limit` types neither stack overflows -/
theorem walk_no_limit (s : DSchema) (limit : Nat) (hd : s.dirs.length ≤ limit) (ht : s.types.length ≤ limit) :
    ∀ (fuel : Nat) (dg tg : List Nat) (x : Item),
      dg.Nodup → (∀ e ∈ dg, e < s.dirs.length) → tg.Nodup → (∀ k ∈ tg, k < s.types.length) →
      walk s limit fuel dg tg x ≠ .limit := by
  intro fuel
  induction fuel with
  | zero => intro dg tg x _ _ _ _; simp [walk]
  | succ fuel ih =>
    intro dg tg x hdn hdb htn htb h
    cases x with
    | dir d =>
      simp only [walk] at h
      by_cases hc : dg.contains d = true
      · simp only [hc, Bool.not_true, Bool.false_eq_true, if_false] at h
        by_cases hh : (dg.head? == some d) = true <;> simp [hh] at h
      · simp only [hc, Bool.not_false, if_true] at h
        cases hdd : s.dirs[d]? with
        | none => simp [hdd] at h
        | some args =>
          simp only [hdd] at h
          have hlt : d < s.dirs.length := by
            by_cases hl : d < s.dirs.length
            · exact hl
            · rw [List.getElem?_eq_none (Nat.le_of_not_lt hl)] at hdd; cases hdd
          have hnotin : d ∉ dg := by simpa using hc
          have hdn' := nodup_append_singleton hdn hnotin
          have hdb' := bounded_append_singleton hdb hlt
          by_cases hlim : dg.length + 1 > limit
          · have := nodup_bounded_length s.dirs.length _ hdn' hdb'
            simp at this; omega
          · simp only [hlim, if_false] at h
            obtain ⟨y, _, hwy⟩ := firstErr_err (by decide) h
            exact ih _ _ _ hdn' hdb' htn htb hwy
    | arg a =>
      simp only [walk] at h
      cases hf : firstErr (walk s limit fuel dg tg) (a.dirs.map Item.dir) with
      | ok =>
        simp only [hf] at h
        cases hty : a.ty with
        | none => simp [hty] at h
        | some k =>
          simp only [hty] at h
          by_cases hk : k < s.types.length
          · simp only [hk, if_true] at h
            exact ih _ _ _ hdn hdb htn htb h
          · simp [hk] at h
      | limit =>
        obtain ⟨y, _, hwy⟩ := firstErr_err (by decide) hf
        exact ih _ _ _ hdn hdb htn htb hwy
      | recursed => simp [hf] at h
      | outOfFuel => simp [hf] at h
    | ty k =>
      simp only [walk] at h
      by_cases hc : tg.contains k = true
      · rw [if_pos hc] at h; cases h
      · rw [if_neg hc] at h
        cases htt : s.types[k]? with
        | none => simp [htt] at h
        | some t =>
          simp only [htt] at h
          have hlt : k < s.types.length := by
            by_cases hl : k < s.types.length
            · exact hl
            · rw [List.getElem?_eq_none (Nat.le_of_not_lt hl)] at htt; cases htt
          have hnotin : k ∉ tg := by simpa using hc
          have htn' := nodup_append_singleton htn hnotin
          have htb' := bounded_append_singleton htb hlt
          by_cases hlim : tg.length + 1 > limit
          · have := nodup_bounded_length s.types.length _ htn' htb'
            simp at this; omega
          · simp only [hlim, if_false] at h
            obtain ⟨y, _, hwy⟩ := firstErr_err (by decide) h
            exact ih _ _ _ hdn hdb htn' htb' hwy

end Apollo.SchemaValidation
