import ApolloModel.Proofs.ParserDef9
/-
C05 growth (type-system definitions), part 10: the lexer fact about token queues (`LexQ`) threaded through
the acceptance calculus, and `parse_separated_list` with its optional leading separator.
-/
set_option linter.unusedSimpArgs false
namespace Apollo.Parse
open Apollo.Rowan hiding Str
open Apollo.Lex hiding Str

/-- the lexer fact the keyword look-aheads rely on: a token of the queue whose text starts like a Name
    (letter or `_`) IS a Name token. (`peek_data() == "scalar"` inspects the text only.) -/
def LexQ (q : List Tok) : Prop := ∀ t ∈ q, ∀ c r, t.data = c :: r → isNameStart c = true → t.kind = .name

theorem LexQ.suffix {cs q : List Tok} (h : LexQ (cs ++ q)) : LexQ q := fun t ht => h t (List.mem_append_right _ ht)

theorem LexQ.headKw {q : List Tok} {t : Tok} (h : LexQ q) (hh : q.head? = some t) (word : String) (c : Char) (r : Str)
    (hw : word.toList = c :: r) (hc : isNameStart c = true) (hd : t.data = word.toList) : t.kind = .name := by
  cases q with
  | nil => cases hh
  | cons a b =>
    simp only [List.head?_cons, Option.some.injEq] at hh
    subst hh
    exact h a (by simp) c r (by rw [hd, hw]) hc

/-- `bind` whose continuation keeps the lexer fact -/
theorem accL_bind {α β : Type} {E : PState → Prop} (hE : Early E) {H : List Tok → Prop} {m : PI α} {f : α → PI β}
    {R1 : α → List Ast.Tok → Prop} {R2 : α → β → List Ast.Tok → Prop}
    (hH : ∀ q, H q → LexQ q) (h1 : Acc E H m R1) (h2 : ∀ a, Acc E LexQ (f a) (R2 a)) :
    Acc E H (m >>= f) (fun b x => ∃ a x1 x2, x = x1 ++ x2 ∧ R1 a x1 ∧ R2 a b x2) := by
  refine ⟨good_bind _ _ h1.1 (fun a => (h2 a).1), ?_⟩
  intro s b s'' w he hq hr hnd
  obtain ⟨a, s', hr1, hr2⟩ := bind_dec m f s s'' b hr
  have ad := h1.1 s a s' w hr1
  have hnd' : ¬ Doomed s' := fun d => hnd (((h2 a).1 s' b s'' ad.w hr2).doom d)
  obtain ⟨c1, t1, n1, e1, r1⟩ := h1.2 s a s' w he hq hr1 hnd'
  have hl' : LexQ (Toks s') := by have := hH _ hq; rw [t1] at this; exact this.suffix
  obtain ⟨c2, t2, n2, e2, r2⟩ := (h2 a).2 s' b s'' ad.w e1 hl' hr2 hnd
  refine ⟨c1 ++ c2, by rw [t1, t2, List.append_assoc], noEof_append n1 n2, e2, ?_⟩
  rcases r1 with ⟨x1, hx1, hr1'⟩ | ev
  · rcases r2 with ⟨x2, hx2, hr2'⟩ | ev2
    · refine Or.inl ⟨x1 ++ x2, ?_, a, x1, x2, rfl, hr1', hr2'⟩
      rw [sig_append]; exact hx1.append hx2
    · exact Or.inr ev2
  · exact Or.inr (hE.carries s' s'' c2 e1 hnd' ev t2 n2)

/-- in a run without error the queue is never empty (the end-of-input token stays) -/
theorem acc_nonempty {α : Type} {E : PState → Prop} {H : List Tok → Prop} {m : PI α} {R : α → List Ast.Tok → Prop}
    (h : Acc E (fun q => H q ∧ q ≠ []) m R) : Acc E H m R := by
  refine ⟨h.1, ?_⟩
  intro s a s' w he hq hr hnd
  have hnds : ¬ Doomed s := fun dd => hnd ((h.1 s a s' w hr).doom dd)
  exact h.2 s a s' w he ⟨hq, eofEnd_nonempty s he hnds⟩ hr hnd

theorem accL_withNodeAny {α : Type} {E : PState → Prop} (hE : Early E) (K : SK) {body : PI α}
    {R : α → List Ast.Tok → Prop} (h : Acc E LexQ body R) : Acc E LexQ (withNode K body) R := by
  refine ⟨good_withNode K body h.1, ?_⟩
  intro s a s' w he hl hr hnd
  obtain ⟨s0, s2, o0, hr0, o2⟩ := withNode_dec K body s s' a hr
  obtain ⟨_, s1, hs, hb⟩ := bind_dec skipIgnored _ s0 s2 a hr0
  obtain ⟨ign, e, hall, _⟩ := skipIgnored_spec s0 s1 (o0.w w) hs
  have e01 : Eat s s1 ign := by simpa using (Eat.ofObsEq o0 w).trans e
  have he1 : EofEnd s1 := eofEnd_eat he e01 (noEof_ignored ign hall)
  have hnd2 : ¬ Doomed s2 := fun d => hnd (o2.doomed.mpr d)
  have hl1 : LexQ (Toks s1) := by have := hl; rw [e01.toks] at this; exact this.suffix
  obtain ⟨cs, a1, a2, a3, a4⟩ := h.2 s1 a s2 e01.w he1 hl1 hb hnd2
  refine ⟨ign ++ cs, by rw [e01.toks, a1, o2.toks, List.append_assoc], noEof_append (noEof_ignored ign hall) a2,
    eofEnd_same _ _ a3 o2.current o2.lx o2.errors, ?_⟩
  rcases a4 with ⟨x, hx, hr'⟩ | h4
  · exact Or.inl ⟨x, by rw [sig_append, sig_ignored ign hall]; simpa using hx, hr'⟩
  · exact Or.inr (hE.toks s2 s' o2.toks h4)

/-- `optKind` with the lexer fact kept for `rest` -/
theorem accL_optKind {α : Type} {E : PState → Prop} (hE : Early E) (k0 : Kind) (m : PI Unit)
    (rest : PI α) (Lm : List Ast.Tok → Prop) (R : α → List Ast.Tok → Prop)
    (hm : Acc E (KindP (· == k0)) m (fun _ => Lm)) (hr : Acc E LexQ rest R) :
    Acc E LexQ (optKind k0 m rest) (fun a x => ∃ x1 x2, x = x1 ++ x2 ∧ (Lm x1 ∨ x1 = []) ∧ R a x2) := by
  unfold optKind
  apply acc_peek
  intro k
  apply acc_ite
  · intro hk
    have := accL_bind hE (H := fun q => LexQ q ∧ q.head?.map (·.kind) = k) (fun _ h => h.1)
      (hm.mono (fun q hq => kindP_of_head hq.2 hk) (fun _ _ h => h)) (fun _ => hr)
    exact this.mono (fun _ h => h) (fun a x ⟨_, x1, x2, e, h1, h2⟩ => ⟨x1, x2, e, Or.inl h1, h2⟩)
  · intro _
    exact hr.mono (fun _ h => h.1) (fun a x h => ⟨[], x, rfl, Or.inr rfl, h⟩)

theorem accL_peekIf {α : Type} {E : PState → Prop} (c : Option Kind → Bool) (a b : PI α)
    (R : α → List Ast.Tok → Prop) (ha : Acc E LexQ a R) (hb : Acc E LexQ b R) :
    Acc E LexQ (peek >>= fun k => if c k then a else b) R := by
  apply acc_peek
  intro k
  apply acc_ite
  · intro _; exact ha.mono (fun _ h => h.1) (fun _ _ h => h)
  · intro _; exact hb.mono (fun _ h => h.1) (fun _ _ h => h)

theorem accL_optDesc {α : Type} {E : PState → Prop} (hE : Early E) (rest : PI α) (R : α → List Ast.Tok → Prop)
    (hr : Acc E LexQ rest R) :
    Acc E LexQ (optKind .stringValue description rest) (fun a x => ∃ d x2, x = Ast.tDescription d ++ x2 ∧ R a x2) := by
  refine (accL_optKind hE .stringValue description rest _ R (acc_description hE) hr).mono (fun _ h => h) ?_
  rintro a x ⟨x1, x2, e, h1, h2⟩
  rcases h1 with ⟨d, hd⟩ | h1
  · exact ⟨some d, x2, by rw [e, hd], h2⟩
  · exact ⟨none, x2, by rw [e, h1]; rfl, h2⟩

theorem accL_optDirs {α : Type} {E : PState → Prop} (hE : Early E) (n : Nat) (rest : PI α) (R : α → List Ast.Tok → Prop)
    (hr : Acc E LexQ rest R) :
    Acc E LexQ (optKind .at (directives n true) rest) (fun a x => ∃ ds x2, x = Ast.tDirectives ds ++ x2 ∧ R a x2) := by
  refine (accL_optKind hE .at (directives n true) rest _ R (acc_directives n true) hr).mono (fun _ h => h) ?_
  rintro a x ⟨x1, x2, e, h1, h2⟩
  rcases h1 with ⟨ds, hd, _⟩ | h1
  · exact ⟨ds, x2, by rw [e, hd], h2⟩
  · exact ⟨[], x2, by rw [e, h1]; rfl, h2⟩

/-- a keyword word: its text starts like a Name -/
def KwWord (word : String) : Prop := ∃ c r, word.toList = c :: r ∧ isNameStart c = true

/-- bumping a token whose text is the keyword `word` (as the look-ahead established), in a lexer queue -/
theorem accL_bumpKw {E : PState → Prop} (word : String) (hw : KwWord word) (sk : SK) :
    Acc E (fun q => LexQ q ∧ ∃ t, q.head? = some t ∧ t.data = word.toList) (bump sk) (fun _ x => x = [.name word.toList]) := by
  obtain ⟨c, r, hw1, hw2⟩ := hw
  refine (acc_bump sk (fun t => t.kind = .name ∧ t.data = word.toList) (fun x => x = [.name word.toList]) ?_).mono ?_ (fun _ _ h => h)
  · rintro t ⟨hk, hd⟩
    exact ⟨by rw [hk]; rfl, by rw [hk]; decide, _, by simp [astOfV, hk, hd], rfl⟩
  · rintro q ⟨hl, t, hh, hd⟩
    exact ⟨t, hh, hl.headKw hh word c r hw1 hw2 hd, hd⟩

/-- `optKw` in a lexer queue: no hypothesis on arbitrary token records any more -/
theorem accL_optKw {α : Type} {E : PState → Prop} (hE : Early E) (word : String) (hw : KwWord word) (sk : SK)
    (rest : PI α) (R : α → List Ast.Tok → Prop) (hr : Acc E LexQ rest R) :
    Acc E LexQ (optKw word sk rest) (fun a x => ∃ seen x2, x = kwPart word seen ++ x2 ∧ R a x2) := by
  unfold optKw
  apply acc_peekData
  intro o
  apply acc_ite
  · intro hk
    have hb : Acc E (fun q => LexQ q ∧ q.head? = o) (bump sk) (fun _ x => x = [.name word.toList]) := by
      refine (accL_bumpKw word hw sk).mono ?_ (fun _ _ h => h)
      intro q ⟨hl, hq⟩
      cases o with
      | none => simp [kwOpt] at hk
      | some t => exact ⟨hl, t, hq, by simpa [kwOpt] using hk⟩
    have := accL_bind hE (fun _ h => h.1) hb (fun _ => hr)
    exact this.mono (fun _ h => h) (fun a x ⟨_, x1, x2, e, h1, h2⟩ => ⟨true, x2, by rw [e, h1]; rfl, h2⟩)
  · intro _
    exact hr.mono (fun _ h => h.1) (fun a x h => ⟨false, x, rfl, h⟩)

/-! ### `parse_separated_list` -/

def sepRest (sep : Kind) (sk : SK) (run : PI Unit) : PI Unit :=
  run >>= fun _ => peekWhileKind sep (bump sk >>= fun _ => run)

theorem parseSeparatedList_eq (sep : Kind) (sk : SK) (run : PI Unit) :
    parseSeparatedList sep sk run = optKind sep (bump sk) (sepRest sep sk run) := rfl

/-- the tokens of a separated list with its optional leading separator -/
def tSepLead (sep : Ast.P) (lead : Bool) (first : Str) (rest : List Str) : List Ast.Tok :=
  (if lead then [.p sep] else []) ++ .name first :: Ast.tSepNames sep rest

theorem flatten_sepItems (psep : Ast.P) (Q : Str → Prop) : ∀ items : List (List Ast.Tok),
    (∀ i ∈ items, ∃ nm, i = [.p psep, .name nm] ∧ Q nm) → ∃ rest, items.flatten = Ast.tSepNames psep rest ∧ ∀ r ∈ rest, Q r
  | [], _ => ⟨[], rfl, by intro r hr; cases hr⟩
  | i :: items, h => by
    obtain ⟨nm, hi, hq⟩ := h i (by simp)
    obtain ⟨rest, hr, hall⟩ := flatten_sepItems psep Q items (fun j hj => h j (by simp [hj]))
    refine ⟨nm :: rest, by simp [hi, hr, Ast.tSepNames], ?_⟩
    intro r hr'
    rcases List.mem_cons.mp hr' with rfl | hr'
    · exact hq
    · exact hall r hr'

/-- **`Parser::parse_separated_list`**: `sep? Name (sep Name)*` — the leading separator is optional. -/
theorem acc_sepList {E : PState → Prop} (hE : Early E) {H : List Tok → Prop} (sep : Kind) (sk : SK) (psep : Ast.P)
    (hx : ∀ t : Tok, t.kind = sep → astOfV t = some (.p psep)) (hni : isIgnoredKind sep = false) (hne : sep ≠ .eof)
    (run : PI Unit) (Q : Str → Prop) (hrun : Acc E (fun _ => True) run (fun _ x => ∃ nm, x = [.name nm] ∧ Q nm)) :
    Acc E H (parseSeparatedList sep sk run)
      (fun _ x => ∃ lead first rest, x = tSepLead psep lead first rest ∧ Q first ∧ ∀ r ∈ rest, Q r) := by
  rw [parseSeparatedList_eq]
  have hitem : Acc E (KindP (· == sep)) (bump sk >>= fun _ => run) (fun _ x => ∃ nm, x = [.p psep, .name nm] ∧ Q nm) := by
    refine (acc_bind hE (acc_bumpKind sep sk (.p psep) hx hni hne) (fun _ => hrun)).mono (fun _ h => h) ?_
    rintro _ x ⟨_, x1, x2, e, h1, nm, h2, hq⟩
    exact ⟨nm, by rw [e, h1, h2]; rfl, hq⟩
  have hrest : Acc E (fun _ => True) (sepRest sep sk run)
      (fun _ x => ∃ first rest, x = .name first :: Ast.tSepNames psep rest ∧ Q first ∧ ∀ r ∈ rest, Q r) := by
    unfold sepRest
    refine (acc_bind hE hrun (fun _ => acc_kindWhile hE sep _ _ hitem)).mono (fun _ h => h) ?_
    rintro _ x ⟨_, x1, x2, e, ⟨nm, h1, hq⟩, items, h2, hall⟩
    obtain ⟨rest, hr, hqr⟩ := flatten_sepItems psep Q items hall
    exact ⟨nm, rest, by rw [e, h1, h2, hr]; rfl, hq, hqr⟩
  refine (acc_optKind hE sep (bump sk) _ (fun x => x = [.p psep]) _ (acc_bumpKind sep sk (.p psep) hx hni hne) hrest).mono
    (fun _ _ => trivial) ?_
  rintro _ x ⟨x1, x2, e, h1, first, rest, h2, hq, hqr⟩
  rcases h1 with h1 | h1
  · exact ⟨true, first, rest, by rw [e, h1, h2]; rfl, hq, hqr⟩
  · exact ⟨false, first, rest, by rw [e, h1, h2]; rfl, hq, hqr⟩

/-- C08's printer never writes the leading separator: `tSepList` is the `lead = false` case -/
theorem tSepList_eq_lead (intro : List Ast.Tok) (sep : Ast.P) (first : Str) (rest : List Str) :
    Ast.tSepList intro sep (first :: rest) = intro ++ tSepLead sep false first rest := by
  simp [Ast.tSepList, tSepLead]

end Apollo.Parse
