import ApolloModel.Proofs.ParserSel9
import ApolloModel.Proofs.ParserType10
/-
C05 / C07 growth (completeness), part 1: spellings and the completeness calculus.

`Spells c x`: the parser tokens `c` spell the grammar tokens `x` — the significant tokens of `c` are exactly
`x`, and `c` does not start with an ignored token (ignored tokens may follow every token).
`Cmp Hk m L F Q`: whenever the queue is `c ++ q0 :: rest` with `c` spelling a sentence `x` of `L` (under the
remaining recursion budget), `q0` significant with a kind allowed by `F`, every completed run of `m`
consumes exactly `c`, records no error, and returns a result satisfying `Q`.
-/
set_option linter.unusedSimpArgs false
namespace Apollo.Parse
open Apollo.Rowan hiding Str
open Apollo.Lex hiding Str

def Spells (c : List Tok) (x : List Ast.Tok) : Prop := TokIs (sig c) x ∧ HeadSig c

def kindOfA : Ast.Tok → Kind
  | .name _ => .name
  | .int _ => .int
  | .float _ => .float
  | .str _ => .stringValue
  | .p .bang => .bang | .p .dollar => .dollar | .p .amp => .amp | .p .spread => .spread | .p .colon => .colon
  | .p .eq => .eq | .p .at => .at | .p .lParen => .lParen | .p .rParen => .rParen | .p .lBracket => .lBracket
  | .p .rBracket => .rBracket | .p .lCurly => .lCurly | .p .rCurly => .rCurly | .p .pipe => .pipe

theorem kind_of_astOfV {t : Tok} {a : Ast.Tok} (h : astOfV t = some a) : t.kind = kindOfA a := by
  unfold astOfV at h
  cases hk : t.kind <;> simp [hk] at h <;> subst h <;> rfl

theorem sigf_of_astOfV {t : Tok} {a : Ast.Tok} (h : astOfV t = some a) : Sigf t := by
  unfold astOfV at h
  unfold Sigf
  cases hk : t.kind <;> simp [hk] at h <;> rfl

theorem spells_nil : Spells [] [] := ⟨TokIs.nil, by intro hd tl h; cases h⟩

theorem spells_nil_inv {c : List Tok} (h : Spells c []) : c = [] := by
  obtain ⟨h1, h2⟩ := h
  have hs : sig c = [] := by
    unfold TokIs at h1
    simpa using h1
  cases c with
  | nil => rfl
  | cons a b =>
    have := h2 a b rfl
    have hi := ign_of_sig_nil _ hs a (by simp)
    unfold Sigf at this
    rw [this] at hi; cases hi

/-- a spelling of `x1 ++ x2` splits into a spelling of `x1` and one of `x2` -/
theorem spells_split {c : List Tok} {x1 x2 : List Ast.Tok} (h : Spells c (x1 ++ x2)) (hne : x2 ≠ []) :
    ∃ c1 c2, c = c1 ++ c2 ∧ Spells c1 x1 ∧ Spells c2 x2 := by
  obtain ⟨h1, h2⟩ := h
  unfold TokIs at h1
  rw [List.map_append] at h1
  obtain ⟨A, B, hAB, hA, hB⟩ := List.map_eq_append_iff.mp h1
  have hBne : B ≠ [] := by
    intro e; subst e
    simp at hB
    exact hne hB
  obtain ⟨c1, c2, e, s1, s2, hh2, hh1⟩ := sig_split c A B hAB hBne
  refine ⟨c1, c2, e, ⟨by unfold TokIs; rw [s1]; exact hA, ?_⟩, ⟨by unfold TokIs; rw [s2]; exact hB, hh2⟩⟩
  by_cases hAe : A = []
  · subst hAe
    -- nothing significant in `c1`, and `c` starts with a significant token: `c1` is empty
    have hi := ign_of_sig_nil c1 s1
    cases c1 with
    | nil => intro hd tl hq; cases hq
    | cons a b =>
      exfalso
      have := h2 a (b ++ c2) (by rw [e]; rfl)
      have hia := hi a (by simp)
      unfold Sigf at this
      rw [this] at hia; cases hia
  · exact hh1 hAe h2

/-- the spelling of one grammar token: the token and ignored tokens behind it -/
theorem spells_single {c : List Tok} {a : Ast.Tok} (h : Spells c [a]) : ∃ t i, c = t :: i ∧ astOfV t = some a ∧ Ign i := by
  obtain ⟨h1, h2⟩ := h
  unfold TokIs at h1
  obtain ⟨t, l, hs, ht, hl⟩ := List.map_eq_cons_iff.mp h1
  have : l = [] := by simpa using hl
  subst this
  obtain ⟨i, rfl, hi⟩ := sig_single_inv c t h2 hs
  exact ⟨t, i, rfl, ht, hi⟩

theorem spells_cons {c : List Tok} {a : Ast.Tok} {x : List Ast.Tok} (h : Spells c (a :: x)) :
    ∃ t i c', c = t :: i ++ c' ∧ astOfV t = some a ∧ Ign i ∧ Spells c' x := by
  by_cases hx : x = []
  · subst hx
    obtain ⟨t, i, e, ht, hi⟩ := spells_single h
    exact ⟨t, i, [], by simp [e], ht, hi, spells_nil⟩
  · obtain ⟨c1, c2, e, s1, s2⟩ := spells_split (x1 := [a]) (x2 := x) h hx
    obtain ⟨t, i, e1, ht, hi⟩ := spells_single s1
    exact ⟨t, i, c2, by rw [e, e1], ht, hi, s2⟩

theorem spells_head {c : List Tok} {a : Ast.Tok} {x : List Ast.Tok} (h : Spells c (a :: x)) :
    ∃ t tl, c = t :: tl ∧ astOfV t = some a := by
  obtain ⟨t, i, c', e, ht, _, _⟩ := spells_cons h
  exact ⟨t, i ++ c', by simp [e], ht⟩

/-- the kind of the first token of `c ++ [q0]` -/
def headK (c : List Tok) (q0 : Tok) : Kind :=
  match c with
  | [] => q0.kind
  | t :: _ => t.kind

theorem headK_toks (c : List Tok) (q0 : Tok) (rest : List Tok) :
    ∃ t tl, c ++ q0 :: rest = t :: tl ∧ t.kind = headK c q0 := by
  cases c with
  | nil => exact ⟨q0, rest, rfl, rfl⟩
  | cons a b => exact ⟨a, b ++ q0 :: rest, rfl, rfl⟩

/-- the completeness judgement -/
def Cmp {α : Type} (Hk : Kind → Prop) (m : PI α) (L : Nat → List Ast.Tok → Prop) (F : Kind → Prop) (Q : α → Prop) : Prop :=
  ∀ s s' a c x q0 rest, TW s → m.run s = .ok a s' → L (s.recLimit - s.recCur) x → Spells c x →
    Toks s = c ++ q0 :: rest → Sigf q0 → F q0.kind → Hk (headK c q0) →
    Eat s s' c ∧ Toks s' = q0 :: rest ∧ Q a

theorem Cmp.mono {α : Type} {Hk Hk' : Kind → Prop} {m : PI α} {L L' : Nat → List Ast.Tok → Prop} {F F' : Kind → Prop} {Q Q' : α → Prop}
    (h : Cmp Hk m L F Q) (hH : ∀ k, Hk' k → Hk k) (hL : ∀ b x, L' b x → L b x) (hF : ∀ k, F' k → F k) (hQ : ∀ a, Q a → Q' a) :
    Cmp Hk' m L' F' Q' := by
  intro s s' a c x q0 rest w hr hl hs ht hq hf hk
  obtain ⟨e, t, q⟩ := h s s' a c x q0 rest w hr (hL _ _ hl) hs ht hq (hF _ hf) (hH _ hk)
  exact ⟨e, t, hQ a q⟩

theorem cmp_pure {α : Type} (Hk F : Kind → Prop) (a : α) : Cmp Hk (pure a : PI α) (fun _ x => x = []) F (fun a' => a' = a) := by
  intro s s' a' c x q0 rest w hr hl hs ht _ _ _
  rw [run_pure] at hr
  injection hr with h1 h2
  subst h1 h2 hl
  have := spells_nil_inv hs
  subst this
  exact ⟨Eat.refl s w, by simpa using ht, rfl⟩

/-- sequencing: the follow set of the first part must contain the first tokens of the second part, and the
    follow set of the whole must be allowed after either part -/
theorem cmp_bind {α β : Type} {Hk : Kind → Prop} {m : PI α} {f : α → PI β} {L1 L2 : Nat → List Ast.Tok → Prop}
    {F1 F2 F : Kind → Prop} {Q1 : α → Prop} {Q : β → Prop}
    (h1 : Cmp Hk m L1 F1 Q1) (h2 : ∀ a, Q1 a → Cmp (fun _ => True) (f a) L2 F2 Q)
    (hhead : ∀ b a x2, L2 b (a :: x2) → F1 (kindOfA a)) (hF1 : ∀ k, F k → F1 k) (hF2 : ∀ k, F k → F2 k) :
    Cmp Hk (m >>= f) (fun b x => ∃ x1 x2, x = x1 ++ x2 ∧ L1 b x1 ∧ L2 b x2) F Q := by
  intro s s'' b c x q0 rest w hr hl hs ht hq hf hk
  obtain ⟨x1, x2, rfl, hl1, hl2⟩ := hl
  obtain ⟨a, s', hr1, hr2⟩ := bind_dec m f s s'' b hr
  cases x2 with
  | nil =>
    rw [List.append_nil] at hs
    obtain ⟨e1, t1, q1⟩ := h1 s s' a c x1 q0 rest w hr1 hl1 hs ht hq (hF1 _ hf) hk
    have hb : s'.recLimit - s'.recCur = s.recLimit - s.recCur := by rw [e1.recLimit, e1.recCur]
    obtain ⟨e2, t2, q2⟩ := h2 a q1 s' s'' b [] [] q0 rest e1.w hr2 (by rw [hb]; exact hl2) spells_nil (by simpa using t1) hq (hF2 _ hf) trivial
    exact ⟨by simpa using e1.trans e2, t2, q2⟩
  | cons a2 x2 =>
    obtain ⟨c1, c2, rfl, s1, s2⟩ := spells_split hs (by simp)
    obtain ⟨t, tl, hc2, hta⟩ := spells_head s2
    have hkc : headK (c1 ++ c2) q0 = headK c1 t := by
      cases c1 with
      | nil => simp [headK, hc2]
      | cons u v => rfl
    obtain ⟨e1, t1, q1⟩ := h1 s s' a c1 x1 t (tl ++ q0 :: rest) w hr1 hl1 s1 (by rw [ht, hc2]; simp) (sigf_of_astOfV hta)
      (by rw [kind_of_astOfV hta]; exact hhead _ _ _ hl2) (by rw [← hkc]; exact hk)
    have hb : s'.recLimit - s'.recCur = s.recLimit - s.recCur := by rw [e1.recLimit, e1.recCur]
    obtain ⟨e2, t2, q2⟩ := h2 a q1 s' s'' b c2 (a2 :: x2) q0 rest e1.w hr2 (by rw [hb]; exact hl2) s2
      (by rw [t1, hc2]; simp) hq (hF2 _ hf) trivial
    exact ⟨e1.trans e2, t2, q2⟩

/-- `peek` tells the continuation the kind of the first token -/
theorem cmp_peek {α : Type} {Hk : Kind → Prop} {f : Option Kind → PI α} {L : Nat → List Ast.Tok → Prop} {F : Kind → Prop} {Q : α → Prop}
    (h : ∀ k, Hk k → Cmp (fun k' => k' = k) (f (some k)) L F Q) : Cmp Hk (peek >>= f) L F Q := by
  intro s s' a c x q0 rest w hr hl hs ht hq hf hk
  obtain ⟨ko, sP, hp, h2⟩ := bind_dec peek f s s' a hr
  obtain ⟨t, tl, htt, hkt⟩ := headK_toks c q0 rest
  obtain ⟨hko, eP, htP, _⟩ := peek_head s sP ko t tl w (by rw [ht]; exact htt) hp
  subst hko
  have hb : sP.recLimit - sP.recCur = s.recLimit - s.recCur := by rw [eP.recLimit, eP.recCur]
  obtain ⟨e, t2, q⟩ := h t.kind (by rw [hkt]; exact hk) sP s' a c x q0 rest eP.w h2 (by rw [hb]; exact hl) hs
    (by rw [htP, ← htt]) hq hf hkt.symm
  exact ⟨by simpa using eP.trans e, t2, q⟩

theorem cmp_ite {α : Type} {Hk : Kind → Prop} (cnd : Bool) {a b : PI α} {L : Nat → List Ast.Tok → Prop} {F : Kind → Prop} {Q : α → Prop}
    (ha : cnd = true → Cmp Hk a L F Q) (hb : cnd = false → Cmp Hk b L F Q) : Cmp Hk (if cnd then a else b) L F Q := by
  cases cnd
  · simpa using hb rfl
  · simpa using ha rfl

/-- a judgement whose premises cannot hold -/
theorem cmp_absurd {α : Type} {Hk : Kind → Prop} {m : PI α} {L : Nat → List Ast.Tok → Prop} {F : Kind → Prop} {Q : α → Prop}
    (h : ∀ b x c q0, L b x → Spells c x → F q0.kind → Hk (headK c q0) → False) : Cmp Hk m L F Q := by
  intro s s' a c x q0 rest _ _ hl hs _ _ hf hk
  exact absurd (h _ x c q0 hl hs hf hk) id

/-- a node: `start_node` skips nothing because the queue starts with a significant token -/
theorem cmp_withNode {α : Type} {Hk : Kind → Prop} (K : SK) {body : PI α} {L : Nat → List Ast.Tok → Prop} {F : Kind → Prop} {Q : α → Prop}
    (h : Cmp Hk body L F Q) : Cmp Hk (withNode K body) L F Q := by
  intro s s' a c x q0 rest w hr hl hs ht hq hf hk
  obtain ⟨t, tl, htt, hkt⟩ := headK_toks c q0 rest
  have hst : Sigf t := by
    cases c with
    | nil => simp at htt; rw [← htt.1]; exact hq
    | cons u v => simp at htt; rw [← htt.1]; exact hs.2 u v rfl
  obtain ⟨s1, s2, e1, h1, o2⟩ := withNode_peeked K body s s' a t tl w (by rw [ht]; exact htt) hst hr
  have ht1 : Toks s1 = c ++ q0 :: rest := by have := e1.toks; rw [ht] at this; simpa using this.symm
  have hb : s1.recLimit - s1.recCur = s.recLimit - s.recCur := by rw [e1.recLimit, e1.recCur]
  obtain ⟨e, t2, q⟩ := h s1 s2 a c x q0 rest e1.w h1 (by rw [hb]; exact hl) hs ht1 hq hf hk
  exact ⟨by simpa using (e1.trans e).trans (Eat.ofObsEq o2 e.w), by rw [o2.toks]; exact t2, q⟩

end Apollo.Parse
