import ApolloModel.Proofs.ParserTermination5
/-
The type-system grammar: input values, fields, enum values, root operation types, separated lists —
`TA` for every function and guarded consumption for the loop bodies.
-/
set_option linter.unusedSimpArgs false
set_option linter.unusedVariables false
namespace Apollo.Parse
open Apollo.Rowan hiding Str
open Apollo.Lex hiding Str

theorem gc_description {G : Tok → Prop} (s : PState) (hw : W s) : Term description s (GC G s) := by
  unfold description
  refine gc_withNode _ _ s hw ?_
  intro s2 hw2 _
  refine gc_withNode _ _ s2 hw2 ?_
  intro s3 hw3 _
  exact gc_bump _ s3 hw3

macro "ta_ts" : tactic => `(tactic| ta_auto_with (first
    | exact ta_directives _ _ _ (by assumption) (by omega)
    | exact ta_arguments _ _ _ (by assumption) (by omega)
    | exact ta_description _ (by assumption)
    | exact ta_namedType _ (by assumption)
    | exact ta_nameOrErr _ (by assumption)
    | exact ta_operationType _ (by assumption)
    | exact ta_fragmentName _ (by assumption)
    | exact ta_typeCondition _ (by assumption)
    | exact ta_directiveLocation _ (by assumption)
    | exact ta_selectionSet _ _ (by assumption) (by omega)))

theorem ta_defaultValue (n : Nat) (s : PState) (hw : W s) (hb : 4 * Mm s + 4 ≤ n) : TA (defaultValue n) s := by
  unfold defaultValue; ta_auto

/-- the kind of the current token, as seen by a `peek` that returned `k` -/
theorem kind_of_peek {k : Option Kind} {s : PState} {t : Tok} (hk : k = s.current.map (·.kind)) (ht : s.current = some t) :
    k = some t.kind := by rw [hk, ht]; rfl

def NameOrString (t : Tok) : Prop := t.kind = .name ∨ t.kind = .stringValue

set_option maxHeartbeats 1600000 in
theorem gc_inputValueDefinition (n : Nat) (s : PState) (hw : W s) (hb : 4 * Mm s + 4 ≤ n) :
    Term (inputValueDefinition n) s (GC NameOrString s) := by
  unfold inputValueDefinition
  refine gc_withNode _ _ s hw ?_
  intro s2 hw2 hM2
  refine gc_peek' hw2 ?_
  intro k s3 hw3 hM3 hk _
  simp only []
  split
  · refine gc_first (gc_description s3 hw3) ?_
    ta_auto_with (first
      | exact ta_directives _ _ _ (by assumption) (by omega)
      | exact ta_defaultValue _ _ (by assumption) (by omega))
  · rename_i hcond
    refine Term.weaken (Q := GC (fun t => t.kind = .name) s3) ?_ ?_
    · refine gc_first (gc_name s3 hw3) ?_
      ta_auto_with (first
        | exact ta_directives _ _ _ (by assumption) (by omega)
        | exact ta_defaultValue _ _ (by assumption) (by omega))
    · intro _ c l hq t ht hg
      refine hq t ht ?_
      rcases hg with h | h
      · exact h
      · exfalso; apply hcond; rw [kind_of_peek hk ht, h]; rfl

theorem ta_inputValueDefinition (n : Nat) (s : PState) (hw : W s) (hb : 4 * Mm s + 4 ≤ n) :
    TA (inputValueDefinition n) s := ta_of (gc_inputValueDefinition n s hw hb)

/-- the closure `|kind| if Name|String { body; Continue } else { Break }` of the definition lists -/
theorem nameOrString_closure (body : PI Unit) (kind : Kind) (s : PState) (hw : W s)
    (h : Term body s (GC NameOrString s)) :
    Term (if (kind == Kind.name || kind == Kind.stringValue) = true then (body >>= fun _ => pure true) else pure false) s
      (fun b c l => b = true → ∀ t, s.current = some t → t.kind = kind → StrictT s c l) := by
  split
  · rename_i hc
    refine (gc_first h (fun _ s3 hw3 _ => ta_pure true s3 hw3)).weaken ?_
    intro _ c l hq _ t ht hk
    refine hq t ht ?_
    rw [← hk] at hc
    simp only [Bool.or_eq_true, beq_iff_eq] at hc
    exact hc
  · exact term_pure false s hw (fun h => by simp at h)

set_option maxHeartbeats 1600000 in
theorem gc_variableDefinition (n : Nat) (s : PState) (hw : W s) (hb : 4 * Mm s + 4 ≤ n) :
    Term (variableDefinition n) s (GC GAny s) := by
  unfold variableDefinition
  refine gc_withNode _ _ s hw ?_
  intro s2 hw2 hM2
  refine gc_first (gc_variableNode s2 hw2) ?_
  ta_auto_with (first
    | exact ta_directives _ _ _ (by assumption) (by omega)
    | exact ta_defaultValue _ _ (by assumption) (by omega))

set_option maxHeartbeats 1600000 in
theorem ta_variableDefinitions (n : Nat) (s : PState) (hw : W s) (hb : 4 * Mm s + 4 ≤ n) :
    TA (variableDefinitions n) s := by
  unfold variableDefinitions
  ta_auto_with (first
    | exact ta_of (gc_variableDefinition _ _ (by assumption) (by omega))
    | exact ta_peekWhileKind _ _ _ (by assumption) (fun s4 hw4 hM4 =>
        gc_weaken (gc_variableDefinition n s4 hw4 (by omega)) (fun _ _ => trivial)))

set_option maxHeartbeats 1600000 in
theorem ta_argumentsDefinitionBody (n : Nat) (s : PState) (hw : W s) (hb : 4 * Mm s + 4 ≤ n) :
    TA (argumentsDefinitionBody n) s := by
  unfold argumentsDefinitionBody
  ta_auto_with (first
    | exact ta_inputValueDefinition _ _ (by assumption) (by omega)
    | exact ta_peekWhile _ _ (by assumption) (fun kind s4 hw4 hM4 =>
        nameOrString_closure _ kind s4 hw4 (gc_inputValueDefinition n s4 hw4 (by omega))))

theorem ta_argumentsDefinition (n : Nat) (s : PState) (hw : W s) (hb : 4 * Mm s + 4 ≤ n) :
    TA (argumentsDefinition n) s := by
  unfold argumentsDefinition
  ta_auto_with (exact ta_argumentsDefinitionBody _ _ (by assumption) (by omega))

set_option maxHeartbeats 3200000 in
theorem gc_fieldDefinition (n : Nat) (s : PState) (hw : W s) (hb : 4 * Mm s + 4 ≤ n) :
    Term (fieldDefinition n) s (GC NameOrString s) := by
  unfold fieldDefinition
  refine gc_withNode _ _ s hw ?_
  intro s2 hw2 hM2
  refine gc_peek' hw2 ?_
  intro k s3 hw3 hM3 hk _
  simp only []
  split
  · refine gc_first (gc_description s3 hw3) ?_
    ta_auto_with (first
      | exact ta_directives _ _ _ (by assumption) (by omega)
      | exact ta_argumentsDefinition _ _ (by assumption) (by omega))
  · rename_i hcond
    refine Term.weaken (Q := GC (fun t => t.kind = .name) s3) ?_ ?_
    · refine gc_first (gc_name s3 hw3) ?_
      ta_auto_with (first
        | exact ta_directives _ _ _ (by assumption) (by omega)
        | exact ta_argumentsDefinition _ _ (by assumption) (by omega))
    · intro _ c l hq t ht hg
      refine hq t ht ?_
      rcases hg with h | h
      · exact h
      · exfalso; apply hcond; rw [kind_of_peek hk ht, h]; rfl

set_option maxHeartbeats 1600000 in
theorem ta_fieldsDefinition (n : Nat) (s : PState) (hw : W s) (hb : 4 * Mm s + 4 ≤ n) :
    TA (fieldsDefinition n) s := by
  unfold fieldsDefinition
  ta_auto_with (first
    | exact ta_of (gc_fieldDefinition _ _ (by assumption) (by omega))
    | exact ta_peekWhile _ _ (by assumption) (fun kind s4 hw4 hM4 =>
        nameOrString_closure _ kind s4 hw4 (gc_fieldDefinition n s4 hw4 (by omega))))

set_option maxHeartbeats 1600000 in
theorem ta_inputFieldsDefinition (n : Nat) (s : PState) (hw : W s) (hb : 4 * Mm s + 4 ≤ n) :
    TA (inputFieldsDefinition n) s := by
  unfold inputFieldsDefinition
  ta_auto_with (first
    | exact ta_inputValueDefinition _ _ (by assumption) (by omega)
    | exact ta_peekWhile _ _ (by assumption) (fun kind s4 hw4 hM4 =>
        nameOrString_closure _ kind s4 hw4 (gc_inputValueDefinition n s4 hw4 (by omega))))

/-- `operation_type`: consumes the current token whatever it is -/
theorem gc_operationType {G : Tok → Prop} (s : PState) (hw : W s) : Term operationType s (GC G s) := by
  unfold operationType
  refine gc_peekData hw ?_
  intro d s1 hw1 hM1 hd
  cases d with
  | none =>
    exact term_pure _ s1 hw1 (fun t ht _ => by rw [ht] at hd; simp at hd)
  | some d =>
    simp only []
    refine gc_withNode _ _ s1 hw1 ?_
    intro s2 hw2 _
    split
    · exact gc_bump _ s2 hw2
    · split
      · exact gc_bump _ s2 hw2
      · split
        · exact gc_bump _ s2 hw2
        · exact gc_errAndPop s2 hw2

theorem gc_rootOperationTypeDefinition {G : Tok → Prop} (s : PState) (hw : W s) :
    Term rootOperationTypeDefinition s (GC G s) := by
  unfold rootOperationTypeDefinition
  refine gc_withNode _ _ s hw ?_
  intro s2 hw2 _
  refine gc_first (gc_operationType s2 hw2) ?_
  ta_ts

theorem ta_parseSeparatedList (sep : Kind) (k : SK) (run : PI Unit) (s : PState) (hw : W s)
    (hrun : ∀ s1, W s1 → Mm s1 ≤ Mm s → TA run s1) : TA (parseSeparatedList sep k run) s := by
  unfold parseSeparatedList
  refine ta_bind (ta_peek s hw) ?_
  intro kk s1 hw1 hM1
  have hloop : ∀ s2, W s2 → Mm s2 ≤ Mm s → TA (do run; peekWhileKind sep (do bump k; run)) s2 := by
    intro s2 hw2 hM2
    refine ta_bind (hrun s2 hw2 hM2) ?_
    intro _ s3 hw3 hM3
    refine ta_peekWhileKind _ _ s3 hw3 ?_
    intro s4 hw4 hM4
    exact gc_first (gc_bump _ s4 hw4) (fun _ s5 hw5 hM5 => hrun s5 hw5 (by omega))
  simp only []
  split
  · refine ta_bind (ta_bump _ s1 hw1) ?_
    intro _ s2 hw2 hM2
    exact hloop s2 hw2 (by omega)
  · exact hloop s1 hw1 hM1

theorem ta_implementsInterfaces (s : PState) (hw : W s) : TA implementsInterfaces s := by
  unfold implementsInterfaces
  ta_auto_with (exact ta_parseSeparatedList _ _ _ _ (by assumption) (fun s1 hw1 _ => by ta_ts))

theorem ta_unionMemberTypes (s : PState) (hw : W s) : TA unionMemberTypes s := by
  unfold unionMemberTypes
  ta_auto_with (exact ta_parseSeparatedList _ _ _ _ (by assumption) (fun s1 hw1 _ => by ta_ts))

theorem ta_directiveLocations (s : PState) (hw : W s) : TA directiveLocations s := by
  unfold directiveLocations
  exact ta_parseSeparatedList _ _ _ _ hw (fun s1 hw1 _ => ta_directiveLocation s1 hw1)

end Apollo.Parse
