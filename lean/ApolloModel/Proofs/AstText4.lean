import ApolloModel.Proofs.AstText3
/-
Text level, part 2: `interp` renders a command list to a sequence of segments — token texts and ignored
texts — whose concatenation is the output; the tokens of the segments are `toksOf`; ignored segments consist
of ignored characters when the indentation prefix does; and, for a separated command list, two tokens that
would merge are always separated by a NON-EMPTY ignored segment, in every configuration.
-/
namespace Apollo.Ast

inductive Seg where
  | tok (t : Tok) (text : Str)
  | ign (s : Str)
  deriving Repr

def Seg.text : Seg → Str
  | .tok _ s => s
  | .ign s => s

def Seg.tok? : Seg → Option Tok
  | .tok t _ => some t
  | .ign _ => none

def segsText (segs : List Seg) : Str := segs.flatMap Seg.text
def segsToks (segs : List Seg) : List Tok := segs.filterMap Seg.tok?

/-- what `new_line_common` writes -/
def nlText (pre : Option Str) (level : Nat) (space : Bool) : Str :=
  match pre with
  | some p => '\n' :: Strs.indentStr p level
  | none => if space then [' '] else []

theorem newLineCommon_out (st : St) (space : Bool) :
    (newLineCommon st space).out = st.out ++ nlText st.pre st.level space := by
  unfold newLineCommon nlText
  cases st.pre with
  | some p => rfl
  | none => cases space <;> simp

/-- the segments one primitive call writes -/
def segStep (st : St) : Cmd → List Seg
  | .tok t => [.tok t (tokText t)]
  | .str d s => [.tok (.str s) (Strs.serializeStringValue st.pre st.level d s)]
  | .raw s => [.ign s]
  | .indent => [.ign (nlText st.pre (st.level + 1) false)]
  | .indentOrSpace => [.ign (nlText st.pre (st.level + 1) true)]
  | .dedent => [.ign (nlText st.pre (st.level - 1) false)]
  | .dedentOrSpace => [.ign (nlText st.pre (st.level - 1) true)]
  | .newLineOrSpace => [.ign (nlText st.pre st.level true)]
  | .beginSingle | .endSingle => []
  | .rawIfNewlines s => [.ign (if st.pre.isSome then s else [])]

def render : St → List Cmd → List Seg
  | _, [] => []
  | st, c :: cs => segStep st c ++ render (stepCmd st c) cs

theorem stepCmd_out (st : St) (c : Cmd) : (stepCmd st c).out = st.out ++ segsText (segStep st c) := by
  cases c <;> simp [stepCmd, segStep, segsText, Seg.text, newLineCommon_out]
  case endSingle => cases st.saved <;> simp
  case rawIfNewlines s => cases st.pre <;> simp

/-- **Segmentation.** The output is what was there before followed by the texts of the segments. -/
theorem interp_out (cs : List Cmd) : ∀ st : St, (interp st cs).out = st.out ++ segsText (render st cs) := by
  induction cs with
  | nil => intro st; simp [interp, render, segsText]
  | cons c cs ih =>
    intro st
    have : interp st (c :: cs) = interp (stepCmd st c) cs := by simp [interp]
    rw [this, ih, stepCmd_out]
    simp [render, segsText, List.append_assoc]

/-- the token segments are exactly `toksOf` -/
theorem render_toks (cs : List Cmd) : ∀ st : St, segsToks (render st cs) = toksOf cs := by
  induction cs with
  | nil => intro st; simp [render, segsToks, toksOf]
  | cons c cs ih =>
    intro st
    have h := ih (stepCmd st c)
    unfold segsToks at h ⊢
    cases c <;> simp only [render, segStep, toksOf, List.cons_append, List.nil_append, List.filterMap_cons, Seg.tok?] <;>
      first | exact h | (rw [h])

/-! ### ignored segments consist of ignored characters -/

def strIgnored (s : Str) : Bool := s.all isIgnoredChar

/-- the indentation prefix in use, and the ones saved by enclosing single-line regions, are ignored text -/
def PrefixIgnored (st : St) : Prop :=
  (∀ p, st.pre = some p → strIgnored p = true) ∧ (∀ p, some p ∈ st.saved → strIgnored p = true)

theorem indentStr_ignored (p : Str) (n : Nat) (h : strIgnored p = true) : strIgnored (Strs.indentStr p n) = true := by
  unfold Strs.indentStr strIgnored at *
  induction n with
  | zero => simp
  | succ n ih => simp_all [List.replicate_succ]

theorem nlText_ignored (pre : Option Str) (level : Nat) (space : Bool)
    (h : ∀ p, pre = some p → strIgnored p = true) : strIgnored (nlText pre level space) = true := by
  unfold nlText
  cases pre with
  | none => cases space <;> simp [strIgnored, isIgnoredChar]
  | some p =>
    have := indentStr_ignored p level (h p rfl)
    simp_all [strIgnored, isIgnoredChar]

theorem newLineCommon_pre (st : St) (b : Bool) :
    (newLineCommon st b).pre = st.pre ∧ (newLineCommon st b).saved = st.saved := by
  unfold newLineCommon
  split
  · next p hp => simp [hp]
  · split <;> simp

theorem prefixIgnored_of_eq {st st' : St} (h : PrefixIgnored st) (h1 : st'.pre = st.pre) (h2 : st'.saved = st.saved) :
    PrefixIgnored st' := by
  unfold PrefixIgnored at *
  rw [h1, h2]; exact h

theorem prefixIgnored_step (st : St) (c : Cmd) (h : PrefixIgnored st) : PrefixIgnored (stepCmd st c) := by
  cases c with
  | tok t => exact prefixIgnored_of_eq h rfl rfl
  | str d s => exact prefixIgnored_of_eq h rfl rfl
  | raw s => exact prefixIgnored_of_eq h rfl rfl
  | indent => exact prefixIgnored_of_eq h (newLineCommon_pre _ _).1 (newLineCommon_pre _ _).2
  | indentOrSpace => exact prefixIgnored_of_eq h (newLineCommon_pre _ _).1 (newLineCommon_pre _ _).2
  | dedent => exact prefixIgnored_of_eq h (newLineCommon_pre _ _).1 (newLineCommon_pre _ _).2
  | dedentOrSpace => exact prefixIgnored_of_eq h (newLineCommon_pre _ _).1 (newLineCommon_pre _ _).2
  | newLineOrSpace => exact prefixIgnored_of_eq h (newLineCommon_pre _ _).1 (newLineCommon_pre _ _).2
  | rawIfNewlines s =>
    simp only [stepCmd]
    split <;> exact prefixIgnored_of_eq h rfl rfl
  | beginSingle =>
    obtain ⟨h1, h2⟩ := h
    refine ⟨by simp [stepCmd], ?_⟩
    intro p hp
    simp only [stepCmd, List.mem_cons] at hp
    rcases hp with hp | hp
    · exact h1 p hp.symm
    · exact h2 p hp
  | endSingle =>
    obtain ⟨h1, h2⟩ := h
    simp only [stepCmd]
    cases hs : st.saved with
    | nil => exact ⟨h1, by simpa [hs] using h2⟩
    | cons q rest =>
      refine ⟨?_, ?_⟩
      · intro p hp; exact h2 p (by rw [hs]; simp only at hp; rw [← hp]; simp)
      · intro p hp; exact h2 p (by rw [hs]; exact List.mem_cons_of_mem _ hp)

theorem segStep_ignored (st : St) (c : Cmd) (s0 : Option Cls) (hp : PrefixIgnored st)
    (hc : (sepStep s0 c).isSome = true) : ∀ s, Seg.ign s ∈ segStep st c → strIgnored s = true := by
  intro s hs
  cases c <;> simp only [segStep, List.mem_singleton, List.mem_cons, List.not_mem_nil, Seg.ign.injEq, or_false, reduceCtorEq] at hs
  case raw r =>
    subst hs
    simp only [sepStep] at hc
    split at hc
    · next he => simp_all [strIgnored]
    · split at hc
      · next ha => exact ha
      · simp at hc
  case rawIfNewlines r =>
    subst hs
    simp only [sepStep] at hc
    split at hc
    · next ha => split <;> simp_all [strIgnored]
    · simp at hc
  all_goals (subst hs; exact nlText_ignored _ _ _ hp.1)

/-- ignored segments are ignored text, whenever the prefixes are and the command list passes `scan` -/
theorem render_ignored (cs : List Cmd) : ∀ (st : St) (s0 : Option Cls), PrefixIgnored st → Ok s0 cs →
    ∀ s, Seg.ign s ∈ render st cs → strIgnored s = true := by
  induction cs with
  | nil => intro st s0 _ _ s hs; simp [render] at hs
  | cons c cs ih =>
    intro st s0 hp hok s hs
    simp only [render, List.mem_append] at hs
    unfold Ok at hok
    simp only [scan] at hok
    cases hstep : sepStep s0 c with
    | none => simp [hstep] at hok
    | some e =>
      rcases hs with hs | hs
      · exact segStep_ignored st c s0 hp (by simp [hstep]) s hs
      · exact ih (stepCmd st c) e (prefixIgnored_step st c hp) (by simpa [hstep, Ok] using hok) s hs

/-! ### separation survives rendering -/

def segSepStep (st : Option Cls) : Seg → Option (Option Cls)
  | .tok t _ => if conflictO st (clsTok t) then none else some (some (clsTok t))
  | .ign s => if s.isEmpty then some st else some none

def segScan : Option Cls → List Seg → Option (Option Cls)
  | st, [] => some st
  | st, g :: gs => (segSepStep st g).bind (fun e => segScan e gs)

/-- `a` is at least as safe a state as `b` -/
def Safer (a b : Option Cls) : Prop := a = none ∨ a = b

theorem conflictO_safer {a b : Option Cls} (h : Safer a b) (c : Cls) (hb : conflictO b c = false) : conflictO a c = false := by
  rcases h with h | h <;> subst h
  · rfl
  · exact hb

theorem segScan_append (st : Option Cls) (a b : List Seg) :
    segScan st (a ++ b) = (segScan st a).bind (fun e => segScan e b) := by
  induction a generalizing st with
  | nil => simp [segScan]
  | cons c cs ih =>
    simp only [List.cons_append, segScan]
    cases segSepStep st c with
    | none => simp
    | some e => simp [ih]

theorem nlText_space_ne_nil (pre : Option Str) (level : Nat) : nlText pre level true ≠ [] := by
  unfold nlText; cases pre <;> simp

/-- one command: the rendered segments keep a state at least as safe -/
theorem segStep_safer (st : St) (c : Cmd) (s s' e : Option Cls) (hs : Safer s' s) (hc : sepStep s c = some e) :
    ∃ e', segScan s' (segStep st c) = some e' ∧ Safer e' e := by
  cases c with
  | tok t =>
    simp only [sepStep] at hc
    split at hc
    · simp at hc
    · next hcf =>
      simp only [Option.some.injEq] at hc
      have := conflictO_safer hs _ (by simpa using hcf)
      exact ⟨some (clsTok t), by simp [segStep, segScan, segSepStep, this], .inr hc⟩
  | str d x =>
    simp only [sepStep] at hc
    split at hc
    · simp at hc
    · next hcf =>
      simp only [Option.some.injEq] at hc
      have := conflictO_safer hs _ (by simpa using hcf)
      exact ⟨some .str, by simp [segStep, segScan, segSepStep, clsTok, this], .inr hc⟩
  | raw r =>
    simp only [sepStep] at hc
    split at hc
    · next he =>
      simp only [Option.some.injEq] at hc
      subst hc
      exact ⟨s', by simp [segStep, segScan, segSepStep, he], hs⟩
    · next he =>
      split at hc
      · simp only [Option.some.injEq] at hc
        subst hc
        exact ⟨none, by simp [segStep, segScan, segSepStep, he], .inl rfl⟩
      · simp at hc
  | indentOrSpace =>
    simp only [sepStep, Option.some.injEq] at hc; subst hc
    exact ⟨none, by simp [segStep, segScan, segSepStep, nlText_space_ne_nil], .inl rfl⟩
  | dedentOrSpace =>
    simp only [sepStep, Option.some.injEq] at hc; subst hc
    exact ⟨none, by simp [segStep, segScan, segSepStep, nlText_space_ne_nil], .inl rfl⟩
  | newLineOrSpace =>
    simp only [sepStep, Option.some.injEq] at hc; subst hc
    exact ⟨none, by simp [segStep, segScan, segSepStep, nlText_space_ne_nil], .inl rfl⟩
  | indent =>
    simp only [sepStep, Option.some.injEq] at hc; subst hc
    by_cases he : (nlText st.pre (st.level + 1) false).isEmpty = true
    · exact ⟨s', by simp [segStep, segScan, segSepStep, he], hs⟩
    · exact ⟨none, by simp [segStep, segScan, segSepStep, he], .inl rfl⟩
  | dedent =>
    simp only [sepStep, Option.some.injEq] at hc; subst hc
    by_cases he : (nlText st.pre (st.level - 1) false).isEmpty = true
    · exact ⟨s', by simp [segStep, segScan, segSepStep, he], hs⟩
    · exact ⟨none, by simp [segStep, segScan, segSepStep, he], .inl rfl⟩
  | beginSingle =>
    simp only [sepStep, Option.some.injEq] at hc; subst hc
    exact ⟨s', by simp [segStep, segScan], hs⟩
  | endSingle =>
    simp only [sepStep, Option.some.injEq] at hc; subst hc
    exact ⟨s', by simp [segStep, segScan], hs⟩
  | rawIfNewlines r =>
    simp only [sepStep] at hc
    split at hc
    · simp only [Option.some.injEq] at hc; subst hc
      by_cases he : (if st.pre.isSome then r else []).isEmpty = true
      · exact ⟨s', by simp [segStep, segScan, segSepStep, he], hs⟩
      · exact ⟨none, by simp [segStep, segScan, segSepStep, he], .inl rfl⟩
    · simp at hc

/-- **Separation survives rendering**: if `scan` accepts the commands then, in every configuration and from
    every state, the rendered segments never put a token directly (or across empty ignored segments only)
    after a token it would merge with. -/
theorem render_separated (cs : List Cmd) : ∀ (st : St) (s s' e : Option Cls), Safer s' s → scan s cs = some e →
    ∃ e', segScan s' (render st cs) = some e' ∧ Safer e' e := by
  induction cs with
  | nil =>
    intro st s s' e hs h
    simp only [scan, Option.some.injEq] at h
    subst h
    exact ⟨s', by simp [render, segScan], hs⟩
  | cons c cs ih =>
    intro st s s' e hs h
    simp only [scan] at h
    cases hstep : sepStep s c with
    | none => simp [hstep] at h
    | some e1 =>
      simp only [hstep, Option.bind_some] at h
      obtain ⟨e1', h1, hs1⟩ := segStep_safer st c s s' e1 hs hstep
      obtain ⟨e', h2, hs2⟩ := ih (stepCmd st c) e1 e1' e hs1 h
      exact ⟨e', by simp [render, segScan_append, h1, h2], hs2⟩

end Apollo.Ast
