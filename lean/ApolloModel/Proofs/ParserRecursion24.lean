import ApolloModel.Proofs.ParserRecursion23
import ApolloModel.Proofs.Lexer2
/-
C04 growth (token limit at the parser level), part 24: the parser pulls its tokens one by one from the lexer
(`Lexer::next` through `Parser::next_token`).  With a token limit `n` the lexer's tracker counts every item it
hands out — tokens of every kind (white space, comments and commas included), lexer errors, and the EOF token —
and refuses the `n + 1`-th.  Invariant (`TI`), kept by every grammar function: the lexer has handed out
exactly the first `cur ≤ n` items of the unlimited stream `lex none src`; it is "hit" (finished with
`high = n + 1`) iff it refused an item, and then a limit error is on record; conversely a limit error on record
comes from a hit lexer or from the recursion guard (`recHigh > recLimit`).
-/
set_option linter.unusedSimpArgs false
set_option linter.unusedVariables false

namespace Apollo.Lex

theorem lexAux_none_indep : ∀ (f1 f2 c1 c2 : Nat) (src : Str), src.length < f1 → src.length < f2 →
    lexAux f1 none c1 src = lexAux f2 none c2 src
  | 0, _, _, _, _, h, _ => by omega
  | _ + 1, 0, _, _, _, _, h => by omega
  | f1 + 1, f2 + 1, c1, c2, [], _, _ => by simp [lexAux]
  | f1 + 1, f2 + 1, c1, c2, c :: rest, h1, h2 => by
    have hp := (advance_progress c rest).2
    simp only [lexAux, Bool.false_eq_true, if_false]
    rw [lexAux_none_indep f1 f2 (c1 + 1) (c2 + 1) (advance (c :: rest)).2
      (by simp only [List.length_cons] at h1 hp; omega) (by simp only [List.length_cons] at h2 hp; omega)]

theorem lex_none_nil : lex none [] = [.tok .eof []] := by simp [lex, lexAux]

theorem lex_none_cons (c : Char) (rest : Str) :
    lex none (c :: rest) = (advance (c :: rest)).1 :: lex none (advance (c :: rest)).2 := by
  have hp := (advance_progress c rest).2
  show lexAux ((rest.length + 1) + 1) none 0 (c :: rest) = _ :: lexAux ((advance (c :: rest)).2.length + 1) none 0 _
  rw [lexAux]
  simp only [Bool.false_eq_true, if_false]
  rw [lexAux_none_indep (rest.length + 1) ((advance (c :: rest)).2.length + 1) (0 + 1) 0 _
    (by simp only [List.length_cons] at hp; omega) (by omega)]
  intro x; cases x

theorem lex_none_ne_nil (src : Str) : lex none src ≠ [] := by
  cases src with
  | nil => simp [lex_none_nil]
  | cons c rest => simp [lex_none_cons]

theorem drop_succ_of_cons {α : Type} : ∀ (l : List α) (k : Nat) (a : α) (b : List α), l.drop k = a :: b → l.drop (k + 1) = b
  | [], k, a, b, h => by simp at h
  | x :: xs, 0, a, b, h => by simp at h; simp [h.2]
  | x :: xs, k + 1, a, b, h => by
    simp only [List.drop_succ_cons] at h ⊢
    exact drop_succ_of_cons xs k a b h

theorem lt_length_of_drop_ne_nil {α : Type} (l : List α) (k : Nat) (h : l.drop k ≠ []) : k < l.length := by
  by_cases hk : k < l.length
  · exact hk
  · exact absurd (List.drop_eq_nil_of_le (by omega)) h

end Apollo.Lex

namespace Apollo.Parse
open Apollo.Rowan hiding Str
open Apollo.Lex hiding Str

/-- the lexer's position in the unlimited item stream `Ls` -/
structure LI (n : Nat) (Ls : List Item) (l : LexSt) : Prop where
  lim : l.limit = some n
  run : l.finished = false → l.cur ≤ n ∧ l.high = l.cur ∧ lex none l.src = Ls.drop l.cur
  fin : l.finished = true → (l.high ≤ n ∧ l.high = Ls.length ∧ l.cur = l.high ∧ l.src = []) ∨
      (l.high = n + 1 ∧ l.cur = n ∧ n < Ls.length ∧ lex none l.src = Ls.drop n)

/-- the lexer refused an item: the token limit was reached -/
def Hit (n : Nat) (l : LexSt) : Prop := l.finished = true ∧ l.high = n + 1

def IsLimitOut : Option LexOut → Prop
  | some (.limit _) => True
  | _ => False

theorem li_lexNext {n : Nat} {Ls : List Item} {l : LexSt} (h : LI n Ls l) :
    LI n Ls (lexNext l).2 ∧ (IsLimitOut (lexNext l).1 → Hit n (lexNext l).2) ∧
    (¬ IsLimitOut (lexNext l).1 → Hit n (lexNext l).2 → Hit n l) := by
  by_cases hf : l.finished = true
  · rw [lexNext_finished l hf]
    exact ⟨h, fun x => False.elim x, fun _ x => x⟩
  · have hf' : l.finished = false := by simpa using hf
    obtain ⟨hc, hh, hd⟩ := h.run hf'
    have hne : Ls.drop l.cur ≠ [] := by rw [← hd]; exact lex_none_ne_nil _
    have hlt := lt_length_of_drop_ne_nil _ _ hne
    unfold lexNext
    simp only [hf', Bool.false_eq_true, if_false]
    by_cases hr : l.cur + 1 > n
    · have hcn : l.cur = n := by omega
      have e1 : (lexCheck l).1 = true := by simp [lexCheck, h.lim, hr]
      have e2 : (lexCheck l).2.1 = l.cur := by simp [lexCheck, h.lim, hr]
      have e3 : (lexCheck l).2.2 = l.cur + 1 := by simp [lexCheck, hh]
      simp only [e1, if_true, e2, e3]
      refine ⟨⟨h.lim, fun x => by simp at x, fun _ => Or.inr ⟨by simp [hcn], hcn, by omega, by simpa [hcn] using hd⟩⟩,
        fun _ => ⟨rfl, by simp [hcn]⟩, fun x => absurd trivial x⟩
    · have e1 : (lexCheck l).1 = false := by simp [lexCheck, h.lim, hr]
      have e2 : (lexCheck l).2.1 = l.cur + 1 := by simp [lexCheck, h.lim, hr]
      have e3 : (lexCheck l).2.2 = l.cur + 1 := by simp [lexCheck, hh]
      simp only [e1, Bool.false_eq_true, if_false, e2, e3]
      cases hs : l.src with
      | nil =>
        simp only []
        rw [hs, lex_none_nil] at hd
        have hlen : Ls.length = l.cur + 1 := by
          have := congrArg List.length hd
          simp at this
          omega
        refine ⟨⟨h.lim, fun x => by simp at x, fun _ => Or.inl ⟨by simp; omega, by simp [hlen], rfl, rfl⟩⟩,
          fun x => False.elim x, fun _ x => ?_⟩
        exfalso
        have : l.cur + 1 = n + 1 := x.2
        omega
      | cons ch rest =>
        simp only []
        rw [hs, lex_none_cons] at hd
        have hd' := drop_succ_of_cons _ _ _ _ hd.symm
        have key : ∀ (o : Option LexOut) (l' : LexSt), l'.limit = l.limit → l'.finished = false → l'.cur = l.cur + 1 →
            l'.high = l.cur + 1 → l'.src = (advance (ch :: rest)).2 → (¬ IsLimitOut o) →
            LI n Ls l' ∧ (IsLimitOut o → Hit n l') ∧ (¬ IsLimitOut o → Hit n l' → Hit n l) := by
          intro o l' a1 a2 a3 a4 a5 a6
          refine ⟨⟨by rw [a1]; exact h.lim, fun _ => ⟨by omega, by omega, by rw [a5, a3]; exact hd'.symm⟩,
            fun x => by rw [a2] at x; cases x⟩, fun x => absurd x a6, fun _ x => ?_⟩
          have := x.1
          rw [a2] at this
          cases this
        cases hr1 : (advance (ch :: rest)).1 with
        | tok k d => simp only []; exact key _ _ rfl rfl rfl rfl rfl (fun x => False.elim x)
        | err d => simp only []; exact key _ _ rfl rfl rfl rfl rfl (fun x => False.elim x)
        | limit => simp only []; exact key _ _ rfl rfl rfl rfl rfl (fun x => False.elim x)

/-- the parser-level invariant for token limit `n` over the unlimited item stream `Ls` -/
structure TI (n : Nat) (Ls : List Item) (s : PState) : Prop where
  li : LI n Ls s.lx
  hit : Hit n s.lx → HasLim s.errors
  j : HasLim s.errors → Hit n s.lx ∨ s.recHigh > s.recLimit

theorem ti_next {n : Nat} {Ls : List Item} : ∀ (fuel : Nat) (s : PState), TI n Ls s → TI n Ls (nextTokenRaw fuel s).2
  | 0, s, h => by simpa [nextTokenRaw] using h
  | fuel + 1, s, h => by
    obtain ⟨l1, l2, l3⟩ := li_lexNext h.li
    unfold nextTokenRaw
    cases hl : lexNext s.lx with
    | mk o l' =>
      rw [hl] at l1 l2 l3
      simp only [] at l1 l2 l3
      cases o with
      | none =>
        simp only []
        have hh := l3 (fun x => False.elim x)
        exact ⟨l1, fun x => h.hit (hh x), fun x => by
          rcases h.j x with y | y
          · have hf := y.1
            have : lexNext s.lx = (none, s.lx) := lexNext_finished _ hf
            rw [hl] at this
            injection this with _ this
            subst this
            exact Or.inl y
          · exact Or.inr y⟩
      | some out =>
        cases out with
        | tok t =>
          simp only []
          have hh := l3 (fun x => False.elim x)
          exact ⟨l1, fun x => h.hit (hh x), fun x => by
            rcases h.j x with y | y
            · have hf := y.1
              have : lexNext s.lx = (none, s.lx) := lexNext_finished _ hf
              rw [hl] at this
              injection this with this _
              cases this
            · exact Or.inr y⟩
        | err d i =>
          simp only []
          refine ti_next fuel _ ?_
          have hh := l3 (fun x => False.elim x)
          have hq : HasLim (s.errors ++ [⟨i, utf8Len d, .lexer⟩]) ↔ HasLim s.errors := by
            rw [hasLim_append, hasLim_single]
            constructor
            · rintro (x | x)
              · exact x
              · cases x
            · exact Or.inl
          exact ⟨l1, fun x => hq.mpr (h.hit (hh x)), fun x => by
            rcases h.j (hq.mp x) with y | y
            · have hf := y.1
              have : lexNext s.lx = (none, s.lx) := lexNext_finished _ hf
              rw [hl] at this
              injection this with this _
              cases this
            · exact Or.inr y⟩
        | limit i =>
          simp only []
          refine ti_next fuel _ ?_
          have hh := l2 trivial
          exact ⟨l1, fun _ => (hasLim_append _ _).mpr (Or.inr ((hasLim_single _).mpr rfl)), fun _ => Or.inl hh⟩

instance instStInvTI (n : Nat) (Ls : List Item) : StInv (TI n Ls) where
  cong := by
    intro s s' e1 e2 e3 e4 e5 h
    exact ⟨by rw [e1]; exact h.li, by rw [e1, e2]; exact h.hit, by rw [e1, e2, e4, e5]; exact h.j⟩
  next := ti_next
  err := by
    intro s e he _ h
    have hq : HasLim (s.errors ++ [e]) ↔ HasLim s.errors := by
      rw [hasLim_append, hasLim_single]
      constructor
      · rintro (x | x)
        · exact x
        · exact absurd x he
      · exact Or.inl
    exact ⟨h.li, fun x => hq.mpr (h.hit x), fun x => h.j (hq.mp x)⟩
  high := by
    intro s hgh hle h
    refine ⟨h.li, h.hit, fun x => ?_⟩
    rcases h.j x with y | y
    · exact Or.inl y
    · exact Or.inr (by show hgh > s.recLimit; omega)
  limit := by
    intro s i hh h
    refine ⟨h.li, fun x => ?_, fun _ => Or.inr hh⟩
    have := h.hit x
    show HasLim (if s.acceptErrors then s.errors ++ [⟨i, 0, .limit⟩] else s.errors)
    split
    · exact (hasLim_append _ _).mpr (Or.inl this)
    · exact this

/-! ### the entry points -/

/-- the state in which the grammar of entry point `e` is started -/
def entryStartT (e : Entry) (src : Str) (tl : Option Nat) (r : Nat) : PState :=
  match e.standalone with
  | some (k, _) => { initState src tl r with builder := (initState src tl r).builder.startNode k }
  | none => initState src tl r

theorem entryStartT_inv (e : Entry) (src : Str) (tl : Option Nat) (r : Nat) : Inv (entryStartT e src tl r) := by
  cases e <;>
  exact ⟨fun _ => by simp [entryStartT, Entry.standalone, initState, Builder.new, Builder.startNode, textList, pendingText, curText],
    fun p hp => by
      simp [entryStartT, Entry.standalone, initState, Builder.new, Builder.startNode] at hp <;>
      simp [hp, entryStartT, Entry.standalone, initState, Builder.new, Builder.startNode],
    fun h => by simp [entryStartT, Entry.standalone, initState] at h,
    fun t h => by simp [entryStartT, Entry.standalone, initState] at h,
    fun h => by simp [entryStartT, Entry.standalone, initState] at h⟩

/-- every parse is a completed run of the entry point's grammar; the result's figures are the end state's -/
theorem parse_run (e : Entry) (tl : Option Nat) (r : Nat) (src : Str) :
    ∃ s, (e.grammar (fuelFor src)).run (entryStartT e src tl r) = .ok () s ∧
      (parse e tl r src).errors = s.errors ∧ (parse e tl r src).recHigh = s.recHigh ∧
      (parse e tl r src).tokHigh = s.lx.high ∧ (parse e tl r src).leftover = curText s.current ++ s.lx.src := by
  have hterm := fun w => parse_terminates e tl r src w
  have hpost := (e.grammar (fuelFor src)).ok _ (entryStartT_inv e src tl r)
  cases e with
  | document =>
    unfold parse runEntry at hterm ⊢
    simp only [Entry.standalone] at hterm ⊢
    have e0 : initState src tl r = entryStartT .document src tl r := rfl
    rw [e0] at hterm ⊢
    cases hr : (Entry.document.grammar (fuelFor src)).run (entryStartT .document src tl r) with
    | abort w => simp [hr] at hterm
    | panic m => simp [hr, Post] at hpost
    | ok a s => exact ⟨s, rfl, rfl, rfl, rfl, rfl⟩
  | selectionSet =>
    unfold parse runEntry at hterm ⊢
    simp only [Entry.standalone] at hterm ⊢
    have e0 : ({ initState src tl r with builder := (initState src tl r).builder.startNode "SELECTION_SET" } : PState) =
        entryStartT .selectionSet src tl r := rfl
    rw [e0] at hterm ⊢
    cases hr : (Entry.selectionSet.grammar (fuelFor src)).run (entryStartT .selectionSet src tl r) with
    | abort w => simp [hr] at hterm
    | panic m => simp [hr, Post] at hpost
    | ok a s => exact ⟨s, rfl, rfl, rfl, rfl, rfl⟩
  | type =>
    unfold parse runEntry at hterm ⊢
    simp only [Entry.standalone] at hterm ⊢
    have e0 : ({ initState src tl r with builder := (initState src tl r).builder.startNode "NAMED_TYPE" } : PState) =
        entryStartT .type src tl r := rfl
    rw [e0] at hterm ⊢
    cases hr : (Entry.type.grammar (fuelFor src)).run (entryStartT .type src tl r) with
    | abort w => simp [hr] at hterm
    | panic m => simp [hr, Post] at hpost
    | ok a s => exact ⟨s, rfl, rfl, rfl, rfl, rfl⟩

theorem ti_start (e : Entry) (src : Str) (n r : Nat) : TI n (lex none src) (entryStartT e src (some n) r) := by
  have hl : (entryStartT e src (some n) r).lx = (initState src (some n) r).lx := by cases e <;> rfl
  have he : (entryStartT e src (some n) r).errors = [] := by cases e <;> rfl
  refine ⟨?_, ?_, ?_⟩
  · rw [hl]
    exact ⟨rfl, fun _ => ⟨Nat.zero_le _, rfl, by simp [initState]⟩, fun x => by simp [initState] at x⟩
  · rw [hl]
    intro x
    have := x.1
    simp [initState] at this
  · rw [he]
    rintro ⟨x, hx, _⟩
    cases hx

/-- the invariant at the end of every parse with a token limit -/
theorem parse_ti (e : Entry) (n r : Nat) (src : Str) :
    ∃ s, TI n (lex none src) s ∧ s.recLimit = r ∧
      (parse e (some n) r src).errors = s.errors ∧ (parse e (some n) r src).recHigh = s.recHigh ∧
      (parse e (some n) r src).tokHigh = s.lx.high ∧ (parse e (some n) r src).leftover = curText s.current ++ s.lx.src := by
  obtain ⟨s, hr, h1, h2, h3, h4⟩ := parse_run e (some n) r src
  have hf := (e.grammar (fuelFor src)).ok _ (entryStartT_inv e src (some n) r)
  simp only [hr, Post] at hf
  refine ⟨s, (kp_entry e (fuelFor src)).k _ () s (ti_start e src n r) hr, ?_, h1, h2, h3, h4⟩
  rw [hf.2.recLimit]
  cases e <;> rfl

/-! ### `document()` only stops when the lexer is finished -/

theorem peekWhileLoop_doc_finished (n : Nat) : ∀ (fuel : Nat) (s s' : PState), Inv s →
    (peekWhileLoop (documentStep n) fuel).run s = .ok () s' → s'.lx.finished = true
  | 0, s, s', _, h => by simp [peekWhileLoop, PI.outOfFuel] at h
  | fuel + 1, s, s', hi, h => by
    unfold peekWhileLoop at h
    rw [run_bind] at h
    obtain ⟨o, s1, hpt, hpk⟩ := peek_run s
    have hp1 := peekToken.ok s hi
    simp only [hpt, Post] at hp1
    obtain ⟨hi1, hf1⟩ := hp1
    rw [hpk] at h
    cases o with
    | none =>
      simp only [Option.map_none, run_pure, Res.ok.injEq] at h
      obtain ⟨_, rfl⟩ := h
      exact (peekToken_none s s1 hpt).2
    | some t =>
      simp only [Option.map_some] at h
      rw [run_bind] at h
      have hg : getCurrent.run s1 = .ok s1.current s1 := rfl
      simp only [hg] at h
      rw [run_bind] at h
      have hd := (documentStep n t.kind).ok s1 hi1
      cases hds : (documentStep n t.kind).run s1 with
      | abort w => simp [hds] at h
      | panic m => simp [hds, Post] at hd
      | ok b s2 =>
        simp only [hds, Post] at h hd
        obtain ⟨hi2, hf2⟩ := hd
        cases b with
        | false =>
          simp only [Bool.false_eq_true, if_false, run_pure, Res.ok.injEq] at h
          obtain ⟨_, rfl⟩ := h
          obtain ⟨hk, hc, hx, _⟩ := documentStep_false n t.kind s1 s2 hds
          rw [hx]
          exact (hi1.eofTok t (peekToken_some s s1 t hpt) hk).2.2
        | true =>
          simp only [if_true] at h
          rw [run_bind] at h
          have hg2 : getCurrent.run s2 = .ok s2.current s2 := rfl
          simp only [hg2] at h
          by_cases hb : (s1.current == s2.current) = true
          · simp [hb, PI.stuck] at h
          · simp only [hb, Bool.false_eq_true, if_false] at h
            exact peekWhileLoop_doc_finished n fuel s2 s' hi2 h

theorem inv_wnPre (kind : SK) (s : PState) (h : Inv s) : Inv (wnPre kind s) := by
  have h1 := pushIgnored.ok s h
  have e1 : pushIgnored.run s = .ok () { s with builder := { s.builder with children := s.builder.children ++ s.pending.map pendingElem }, pending := [] } := rfl
  simp only [e1, Post] at h1
  obtain ⟨hi1, _⟩ := h1
  refine ⟨hi1.text, ?_, hi1.lexDone, hi1.eofTok, hi1.errNonempty⟩
  intro p hp
  simp only [wnPre, rawStartNode, Builder.startNode, List.mem_cons] at hp ⊢
  rcases hp with rfl | hp
  · exact Nat.le_refl _
  · exact hi1.parents p hp

theorem document_finished (n : Nat) (s s' : PState) (hi : Inv s) (h : (document n).run s = .ok () s') :
    s'.lx.finished = true := by
  unfold document at h
  rw [withNode_run] at h
  cases hr : (skipIgnored >>= fun _ => documentBody n).run (wnPre "DOCUMENT" s) with
  | abort w => rw [hr] at h; cases h
  | panic m => rw [hr] at h; cases h
  | ok a2 s2 =>
    rw [hr] at h
    simp only [] at h
    cases hf : s2.builder.finishNode with
    | none => rw [hf] at h; cases h
    | some b =>
      rw [hf] at h
      injection h with _ h
      subst h
      show s2.lx.finished = true
      obtain ⟨u, s3, h3, h4⟩ := bind_dec skipIgnored _ _ s2 a2 hr
      have hi3 := (PI.run_ok skipIgnored _ (inv_wnPre "DOCUMENT" s hi) u s3 h3).1
      unfold documentBody at h4
      obtain ⟨k, s4, h5, h6⟩ := bind_dec peek _ s3 s2 a2 h4
      have hi4 := (PI.run_ok peek _ hi3 k s4 h5).1
      obtain ⟨u2, s5, h7, h8⟩ := bind_dec (errIfEmpty k) _ s4 s2 a2 h6
      have hi5 := (PI.run_ok _ _ hi4 u2 s5 h7).1
      obtain ⟨u3, s6, h9, h10⟩ := bind_dec (peekWhile (documentStep n)) _ s5 s2 a2 h8
      have e1 : pushIgnored.run s6 = .ok () { s6 with builder := { s6.builder with children := s6.builder.children ++ s6.pending.map pendingElem }, pending := [] } := rfl
      rw [e1] at h10
      injection h10 with _ h10
      subst h10
      show s6.lx.finished = true
      unfold peekWhile at h9
      obtain ⟨len, s7, h11, h12⟩ := bind_dec srcLen _ s5 s6 u3 h9
      have e2 : srcLen.run s5 = .ok s5.lx.src.length s5 := rfl
      rw [e2] at h11
      injection h11 with h11a h11b
      subst h11a h11b
      exact peekWhileLoop_doc_finished n _ s5 s6 hi5 h12

/-! ### the statements -/

theorem texts_lex (src : Str) : texts (lex none src) = src := (lex_concat src).1

/-- **token limit, every entry point, every recursion limit.**  `tokHigh` is the lexer tracker's high-water
    mark (number of items asked for, the refused one included). -/
theorem parse_token_limit (e : Entry) (n r : Nat) (src : Str) :
    (parse e (some n) r src).tokHigh ≤ n + 1 ∧
    (parse e (some n) r src).tokHigh ≤ (lex none src).length ∧
    ((parse e (some n) r src).tokHigh > n → HasLim (parse e (some n) r src).errors ∧ (lex none src).length > n) ∧
    (HasLim (parse e (some n) r src).errors → (parse e (some n) r src).tokHigh > n ∨ (parse e (some n) r src).recHigh > r) ∧
    (∃ k, k ≤ n ∧ k ≤ (lex none src).length ∧ k ≤ (parse e (some n) r src).tokHigh ∧
      texts ((lex none src).drop k) <:+ (parse e (some n) r src).leftover) := by
  obtain ⟨s, ti, hrl, h1, h2, h3, h4⟩ := parse_ti e n r src
  rw [h1, h2, h3, h4]
  by_cases hf : s.lx.finished = true
  · rcases ti.li.fin hf with ⟨a1, a2, a3, a4⟩ | ⟨a1, a2, a3, a4⟩
    · refine ⟨by omega, by omega, fun x => by omega, fun x => ?_, ⟨s.lx.high, a1, by omega, Nat.le_refl _, ?_⟩⟩
      · rcases ti.j x with y | y
        · have := y.2; omega
        · exact Or.inr (by rw [← hrl]; exact y)
      · rw [a2, List.drop_length]
        exact List.nil_suffix
    · refine ⟨by omega, by omega, fun _ => ⟨ti.hit ⟨hf, a1⟩, a3⟩, fun _ => Or.inl (by omega), ⟨n, Nat.le_refl _, by omega, by omega, ?_⟩⟩
      rw [← a4, texts_lex]
      exact List.suffix_append _ _
  · have hf' : s.lx.finished = false := by simpa using hf
    obtain ⟨a1, a2, a3⟩ := ti.li.run hf'
    have hne : (lex none src).drop s.lx.cur ≠ [] := by rw [← a3]; exact lex_none_ne_nil _
    have hlt := lt_length_of_drop_ne_nil _ _ hne
    refine ⟨by omega, by omega, fun x => by omega, fun x => ?_, ⟨s.lx.cur, a1, by omega, by omega, ?_⟩⟩
    · rcases ti.j x with y | y
      · have := y.1; rw [hf'] at this; cases this
      · exact Or.inr (by rw [← hrl]; exact y)
    · rw [← a3, texts_lex]
      exact List.suffix_append _ _

/-- `Parser::parse` (documents) always runs the lexer to its end: the tracker stops at exactly
    `min (number of items of the unlimited stream) (n + 1)` — whatever the recursion limit. -/
theorem parse_document_tok_high (n r : Nat) (src : Str) :
    (parse .document (some n) r src).tokHigh = min (lex none src).length (n + 1) := by
  obtain ⟨s, hr, _, _, h3, _⟩ := parse_run .document (some n) r src
  obtain ⟨s', ti, _, _, _, h3', _⟩ := parse_ti .document n r src
  have hfin : s.lx.finished = true := document_finished _ _ s (entryStartT_inv .document src (some n) r) hr
  have ti : TI n (lex none src) s := (kp_entry .document (fuelFor src)).k _ () s (ti_start .document src n r) hr
  rw [h3]
  rcases ti.li.fin hfin with ⟨a1, a2, _, _⟩ | ⟨a1, _, a3, _⟩ <;> omega

/-- …so, for documents, the token-limit error is reported iff the source has more than `n` items. -/
theorem parse_document_token_limit_iff (n r : Nat) (src : Str) (hfree : (parse .document (some n) r src).recHigh ≤ r) :
    HasLim (parse .document (some n) r src).errors ↔ (lex none src).length > n := by
  obtain ⟨_, _, h3, h4, _⟩ := parse_token_limit .document n r src
  have hh := parse_document_tok_high n r src
  constructor
  · intro x
    rcases h4 x with y | y
    · exact (h3 y).2
    · omega
  · intro x
    exact (h3 (by rw [hh]; omega)).1

/-! ### the tree text is a prefix of the input, for every entry point -/

theorem finishStandalone_text (b : Builder) (k : SK) (expected : List SK) (hp : b.parents = [(k, 0)]) (e : Elem)
    (h : finishStandalone b expected = some e) : e.text = textList b.children := by
  simp only [finishStandalone, Builder.finishNode, hp, List.take_zero, List.nil_append, List.drop_zero, Builder.finish] at h
  cases hc : b.children with
  | nil => rw [hc] at h; injection h with h; subst h; simp [Elem.text, textList]
  | cons c cs =>
    rw [hc] at h
    cases c with
    | tok k' t => injection h with h; subst h; simp [Elem.text]
    | node k' cs' =>
      cases cs with
      | nil =>
        simp only [] at h
        split at h <;> (injection h with h; subst h; simp [Elem.text, textList])
      | cons c2 cs2 => injection h with h; subst h; simp [Elem.text]

theorem tree_text_prefix_entry (e : Entry) (tl : Option Nat) (rl : Nat) (src : Str) (root : Elem)
    (h : (parse e tl rl src).outcome = .tree root) (hd : (parse e tl rl src).dropped = false) : root.text <+: src := by
  cases e with
  | document => exact tree_text_prefix tl rl src root h hd
  | selectionSet =>
    unfold parse runEntry at h hd
    simp only [Entry.standalone, Entry.grammar] at h hd
    have hinv := entryStartT_inv .selectionSet src tl rl
    have e0 : ({ initState src tl rl with builder := (initState src tl rl).builder.startNode "SELECTION_SET" } : PState) =
        entryStartT .selectionSet src tl rl := rfl
    rw [e0] at h hd
    have hok := (fieldSet (fuelFor src) >>= fun _ => expectEndOfInput).ok _ hinv
    cases hr : (fieldSet (fuelFor src) >>= fun _ => expectEndOfInput).run (entryStartT .selectionSet src tl rl) with
    | abort w => simp [hr] at h
    | panic m => simp [hr] at h
    | ok a s =>
      simp only [hr, Post] at h hd hok
      have hp : s.builder.parents = [("SELECTION_SET", 0)] := by rw [hok.2.parents]; rfl
      cases hfs : finishStandalone s.builder ["SELECTION_SET"] with
      | none => simp [hfs] at h
      | some r0 =>
        simp only [hfs, Outcome.tree.injEq] at h
        subst h
        rw [finishStandalone_text _ _ _ hp _ hfs]
        have ht := hok.1.text hd
        have horig : s.original = src := by rw [hok.2.original]; rfl
        rw [horig] at ht
        exact ⟨pendingText s.pending ++ (curText s.current ++ s.lx.src), by rw [← ht]; simp [List.append_assoc]⟩
  | type =>
    unfold parse runEntry at h hd
    simp only [Entry.standalone, Entry.grammar] at h hd
    have hinv := entryStartT_inv .type src tl rl
    have e0 : ({ initState src tl rl with builder := (initState src tl rl).builder.startNode "NAMED_TYPE" } : PState) =
        entryStartT .type src tl rl := rfl
    rw [e0] at h hd
    have hok := (ty (fuelFor src) >>= fun _ => expectEndOfInput).ok _ hinv
    cases hr : (ty (fuelFor src) >>= fun _ => expectEndOfInput).run (entryStartT .type src tl rl) with
    | abort w => simp [hr] at h
    | panic m => simp [hr] at h
    | ok a s =>
      simp only [hr, Post] at h hd hok
      have hp : s.builder.parents = [("NAMED_TYPE", 0)] := by rw [hok.2.parents]; rfl
      cases hfs : finishStandalone s.builder ["NAMED_TYPE", "LIST_TYPE", "NON_NULL_TYPE"] with
      | none => simp [hfs] at h
      | some r0 =>
        simp only [hfs, Outcome.tree.injEq] at h
        subst h
        rw [finishStandalone_text _ _ _ hp _ hfs]
        have ht := hok.1.text hd
        have horig : s.original = src := by rw [hok.2.original]; rfl
        rw [horig] at ht
        exact ⟨pendingText s.pending ++ (curText s.current ++ s.lx.src), by rw [← ht]; simp [List.append_assoc]⟩

end Apollo.Parse
