import ApolloModel.Model.Guards
/-
Facts about the fragment-cycle detector model (`detectList`/`detectSel`), proved over the functional
induction principle Lean derives from its well-founded definition.
-/
namespace Apollo.Guards

mutual
/-- fragment `n` is spread somewhere inside the selection (at any nesting depth) -/
inductive MentionsS : Sel → Nat → Prop
  | spread (n : Nat) : MentionsS (.spread n) n
  | nested {sels : List Sel} {n : Nat} : MentionsL sels n → MentionsS (.nested sels) n
inductive MentionsL : List Sel → Nat → Prop
  | head {s : Sel} {rest : List Sel} {n : Nat} : MentionsS s n → MentionsL (s :: rest) n
  | tail {s : Sel} {rest : List Sel} {n : Nat} : MentionsL rest n → MentionsL (s :: rest) n
end

/-- fragment `a` is defined and spreads fragment `b` -/
def Edge (doc : Doc) (a b : Nat) : Prop := ∃ body, lookup doc a = some body ∧ MentionsL body b

inductive ReachStar (doc : Doc) : Nat → Nat → Prop
  | refl (a : Nat) : ReachStar doc a a
  | snoc {a b c : Nat} : ReachStar doc a b → Edge doc b c → ReachStar doc a c

/-- a non-empty chain of spreads from `a` to `b` -/
def Reach (doc : Doc) (a b : Nat) : Prop := ∃ m, ReachStar doc a m ∧ Edge doc m b

def SoundL (doc : Doc) (limit : Nat) (path : List Nat) (st : DState) (sels : List Sel) : Prop :=
  ∀ cur root, path.head? = some root → ReachStar doc root cur → (∀ n, MentionsL sels n → Edge doc cur n) →
    (detectList doc limit path st sels).1 = .recursed → Reach doc root root

def SoundS (doc : Doc) (limit : Nat) (path : List Nat) (st : DState) (s : Sel) : Prop :=
  ∀ cur root, path.head? = some root → ReachStar doc root cur → (∀ n, MentionsS s n → Edge doc cur n) →
    (detectSel doc limit path st s).1 = .recursed → Reach doc root root

theorem head_append_singleton {path : List Nat} {root n : Nat} (h : path.head? = some root) :
    (path ++ [n]).head? = some root := by
  cases path with
  | nil => simp at h
  | cons a t => simpa using h

theorem sound_all (doc : Doc) (limit : Nat) :
    (∀ path st sels, SoundL doc limit path st sels) ∧ (∀ path st s, SoundS doc limit path st s) := by
  apply detectList.mutual_induct doc limit (SoundL doc limit) (SoundS doc limit)
  · intro path st cur root _ _ _ h
    simp [detectList] at h
  · intro path st s rest st' hs ih1 ih2 cur root hh hr hm h
    rw [detectList, hs] at h
    exact ih2 cur root hh hr (fun n hn => hm n (.tail hn)) h
  · intro path st s rest hne ih1 cur root hh hr hm h
    have : detectList doc limit path st (s :: rest) = detectSel doc limit path st s := by
      rw [detectList]
      split
      · rename_i st' heq; exact absurd heq (hne st')
      · rfl
    rw [this] at h
    exact ih1 cur root hh hr (fun n hn => hm n (.head hn)) h
  · intro path st sels ih cur root hh hr hm h
    rw [detectSel] at h
    exact ih cur root hh hr (fun n hn => hm n (.nested hn)) h
  · intro path st n hc hhd cur root hh hr hm _
    have : n = root := by
      rw [hh] at hhd; have : root = n := by simpa using hhd
      exact this.symm
    subst this
    exact ⟨cur, hr, hm n (.spread n)⟩
  · intro path st n hc hhd cur root _ _ _ h
    simp only [detectSel, hc, hhd, if_true, if_false] at h
    simp at h
  · intro path st n hc hs cur root _ _ _ h
    simp only [detectSel, hc, hs, if_true, if_false] at h
    simp at h
  · intro path st n hc hs hl cur root _ _ _ h
    simp only [detectSel, hc, hs, hl, if_true, if_false] at h
    simp at h
  · intro path st n hc hs body hl hlim cur root _ _ _ h
    simp only [detectSel, hc, hs, hl, hlim, if_true, if_false] at h
    simp at h
  · intro path st n hc hs body hl hlim ih cur root hh hr hm h
    rw [detectSel] at h
    simp only [hc, hs, hl, hlim, if_false, Bool.false_eq_true] at h
    exact ih n root (head_append_singleton hh) (.snoc hr (hm n (.spread n)))
      (fun m hm' => ⟨body, hl, hm'⟩) h

def BoundL (doc : Doc) (limit : Nat) (path : List Nat) (st : DState) (sels : List Sel) : Prop :=
  path.length ≤ limit → st.high ≤ limit + 1 → (detectList doc limit path st sels).2.high ≤ limit + 1

def BoundS (doc : Doc) (limit : Nat) (path : List Nat) (st : DState) (s : Sel) : Prop :=
  path.length ≤ limit → st.high ≤ limit + 1 → (detectSel doc limit path st s).2.high ≤ limit + 1

theorem bound_all (doc : Doc) (limit : Nat) :
    (∀ path st sels, BoundL doc limit path st sels) ∧ (∀ path st s, BoundS doc limit path st s) := by
  apply detectList.mutual_induct doc limit (BoundL doc limit) (BoundS doc limit)
  · intro path st _ h; simpa [detectList] using h
  · intro path st s rest st' hs ih1 ih2 hp hh
    rw [detectList, hs]
    have := ih1 hp hh
    rw [hs] at this
    exact ih2 hp this
  · intro path st s rest hne ih1 hp hh
    have : detectList doc limit path st (s :: rest) = detectSel doc limit path st s := by
      rw [detectList]
      split
      · rename_i st' heq; exact absurd heq (hne st')
      · rfl
    rw [this]; exact ih1 hp hh
  · intro path st sels ih hp hh
    rw [detectSel]; exact ih hp hh
  · intro path st n hc hhd _ hh; simp only [detectSel, hc, hhd, if_true, if_false]; exact hh
  · intro path st n hc hhd _ hh; simp only [detectSel, hc, hhd, if_true, if_false]; exact hh
  · intro path st n hc hs _ hh; simp only [detectSel, hc, hs, if_true, if_false]; exact hh
  · intro path st n hc hs hl _ hh; simp only [detectSel, hc, hs, hl, if_true, if_false]; exact hh
  · intro path st n hc hs body hl hlim hp hh
    simp only [detectSel, hc, hs, hl, hlim, if_true, if_false, Bool.false_eq_true]
    show max st.high (path.length + 1) ≤ limit + 1
    omega
  · intro path st n hc hs body hl hlim ih hp hh
    rw [detectSel]
    simp only [hc, hs, hl, hlim, if_false, Bool.false_eq_true]
    apply ih
    · simp; omega
    · show max st.high (path.length + 1) ≤ limit + 1
      omega

theorem keyLe_total (a b : Key) : (keyLe a b || keyLe b a) = true := by
  cases a with
  | none => simp [keyLe]
  | some x =>
    cases b with
    | none => simp [keyLe]
    | some y =>
      obtain ⟨f1, o1⟩ := x; obtain ⟨f2, o2⟩ := y
      simp only [keyLe, Bool.or_eq_true, Bool.and_eq_true, decide_eq_true_eq, beq_iff_eq]
      omega

theorem keyLe_trans (a b c : Key) (h1 : keyLe a b = true) (h2 : keyLe b c = true) : keyLe a c = true := by
  cases a with
  | none => simp [keyLe]
  | some x =>
    cases b with
    | none => simp [keyLe] at h1
    | some y =>
      cases c with
      | none => simp [keyLe] at h2
      | some z =>
        obtain ⟨f1, o1⟩ := x; obtain ⟨f2, o2⟩ := y; obtain ⟨f3, o3⟩ := z
        simp only [keyLe, Bool.or_eq_true, Bool.and_eq_true, decide_eq_true_eq, beq_iff_eq] at *
        omega

end Apollo.Guards
