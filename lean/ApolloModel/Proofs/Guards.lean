import ApolloModel.Model.Guards
/-
Facts about the fragment-cycle detector model (`detectList`/`detectSel`), proved over the functional
induction principle Lean derives from its well-founded definition.
-/
namespace Apollo.Guards

mutual
/-- fragment `n` is spread somewhere inside the selection (at any nesting depth) -/
inductive MentionsS : Sel → Nat → Prop
  | spread (n : Nat) : MentionsS (.spread n) n
  | nested {sels : List Sel} {n : Nat} : MentionsL sels n → MentionsS (.nested sels) n
inductive MentionsL : List Sel → Nat → Prop
  | head {s : Sel} {rest : List Sel} {n : Nat} : MentionsS s n → MentionsL (s :: rest) n
  | tail {s : Sel} {rest : List Sel} {n : Nat} : MentionsL rest n → MentionsL (s :: rest) n
end

/-- fragment `a` is defined and spreads fragment `b` -/
def Edge (doc : Doc) (a b : Nat) : Prop := ∃ body, lookup doc a = some body ∧ MentionsL body b

inductive ReachStar (doc : Doc) : Nat → Nat → Prop
  | refl (a : Nat) : ReachStar doc a a
  | snoc {a b c : Nat} : ReachStar doc a b → Edge doc b c → ReachStar doc a c

/-- a non-empty chain of spreads from `a` to `b` -/
def Reach (doc : Doc) (a b : Nat) : Prop := ∃ m, ReachStar doc a m ∧ Edge doc m b

def SoundL (doc : Doc) (limit dlimit : Nat) (path : List Nat) (depth : Nat) (st : DState) (sels : List Sel) : Prop :=
  ∀ cur root, path.head? = some root → ReachStar doc root cur → (∀ n, MentionsL sels n → Edge doc cur n) →
    (detectList doc limit dlimit path depth st sels).1 = .recursed → Reach doc root root

def SoundS (doc : Doc) (limit dlimit : Nat) (path : List Nat) (depth : Nat) (st : DState) (s : Sel) : Prop :=
  ∀ cur root, path.head? = some root → ReachStar doc root cur → (∀ n, MentionsS s n → Edge doc cur n) →
    (detectSel doc limit dlimit path depth st s).1 = .recursed → Reach doc root root

theorem head_append_singleton {path : List Nat} {root n : Nat} (h : path.head? = some root) :
    (path ++ [n]).head? = some root := by
  cases path with
  | nil => simp at h
  | cons a t => simpa using h

theorem detectList_cons_of_not_ok (doc : Doc) (limit dlimit : Nat) (path : List Nat) (depth : Nat)
    (st : DState) (s : Sel) (rest : List Sel)
    (hne : ∀ st', detectSel doc limit dlimit path depth st s = (Outcome.ok, st') → False) :
    detectList doc limit dlimit path depth st (s :: rest) = detectSel doc limit dlimit path depth st s := by
  rw [detectList]
  split
  · rename_i st' heq; exact absurd heq (hne st')
  · rfl

theorem sound_all (doc : Doc) (limit dlimit : Nat) :
    (∀ path depth st sels, SoundL doc limit dlimit path depth st sels) ∧
    (∀ path depth st s, SoundS doc limit dlimit path depth st s) := by
  apply detectList.mutual_induct doc limit dlimit (SoundL doc limit dlimit) (SoundS doc limit dlimit)
  · intro path depth st cur root _ _ _ h
    simp [detectList] at h
  · intro path depth st s rest st' hs ih1 ih2 cur root hh hr hm h
    rw [detectList, hs] at h
    exact ih2 cur root hh hr (fun n hn => hm n (.tail hn)) h
  · intro path depth st s rest hne ih1 cur root hh hr hm h
    rw [detectList_cons_of_not_ok doc limit dlimit path depth st s rest hne] at h
    exact ih1 cur root hh hr (fun n hn => hm n (.head hn)) h
  · intro path depth st sels hd cur root _ _ _ h
    rw [detectSel] at h
    simp only [hd, if_true] at h
    simp at h
  · intro path depth st sels hd ih cur root hh hr hm h
    rw [detectSel] at h
    simp only [hd, if_false] at h
    exact ih cur root hh hr (fun n hn => hm n (.nested hn)) h
  · intro path depth st n hc hhd cur root hh hr hm _
    have : n = root := by
      rw [hh] at hhd; have : root = n := by simpa using hhd
      exact this.symm
    subst this
    exact ⟨cur, hr, hm n (.spread n)⟩
  · intro path depth st n hc hhd cur root _ _ _ h
    simp only [detectSel, hc, hhd, if_true, if_false] at h
    simp at h
  · intro path depth st n hc hs cur root _ _ _ h
    simp only [detectSel, hc, hs, if_true, if_false] at h
    simp at h
  · intro path depth st n hc hs hl cur root _ _ _ h
    simp only [detectSel, hc, hs, hl, if_true, if_false] at h
    simp at h
  · intro path depth st n hc hs body hl hlim cur root _ _ _ h
    simp only [detectSel, hc, hs, hl, hlim, if_true, if_false] at h
    simp at h
  · intro path depth st n hc hs body hl hlim hd cur root _ _ _ h
    simp only [detectSel, hc, hs, hl, hlim, hd, if_true, if_false] at h
    simp at h
  · intro path depth st n hc hs body hl hlim hd ih cur root hh hr hm h
    rw [detectSel] at h
    simp only [hc, hs, hl, hlim, hd, if_false, Bool.false_eq_true] at h
    exact ih n root (head_append_singleton hh) (.snoc hr (hm n (.spread n)))
      (fun m hm' => ⟨body, hl, hm'⟩) h

/-- both ghost high-water marks stay within their limit + 1: the name stack (`RecursionStack::high`)
    and the call depth (`DepthCounter::high`) -/
def Within (limit dlimit : Nat) (st : DState) : Prop := st.high ≤ limit + 1 ∧ st.dhigh ≤ dlimit + 1

def BoundL (doc : Doc) (limit dlimit : Nat) (path : List Nat) (depth : Nat) (st : DState) (sels : List Sel) : Prop :=
  path.length ≤ limit → depth ≤ dlimit → Within limit dlimit st →
    Within limit dlimit (detectList doc limit dlimit path depth st sels).2

def BoundS (doc : Doc) (limit dlimit : Nat) (path : List Nat) (depth : Nat) (st : DState) (s : Sel) : Prop :=
  path.length ≤ limit → depth ≤ dlimit → Within limit dlimit st →
    Within limit dlimit (detectSel doc limit dlimit path depth st s).2

theorem bound_all (doc : Doc) (limit dlimit : Nat) :
    (∀ path depth st sels, BoundL doc limit dlimit path depth st sels) ∧
    (∀ path depth st s, BoundS doc limit dlimit path depth st s) := by
  apply detectList.mutual_induct doc limit dlimit (BoundL doc limit dlimit) (BoundS doc limit dlimit)
  · intro path depth st _ _ h; simpa [detectList] using h
  · intro path depth st s rest st' hs ih1 ih2 hp hd hh
    rw [detectList, hs]
    have := ih1 hp hd hh
    rw [hs] at this
    exact ih2 hp hd this
  · intro path depth st s rest hne ih1 hp hd hh
    rw [detectList_cons_of_not_ok doc limit dlimit path depth st s rest hne]
    exact ih1 hp hd hh
  · intro path depth st sels hlim hp hd hh
    rw [detectSel]
    simp only [hlim, if_true]
    obtain ⟨h1, h2⟩ := hh
    refine ⟨h1, ?_⟩
    show max st.dhigh (depth + 1) ≤ dlimit + 1
    omega
  · intro path depth st sels hlim ih hp hd hh
    rw [detectSel]
    simp only [hlim, if_false]
    obtain ⟨h1, h2⟩ := hh
    apply ih hp (by omega)
    refine ⟨h1, ?_⟩
    show max st.dhigh (depth + 1) ≤ dlimit + 1
    omega
  · intro path depth st n hc hhd _ _ hh; simp only [detectSel, hc, hhd, if_true, if_false]; exact hh
  · intro path depth st n hc hhd _ _ hh; simp only [detectSel, hc, hhd, if_true, if_false]; exact hh
  · intro path depth st n hc hs _ _ hh; simp only [detectSel, hc, hs, if_true, if_false]; exact hh
  · intro path depth st n hc hs hl _ _ hh; simp only [detectSel, hc, hs, hl, if_true, if_false]; exact hh
  · intro path depth st n hc hs body hl hlim hp hd hh
    simp only [detectSel, hc, hs, hl, hlim, if_true, if_false, Bool.false_eq_true]
    obtain ⟨h1, h2⟩ := hh
    refine ⟨?_, h2⟩
    show max st.high (path.length + 1) ≤ limit + 1
    omega
  · intro path depth st n hc hs body hl hlim hdl hp hd hh
    simp only [detectSel, hc, hs, hl, hlim, hdl, if_true, if_false, Bool.false_eq_true]
    obtain ⟨h1, h2⟩ := hh
    refine ⟨?_, ?_⟩
    · show max st.high (path.length + 1) ≤ limit + 1
      omega
    · show max st.dhigh (depth + 1) ≤ dlimit + 1
      omega
  · intro path depth st n hc hs body hl hlim hdl ih hp hd hh
    rw [detectSel]
    simp only [hc, hs, hl, hlim, hdl, if_false, Bool.false_eq_true]
    obtain ⟨h1, h2⟩ := hh
    apply ih
    · simp; omega
    · omega
    · refine ⟨?_, ?_⟩
      · show max st.high (path.length + 1) ≤ limit + 1
        omega
      · show max st.dhigh (depth + 1) ≤ dlimit + 1
        omega

theorem keyLe_total (a b : Key) : (keyLe a b || keyLe b a) = true := by
  cases a with
  | none => simp [keyLe]
  | some x =>
    cases b with
    | none => simp [keyLe]
    | some y =>
      obtain ⟨f1, o1⟩ := x; obtain ⟨f2, o2⟩ := y
      simp only [keyLe, Bool.or_eq_true, Bool.and_eq_true, decide_eq_true_eq, beq_iff_eq]
      omega

theorem keyLe_trans (a b c : Key) (h1 : keyLe a b = true) (h2 : keyLe b c = true) : keyLe a c = true := by
  cases a with
  | none => simp [keyLe]
  | some x =>
    cases b with
    | none => simp [keyLe] at h1
    | some y =>
      cases c with
      | none => simp [keyLe] at h2
      | some z =>
        obtain ⟨f1, o1⟩ := x; obtain ⟨f2, o2⟩ := y; obtain ⟨f3, o3⟩ := z
        simp only [keyLe, Bool.or_eq_true, Bool.and_eq_true, decide_eq_true_eq, beq_iff_eq] at *
        omega

end Apollo.Guards
