import ApolloModel.Proofs.ParserRecursion20
/-
C04 growth (token limit at the parser level), part 21: a generic pass "every grammar function keeps a state
invariant `P`" for invariants that only look at the lexer state, the error list, `accept_errors` and the
recursion tracker's `high`/`limit` (`StInv P`).  The recursion guard's limit branch is only run in states whose
high-water mark already exceeds the limit (`KeepsHit`).
-/
set_option linter.unusedSimpArgs false
set_option linter.unusedVariables false
namespace Apollo.Parse
open Apollo.Rowan hiding Str
open Apollo.Lex hiding Str

structure Keeps (P : PState → Prop) {α : Type} (m : PI α) : Prop where
  k : ∀ s a s', P s → m.run s = .ok a s' → P s'

/-- kept when started above the recursion limit (the `on_limit` branch of the recursion guard) -/
structure KeepsHit (P : PState → Prop) {α : Type} (m : PI α) : Prop where
  k : ∀ s a s', P s → s.recHigh > s.recLimit → m.run s = .ok a s' → P s'

class StInv (P : PState → Prop) : Prop where
  cong : ∀ s s', s'.lx = s.lx → s'.errors = s.errors → s'.acceptErrors = s.acceptErrors → s'.recHigh = s.recHigh →
    s'.recLimit = s.recLimit → P s → P s'
  next : ∀ fuel s, P s → P (nextTokenRaw fuel s).2
  err : ∀ s e, e.kind ≠ .limit → s.acceptErrors = true → P s → P { s with errors := s.errors ++ [e] }
  high : ∀ s h, s.recHigh ≤ h → P s → P { s with recHigh := h }
  limit : ∀ s i, s.recHigh > s.recLimit → P s →
    P { s with errors := if s.acceptErrors then s.errors ++ [⟨i, 0, .limit⟩] else s.errors, acceptErrors := false }

variable {P : PState → Prop}

theorem kp_same [StInv P] {α : Type} {m : PI α}
    (h : ∀ s a s', m.run s = .ok a s' → s'.lx = s.lx ∧ s'.errors = s.errors ∧ s'.acceptErrors = s.acceptErrors ∧
      s'.recHigh = s.recHigh ∧ s'.recLimit = s.recLimit) : Keeps P m := by
  constructor
  intro s a s' hp hr
  obtain ⟨h1, h2, h3, h4, h5⟩ := h s a s' hr
  exact StInv.cong s s' h1 h2 h3 h4 h5 hp

theorem kp_of_Same [StInv P] {s s' : PState} (o : Same s s') (hp : P s) : P s' :=
  StInv.cong s s' o.lx o.errors o.accept o.recHigh o.recLimit hp

theorem kp_pure [StInv P] {α : Type} (a : α) : Keeps P (pure a : PI α) := by
  constructor
  intro s a' s' hp h
  rw [run_pure] at h
  injection h with _ h
  subst h
  exact hp

theorem kp_bind [StInv P] {α β : Type} (m : PI α) (f : α → PI β) (hm : Keeps P m) (hf : ∀ a, Keeps P (f a)) :
    Keeps P (m >>= f) := by
  constructor
  intro s b s'' hp h
  obtain ⟨a, s', h1, h2⟩ := bind_dec m f s s'' b h
  exact (hf a).k s' b s'' (hm.k s a s' hp h1) h2

theorem kp_ite [StInv P] {α : Type} (c : Bool) (a b : PI α) (ha : Keeps P a) (hb : Keeps P b) :
    Keeps P (if c then a else b) := by
  cases c <;> simp [ha, hb]

theorem kp_withNode [StInv P] {α : Type} (kind : SK) (body : PI α) (hs : Keeps P skipIgnored) (hb : Keeps P body) :
    Keeps P (withNode kind body) := by
  constructor
  intro s a s' hp h
  obtain ⟨s1, s2, o1, hr, o2⟩ := withNode_decS kind body s s' a h
  exact kp_of_Same o2 ((kp_bind _ _ hs (fun _ => hb)).k s1 a s2 (kp_of_Same o1 hp) hr)

theorem kp_withRec [StInv P] {α : Type} (onLimit body : PI α) (hl : KeepsHit P onLimit) (hb : Keeps P body) :
    Keeps P (withRec onLimit body) := by
  constructor
  intro s a s' hp h
  rcases withRec_decH onLimit body s s' a h with ⟨hover, hrun⟩ | ⟨hunder, s2, hrun, hs'⟩
  · refine hl.k _ a s' (StInv.high s _ (Nat.le_max_left _ _) hp) ?_ hrun
    show max s.recHigh (s.recCur + 1) > s.recLimit
    omega
  · subst hs'
    have h2 : P s2 := hb.k { s with recCur := s.recCur + 1, recHigh := max s.recHigh (s.recCur + 1) } a s2
      (StInv.cong { s with recHigh := max s.recHigh (s.recCur + 1) } _ rfl rfl rfl rfl rfl
        (StInv.high s _ (Nat.le_max_left _ _) hp)) hrun
    exact StInv.cong s2 _ rfl rfl rfl rfl rfl h2

theorem kp_wrapIf [StInv P] {α : Type} (kind : SK) (body : PI α) (cond : α → PI Bool) (inner : PI Unit)
    (hb : Keeps P body) (hc : ∀ a, Keeps P (cond a)) (hi : Keeps P inner) : Keeps P (wrapIf kind body cond inner) := by
  constructor
  intro s a s' hp h
  obtain ⟨s1, s2, s3, c, o1, h1, h2, hrest⟩ := wrapIf_decS kind body cond inner s s' a h
  have p3 : P s3 := (hc a).k s2 c s3 (hb.k s1 a s2 (kp_of_Same o1 hp) h1) h2
  rcases hrest with ⟨_, rfl⟩ | ⟨_, s4, s5, o4, h5, o5⟩
  · exact p3
  · exact kp_of_Same o5 (hi.k s4 () s5 (kp_of_Same o4 p3) h5)

/-! ### primitives -/

theorem kp_outOfFuel [StInv P] {α : Type} : Keeps P (PI.outOfFuel : PI α) := ⟨fun s a s' _ h => by simp [PI.outOfFuel] at h⟩
theorem kp_stuck [StInv P] {α : Type} : Keeps P (PI.stuck : PI α) := ⟨fun s a s' _ h => by simp [PI.stuck] at h⟩

theorem kp_peekToken [StInv P] : Keeps P peekToken := by
  constructor
  intro s o s' hp h
  unfold peekToken at h
  simp only [] at h
  cases hc : s.current with
  | some t => simp only [hc, Res.ok.injEq] at h; obtain ⟨_, rfl⟩ := h; exact hp
  | none =>
    simp only [hc, Res.ok.injEq] at h
    obtain ⟨_, rfl⟩ := h
    exact StInv.cong (nextTokenRaw (s.lx.src.length + 3) s).2 _ rfl rfl rfl rfl rfl (StInv.next _ s hp)

theorem kp_moveCurToPending [StInv P] : Keeps P moveCurToPending := by
  refine kp_same ?_
  intro s b s' h
  unfold moveCurToPending at h
  simp only [] at h
  cases hc : s.current with
  | none => simp only [hc] at h; injection h with _ h; subst h; exact ⟨rfl, rfl, rfl, rfl, rfl⟩
  | some t => simp only [hc] at h; split at h <;> (injection h with _ h; subst h; exact ⟨rfl, rfl, rfl, rfl, rfl⟩)

theorem kp_srcLen [StInv P] : Keeps P srcLen :=
  kp_same (fun s a s' h => by unfold srcLen at h; simp only [] at h; injection h with _ h; subst h; exact ⟨rfl, rfl, rfl, rfl, rfl⟩)

theorem kp_getCurrent [StInv P] : Keeps P getCurrent :=
  kp_same (fun s a s' h => by unfold getCurrent at h; simp only [] at h; injection h with _ h; subst h; exact ⟨rfl, rfl, rfl, rfl, rfl⟩)

theorem kp_pushIgnored [StInv P] : Keeps P pushIgnored :=
  kp_same (fun s a s' h => by unfold pushIgnored at h; simp only [] at h; injection h with _ h; subst h; exact ⟨rfl, rfl, rfl, rfl, rfl⟩)

theorem kp_moveCurToTree [StInv P] (kind : SK) : Keeps P (moveCurToTree kind) := by
  refine kp_same ?_
  intro s a s' h
  unfold moveCurToTree at h
  simp only [] at h
  cases hc : s.current with
  | none => simp only [hc] at h; injection h with _ h; subst h; exact ⟨rfl, rfl, rfl, rfl, rfl⟩
  | some t => simp only [hc] at h; injection h with _ h; subst h; exact ⟨rfl, rfl, rfl, rfl, rfl⟩

theorem kp_popDrop [StInv P] : Keeps P popDrop := by
  refine kp_same ?_
  intro s a s' h
  unfold popDrop at h
  simp only [] at h
  cases hc : s.current with
  | none => simp only [hc] at h; injection h with _ h; subst h; exact ⟨rfl, rfl, rfl, rfl, rfl⟩
  | some t => simp only [hc] at h; injection h with _ h; subst h; exact ⟨rfl, rfl, rfl, rfl, rfl⟩

theorem kp_peekTokenN [StInv P] (n : Nat) : Keeps P (peekTokenN n) :=
  kp_same (fun s a s' h => by unfold peekTokenN at h; simp only [] at h; injection h with _ h; subst h; exact ⟨rfl, rfl, rfl, rfl, rfl⟩)

theorem kp_assertRecZero [StInv P] : Keeps P assertRecZero :=
  kp_same (fun s a s' h => by unfold assertRecZero at h; simp only [] at h; injection h with _ h; subst h; exact ⟨rfl, rfl, rfl, rfl, rfl⟩)

/-- `push_err` of an error that is not a limit error -/
theorem kp_pushErr [StInv P] (e : PErr) (he : e.kind ≠ .limit) : Keeps P (pushErr e) := by
  constructor
  intro s a s' hp h
  unfold pushErr errUpdate at h
  simp only [] at h
  injection h with _ h
  subst h
  by_cases ha : s.acceptErrors = true
  · simp only [ha, if_true]
    exact StInv.cong { s with errors := s.errors ++ [e] } _ rfl rfl ha.symm rfl rfl (StInv.err s e he ha hp)
  · have ha' : s.acceptErrors = false := by simpa using ha
    simp only [ha', Bool.false_eq_true, if_false]
    exact StInv.cong s _ rfl rfl ha'.symm rfl rfl hp

/-- `limit_err`, in a state above the recursion limit -/
theorem kh_limitErr [StInv P] : KeepsHit P limitErr := by
  constructor
  intro s a s' hp hh h
  unfold limitErr at h
  obtain ⟨o, s1, h1, h2⟩ := bind_dec peekToken _ s s' () h
  have p1 : P s1 := kp_peekToken.k s o s1 hp h1
  have o1 := plain_peekToken.out s o s1 h1
  cases o with
  | none =>
    simp only [] at h2
    rw [run_pure] at h2
    injection h2 with _ h2
    subst h2
    exact p1
  | some t =>
    simp only [] at h2
    unfold errUpdate at h2
    simp only [] at h2
    injection h2 with _ h2
    subst h2
    exact StInv.limit s1 t.index (by rw [o1.recHigh, o1.recLimit]; exact hh) p1

theorem kh_bind_pure [StInv P] {α : Type} (a : α) : KeepsHit P (limitErr >>= fun _ => (pure a : PI α)) := by
  constructor
  intro s b s'' hp hh h
  obtain ⟨u, s', h1, h2⟩ := bind_dec limitErr _ s s'' b h
  rw [run_pure] at h2
  injection h2 with _ h2
  subst h2
  exact kh_limitErr.k s u s' hp hh h1

end Apollo.Parse
