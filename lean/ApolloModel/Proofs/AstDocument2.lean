import ApolloModel.Proofs.AstDocument
/-
Every definition and every document reads back from its printed tokens.
-/
namespace Apollo.Ast

theorem directiveDef_roundtrip (desc : Option Str) (name : Str) (args : List InputValueDef) (rep : Bool)
    (locs : List Str) (f : Nat) (rest : List Tok) (h1 : wfIVDs args = true) (hne : locs ≠ [])
    (hs : szIVDs args + locs.length ≤ f) (hr : defFollow rest = true) :
    pTypeSystemRest f desc "directive".toList
      (.p .at :: .name name :: tArgsDef args ++ (if rep then [.name sRepeatable] else [])
        ++ tSepList [.name sOn] .pipe locs ++ rest) = some (.directiveDef desc name args rep locs, rest) := by
  have hc := defFollow_calm hr
  obtain ⟨l, ls, rfl⟩ : ∃ l ls, locs = l :: ls := by
    cases locs with
    | nil => exact absurd rfl hne
    | cons a r => exact ⟨a, r, rfl⟩
  have a := argumentsDefinition_roundtrip args f
    ((if rep then [.name sRepeatable] else []) ++ tSepList [.name sOn] .pipe (l :: ls) ++ rest) h1 (by omega)
    (by cases rep <;> simp [notLParen, tSepList])
  have c := sepList_roundtrip .pipe l ls f rest (by simp at hs; omega)
    (calm_ne hc .pipe (by decide) (by decide) (by decide))
  have hro : sOn ≠ sRepeatable := by decide
  cases rep with
  | true =>
    simp only [if_true, tSepList, List.cons_append, List.nil_append, List.append_assoc] at a c ⊢
    simp [pTypeSystemRest, a, c]
  | false =>
    simp only [Bool.false_eq_true, if_false, tSepList, List.cons_append, List.nil_append, List.append_assoc] at a c ⊢
    simp [pTypeSystemRest, a, c, hro]

/-- a definition (not in shorthand form) reads back when followed by the end of input or another definition -/
theorem definition_roundtrip (d : Definition) (f : Nat) (rest : List Tok) (h : wfDefinition d = true)
    (hs : szDefinition d ≤ f) (hr : defFollow rest = true) :
    pDefinition f (tDefinition false d ++ rest) = some (d, rest) := by
  have hc := defFollow_calm hr
  cases d with
  | operation ty name vars dirs sels =>
    simp only [wfDefinition, Bool.and_eq_true] at h
    simp only [szDefinition] at hs
    have := operation_roundtrip ty name vars dirs sels f rest h.1.1.1 h.1.1.2 h.1.2 (nonNil_ne h.2) (by omega)
    simp only [tDefinition, isShorthand, Bool.false_and, Bool.false_eq_true, if_false, List.cons_append,
      List.append_assoc] at this ⊢
    rw [pDefinition_op]
    exact this
  | fragment name tc dirs sels =>
    simp only [wfDefinition, Bool.and_eq_true, bne_iff_ne, ne_eq] at h
    simp only [szDefinition] at hs
    obtain ⟨b, c⟩ := dirsSelSet_roundtrip dirs sels f rest h.1.1.2 h.1.2 (nonNil_ne h.2) (by omega)
    simp only [tDefinition, List.cons_append, List.append_assoc] at b c ⊢
    simp [pDefinition, opTypeOf, h.1.1.1, b, c]
  | directiveDef desc name args rep locs =>
    simp only [wfDefinition, Bool.and_eq_true, Bool.not_eq_true', List.isEmpty_eq_false_iff] at h
    simp only [szDefinition] at hs
    have := directiveDef_roundtrip desc name args rep locs f rest h.1 h.2 (by omega) hr
    simp only [tDefinition, List.cons_append, List.append_assoc] at this ⊢
    rw [typeSystem_dispatch f desc _ _ (by simp [opTypeOf]) (by simp) (by simp)]
    exact this
  | schemaDef desc dirs roots =>
    simp only [wfDefinition, Bool.and_eq_true, Bool.not_eq_true', List.isEmpty_eq_false_iff] at h
    simp only [szDefinition] at hs
    have b := directives_roundtrip dirs f (.p .lCurly :: tRootOpItems roots ++ .p .rCurly :: rest) h.1 (by omega)
      (by simp [dirFollow])
    have c := rootOps_roundtrip roots f rest h.2 (by omega)
    simp only [tDefinition, List.cons_append, List.append_assoc, List.nil_append] at b c ⊢
    rw [typeSystem_dispatch f desc _ _ (by simp [opTypeOf]) (by simp) (by simp)]
    simp [pTypeSystemRest, b, c]
  | scalarDef desc name dirs =>
    simp only [wfDefinition] at h
    simp only [szDefinition] at hs
    have b := directives_roundtrip dirs f rest h (by omega) (calm_dirFollow hc)
    simp only [tDefinition, List.cons_append, List.append_assoc] at b ⊢
    rw [typeSystem_dispatch f desc _ _ (by simp [opTypeOf]) (by simp) (by simp)]
    simp [pTypeSystemRest, b]
  | objectDef desc name impls dirs fields =>
    simp only [wfDefinition, Bool.and_eq_true] at h
    simp only [szDefinition] at hs
    have b := objectTypeLike_roundtrip name impls dirs fields f rest h.1 h.2 (by omega) hr
    simp only [tDefinition, List.cons_append, List.append_assoc] at b ⊢
    rw [typeSystem_dispatch f desc _ _ (by simp [opTypeOf]) (by simp) (by simp)]
    simp [pTypeSystemRest, b]
  | interfaceDef desc name impls dirs fields =>
    simp only [wfDefinition, Bool.and_eq_true] at h
    simp only [szDefinition] at hs
    have b := objectTypeLike_roundtrip name impls dirs fields f rest h.1 h.2 (by omega) hr
    simp only [tDefinition, List.cons_append, List.append_assoc] at b ⊢
    rw [typeSystem_dispatch f desc _ _ (by simp [opTypeOf]) (by simp) (by simp)]
    simp [pTypeSystemRest, b]
  | unionDef desc name dirs members =>
    simp only [wfDefinition] at h
    simp only [szDefinition] at hs
    have b := unionBody_roundtrip name dirs members f rest h (by omega) hr
    simp only [tDefinition, List.cons_append, List.append_assoc] at b ⊢
    rw [typeSystem_dispatch f desc _ _ (by simp [opTypeOf]) (by simp) (by simp)]
    simp [pTypeSystemRest, b]
  | enumDef desc name dirs values =>
    simp only [wfDefinition, Bool.and_eq_true] at h
    simp only [szDefinition] at hs
    have b := enumBody_roundtrip name dirs values f rest h.1 h.2 (by omega) hr
    simp only [tDefinition, List.cons_append, List.append_assoc] at b ⊢
    rw [typeSystem_dispatch f desc _ _ (by simp [opTypeOf]) (by simp) (by simp)]
    simp [pTypeSystemRest, b]
  | inputDef desc name dirs fields =>
    simp only [wfDefinition, Bool.and_eq_true] at h
    simp only [szDefinition] at hs
    have b := inputBody_roundtrip name dirs fields f rest h.1 h.2 (by omega) hr
    simp only [tDefinition, List.cons_append, List.append_assoc] at b ⊢
    rw [typeSystem_dispatch f desc _ _ (by simp [opTypeOf]) (by simp) (by simp)]
    simp [pTypeSystemRest, b]
  | schemaExt dirs roots =>
    simp only [wfDefinition] at h
    simp only [szDefinition] at hs
    simp only [tDefinition, List.cons_append, List.append_assoc]
    rw [extension_dispatch]
    cases roots with
    | nil =>
      have b := directives_roundtrip dirs f rest h (by omega) (calm_dirFollow hc)
      simp only [tBraced, List.isEmpty_nil, if_true, List.nil_append]
      have hl := calm_ne hc .lCurly (by decide) (by decide) (by decide)
      cases rest with
      | nil =>
        simp only [List.append_nil] at b ⊢
        simp [pExtensionRest, b]
      | cons a r =>
        simp only [List.head?_cons, ne_eq, Option.some.injEq] at hl
        cases a with
        | p k => cases k <;> first | exact absurd rfl hl | simp [pExtensionRest, b]
        | _ => simp [pExtensionRest, b]
    | cons a r =>
      have b := directives_roundtrip dirs f (.p .lCurly :: tRootOpItems (a :: r) ++ .p .rCurly :: rest) h (by omega)
        (by simp [dirFollow])
      have c := rootOps_roundtrip (a :: r) f rest (by simp) (by omega)
      simp only [tBraced, List.isEmpty_cons, Bool.false_eq_true, if_false, List.cons_append, List.append_assoc,
        List.nil_append] at b c ⊢
      simp [pExtensionRest, b, c]
  | scalarExt name dirs =>
    simp only [wfDefinition] at h
    simp only [szDefinition] at hs
    have b := directives_roundtrip dirs f rest h (by omega) (calm_dirFollow hc)
    simp only [tDefinition, List.cons_append, List.append_assoc]
    rw [extension_dispatch]
    simp [pExtensionRest, b]
  | objectExt name impls dirs fields =>
    simp only [wfDefinition, Bool.and_eq_true] at h
    simp only [szDefinition] at hs
    have b := objectTypeLike_roundtrip name impls dirs fields f rest h.1 h.2 (by omega) hr
    simp only [tDefinition, List.cons_append, List.append_assoc]
    rw [extension_dispatch]
    simp [pExtensionRest, b]
  | interfaceExt name impls dirs fields =>
    simp only [wfDefinition, Bool.and_eq_true] at h
    simp only [szDefinition] at hs
    have b := objectTypeLike_roundtrip name impls dirs fields f rest h.1 h.2 (by omega) hr
    simp only [tDefinition, List.cons_append, List.append_assoc]
    rw [extension_dispatch]
    simp [pExtensionRest, b]
  | unionExt name dirs members =>
    simp only [wfDefinition] at h
    simp only [szDefinition] at hs
    have b := unionBody_roundtrip name dirs members f rest h (by omega) hr
    simp only [tDefinition, List.cons_append, List.append_assoc]
    rw [extension_dispatch]
    simp [pExtensionRest, b]
  | enumExt name dirs values =>
    simp only [wfDefinition, Bool.and_eq_true] at h
    simp only [szDefinition] at hs
    have b := enumBody_roundtrip name dirs values f rest h.1 h.2 (by omega) hr
    simp only [tDefinition, List.cons_append, List.append_assoc]
    rw [extension_dispatch]
    simp [pExtensionRest, b]
  | inputExt name dirs fields =>
    simp only [wfDefinition, Bool.and_eq_true] at h
    simp only [szDefinition] at hs
    have b := inputBody_roundtrip name dirs fields f rest h.1 h.2 (by omega) hr
    simp only [tDefinition, List.cons_append, List.append_assoc]
    rw [extension_dispatch]
    simp [pExtensionRest, b]

end Apollo.Ast
