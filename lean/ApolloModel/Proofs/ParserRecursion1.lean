import ApolloModel.Proofs.ParserType5
/-
C04 growth (recursion limit across runs), part 1: what the primitives and combinators of parser/mod.rs do
to the three things the recursion limit is about — the high-water mark of the recursion tracker, the
presence of a limit error in the error list, and whether errors are still accepted.  Only the recursion
guard (`withRec`) and `limit_err` touch them.
-/
set_option linter.unusedSimpArgs false
namespace Apollo.Parse
open Apollo.Rowan hiding Str
open Apollo.Lex hiding Str

/-- the error list contains a limit error -/
def HasLim (es : List PErr) : Prop := ∃ e, e ∈ es ∧ e.kind = .limit

theorem hasLim_append (a b : List PErr) : HasLim (a ++ b) ↔ HasLim a ∨ HasLim b := by
  unfold HasLim
  constructor
  · rintro ⟨e, he, hk⟩
    rcases List.mem_append.mp he with h | h
    · exact Or.inl ⟨e, h, hk⟩
    · exact Or.inr ⟨e, h, hk⟩
  · rintro (⟨e, he, hk⟩ | ⟨e, he, hk⟩)
    · exact ⟨e, List.mem_append.mpr (Or.inl he), hk⟩
    · exact ⟨e, List.mem_append.mpr (Or.inr he), hk⟩

theorem hasLim_single (e : PErr) : HasLim [e] ↔ e.kind = .limit := by
  unfold HasLim
  constructor
  · rintro ⟨x, hx, hk⟩
    simp only [List.mem_singleton] at hx
    subst hx
    exact hk
  · intro h
    exact ⟨e, by simp, h⟩

/-- a run that left the recursion bookkeeping alone -/
structure Q (s s' : PState) : Prop where
  recHigh : s'.recHigh = s.recHigh
  lim : HasLim s'.errors ↔ HasLim s.errors
  accept : s'.acceptErrors = s.acceptErrors

theorem Q.refl (s : PState) : Q s s := ⟨rfl, Iff.rfl, rfl⟩

theorem Q.trans {a b c : PState} (h1 : Q a b) (h2 : Q b c) : Q a c :=
  ⟨h2.recHigh.trans h1.recHigh, h2.lim.trans h1.lim, h2.accept.trans h1.accept⟩

/-- all token-level and limit-level fields unchanged (only the tree, the pending list or ghosts moved) -/
structure Same (s s' : PState) : Prop where
  current : s'.current = s.current
  lx : s'.lx = s.lx
  errors : s'.errors = s.errors
  accept : s'.acceptErrors = s.acceptErrors
  recCur : s'.recCur = s.recCur
  recLimit : s'.recLimit = s.recLimit
  recHigh : s'.recHigh = s.recHigh

theorem Same.obs {s s' : PState} (h : Same s s') : ObsEq s s' :=
  ⟨h.current, h.lx, h.errors, h.accept, h.recCur, h.recLimit⟩

theorem Same.q {s s' : PState} (h : Same s s') : Q s s' := ⟨h.recHigh, by rw [h.errors], h.accept⟩

def QG {α : Type} (m : PI α) : Prop := ∀ s a s', TW s → m.run s = .ok a s' → Q s s'

theorem qg_pure {α : Type} (a : α) : QG (pure a : PI α) := by
  intro s a' s' _ h
  rw [run_pure] at h
  injection h with _ h; subst h
  exact Q.refl s

theorem qg_bind {α β : Type} (m : PI α) (f : α → PI β) (gm : Good m) (hm : QG m) (hf : ∀ a, QG (f a)) :
    QG (m >>= f) := by
  intro s b s'' w h
  obtain ⟨a, s', h1, h2⟩ := bind_dec m f s s'' b h
  exact (hm s a s' w h1).trans (hf a s' b s'' (gm s a s' w h1).w h2)

/-! ### primitives -/

theorem nextTokenRaw_q : ∀ (fuel : Nat) (s : PState), s.lx.limit = none → Q s (nextTokenRaw fuel s).2
  | 0, s, _ => by simp [nextTokenRaw]; exact Q.refl s
  | fuel + 1, s, hl => by
    unfold nextTokenRaw
    rcases lexNext_cases s.lx hl with ⟨_, h⟩ | ⟨_, _, l', h, _, hl', _⟩ | ⟨_, o, l', h, _, _, hl', _⟩
    · simp only [h]; exact ⟨rfl, Iff.rfl, rfl⟩
    · simp only [h]; exact ⟨rfl, Iff.rfl, rfl⟩
    · simp only [h]
      cases o with
      | tok t => exact ⟨rfl, Iff.rfl, rfl⟩
      | err d i =>
        simp only []
        have ih := nextTokenRaw_q fuel { s with
          lx := l', pending := if d.isEmpty then s.pending else s.pending ++ [.error d],
          errors := s.errors ++ [⟨i, utf8Len d, .lexer⟩] } hl'
        refine ⟨ih.recHigh, ?_, ih.accept⟩
        rw [ih.lim]
        simp only [hasLim_append, hasLim_single]
        constructor
        · rintro (h | h)
          · exact h
          · cases h
        · exact Or.inl
      | limit i =>
        exfalso
        have : (lexNext s.lx).1 = some (.limit i) := by rw [h]
        unfold lexNext at this
        by_cases hf : s.lx.finished = true
        · simp [hf] at this
        · simp only [hf, Bool.false_eq_true, if_false, lexCheck_no_limit s.lx hl] at this
          cases hs : s.lx.src with
          | nil => simp [hs] at this
          | cons c rest =>
            simp only [hs] at this
            cases hr : (advance (c :: rest)).1 <;> simp [hr] at this

theorem qg_peekToken : QG peekToken := by
  intro s o s' w h
  unfold peekToken at h
  simp only [] at h
  cases hc : s.current with
  | some t =>
    simp only [hc, Res.ok.injEq] at h
    obtain ⟨_, rfl⟩ := h
    exact Q.refl s
  | none =>
    simp only [hc, Res.ok.injEq] at h
    obtain ⟨_, rfl⟩ := h
    have q := nextTokenRaw_q (s.lx.src.length + 3) s w.limit
    exact ⟨q.recHigh, q.lim, q.accept⟩

theorem qg_peek : QG peek := qg_bind _ _ good_peekToken qg_peekToken (fun _ => qg_pure _)

theorem qg_moveCurToPending : QG moveCurToPending := by
  intro s b s' _ h
  unfold moveCurToPending at h
  simp only [] at h
  cases hc : s.current with
  | none => simp only [hc] at h; injection h with _ h; subst h; exact Q.refl s
  | some t =>
    simp only [hc] at h
    split at h <;> (injection h with _ h; subst h; exact ⟨rfl, Iff.rfl, rfl⟩)

theorem good_moveCurToPending : Good moveCurToPending := by
  intro s b s' w h
  rcases moveCurToPending_spec s s' b w h with ⟨_, _, _, _, e, _⟩ | ⟨_, hs, _⟩
  · exact e.adv
  · rw [hs]; exact Adv.refl s w

theorem qg_skipIgnoredLoop : ∀ (fuel : Nat), QG (skipIgnoredLoop fuel)
  | 0 => by intro s a s' _ h; simp [skipIgnoredLoop, PI.outOfFuel] at h
  | fuel + 1 => by
    unfold skipIgnoredLoop
    refine qg_bind _ _ good_peekToken qg_peekToken (fun _ => ?_)
    refine qg_bind _ _ good_moveCurToPending qg_moveCurToPending (fun b => ?_)
    cases b with
    | true => exact qg_skipIgnoredLoop fuel
    | false => exact qg_pure _

theorem qg_skipIgnored : QG skipIgnored := by
  intro s a s' w h
  unfold skipIgnored at h
  obtain ⟨n, s1, h1, h2⟩ := bind_dec srcLen _ s s' () h
  have : s1 = s := by
    unfold srcLen at h1
    simp only [] at h1
    injection h1 with _ h1
    exact h1.symm
  subst this
  exact qg_skipIgnoredLoop _ s1 a s' w h2

theorem pushIgnored_same (s s' : PState) (h : pushIgnored.run s = .ok () s') : Same s s' := by
  unfold pushIgnored at h
  simp only [] at h
  injection h with _ h
  subst h
  exact ⟨rfl, rfl, rfl, rfl, rfl, rfl, rfl⟩

theorem qg_pushIgnored : QG pushIgnored := fun s _ s' _ h => (pushIgnored_same s s' h).q

theorem good_pushIgnored : Good pushIgnored := fun s _ s' w h => (Eat.ofObsEq (pushIgnored_obs s s' h) w).adv

theorem qg_moveCurToTree (kind : SK) : QG (moveCurToTree kind) := by
  intro s a s' _ h
  unfold moveCurToTree at h
  simp only [] at h
  cases hc : s.current with
  | none => simp only [hc] at h; injection h with _ h; subst h; exact Q.refl s
  | some t => simp only [hc] at h; injection h with _ h; subst h; exact ⟨rfl, Iff.rfl, rfl⟩

theorem good_moveCurToTree (kind : SK) : Good (moveCurToTree kind) := by
  intro s a s' w h
  rcases moveCurToTree_spec kind s s' w h with ⟨_, _, e, _⟩ | ⟨_, hs⟩
  · exact e.adv
  · rw [hs]; exact Adv.refl s w

theorem qg_eat (kind : SK) : QG (eat kind) := by
  unfold eat
  exact qg_bind _ _ good_pushIgnored qg_pushIgnored (fun _ =>
    qg_bind _ _ good_peekToken qg_peekToken (fun _ => qg_moveCurToTree kind))

theorem qg_bump (kind : SK) : QG (bump kind) := by
  unfold bump
  exact qg_bind _ _ (good_eat kind) (qg_eat kind) (fun _ => qg_skipIgnored)

/-- `push_err` of an error that is not a limit error -/
theorem qg_pushErr (e : PErr) (he : e.kind ≠ .limit) : QG (pushErr e) := by
  intro s a s' _ h
  unfold pushErr errUpdate at h
  simp only [] at h
  injection h with _ h
  subst h
  refine ⟨rfl, ?_, rfl⟩
  simp only []
  split
  · rw [hasLim_append, hasLim_single]
    constructor
    · rintro (h | h)
      · exact h
      · exact absurd h he
    · exact Or.inl
  · exact Iff.rfl

theorem tokErr_kind (t : Tok) : (tokErr t).kind ≠ .limit := by
  unfold tokErr
  split <;> simp

theorem qg_errAtToken (t : Tok) : QG (errAtToken t) := qg_pushErr _ (tokErr_kind t)

theorem qg_err : QG err := by
  unfold err
  refine qg_bind _ _ good_peekToken qg_peekToken (fun o => ?_)
  cases o with
  | none => exact qg_pure _
  | some t => exact qg_pushErr _ (tokErr_kind t)

theorem qg_expect (token : Kind) (kind : SK) : QG (expect token kind) := by
  unfold expect
  refine qg_bind _ _ good_peekToken qg_peekToken (fun o => ?_)
  cases o with
  | none => exact qg_pure _
  | some t =>
    simp only []
    split
    · exact qg_bump kind
    · exact qg_pushErr _ (tokErr_kind t)

theorem qg_popDrop : QG popDrop := by
  intro s o s' _ h
  unfold popDrop at h
  simp only [] at h
  cases hc : s.current with
  | none => simp only [hc] at h; injection h with _ h; subst h; exact ⟨rfl, Iff.rfl, rfl⟩
  | some t => simp only [hc] at h; injection h with _ h; subst h; exact ⟨rfl, Iff.rfl, rfl⟩

end Apollo.Parse
