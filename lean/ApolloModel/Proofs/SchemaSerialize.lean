import ApolloModel.Model.SchemaSerialize
import ApolloModel.Proofs.SchemaBuild3
/-
Helper lemmas for C12: re-building the definitions that `to_ast` emits for one type regroups every component
list by origin in `extensions()` order.
-/
namespace Apollo.SchemaSerialize
open Apollo.SchemaBuild

/-! ### first occurrences -/

theorem mem_firstOcc : ∀ (l : List Pos) (x : Pos), x ∈ firstOcc l ↔ x ∈ l := by
  intro l
  induction l with
  | nil => intro x; simp [firstOcc]
  | cons y ys ih =>
    intro x
    simp only [firstOcc, List.mem_cons, List.mem_filter, ih]
    constructor
    · rintro (h | ⟨h, _⟩)
      · exact Or.inl h
      · exact Or.inr h
    · intro h
      by_cases e : x = y
      · exact Or.inl e
      · rcases h with h | h
        · exact Or.inl h
        · exact Or.inr ⟨h, by simpa using e⟩

theorem firstOcc_nodup : ∀ (l : List Pos), (firstOcc l).Nodup := by
  intro l
  induction l with
  | nil => simp [firstOcc]
  | cons y ys ih =>
    simp only [firstOcc, List.nodup_cons, List.mem_filter]
    refine ⟨?_, ih.filter _⟩
    rintro ⟨_, h⟩
    simp at h

/-! ### sticky extension with fresh names appends everything -/

def names (cs : List Comp) : List Name := cs.map (·.name)

theorem hasName_iff (cs : List Comp) (n : Name) : hasName cs n = true ↔ n ∈ names cs := by
  simp [hasName, names, List.any_eq_true]

theorem extendSticky_fresh (dup : Name → Diag) (o : Option Pos) : ∀ (its : List Item) (cs : List Comp) (errs : List Err),
    (∀ it ∈ its, it.name ∉ names cs) → (its.map (·.name)).Nodup →
    extendSticky dup o cs errs its = (cs ++ its.map (Item.toComp o), errs) := by
  intro its
  induction its with
  | nil => intro cs errs _ _; simp [extendSticky]
  | cons it rest ih =>
    intro cs errs hfresh hnd
    have h1 : hasName cs it.name = false := by
      have := hfresh it (by simp)
      cases h : hasName cs it.name with
      | false => rfl
      | true => exact absurd ((hasName_iff cs it.name).mp h) this
    simp only [List.map_cons, List.nodup_cons] at hnd
    unfold extendSticky
    simp only [h1, Bool.false_eq_true, if_false]
    rw [ih (cs ++ [it.toComp o]) errs ?_ hnd.2]
    · simp
    · intro x hx
      have hx1 := hfresh x (by simp [hx])
      simp only [names, List.map_append, List.mem_append, not_or] at *
      refine ⟨hx1, ?_⟩
      simp only [List.map_cons, List.map_nil, List.mem_singleton, Item.toComp]
      intro e
      exact hnd.1 (by rw [← e]; exact List.mem_map_of_mem hx)

/-! ### components round-trip through AST items -/

def HasPos (cs : List Comp) : Prop := ∀ c ∈ cs, c.pos.isSome = true

theorem toComp_toItem (c : Comp) (h : c.pos.isSome = true) : (Comp.toItem c).toComp c.origin = c := by
  obtain ⟨n, p, o, t⟩ := c
  cases p with
  | none => simp at h
  | some p => rfl

theorem partOf_toComp (o : Option Pos) (cs : List Comp) (h : HasPos cs) :
    (partOf o cs).map (Item.toComp o) = cs.filter (fun c => c.origin == o) := by
  unfold partOf
  rw [List.map_map]
  have : ∀ c ∈ cs.filter (fun c => c.origin == o), (Item.toComp o ∘ Comp.toItem) c = id c := by
    intro c hc
    have hm := List.mem_filter.mp hc
    have ho : c.origin = o := by simpa using hm.2
    simp only [Function.comp, id]
    rw [← ho]
    exact toComp_toItem c (h c hm.1)
  rw [List.map_congr_left this, List.map_id]

theorem partOf_names (o : Option Pos) (cs : List Comp) :
    (partOf o cs).map (·.name) = names (cs.filter (fun c => c.origin == o)) := by
  unfold partOf names
  rw [List.map_map]
  rfl

/-! ### names are distinct, so blocks of different origins have disjoint names -/

theorem nodup_map_inj {α β : Type} (f : α → β) : ∀ (l : List α), (l.map f).Nodup →
    ∀ a ∈ l, ∀ b ∈ l, f a = f b → a = b := by
  intro l
  induction l with
  | nil => intro _ a ha; cases ha
  | cons x xs ih =>
    intro hnd a ha b hb hab
    simp only [List.map_cons, List.nodup_cons] at hnd
    rcases List.mem_cons.mp ha with rfl | ha'
    · rcases List.mem_cons.mp hb with rfl | hb'
      · rfl
      · exact absurd (by rw [hab]; exact List.mem_map_of_mem hb') hnd.1
    · rcases List.mem_cons.mp hb with rfl | hb'
      · exact absurd (by rw [← hab]; exact List.mem_map_of_mem ha') hnd.1
      · exact ih hnd.2 a ha' b hb' hab

theorem regroup_prefix_fresh (cs : List Comp) (hnd : (names cs).Nodup) (P : List Pos) (e : Pos) (he : e ∉ P) :
    ∀ it ∈ partOf (some e) cs,
      it.name ∉ names (regroup P cs) := by
  intro it hit hmem
  unfold regroup at hmem
  unfold partOf at hit
  obtain ⟨c, hc, rfl⟩ := List.mem_map.mp hit
  have hcm := List.mem_filter.mp hc
  have hco : c.origin = some e := by simpa using hcm.2
  unfold names at hmem
  obtain ⟨c', hc', hn⟩ := List.mem_map.mp hmem
  have hc'cs : c' ∈ cs ∧ (c'.origin = none ∨ ∃ e' ∈ P, c'.origin = some e') := by
    rcases List.mem_append.mp hc' with h | h
    · have := List.mem_filter.mp h
      exact ⟨this.1, Or.inl (by simpa using this.2)⟩
    · obtain ⟨e', he', h'⟩ := List.mem_flatMap.mp h
      have := List.mem_filter.mp h'
      exact ⟨this.1, Or.inr ⟨e', he', by simpa using this.2⟩⟩
  have heq : c' = c := nodup_map_inj (fun c : Comp => c.name) cs (show (cs.map (fun c : Comp => c.name)).Nodup from hnd) c' hc'cs.1 c hcm.1 (by simpa [Comp.toItem] using hn)
  subst heq
  rcases hc'cs.2 with h | ⟨e', he', h⟩
  · rw [h] at hco; cases hco
  · rw [h] at hco
    injection hco with hco
    subst hco
    exact he he'

theorem filter_names_nodup (cs : List Comp) (hnd : (names cs).Nodup) (p : Comp → Bool) : (names (cs.filter p)).Nodup := by
  unfold names at *
  exact (List.filter_sublist.map _).nodup hnd

/-! ### one body through `extend_ast` -/

/-- a body of which every list is "definition components, then the components of the extensions `P`" -/
def groupedBody (b : Body) (P : List Pos) : Body :=
  ⟨regroup P b.directives, regroup P b.interfaces, regroup P b.members⟩

theorem regroup_snoc (P : List Pos) (e : Pos) (cs : List Comp) :
    regroup (P ++ [e]) cs = regroup P cs ++ cs.filter (fun c => c.origin == some e) := by
  simp [regroup, List.flatMap_append]

/-- well-formedness of a built body: located components, distinct interface and member names -/
structure BodyWF (b : Body) : Prop where
  dpos : HasPos b.directives
  ipos : HasPos b.interfaces
  mpos : HasPos b.members
  inames : (names b.interfaces).Nodup
  mnames : (names b.members).Nodup

theorem extendBody_ext (dupI dupM : Name → Diag) (b : Body) (wf : BodyWF b) (P : List Pos) (e : Pos) (he : e ∉ P)
    (tag : DefTag) (n : Name) (errs : List Err) :
    extendBody dupI dupM (some e) (groupedBody b P) (defOfBody tag n e (some e) b) errs
      = (groupedBody b (P ++ [e]), errs) := by
  unfold extendBody defOfBody groupedBody
  simp only []
  rw [extendSticky_fresh dupI (some e) _ _ errs (regroup_prefix_fresh b.interfaces wf.inames P e he)
    (by rw [partOf_names]; exact filter_names_nodup _ wf.inames _)]
  simp only []
  rw [extendSticky_fresh dupM (some e) _ _ errs (regroup_prefix_fresh b.members wf.mnames P e he)
    (by rw [partOf_names]; exact filter_names_nodup _ wf.mnames _)]
  simp only [regroup_snoc, partOf_toComp _ _ wf.dpos, partOf_toComp _ _ wf.ipos, partOf_toComp _ _ wf.mpos]

theorem extendBody_def (dupI dupM : Name → Diag) (b : Body) (wf : BodyWF b)
    (tag : DefTag) (n : Name) (p : Pos) (errs : List Err) :
    extendBody dupI dupM none Body.empty (defOfBody tag n p none b) errs = (groupedBody b [], errs) := by
  unfold extendBody defOfBody groupedBody Body.empty
  simp only []
  rw [extendSticky_fresh dupI none _ _ errs (by intro it _; simp [names])
    (by rw [partOf_names]; exact filter_names_nodup _ wf.inames _)]
  simp only []
  rw [extendSticky_fresh dupM none _ _ errs (by intro it _; simp [names])
    (by rw [partOf_names]; exact filter_names_nodup _ wf.mnames _)]
  simp only [regroup, partOf_toComp _ _ wf.dpos, partOf_toComp _ _ wf.ipos, partOf_toComp _ _ wf.mpos,
    List.nil_append, List.flatMap_nil, List.append_nil]

/-- adopting / applying the extension definitions of `to_ast` one after another -/
theorem foldl_adoptStep_exts (k : Kind) (n : Name) (b : Body) (wf : BodyWF b) (t0 : TypeEntry) :
    ∀ (es P : List Pos) (errs : List Err), (P ++ es).Nodup →
      (es.map (fun e => defOfBody (.typeExt k) n e (some e) b)).foldl (adoptStep k)
          ({ t0 with body := groupedBody b P }, errs)
        = ({ t0 with body := groupedBody b (P ++ es) }, errs) := by
  intro es
  induction es with
  | nil => intro P errs _; simp
  | cons e es ih =>
    intro P errs hnd
    have he : e ∉ P := by
      intro h
      have := List.nodup_append.mp hnd
      exact this.2.2 e h e (by simp) rfl
    simp only [List.map_cons, List.foldl_cons]
    have hstep : adoptStep k ({ t0 with body := groupedBody b P }, errs) (defOfBody (.typeExt k) n e (some e) b)
        = ({ t0 with body := groupedBody b (P ++ [e]) }, errs) := by
      unfold adoptStep extendType
      simp only [defOfBody, if_true]
      have := extendBody_ext (dupIface t0.kind n) (dupMember t0.kind n) b wf P e he (.typeExt k) n errs
      unfold defOfBody at this
      simp only [this]
    rw [hstep]
    have := ih (P ++ [e]) errs (by simpa using hnd)
    simpa using this

end Apollo.SchemaSerialize

namespace Apollo.SchemaSerialize
open Apollo.SchemaBuild

/-! ### the parts of a regrouped list are the parts of the list -/

theorem filter_filter_origin (cs : List Comp) (o o' : Option Pos) :
    (cs.filter (fun c => c.origin == o')).filter (fun c => c.origin == o)
      = if o' = o then cs.filter (fun c => c.origin == o) else [] := by
  rw [List.filter_filter]
  by_cases h : o' = o
  · subst h
    simp
  · simp only [h, if_false]
    apply List.filter_eq_nil_iff.mpr
    intro c _
    by_cases h1 : c.origin = o
    · subst h1; simpa using fun h' => h h'.symm
    · simp [h1]

theorem flatMap_blocks_filter (cs : List Comp) (e : Pos) : ∀ (exts : List Pos), exts.Nodup →
    (exts.flatMap (fun e' => cs.filter (fun c => c.origin == some e'))).filter (fun c => c.origin == some e)
      = if e ∈ exts then cs.filter (fun c => c.origin == some e) else [] := by
  intro exts
  induction exts with
  | nil => intro _; simp
  | cons x xs ih =>
    intro hnd
    have hx := (List.nodup_cons.mp hnd)
    simp only [List.flatMap_cons, List.filter_append, filter_filter_origin, ih hx.2]
    by_cases h : x = e
    · subst h
      simp [hx.1]
    · have h' : ¬ (some x = some e) := by intro c; injection c with c; exact h c
      have h2 : ¬ (e = x) := fun c => h c.symm
      simp [h', h2]

theorem filter_regroup_some (cs : List Comp) (exts : List Pos) (hnd : exts.Nodup) (e : Pos) (he : e ∈ exts) :
    (regroup exts cs).filter (fun c => c.origin == some e) = cs.filter (fun c => c.origin == some e) := by
  unfold regroup
  rw [List.filter_append, filter_filter_origin, flatMap_blocks_filter cs e exts hnd]
  simp [he]

theorem flatMap_blocks_filter_none (cs : List Comp) : ∀ (exts : List Pos),
    (exts.flatMap (fun e' => cs.filter (fun c => c.origin == some e'))).filter (fun c => c.origin == none) = [] := by
  intro exts
  induction exts with
  | nil => simp
  | cons x xs ih => simp only [List.flatMap_cons, List.filter_append, filter_filter_origin, ih]; simp

theorem filter_regroup_none (cs : List Comp) (exts : List Pos) :
    (regroup exts cs).filter (fun c => c.origin == none) = cs.filter (fun c => c.origin == none) := by
  unfold regroup
  rw [List.filter_append, filter_filter_origin, flatMap_blocks_filter_none]
  simp

/-! ### a discovery order that agrees with an order in which every list is grouped changes nothing -/

theorem regroup_sublist (cs : List Comp) : ∀ (exts order : List Pos), exts.Sublist order → order.Nodup →
    (∀ e ∈ order, e ∉ exts → cs.filter (fun c => c.origin == some e) = []) →
    regroup exts cs = regroup order cs := by
  intro exts order h
  induction h with
  | slnil => intro _ _; rfl
  | @cons l₁ l₂ a hsub ih =>
    intro hnd hempty
    have hn := List.nodup_cons.mp hnd
    have ha : a ∉ l₁ := fun h => hn.1 (hsub.subset h)
    have := ih hn.2 (fun e he hne => hempty e (by simp [he]) hne)
    unfold regroup at this ⊢
    rw [List.flatMap_cons, hempty a (by simp) ha, List.nil_append]
    exact this
  | @cons_cons l₁ l₂ a hsub ih =>
    intro hnd hempty
    have hn := List.nodup_cons.mp hnd
    have := ih hn.2 (fun e he hne => hempty e (by simp [he]) (by
      intro hc
      rcases List.mem_cons.mp hc with rfl | hc
      · exact hn.1 he
      · exact hne hc))
    unfold regroup at this ⊢
    rw [List.flatMap_cons, List.flatMap_cons]
    have := List.append_cancel_left this
    rw [this]

/-- "the discovery order of `iter_origins` is consistent with every component list": there is an order of the
    extensions (for built schemas: the order in which they were applied) in which every list is grouped, and
    `extensions()` lists the extensions in that order -/
def Consistent (b : Body) : Prop :=
  ∃ order : List Pos, order.Nodup ∧ (extensionsOf b).Sublist order
    ∧ b.directives = regroup order b.directives ∧ b.interfaces = regroup order b.interfaces
    ∧ b.members = regroup order b.members

theorem origin_mem_extensionsOf (b : Body) (cs : List Comp)
    (hcs : cs = b.directives ∨ cs = b.interfaces ∨ cs = b.members) (e : Pos) (he : e ∉ extensionsOf b) :
    cs.filter (fun c => c.origin == some e) = [] := by
  apply List.filter_eq_nil_iff.mpr
  intro c hc hco
  apply he
  unfold extensionsOf
  rw [mem_firstOcc]
  unfold extOrigins
  rw [List.mem_filterMap]
  refine ⟨c, ?_, by simpa using hco⟩
  rcases hcs with rfl | rfl | rfl <;> simp [hc]

theorem regroupBody_of_consistent (b : Body) (h : Consistent b) : regroupBody b = b := by
  obtain ⟨order, hnd, hsub, hd, hi, hm⟩ := h
  unfold regroupBody
  simp only []
  rw [regroup_sublist b.directives _ order hsub hnd (fun e _ hne => origin_mem_extensionsOf b _ (Or.inl rfl) e hne),
      regroup_sublist b.interfaces _ order hsub hnd (fun e _ hne => origin_mem_extensionsOf b _ (Or.inr (Or.inl rfl)) e hne),
      regroup_sublist b.members _ order hsub hnd (fun e _ hne => origin_mem_extensionsOf b _ (Or.inr (Or.inr rfl)) e hne),
      ← hd, ← hi, ← hm]

end Apollo.SchemaSerialize
