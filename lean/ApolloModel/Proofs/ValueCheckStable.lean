import ApolloModel.Proofs.BuiltinScalars3
import ApolloModel.Model.ValueCheck
/-
C16 growth: the value check (`value_of_correct_type`, Model/ValueCheck.lean) reads the schema only through its
type lookup (`check_congr`), and that lookup is the same before and after the built-in scalar bookkeeping of a
validation pass (`Scalars.value_lookup_stable`) — so the diagnostics of every value check are the same in
`validate(s)` and in `validate(validate(s).into_inner())`.
-/
namespace Apollo.ValueCheck

/-! ### the check depends on the schema only through `Schema.lookup` -/

mutual
theorem check_congr (S S' : Schema) (h : ∀ n, S.lookup n = S'.lookup n) (vars : List VarDef) :
    ∀ (v : Value) (ty : Ty), check S vars ty v = check S' vars ty v
  | .int i, ty => by simp only [check, h]
  | .float b, ty => by simp only [check, h]
  | .string, ty => by simp only [check, h]
  | .boolean, ty => by simp only [check, h]
  | .null, ty => by simp only [check, h]
  | .enum e, ty => by simp only [check, h]
  | .variable x, ty => by simp only [check, h]
  | .list vs, ty => by
    have ih : ∀ t, checkItems S vars t vs = checkItems S' vars t vs := fun t => checkItems_congr S S' h vars vs t
    simp only [check, h, ih]
  | .object fs, ty => by
    have ih : ∀ t name, checkFirst S vars t name fs = checkFirst S' vars t name fs :=
      fun t name => checkFirst_congr S S' h vars fs t name
    simp only [check, h, ih]
theorem checkItems_congr (S S' : Schema) (h : ∀ n, S.lookup n = S'.lookup n) (vars : List VarDef) :
    ∀ (vs : Values) (ty : Ty), checkItems S vars ty vs = checkItems S' vars ty vs
  | .nil, ty => by simp only [checkItems]
  | .cons v tl, ty => by
    simp only [checkItems, check_congr S S' h vars v ty, checkItems_congr S S' h vars tl ty]
theorem checkFirst_congr (S S' : Schema) (h : ∀ n, S.lookup n = S'.lookup n) (vars : List VarDef) :
    ∀ (fs : Fields) (ty : Ty) (name : Name), checkFirst S vars ty name fs = checkFirst S' vars ty name fs
  | .nil, ty, name => by simp only [checkFirst]
  | .cons n x tl, ty, name => by
    simp only [checkFirst, check_congr S S' h vars x ty, checkFirst_congr S S' h vars tl ty name]
end

end Apollo.ValueCheck

namespace Apollo.Scalars

/-- what the value check sees of one entry of the type map: a built-in definition named like a built-in
    scalar is that scalar; everything else (custom scalars, enums with their values, input objects with their
    fields, output types) is given by `detail`, which validation never changes -/
def valueDef (detail : Name → ValueCheck.TypeDef) (n : Name) (td : TypeDef) : ValueCheck.TypeDef :=
  if td.isBuiltIn && builtinScalars.contains n then .scalar true else detail n

/-- the schema the value check runs on -/
def valueSchema (detail : Name → ValueCheck.TypeDef) (s : Schema) : ValueCheck.Schema :=
  ⟨s.types.map fun e => (e.1, valueDef detail e.1 e.2)⟩

/-- the lookup of the value-check model on that schema is the C16 lookup `lookupForValue` -/
theorem valueSchema_lookup (detail : Name → ValueCheck.TypeDef) (s : Schema) (n : Name) :
    (valueSchema detail s).lookup n = (lookupForValue s n).map (valueDef detail n) := by
  unfold ValueCheck.Schema.lookup valueSchema lookupForValue
  rw [List.find?_map]
  cases hf : s.types.find? ((fun p : Name × ValueCheck.TypeDef => p.1 == n) ∘ fun e => (e.1, valueDef detail e.1 e.2)) with
  | some e =>
    have hf' : s.types.find? (fun e => e.1 == n) = some e := hf
    have hn : e.1 = n := by simpa using List.find?_some hf
    rw [hf']
    simp [hn]
  | none =>
    have hf' : s.types.find? (fun e => e.1 == n) = none := hf
    rw [hf']
    have : ValueCheck.builtinScalarNames = builtinScalars := rfl
    rw [this]
    by_cases hb : n ∈ builtinScalars
    · simp [hb, valueDef, builtinDef]
    · simp [hb]

/-- **the value check is stable under the bookkeeping**: every literal gets the same diagnostics, at every type
    reference, against the type map before and after a validation pass (pruned built-in scalars included) -/
theorem value_check_stable (order : List Name → List Name) (ho : IsOrder order) (s : Schema) (wf : WellFormed s)
    (hbuilt : ∀ e ∈ s.types, builtinScalars.contains e.1 = true → e.2.isBuiltIn = true)
    (detail : Name → ValueCheck.TypeDef) (vars : List ValueCheck.VarDef) (ty : ValueCheck.Ty) (v : ValueCheck.Value) :
    ValueCheck.check (valueSchema detail (bookkeeping order s)) vars ty v =
      ValueCheck.check (valueSchema detail s) vars ty v := by
  apply ValueCheck.check_congr
  intro n
  rw [valueSchema_lookup, valueSchema_lookup, value_lookup_stable order ho s wf hbuilt n]

end Apollo.Scalars
