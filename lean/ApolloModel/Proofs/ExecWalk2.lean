import ApolloModel.Proofs.ExecWalk
import ApolloModel.Proofs.TypedVars3
/-
C17, document level, part 2: the walk of one operation is COMPLETE for the typed rules, without any hypothesis on
the document — when it reports nothing, every reachable site (`Reaches`) is quiet; the fuel of `enterFrag` (the
number of fragment definitions) is never what ends it (`marked_le_frags`: pigeonhole on `validated_fragments`).
-/
set_option linter.unusedSimpArgs false
set_option linter.unusedVariables false
namespace Apollo.ExecRules
open Apollo Apollo.Spec

/-- fragment definition `fr` has been validated quietly, and the spreads its body meets are all marked in `W` -/
def FragQuiet (s : RSchema) (doc : RBuilt) (vars : List RVarDef) (W : List String) (fr : RFrag) : Prop :=
  dirsDiags s vars fr.dirs = [] ∧
    (isCompositeType s fr.tc = true → (reach doc fr.sels).contains fr.name = false →
      (∀ site ∈ localSites s doc (some fr.tc) fr.sels, site.diags s vars = []) ∧
        ∀ h ∈ localSpreads s (some fr.tc) fr.sels, (doc.findFrag h).isSome → h ∈ W)

def DoneQ (s : RSchema) (doc : RBuilt) (vars : List RVarDef) (W : List String) (g : String) : Prop :=
  ∃ fr, doc.findFrag g = some fr ∧ FragQuiet s doc vars W fr

theorem DoneQ.mono {s : RSchema} {doc : RBuilt} {vars : List RVarDef} {W W' : List String} {g : String}
    (h : DoneQ s doc vars W g) (hs : ∀ x ∈ W, x ∈ W') : DoneQ s doc vars W' g := by
  obtain ⟨fr, h1, h2, h3⟩ := h
  refine ⟨fr, h1, h2, fun a b => ⟨(h3 a b).1, fun x hx hd => hs x ((h3 a b).2 x hx hd)⟩⟩

/-- what a quiet walk from `V` to `V'` over `t` (under `ty`) achieves -/
structure WalkQ (s : RSchema) (doc : RBuilt) (vars : List RVarDef) (ty : Option String) (t : RSels) (V V' : List String) : Prop where
  mono : ∀ x ∈ V, x ∈ V'
  len : V.length ≤ V'.length
  nodup : V.Nodup → V'.Nodup
  defd : allDefined doc V → allDefined doc V'
  locals : ∀ site ∈ localSites s doc ty t, site.diags s vars = []
  spreads : ∀ g ∈ localSpreads s ty t, (doc.findFrag g).isSome → g ∈ V'
  fresh : ∀ g ∈ V', g ∈ V ∨ DoneQ s doc vars V' g

theorem walkQ_nil (s : RSchema) (doc : RBuilt) (vars : List RVarDef) (ty : Option String) (V : List String) :
    WalkQ s doc vars ty .nil V V :=
  ⟨fun _ h => h, Nat.le_refl _, fun h => h, fun h => h, by simp [localSites], by simp [localSpreads], fun _ h => .inl h⟩

theorem WalkQ.seq {s : RSchema} {doc : RBuilt} {vars : List RVarDef} {ta tb ty : Option String} {a b t : RSels}
    {V V1 V2 : List String} (extra : List Site)
    (h1 : WalkQ s doc vars ta a V V1) (h2 : WalkQ s doc vars tb b V1 V2)
    (hextra : ∀ site ∈ extra, site.diags s vars = [])
    (hl : ∀ site ∈ localSites s doc ty t, site ∈ extra ++ localSites s doc ta a ++ localSites s doc tb b)
    (hs : ∀ g ∈ localSpreads s ty t, g ∈ localSpreads s ta a ++ localSpreads s tb b) : WalkQ s doc vars ty t V V2 := by
  refine ⟨fun x hx => h2.mono x (h1.mono x hx), Nat.le_trans h1.len h2.len, fun h => h2.nodup (h1.nodup h),
    fun h => h2.defd (h1.defd h), ?_, ?_, ?_⟩
  · intro site hsite
    have := hl site hsite
    simp only [List.mem_append] at this
    rcases this with (h | h) | h
    · exact hextra site h
    · exact h1.locals site h
    · exact h2.locals site h
  · intro g hg hd
    rcases List.mem_append.mp (hs g hg) with h | h
    · exact h2.mono g (h1.spreads g h hd)
    · exact h2.spreads g h hd
  · intro g hg
    rcases h2.fresh g hg with h | h
    · rcases h1.fresh g h with h' | h'
      · exact .inl h'
      · exact .inr (h'.mono h2.mono)
    · exact .inr h

/-- the fragment handler, on a marked set of at least `m` names -/
def HandlerQ (s : RSchema) (doc : RBuilt) (vars : List RVarDef) (m : Nat)
    (e : RFrag → List String → List TDiag × List String) : Prop :=
  ∀ fr W, W.Nodup → allDefined doc W → m ≤ W.length → (e fr W).1 = [] →
    FragQuiet s doc vars (e fr W).2 fr ∧ (∀ x ∈ W, x ∈ (e fr W).2) ∧ W.length ≤ (e fr W).2.length ∧ (e fr W).2.Nodup ∧
      allDefined doc (e fr W).2 ∧ ∀ g ∈ (e fr W).2, g ∈ W ∨ DoneQ s doc vars (e fr W).2 g


theorem walkSels_walkQ (s : RSchema) (doc : RBuilt) (vars : List RVarDef)
    (e : RFrag → List String → List TDiag × List String) (m : Nat) (he : HandlerQ s doc vars (m + 1) e) :
    ∀ (t : RSels) (ty : Option String) (V : List String), V.Nodup → allDefined doc V → m ≤ V.length →
      (walkSels s doc vars e ty t V).1 = [] → WalkQ s doc vars ty t V (walkSels s doc vars e ty t V).2 := by
  intro t
  induction t with
  | nil =>
    intro ty V _ _ _ _
    simp only [walkSels]
    exact walkQ_nil s doc vars ty V
  | field name dirs args sub rest ihs ihr =>
    intro ty V hnd hdf hm h
    simp only [walkSels, List.append_eq_nil_iff] at h ⊢
    obtain ⟨⟨h1, h2⟩, h4⟩ := h
    have hx1 : ∀ site ∈ [Site.dirs dirs], site.diags s vars = [] := by
      intro site hs; simp only [List.mem_singleton] at hs; subst hs; exact h1
    cases ty with
    | none =>
      simp only at h2 h4 ⊢
      have e3 := ihs none V hnd hdf hm h2
      have e4 := ihr none _ (e3.nodup hnd) (e3.defd hdf) (Nat.le_trans hm e3.len) h4
      exact WalkQ.seq [.dirs dirs] e3 e4 hx1 (by intro site hs; simpa [localSites] using hs)
        (by intro g hg; simpa [localSpreads] using hg)
    | some t0 =>
      cases hfd : s.field t0 name with
      | none =>
        simp only [hfd] at h2 h4 ⊢
        have e4 := ihr (some t0) V hnd hdf hm h4
        exact WalkQ.seq [.dirs dirs] (walkQ_nil s doc vars none V) e4 hx1
          (by intro site hs; simpa [localSites, hfd] using hs) (by intro g hg; simpa [localSpreads, hfd] using hg)
      | some fd =>
        simp only [hfd] at h2 h4 ⊢
        by_cases hc : (sub.isNil && isCompositeType s fd.ty.innerNamedType) = true
        · simp only [hc, if_true] at h2 h4 ⊢
          have hx2 : ∀ site ∈ [Site.dirs dirs, Site.args fd.args args], site.diags s vars = [] := by
            intro site hs
            simp only [List.mem_cons, List.not_mem_nil, or_false] at hs
            rcases hs with rfl | rfl
            · exact h1
            · exact h2
          have e4 := ihr (some t0) V hnd hdf hm h4
          exact WalkQ.seq [.dirs dirs, .args fd.args args] (walkQ_nil s doc vars none V) e4 hx2
            (by intro site hs; simpa [localSites, hfd, hc] using hs) (by intro g hg; simpa [localSpreads, hfd, hc] using hg)
        · simp only [hc, Bool.false_eq_true, if_false, List.append_eq_nil_iff] at h2 h4 ⊢
          have hx2 : ∀ site ∈ [Site.dirs dirs, Site.args fd.args args], site.diags s vars = [] := by
            intro site hs
            simp only [List.mem_cons, List.not_mem_nil, or_false] at hs
            rcases hs with rfl | rfl
            · exact h1
            · exact h2.1
          have e3 := ihs (some fd.ty.innerNamedType) V hnd hdf hm h2.2
          have e4 := ihr (some t0) _ (e3.nodup hnd) (e3.defd hdf) (Nat.le_trans hm e3.len) h4
          exact WalkQ.seq [.dirs dirs, .args fd.args args] e3 e4 hx2
            (by intro site hs; simpa [localSites, hfd, hc] using hs) (by intro g hg; simpa [localSpreads, hfd, hc] using hg)
  | spread f dirs rest ihr =>
    intro ty V hnd hdf hm h
    simp only [walkSels, List.append_eq_nil_iff] at h ⊢
    obtain ⟨⟨h1, h2⟩, h4⟩ := h
    cases hf : doc.findFrag f with
    | none =>
      simp only [hf] at h2 h4 ⊢
      have e4 := ihr ty V hnd hdf hm h4
      refine ⟨e4.mono, e4.len, e4.nodup, e4.defd, ?_, ?_, e4.fresh⟩
      · intro site hs
        simp only [localSites, hf, List.append_nil, List.mem_append, List.mem_singleton] at hs
        rcases hs with rfl | hs
        · exact h1
        · exact e4.locals site hs
      · intro g hg hd
        simp only [localSpreads, List.mem_append, List.mem_singleton] at hg
        rcases hg with rfl | hg
        · rw [hf] at hd; cases hd
        · exact e4.spreads g hg hd
    | some d =>
      simp only [hf] at h2 h4 ⊢
      have hsp : ∀ site ∈ (match ty with | some t => [Site.spread t d.tc] | none => []), (match ty with | some t => spreadDiags s t d.tc | none => []) = [] →
          site.diags s vars = [] := by
        intro site hs hq
        cases ty with
        | none => simp at hs
        | some t => simp only [List.mem_singleton] at hs; subst hs; exact hq
      by_cases hv : V.contains f = true
      · simp only [hv, if_true] at h2 h4 ⊢
        have e4 := ihr ty V hnd hdf hm h4
        refine ⟨e4.mono, e4.len, e4.nodup, e4.defd, ?_, ?_, e4.fresh⟩
        · intro site hs
          simp only [localSites, hf, List.mem_append, List.mem_singleton] at hs
          rcases hs with (rfl | hs) | hs
          · exact h1
          · exact hsp site hs h2
          · exact e4.locals site hs
        · intro g hg hd
          simp only [localSpreads, List.mem_append, List.mem_singleton] at hg
          rcases hg with rfl | hg
          · exact e4.mono _ (mem_of_contains hv)
          · exact e4.spreads g hg hd
      · simp only [hv, Bool.false_eq_true, if_false, List.append_eq_nil_iff] at h2 h4 ⊢
        have hnd1 : (f :: V).Nodup := List.nodup_cons.mpr ⟨not_mem_of_contains hv, hnd⟩
        have hdf1 : allDefined doc (f :: V) := by
          intro x hx
          rcases List.mem_cons.mp hx with rfl | hx
          · rw [hf]; rfl
          · exact hdf x hx
        obtain ⟨q1, q2, q3, q4, q5, q6⟩ := he d (f :: V) hnd1 hdf1 (by simp; omega) h2.2
        have hlen1 : m ≤ (e d (f :: V)).2.length := Nat.le_trans (by simp; omega : m ≤ (f :: V).length) q3
        have e4 := ihr ty _ q4 q5 hlen1 h4
        have hfW : f ∈ (e d (f :: V)).2 := q2 f (List.mem_cons_self ..)
        refine ⟨fun x hx => e4.mono x (q2 x (List.mem_cons_of_mem _ hx)), ?_, fun _ => e4.nodup q4,
          fun _ => e4.defd q5, ?_, ?_, ?_⟩
        · exact Nat.le_trans (Nat.le_trans (by simp : V.length ≤ (f :: V).length) q3) e4.len
        · intro site hs
          simp only [localSites, hf, List.mem_append, List.mem_singleton] at hs
          rcases hs with (rfl | hs) | hs
          · exact h1
          · exact hsp site hs h2.1
          · exact e4.locals site hs
        · intro g hg hd
          simp only [localSpreads, List.mem_append, List.mem_singleton] at hg
          rcases hg with rfl | hg
          · exact e4.mono _ hfW
          · exact e4.spreads g hg hd
        · intro g hg
          rcases e4.fresh g hg with hg1 | hg1
          · rcases q6 g hg1 with hg2 | hg2
            · rcases List.mem_cons.mp hg2 with hg2 | hg2
              · subst hg2
                exact .inr (DoneQ.mono ⟨d, hf, q1⟩ e4.mono)
              · exact .inl hg2
            · exact .inr (hg2.mono e4.mono)
          · exact .inr hg1
  | inline tc dirs sub rest ihs ihr =>
    intro ty V hnd hdf hm h
    simp only [walkSels, List.append_eq_nil_iff] at h ⊢
    obtain ⟨⟨h1, h2⟩, h4⟩ := h
    have hx1 : ∀ site ∈ [Site.dirs dirs], site.diags s vars = [] := by
      intro site hs; simp only [List.mem_singleton] at hs; subst hs; exact h1
    cases tc with
    | none =>
      simp only at h2 h4 ⊢
      have e3 := ihs ty V hnd hdf hm h2
      have e4 := ihr ty _ (e3.nodup hnd) (e3.defd hdf) (Nat.le_trans hm e3.len) h4
      exact WalkQ.seq [.dirs dirs] e3 e4 hx1 (by intro site hs; simpa [localSites] using hs)
        (by intro g hg; simpa [localSpreads] using hg)
    | some c =>
      simp only at h2 h4 ⊢
      by_cases hc : isCompositeType s c = true
      · simp only [hc, Bool.not_true, Bool.false_eq_true, if_false, List.append_eq_nil_iff] at h2 h4 ⊢
        have e3 := ihs (some c) V hnd hdf hm h2.2
        have e4 := ihr ty _ (e3.nodup hnd) (e3.defd hdf) (Nat.le_trans hm e3.len) h4
        cases ty with
        | none =>
          exact WalkQ.seq [.dirs dirs] e3 e4 hx1 (by intro site hs; simpa [localSites, hc] using hs)
            (by intro g hg; simpa [localSpreads, hc] using hg)
        | some t =>
          have hx2 : ∀ site ∈ [Site.dirs dirs, Site.spread t c], site.diags s vars = [] := by
            intro site hs
            simp only [List.mem_cons, List.not_mem_nil, or_false] at hs
            rcases hs with rfl | rfl
            · exact h1
            · exact h2.1
          exact WalkQ.seq [.dirs dirs, .spread t c] e3 e4 hx2 (by intro site hs; simpa [localSites, hc] using hs)
            (by intro g hg; simpa [localSpreads, hc] using hg)
      · have hcf : isCompositeType s c = false := by simpa using hc
        simp only [hcf, Bool.not_false, if_true] at h2 h4 ⊢
        have e4 := ihr ty V hnd hdf hm h4
        exact WalkQ.seq [.dirs dirs] (walkQ_nil s doc vars none V) e4 hx1
          (by intro site hs; simpa [localSites, hcf] using hs) (by intro g hg; simpa [localSpreads, hcf] using hg)


theorem enterFrag_handlerQ (s : RSchema) (doc : RBuilt) (vars : List RVarDef) :
    ∀ (n m : Nat), doc.frags.length < n + m → HandlerQ s doc vars m (enterFrag s doc vars n) := by
  intro n
  induction n with
  | zero =>
    intro m hlt fr W hnd hdf hm _
    have := marked_le_frags doc W hnd hdf
    omega
  | succ n ih =>
    intro m hlt fr W hnd hdf hm h
    simp only [enterFrag] at h ⊢
    by_cases hc : (!isCompositeType s fr.tc || (reach doc fr.sels).contains fr.name) = true
    · simp only [hc, if_true] at h ⊢
      refine ⟨⟨h, ?_⟩, fun _ hx => hx, Nat.le_refl _, hnd, hdf, fun _ hg => .inl hg⟩
      intro h1 h2
      rw [h1, h2] at hc
      cases hc
    · simp only [hc, Bool.false_eq_true, if_false, List.append_eq_nil_iff] at h ⊢
      have w := walkSels_walkQ s doc vars _ m (ih (m + 1) (by omega)) fr.sels (some fr.tc) W hnd hdf hm h.2
      exact ⟨⟨h.1, fun _ _ => ⟨w.locals, w.spreads⟩⟩, w.mono, w.len, w.nodup hnd, w.defd hdf, w.fresh⟩

/-- on a marked set closed under `DoneQ`, everything reachable is quiet -/
theorem reaches_quiet (s : RSchema) (doc : RBuilt) (vars : List RVarDef) (W : List String)
    (hclosed : ∀ g ∈ W, DoneQ s doc vars W g) :
    ∀ (ty : Option String) (t : RSels) (site : Site), Reaches s doc ty t site →
      (∀ g ∈ localSpreads s ty t, (doc.findFrag g).isSome → g ∈ W) →
      (∀ x ∈ localSites s doc ty t, x.diags s vars = []) → site.diags s vars = [] := by
  intro ty t site hr
  induction hr with
  | here h => intro _ hl; exact hl _ h
  | fragDirs hf hd =>
    intro hs _
    obtain ⟨fr', hd', hq, _⟩ := hclosed _ (hs _ hf (by rw [hd]; rfl))
    rw [hd] at hd'; cases hd'
    exact hq
  | frag hf hd hcomp hcyc _ ih =>
    intro hs _
    obtain ⟨fr', hd', _, hq⟩ := hclosed _ (hs _ hf (by rw [hd]; rfl))
    rw [hd] at hd'; cases hd'
    exact ih (hq hcomp hcyc).2 (hq hcomp hcyc).1

/-- COMPLETENESS of the walk of one operation (no hypothesis on the document; fuel = number of fragment definitions;
    `validated_fragments` starts empty): when it reports nothing, every reachable site is quiet -/
theorem walk_complete (s : RSchema) (doc : RBuilt) (vars : List RVarDef) (ty : Option String) (t : RSels)
    (h : (walkSels s doc vars (enterFrag s doc vars doc.frags.length) ty t []).1 = []) :
    ∀ site, Reaches s doc ty t site → site.diags s vars = [] := by
  have w := walkSels_walkQ s doc vars _ 0 (enterFrag_handlerQ s doc vars doc.frags.length 1 (by omega)) t ty []
    List.nodup_nil (by intro x hx; cases hx) (Nat.zero_le _) h
  have hclosed : ∀ g ∈ (walkSels s doc vars (enterFrag s doc vars doc.frags.length) ty t []).2,
      DoneQ s doc vars (walkSels s doc vars (enterFrag s doc vars doc.frags.length) ty t []).2 g := by
    intro g hg
    rcases w.fresh g hg with hn | hd
    · cases hn
    · exact hd
  intro site hr
  exact reaches_quiet s doc vars _ hclosed ty t site hr w.spreads w.locals

/-- the walk of one operation reports nothing EXACTLY when every site it reaches is quiet -/
theorem walk_quiet_iff (s : RSchema) (doc : RBuilt) (vars : List RVarDef) (ty : Option String) (t : RSels) :
    (walkSels s doc vars (enterFrag s doc vars doc.frags.length) ty t []).1 = [] ↔
      ∀ site, Reaches s doc ty t site → site.diags s vars = [] := by
  constructor
  · exact walk_complete s doc vars ty t
  · intro h
    apply List.eq_nil_iff_forall_not_mem.mpr
    intro d hd
    obtain ⟨site, hr, hm⟩ := walk_diag_reaches s doc vars _ ty t [] d hd
    rw [h site hr] at hm
    cases hm

/-- `validate_operation`, typed rules: nothing is reported iff the operation's directives, the directives of its
    variable definitions (no variable in scope there) and every site reachable from its selection set are quiet -/
theorem opDiags_quiet_iff (s : RSchema) (doc : RBuilt) (o : ROp) :
    opDiags s doc o = [] ↔
      dirsDiags s o.vars o.dirs = [] ∧ (∀ v ∈ o.vars, dirsDiags s [] v.dirs = []) ∧
        ∀ site, Reaches s doc (s.root o.ty) o.sels site → site.diags s o.vars = [] := by
  unfold opDiags
  simp only [List.append_eq_nil_iff, List.flatMap_eq_nil_iff, walk_quiet_iff, and_assoc]

/-- the DOCUMENT: the typed rules report nothing iff, for every operation, … -/
theorem typedDiags_quiet_iff (s : RSchema) (ast : RAst) :
    typedDiags s ast = [] ↔
      ∀ o ∈ (build s ast).ops, dirsDiags s o.vars o.dirs = [] ∧ (∀ v ∈ o.vars, dirsDiags s [] v.dirs = []) ∧
        ∀ site, Reaches s (build s ast) (s.root o.ty) o.sels site → site.diags s o.vars = [] := by
  unfold typedDiags
  simp only [List.flatMap_eq_nil_iff]
  constructor
  · intro h o ho; exact (opDiags_quiet_iff s _ o).mp (h o ho)
  · intro h o ho; exact (opDiags_quiet_iff s _ o).mpr (h o ho)


/-! ### down to the single argument -/

/-- argument `a`, whose definition is `d`, is checked at the site: an argument of the field with the definition the
    field's parent type gives it, or an argument of a defined directive with the directive definition's -/
def Site.HasArg (s : RSchema) : Site → InDef → RArg → Prop
  | .args defs as, d, a => a ∈ as ∧ defs.find? (·.name == a.name) = some d
  | .dirs ds, d, a =>
    ∃ dir ∈ ds, ∃ dd, s.dirs.find? (·.name == dir.name) = some dd ∧ a ∈ dir.args ∧ dd.args.find? (·.name == a.name) = some d
  | .spread _ _, _, _ => False

theorem argsDiags_quiet_iff (s : RSchema) (vars : List RVarDef) (defs : List InDef) (args : List RArg) :
    argsDiags s vars defs args = [] ↔
      ∀ a ∈ args, ∀ d, defs.find? (·.name == a.name) = some d → argDiags s vars d a = [] := by
  unfold argsDiags
  simp only [List.flatMap_eq_nil_iff]
  constructor
  · intro h a ha d hd
    have := h a ha
    rw [hd] at this
    exact this
  · intro h a ha
    cases hd : defs.find? (·.name == a.name) with
    | none => rfl
    | some d => exact h a ha d hd

theorem dirsDiags_quiet_iff (s : RSchema) (vars : List RVarDef) (dirs : List RDir) :
    dirsDiags s vars dirs = [] ↔ ∀ d a, (Site.dirs dirs).HasArg s d a → argDiags s vars d a = [] := by
  unfold dirsDiags
  simp only [List.flatMap_eq_nil_iff, Site.HasArg]
  constructor
  · rintro h d a ⟨dir, hdir, dd, hdd, ha, hd⟩
    have := h dir hdir
    rw [hdd] at this
    exact (argsDiags_quiet_iff s vars dd.args dir.args).mp this a ha d hd
  · intro h dir hdir
    cases hdd : s.dirs.find? (·.name == dir.name) with
    | none => rfl
    | some dd =>
      exact (argsDiags_quiet_iff s vars dd.args dir.args).mpr fun a ha d hd => h d a ⟨dir, hdir, dd, hdd, ha, hd⟩

/-- a site is quiet iff each of its arguments is, against its own definition — and a spread is possible -/
theorem site_quiet_iff (s : RSchema) (vars : List RVarDef) (site : Site) :
    site.diags s vars = [] ↔
      (∀ d a, site.HasArg s d a → argDiags s vars d a = []) ∧ (∀ t c, site = .spread t c → spreadDiags s t c = []) := by
  cases site with
  | dirs dirs =>
    simp only [Site.diags, dirsDiags_quiet_iff]
    exact ⟨fun h => ⟨h, fun _ _ hc => by cases hc⟩, fun h => h.1⟩
  | args defs args =>
    simp only [Site.diags, argsDiags_quiet_iff, Site.HasArg]
    exact ⟨fun h => ⟨fun d a ha => h a ha.1 d ha.2, fun _ _ hc => by cases hc⟩, fun h a ha d hd => h.1 d a ⟨ha, hd⟩⟩
  | spread t c =>
    simp only [Site.diags, Site.HasArg]
    exact ⟨fun h => ⟨fun _ _ hf => hf.elim, fun _ _ hc => by cases hc; exact h⟩, fun h => h.2 t c rfl⟩

/-- **the walk meets every argument**: when the typed rules report nothing for a document, then for every operation
    EVERY argument of every field and of every directive reachable from it — in its own selection set and, through
    spreads at any depth, in the definitions and bodies of the fragments it reaches — has been handed, with the
    argument definition of its field on the field's parent type (or of its directive definition), to the per-argument
    check `argDiags` with THAT operation's variable definitions, and the check was quiet; and conversely nothing else
    is reported -/
theorem walk_meets_every_argument (s : RSchema) (ast : RAst) :
    typedDiags s ast = [] ↔
      ∀ o ∈ (build s ast).ops,
        (∀ d a, (Site.dirs o.dirs).HasArg s d a → argDiags s o.vars d a = []) ∧
        (∀ v ∈ o.vars, ∀ d a, (Site.dirs v.dirs).HasArg s d a → argDiags s [] d a = []) ∧
        ∀ site, Reaches s (build s ast) (s.root o.ty) o.sels site →
          (∀ d a, site.HasArg s d a → argDiags s o.vars d a = []) ∧ (∀ t c, site = .spread t c → spreadDiags s t c = []) := by
  rw [typedDiags_quiet_iff]
  constructor
  · intro h o ho
    obtain ⟨h1, h2, h3⟩ := h o ho
    exact ⟨(dirsDiags_quiet_iff s o.vars o.dirs).mp h1, fun v hv => (dirsDiags_quiet_iff s [] v.dirs).mp (h2 v hv),
      fun site hr => (site_quiet_iff s o.vars site).mp (h3 site hr)⟩
  · intro h o ho
    obtain ⟨h1, h2, h3⟩ := h o ho
    exact ⟨(dirsDiags_quiet_iff s o.vars o.dirs).mpr h1, fun v hv => (dirsDiags_quiet_iff s [] v.dirs).mpr (h2 v hv),
      fun site hr => (site_quiet_iff s o.vars site).mpr (h3 site hr)⟩

end Apollo.ExecRules
