import ApolloModel.Proofs.ParserRecursion27
/-
C04 growth (closed form of the nesting depth), part 28: `checkpoint … wrap_node`, then the judgement `GD` for
every loop and every composite primitive of parser/mod.rs, by the automation of parts 16, 19 and 22.
-/
set_option linter.unusedSimpArgs false
set_option linter.unusedVariables false
namespace Apollo.Parse
open Apollo.Rowan hiding Str
open Apollo.Lex hiding Str

theorem wiPre_run (s : PState) : pushIgnored.run s = .ok () (wiPre s) := rfl

/-- `checkpoint … wrap_node(kind)` with a kind that costs nothing -/
theorem gd_wrapIf {α : Type} (kind : SK) (body : PI α) (cond : α → PI Bool) (inner : PI Unit) (hK : PlainKind kind)
    (hb : GD body) (hc : ∀ a, GD (cond a)) (hin : GD inner) : GD (wrapIf kind body cond inner) := by
  have hM : GD (body >>= fun a => cond a >>= fun c => (pure (a, c) : PI (α × Bool))) :=
    gd_bind _ _ hb (fun a => gd_bind _ _ (hc a) (fun c => gd_pure _))
  constructor
  intro s a s' hi h
  rw [wrapIf_run] at h
  obtain ⟨hi1, fr1⟩ := post_of_run pushIgnored s hi () (wiPre s) (wiPre_run s)
  have hbase : (wiPre s).builder.children = s.builder.children ++ s.pending.map pendingElem := rfl
  cases hr : (body >>= fun a => cond a >>= fun c => (pure (a, c) : PI (α × Bool))).run (wiPre s) with
  | abort w => rw [hr] at h; cases h
  | panic m => rw [hr] at h; cases h
  | ok ac s2 =>
    obtain ⟨a2, c⟩ := ac
    rw [hr] at h
    simp only [] at h
    obtain ⟨hi2, fr2⟩ := post_of_run _ _ hi1 (a2, c) s2 hr
    obtain ⟨e1, a1, w1, x1⟩ := hM.g _ (a2, c) s2 hi1 hr
    cases c with
    | false =>
      simp only [Bool.false_eq_true, if_false, Res.ok.injEq] at h
      obtain ⟨rfl, rfl⟩ := h
      refine ⟨e1, s.pending.map pendingElem ++ a1, ⟨w1.errs, by rw [w1.kids, hbase, List.append_assoc], w1.mono, w1.acc⟩, ?_⟩
      intro he ha hh hcur
      have r := x1 he ha hh hcur
      rw [r, gdl_append, gdl_pending]
      show max s.recHigh (s.recCur + gdl a1 + 0) = max s.recHigh (s.recCur + max 0 (gdl a1) + 0)
      omega
    | true =>
      simp only [if_true] at h
      have hlen : (wiPre s).builder.checkpoint ≤ s2.builder.children.length := by
        simp [Builder.checkpoint, w1.kids]
      have hfirst : ∀ p ∈ s2.builder.parents, p.2 ≤ (wiPre s).builder.checkpoint := by
        intro p hp; rw [fr2.parents] at hp; exact hi1.parents p hp
      have hsn : s2.builder.startNodeAt (wiPre s).builder.checkpoint kind =
          some { s2.builder with parents := (kind, (wiPre s).builder.checkpoint) :: s2.builder.parents } := by
        unfold Builder.startNodeAt
        simp only [hlen, if_true]
        cases hps : s2.builder.parents with
        | nil => rfl
        | cons p ps =>
          obtain ⟨k0, f0⟩ := p
          have := hfirst (k0, f0) (by simp [hps])
          simp only [ge_iff_le, this, if_true]
      rw [hsn] at h
      simp only [] at h
      have hi2' : Inv { s2 with builder := { s2.builder with parents := (kind, (wiPre s).builder.checkpoint) :: s2.builder.parents } } := by
        refine ⟨hi2.text, ?_, hi2.lexDone, hi2.eofTok, hi2.errNonempty⟩
        intro p hp
        simp only [List.mem_cons] at hp
        rcases hp with rfl | hp
        · exact hlen
        · exact hi2.parents p hp
      cases hr3 : inner.run { s2 with builder := { s2.builder with parents := (kind, (wiPre s).builder.checkpoint) :: s2.builder.parents } } with
      | abort w => rw [hr3] at h; cases h
      | panic m => rw [hr3] at h; cases h
      | ok u3 s3 =>
        rw [hr3] at h
        simp only [] at h
        obtain ⟨hi3, fr3⟩ := post_of_run _ _ hi2' u3 s3 hr3
        obtain ⟨e3, a3, w3, x3⟩ := hin.g _ u3 s3 hi2' hr3
        have hp3 : s3.builder.parents = (kind, (wiPre s).builder.checkpoint) :: s2.builder.parents := fr3.parents
        simp only [Builder.finishNode, hp3, Res.ok.injEq] at h
        obtain ⟨rfl, rfl⟩ := h
        have hc3 : s3.builder.children = (wiPre s).builder.children ++ (a1 ++ a3) := by
          rw [w3.kids]
          show s2.builder.children ++ a3 = _
          rw [w1.kids, List.append_assoc]
        refine ⟨e1 ++ e3, s.pending.map pendingElem ++ [Elem.node kind (a1 ++ a3)],
          ⟨by rw [w3.errs]; show s2.errors ++ e3 = _; rw [w1.errs, List.append_assoc]; rfl, ?_,
           Nat.le_trans w1.mono w3.mono, fun he => ?_⟩, ?_⟩
        · show List.take (wiPre s).builder.checkpoint s3.builder.children ++
            [Elem.node kind (List.drop (wiPre s).builder.checkpoint s3.builder.children)] = _
          rw [hc3]
          simp only [Builder.checkpoint]
          rw [List.take_left' rfl, List.drop_left' rfl, hbase, List.append_assoc]
        · obtain ⟨he1, he3⟩ := List.append_eq_nil_iff.mp he
          have := w3.acc he3
          rw [this]
          exact w1.acc he1
        · intro he ha hh hcur
          obtain ⟨he1, he3⟩ := List.append_eq_nil_iff.mp he
          have r1 := x1 he1 ha (Nat.le_trans w3.mono hh) hcur
          have rl2 : s2.recLimit = s.recLimit := fr2.recLimit.trans fr1.recLimit
          have rc2 : s2.recCur = s.recCur := fr2.recCur.trans fr1.recCur
          have r3 := x3 he3 (by show s2.acceptErrors = true; rw [w1.acc he1]; exact ha)
            (by show s3.recHigh ≤ s2.recLimit; rw [rl2]; exact hh)
            (by show s2.recCur ≤ s2.recHigh; rw [rc2]; exact Nat.le_trans hcur w1.mono)
          show s3.recHigh = _
          rw [r3]
          show max s2.recHigh (s2.recCur + gdl a3 + 0) = _
          rw [r1, rc2, gdl_append, gdl_pending, gdl_single, gd_plain hK, gdl_append]
          show max (max s.recHigh (s.recCur + gdl a1 + 0)) (s.recCur + gdl a3 + 0) =
            max s.recHigh (s.recCur + max 0 (max (gdl a1) (gdl a3)) + 0)
          omega

syntax "gd_leaf" : tactic
macro_rules | `(tactic| gd_leaf) => `(tactic| assumption)
macro_rules | `(tactic| gd_leaf) => `(tactic| first
  | exact gd_pure _
  | exact gd_peekToken | exact gd_moveCurToPending | exact gd_srcLen
  | exact gd_getCurrent | exact gd_pushIgnored | exact gd_moveCurToTree _
  | exact gd_popDrop | exact gd_peekTokenN _ | exact gd_assertRecZero
  | exact gd_outOfFuel | exact gd_stuck
  | exact gd_pushErr _
  | decide)

syntax "gd_auto" : tactic
macro_rules | `(tactic| gd_auto) => `(tactic| repeat (first
  | (with_reducible gd_leaf)
  | (with_reducible apply_assumption)
  | (with_reducible apply gd_bind) | (with_reducible apply gd_ite)
  | (with_reducible apply gd_wrapIf)
  | (extract_lets jp
     have hjp : ∀ r, GD (jp r) := by
       intro r
       dsimp (config := { zeta := false }) only [jp]
       gd_auto
     clear_value jp)
  | intro _
  | split))

theorem gd_skipIgnoredLoop : ∀ (fuel : Nat), GD (skipIgnoredLoop fuel)
  | 0 => gd_outOfFuel
  | fuel + 1 => by
    have ih := gd_skipIgnoredLoop fuel
    unfold skipIgnoredLoop
    gd_auto

theorem gd_skipIgnored : GD skipIgnored := by
  unfold skipIgnored
  exact gd_bind _ _ (gd_srcLen) (fun n => gd_skipIgnoredLoop (n + 3))
macro_rules | `(tactic| gd_leaf) => `(tactic| exact gd_skipIgnored)

theorem gd_withNode' {α : Type} (kind : SK) (body : PI α) (hK : PlainKind kind) (hb : GD body) : GD (withNode kind body) :=
  gd_withNode kind body hK gd_skipIgnored hb
macro_rules | `(tactic| gd_auto) => `(tactic| repeat (first
  | (with_reducible gd_leaf)
  | (with_reducible apply_assumption)
  | (with_reducible apply gd_withNode')
  | (with_reducible apply gd_bind) | (with_reducible apply gd_ite)
  | (with_reducible apply gd_wrapIf)
  | (extract_lets jp
     have hjp : ∀ r, GD (jp r) := by
       intro r
       dsimp (config := { zeta := false }) only [jp]
       gd_auto
     clear_value jp)
  | intro _
  | split))

theorem gd_peek : GD peek := by unfold peek; gd_auto
macro_rules | `(tactic| gd_leaf) => `(tactic| exact gd_peek)
theorem gd_peekData : GD peekData := by unfold peekData; gd_auto
macro_rules | `(tactic| gd_leaf) => `(tactic| exact gd_peekData)
theorem gd_peekN (n : Nat) : GD (peekN n) := by unfold peekN; gd_auto
macro_rules | `(tactic| gd_leaf) => `(tactic| exact gd_peekN _)
theorem gd_peekDataN (n : Nat) : GD (peekDataN n) := by unfold peekDataN; gd_auto
macro_rules | `(tactic| gd_leaf) => `(tactic| exact gd_peekDataN _)
theorem gd_eat (k : SK) : GD (eat k) := by unfold eat; gd_auto
macro_rules | `(tactic| gd_leaf) => `(tactic| exact gd_eat _)
theorem gd_bump (k : SK) : GD (bump k) := by unfold bump; gd_auto
macro_rules | `(tactic| gd_leaf) => `(tactic| exact gd_bump _)
theorem gd_errAtToken (t : Tok) : GD (errAtToken t) := gd_pushErr _
macro_rules | `(tactic| gd_leaf) => `(tactic| exact gd_errAtToken _)
theorem gd_err : GD err := by unfold err; gd_auto
macro_rules | `(tactic| gd_leaf) => `(tactic| exact gd_err)
theorem gd_errAndPop : GD errAndPop := by unfold errAndPop; gd_auto
macro_rules | `(tactic| gd_leaf) => `(tactic| exact gd_errAndPop)
theorem gd_expect (t : Kind) (k : SK) : GD (expect t k) := by unfold expect; gd_auto
macro_rules | `(tactic| gd_leaf) => `(tactic| exact gd_expect _ _)
theorem gd_name : GD name := by unfold name; gd_auto
macro_rules | `(tactic| gd_leaf) => `(tactic| exact gd_name)

/-! ### loops -/

theorem gd_peekWhileLoop (body : Kind → PI Bool) (hb : ∀ k, GD (body k)) : ∀ fuel, GD (peekWhileLoop body fuel)
  | 0 => gd_outOfFuel
  | fuel + 1 => by
    have ih := gd_peekWhileLoop body hb fuel
    unfold peekWhileLoop
    gd_auto

theorem gd_peekWhile (body : Kind → PI Bool) (hb : ∀ k, GD (body k)) : GD (peekWhile body) :=
  gd_bind _ _ (gd_srcLen) (fun _ => gd_peekWhileLoop body hb _)

theorem gd_peekWhileKindLoop (k : Kind) (body : PI Unit) (hb : GD body) : ∀ fuel, GD (peekWhileKindLoop k body fuel)
  | 0 => gd_outOfFuel
  | fuel + 1 => by
    have ih := gd_peekWhileKindLoop k body hb fuel
    unfold peekWhileKindLoop
    gd_auto

theorem gd_peekWhileKind (k : Kind) (body : PI Unit) (hb : GD body) : GD (peekWhileKind k body) :=
  gd_bind _ _ (gd_srcLen) (fun _ => gd_peekWhileKindLoop k body hb _)

theorem gd_peekWhileFlagLoop (body : Kind → PI (Bool × Bool)) (hb : ∀ k, GD (body k)) :
    ∀ fuel flag, GD (peekWhileFlagLoop body fuel flag)
  | 0, _ => gd_outOfFuel
  | fuel + 1, flag => by
    have ih := gd_peekWhileFlagLoop body hb fuel
    unfold peekWhileFlagLoop
    gd_auto

theorem gd_peekWhileKindFlagLoop (k : Kind) (body : PI Unit) (hb : GD body) :
    ∀ fuel flag, GD (peekWhileKindFlagLoop k body fuel flag)
  | 0, _ => gd_outOfFuel
  | fuel + 1, flag => by
    have ih := gd_peekWhileKindFlagLoop k body hb fuel
    unfold peekWhileKindFlagLoop
    gd_auto

theorem gd_parseSeparatedList (sep : Kind) (syn : SK) (run : PI Unit) (hr : GD run) : GD (parseSeparatedList sep syn run) := by
  have hk : GD (peekWhileKind sep (bump syn >>= fun _ => run)) := gd_peekWhileKind _ _ (gd_bind _ _ (gd_bump _) (fun _ => hr))
  unfold parseSeparatedList
  gd_auto

macro_rules | `(tactic| gd_auto) => `(tactic| repeat (first
  | (with_reducible gd_leaf)
  | (with_reducible apply_assumption)
  | (with_reducible apply gd_withNode')
  | (with_reducible apply gd_bind) | (with_reducible apply gd_ite)
  | (with_reducible apply gd_wrapIf)
  | (with_reducible apply gd_peekWhile) | (with_reducible apply gd_peekWhileKind)
  | (with_reducible apply gd_parseSeparatedList) | (with_reducible apply gd_peekWhileKindFlagLoop)
  | (with_reducible apply gd_peekWhileFlagLoop)
  | (extract_lets jp
     have hjp : ∀ r, GD (jp r) := by
       intro r
       dsimp (config := { zeta := false }) only [jp]
       gd_auto
     clear_value jp)
  | intro _
  | split))

end Apollo.Parse
