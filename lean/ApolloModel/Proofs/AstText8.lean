import ApolloModel.Proofs.AstText7
/-
Text level, part 3 extended: integer literals lex back (`-?(0|[1-9][0-9]*)`).
-/
namespace Apollo.Ast
open Apollo.Lex (advance Item Kind punctuationKind isNameStart isNameContinue isAsciiDigit runD step eofItem)

def wfNatLit : Str → Bool
  | [] => false
  | ['0'] => true
  | c :: r => c != '0' && isAsciiDigit c && r.all isAsciiDigit

/-- the text of an IntValue token -/
def wfIntLit : Str → Bool
  | '-' :: r => wfNatLit r
  | r => wfNatLit r

theorem notCont_facts (c : Char) (h : isNameContinue c = false) :
    isAsciiDigit c = false ∧ isNameStart c = false ∧ (c == 'e') = false ∧ (c == 'E') = false := by
  refine ⟨?_, ?_, ?_, ?_⟩
  · cases hd : isAsciiDigit c with
    | false => rfl
    | true =>
      exfalso
      simp only [isAsciiDigit, Bool.and_eq_true, decide_eq_true_eq] at hd
      simp only [isNameContinue, Bool.or_eq_false_iff, Bool.and_eq_false_iff, decide_eq_false_iff_not] at h
      omega
  · cases hd : isNameStart c with
    | false => rfl
    | true =>
      exfalso
      simp only [isNameStart, Bool.or_eq_true, Bool.and_eq_true, decide_eq_true_eq, beq_iff_eq] at hd
      simp only [isNameContinue, Bool.or_eq_false_iff, Bool.and_eq_false_iff, decide_eq_false_iff_not, beq_eq_false_iff_ne] at h
      omega
  · cases hq : (c == 'e') with
    | false => rfl
    | true => have : c = 'e' := by simpa using hq
              subst this; revert h; decide
  · cases hq : (c == 'E') with
    | false => rfl
    | true => have : c = 'E' := by simpa using hq
              subst this; revert h; decide

theorem follow_num (c : Char) (h : followChar .num c = true) :
    isAsciiDigit c = false ∧ isNameStart c = false ∧ (c == 'e') = false ∧ (c == 'E') = false ∧ (c == '.') = false := by
  simp only [followChar, Bool.and_eq_true, Bool.not_eq_true', bne_iff_ne, ne_eq] at h
  obtain ⟨h1, h2, h3, h4⟩ := notCont_facts c h.1
  exact ⟨h1, h2, h3, h4, by simpa using h.2⟩

theorem runD_leadingZero (acc rest : Str) (hf : FollowOk .num rest) :
    runD .leadingZero .int false acc rest = (.tok .int acc, rest) := by
  cases rest with
  | nil => simp [runD, eofItem]
  | cons c r =>
    obtain ⟨h1, h2, h3, h4, h5⟩ := follow_num c hf
    simp [runD, step, h1, h2, h3, h4, h5, Lex.done, Lex.Out.mk]

theorem runD_integerPart : ∀ (ds acc rest : Str), (∀ d ∈ ds, isAsciiDigit d = true) → FollowOk .num rest →
    runD .integerPart .int false acc (ds ++ rest) = (.tok .int (acc ++ ds), rest)
  | [], acc, rest, _, hf => by
    cases rest with
    | nil => simp [runD, eofItem]
    | cons c r =>
      obtain ⟨h1, h2, h3, h4, h5⟩ := follow_num c hf
      simp [runD, step, h1, h2, h3, h4, h5, Lex.done, Lex.Out.mk]
  | d :: ds, acc, rest, hd, hf => by
    have h1 : isAsciiDigit d = true := hd d (List.mem_cons_self ..)
    simp only [List.cons_append, runD, step, h1, if_true]
    rw [runD_integerPart ds (acc ++ [d]) rest (fun x hx => hd x (List.mem_cons_of_mem _ hx)) hf]
    simp

theorem digit_start (d : Char) (h : isAsciiDigit d = true) : punctuationKind d = none ∧ isNameStart d = false := by
  simp only [isAsciiDigit, Bool.and_eq_true, decide_eq_true_eq] at h
  constructor
  · unfold punctuationKind
    split <;> first | rfl | omega
  · cases hn : isNameStart d with
    | false => rfl
    | true =>
      exfalso
      simp only [isNameStart, Bool.or_eq_true, Bool.and_eq_true, decide_eq_true_eq, beq_iff_eq] at hn
      omega

/-- a natural-number literal read from the start state, or after the minus sign -/
theorem runD_nat (s acc rest : Str) (hs : wfNatLit s = true) (hf : FollowOk .num rest) :
    (∀ st, (st = Lex.State.start ∧ acc = []) ∨ st = Lex.State.minusSign →
      runD st (if st = Lex.State.start then .eof else .int) false acc (s ++ rest) = (.tok .int (acc ++ s), rest)) := by
  intro st hst
  cases s with
  | nil => simp [wfNatLit] at hs
  | cons c r =>
    by_cases hz : c = '0'
    · subst hz
      have hr : r = [] := by
        cases r with
        | nil => rfl
        | cons x xs => simp [wfNatLit] at hs
      subst hr
      rcases hst with ⟨hst, hacc⟩ | hst
      · subst hst; subst hacc
        have h1 : step .start .eof false [] '0' = .goto .leadingZero .int false := rfl
        simp only [List.cons_append, List.nil_append, runD, h1, if_true]
        exact runD_leadingZero _ rest hf
      · subst hst
        have h1 : step .minusSign .int false acc '0' = .goto .leadingZero .int false := rfl
        have hne : ¬ (Lex.State.minusSign = Lex.State.start) := by decide
        simp only [List.cons_append, List.nil_append, runD, hne, if_false, h1]
        simpa using runD_leadingZero (acc ++ ['0']) rest hf
    · have hs' : isAsciiDigit c = true ∧ ∀ d ∈ r, isAsciiDigit d = true := by
        cases r with
        | nil => simp_all [wfNatLit]
        | cons x xs => simp_all [wfNatLit]
      have hne : (c != '0') = true := by simpa using hz
      have hz' : (c == '0') = false := by simpa using hz
      obtain ⟨hp, hn⟩ := digit_start c hs'.1
      rcases hst with ⟨hst, hacc⟩ | hst
      · subst hst; subst hacc
        simp only [List.cons_append, runD, step, hp, hn, hne, hs'.1, Bool.false_eq_true, if_false, if_true, Bool.and_self,
          List.nil_append]
        have := runD_integerPart r [c] rest hs'.2 hf
        simpa using this
      · subst hst
        have hne2 : ¬ (Lex.State.minusSign = Lex.State.start) := by decide
        simp only [List.cons_append, runD, step, hz', hs'.1, Bool.false_eq_true, if_false, if_true, hne2]
        have := runD_integerPart r (acc ++ [c]) rest hs'.2 hf
        simpa using this

theorem digit_not_ignored (c : Char) (h : isAsciiDigit c = true ∨ c = '-') : isIgnoredChar c = false := by
  cases hi : isIgnoredChar c with
  | false => rfl
  | true =>
    exfalso
    simp only [isIgnoredChar, Bool.or_eq_true, beq_iff_eq] at hi
    rcases hi with ((((hi | hi) | hi) | hi) | hi) | hi <;> subst hi <;> revert h <;> decide

/-- **integer literals lex back** when followed by something that may follow a number -/
theorem tokOk_int (s : Str) (h : wfIntLit s = true) : TokOk (.int s) s := by
  have hhead : HeadOk .num s := by
    cases s with
    | nil => simp [wfIntLit, wfNatLit] at h
    | cons c r =>
      have hc : isAsciiDigit c = true ∨ c = '-' := by
        by_cases hm : c = '-'
        · exact .inr hm
        · left
          have : wfNatLit (c :: r) = true := by
            unfold wfIntLit at h
            split at h
            · next heq => simp at heq; exact absurd heq.1 hm
            · exact h
          by_cases hz : c = '0'
          · subst hz; decide
          · cases r <;> simp_all [wfNatLit]
      simp only [HeadOk, headChar, digit_not_ignored c hc, Bool.not_false, Bool.true_and, Bool.or_eq_true, beq_iff_eq]
      exact hc
  refine ⟨hhead, ?_⟩
  intro rest hf
  refine ⟨.int, s, ?_, rfl⟩
  unfold advance
  cases s with
  | nil => simp [wfIntLit, wfNatLit] at h
  | cons c r =>
    by_cases hm : c = '-'
    · subst hm
      have hr : wfNatLit r = true := by simpa [wfIntLit] using h
      have h1 : step .start .eof false [] '-' = .goto .minusSign .int false := rfl
      simp only [List.cons_append, runD, h1]
      have := runD_nat r ([] ++ ['-']) rest hr hf .minusSign (.inr rfl)
      simpa using this
    · have hr : wfNatLit (c :: r) = true := by
        unfold wfIntLit at h
        split at h
        · next heq => simp at heq; exact absurd heq.1 hm
        · exact h
      have := runD_nat (c :: r) [] rest hr hf .start (.inl ⟨rfl, rfl⟩)
      simpa using this

/-- every IntValue token written has the IntValue syntax (property C10: `IntValue::valid_syntax`) -/
def IntsWf (segs : List Seg) : Prop := ∀ s x, Seg.tok (.int s) x ∈ segs → wfIntLit s = true
/-- float literals: hypothesis (no lexer lemma for the fraction / exponent states yet) -/
def FloatsLex (segs : List Seg) : Prop := ∀ s x, Seg.tok (.float s) x ∈ segs → TokOk (.float s) x

theorem numbersLex_doc (pre : Option Str) (level : Nat) (doc : Document)
    (hint : IntsWf (docSegs pre level doc)) (hfl : FloatsLex (docSegs pre level doc)) :
    NumbersLex (docSegs pre level doc) := by
  intro t x hm hc
  cases t with
  | int s =>
    rcases render_tok_text _ _ _ x hm with hx | hs
    · rw [hx]; exact tokOk_int s (hint s x hm)
    · simp [clsTok] at hs
  | float s => exact hfl s x hm
  | name n => simp [clsTok] at hc
  | str s => simp [clsTok] at hc
  | p k => cases k <;> simp [clsTok] at hc

end Apollo.Ast
