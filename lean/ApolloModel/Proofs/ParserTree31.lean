import ApolloModel.Proofs.ParserTree30
/-
C08 growth (pipeline), part 31: plugging the type system into the document theorem — the fifteen type-system entries
of `DefTrs` as a structure of their own (`TsTrs n Q`, for stage (v)), combined with the executable definitions.
-/
set_option linter.unusedSimpArgs false
set_option linter.unusedVariables false

namespace Apollo.Parse
open Apollo.Rowan hiding Str
open Apollo.Lex hiding Str

/-- the per-definition statements for the type-system definitions and extensions (entry conditions as in `DefTrs`) -/
structure TsTrs (n : Nat) (Q : List Tok → List Elem → Prop) : Prop where
  directive : DefTr Q (fun q => LexQ q ∧ DStart "directive".toList q) (directiveDefinition n)
  enumDef : DefTr Q (fun q => LexQ q ∧ DStart "enum".toList q) (enumTypeDefinition n)
  input : DefTr Q (fun q => LexQ q ∧ DStart "input".toList q) (inputObjectTypeDefinition n)
  interface : DefTr Q (fun q => LexQ q ∧ DStart "interface".toList q) (interfaceTypeDefinition n)
  object : DefTr Q (fun q => LexQ q ∧ DStart "type".toList q) (objectTypeDefinition n)
  scalar : DefTr Q (fun q => LexQ q ∧ DStart "scalar".toList q) (scalarTypeDefinition n)
  schema : DefTr Q (fun q => LexQ q ∧ DStart "schema".toList q) (schemaDefinition n)
  union : DefTr Q (fun q => LexQ q ∧ DStart "union".toList q) (unionTypeDefinition n)
  schemaExt : DefTr Q (fun q => LexQ q ∧ EStart "schema".toList q) (schemaExtension n)
  scalarExt : DefTr Q (fun q => LexQ q ∧ EStart "scalar".toList q) (scalarTypeExtension n)
  objectExt : DefTr Q (fun q => LexQ q ∧ EStart "type".toList q) (objectTypeExtension n)
  interfaceExt : DefTr Q (fun q => LexQ q ∧ EStart "interface".toList q) (interfaceTypeExtension n)
  unionExt : DefTr Q (fun q => LexQ q ∧ EStart "union".toList q) (unionTypeExtension n)
  enumExt : DefTr Q (fun q => LexQ q ∧ EStart "enum".toList q) (enumTypeExtension n)
  inputExt : DefTr Q (fun q => LexQ q ∧ EStart "input".toList q) (inputObjectTypeExtension n)

/-- the executable definitions (this file's part) together with any statement about the type system -/
theorem defTrs_of_ts (n : Nat) (Q : List Tok → List Elem → Prop) (T : TsTrs n Q) :
    DefTrs n (fun cs e => ExecItemR cs e ∨ Q cs e) where
  directive := T.directive.mono (fun _ h => h) (fun _ _ _ h => Or.inr h)
  enumDef := T.enumDef.mono (fun _ h => h) (fun _ _ _ h => Or.inr h)
  fragment := (((tr_fragmentDefinition n).mono (fun _ h => h) (fun _ cs e h => (Or.inl (execItemR_fragment h) : ExecItemR cs e ∨ Q cs e))).or
      (tr_never (acc_fragmentDefinition_desc n))).mono (fun _ h => dstart_fragment h) (fun _ _ _ h => h)
  input := T.input.mono (fun _ h => h) (fun _ _ _ h => Or.inr h)
  interface := T.interface.mono (fun _ h => h) (fun _ _ _ h => Or.inr h)
  object := T.object.mono (fun _ h => h) (fun _ _ _ h => Or.inr h)
  opQuery := (tr_operationDefinition n).mono (fun _ _ => trivial) (fun _ _ _ h => Or.inl h)
  opMutation := (tr_operationDefinition n).mono (fun _ _ => trivial) (fun _ _ _ h => Or.inl h)
  opSubscription := (tr_operationDefinition n).mono (fun _ _ => trivial) (fun _ _ _ h => Or.inl h)
  opShorthand := (tr_operationDefinition n).mono (fun _ _ => trivial) (fun _ _ _ h => Or.inl h)
  scalar := T.scalar.mono (fun _ h => h) (fun _ _ _ h => Or.inr h)
  schema := T.schema.mono (fun _ h => h) (fun _ _ _ h => Or.inr h)
  union := T.union.mono (fun _ h => h) (fun _ _ _ h => Or.inr h)
  schemaExt := T.schemaExt.mono (fun _ h => h) (fun _ _ _ h => Or.inr h)
  scalarExt := T.scalarExt.mono (fun _ h => h) (fun _ _ _ h => Or.inr h)
  objectExt := T.objectExt.mono (fun _ h => h) (fun _ _ _ h => Or.inr h)
  interfaceExt := T.interfaceExt.mono (fun _ h => h) (fun _ _ _ h => Or.inr h)
  unionExt := T.unionExt.mono (fun _ h => h) (fun _ _ _ h => Or.inr h)
  enumExt := T.enumExt.mono (fun _ h => h) (fun _ _ _ h => Or.inr h)
  inputExt := T.inputExt.mono (fun _ h => h) (fun _ _ _ h => Or.inr h)

theorem execItemR_defItemR {cs : List Tok} {e : List Elem} (h : ExecItemR cs e) : DefItemR cs e := by
  obtain ⟨it, ed, a, b, c, d, _⟩ := h
  exact ⟨it, ed, a, b, c, d⟩

/-- **the document theorem with the type system plugged in**: if the type-system definition parsers satisfy `DefItemR`
    whenever they satisfy `Q` (no liberty used), an accepted document all of whose type-system items satisfy that side
    condition converts definition by definition -/
theorem parseDocument_fromCst (Q : List Tok → List Elem → Prop) (T : ∀ n, TsTrs n Q) (rl : Nat) (src : Str) (root : Elem)
    (h : (parse .document none rl src).outcome = .tree root) (herr : (parse .document none rl src).errors = []) :
    LexClean src ∧ ∃ ts e inner, sig (srcToks src) = ts ++ [e] ∧ e.kind = .eof ∧ root = Elem.node "DOCUMENT" inner ∧
      ∃ items : List (List Tok × List Elem), items ≠ [] ∧ ts = (items.map (·.1)).flatten ∧
        sigE inner = (items.map (·.2)).flatten ∧ (∀ i ∈ items, ExecItemR i.1 i.2 ∨ Q i.1 i.2) ∧
        ((∀ i ∈ items, Q i.1 i.2 → DefItemR i.1 i.2) →
          ∃ its : List Ast.Item, its ≠ [] ∧ TokIs ts (Ast.itemsToks its) ∧ (∀ i ∈ its, Ast.wfDefinition i.2 = true) ∧
            (FromCst.fromCst root).1 = its.map (·.2)) := by
  obtain ⟨hclean, ts, e, inner, h1, h2, hroot, items, hne, hts, hsig, hall⟩ :=
    parseDocument_cst (fun n => defTrs_of_ts n Q (T n)) rl src root h herr
  refine ⟨hclean, ts, e, inner, h1, h2, hroot, items, hne, hts, hsig, hall, fun hq => ?_⟩
  exact document_fromCst_of_items root inner ts items hroot hne hts hsig
    (fun i hi => (hall i hi).elim execItemR_defItemR (hq i hi))

end Apollo.Parse
