import ApolloModel.Proofs.ParserRecursion12
import ApolloModel.Proofs.ParserTermination5
/-
C04 growth (recursion limit across runs), part 13: `Parser::parse_selection_set` with limit `r` against the
same parse with a limit that is never hit.
-/
set_option linter.unusedSimpArgs false
set_option linter.unusedVariables false
namespace Apollo.Parse
open Apollo.Rowan hiding Str
open Apollo.Lex hiding Str

/-- the state `parse_selection_set` starts in, limit left at 0 -/
def selStart (src : Str) : PState :=
  { initState src none 0 with builder := (initState src none 0).builder.startNode "SELECTION_SET" }

theorem selStart_inv (src : Str) (L : Nat) : Inv (setL L (selStart src)) :=
  ⟨fun _ => by simp [setL, selStart, initState, Builder.new, Builder.startNode, textList, pendingText, curText],
    fun p hp => by simp [setL, selStart, initState, Builder.new, Builder.startNode] at hp; simp [hp, setL, selStart, initState, Builder.new, Builder.startNode],
    fun h => by simp [setL, selStart, initState] at h, fun t h => by simp [setL, selStart, initState] at h,
    fun h => by simp [setL, selStart, initState] at h⟩

/-- what `parse` returns, in terms of the grammar run from `selStart` -/
theorem parse_selectionSet_run (L : Nat) (src : Str) :
    ∃ s, (fieldSet (fuelFor src) >>= fun _ => expectEndOfInput).run (setL L (selStart src)) = .ok () s ∧
      (parse .selectionSet none L src).errors = s.errors ∧ (parse .selectionSet none L src).recHigh = s.recHigh := by
  have hterm := fun w => parse_selection_set_terminates none L src w
  unfold parse runEntry at hterm ⊢
  simp only [Entry.standalone, Entry.grammar] at hterm ⊢
  have e0 : ({ initState src none L with builder := (initState src none L).builder.startNode "SELECTION_SET" } : PState) =
      setL L (selStart src) := rfl
  rw [e0] at hterm ⊢
  have hpost := (fieldSet (fuelFor src) >>= fun _ => expectEndOfInput).ok _ (selStart_inv src L)
  cases hr : (fieldSet (fuelFor src) >>= fun _ => expectEndOfInput).run (setL L (selStart src)) with
  | abort w => simp [hr] at hterm
  | panic m => simp [hr, Post] at hpost
  | ok a s => exact ⟨s, rfl, rfl, rfl⟩

/-- `Parser::parse_selection_set`: the run with recursion limit `r` against the run with a limit `R ≥ r` that
    is never hit (no token limit).  The limited high-water mark is `min (unlimited high-water mark) (r + 1)`,
    and a limit error is reported exactly when the unlimited run went deeper than `r`. -/
theorem parseSelectionSet_cross (r R : Nat) (src : Str) (hrR : r ≤ R)
    (hfree : (parse .selectionSet none R src).recHigh ≤ R) :
    (parse .selectionSet none r src).recHigh = min (parse .selectionSet none R src).recHigh (r + 1) ∧
    (HasLim (parse .selectionSet none r src).errors ↔
      ((parse .selectionSet none R src).recHigh > r ∨ HasLim (parse .selectionSet none R src).errors)) := by
  obtain ⟨sr, hr, er1, er2⟩ := parse_selectionSet_run r src
  obtain ⟨sR, hR, eR1, eR2⟩ := parse_selectionSet_run R src
  rw [er1, er2, eR1, eR2]
  rw [eR2] at hfree
  have g : GI (selStart src) :=
    ⟨rfl, fun h => by simp [selStart, initState] at h, fun h => by simp [selStart, initState] at h⟩
  have hf : Fresh (selStart src) := fun _ => rfl
  rcases xs_selectionSetEntry (fuelFor src) (selStart src) r R () () sr sR hrR (Nat.zero_le _) (Nat.zero_le _) g hf hr hR
    with ⟨t, e1, e2, _, th, _, _⟩ | ⟨d1, d2, d3⟩
  · subst e1 e2
    refine ⟨?_, ?_⟩
    · show t.recHigh = min t.recHigh (r + 1)
      omega
    · show HasLim t.errors ↔ (t.recHigh > r ∨ HasLim t.errors)
      constructor
      · exact Or.inr
      · rintro (h | h)
        · omega
        · exact h
  · exact ⟨by omega, ⟨fun _ => Or.inl (by omega), fun _ => d1⟩⟩

end Apollo.Parse
