import ApolloModel.Model.NameHeap
/-
Generic lemmas about the reference-counted heap of Model/NameHeap.lean: the invariant `Heap.Ok`
(strong count = number of owning handles, freed ⇔ count 0, ghost error counters 0) is preserved by
allocate / increment / decrement / read / write as long as the handle bookkeeping `refs` changes
accordingly, and `refsOf` follows `List.set`.
-/
namespace Apollo.Rc
variable {α : Type}

structure Heap.Ok (h : Heap α) (refs : Nat → Nat) : Prop where
  count : ∀ c, h.strongOf c = refs c
  freed : ∀ (c : Nat) (cell : Cell α), h.cells[c]? = some cell → (cell.freed = true ↔ cell.strong = 0)
  uaf : h.uaf = 0
  dfree : h.dfree = 0

namespace Heap

theorem Ok.live {h : Heap α} {refs : Nat → Nat} (ok : h.Ok refs) {c : Nat} (hc : 1 ≤ refs c) :
    ∃ cell, h.cells[c]? = some cell ∧ cell.freed = false ∧ cell.strong = refs c := by
  have h1 := ok.count c
  unfold strongOf at h1
  cases hg : h.cells[c]? with
  | none => rw [hg] at h1; simp at h1; omega
  | some cell =>
    rw [hg] at h1
    simp at h1
    refine ⟨cell, rfl, ?_, h1⟩
    cases hf : cell.freed with
    | false => rfl
    | true => have := (ok.freed c cell hg).mp hf; omega

theorem Ok.congr {h : Heap α} {refs refs' : Nat → Nat} (ok : h.Ok refs) (e : ∀ c, refs' c = refs c) : h.Ok refs' :=
  ⟨fun c => by rw [ok.count, e], ok.freed, ok.uaf, ok.dfree⟩

theorem Ok.fresh {h : Heap α} {refs : Nat → Nat} (ok : h.Ok refs) : refs h.cells.length = 0 := by
  have := ok.count h.cells.length
  simp [strongOf] at this
  omega

/-! ### allocate -/

theorem alloc_snd (h : Heap α) (v : α) : (h.alloc v).2 = h.cells.length := rfl

theorem alloc_cells (h : Heap α) (v : α) :
    (h.alloc v).1.cells = h.cells ++ [{ val := v, strong := 1, freed := false }] := rfl

theorem alloc_get_old (h : Heap α) (v : α) {c : Nat} {cell : Cell α} (hc : h.cells[c]? = some cell) :
    (h.alloc v).1.cells[c]? = some cell := by
  have hlt : c < h.cells.length := by
    rcases Nat.lt_or_ge c h.cells.length with h1 | h1
    · exact h1
    · rw [List.getElem?_eq_none h1] at hc; cases hc
  rw [alloc_cells, List.getElem?_append_left hlt]; exact hc

theorem alloc_get_new (h : Heap α) (v : α) :
    (h.alloc v).1.cells[h.cells.length]? = some { val := v, strong := 1, freed := false } := by
  rw [alloc_cells, List.getElem?_append_right (Nat.le_refl _)]; simp

theorem alloc_get (h : Heap α) (v : α) (c : Nat) :
    (h.alloc v).1.cells[c]? =
      if c = h.cells.length then some { val := v, strong := 1, freed := false } else h.cells[c]? := by
  by_cases e : c = h.cells.length
  · subst e; simp [alloc_get_new]
  · simp only [e, if_false]
    rcases Nat.lt_or_ge c h.cells.length with h1 | h1
    · rw [alloc_cells, List.getElem?_append_left h1]
    · rw [List.getElem?_eq_none h1, List.getElem?_eq_none]
      rw [alloc_cells]; simp; omega

theorem alloc_ok {h : Heap α} {refs refs' : Nat → Nat} (v : α) (ok : h.Ok refs)
    (hr : ∀ c, refs' c = refs c + if c = h.cells.length then 1 else 0) : (h.alloc v).1.Ok refs' := by
  refine ⟨?_, ?_, ok.uaf, ok.dfree⟩
  · intro c
    rw [hr, ← ok.count]
    unfold strongOf
    rw [alloc_get]
    by_cases e : c = h.cells.length
    · subst e; simp
    · simp [e]
  · intro c cell hc
    rw [alloc_get] at hc
    by_cases e : c = h.cells.length
    · simp [e] at hc; subst hc; simp
    · simp [e] at hc; exact ok.freed c cell hc

theorem alloc_valOf_old (h : Heap α) (v : α) {c : Nat} {x : α} (hc : h.valOf c = some x) :
    (h.alloc v).1.valOf c = some x := by
  unfold valOf at *
  cases hg : h.cells[c]? with
  | none => rw [hg] at hc; cases hc
  | some cell => rw [alloc_get_old h v hg]; rw [hg] at hc; exact hc

theorem alloc_valOf_new (h : Heap α) (v : α) : (h.alloc v).1.valOf (h.alloc v).2 = some v := by
  simp [valOf, alloc_snd, alloc_get_new]

theorem alloc_uaf (h : Heap α) (v : α) : (h.alloc v).1.uaf = h.uaf := rfl

/-! ### increment -/

theorem incr_of_live {h : Heap α} {c : Nat} {cell : Cell α} (hc : h.cells[c]? = some cell) (hf : cell.freed = false) :
    h.incr c = { h with cells := h.cells.set c { cell with strong := cell.strong + 1 } } := by
  simp [incr, hc, hf]

theorem incr_ok {h : Heap α} {refs refs' : Nat → Nat} {c : Nat} (ok : h.Ok refs) (hc : 1 ≤ refs c)
    (hr : ∀ c', refs' c' = refs c' + if c' = c then 1 else 0) : (h.incr c).Ok refs' := by
  obtain ⟨cell, hg, hf, hs⟩ := ok.live hc
  rw [incr_of_live hg hf]
  refine ⟨?_, ?_, ok.uaf, ok.dfree⟩
  · intro c'
    rw [hr, ← ok.count]
    unfold strongOf
    simp only [List.getElem?_set]
    by_cases e : c = c'
    · subst e
      obtain ⟨hlt, hge⟩ := List.getElem?_eq_some_iff.mp hg
      simp [hlt, hge]
    · have e' : ¬ c' = c := fun x => e x.symm
      simp [e, e']
  · intro c' cell' hc'
    simp only [List.getElem?_set] at hc'
    by_cases e : c = c'
    · subst e
      split at hc'
      · split at hc'
        · simp at hc'; subst hc'; simp [hf]
        · cases hc'
      · exact ok.freed _ _ hc'
    · simp [e] at hc'; exact ok.freed _ _ hc'

theorem incr_valOf {h : Heap α} (c c' : Nat) : (h.incr c).valOf c' = h.valOf c' := by
  unfold incr
  cases hg : h.cells[c]? with
  | none => rfl
  | some cell =>
    simp only
    split
    · rfl
    · unfold valOf
      obtain ⟨hlt, hge⟩ := List.getElem?_eq_some_iff.mp hg
      by_cases e : c = c'
      · subst e; simp [hlt, hge]
      · simp [e]

/-! ### decrement -/

theorem decr_of_live {h : Heap α} {c : Nat} {cell : Cell α} (hc : h.cells[c]? = some cell) (hf : cell.freed = false)
    (hs : 1 ≤ cell.strong) :
    h.decr c = { h with cells := h.cells.set c { cell with strong := cell.strong - 1, freed := cell.strong == 1 } } := by
  have : (cell.strong == 0) = false := by simp; omega
  simp [decr, hc, hf, this]

theorem decr_ok {h : Heap α} {refs refs' : Nat → Nat} {c : Nat} (ok : h.Ok refs) (hc : 1 ≤ refs c)
    (hr : ∀ c', refs' c' + (if c' = c then 1 else 0) = refs c') : (h.decr c).Ok refs' := by
  obtain ⟨cell, hg, hf, hs⟩ := ok.live hc
  rw [decr_of_live hg hf (by omega)]
  have hlt : c < h.cells.length := by
    rcases Nat.lt_or_ge c h.cells.length with h1 | h1
    · exact h1
    · rw [List.getElem?_eq_none h1] at hg; cases hg
  refine ⟨?_, ?_, ok.uaf, ok.dfree⟩
  · intro c'
    have hr' := hr c'
    have hcnt := ok.count c'
    unfold strongOf at hcnt ⊢
    simp only [List.getElem?_set]
    by_cases e : c = c'
    · subst e
      simp [hlt]
      simp [hg] at hcnt
      simp at hr'
      omega
    · have e' : ¬ c' = c := fun x => e x.symm
      simp [e]
      simp [e'] at hr'
      rw [hcnt]; omega
  · intro c' cell' hc'
    simp only [List.getElem?_set] at hc'
    by_cases e : c = c'
    · subst e
      simp [hlt] at hc'
      subst hc'
      simp
      omega
    · simp [e] at hc'; exact ok.freed _ _ hc'

theorem decr_valOf {h : Heap α} (c c' : Nat) : (h.decr c).valOf c' = h.valOf c' := by
  unfold decr
  cases hg : h.cells[c]? with
  | none => rfl
  | some cell =>
    simp only
    split
    · rfl
    · unfold valOf
      obtain ⟨hlt, hge⟩ := List.getElem?_eq_some_iff.mp hg
      by_cases e : c = c'
      · subst e; simp [hlt, hge]
      · simp [e]

/-! ### read / touch -/

theorem read_of_live {h : Heap α} {refs : Nat → Nat} {c : Nat} (ok : h.Ok refs) (hc : 1 ≤ refs c) :
    ∃ v, h.read c = some v ∧ h.valOf c = some v := by
  obtain ⟨cell, hg, hf, _⟩ := ok.live hc
  exact ⟨cell.val, by simp [read, hg, hf], by simp [valOf, hg]⟩

theorem touch_of_live {h : Heap α} {refs : Nat → Nat} {c : Nat} (ok : h.Ok refs) (hc : 1 ≤ refs c) :
    h.touch c = h := by
  obtain ⟨v, hv, _⟩ := read_of_live ok hc
  simp [touch, hv]

/-! ### write -/

theorem write_of_live {h : Heap α} {c : Nat} {cell : Cell α} (f : α → α) (hc : h.cells[c]? = some cell)
    (hf : cell.freed = false) :
    h.write c f = { h with cells := h.cells.set c { cell with val := f cell.val } } := by
  simp [write, hc, hf]

theorem write_ok {h : Heap α} {refs : Nat → Nat} {c : Nat} (f : α → α) (ok : h.Ok refs) (hc : 1 ≤ refs c) :
    (h.write c f).Ok refs := by
  obtain ⟨cell, hg, hf, hs⟩ := ok.live hc
  rw [write_of_live f hg hf]
  have hlt : c < h.cells.length := by
    rcases Nat.lt_or_ge c h.cells.length with h1 | h1
    · exact h1
    · rw [List.getElem?_eq_none h1] at hg; cases hg
  refine ⟨?_, ?_, ok.uaf, ok.dfree⟩
  · intro c'
    rw [← ok.count]
    unfold strongOf
    simp only [List.getElem?_set]
    by_cases e : c = c'
    · subst e
      obtain ⟨_, hge⟩ := List.getElem?_eq_some_iff.mp hg
      simp [hlt, hge]
    · simp [e]
  · intro c' cell' hc'
    simp only [List.getElem?_set] at hc'
    by_cases e : c = c'
    · subst e
      simp [hlt] at hc'
      subst hc'
      exact ok.freed c cell hg
    · simp [e] at hc'; exact ok.freed _ _ hc'

theorem write_read_other {h : Heap α} (f : α → α) {c c' : Nat} (e : c ≠ c') : (h.write c f).read c' = h.read c' := by
  unfold write
  cases hg : h.cells[c]? with
  | none => rfl
  | some cell =>
    simp only
    split
    · rfl
    · unfold read
      simp [e]

theorem write_read_same {h : Heap α} (f : α → α) {c : Nat} {v : α} (hv : h.read c = some v) :
    (h.write c f).read c = some (f v) := by
  unfold read at hv
  cases hg : h.cells[c]? with
  | none => rw [hg] at hv; cases hv
  | some cell =>
    rw [hg] at hv
    simp only at hv
    split at hv
    · cases hv
    · rename_i hf
      simp at hf hv
      have hlt : c < h.cells.length := by
        rcases Nat.lt_or_ge c h.cells.length with h1 | h1
        · exact h1
        · rw [List.getElem?_eq_none h1] at hg; cases hg
      rw [write_of_live f hg hf]
      simp [read, hlt, hf, hv]

end Heap

/-! ### handle counting -/

theorem refsOf_set {σ : Type} (owns : σ → Option Nat) (c : Nat) (s : σ) :
    ∀ (slots : List σ) (i : Nat) (old : σ), slots[i]? = some old →
      refsOf owns (slots.set i s) c + (if owns old = some c then 1 else 0)
        = refsOf owns slots c + (if owns s = some c then 1 else 0)
  | [], i, old, h => by simp at h
  | x :: rest, 0, old, h => by
    simp at h; subst h
    simp only [List.set_cons_zero, refsOf]; omega
  | x :: rest, i + 1, old, h => by
    simp at h
    have := refsOf_set owns c s rest i old h
    simp only [List.set_cons_succ, refsOf]; omega

theorem refsOf_replicate {σ : Type} (owns : σ → Option Nat) (e : σ) (he : owns e = none) (c : Nat) :
    ∀ n, refsOf owns (List.replicate n e) c = 0
  | 0 => rfl
  | n + 1 => by simp [List.replicate_succ, refsOf, he, refsOf_replicate owns e he c n]

theorem refsOf_pos_of_mem {σ : Type} (owns : σ → Option Nat) (c : Nat) :
    ∀ (slots : List σ) (i : Nat) (s : σ), slots[i]? = some s → owns s = some c → 1 ≤ refsOf owns slots c
  | [], i, s, h, _ => by simp at h
  | x :: rest, 0, s, h, ho => by
    simp at h; subst h; simp [refsOf, ho]
  | x :: rest, i + 1, s, h, ho => by
    simp at h
    have := refsOf_pos_of_mem owns c rest i s h ho
    simp only [refsOf]; omega

/-- two different slots that own the same cell: at least two references -/
theorem refsOf_two {σ : Type} (owns : σ → Option Nat) (c : Nat) :
    ∀ (slots : List σ) (i j : Nat) (s t : σ), i ≠ j → slots[i]? = some s → slots[j]? = some t →
      owns s = some c → owns t = some c → 2 ≤ refsOf owns slots c
  | [], i, _, s, _, _, h, _, _, _ => by simp at h
  | x :: rest, 0, 0, _, _, hne, _, _, _, _ => absurd rfl hne
  | x :: rest, 0, j + 1, s, t, _, hi, hj, hs, ht => by
    simp at hi hj; subst hi
    have := refsOf_pos_of_mem owns c rest j t hj ht
    simp only [refsOf, hs, if_true]; omega
  | x :: rest, i + 1, 0, s, t, _, hi, hj, hs, ht => by
    simp at hi hj; subst hj
    have := refsOf_pos_of_mem owns c rest i s hi hs
    simp only [refsOf, ht, if_true]; omega
  | x :: rest, i + 1, j + 1, s, t, hne, hi, hj, hs, ht => by
    simp at hi hj
    have := refsOf_two owns c rest i j s t (by omega) hi hj hs ht
    simp only [refsOf]; omega

theorem refsOf_zero_of_all_none {σ : Type} (owns : σ → Option Nat) (c : Nat) :
    ∀ (slots : List σ), (∀ s ∈ slots, owns s = none) → refsOf owns slots c = 0
  | [], _ => rfl
  | x :: rest, h => by
    have h1 := h x (by simp)
    have h2 := refsOf_zero_of_all_none owns c rest (fun s hs => h s (by simp [hs]))
    simp [refsOf, h1, h2]

end Apollo.Rc
