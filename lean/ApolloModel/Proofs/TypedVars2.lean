import ApolloModel.Proofs.TypedVars1
/-
C18 on top of the typed executable rules, part 2: arguments and directives; the structural facts about a built
document that the structural rules establish (`SelsOk`, `FragOk`); what a quiet walk of one operation achieves
(`WalkOk`): every variable written in the walked tree is declared, every fragment it marks was entered.
-/
namespace Apollo.ExecRules
open Apollo Apollo.Spec

/-- every argument is defined (`UndefinedArgument`) and its value has the shape facts of `litOk` -/
def argsOk (s : RSchema) (defs : List InDef) (args : List RArg) : Prop :=
  ∀ a ∈ args, ∃ d, defs.find? (·.name == a.name) = some d ∧ litOk s (RVal.depth a.value + 1) d.ty a.value

/-- every directive is defined (`UndefinedDirective`) with defined arguments -/
def dirsOk (s : RSchema) (dirs : List RDir) : Prop :=
  ∀ d ∈ dirs, ∃ dd, s.dirs.find? (·.name == d.name) = some dd ∧ argsOk s dd.args d.args

theorem argDiags_complete (s : RSchema) (vars : List RVarDef) (d : InDef) (a : RArg)
    (hl : litOk s (RVal.depth a.value + 1) d.ty a.value) (h : argDiags s vars d a = []) :
    ∀ n ∈ RVal.vars a.value, declared vars n = true := by
  unfold argDiags at h
  cases hv : a.value with
  | var m =>
    rw [hv] at h hl
    simp only at h
    by_cases hu : usageFails vars d (.var m) = true
    · simp [hu] at h
    · simp only [hu, Bool.false_eq_true, if_false] at h
      exact valueDiags_complete s vars 2 d.ty (.var m) (by simp [RVal.depth]) (by simpa [RVal.depth] using hl) h
  | null => intro n hn; simp [RVal.vars] at hn
  | lit => intro n hn; simp [RVal.vars] at hn
  | list xs =>
    rw [hv] at h hl
    exact valueDiags_complete s vars _ d.ty _ (Nat.le_succ _) hl h
  | obj kvs =>
    rw [hv] at h hl
    exact valueDiags_complete s vars _ d.ty _ (Nat.le_succ _) hl h

theorem argsDiags_complete (s : RSchema) (vars : List RVarDef) (defs : List InDef) (args : List RArg)
    (hok : argsOk s defs args) (h : argsDiags s vars defs args = []) : ∀ n ∈ argsVars args, declared vars n = true := by
  intro n hn
  simp only [argsVars, List.mem_flatMap] at hn
  obtain ⟨a, ha, hna⟩ := hn
  obtain ⟨d, hd, hl⟩ := hok a ha
  simp only [argsDiags, List.flatMap_eq_nil_iff] at h
  have h1 := h a ha
  rw [hd] at h1
  exact argDiags_complete s vars d a hl h1 n hna

theorem dirsDiags_complete (s : RSchema) (vars : List RVarDef) (dirs : List RDir)
    (hok : dirsOk s dirs) (h : dirsDiags s vars dirs = []) : ∀ n ∈ dirsVars dirs, declared vars n = true := by
  intro n hn
  simp only [dirsVars, List.mem_flatMap] at hn
  obtain ⟨d, hd, hnd⟩ := hn
  obtain ⟨dd, hdd, hargs⟩ := hok d hd
  simp only [dirsDiags, List.flatMap_eq_nil_iff] at h
  have h1 := h d hd
  rw [hdd] at h1
  exact argsDiags_complete s vars dd.args d.args hargs h1 n (by simpa [argsVars] using hnd)

/-! ### selection trees -/

/-- variables written in the tree itself (not in the fragments it spreads) -/
def localVars : RSels → List String
  | .nil => []
  | .field _ dirs args sub rest => dirsVars dirs ++ argsVars args ++ localVars sub ++ localVars rest
  | .spread _ dirs rest => dirsVars dirs ++ localVars rest
  | .inline _ dirs sub rest => dirsVars dirs ++ localVars sub ++ localVars rest

def allSpreads : RSels → List String
  | .nil => []
  | .field _ _ _ sub rest => allSpreads sub ++ allSpreads rest
  | .spread f _ rest => f :: allSpreads rest
  | .inline _ _ sub rest => allSpreads sub ++ allSpreads rest

/-- what the structural rules establish for a selection set under the type `ty`: every field is defined on its
    parent type with defined arguments, every directive is defined, every spread names a fragment of the document,
    every type condition is a composite type -/
def SelsOk (s : RSchema) (doc : RBuilt) : String → RSels → Prop
  | _, .nil => True
  | t, .field name dirs args sub rest =>
    dirsOk s dirs ∧ (∃ fd, s.field t name = some fd ∧ argsOk s fd.args args ∧ SelsOk s doc fd.ty.innerNamedType sub) ∧
      SelsOk s doc t rest
  | t, .spread f dirs rest => dirsOk s dirs ∧ (doc.findFrag f).isSome ∧ SelsOk s doc t rest
  | t, .inline tc dirs sub rest =>
    dirsOk s dirs ∧
      (match tc with
       | none => SelsOk s doc t sub
       | some c => isCompositeType s c = true ∧ SelsOk s doc c sub) ∧
      SelsOk s doc t rest

/-- … and for a fragment definition: composite type condition, not on a spread cycle -/
def FragOk (s : RSchema) (doc : RBuilt) (f : RFrag) : Prop :=
  dirsOk s f.dirs ∧ isCompositeType s f.tc = true ∧ (reach doc f.sels).contains f.name = false ∧ SelsOk s doc f.tc f.sels

def allDefined (doc : RBuilt) (W : List String) : Prop := ∀ x ∈ W, (doc.findFrag x).isSome

/-- `g` names a fragment whose own variables are declared and whose spreads are all marked in `W` -/
def Done (vars : List RVarDef) (doc : RBuilt) (W : List String) (g : String) : Prop :=
  ∃ d, doc.findFrag g = some d ∧ (∀ n ∈ dirsVars d.dirs ++ localVars d.sels, declared vars n = true) ∧
    ∀ h ∈ allSpreads d.sels, h ∈ W

theorem Done.mono {vars : List RVarDef} {doc : RBuilt} {W W' : List String} {g : String}
    (h : Done vars doc W g) (hs : ∀ x ∈ W, x ∈ W') : Done vars doc W' g := by
  obtain ⟨d, h1, h2, h3⟩ := h
  exact ⟨d, h1, h2, fun x hx => hs x (h3 x hx)⟩

/-- what a quiet walk from `V` to `V'` over `t` achieves -/
structure WalkOk (vars : List RVarDef) (doc : RBuilt) (t : RSels) (V V' : List String) : Prop where
  mono : ∀ x ∈ V, x ∈ V'
  len : V.length ≤ V'.length
  nodup : V.Nodup → V'.Nodup
  defd : allDefined doc V → allDefined doc V'
  locals : ∀ n ∈ localVars t, declared vars n = true
  spreads : ∀ g ∈ allSpreads t, g ∈ V'
  fresh : ∀ g ∈ V', g ∈ V ∨ Done vars doc V' g

theorem walkOk_nil (vars : List RVarDef) (doc : RBuilt) (V : List String) : WalkOk vars doc .nil V V :=
  ⟨fun _ h => h, Nat.le_refl _, fun h => h, fun h => h, by simp [localVars], by simp [allSpreads], fun _ h => .inl h⟩

/-- two walks one after the other -/
theorem WalkOk.seq {vars : List RVarDef} {doc : RBuilt} {a b t : RSels} {V V1 V2 : List String} (extra : List String)
    (h1 : WalkOk vars doc a V V1) (h2 : WalkOk vars doc b V1 V2)
    (hextra : ∀ n ∈ extra, declared vars n = true)
    (hl : ∀ n ∈ localVars t, n ∈ extra ∨ n ∈ localVars a ∨ n ∈ localVars b)
    (hs : ∀ g ∈ allSpreads t, g ∈ allSpreads a ∨ g ∈ allSpreads b) : WalkOk vars doc t V V2 := by
  refine ⟨fun x hx => h2.mono x (h1.mono x hx), Nat.le_trans h1.len h2.len, fun h => h2.nodup (h1.nodup h),
    fun h => h2.defd (h1.defd h), ?_, ?_, ?_⟩
  · intro n hn
    rcases hl n hn with h | h | h
    · exact hextra n h
    · exact h1.locals n h
    · exact h2.locals n h
  · intro g hg
    rcases hs g hg with h | h
    · exact h2.mono g (h1.spreads g h)
    · exact h2.spreads g h
  · intro g hg
    rcases h2.fresh g hg with h | h
    · rcases h1.fresh g h with h' | h'
      · exact .inl h'
      · exact .inr (h'.mono h2.mono)
    · exact .inr h

end Apollo.ExecRules
