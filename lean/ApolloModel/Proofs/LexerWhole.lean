import ApolloModel.Proofs.LexerBlock
/-
C03 growth: the whole-input theorem "no lexer error ⟺ the input is a sequence of tokens of the lexical grammar", both
directions, and the uniqueness of the tokenisation (it is the maximal-munch one the lexer computes).
-/
set_option linter.unusedSimpArgs false
namespace Apollo.Lex
open Apollo.Spec.Lexical (IsIntValue IsFloatValue NumberLookaheadOk IsQuotedString IsComment
  CommentLookaheadOk IsName NameLookaheadOk IsBlockString StringLookaheadOk BlockBody)

/-- the exact language of StringValue tokens: a quoted string (lexer's `LexStringChars`: any character is a
    SourceCharacter, no surrogate `\uXXXX`), the empty one not followed by a third quote, or a block string -/
def IsStringToken (t rest : Str) : Prop :=
  (IsLexQuoted t ∧ StringLookaheadOk t rest) ∨ IsBlockString anyChar t

/-- a tokenisation of the input by the lexical grammar: every item is a token `TokenOk` accepts (with its lookahead
    restriction), every StringValue token is in the exact language, the texts concatenate to the input, EOF at the end -/
inductive ExactTokens : Str → List Item → Prop where
  | eof : ExactTokens [] [.tok .eof []]
  | cons {k : Kind} {t rest : Str} {items : List Item} : t ≠ [] → TokenOk k t rest →
      (k = .stringValue → IsStringToken t rest) → ExactTokens rest items →
      ExactTokens (t ++ rest) (.tok k t :: items)

/-! ### list facts about maximal runs -/

theorem takeWhile_run (p : Char → Bool) (a rest : Str) (ha : ∀ c ∈ a, p c = true) (hr : ∀ c r, rest = c :: r → p c = false) :
    (a ++ rest).takeWhile p = a ∧ (a ++ rest).dropWhile p = rest := by
  induction a with
  | nil =>
    cases rest with
    | nil => exact ⟨rfl, rfl⟩
    | cons c r => simp [List.takeWhile, List.dropWhile, hr c r rfl]
  | cons x a ih =>
    have hx := ha x (by simp)
    obtain ⟨i1, i2⟩ := ih (fun c hc => ha c (by simp [hc]))
    simp [List.takeWhile, List.dropWhile, hx, i1, i2]

/-- a quoted string of the exact language does not start with three quotes -/
theorem lexQuoted_not_block {t : Str} (h : IsLexQuoted t) : ¬ ∃ tail, t = q3 ++ tail := by
  obtain ⟨body, rfl, hb⟩ := h
  rintro ⟨tail, e⟩
  cases hb with
  | nil => simp [q3] at e
  | plain h1 _ _ _ => simp [q3] at e; exact h1 e.1
  | escaped _ _ => simp [q3] at e
  | unicode _ _ _ _ _ _ => simp [q3] at e

/-! ### every token of the grammar is what `advance` emits -/

theorem advance_complete (k : Kind) (t rest : Str) (hne : t ≠ []) (hok : TokenOk k t rest)
    (hstr : k = .stringValue → IsStringToken t rest) : advance (t ++ rest) = (.tok k t, rest) := by
  cases k with
  | name =>
    obtain ⟨⟨c, cs, rfl, hc, hcs⟩, hl⟩ := hok
    rw [(classes_agree c).2.symm] at hc
    have hrun := takeWhile_run isNameContinue cs rest
      (by intro x hx; rw [← specNameContinue_eq]; exact List.all_eq_true.mp hcs x hx)
      (by intro x r e; subst e; rw [← specNameContinue_eq]; exact hl)
    rw [List.cons_append, lex_name c _ hc, hrun.1, hrun.2]
  | int => exact lex_int_complete t rest hok.1 hok.2
  | float => exact lex_float_complete t rest hok.1 hok.2
  | stringValue =>
    rcases hstr rfl with ⟨⟨body, rfl, hb⟩, hl⟩ | hb
    · have := lex_string_complete body rest hb (by intro e; subst e; exact hl rfl)
      simpa using this
    · exact ((lex_block_string_iff _ t rest).mpr ⟨rfl, hb⟩).1
  | comment =>
    obtain ⟨⟨body, rfl, hb⟩, hl⟩ := hok
    have hrun := takeWhile_run (fun c => !isLineTerminator c) body rest
      (by intro x hx; have := (hb x hx).1; rw [specLT_eq] at this; simp [this])
      (by intro x r e; subst e; have : Spec.Lexical.isLineTerminator x = true := hl; rw [specLT_eq] at this; simp [this])
    rw [List.cons_append, lex_comment, hrun.1, hrun.2]
  | whitespace =>
    obtain ⟨_, hall, hl⟩ := hok
    cases t with
    | nil => exact absurd rfl hne
    | cons c cs =>
      have hrun := takeWhile_run isWhitespaceAssimilated cs rest (fun x hx => hall x (by simp [hx])) hl
      rw [List.cons_append, lex_whitespace c _ (hall c (by simp)), hrun.1, hrun.2]
  | spread =>
    have : t = ['.', '.', '.'] := hok
    subst this
    exact lex_spread rest
  | eof => exact absurd hok id
  | _ => obtain ⟨c, rfl, hp⟩ := hok; exact lex_punctuator c _ rest hp

/-- a StringValue token that `advance` emits is in the exact language -/
theorem advance_string_exact (c : Char) (src t rest : Str) (h : advance (c :: src) = (.tok .stringValue t, rest)) :
    IsStringToken t rest := by
  by_cases hb : ∃ tail, t = q3 ++ tail
  · exact Or.inr ((lex_block_string_iff _ t rest).mp ⟨h, hb⟩).2
  · rcases advance_token_sound c src .stringValue t rest h with hq | hq
    · refine Or.inl ⟨hq, ?_⟩
      intro ht
      subst ht
      have hc := advance_concat (c :: src)
      rw [h] at hc
      simp only [Item.data] at hc
      cases rest with
      | nil => simp
      | cons x r =>
        intro hx
        have : x = '"' := by simpa using hx
        subst this
        obtain ⟨tail', hp⟩ := advance_block_prefix r
        have hsrc : c :: src = '"' :: '"' :: '"' :: r := by simpa using hc.symm
        rw [← hsrc, h] at hp
        simp [Item.data, q3] at hp
    · exact absurd hq hb

/-! ### the whole input -/

theorem lexAux_exact_sound : ∀ (fuel count : Nat) (src : Str), src.length < fuel →
    (∀ it ∈ lexAux fuel none count src, it.isErr = false) → ExactTokens src (lexAux fuel none count src)
  | 0, _, _, h, _ => by omega
  | fuel + 1, count, [], _, _ => by simp [lexAux]; exact ExactTokens.eof
  | fuel + 1, count, c :: rest, h, hok => by
    have hp := advance_progress c rest
    have hc := advance_concat (c :: rest)
    simp only [lexAux, Bool.false_eq_true, if_false] at hok ⊢
    have h1 := hok (advance (c :: rest)).1 (by simp)
    cases hadv : advance (c :: rest) with
    | mk item rest' =>
      rw [hadv] at h1 hp hc hok
      simp only at h1 hp hc hok
      cases item with
      | err d => simp [Item.isErr] at h1
      | limit => simp [Item.isErr] at h1
      | tok k t =>
        have hok' := advance_token_sound c rest k t rest' hadv
        have ih := lexAux_exact_sound fuel (count + 1) rest' (by simp only [List.length_cons] at h hp; omega)
          (fun it hit => hok it (by simp [hit]))
        simp only [Item.data] at hc hp
        rw [← hc]
        refine ExactTokens.cons hp.1 hok' ?_ ih
        intro hk
        subst hk
        exact advance_string_exact c rest t rest' hadv

theorem lexAux_exact_complete {src : Str} {items : List Item} (h : ExactTokens src items) :
    ∀ (fuel count : Nat), src.length < fuel → lexAux fuel none count src = items := by
  induction h with
  | eof =>
    intro fuel count hf
    cases fuel with
    | zero => omega
    | succ fuel => simp [lexAux]
  | @cons k t rest items hne hok hstr _ ih =>
    intro fuel count hf
    cases fuel with
    | zero => omega
    | succ fuel =>
      have hadv := advance_complete k t rest hne hok hstr
      cases hsrc : t ++ rest with
      | nil =>
        have : t = [] := by cases t with | nil => rfl | cons a r => simp at hsrc
        exact absurd this hne
      | cons c r =>
        rw [hsrc] at hadv
        have hlen : rest.length < fuel := by
          have h1 : (t ++ rest).length < fuel + 1 := hf
          have h2 : 0 < t.length := List.length_pos_iff.mpr hne
          simp only [List.length_append] at h1
          omega
        simp only [lexAux, Bool.false_eq_true, if_false, hadv]
        rw [ih fuel (count + 1) hlen]

theorem exactTokens_noErr {src : Str} {items : List Item} (h : ExactTokens src items) : ∀ it ∈ items, it.isErr = false := by
  induction h with
  | eof => intro it hit; simp at hit; subst hit; rfl
  | cons _ _ _ _ ih =>
    intro it hit
    rcases List.mem_cons.mp hit with rfl | hit
    · rfl
    · exact ih it hit

/-- **`lex_ok_iff_spec_tokens`**: lexing reports no error exactly when the input has a tokenisation by the lexical
    grammar, and then the item stream IS that tokenisation -/
theorem lex_ok_iff_exact (src : Str) :
    ((∀ it ∈ lex none src, it.isErr = false) ↔ ∃ items, ExactTokens src items) ∧
    (∀ items, ExactTokens src items → lex none src = items) := by
  have hcomp : ∀ items, ExactTokens src items → lex none src = items :=
    fun items h => lexAux_exact_complete h (src.length + 1) 0 (by omega)
  refine ⟨⟨fun h => ⟨_, lexAux_exact_sound (src.length + 1) 0 src (by omega) h⟩, ?_⟩, hcomp⟩
  rintro ⟨items, h⟩
  rw [hcomp items h]
  exact exactTokens_noErr h

/-- **`lex_tokenisation_unique`**: an input has at most one tokenisation by the lexical grammar with its lookahead
    restrictions — the maximal-munch one -/
theorem exactTokens_unique (src : Str) (i1 i2 : List Item) (h1 : ExactTokens src i1) (h2 : ExactTokens src i2) : i1 = i2 := by
  rw [← (lex_ok_iff_exact src).2 i1 h1, ← (lex_ok_iff_exact src).2 i2 h2]

/-! ### the strict corollary: sources made of SourceCharacters only -/

theorem bb_strict {body : Str} (h : BlockBody anyChar body) (hs : ∀ c ∈ body, Spec.Lexical.isSourceCharacter c = true) :
    BlockBody Spec.Lexical.isSourceCharacter body := by
  induction h with
  | close => exact BlockBody.close
  | escapedQuotes _ ih => exact BlockBody.escapedQuotes (ih (fun c hc => hs c (by simp [hc])))
  | plain _ h3 h4 _ ih => exact BlockBody.plain (hs _ (by simp)) h3 h4 (ih (fun c hc => hs c (by simp [hc])))

/-- what a token is in the UNRELAXED grammar (October 2021 SourceCharacter), for the kinds where the lexer's language
    is relaxed: quoted and block strings, comments -/
def StrictOk (k : Kind) (t : Str) : Prop :=
  match k with
  | .stringValue => IsQuotedString Spec.Lexical.isSourceCharacter t ∨ IsBlockString Spec.Lexical.isSourceCharacter t
  | .comment => IsComment Spec.Lexical.isSourceCharacter t
  | _ => True

theorem exactTokens_strict {src : Str} {items : List Item} (h : ExactTokens src items)
    (hs : ∀ c ∈ src, Spec.Lexical.isSourceCharacter c = true) : ∀ k t, Item.tok k t ∈ items → StrictOk k t := by
  induction h with
  | eof => intro k t hm; simp at hm; obtain ⟨rfl, _⟩ := hm; trivial
  | @cons k0 t0 rest items hne hok hstr _ ih =>
    intro k t hm
    rcases List.mem_cons.mp hm with e | hm
    · injection e with e1 e2
      subst e1 e2
      have hst : ∀ c ∈ t, Spec.Lexical.isSourceCharacter c = true := fun c hc => hs c (by simp [hc])
      cases k with
      | stringValue =>
        rcases hstr rfl with ⟨⟨body, rfl, hb⟩, _⟩ | ⟨r, rfl, hb⟩
        · exact Or.inl ⟨body, rfl, sc_strict (lsc_to_sc hb) (fun x hx => hst x (by simp [hx]))⟩
        · exact Or.inr ⟨r, rfl, bb_strict hb (fun x hx => hst x (by simp [hx]))⟩
      | comment =>
        obtain ⟨⟨body, rfl, hb⟩, _⟩ := hok
        exact ⟨body, rfl, fun x hx => ⟨(hb x hx).1, hst x (by simp [hx])⟩⟩
      | _ => trivial
    · exact ih (fun c hc => hs c (by simp [hc])) k t hm

end Apollo.Lex
