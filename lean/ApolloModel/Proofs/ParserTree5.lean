import ApolloModel.Proofs.ParserTree4
import ApolloModel.Proofs.ParserTree3
/-
C08 growth (pipeline), part 5: types.  The tree that ty.rs builds for an accepted type reference, and what
`from_cst.rs` (`impl Convert for cst::Type`) reads from it.
-/
set_option linter.unusedSimpArgs false
set_option linter.unusedVariables false

/-! ### the shape of a type node, and its conversion -/
namespace Apollo.FromCst
open Apollo.Rowan Apollo.Ast
open Apollo.Parse (isJunk isJunkKind sigE nameNode)

/-- the CST of a type reference `t`, junk tokens (whitespace, comments, commas) anywhere between the children -/
inductive TyTree : Ty → Elem → Prop
  | named (n : Ast.Str) (cs : List Elem) : isValidName n = true → sigE cs = [nameNode n] →
      TyTree (.named n) (.node "NAMED_TYPE" cs)
  | list (u : Ty) (cs : List Elem) (eu : Elem) (lb rb : Rowan.Str) : TyTree u eu →
      sigE cs = [.tok "L_BRACK" lb, eu, .tok "R_BRACK" rb] → TyTree (.list u) (.node "LIST_TYPE" cs)
  | nnNamed (n : Ast.Str) (cs : List Elem) (e0 : Elem) (b : Rowan.Str) : TyTree (.named n) e0 →
      sigE cs = [e0, .tok "BANG" b] → TyTree (.nonNullNamed n) (.node "NON_NULL_TYPE" cs)
  | nnList (u : Ty) (cs : List Elem) (e0 : Elem) (b : Rowan.Str) : TyTree (.list u) e0 →
      sigE cs = [e0, .tok "BANG" b] → TyTree (.nonNullList u) (.node "NON_NULL_TYPE" cs)

theorem TyTree.kind {t : Ty} {e : Elem} (h : TyTree t e) : ∃ k cs, e = .node k cs ∧ isTypeKind k = true := by
  cases h <;> exact ⟨_, _, rfl, by decide⟩

theorem TyTree.nodeP {t : Ty} {e : Elem} (h : TyTree t e) : nodeP isTypeKind e = true := by
  obtain ⟨k, cs, rfl, hk⟩ := h.kind
  simp [FromCst.nodeP, isNodeE, kindE, hk]

theorem mem_sigE {e : Elem} {cs : List Elem} (h : e ∈ sigE cs) : e ∈ cs := (List.mem_filter.mp h).1

theorem size_le_sizeList {e : Elem} : ∀ {cs : List Elem}, e ∈ cs → size e ≤ sizeList cs
  | [], h => by cases h
  | c :: cs, h => by
    simp only [sizeList]
    rcases List.mem_cons.mp h with rfl | h
    · omega
    · have := size_le_sizeList h; omega

variable {R : List Loc}

theorem nodeP_tok (pr : SK → Bool) (k : SK) (t : Rowan.Str) : nodeP pr (.tok k t) = false := rfl
theorem nodeP_node (pr : SK → Bool) (k : SK) (cs : List Elem) : nodeP pr (.node k cs) = pr k := by
  simp [FromCst.nodeP, isNodeE, kindE]

theorem kind_node (k : SK) (cs : List Elem) (s : Nat) (h : ∀ x ∈ nameRanges (.node k cs) s, x ∈ R) :
    PE.kind (⟨(.node k cs, s), h⟩ : PE R) = k := rfl

theorem cType_named (n : Nat) (p : PE R) (hk : p.kind = "NAMED_TYPE") :
    cType (n + 1) p = (nameOf p >>= fun x => pure (Ty.named x)) := by
  simp [cType, hk]

theorem cType_list (n : Nat) (p : PE R) (hk : p.kind = "LIST_TYPE") :
    cType (n + 1) p = (M.ofOpt (childP isTypeKind p) >>= fun inner => cType n inner >>= fun t => pure (Ty.list t)) := by
  simp [cType, hk]

theorem cType_nonNull (n : Nat) (p : PE R) (hk : p.kind = "NON_NULL_TYPE") :
    cType (n + 1) p = (match child "NAMED_TYPE" p with
      | some named => nameOf named >>= fun x => pure (Ty.nonNullNamed x)
      | none =>
        match child "LIST_TYPE" p with
        | some list => M.ofOpt (childP isTypeKind list) >>= fun inner => cType n inner >>= fun t => pure (Ty.nonNullList t)
        | none => none) := by
  cases h1 : child "NAMED_TYPE" p with
  | some nm => simp [cType, hk, h1]
  | none => cases h2 : child "LIST_TYPE" p <;> simp [cType, hk, h1, h2]

/-- `impl Convert for cst::Type` on the tree of `t` returns `t` -/
theorem cType_tyTree : ∀ (n : Nat) (t : Ty) (e : Elem), TyTree t e → size e ≤ n → ConvE (fun R => @cType R n) t e
  | 0, _, e, h, hs => by
    obtain ⟨k, cs, rfl, _⟩ := h.kind
    simp [size] at hs
  | n + 1, _, _, .named nm cs hv hsig, hs => by
    intro R s h
    have hf : (sigE cs).find? (nodeP (· == "NAME")) = some (nameNode nm) := by rw [hsig]; rfl
    obtain ⟨l, hl⟩ := nameOf_node "NAMED_TYPE" cs nm hv hf R s h
    refine ⟨l ++ [], ?_⟩
    show cType (n + 1) _ = _
    rw [cType_named n _ rfl]
    exact bind_ok hl (pure_ok _)
  | n + 1, _, _, .list u cs eu lb rb hu hsig, hs => by
    intro R s h
    have hf : cs.find? (nodeP isTypeKind) = some eu := by
      rw [find_nodeP_sigE, hsig]
      simp [List.find?_cons, nodeP_tok, hu.nodeP]
    obtain ⟨s', h', hc⟩ := childP_some (R := R) isTypeKind "LIST_TYPE" cs s h eu hf
    have hsz : size eu ≤ n := by
      have := size_le_sizeList (mem_sigE (cs := cs) (e := eu) (by rw [hsig]; simp))
      simp only [size] at hs
      omega
    obtain ⟨l, hl⟩ := cType_tyTree n u eu hu hsz R s' h'
    refine ⟨[] ++ (l ++ []), ?_⟩
    show cType (n + 1) _ = _
    rw [cType_list n _ rfl, hc]
    exact bind_ok rfl (bind_ok hl (pure_ok _))
  | n + 1, _, _, .nnNamed nm cs e0 b h0 hsig, hs => by
    intro R s h
    cases h0 with
    | named _ cs0 hv hsig0 =>
      have hf : cs.find? (nodeP (· == "NAMED_TYPE")) = some (.node "NAMED_TYPE" cs0) := by
        rw [find_nodeP_sigE, hsig]
        simp [List.find?_cons, nodeP_node]
      obtain ⟨s', h', hc⟩ := childP_some (R := R) (· == "NAMED_TYPE") "NON_NULL_TYPE" cs s h _ hf
      have hf0 : (sigE cs0).find? (nodeP (· == "NAME")) = some (nameNode nm) := by rw [hsig0]; rfl
      obtain ⟨l, hl⟩ := nameOf_node "NAMED_TYPE" cs0 nm hv hf0 R s' h'
      refine ⟨l ++ [], ?_⟩
      show cType (n + 1) _ = _
      rw [cType_nonNull n _ rfl, child_eq_childP, hc]
      exact bind_ok hl (pure_ok _)
  | n + 1, _, _, .nnList u cs e0 b h0 hsig, hs => by
    intro R s h
    cases h0 with
    | list _ cs0 eu lb rb hu hsig0 =>
      have hfn : cs.find? (nodeP (· == "NAMED_TYPE")) = none := by
        rw [find_nodeP_sigE, hsig]
        simp [List.find?_cons, nodeP_node, nodeP_tok]
      have hfl : cs.find? (nodeP (· == "LIST_TYPE")) = some (.node "LIST_TYPE" cs0) := by
        rw [find_nodeP_sigE, hsig]
        simp [List.find?_cons, nodeP_node]
      have hcn := childP_none (R := R) (· == "NAMED_TYPE") "NON_NULL_TYPE" cs s h hfn
      obtain ⟨s', h', hc⟩ := childP_some (R := R) (· == "LIST_TYPE") "NON_NULL_TYPE" cs s h _ hfl
      have hf : cs0.find? (nodeP isTypeKind) = some eu := by
        rw [find_nodeP_sigE, hsig0]
        simp [List.find?_cons, nodeP_tok, hu.nodeP]
      obtain ⟨s'', h'', hc2⟩ := childP_some (R := R) isTypeKind "LIST_TYPE" cs0 s' h' eu hf
      have hsz : size eu ≤ n := by
        have h1 := size_le_sizeList (mem_sigE (cs := cs0) (e := eu) (by rw [hsig0]; simp))
        have h2 := size_le_sizeList (mem_sigE (cs := cs) (e := .node "LIST_TYPE" cs0) (by rw [hsig]; simp))
        simp only [size] at hs h2
        omega
      obtain ⟨l, hl⟩ := cType_tyTree n u eu hu hsz R s'' h''
      refine ⟨[] ++ (l ++ []), ?_⟩
      show cType (n + 1) _ = _
      rw [cType_nonNull n _ rfl, child_eq_childP, hcn]
      simp only []
      rw [child_eq_childP, hc]
      simp only []
      rw [hc2]
      exact bind_ok rfl (bind_ok hl (pure_ok _))

end Apollo.FromCst

/-! ### ty.rs -/
namespace Apollo.Parse
open Apollo.Rowan hiding Str
open Apollo.Lex hiding Str
open Apollo.FromCst (TyTree)

/-- no early exit -/
abbrev NoE : PState → Prop := fun _ => False

/-- what the calculus assumes of a state -/
structure St (s : PState) : Prop where
  w : TW s
  inv : Inv s
  eof : EofEnd s
  lq : LQ (Toks s)

/-- one step of a manual chase: apply a `Tr` fact to a concrete sub-run -/
theorem St.step {α : Type} {H : List Tok → Prop} {m : PI α} {R : α → List Tok → List Elem → Prop} (hm : Tr NoE H m R)
    {s s' : PState} {a : α} (st : St s) (hq : H (Toks s)) (hr : m.run s = .ok a s') (hnd : ¬ Doomed s') :
    St s' ∧ TrRes NoE s s' (R a) := by
  obtain ⟨cs, ad, a1, a2, a3, a4, a5⟩ := hm.2 s a s' st.w st.inv st.eof st.lq hq hr hnd
  exact ⟨⟨(hm.1 s a s' st.w hr).w, (run_inv_added m s st.inv a s' hr).1, a3,
    LQ.suffix (cs := cs) (by rw [← a1]; exact st.lq)⟩, cs, ad, a1, a2, a3, a4, a5⟩

theorem TrRes.seq {s s1 s2 : PState} {L1 L2 : List Tok → List Elem → Prop} (h1 : TrRes NoE s s1 L1) (h2 : TrRes NoE s1 s2 L2) :
    TrRes NoE s s2 (fun cs e => ∃ c1 c2 e1 e2, cs = c1 ++ c2 ∧ e = e1 ++ e2 ∧ L1 c1 e1 ∧ L2 c2 e2) := by
  obtain ⟨c1, d1, t1, n1, _, b1, r1⟩ := h1
  obtain ⟨c2, d2, t2, n2, e2, b2, r2⟩ := h2
  rcases r1 with r1 | f
  · rcases r2 with r2 | f
    · exact ⟨c1 ++ c2, d1 ++ d2, by rw [t1, t2, List.append_assoc], noEof_append n1 n2, e2, by rw [b2, b1, List.append_assoc],
        Or.inl ⟨sig c1, sig c2, sigE d1, sigE d2, sig_append _ _, sigE_append _ _, r1, r2⟩⟩
    · exact absurd f id
  · exact absurd f id

theorem TrRes.weaken {s s' : PState} {L L' : List Tok → List Elem → Prop} (h : TrRes NoE s s' L) (hL : ∀ cs e, L cs e → L' cs e) :
    TrRes NoE s s' L' := by
  obtain ⟨c, d, t, n, e, b, r⟩ := h
  refine ⟨c, d, t, n, e, b, ?_⟩
  rcases r with r | f
  · exact Or.inl (hL _ _ r)
  · exact absurd f id

/-- a state that differs only in the recursion counters -/
theorem St.recf {s : PState} (st : St s) (c h : Nat) : St { s with recCur := c, recHigh := h } :=
  ⟨⟨st.w.limit, st.w.acc⟩, inv_rec st.inv c h, eofEnd_same _ _ st.eof rfl rfl rfl, st.lq⟩

theorem St.obs {s s' : PState} (st : St s) (o : ObsEq s s') (hi : Inv s') : St s' :=
  ⟨o.w st.w, hi, eofEnd_obs st.eof o, by rw [o.toks]; exact st.lq⟩

/-- `NAMED_TYPE[NAME[IDENT]]` -/
theorem tr_tyName {E : PState → Prop} (hE : Early E) :
    Tr E (KindP (· == Kind.name)) (withNode "NAMED_TYPE" (withNode "NAME" (eat "IDENT" >>= fun _ => (pure TyRes.ok : PI TyRes))))
      (fun r cs e => r = TyRes.ok ∧ ∃ t e0, t.kind = .name ∧ cs = [t] ∧ e = [e0] ∧ TyTree (.named t.data) e0) := by
  have hleaf := tr_leafG (E := E) "NAME" "IDENT" (by decide) _ TyRes.ok (leafBody_eat "IDENT" TyRes.ok)
    (fun t => t.kind = .name) (by intro t hk; rw [hk]; exact ⟨rfl, by decide⟩)
  have h2 := tr_withNode hE "NAMED_TYPE" (H := HeadP (fun t : Tok => t.kind = .name)) (headP_sig (L := fun _ => True) (by
    intro t hk; exact ⟨by rw [hk]; rfl, by rw [hk]; decide, .name t.data, by simp [astOfV, hk], trivial⟩)) hleaf
  refine h2.mono ?_ ?_
  · rintro q ⟨t, hh, hk⟩; exact ⟨t, hh, by simpa using hk⟩
  · rintro r cs e ⟨inner, he, hr, t, hk, hv, hcs, hin⟩
    refine ⟨hr, t, _, hk, hcs, he, ?_⟩
    exact TyTree.named t.data inner (hv.1 hk) hin


/-! #### `checkpoint … wrap_node` -/

/-- `wrapIf`: the states of its parts and what the builder holds at the end -/
theorem wrapIf_tree {α : Type} (kind : SK) (body : PI α) (cond : α → PI Bool) (inner : PI Unit)
    (s s' : PState) (a : α) (hi : Inv s) (h : (wrapIf kind body cond inner).run s = .ok a s') :
    ∃ s1 s2 s3 c, ObsEq s s1 ∧ Inv s1 ∧ s1.pending = [] ∧
      s1.builder.children = s.builder.children ++ s.pending.map pendingElem ∧
      body.run s1 = .ok a s2 ∧ (cond a).run s2 = .ok c s3 ∧
      ((c = false ∧ s' = s3) ∨ (c = true ∧ ∃ s4 s5 abc a3, ObsEq s3 s4 ∧ Inv s4 ∧ s4.pending = s3.pending ∧
          s3.builder.children = s1.builder.children ++ abc ∧ s4.builder.children = s3.builder.children ∧
          inner.run s4 = .ok () s5 ∧ s5.builder.children = s4.builder.children ++ a3 ∧ ObsEq s5 s' ∧
          s'.builder.children = s1.builder.children ++ [Elem.node kind (abc ++ a3)])) := by
  unfold wrapIf at h
  simp only [] at h
  have e1 : pushIgnored.run s = .ok () { s with builder := { s.builder with children := s.builder.children ++ s.pending.map pendingElem }, pending := [] } := rfl
  have hi1 : Inv { s with builder := { s.builder with children := s.builder.children ++ s.pending.map pendingElem }, pending := [] } := by
    have := pushIgnored.ok s hi
    simp only [e1, Post] at this
    exact this.1
  rw [e1] at h
  obtain ⟨s1, hs1⟩ : ∃ s1 : PState, ({ s with builder := { s.builder with children := s.builder.children ++ s.pending.map pendingElem }, pending := [] } : PState) = s1 := ⟨_, rfl⟩
  rw [hs1] at h hi1
  simp only [] at h
  have o1 : ObsEq s s1 := by subst hs1; exact ⟨rfl, rfl, rfl, rfl, rfl, rfl⟩
  have hp1 : s1.pending = [] := by subst hs1; rfl
  have hc1 : s1.builder.children = s.builder.children ++ s.pending.map pendingElem := by subst hs1; rfl
  have h2 := (body >>= fun a => cond a >>= fun c => pure (a, c)).ok s1 hi1
  cases hr : (body >>= fun a => cond a >>= fun c => pure (a, c)).run s1 with
  | abort w => rw [hr] at h; cases h
  | panic m => rw [hr] at h; cases h
  | ok ac s3 =>
    rw [hr] at h
    simp only [hr, Post] at h2
    obtain ⟨hi3, hf3⟩ := h2
    obtain ⟨a0, c⟩ := ac
    simp only [] at h
    obtain ⟨a1, s2, hb, h2'⟩ := bind_dec body _ s1 s3 (a0, c) hr
    obtain ⟨c1, s3', hc, h3⟩ := bind_dec (cond a1) _ s2 s3 (a0, c) h2'
    rw [run_pure] at h3
    injection h3 with h3 h4
    injection h3 with h5 h6
    subst h4 h5 h6
    cases c1 with
    | false =>
      simp only [Bool.false_eq_true, if_false] at h
      injection h with h7 h8
      subst h7 h8
      exact ⟨s1, s2, s3', false, o1, hi1, hp1, hc1, hb, hc, Or.inl ⟨rfl, rfl⟩⟩
    | true =>
      simp only [if_true] at h
      obtain ⟨abc, habc⟩ := hf3.children
      have hlen : s1.builder.checkpoint ≤ s3'.builder.children.length := by simp [Builder.checkpoint, habc]
      have hsn : s3'.builder.startNodeAt s1.builder.checkpoint kind =
          some { s3'.builder with parents := (kind, s1.builder.checkpoint) :: s3'.builder.parents } := by
        unfold Builder.startNodeAt
        simp only [hlen, if_true]
        cases hps : s3'.builder.parents with
        | nil => rfl
        | cons p ps =>
          obtain ⟨k0, f0⟩ := p
          have : f0 ≤ s1.builder.checkpoint := by
            have hm : (k0, f0) ∈ s1.builder.parents := by rw [← hf3.parents, hps]; simp
            exact hi1.parents _ hm
          simp only [ge_iff_le, this, if_true]
      rw [hsn] at h
      simp only [] at h
      have hi4 : Inv { s3' with builder := { s3'.builder with parents := (kind, s1.builder.checkpoint) :: s3'.builder.parents } } := by
        refine ⟨hi3.text, ?_, hi3.lexDone, hi3.eofTok, hi3.errNonempty⟩
        intro p hp
        simp only [List.mem_cons] at hp
        rcases hp with rfl | hp
        · exact hlen
        · exact hi3.parents p hp
      have h5 := inner.ok _ hi4
      cases hr5 : inner.run { s3' with builder := { s3'.builder with parents := (kind, s1.builder.checkpoint) :: s3'.builder.parents } } with
      | abort w => rw [hr5] at h; cases h
      | panic m => rw [hr5] at h; cases h
      | ok u5 s5 =>
        rw [hr5] at h
        simp only [hr5, Post] at h5
        obtain ⟨_, hf5⟩ := h5
        simp only [] at h
        have hp5 : s5.builder.parents = (kind, s1.builder.checkpoint) :: s3'.builder.parents := hf5.parents
        obtain ⟨a3, ha3⟩ := hf5.children
        simp only [] at ha3
        simp only [Builder.finishNode, hp5, Res.ok.injEq] at h
        obtain ⟨rfl, rfl⟩ := h
        have hc5 : s5.builder.children = s1.builder.children ++ (abc ++ a3) := by rw [ha3, habc, List.append_assoc]
        refine ⟨s1, s2, s3', true, o1, hi1, hp1, hc1, hb, hc, Or.inr ⟨rfl,
          { s3' with builder := { s3'.builder with parents := (kind, s1.builder.checkpoint) :: s3'.builder.parents } }, s5, abc, a3,
          ⟨rfl, rfl, rfl, rfl, rfl, rfl⟩, hi4, rfl, habc, rfl, hr5, ha3, ⟨rfl, rfl, rfl, rfl, rfl, rfl⟩, ?_⟩⟩
        simp only [hc5, Builder.checkpoint]
        rw [List.take_left' rfl, List.drop_left' rfl]

end Apollo.Parse
