import ApolloModel.Proofs.AstDefTokens
/-
Round trip of the list-like parts of definitions: default values, variable definitions, input value
definitions, field definitions, enum values, `&`/`|` separated name lists, root operation types.
-/
namespace Apollo.Ast

/-- tokens after which every optional trailing part of an item is unambiguously absent:
    end of input, a name, a string (description), `)`, `}` or `$` -/
def calm : List Tok → Bool
  | [] => true
  | .name _ :: _ => true
  | .str _ :: _ => true
  | .p .rParen :: _ => true
  | .p .rCurly :: _ => true
  | .p .dollar :: _ => true
  | _ => false

theorem calm_p {ts : List Tok} (h : calm ts = true) (k : P) (hk : ts.head? = some (.p k)) :
    k = .rParen ∨ k = .rCurly ∨ k = .dollar := by
  cases ts with
  | nil => simp at hk
  | cons a r =>
    simp only [List.head?_cons, Option.some.injEq] at hk
    subst hk
    cases k <;> simp_all [calm]

theorem calm_dirFollow {ts : List Tok} (h : calm ts = true) : dirFollow ts := by
  constructor <;> intro e <;> have := calm_p h _ e <;> simp at this

theorem calm_ne {ts : List Tok} (h : calm ts = true) (k : P) (h1 : k ≠ .rParen) (h2 : k ≠ .rCurly) (h3 : k ≠ .dollar) :
    ts.head? ≠ some (.p k) := by
  intro e; rcases calm_p h _ e with h | h | h <;> contradiction

/-- head of `tDirectives ds ++ X` -/
theorem head_tDirectives (ds : List Directive) (X : List Tok) (t : Tok) (h : (tDirectives ds ++ X).head? = some t) :
    t = .p .at ∨ X.head? = some t := by
  cases ds with
  | nil => right; simpa [tDirectives] using h
  | cons d r => left; simp [tDirectives] at h; exact h.symm

theorem head_tDefault (dv : Option Value) (X : List Tok) (t : Tok) (h : (tDefault dv ++ X).head? = some t) :
    t = .p .eq ∨ X.head? = some t := by
  cases dv with
  | none => right; simpa [tDefault] using h
  | some v => left; simp [tDefault] at h; exact h.symm

/-! ### default values -/

def wfDefault : Option Value → Bool
  | none => true
  | some v => wfValue v

def szDefault : Option Value → Nat
  | none => 0
  | some v => szValue v

theorem default_roundtrip (dv : Option Value) (f : Nat) (rest : List Tok) (h : wfDefault dv = true)
    (hs : szDefault dv ≤ f) (hr : rest.head? ≠ some (.p .eq)) : pDefault f (tDefault dv ++ rest) = some (dv, rest) := by
  cases dv with
  | some v =>
    have := value_roundtrip v f rest h hs
    simp [tDefault, pDefault, this]
  | none =>
    simp only [tDefault, List.nil_append]
    cases rest with
    | nil => rfl
    | cons a r =>
      simp only [List.head?_cons, ne_eq, Option.some.injEq] at hr
      cases a with
      | p k => cases k <;> first | exact absurd rfl hr | rfl
      | _ => rfl

/-- type, default and directives of a variable / input value definition, followed by a calm token -/
theorem tyDefaultDirs_roundtrip (ty : Ty) (dv : Option Value) (ds : List Directive) (f : Nat) (rest : List Tok)
    (hdv : wfDefault dv = true) (hds : wfDirs ds = true) (hs : szTy ty + szDefault dv + szDirs ds ≤ f)
    (hr : calm rest = true) :
    pTy f (tTy ty ++ tDefault dv ++ tDirectives ds ++ rest) = some (ty, tDefault dv ++ tDirectives ds ++ rest)
    ∧ pDefault f (tDefault dv ++ tDirectives ds ++ rest) = some (dv, tDirectives ds ++ rest)
    ∧ pDirectives f (tDirectives ds ++ rest) = some (ds, rest) := by
  have hne : ∀ k : P, k ≠ .eq → k ≠ .at → k ≠ .rParen → k ≠ .rCurly → k ≠ .dollar →
      (tDefault dv ++ tDirectives ds ++ rest).head? ≠ some (.p k) := by
    intro k h1 h2 h3 h4 h5 e
    rw [List.append_assoc] at e
    rcases head_tDefault dv _ _ e with h | e
    · injection h with h; exact h1 h
    · rcases head_tDirectives ds _ _ e with h | e
      · injection h with h; exact h2 h
      · exact calm_ne hr k h3 h4 h5 e
  refine ⟨?_, ?_, ?_⟩
  · have := ty_roundtrip ty f (tDefault dv ++ tDirectives ds ++ rest) (by omega)
      (hne .bang (by decide) (by decide) (by decide) (by decide) (by decide))
    simpa [List.append_assoc] using this
  · have := default_roundtrip dv f (tDirectives ds ++ rest) hdv (by omega) (by
      intro e
      rcases head_tDirectives ds _ _ e with h | e
      · injection h with h; cases h
      · exact calm_ne hr .eq (by decide) (by decide) (by decide) e)
    simpa [List.append_assoc] using this
  · exact directives_roundtrip ds f rest hds (by omega) (calm_dirFollow hr)

/-! ### variable definitions -/

def wfVarDefs : List VarDef → Bool
  | [] => true
  | v :: r => wfDefault v.default && wfDirs v.dirs && wfVarDefs r

def szVarDefs : List VarDef → Nat
  | [] => 1
  | v :: r => szTy v.ty + szDefault v.default + szDirs v.dirs + szVarDefs r + 1

theorem calm_tVarDefItems (vs : List VarDef) (rest : List Tok) : calm (tVarDefItems vs ++ .p .rParen :: rest) = true := by
  cases vs with
  | nil => rfl
  | cons v r => simp [tVarDefItems, tVarDef, calm]

theorem varDefsTail_roundtrip : ∀ (vs : List VarDef) (f : Nat) (rest : List Tok), wfVarDefs vs = true →
    szVarDefs vs ≤ f → pVarDefsTail f (tVarDefItems vs ++ .p .rParen :: rest) = some (vs, rest)
  | [], f + 1, rest, _, _ => by simp [tVarDefItems, pVarDefsTail]
  | v :: r, f + 1, rest, h, hs => by
      simp [wfVarDefs] at h
      simp [szVarDefs] at hs
      obtain ⟨h1, h2, h3⟩ := tyDefaultDirs_roundtrip v.ty v.default v.dirs f (tVarDefItems r ++ .p .rParen :: rest)
        h.1.1 h.1.2 (by omega) (calm_tVarDefItems r rest)
      have htl := varDefsTail_roundtrip r f rest h.2 (by omega)
      simp only [tVarDefItems, tVarDef, List.cons_append, List.append_assoc] at h1 h2 h3 ⊢
      simp [pVarDefsTail, h1, h2, h3, htl]
  | [], 0, _, _, hs | _ :: _, 0, _, _, hs => by simp [szVarDefs] at hs

theorem varDefs_roundtrip (vs : List VarDef) (f : Nat) (rest : List Tok) (h : wfVarDefs vs = true)
    (hs : szVarDefs vs ≤ f) (hr : notLParen rest) : pVarDefs f (tVarDefs vs ++ rest) = some (vs, rest) := by
  cases vs with
  | nil =>
    simp only [tVarDefs, List.isEmpty_nil, if_true, List.nil_append]
    unfold notLParen at hr
    cases rest with
    | nil => rfl
    | cons a r =>
      simp only [List.head?_cons, ne_eq, Option.some.injEq] at hr
      cases a with
      | p k => cases k <;> first | exact absurd rfl hr | rfl
      | _ => rfl
  | cons a r =>
    have := varDefsTail_roundtrip (a :: r) f rest h hs
    simp [tVarDefs, pVarDefs, this]

/-! ### input value definitions -/

def wfIVDs : List InputValueDef → Bool
  | [] => true
  | v :: r => wfDefault v.default && wfDirs v.dirs && wfIVDs r

def szIVDs : List InputValueDef → Nat
  | [] => 1
  | v :: r => szTy v.ty + szDefault v.default + szDirs v.dirs + szIVDs r + 1

theorem inputValueDef_roundtrip (v : InputValueDef) (f : Nat) (rest : List Tok) (h1 : wfDefault v.default = true)
    (h2 : wfDirs v.dirs = true) (hs : szTy v.ty + szDefault v.default + szDirs v.dirs ≤ f) (hr : calm rest = true) :
    pInputValueDef f (tIVD v ++ rest) = some (v, rest) := by
  obtain ⟨a, b, c⟩ := tyDefaultDirs_roundtrip v.ty v.default v.dirs f rest h1 h2 hs hr
  obtain ⟨desc, name, ty, dv, ds⟩ := v
  cases desc with
  | none =>
    simp only [tIVD, tDescription, List.nil_append, List.cons_append, List.append_assoc] at a b c ⊢
    simp [pInputValueDef, pDescription, a, b, c]
  | some d =>
    simp only [tIVD, tDescription, List.cons_append, List.nil_append, List.append_assoc] at a b c ⊢
    simp [pInputValueDef, pDescription, a, b, c]

/-- items of braced / parenthesised definition lists start with a name or a description string -/
def nameOrStr : Tok → Bool
  | .name _ | .str _ => true
  | _ => false

theorem tIVD_head (v : InputValueDef) (X : List Tok) : ∃ t r, tIVD v ++ X = t :: r ∧ nameOrStr t = true := by
  obtain ⟨desc, name, ty, dv, ds⟩ := v
  cases desc with
  | none => exact ⟨.name name, _, by simp only [tIVD, tDescription, List.nil_append, List.cons_append]; rfl, rfl⟩
  | some d => exact ⟨.str d, _, by simp only [tIVD, tDescription, List.cons_append, List.nil_append]; rfl, rfl⟩

theorem calm_tIVDItems (vs : List InputValueDef) (close : P) (hc : close = .rParen ∨ close = .rCurly) (rest : List Tok) :
    calm (tIVDItems vs ++ .p close :: rest) = true := by
  cases vs with
  | nil => rcases hc with h | h <;> subst h <;> rfl
  | cons v r =>
    obtain ⟨t, r', e, hne⟩ := tIVD_head v (tIVDItems r ++ .p close :: rest)
    simp only [tIVDItems, List.append_assoc]
    rw [e]
    cases t <;> simp_all [nameOrStr, calm]

theorem pInputValueDefsTail_cons (close : P) (f : Nat) (ts : List Tok) (t : Tok) (r : List Tok) (e : ts = t :: r)
    (hne : nameOrStr t = true) (v : InputValueDef) (r1 : List Tok) (vs : List InputValueDef) (r2 : List Tok)
    (h1 : pInputValueDef f ts = some (v, r1)) (h2 : pInputValueDefsTail close f r1 = some (vs, r2)) :
    pInputValueDefsTail close (f + 1) ts = some (v :: vs, r2) := by
  subst e
  cases t <;> simp_all [nameOrStr, pInputValueDefsTail]

theorem inputValueDefsTail_roundtrip (close : P) (hc : close = .rParen ∨ close = .rCurly) :
    ∀ (vs : List InputValueDef) (f : Nat) (rest : List Tok), wfIVDs vs = true → szIVDs vs ≤ f →
    pInputValueDefsTail close f (tIVDItems vs ++ .p close :: rest) = some (vs, rest)
  | [], f + 1, rest, _, _ => by simp [tIVDItems, pInputValueDefsTail]
  | v :: r, f + 1, rest, h, hs => by
      simp [wfIVDs] at h
      simp [szIVDs] at hs
      have h1 := inputValueDef_roundtrip v f (tIVDItems r ++ .p close :: rest) h.1.1 h.1.2 (by omega)
        (calm_tIVDItems r close hc rest)
      have htl := inputValueDefsTail_roundtrip close hc r f rest h.2 (by omega)
      obtain ⟨t, r', e, hne⟩ := tIVD_head v (tIVDItems r ++ .p close :: rest)
      simp only [tIVDItems, List.append_assoc]
      exact pInputValueDefsTail_cons close f _ t r' e hne v _ r rest h1 htl
  | [], 0, _, _, hs | _ :: _, 0, _, _, hs => by simp [szIVDs] at hs

theorem argumentsDefinition_roundtrip (args : List InputValueDef) (f : Nat) (rest : List Tok) (h : wfIVDs args = true)
    (hs : szIVDs args ≤ f) (hr : notLParen rest) : pArgumentsDefinition f (tArgsDef args ++ rest) = some (args, rest) := by
  cases args with
  | nil =>
    simp only [tArgsDef, List.isEmpty_nil, if_true, List.nil_append]
    unfold notLParen at hr
    cases rest with
    | nil => rfl
    | cons a r =>
      simp only [List.head?_cons, ne_eq, Option.some.injEq] at hr
      cases a with
      | p k => cases k <;> first | exact absurd rfl hr | rfl
      | _ => rfl
  | cons a r =>
    have := inputValueDefsTail_roundtrip .rParen (Or.inl rfl) (a :: r) f rest h hs
    simp [tArgsDef, pArgumentsDefinition, this]

/-- optional `{ InputValueDefinition+ }` -/
theorem inputFieldsDefinition_roundtrip (fields : List InputValueDef) (f : Nat) (rest : List Tok)
    (h : wfIVDs fields = true) (hs : szIVDs fields ≤ f) (hr : rest.head? ≠ some (.p .lCurly)) :
    pInputFieldsDefinition f (tBraced (tIVDItems fields) fields.isEmpty ++ rest) = some (fields, rest) := by
  cases fields with
  | nil =>
    simp only [tBraced, List.isEmpty_nil, if_true, List.nil_append]
    cases rest with
    | nil => rfl
    | cons a r =>
      simp only [List.head?_cons, ne_eq, Option.some.injEq] at hr
      cases a with
      | p k => cases k <;> first | exact absurd rfl hr | rfl
      | _ => rfl
  | cons a r =>
    have := inputValueDefsTail_roundtrip .rCurly (Or.inr rfl) (a :: r) f rest h hs
    simp [tBraced, pInputFieldsDefinition, this]

end Apollo.Ast
