import ApolloModel.Model.Lexer
namespace Apollo.Lex

theorem punct_ne_eof (c : Char) (k : Kind) (h : punctuationKind c = some k) : k ≠ .eof := by
  intro hk; subst hk
  revert h
  unfold punctuationKind
  split <;> simp

theorem blockStep_goto (kind : Kind) (e : Bool) (c : Char) :
    ∃ st', blockStep kind e c = .goto st' kind e ∧ st' ≠ .start := by
  unfold blockStep
  split
  · exact ⟨_, rfl, by simp⟩
  · split
    · exact ⟨_, rfl, by simp⟩
    · exact ⟨_, rfl, by simp⟩

def okAct (a : Action) : Prop :=
  match a with
  | .goto st' k' _ => st' ≠ .start ∧ k' ≠ .eof
  | .incl (.tok k') => k' ≠ .eof
  | .excl (.tok k') => k' ≠ .eof
  | _ => True

theorem okAct_done_incl (kind : Kind) (e : Bool) (hk : kind ≠ .eof) : okAct (.incl (done kind e)) := by
  unfold done; split <;> simp [okAct, hk]
theorem okAct_done_excl (kind : Kind) (e : Bool) (hk : kind ≠ .eof) : okAct (.excl (done kind e)) := by
  unfold done; split <;> simp [okAct, hk]
theorem okAct_block (kind : Kind) (e : Bool) (c : Char) (hk : kind ≠ .eof) : okAct (blockStep kind e c) := by
  unfold blockStep; repeat' split
  all_goals simp [okAct, hk]

/-- every transition keeps a non-EOF token kind and never returns to `start` -/
theorem step_kind (st : State) (kind : Kind) (e : Bool) (acc : Str) (c : Char)
    (hk : st ≠ .start → kind ≠ .eof) : okAct (step st kind e acc c) := by
  cases st with
  | start =>
    simp only [step]
    cases hp : punctuationKind c with
    | some k => simpa [okAct] using punct_ne_eof c k hp
    | none =>
      simp only []
      repeat' split
      all_goals simp [okAct]
  | _ =>
    have hk' := hk (by simp)
    simp only [step]
    repeat' split
    all_goals first
      | exact okAct_done_incl _ _ hk'
      | exact okAct_done_excl _ _ hk'
      | exact okAct_block _ _ _ hk'
      | simp [okAct, hk']

theorem runD_kind_ne_eof : ∀ (src : Str) (st : State) (kind : Kind) (e : Bool) (acc : Str) (k : Kind) (d : Str),
    (st ≠ .start → kind ≠ .eof) → (st = .start → src ≠ []) →
    (runD st kind e acc src).1 = .tok k d → k ≠ .eof
  | [], st, kind, e, acc, k, d, hk, hs, h => by
    have hst : st ≠ .start := fun e' => hs e' rfl
    have hk' := hk hst
    simp only [runD] at h
    cases st <;> simp [eofItem] at h <;> (try exact absurd rfl hst) <;> (obtain ⟨rfl, _⟩ := h; exact hk')
  | c :: rest, st, kind, e, acc, k, d, hk, hs, h => by
    have hstep := step_kind st kind e acc c hk
    unfold runD at h
    cases hst : step st kind e acc c with
    | goto st' k' e' =>
      simp only [hst, okAct] at h hstep
      exact runD_kind_ne_eof rest st' k' e' (acc ++ [c]) k d (fun _ => hstep.2) (fun e' => absurd e' hstep.1) h
    | incl o =>
      simp only [hst, okAct] at h hstep
      cases o with
      | tok k' => simp only [Out.mk, Item.tok.injEq] at h; obtain ⟨rfl, _⟩ := h; exact hstep
      | err => simp [Out.mk] at h
    | excl o =>
      simp only [hst, okAct] at h hstep
      cases o with
      | tok k' => simp only [Out.mk, Item.tok.injEq] at h; obtain ⟨rfl, _⟩ := h; exact hstep
      | err => simp [Out.mk] at h

theorem advance_kind_ne_eof (c : Char) (rest : Str) (k : Kind) (d : Str)
    (h : (advance (c :: rest)).1 = .tok k d) : k ≠ .eof :=
  runD_kind_ne_eof (c :: rest) .start .eof false [] k d (fun h => absurd rfl h) (fun _ => by simp) h

end Apollo.Lex
