import ApolloModel.Proofs.AstText4
import ApolloModel.Proofs.Lexer3
/-
Text level, part 3: connection to the lexer model (Model/Lexer.lean).
Lexing the text of a segment list whose ignored segments are ignored text and whose tokens are separated
(`segScan`) returns exactly the tokens of the segments — provided each token text, on its own, lexes to its
token when followed by something that may follow it (`TokOk`).  `TokOk` is PROVED here for names and for all
punctuators (`tokOk_name`, `tokOk_punct`); for numbers and string literals it is a hypothesis
(`NumbersLex`, `StringsLex`).
-/
namespace Apollo.Ast
open Apollo.Lex (advance lex lexAux Item Kind punctuationKind isNameStart isNameContinue isWhitespaceAssimilated
  lex_punctuator lex_name advance_progress runD runD_loop step)

/-! ### the lexer's items as parser tokens (same function as `Driver.sigToks` in Driver/D08.lean) -/

def punctOfKind : Kind → Option P
  | .bang => some .bang | .dollar => some .dollar | .amp => some .amp | .spread => some .spread
  | .colon => some .colon | .eq => some .eq | .at => some .at | .lParen => some .lParen
  | .rParen => some .rParen | .lBracket => some .lBracket | .rBracket => some .rBracket
  | .lCurly => some .lCurly | .rCurly => some .rCurly | .pipe => some .pipe
  | _ => none

/-- `none`: not a token; `some none`: ignored by the parser; `some (some t)`: the token -/
def sigItem (k : Kind) (d : Str) : Option (Option Tok) :=
  match k with
  | .whitespace | .comment | .comma | .eof => some none
  | .name => some (some (.name d))
  | .int => some (some (.int d))
  | .float => some (some (.float d))
  | .stringValue => (Strs.decodeStringToken d).map (fun s => some (.str s))
  | k => (punctOfKind k).map (fun p => some (.p p))

def sigToks : List Item → Option (List Tok)
  | [] => some []
  | .tok k d :: r =>
    match sigItem k d with
    | none => none
    | some none => sigToks r
    | some (some t) => (sigToks r).map (t :: ·)
  | _ :: _ => none

/-! ### the lexer, one item at a time -/

theorem lexAux_irrel : ∀ (fuel fuel' c c' : Nat) (src : Str), src.length < fuel → src.length < fuel' →
    lexAux fuel none c src = lexAux fuel' none c' src
  | 0, _, _, _, _, h, _ => by omega
  | _, 0, _, _, _, _, h => by omega
  | fuel + 1, fuel' + 1, c, c', [], _, _ => by simp [lexAux]
  | fuel + 1, fuel' + 1, c, c', x :: rest, h, h' => by
    have hp := (advance_progress x rest).2
    simp only [lexAux, Bool.false_eq_true, if_false]
    rw [lexAux_irrel fuel fuel' (c + 1) (c' + 1) (advance (x :: rest)).2
      (by simp only [List.length_cons] at h hp; omega) (by simp only [List.length_cons] at h' hp; omega)]

theorem lex_nil : lex none [] = [.tok .eof []] := by simp [lex, lexAux]

theorem lexAux_cons (f c : Nat) (x : Char) (rest : Str) :
    lexAux (f + 1) none c (x :: rest) = (advance (x :: rest)).1 :: lexAux f none (c + 1) (advance (x :: rest)).2 := by
  simp [lexAux]

theorem lex_cons (x : Char) (rest : Str) :
    lex none (x :: rest) = (advance (x :: rest)).1 :: lex none (advance (x :: rest)).2 := by
  have hp := (advance_progress x rest).2
  unfold lex
  simp only [List.length_cons]
  rw [lexAux_cons]
  rw [lexAux_irrel (rest.length + 1) ((advance (x :: rest)).2.length + 1) (0 + 1) 0 _
    (by simp only [List.length_cons] at hp; omega) (by omega)]

/-! ### ignored text is skipped -/

theorem ignored_cases (c : Char) (h : isIgnoredChar c = true) :
    c = ',' ∨ (isWhitespaceAssimilated c = true ∧ punctuationKind c = none ∧ isNameStart c = false) := by
  simp only [isIgnoredChar, Bool.or_eq_true, beq_iff_eq] at h
  rcases h with ((((h | h) | h) | h) | h) | h <;> subst h
  · exact .inr (by decide)
  · exact .inl rfl
  · exact .inr (by decide)
  · exact .inr (by decide)
  · exact .inr (by decide)
  · exact .inr (by decide)

/-- the head of `rest` is not ignored text (or there is no rest) -/
def HeadNotIgnored : Str → Prop
  | [] => True
  | c :: _ => isIgnoredChar c = false

theorem ws_not_ignored_false (c : Char) (h : isIgnoredChar c = false) : isWhitespaceAssimilated c = false := by
  cases hw : isWhitespaceAssimilated c with
  | false => rfl
  | true =>
    exfalso
    simp only [isWhitespaceAssimilated, Bool.or_eq_true, beq_iff_eq] at hw
    have hc := Char.ofNat_toNat c
    rcases hw with (((hw | hw) | hw) | hw) | hw <;> (rw [hw] at hc; rw [← hc] at h; revert h; decide)

theorem dropWhile_ws (w rest : Str) (hw : strIgnored w = true) (hr : HeadNotIgnored rest) :
    ∃ w', w'.length ≤ w.length ∧ strIgnored w' = true ∧
      (w ++ rest).dropWhile isWhitespaceAssimilated = w' ++ rest := by
  induction w with
  | nil =>
    refine ⟨[], Nat.le_refl _, rfl, ?_⟩
    cases rest with
    | nil => simp
    | cons c r =>
      have := ws_not_ignored_false c hr
      simp [List.dropWhile_cons, this]
  | cons d w ih =>
    have hd : isIgnoredChar d = true ∧ strIgnored w = true := by simpa [strIgnored] using hw
    by_cases hws : isWhitespaceAssimilated d = true
    · obtain ⟨w', hl, hi, he⟩ := ih hd.2
      exact ⟨w', by simp only [List.length_cons]; omega, hi, by simp [List.dropWhile_cons, hws, he]⟩
    · exact ⟨d :: w, Nat.le_refl _, hw, by simp [List.dropWhile_cons, hws]⟩

theorem skip_ignored : ∀ (n : Nat) (ws rest : Str), ws.length ≤ n → strIgnored ws = true → HeadNotIgnored rest →
    sigToks (lex none (ws ++ rest)) = sigToks (lex none rest)
  | _, [], rest, _, _, _ => by simp
  | 0, c :: w, _, h, _, _ => by simp at h
  | n + 1, c :: w, rest, hn, hw, hr => by
    have hc : isIgnoredChar c = true ∧ strIgnored w = true := by simpa [strIgnored] using hw
    simp only [List.cons_append]
    rw [lex_cons]
    rcases ignored_cases c hc.1 with hcomma | ⟨hws, hpk, hns⟩
    · subst hcomma
      rw [lex_punctuator ',' .comma (w ++ rest) (by decide)]
      simp only [sigToks, sigItem]
      exact skip_ignored n w rest (by simp only [List.length_cons] at hn; omega) hc.2 hr
    · have hadv : advance (c :: (w ++ rest)) =
          (.tok .whitespace (c :: (w ++ rest).takeWhile isWhitespaceAssimilated),
            (w ++ rest).dropWhile isWhitespaceAssimilated) := by
        have hne0 : (c != '0') = true := by
          cases h0 : (c != '0') with
          | true => rfl
          | false =>
            have : c = '0' := by simpa using h0
            subst this; simp [isWhitespaceAssimilated] at hws
        have hdig : Lex.isAsciiDigit c = false := by
          cases hd : Lex.isAsciiDigit c with
          | false => rfl
          | true =>
            exfalso
            simp only [Lex.isAsciiDigit, Bool.and_eq_true, decide_eq_true_eq] at hd
            simp only [isWhitespaceAssimilated, Bool.or_eq_true, beq_iff_eq] at hws
            omega
        have hq : (c == '"') = false := by
          cases hq : (c == '"') with
          | false => rfl
          | true => have : c = '"' := by simpa using hq
                    subst this; simp [isWhitespaceAssimilated] at hws
        have hh : (c == '#') = false := by
          cases hq : (c == '#') with
          | false => rfl
          | true => have : c = '#' := by simpa using hq
                    subst this; simp [isWhitespaceAssimilated] at hws
        have hdot : (c == '.') = false := by
          cases hq : (c == '.') with
          | false => rfl
          | true => have : c = '.' := by simpa using hq
                    subst this; simp [isWhitespaceAssimilated] at hws
        have hminus : (c == '-') = false := by
          cases hq : (c == '-') with
          | false => rfl
          | true => have : c = '-' := by simpa using hq
                    subst this; simp [isWhitespaceAssimilated] at hws
        have hzero : (c == '0') = false := by simpa using hne0
        unfold advance runD
        simp only [step, hpk, hns, hne0, hdig, hq, hh, hdot, hminus, hzero, hws, Bool.false_eq_true, if_false,
          if_true, Bool.and_false, Bool.true_and, List.nil_append]
        rw [runD_loop .whitespace isWhitespaceAssimilated .whitespace (by intro acc c; simp [step, Lex.done])
          (by intro acc; rfl)]
        simp
      rw [hadv]
      simp only [sigToks, sigItem]
      obtain ⟨w', hl, hi, he⟩ := dropWhile_ws w rest hc.2 hr
      rw [he]
      exact skip_ignored n w' rest (by simp only [List.length_cons] at hn; omega) hi hr

end Apollo.Ast
