import ApolloModel.Spec.ExecValidation
/-
Helper lemmas for C17: `same_output_type_shape` vs SameResponseShape, the subscription walk vs
CollectFields.
-/
namespace Apollo.ExecVal
open Apollo Apollo.Spec Apollo.Spec.ExecVal

/-! ### shape -/

theorem shape_list (kind : Name → Option TypeKind) (a b : Ty) :
    sameOutputTypeShape kind (.list a) (.list b) = sameOutputTypeShape kind a b := by
  simp [sameOutputTypeShape, unwrapLists]

theorem shape_nnlist (kind : Name → Option TypeKind) (a b : Ty) :
    sameOutputTypeShape kind (.nonNullList a) (.nonNullList b) = sameOutputTypeShape kind a b := by
  simp [sameOutputTypeShape, unwrapLists]

theorem leaf_not_composite (k : TypeKind) : k.isLeaf = true → k.isComposite = false := by
  cases k <;> simp [TypeKind.isLeaf, TypeKind.isComposite]

theorem shape_named (kind : Name → Option TypeKind) (x y : Name) :
    sameDefinitions kind x y = sameNamedShape kind x y := by
  unfold sameDefinitions sameNamedShape
  by_cases hxy : x = y
  · subst hxy
    cases h : kind x with
    | none => rfl
    | some k => cases k <;> simp [TypeKind.isLeaf, TypeKind.isComposite]
  · cases hx : kind x with
    | none => rfl
    | some kx =>
      cases hy : kind y with
      | none => rfl
      | some ky =>
        have : (x == y) = false := by simpa using hxy
        cases kx <;> cases ky <;> simp [TypeKind.isLeaf, TypeKind.isComposite, this]

theorem shape_iff (kind : Name → Option TypeKind) (a b : Ty) :
    sameOutputTypeShape kind a b = sameShape kind (embed a) (embed b) := by
  induction a generalizing b with
  | named x =>
    cases b with
    | named y => simpa [sameOutputTypeShape, unwrapLists, embed, sameShape] using shape_named kind x y
    | nonNullNamed y => simp [sameOutputTypeShape, unwrapLists, embed, sameShape]
    | list t => simp [sameOutputTypeShape, unwrapLists, embed, sameShape]
    | nonNullList t => simp [sameOutputTypeShape, unwrapLists, embed, sameShape]
  | nonNullNamed x =>
    cases b with
    | named y => simp [sameOutputTypeShape, unwrapLists, embed, sameShape]
    | nonNullNamed y => simpa [sameOutputTypeShape, unwrapLists, embed, sameShape] using shape_named kind x y
    | list t => simp [sameOutputTypeShape, unwrapLists, embed, sameShape]
    | nonNullList t => simp [sameOutputTypeShape, unwrapLists, embed, sameShape]
  | list t ih =>
    cases b with
    | named y => simp [sameOutputTypeShape, unwrapLists, embed, sameShape]
    | nonNullNamed y => simp [sameOutputTypeShape, unwrapLists, embed, sameShape]
    | list u => rw [shape_list, ih]; simp [embed, sameShape]
    | nonNullList u => simp [sameOutputTypeShape, unwrapLists, embed, sameShape]
  | nonNullList t ih =>
    cases b with
    | named y => simp [sameOutputTypeShape, unwrapLists, embed, sameShape]
    | nonNullNamed y => simp [sameOutputTypeShape, unwrapLists, embed, sameShape]
    | list u => simp [sameOutputTypeShape, unwrapLists, embed, sameShape]
    | nonNullList u => rw [shape_nnlist, ih]; simp [embed, sameShape]

/-! ### subscription walk vs CollectFields -/

theorem addField_keys (k n : String) (g : Grouped) :
    (addField k n g).map Prod.fst
      = if (g.map Prod.fst).contains k then g.map Prod.fst else g.map Prod.fst ++ [k] := by
  induction g with
  | nil => simp [addField]
  | cons kv rest ih =>
    obtain ⟨k', ns⟩ := kv
    by_cases h : k = k'
    · subst h; simp [addField]
    · have h' : (k == k') = false := by simpa using h
      simp only [addField, h', Bool.false_eq_true, if_false, List.map_cons, ih]
      have hcons : (k' :: rest.map Prod.fst).contains k = (rest.map Prod.fst).contains k := by
        rw [List.contains_cons, h', Bool.false_or]
      rw [hcons]
      by_cases hc : (rest.map Prod.fst).contains k = true
      · rw [if_pos hc, if_pos hc]
      · rw [if_neg hc, if_neg hc]; rfl

/-- what the walk and CollectFields have in common after the same selections -/
def Rel (st : WSt) (c : CSt) : Prop :=
  st.seen = c.visited ∧ c.grouped.map Prod.fst = st.rkeys

theorem goWalk_goCollect (frags : List Sels) (rec : Sels → WSt → WSt) (recC : Sels → CSt → CSt)
    (hrec : ∀ s st c, Rel st c → Rel (rec s st) (recC s c)) :
    ∀ s st c, Rel st c → Rel (goWalk frags rec s st) (goCollect frags recC s c) := by
  intro s
  induction s with
  | nil => intro st c h; simpa [goWalk, goCollect] using h
  | field key name cond rest ih =>
    intro st c h
    simp only [goWalk, goCollect]
    apply ih
    obtain ⟨h1, h2⟩ := h
    refine ⟨h1, ?_⟩
    simp only [addField_keys, h2]
  | inline cond sub rest ihs ihr =>
    intro st c h
    simp only [goWalk, goCollect]
    apply ihr
    apply ihs
    exact h
  | spread j cond rest ih =>
    intro st c h
    obtain ⟨h1, h2⟩ := h
    simp only [goWalk, goCollect]
    by_cases hs : st.seen.contains j = true
    · have hv : c.visited.contains j = true := h1 ▸ hs
      simp only [hs, hv, if_true]
      exact ih _ _ ⟨h1, h2⟩
    · have hv : ¬ c.visited.contains j = true := h1 ▸ hs
      simp only [hs, hv]
      have hr : Rel { st with conditional := st.conditional || cond, seen := j :: st.seen }
          { c with visited := j :: c.visited } := ⟨by simp [h1], h2⟩
      cases hf : frags[j]? with
      | none => simpa [hf] using ih _ _ hr
      | some body => simpa [hf] using ih _ _ (hrec body _ _ hr)

theorem walk_collect (frags : List Sels) :
    ∀ k s st c, Rel st c → Rel (walk frags k s st) (collect frags k s c) := by
  intro k
  induction k with
  | zero => intro s st c h; exact goWalk_goCollect frags _ _ (fun _ _ _ h => h) s st c h
  | succ k ih => intro s st c h; exact goWalk_goCollect frags _ _ ih s st c h

end Apollo.ExecVal
