import ApolloModel.Proofs.Numbers2
namespace Apollo.Num
open Apollo

theorem digitChar_digit {d : Nat} (h : d < 10) : isAsciiDigit (digitChar d) = true := by
  have : d = 0 ∨ d = 1 ∨ d = 2 ∨ d = 3 ∨ d = 4 ∨ d = 5 ∨ d = 6 ∨ d = 7 ∨ d = 8 ∨ d = 9 := by omega
  rcases this with rfl | rfl | rfl | rfl | rfl | rfl | rfl | rfl | rfl | rfl <;> decide

theorem digitChar_nonzero {d : Nat} (h : d < 10) (h1 : 1 ≤ d) : isNonZeroDigit (digitChar d) = true := by
  have : d = 1 ∨ d = 2 ∨ d = 3 ∨ d = 4 ∨ d = 5 ∨ d = 6 ∨ d = 7 ∨ d = 8 ∨ d = 9 := by omega
  rcases this with rfl | rfl | rfl | rfl | rfl | rfl | rfl | rfl | rfl <;> decide

theorem natDigits_lt {n : Nat} (h : n < 10) : natDigits n = [digitChar n] := by
  rw [natDigits]; simp [h]

theorem natDigits_ge {n : Nat} (h : ¬ n < 10) : natDigits n = natDigits (n / 10) ++ [digitChar (n % 10)] := by
  rw [natDigits]; simp [h]

/-- decimal printing gives: one digit, or a non-zero digit followed by digits -/
theorem natDigits_shape (n : Nat) :
    ∃ d rest, natDigits n = d :: rest ∧ allDigits rest = true ∧
      ((n < 10 ∧ rest = [] ∧ isAsciiDigit d = true) ∨ (1 ≤ n ∧ isNonZeroDigit d = true)) := by
  induction n using Nat.strongRecOn with
  | _ n ih =>
    by_cases h : n < 10
    · refine ⟨digitChar n, [], natDigits_lt h, by simp [allDigits], Or.inl ⟨h, rfl, digitChar_digit h⟩⟩
    · obtain ⟨d, rest, e, hr, hcase⟩ := ih (n / 10) (by omega)
      refine ⟨d, rest ++ [digitChar (n % 10)], by rw [natDigits_ge h, e]; rfl, ?_, Or.inr ⟨by omega, ?_⟩⟩
      · simp only [allDigits, List.all_append, Bool.and_eq_true] at hr ⊢
        exact ⟨hr, by simp [digitChar_digit (Nat.mod_lt n (by omega))]⟩
      · rcases hcase with ⟨hlt, hrest, _⟩ | ⟨_, hnz⟩
        · have hd : d = digitChar (n / 10) := by
            rw [natDigits_lt hlt] at e; simp at e; exact e.1.symm
          rw [hd]; exact digitChar_nonzero hlt (by omega)
        · exact hnz

theorem natDigits_valid (n : Nat) : validUnsigned (natDigits n) = true := by
  obtain ⟨d, rest, e, hr, hcase⟩ := natDigits_shape n
  rw [e]
  rcases hcase with ⟨_, rfl, hd⟩ | ⟨_, hnz⟩
  · simpa [validUnsigned] using hd
  · cases rest with
    | nil => simpa [validUnsigned] using nonzero_is_digit hnz
    | cons c r => simp [validUnsigned, hnz, hr]

/-- every integer (in particular every `i32`) prints to a valid IntValue -/
theorem int_from_i32_valid (i : Int) : validInt (intToString i) = true := by
  unfold intToString validInt
  have hv := natDigits_valid i.natAbs
  split
  · simpa [stripMinus] using hv
  · have : stripMinus (natDigits i.natAbs) = natDigits i.natAbs := by
      unfold stripMinus; split
      · rename_i r heq; exact absurd heq (unsigned_head_ne_minus hv r)
      · rfl
    rw [this]; exact hv

/-- The shape of Rust's `Display` for a finite `f64` (stated as an explicit hypothesis; trusted base):
    optional `-`, an integer part without superfluous leading zeros, optionally `.` and digits. -/
def RustF64Display (t : Str) : Prop :=
  ∃ i frac, t = i ++ frac ∧ SpecIntegerPart i ∧ (frac = [] ∨ SpecFractionalPart frac)

/-- `From<f64> for FloatValue` always produces a valid FloatValue literal -/
theorem float_text_valid (t : Str) (h : RustF64Display t) : validFloat (floatFixup t) = true := by
  obtain ⟨i, frac, rfl, hi, hf⟩ := h
  have hin := int_no_special hi
  rw [float_valid_iff_spec]
  unfold floatFixup
  rcases hf with rfl | hf
  · have : (i ++ []).contains '.' = false := by
      simp only [List.append_nil, List.contains_eq_mem, decide_eq_false_iff_not]
      exact fun hm => (hin '.' hm).2 rfl
    rw [if_neg (by rw [this]; simp)]
    exact ⟨i, ['.', '0'], [], by simp, hi, Or.inr (Or.inl ⟨⟨['0'], rfl, by simp, by decide⟩, rfl⟩)⟩
  · obtain ⟨ds, rfl, hne, hd⟩ := hf
    have : (i ++ '.' :: ds).contains '.' = true := by simp
    rw [if_pos this]
    exact ⟨i, '.' :: ds, [], by simp, hi, Or.inr (Or.inl ⟨⟨ds, rfl, hne, hd⟩, rfl⟩)⟩

/-- Name grammar `[_A-Za-z][_0-9A-Za-z]*` -/
theorem name_valid_iff (s : Str) :
    isValidName s = true ↔ ∃ c cs, s = c :: cs ∧ isNameStart c = true ∧ ∀ x ∈ cs, isNameContinue x = true := by
  cases s with
  | nil => simp [isValidName]
  | cons c cs =>
    simp only [isValidName, Bool.and_eq_true, List.all_eq_true]
    constructor
    · intro h; exact ⟨c, cs, rfl, h.1, h.2⟩
    · rintro ⟨c', cs', e, h1, h2⟩
      simp only [List.cons.injEq] at e
      obtain ⟨rfl, rfl⟩ := e
      exact ⟨h1, h2⟩

end Apollo.Num
