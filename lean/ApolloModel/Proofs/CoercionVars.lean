import ApolloModel.Proofs.CoercionFuel
/- C28: coerced values conform to their type; the variables loop against CoerceVariableValues. -/
namespace Apollo.Coercion
open Apollo Apollo.Spec AList

theorem zip_exists_right {α β : Type} : ∀ (xs : List α) (ys : List β) (y : β), y ∈ ys → xs.length = ys.length →
    ∃ x, (x, y) ∈ xs.zip ys := by
  intro xs
  induction xs with
  | nil => intro ys y h hl; cases ys with
    | nil => simp at h
    | cons b ys => simp at hl
  | cons a xs ih =>
    intro ys y h hl
    cases ys with
    | nil => simp at h
    | cons b ys =>
      simp only [List.mem_cons] at h
      rcases h with rfl | h
      · exact ⟨a, by simp⟩
      · obtain ⟨x, hx⟩ := ih ys y h (by simpa using hl)
        exact ⟨x, by simp [hx]⟩

/-- a value produced by input coercion (with coerced defaults) conforms to the type -/
theorem coerces_conforms {R : Rules} {s : ExecSchema} (hraw : R.rawDefaults = false) {ty : Ty} {v r : Json}
    (h : Coerces R s ty v r) : Conforms s ty r := by
  induction h with
  | null ty hn => exact Conforms.null ty hn
  | listItems ty inner xs ys hsh hl _ ih =>
    refine Conforms.list ty inner ys hsh ?_
    intro y hy
    obtain ⟨x, hx⟩ := zip_exists_right xs ys y hy hl
    exact ih (x, y) hx
  | listSingle ty inner v r hsh _ _ _ ih =>
    refine Conforms.list ty inner [r] hsh ?_
    intro y hy
    simp only [List.mem_singleton] at hy
    subst hy
    exact ih
  | scalar ty name v hsh htd hn hok => exact Conforms.scalar ty name v hsh htd hn hok
  | «enum» ty name values x hsh htd hx => exact Conforms.enum ty name values x hsh htd hx
  | inputObject ty name fields kvs r hsh htd p1 p2 p3 _ p5 _ _ p8 ih4 ih6 =>
    refine Conforms.inputObject ty name fields r hsh htd p2 ?_ ?_
    · intro fd rv hfd hr
      cases hg : get? kvs fd.name with
      | some fv => exact ih4 fd fv rv hfd hg hr
      | none =>
        cases hd : fd.default with
        | some d => exact ih6 fd d rv hfd hg hd hr hraw
        | none =>
          have := (p8 fd hfd hg hd).2
          rw [hr] at this
          cases this
    · intro fd hfd hr
      cases hg : get? kvs fd.name with
      | some fv =>
        have := p3 fd hfd (by simp [hg])
        simp [hr] at this
      | none =>
        cases hd : fd.default with
        | some d =>
          have := p5 fd d hfd hg hd
          simp [hr] at this
        | none => exact ⟨(p8 fd hfd hg hd).1, rfl⟩

/-- every variable default is already in coerced form -/
def VarDefaultsCanonical (R : Rules) (s : ExecSchema) (defs : List InputDef) : Prop :=
  ∀ vd d, vd ∈ defs → vd.default = some d → Coerces R s vd.ty d.toJson d.toJson

theorem vars_sound (R : Rules) (s : ExecSchema) (hwf : SchemaWF s)
    (hdef : R.rawDefaults = true ∨ CanonicalDefaults R s)
    (defs : List InputDef) (hnd : (fieldNames defs).Nodup)
    (hvd : R.rawDefaults = true ∨ VarDefaultsCanonical R s defs)
    (values r : AList Json) (h : coerceVariableValues s defs values = .ok r) :
    CoercesVars R s defs values r := by
  unfold coerceVariableValues at h
  obtain ⟨c1, c2⟩ := coerceDefs_ok _ values defs [] r hnd h
  refine ⟨?_, ?_⟩
  · intro k hk
    by_cases hm : k ∈ fieldNames defs
    · exact hm
    · rw [c1 k hm] at hk
      simp [get?] at hk
  · intro vd hvdm
    obtain ⟨o1, o2, o3⟩ := c2 vd hvdm
    cases hg : get? values vd.name with
    | some v =>
      obtain ⟨rv, hf, hr⟩ := o1 v hg
      exact ⟨rv, hr, coerceValue_sound R s hwf hdef _ _ _ _ hf⟩
    | none =>
      cases hd : vd.default with
      | some d =>
        refine ⟨d.toJson, o2 hg d hd, ?_⟩
        unfold DefaultOutcome
        rcases hvd with hvd | hvd
        · simp [hvd]
        · cases hraw : R.rawDefaults with
          | true => simp
          | false => simpa using hvd vd d hvdm hd
      | none =>
        obtain ⟨hnn, hr⟩ := o3 hg hd
        exact ⟨hnn, by rw [hr]; simp [get?]⟩

theorem vars_refuse (R : Rules) (s : ExecSchema)
    (defs : List InputDef) (values : AList Json) (e : CoerceErr)
    (h : coerceVariableValues s defs values = .error e) (he : e ≠ .outOfFuel) :
    ¬ ∃ r, CoercesVars R s defs values r := by
  unfold coerceVariableValues at h
  obtain ⟨vd, hvdm, hcase⟩ := coerceDefs_err _ values defs [] e h
  rintro ⟨r, _, hall⟩
  have hv := hall vd hvdm
  rcases hcase with ⟨v, hg, hf⟩ | ⟨hg, hd, hnn, _⟩
  · simp only [hg] at hv
    obtain ⟨rv, _, hc⟩ := hv
    exact coerceValue_refuse R s _ _ _ _ hf he ⟨rv, hc⟩
  · simp only [hg, hd] at hv
    rw [hnn] at hv
    cases hv.1

theorem vars_fuel (s : ExecSchema) (defs : List InputDef) (values : AList Json) :
    coerceVariableValues s defs values ≠ .error .outOfFuel := by
  intro h
  unfold coerceVariableValues at h
  obtain ⟨vd, hvdm, hcase⟩ := coerceDefs_err _ values defs [] _ h
  rcases hcase with ⟨v, hg, hf⟩ | ⟨_, _, _, he⟩
  · refine coerceValue_fuel s _ vd.ty v ?_ hf
    have hsz := size_get? values vd.name v hg
    have hmul := Nat.mul_le_mul_right (maxDepthTypes s.types + 1) hsz
    have hdep := depth_mem defs vd hvdm
    unfold fuelForVars
    rw [Nat.add_mul]
    generalize v.size * (maxDepthTypes s.types + 1) = A at *
    generalize Json.sizeFields values * (maxDepthTypes s.types + 1) = B at *
    omega
  · cases he

/-- the result has an entry exactly for the variables that were provided or have a default -/
theorem vars_keys (s : ExecSchema) (defs : List InputDef) (hnd : (fieldNames defs).Nodup)
    (values r : AList Json) (h : coerceVariableValues s defs values = .ok r) (k : String) :
    (get? r k).isSome = true ↔
      ∃ vd, vd ∈ defs ∧ vd.name = k ∧ ((get? values k).isSome = true ∨ vd.default.isSome = true) := by
  unfold coerceVariableValues at h
  obtain ⟨c1, c2⟩ := coerceDefs_ok _ values defs [] r hnd h
  constructor
  · intro hk
    by_cases hm : k ∈ fieldNames defs
    · simp only [fieldNames, List.mem_map] at hm
      obtain ⟨vd, hvdm, rfl⟩ := hm
      refine ⟨vd, hvdm, rfl, ?_⟩
      obtain ⟨_, _, o3⟩ := c2 vd hvdm
      cases hg : get? values vd.name with
      | some v => simp
      | none =>
        cases hd : vd.default with
        | some d => simp
        | none =>
          have := (o3 hg hd).2
          rw [this] at hk
          simp [get?] at hk
    · rw [c1 k hm] at hk
      simp [get?] at hk
  · rintro ⟨vd, hvdm, rfl, hor⟩
    obtain ⟨o1, o2, _⟩ := c2 vd hvdm
    cases hg : get? values vd.name with
    | some v =>
      obtain ⟨rv, _, hr⟩ := o1 v hg
      simp [hr]
    | none =>
      cases hd : vd.default with
      | some d => simp [o2 hg d hd]
      | none => simp [hg, hd] at hor

end Apollo.Coercion
