import ApolloModel.Proofs.ParserRecursion32
import ApolloModel.Proofs.ParserComplete16
/-
C04 growth, part 33: the depth `gd` of the syntax tree against the Ast-level budgets of the completeness theorems
(C05/C07).  Types: equal to `tyDepth`.  Selection sets: the budget `fitSels` is an upper bound of the tree depth
(it charges one level for an empty list or object, which the parser does not guard).
-/
set_option linter.unusedSimpArgs false
set_option linter.unusedVariables false
namespace Apollo.Parse
open Apollo.Rowan hiding Str
open Apollo.Lex hiding Str

theorem astOf_lBracket {x : Tok} (h : astOf x = some (.p .lBracket)) : isLB x = true := by
  unfold astOf at h
  unfold isLB
  cases hk : x.kind <;> simp [hk] at h ⊢

theorem astOf_name_notLB {x : Tok} {n : Ast.Str} (h : astOf x = some (.name n)) : isLB x = false := by
  unfold astOf at h
  unfold isLB
  cases hk : x.kind <;> simp [hk] at h ⊢

/-- the leading `[` of the tokens of a type reference: its list nesting -/
theorem lbCount_tTy : ∀ (t : Ast.Ty) (ts rest : List Tok), ts.map astOf = (Ast.tTy t).map some →
    lbCount (ts ++ rest) = tyDepth t
  | .named n, ts, rest, h => by
    simp only [Ast.tTy, List.map_cons, List.map_nil] at h
    obtain ⟨x, l, rfl, hx, hl⟩ := List.map_eq_cons_iff.mp h
    simp [lbCount, List.takeWhile_cons, astOf_name_notLB hx, tyDepth]
  | .nonNullNamed n, ts, rest, h => by
    simp only [Ast.tTy, List.map_cons, List.map_nil] at h
    obtain ⟨x, l, rfl, hx, hl⟩ := List.map_eq_cons_iff.mp h
    simp [lbCount, List.takeWhile_cons, astOf_name_notLB hx, tyDepth]
  | .list u, ts, rest, h => by
    simp only [Ast.tTy, List.map_cons, List.map_append, List.map_nil] at h
    obtain ⟨x, l, rfl, hx, hl⟩ := List.map_eq_cons_iff.mp h
    obtain ⟨l1, l2, rfl, h1, h2⟩ := List.map_eq_append_iff.mp hl
    have ih := lbCount_tTy u l1 (l2 ++ rest) h1
    simp only [lbCount] at ih ⊢
    simp only [List.cons_append, List.takeWhile_cons, astOf_lBracket hx, if_true, List.length_cons, List.append_assoc, ih, tyDepth]
  | .nonNullList u, ts, rest, h => by
    simp only [Ast.tTy, List.map_cons, List.map_append, List.map_nil] at h
    obtain ⟨x, l, rfl, hx, hl⟩ := List.map_eq_cons_iff.mp h
    obtain ⟨l1, l2, rfl, h1, h2⟩ := List.map_eq_append_iff.mp hl
    have ih := lbCount_tTy u l1 (l2 ++ rest) h1
    simp only [lbCount] at ih ⊢
    simp only [List.cons_append, List.takeWhile_cons, astOf_lBracket hx, if_true, List.length_cons, List.append_assoc, ih, tyDepth]

/-- the token-level depth of a source text that spells the type reference `t` is `tyDepth t` -/
theorem typeDepth_eq_tyDepth (src : Str) (t : Ast.Ty) (ts : List Tok) (e : Tok)
    (hsig : sig (srcToks src) = ts ++ [e]) (hty : ts.map astOf = (Ast.tTy t).map some) (hhead : HeadSig (srcToks src)) :
    typeDepth src = tyDepth t := by
  unfold typeDepth lead
  cases hq : srcToks src with
  | nil => rw [hq] at hsig; simp [sig] at hsig
  | cons hd tl =>
    simp only []
    have hs : Sigf hd := hhead hd tl hq
    have hi : isIgnoredKind hd.kind = false := by unfold Sigf at hs; exact hs
    simp only [hi, Bool.false_eq_true, if_false]
    rw [← hq, hsig]
    exact lbCount_tTy t ts [e] hty

/-- **types: the depth of the tree is the Ast-level `tyDepth`** — for every source text that spells a type
    reference `t` (the hypotheses of `type_in_grammar_is_accepted`, C05/C07) -/
theorem type_tree_depth (rl : Nat) (src : Str) (t : Ast.Ty) (ts : List Tok) (e : Tok)
    (hclean : LexClean src) (hsig : sig (srcToks src) = ts ++ [e]) (he : e.kind = .eof)
    (hty : ts.map astOf = (Ast.tTy t).map some) (hdepth : tyDepth t ≤ rl) (hhead : HeadSig (srcToks src)) :
    ∃ root, (parse .type none rl src).outcome = .tree root ∧ gd root = tyDepth t := by
  have herr := parseType_complete_sig rl src t ts e hclean hsig he hty hdepth hhead
  obtain ⟨root, h1, h2⟩ := parse_depth_of_no_error .type rl src herr
  refine ⟨root, h1, ?_⟩
  have h3 := (parseType_rec_limit rl src (fun w => parse_type_terminates none rl src w)).2
  rw [typeDepth_eq_tyDepth src t ts e hsig hty hhead] at h3
  rw [← h2, h3]
  omega

/-- **selection sets: the Ast-level budget is an upper bound of the depth of the tree** — for every source text
    that spells the selections `ss` (the hypotheses of `fieldset_accept_complete`, C05/C07): if they fit the
    budget `rl − 1` then the tree of the parse is at most `rl` deep -/
theorem selection_set_tree_depth_le (rl : Nat) (src : Str) (ss : Ast.Sels) (ts : List Tok) (e : Tok)
    (hclean : LexClean src) (hsig : sig (srcToks src) = ts ++ [e]) (he : e.kind = .eof)
    (hne : ss ≠ Ast.Sels.nil) (hb : 1 ≤ rl) (hfit : fitSels ss (rl - 1))
    (hx : (TokIs ts (.p .lCurly :: Ast.tSels ss ++ [.p .rCurly]) ∧ HeadSig (srcToks src)) ∨ TokIs ts (Ast.tSels ss)) :
    ∃ root, (parse .selectionSet none rl src).outcome = .tree root ∧ gd root ≤ rl ∧
      (parse .selectionSet none rl src).recHigh = gd root := by
  have herr := parseFieldSet_complete_full rl src ss ts e hclean hsig he hne hb hfit hx
  obtain ⟨root, h1, h2⟩ := parse_depth_of_no_error .selectionSet rl src herr
  refine ⟨root, h1, ?_, h2⟩
  rw [← h2]
  by_cases h : (parse .selectionSet none rl src).recHigh ≤ rl
  · exact h
  · have := parse_hit_records .selectionSet rl src (by omega)
    rw [herr] at this
    obtain ⟨x, hx', _⟩ := this
    cases hx'

end Apollo.Parse
