import ApolloModel.Proofs.ParserExactT3
/-
Exact (budget-carrying) soundness for the type-system family, part 4: field definitions and `{ FieldDefinition+ }`
in builderB's predicates `LFieldDef`, `LFields` (ParserExactC18) at the budget of the start state.
-/
set_option linter.unusedSimpArgs false
namespace Apollo.Parse.Exact
open Apollo.Rowan hiding Str
open Apollo.Lex hiding Str

theorem good_peekNop : Good peekNop := good_bind _ _ good_peek (fun _ => good_pure _)

theorem good_optAtNop (n : Nat) : Good (optKind .at (directives n true) peekNop) :=
  good_bind _ _ good_peek (fun _ => good_ite _ _ _ (good_bind _ _ (good_directives n true) (fun _ => good_peekNop)) good_peekNop)

theorem good_fdType (n : Nat) : Good (fdType n) :=
  good_bind _ _ good_peek (fun _ => good_ite _ _ _ (good_bind _ _ (good_ty n) (fun _ => good_optAtNop n)) good_err)

theorem good_fdColon (n : Nat) : Good (fdColon n) :=
  good_bind _ _ good_peek (fun _ => good_ite _ _ _ (good_bind _ _ (good_bump _) (fun _ => good_fdType n)) good_err)

theorem good_argumentsDefinition (n : Nat) : Good (argumentsDefinition n) := (acc_argumentsDefinition n).1

theorem good_fdArgs (n : Nat) : Good (optKind .lParen (argumentsDefinition n) (fdColon n)) :=
  good_bind _ _ good_peek (fun _ => good_ite _ _ _ (good_bind _ _ (good_argumentsDefinition n) (fun _ => good_fdColon n)) (good_fdColon n))

theorem good_fdName (n : Nat) : Good (name >>= fun _ => optKind .lParen (argumentsDefinition n) (fdColon n)) :=
  good_bind _ _ good_name (fun _ => good_fdArgs n)

/-- `Type Directives[Const]?` of a field definition -/
theorem fdType_sound (n : Nat) (s s' : PState) (w : TW s) (he : EofEnd s)
    (h : (fdType n).run s = .ok () s') (hnd : ¬ Doomed s') :
    Cons s s' (fun x => ∃ t ds, x = Ast.tTy t ++ Ast.tDirectives ds ∧ tyDepth t ≤ bud s ∧ dirsFit true (bud s) ds) := by
  unfold fdType at h
  obtain ⟨ko, sP, hp, h2⟩ := bind_dec peek _ s s' () h
  obtain ⟨o, p, hko⟩ := peek_obs s sP ko w hp
  subst hko
  have heP : EofEnd sP := p.eofEnd he
  by_cases hc : (o.map (·.kind) == some Kind.name || o.map (·.kind) == some Kind.lBracket) = true
  · simp only [hc, if_true] at h2
    obtain ⟨_, s6, h6, h7⟩ := bind_dec (ty n) _ sP s' () h2
    have a6 := good_ty n sP () s6 p.w h6
    have hnd6 : ¬ Doomed s6 := fun d => hnd ((good_optAtNop n s6 () s' a6.w h7).doom d)
    have c2 := ty_sound n sP s6 p.w heP h6 hnd6
    unfold optKind at h7
    obtain ⟨s7, h8, h9⟩ := optThen_dec .at (directives n true) peekNop s6 s' h7
    have a7 := good_optDirsEnd n s6 () s7 a6.w h8
    have hnd7 : ¬ Doomed s7 := fun d => hnd ((good_peekNop s7 () s' a7.w h9).doom d)
    have c3 := optDirsEnd_sound n s6 s7 a6.w c2.eofEnd h8 hnd7
    unfold peekNop at h9
    obtain ⟨k9, s9, hp9, h10⟩ := bind_dec peek _ s7 s' () h9
    obtain ⟨o9, p9, _⟩ := peek_obs s7 s9 k9 a7.w hp9
    have hs9 : s9 = s' := by have := run_pure () s9; rw [this] at h10; injection h10
    subst hs9
    have c := ((c2.seq c3).transport p.toks.symm p9.toks (p9.eofEnd c3.eofEnd))
    have hb6 : bud s6 = bud s := by rw [bud_adv a6, bud_peek p]
    exact c.weaken (by
      rintro z ⟨x, y, rfl, ⟨t, rfl, ht⟩, ds, rfl, hds⟩
      exact ⟨t, ds, rfl, by rw [← bud_peek p]; exact ht, by rw [← hb6]; exact hds⟩)
  · exfalso
    simp only [hc, Bool.false_eq_true, if_false] at h2
    exact hnd ((err_adv sP s' p.w h2).2 (eofEnd_nonempty sP heP (fun d => hnd ((good_err sP () s' p.w h2).doom d))))

/-- `: Type Directives[Const]?` of a field definition -/
theorem fdColon_sound (n : Nat) (s s' : PState) (w : TW s) (he : EofEnd s)
    (h : (fdColon n).run s = .ok () s') (hnd : ¬ Doomed s') :
    Cons s s' (fun x => ∃ t ds, x = .p .colon :: (Ast.tTy t ++ Ast.tDirectives ds) ∧ tyDepth t ≤ bud s ∧ dirsFit true (bud s) ds) := by
  unfold fdColon at h
  obtain ⟨sP, o, p, hor⟩ := ifPeek_dec .colon _ _ s s' () w h
  have heP := p.eofEnd he
  rcases hor with ⟨hkc, h5⟩ | ⟨_, h5⟩
  · obtain ⟨tc, rfl, hkc2⟩ : ∃ tc, o = some tc ∧ tc.kind = .colon := by
      cases o with
      | none => simp at hkc
      | some tc => exact ⟨tc, rfl, by simpa using hkc⟩
    have hnic : isIgnoredKind tc.kind = false := by rw [hkc2]; rfl
    obtain ⟨_, s5, h6, h7⟩ := bind_dec (bump "COLON") _ sP s' () h5
    obtain ⟨ign2, ec, hall2, _⟩ := bump_spec "COLON" sP s5 p.w tc _ p.head_cons h6
    have c1 : Cons sP s5 (fun x => x = [.p .colon]) :=
      Cons.ofEat ec heP (noEof_cons (by rw [hkc2]; decide) hall2) (tokIs_punct tc ign2 .colon hnic (by simp [astOfV, hkc2]) hall2)
    have c1' : Cons s s5 _ := c1.transport p.toks.symm rfl c1.eofEnd
    have c2 := fdType_sound n s5 s' ec.w c1.eofEnd h7 hnd
    have hb5 : bud s5 = bud s := by rw [bud_eat ec, bud_peek p]
    exact (c1'.seq c2).weaken (by
      rintro z ⟨x, y, rfl, rfl, t, ds, rfl, htd, hds⟩
      rw [hb5] at htd hds
      exact ⟨t, ds, by simp, htd, hds⟩)
  · exfalso
    exact hnd ((err_adv sP s' p.w h5).2 (eofEnd_nonempty sP heP (fun d => hnd ((good_err sP () s' p.w h5).doom d))))

/-- `ArgumentsDefinition? : Type Directives[Const]?` -/
theorem fdArgs_sound (n : Nat) (s s' : PState) (w : TW s) (he : EofEnd s)
    (h : (optKind .lParen (argumentsDefinition n) (fdColon n)).run s = .ok () s') (hnd : ¬ Doomed s') :
    Cons s s' (fun x => ∃ args t ds, x = Ast.tArgsDef args ++ .p .colon :: (Ast.tTy t ++ Ast.tDirectives ds) ∧
      (∀ a ∈ args, ivdFit (bud s) a) ∧ tyDepth t ≤ bud s ∧ dirsFit true (bud s) ds) := by
  unfold optKind at h
  obtain ⟨sP, o, p, hor⟩ := ifPeek_dec .lParen _ _ s s' () w h
  have heP := p.eofEnd he
  rcases hor with ⟨hkc, h5⟩ | ⟨_, h5⟩
  · obtain ⟨tc, rfl, hkc2⟩ : ∃ tc, o = some tc ∧ tc.kind = .lParen := by
      cases o with
      | none => simp at hkc
      | some tc => exact ⟨tc, rfl, by simpa using hkc⟩
    obtain ⟨_, s5, h6, h7⟩ := bind_dec (argumentsDefinition n) _ sP s' () h5
    have a5 := good_argumentsDefinition n sP () s5 p.w h6
    have hnd5 : ¬ Doomed s5 := fun d => hnd ((good_fdColon n s5 () s' a5.w h7).doom d)
    have c1 := argumentsDefinition_sound n sP s5 tc _ p.w heP p.head_cons hkc2 h6 hnd5
    have c2 := fdColon_sound n s5 s' a5.w c1.eofEnd h7 hnd
    have hb5 : bud s5 = bud s := by rw [bud_adv a5, bud_peek p]
    refine ((c1.seq c2).transport p.toks.symm rfl c2.eofEnd).weaken ?_
    rintro z ⟨x, y, rfl, ⟨args, _, rfl, hargs⟩, t, ds, rfl, htd, hds⟩
    rw [hb5] at htd hds
    rw [bud_peek p] at hargs
    exact ⟨args, t, ds, rfl, hargs, htd, hds⟩
  · have c2 := fdColon_sound n sP s' p.w heP h5 hnd
    refine (c2.transport p.toks.symm rfl c2.eofEnd).weaken ?_
    rintro z ⟨t, ds, rfl, htd, hds⟩
    rw [bud_peek p] at htd hds
    exact ⟨[], t, ds, by simp [Ast.tArgsDef], ⟨(by intro a ha; cases ha), htd, hds⟩⟩

/-- **one field definition** `Description? Name ArgumentsDefinition? : Type Directives[Const]?`, entered on a Name or String -/
theorem fieldDefinition_sound (n : Nat) (s s' : PState) (t : Tok) (rest : List Tok) (w : TW s) (he : EofEnd s)
    (ht : Toks s = t :: rest) (hk : isNameOrStringK t.kind = true)
    (h : (fieldDefinition n).run s = .ok () s') (hnd : ¬ Doomed s') : Cons s s' (LFieldDef (bud s)) := by
  have hni : isIgnoredKind t.kind = false := nameOrString_sig _ hk
  rw [fieldDefinition_eq] at h
  obtain ⟨s1, s2, e1, h1, o2⟩ := withNode_peeked "FIELD_DEFINITION" _ s s' () t rest w ht hni h
  have hnd2 : ¬ Doomed s2 := fun d => hnd (o2.doomed.mpr d)
  have he1 : EofEnd s1 := eofEnd_eat he e1 (by intro x hx; cases hx)
  have h0 : Toks s = Toks s1 := by simpa using e1.toks
  unfold fdBody at h1
  rw [show optKind .stringValue description (name >>= fun _ => optKind .lParen (argumentsDefinition n) (fdColon n)) =
    (peek >>= fun x => if x == some Kind.stringValue then (description >>= fun _ => (name >>= fun _ => optKind .lParen (argumentsDefinition n) (fdColon n)))
      else (name >>= fun _ => optKind .lParen (argumentsDefinition n) (fdColon n))) from rfl] at h1
  obtain ⟨s3, h3, h4⟩ := optThen_dec .stringValue description _ s1 s2 h1
  have a3 := good_optDesc s1 () s3 e1.w h3
  have hnd3 : ¬ Doomed s3 := fun d => hnd2 ((good_fdName n s3 () s2 a3.w h4).doom d)
  have c0 := optDesc_sound s1 s3 e1.w he1 h3 hnd3
  obtain ⟨_, s4, h5, h6⟩ := bind_dec name _ s3 s2 () h4
  have a4 := good_name s3 () s4 a3.w h5
  have hnd4 : ¬ Doomed s4 := fun d => hnd2 ((good_fdArgs n s4 () s2 a4.w h6).doom d)
  have c1 := cons_of_acc (acc_name (E := fun _ => False) (H := fun _ => True)) s3 s4 () a3.w c0.eofEnd trivial h5 hnd4
  have c2 := fdArgs_sound n s4 s2 a4.w c1.eofEnd h6 hnd2
  have hb4 : bud s4 = bud s := by rw [bud_adv a4, bud_adv a3, bud_eat e1]
  have c := ((c0.seq c1).seq c2).transport h0 o2.toks (eofEnd_same _ _ c2.eofEnd o2.current o2.lx o2.errors)
  exact c.weaken (by
    rintro z ⟨xy, y, rfl, ⟨x1, x2, rfl, ⟨desc, rfl⟩, nm, rfl⟩, args, ty, ds, rfl, hargs, htd, hds⟩
    rw [hb4] at hargs htd hds
    exact ⟨⟨desc, nm, args, ty, ds⟩, by simp [Ast.tFieldDef, List.append_assoc], hargs, htd, hds⟩)

theorem fd_item (n B : Nat) : ItemSpecP B isNameOrStringK (fieldDefinition n) (LFieldDef B) := by
  intro s s' t rest w he hB ht hp h hnd
  exact ((fieldDefinition_sound n s s' t rest w he ht hp h hnd).weaken (by intro x hx; rw [hB] at hx; exact hx)).toE

/-- **`{ FieldDefinition+ }`**, entered on the `{` -/
theorem fieldsDefinition_sound (n : Nat) (s s' : PState) (t : Tok) (rest : List Tok) (w : TW s) (he : EofEnd s)
    (ht : Toks s = t :: rest) (hk : t.kind = .lCurly)
    (h : (fieldsDefinition n).run s = .ok () s') (hnd : ¬ Doomed s') : Cons s s' (LFields (bud s)) := by
  rw [fieldsDefinition_eq] at h
  refine (bracedNode_sound _ _ (LFieldDef (bud s)) (acc_fieldDefinition early_false n).1 s s' t rest w he (fd_item n (bud s)) ht hk h hnd).weaken ?_
  rintro x ⟨items, hne, e, hall⟩
  obtain ⟨vs, hvs, hl, hF⟩ := flatten_itemsF (LFieldDef (bud s)) (fieldFit (bud s)) Ast.tFieldDef Ast.tFieldDefItems rfl (fun _ _ => rfl) (fun _ h => h) items hall
  obtain ⟨hvne, hemp⟩ := bracedR_nonempty (F := fieldFit (bud s)) hne hl
  exact ⟨vs, hvne, by rw [e, hvs]; simp [Ast.tBraced, hemp], hF⟩

end Apollo.Parse.Exact
