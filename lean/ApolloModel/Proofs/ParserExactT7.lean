import ApolloModel.Proofs.ParserExactT6
/-
Exact soundness for the type-system family, part 7: definitions of the shape `Description? keyword Name tail` entered
the way the dispatcher enters them (`DStart`): the keyword IS consumed.  `scalar`, `enum`, `input` in the `DefSound`
shape of ParserExactS14.
-/
set_option linter.unusedSimpArgs false
namespace Apollo.Parse.Exact
open Apollo.Rowan hiding Str
open Apollo.Lex hiding Str

/-- the body of `accL_defEntered` (ParserDef16) without its node -/
theorem accL_defEnteredBody (word : String) (hw : KwWord word) (sk : SK) (tail : PI Unit) (L : List Ast.Tok → Prop)
    (ht : Acc E0 LexQ tail (fun _ => L)) :
    Acc E0 (fun q => LexQ q ∧ DefStart word q) (optKind .stringValue description (optKw word sk tail))
      (fun _ x => ∃ desc x2, x = Ast.tDescription desc ++ .name word.toList :: x2 ∧ L x2) := by
  have hkw := accL_optKw_there early_false word hw sk tail _ ht
  have hname : ∀ q t, LexQ q → q.head? = some t → t.data = word.toList → t.kind = .name := by
    intro q t hl hh hd
    obtain ⟨c, r, hc1, hc2⟩ := hw
    exact hl.headKw hh word c r hc1 hc2 hd
  unfold optKind
  apply acc_peek
  intro k
  apply acc_ite
  · intro hk
    have hk' : k = some Kind.stringValue := by simpa using hk
    -- the head is a string: the description case
    have hd : Acc E0 (fun q => (LexQ q ∧ DefStart word q) ∧ q.head?.map (·.kind) = k) description
        (fun _ x => ∃ d, x = Ast.tDescription (some d)) :=
      (acc_description early_false).mono (fun q hq => kindP_of_head hq.2 hk) (fun _ _ h => h)
    refine (acc_bind_transfer early_false (H2 := fun q => LexQ q ∧ HeadData word q) hd ?_ (fun _ => hkw)).mono (fun _ h => h) ?_
    · rintro s _ s1 w ⟨⟨hl, hs⟩, hkind⟩ hrun
      rcases hs with ⟨t, hh, hd'⟩ | ⟨t, rest, t2, hq, hkt, hh2, hd2⟩
      · exfalso
        have := hname _ t hl hh hd'
        rw [hh, hk'] at hkind
        simp [this] at hkind
      · obtain ⟨ign, e1, hall, set1⟩ := description_spec s s1 w t rest hq (by rw [hkt]; rfl) hrun
        have hrest : rest = ign ++ Toks s1 := by
          have := e1.toks; rw [hq] at this; simpa using this
        refine ⟨by have := hl; rw [e1.toks] at this; exact this.suffix, t2, ?_, hd2⟩
        rw [hrest, sig_append, sig_ignored ign hall] at hh2
        simp only [List.nil_append] at hh2
        cases hq1 : Toks s1 with
        | nil => rw [hq1] at hh2; cases hh2
        | cons a b =>
          have hsa : isIgnoredKind a.kind = false := set1.2 a (by rw [set1.1, hq1]; rfl)
          have hab : a :: b = [a] ++ b := rfl
          rw [hq1, hab, sig_append, sig_single a hsa] at hh2
          simpa using hh2
    · rintro _ x ⟨_, x1, x2, e, ⟨d, h1⟩, x3, e3, h3⟩
      exact ⟨some d, x3, by rw [e, h1, e3], h3⟩
  · intro hk
    refine hkw.mono ?_ (fun _ x ⟨x2, e, h2⟩ => ⟨none, x2, by rw [e]; rfl, h2⟩)
    rintro q ⟨⟨hl, hs⟩, hkind⟩
    rcases hs with hs | ⟨t, rest, t2, hq, hkt, _, _⟩
    · exact ⟨hl, hs⟩
    · exfalso
      rw [hq] at hkind
      simp only [List.head?_cons, Option.map_some] at hkind
      rw [← hkind, hkt] at hk
      simp at hk

theorem defStart_of_DStart (word : String) (q : List Tok) (h : DStart word.toList q) : DefStart word q := by
  obtain ⟨t, rest, hq, hor⟩ := h
  rcases hor with ⟨_, hd⟩ | ⟨hk, t2, h2, hd2⟩
  · exact Or.inl ⟨t, by rw [hq]; rfl, hd⟩
  · exact Or.inr ⟨t, rest, t2, hq, hk, h2, hd2⟩

theorem dStart_sig (word : String) (q : List Tok) (h : DStart word.toList q) : ∃ t rest, q = t :: rest ∧ isIgnoredKind t.kind = false := by
  obtain ⟨t, rest, hq, hor⟩ := h
  refine ⟨t, rest, hq, ?_⟩
  rcases hor with ⟨hk | hk, _⟩ | ⟨hk, _⟩ <;> rw [hk] <;> rfl

/-- **`Description? keyword Name tail` entered by the dispatcher**: the keyword is consumed, the tail runs at the budget
    of the start state; `L` may also speak about the token current at the end -/
theorem defShape_soundE (word : String) (sk : SK) (hw : KwWord word) (n : Nat) (tail : PI Unit) (L : Nat → Option Tok → List Ast.Tok → Prop)
    (gt : Good tail)
    (ht : ∀ s s', TW s → EofEnd s → tail.run s = .ok () s' → ¬ Doomed s' → Cons s s' (L (bud s) s'.current))
    (s s' : PState) (w : TW s) (he : EofEnd s) (hq : LexQ (Toks s)) (hs : DefStart word (Toks s))
    (h : (defShape word sk n tail).run s = .ok () s') (hnd : ¬ Doomed s') :
    Cons s s' (fun x => ∃ desc nm x2, x = Ast.tDescription desc ++ .name word.toList :: .name nm :: x2 ∧ L (bud s) s'.current x2) := by
  obtain ⟨s1, h1, h2⟩ := defShape_split word sk n tail s s' h
  have hacc := accL_defEnteredBody word hw sk (nameOrErr >>= fun _ => (pure () : PI Unit)) (fun x => ∃ nm, x = [.name nm])
    ((accL_bind early_false (fun _ h => h) acc_nameOrErr (fun _ => (acc_pure E0 LexQ ()).mono (fun _ h => h) (fun _ _ h => h.2))).mono (fun _ h => h)
      (by rintro _ x ⟨_, x1, x2, e, ⟨nm, h1⟩, h2⟩; exact ⟨nm, by rw [e, h1, h2]; rfl⟩))
  have h1' : (optKind .stringValue description (optKw word sk (nameOrErr >>= fun _ => (pure () : PI Unit)))).run s = .ok () s1 := h1
  have a1 := hacc.1 s () s1 w h1'
  have hnd1 : ¬ Doomed s1 := fun d => hnd ((gt s1 () s' a1.w h2).doom d)
  have c1 := cons_of_acc hacc s s1 () w he ⟨hq, hs⟩ h1' hnd1
  have c2 := ht s1 s' a1.w c1.eofEnd h2 hnd
  refine (c1.seq c2).weaken ?_
  rintro z ⟨x, y, rfl, ⟨desc, x2, rfl, nm, rfl⟩, hy⟩
  rw [bud_adv a1] at hy
  exact ⟨desc, nm, y, by simp, hy⟩

/-- the same inside its node -/
theorem defNode_sound (K : SK) (word : String) (sk : SK) (hw : KwWord word) (n : Nat) (tail : PI Unit) (L : Nat → Option Tok → List Ast.Tok → Prop)
    (gt : Good tail)
    (ht : ∀ s s', TW s → EofEnd s → tail.run s = .ok () s' → ¬ Doomed s' → Cons s s' (L (bud s) s'.current))
    (s s' : PState) (w : TW s) (he : EofEnd s) (hq : LexQ (Toks s)) (hs : DStart word.toList (Toks s))
    (h : (withNode K (defShape word sk n tail)).run s = .ok () s') (hnd : ¬ Doomed s') :
    Cons s s' (fun x => ∃ desc nm x2, x = Ast.tDescription desc ++ .name word.toList :: .name nm :: x2 ∧ L (bud s) s'.current x2) := by
  obtain ⟨t, rest, htq, hni⟩ := dStart_sig word _ hs
  obtain ⟨s1, s2, e1, h1, o2⟩ := withNode_peeked _ _ s s' () t rest w htq hni h
  have hnd2 : ¬ Doomed s2 := fun d => hnd (o2.doomed.mpr d)
  have he1 : EofEnd s1 := eofEnd_eat he e1 (by intro x hx; cases hx)
  have h0 : Toks s = Toks s1 := by simpa using e1.toks
  have c := defShape_soundE word sk hw n tail L gt ht s1 s2 e1.w he1 (by rw [← h0]; exact hq)
    (by rw [← h0]; exact defStart_of_DStart word _ hs) h1 hnd2
  refine (c.transport h0 o2.toks (eofEnd_same _ _ c.eofEnd o2.current o2.lx o2.errors)).weaken ?_
  rintro z ⟨desc, nm, x2, rfl, hl⟩
  rw [bud_eat e1, ← o2.current] at hl
  exact ⟨desc, nm, x2, rfl, hl⟩

/-- a definition node of this shape ends settled -/
theorem defNode_settled (K : SK) (word : String) (sk : SK) (n : Nat) (tail : PI Unit) (gt : Good tail) (ht : SP tail)
    (s s' : PState) (w : TW s) (h : (withNode K (defShape word sk n tail)).run s = .ok () s') (hnd : ¬ Doomed s') : Settled s' := by
  rcases se_withNode K _ (se_defShape word sk n tail gt ht).sp s () s' w h with h1 | h1
  · exact h1
  · exact absurd h1 hnd

/-- **`Directives[Const]? Body?`** with a braced body: within the budget; when the body is absent the current token is not `{` -/
theorem dirsBody_sound (n : Nat) (body : PI Unit) (LB : Nat → List Ast.Tok → Prop) (gb : Good body)
    (hb : ∀ s s' t rest, TW s → EofEnd s → Toks s = t :: rest → t.kind = .lCurly → body.run s = .ok () s' → ¬ Doomed s' → Cons s s' (LB (bud s)))
    (s s' : PState) (w : TW s) (he : EofEnd s) (h : (dirsBody n .lCurly body).run s = .ok () s') (hnd : ¬ Doomed s') :
    Cons s s' (fun x => ∃ ds x2, x = Ast.tDirectives ds ++ x2 ∧ dirsFit true (bud s) ds ∧
      (LB (bud s) x2 ∨ (x2 = [] ∧ ∀ t, s'.current = some t → t.kind ≠ .lCurly))) := by
  unfold dirsBody optKind at h
  obtain ⟨s1, h1, h2⟩ := optThen_dec .at (directives n true) (optBodyK .lCurly body) s s' h
  have g2 : Good (optBodyK .lCurly body) := good_bind _ _ good_peek (fun _ => good_ite _ _ _ gb (good_pure _))
  have a1 := good_optDirsEnd n s () s1 w h1
  have hnd1 : ¬ Doomed s1 := fun d => hnd ((g2 s1 () s' a1.w h2).doom d)
  have c1 := optDirsEnd_sound n s s1 w he h1 hnd1
  unfold optBodyK at h2
  obtain ⟨sP, o, p, hor⟩ := ifPeek_dec .lCurly _ _ s1 s' () a1.w h2
  have heP := p.eofEnd c1.eofEnd
  rcases hor with ⟨hkc, h5⟩ | ⟨hkc, h5⟩
  · obtain ⟨tc, rfl, hkc2⟩ : ∃ tc, o = some tc ∧ tc.kind = .lCurly := by
      cases o with
      | none => simp at hkc
      | some tc => exact ⟨tc, rfl, by simpa using hkc⟩
    have c2 := hb sP s' tc _ p.w heP p.head_cons hkc2 h5 hnd
    refine (c1.seq (c2.transport p.toks.symm rfl c2.eofEnd)).weaken ?_
    rintro z ⟨x, y, rfl, ⟨ds, rfl, hds⟩, hy⟩
    rw [bud_peek p, bud_adv a1] at hy
    exact ⟨ds, y, rfl, hds, Or.inl hy⟩
  · rw [run_pure] at h5
    injection h5 with _ h5
    subst h5
    refine (c1.transport rfl p.toks heP).weaken ?_
    rintro z ⟨ds, rfl, hds⟩
    refine ⟨ds, [], by simp, hds, Or.inr ⟨rfl, ?_⟩⟩
    intro t ht hk
    rw [p.current] at ht
    subst ht
    exact hkc (by simp [hk])

end Apollo.Parse.Exact
