import ApolloModel.Proofs.ExecutionSpec
/- C26: the executor model refines the specification's algorithms — part 2: CompleteValue, the list
   loop, ExecuteField, the field loop, ExecuteSelectionSet, and the whole execution. -/
namespace Apollo.ExecSpec
open Apollo Apollo.Exec

/-- reading a specification outcome in the Rust shape -/
def toOut : Res (Option Json) → Out
  | .ok v => .ok v
  | .raised => .error .propagate
  | .outOfFuel => .error .fuel

def toMap : Res (AList Json) → Except Fail (AList Json)
  | .ok m => .ok m
  | .raised => .error .propagate
  | .outOfFuel => .error .fuel

/-- catching at a position = `try_nullify` with the position's type -/
theorem toOut_catchAt (ty : Ty) (r : Res (Option Json)) : toOut (catchAt ty r) = tryNullify ty (toOut r) := by
  cases r with
  | ok v => rfl
  | outOfFuel => rfl
  | raised => cases h : ty.isNonNull <;> simp [catchAt, toOut, tryNullify, h]

theorem tryNullify_idem (ty : Ty) (r : Out) : tryNullify ty (tryNullify ty r) = tryNullify ty r := by
  cases r with
  | ok v => rfl
  | error e =>
    cases e with
    | fuel => rfl
    | propagate => cases h : ty.isNonNull <;> simp [tryNullify, h]

/-- The model's `complete_value` and the specification's CompleteValue, seen from the position that
    called them: the model may already have turned a propagation into `null` (`complete_list_value`
    nullifies the list itself), the specification leaves every catch to the position; after the
    position's own catch the two agree, with the same errors. -/
def Refines (recM : Rec) (recS : Complete) : Prop :=
  ∀ path ty rv fields st,
    (tryNullify ty (recM path ty rv fields st).1, (recM path ty rv fields st).2) =
    (toOut (catchAt ty (recS path ty rv fields st).1), (recS path ty rv fields st).2)

theorem items_refine (recM : Rec) (recS : Complete) (href : Refines recM recS) (path : Path) (ty inner : Ty) (fields : List Sel) :
    ∀ items i acc st,
      (tryNullify ty (Exec.completeItems recM path ty inner fields items i acc st).1,
        (Exec.completeItems recM path ty inner fields items i acc st).2) =
      (toOut (catchAt ty (completeItems recS Choices.apollo path inner fields items i acc st).1),
        (completeItems recS Choices.apollo path inner fields items i acc st).2) := by
  intro items
  induction items with
  | nil => intro i acc st; rfl
  | cons item rest ih =>
    intro i acc st
    by_cases he : item = RV.error
    · subst he
      simp only [Exec.completeItems, completeItems, Choices.apollo, if_true, raise]
      rw [toOut_catchAt]
      rfl
    · have hM : Exec.completeItems recM path ty inner fields (item :: rest) i acc st =
          (match recM (path ++ [.idx i]) inner item fields st with
          | (r, st1) =>
            match tryNullify inner r with
            | .ok none => Exec.completeItems recM path ty inner fields rest (i + 1) acc st1
            | .ok (some v) => Exec.completeItems recM path ty inner fields rest (i + 1) (acc ++ [v]) st1
            | .error .propagate => (tryNullify ty (.error .propagate), st1)
            | .error .fuel => (.error .fuel, st1)) := by
        cases item <;> first | rfl | exact absurd rfl he
      have hS : completeItems recS Choices.apollo path inner fields (item :: rest) i acc st =
          (match recS (path ++ [.idx i]) inner item fields st with
          | (completedItem, st1) =>
            match catchAt inner completedItem with
            | .raised => (.raised, st1)
            | .outOfFuel => (.outOfFuel, st1)
            | .ok none => completeItems recS Choices.apollo path inner fields rest (i + 1) acc st1
            | .ok (some v) => completeItems recS Choices.apollo path inner fields rest (i + 1) (acc ++ [v]) st1) := by
        cases item <;> first | rfl | exact absurd rfl he
      rw [hM, hS]
      have hr := href (path ++ [.idx i]) inner item fields st
      generalize recM (path ++ [.idx i]) inner item fields st = resM at *
      generalize recS (path ++ [.idx i]) inner item fields st = resS at *
      obtain ⟨rm, stm⟩ := resM
      obtain ⟨rs, sts⟩ := resS
      simp only [Prod.mk.injEq] at hr
      obtain ⟨hval, hst⟩ := hr
      subst hst
      simp only
      rw [hval]
      cases hc : catchAt inner rs with
      | raised =>
        show (tryNullify ty (tryNullify ty (.error .propagate)), stm) = (toOut (catchAt ty .raised), stm)
        rw [tryNullify_idem, toOut_catchAt]
        rfl
      | outOfFuel => rfl
      | ok o =>
        cases o with
        | none => simp only [toOut]; exact ih (i + 1) acc stm
        | some v => simp only [toOut]; exact ih (i + 1) (acc ++ [v]) stm

/-- ExecuteField + the catch of its position = `execute_field` (which nullifies itself) -/
theorem execField_refines (recM : Rec) (recS : Complete) (href : Refines recM recS) (env : Env) (path : Path)
    (objTy : String) (objId : Nat) (fdef : FieldDef) (f0 : Sel) (tl : List Sel) (st : St) :
    Exec.execField recM env path objTy objId fdef (f0 :: tl) st =
      (toOut (catchAt fdef.ty (executeField recS Choices.apollo env path objTy objId fdef f0 (f0 :: tl) st).1),
       (executeField recS Choices.apollo env path objTy objId fdef f0 (f0 :: tl) st).2) := by
  unfold executeField
  rw [coerceArgumentValues_eq]
  unfold Exec.execField
  cases hargs : coerceArgs env f0.fargs fdef.args [] with
  | none =>
    simp only [hargs, raise]
    rw [toOut_catchAt]
    cases h : fdef.ty.isNonNull <;> simp [toOut, tryNullify, h]
  | some args =>
    simp only [hargs, resolveFieldValue_eq]
    by_cases hn : f0.fname = "__typename"
    · simp only [hn, if_true]
      have := href path fdef.ty (.leaf (.str objTy)) (f0 :: tl) st
      simp only [Prod.mk.injEq] at this ⊢
      exact this
    · simp only [hn, if_false]
      cases hw : env.world.get? objId f0.fname with
      | none =>
        simp only [raise]
        rw [toOut_catchAt]
        rfl
      | some rv =>
        cases rv with
        | error =>
          simp only [raise]
          rw [toOut_catchAt]
          rfl
        | echo =>
          have := href path fdef.ty (.leaf (.obj args)) (f0 :: tl) st
          simp only [Prod.mk.injEq] at this ⊢
          exact this
        | leaf j =>
          have := href path fdef.ty (.leaf j) (f0 :: tl) st
          simp only [Prod.mk.injEq] at this ⊢
          exact this
        | list items =>
          have := href path fdef.ty (.list items) (f0 :: tl) st
          simp only [Prod.mk.injEq] at this ⊢
          exact this
        | object t id =>
          have := href path fdef.ty (.object t id) (f0 :: tl) st
          simp only [Prod.mk.injEq] at this ⊢
          exact this
        | skip =>
          have := href path fdef.ty .skip (f0 :: tl) st
          simp only [Prod.mk.injEq] at this ⊢
          exact this

/-- the field loop of ExecuteSelectionSet = the loop of `execute_selection_set` -/
theorem groups_refine (recM : Rec) (recS : Complete) (href : Refines recM recS) (env : Env) (path : Path)
    (objTy : String) (objId : Nat) : ∀ groups acc st,
    Exec.execGroups recM env path objTy objId groups acc st =
      (toMap (executeGroups recS Choices.apollo env path objTy objId groups acc st).1,
       (executeGroups recS Choices.apollo env path objTy objId groups acc st).2) := by
  intro groups
  induction groups with
  | nil => intro acc st; rfl
  | cons g rest ih =>
    intro acc st
    obtain ⟨key, fields⟩ := g
    cases fields with
    | nil => simp only [Exec.execGroups, executeGroups]; exact ih acc st
    | cons f0 tl =>
      simp only [Exec.execGroups, executeGroups]
      cases htf : env.schema.typeField? objTy f0.fname with
      | none => simp only; exact ih acc st
      | some fdef =>
        simp only
        rw [execField_refines recM recS href env (path ++ [Seg.key key]) objTy objId fdef f0 tl st]
        generalize executeField recS Choices.apollo env (path ++ [Seg.key key]) objTy objId fdef f0 (f0 :: tl) st = executed
        obtain ⟨r, st1⟩ := executed
        simp only
        cases hc : catchAt fdef.ty r with
        | raised => rfl
        | outOfFuel => rfl
        | ok o =>
          cases o with
          | none => simp only [toOut]; exact ih acc st1
          | some v => simp only [toOut]; exact ih (AList.insert acc key v) st1

/-- ExecuteSelectionSet = `execute_selection_set` -/
theorem selSet_refines (recM : Rec) (recS : Complete) (href : Refines recM recS) (env : Env) (path : Path)
    (objTy : String) (objId : Nat) (sels : List Sel) (st : St) :
    Exec.execSelSet recM env path objTy objId sels st =
      (toMap (executeSelectionSet recS Choices.apollo env path objTy objId sels st).1,
       (executeSelectionSet recS Choices.apollo env path objTy objId sels st).2) := by
  unfold Exec.execSelSet executeSelectionSet
  rw [collectFields_eq]
  cases Exec.collectFields env objTy env.cfuel sels [] [] with
  | none => rfl
  | some p =>
    obtain ⟨v, groups⟩ := p
    exact groups_refine recM recS href env path objTy objId groups [] st


theorem raise_refines (ty : Ty) (path : Path) (st : St) :
    (tryNullify ty (Except.error Fail.propagate : Out), st.push path) =
      (toOut (catchAt ty (raise (α := Option Json) path st).1), (raise (α := Option Json) path st).2) := by
  rw [toOut_catchAt]
  rfl

/-- the specification raises for a result that is neither a value, a list nor an object -/
theorem spec_leaf_nonnull (env : Env) (n : Nat) (path : Path) (ty : Ty) (j : Json) (hj : j ≠ .null) (fields : List Sel) (st : St) :
    completeValue Choices.apollo env (n + 1) path ty (.leaf j) fields st =
      (match ty.shape with
       | .list _ => raise path st
       | .named tyName =>
         match env.schema.kind? tyName with
         | some .scalar => if leafScalarOk tyName j then (.ok (some j), st) else raise path st
         | some (.enum values) =>
           (match j with
            | .str x => if values.contains x then (.ok (some j), st) else raise path st
            | _ => raise path st)
         | _ => raise path st) := by
  cases j <;> first | exact absurd rfl hj | skip
  all_goals
    simp only [completeValue, isNullResult, Bool.false_eq_true, if_false]
    cases ty.shape with
    | list inner => rfl
    | named tyName =>
      simp only
      cases env.schema.kind? tyName with
      | none => rfl
      | some k => cases k <;> rfl

theorem model_leaf_nonnull (env : Env) (n : Nat) (path : Path) (ty : Ty) (j : Json) (hj : j ≠ .null) (fields : List Sel) (st : St) :
    Exec.completeValue env (n + 1) path ty (.leaf j) fields st =
      (match ty.shape with
       | .list _ => (.error .propagate, st.push path)
       | .named tyName =>
         match env.schema.kind? tyName with
         | some .scalar => if leafScalarOk tyName j then (.ok (some j), st) else (.error .propagate, st.push path)
         | some (.enum values) =>
           (match j with
            | .str x => if values.contains x then (.ok (some j), st) else (.error .propagate, st.push path)
            | _ => (.error .propagate, st.push path))
         | _ => (.error .propagate, st.push path)) := by
  cases j <;> first | exact absurd rfl hj | skip
  all_goals
    simp only [Exec.completeValue]
    cases ty.shape with
    | list inner => rfl
    | named tyName =>
      simp only
      cases env.schema.kind? tyName with
      | none => rfl
      | some k => cases k <;> simp [completeLeaf]


/-- CompleteValue: by induction on the fuel, the model refines the specification at every position. -/
theorem completeValue_refines (env : Env) : ∀ n, Refines (Exec.completeValue env n) (completeValue Choices.apollo env n) := by
  intro n
  induction n with
  | zero =>
    intro path ty rv fields st
    simp [Exec.completeValue, completeValue, tryNullify, catchAt, toOut]
  | succ n ih =>
    intro path ty rv fields st
    have hraise := raise_refines ty path st
    cases rv with
    | skip => simp [Exec.completeValue, completeValue, Choices.apollo, tryNullify, catchAt, toOut]
    | error =>
      have hS : completeValue Choices.apollo env (n + 1) path ty .error fields st = raise path st := by
        simp only [completeValue, isNullResult, Bool.false_eq_true, if_false]
        cases ty.shape with
        | list inner => rfl
        | named tyName => cases env.schema.kind? tyName <;> rfl
      rw [hS]
      simpa [Exec.completeValue] using hraise
    | echo =>
      have hS : completeValue Choices.apollo env (n + 1) path ty .echo fields st = raise path st := by
        simp only [completeValue, isNullResult, Bool.false_eq_true, if_false]
        cases ty.shape with
        | list inner => rfl
        | named tyName => cases env.schema.kind? tyName <;> rfl
      rw [hS]
      simpa [Exec.completeValue] using hraise
    | leaf j =>
      by_cases hj : j = .null
      · subst hj
        simp only [Exec.completeValue, completeValue, isNullResult, if_true]
        cases h : ty.isNonNull with
        | true => simpa [h] using hraise
        | false => simp [tryNullify, catchAt, toOut]
      · rw [spec_leaf_nonnull env n path ty j hj, model_leaf_nonnull env n path ty j hj]
        cases ty.shape with
        | list inner => exact hraise
        | named tyName =>
          simp only
          cases env.schema.kind? tyName with
          | none => exact hraise
          | some k =>
            cases k with
            | scalar =>
              simp only
              split
              · simp [tryNullify, catchAt, toOut]
              · exact hraise
            | «enum» values =>
              simp only
              cases j <;> first | exact hraise | skip
              simp only
              split
              · simp [tryNullify, catchAt, toOut]
              · exact hraise
            | inputObject fs => exact hraise
            | object d => exact hraise
            | interface => exact hraise
            | union ms => exact hraise
    | list items =>
      simp only [Exec.completeValue, completeValue, isNullResult, Bool.false_eq_true, if_false, completeList]
      cases ty.shape with
      | named tyName =>
        simp only
        cases env.schema.kind? tyName with
        | none => exact hraise
        | some k => cases k <;> exact hraise
      | list inner =>
        exact items_refine _ _ ih path ty inner fields items 0 [] st
    | object resolvedTy id =>
      simp only [Exec.completeValue, completeValue, isNullResult, Bool.false_eq_true, if_false]
      cases ty.shape with
      | list inner => exact hraise
      | named tyName =>
        simp only
        cases hk : env.schema.kind? tyName with
        | none => exact hraise
        | some k =>
          have hposs := isPossibleType_eq env.schema tyName k hk resolvedTy
          have hsel := selSet_refines _ _ ih env path resolvedTy id (subSelections fields) st
          cases k with
          | inputObject fs =>
            simp only
            have : isPossibleType env.schema tyName (.inputObject fs) resolvedTy = false := by
              rw [hposs]; rfl
            simp only [this, Bool.false_eq_true, if_false]
            exact hraise
          | scalar =>
            simp only [hposs, resolveObjectType, Bool.false_eq_true, if_false]
            exact hraise
          | «enum» vs =>
            simp only [hposs, resolveObjectType, Bool.false_eq_true, if_false]
            exact hraise
          | object d =>
            simp only [hposs, mergeSelectionSets_eq]
            split
            · rw [hsel]
              generalize executeSelectionSet (completeValue Choices.apollo env n) Choices.apollo env path resolvedTy id (subSelections fields) st = res
              obtain ⟨r, st1⟩ := res
              cases r <;> simp [toMap, tryNullify, catchAt, toOut] <;> cases ty.isNonNull <;> simp
            · exact hraise
          | interface =>
            simp only [hposs, mergeSelectionSets_eq]
            split
            · rw [hsel]
              generalize executeSelectionSet (completeValue Choices.apollo env n) Choices.apollo env path resolvedTy id (subSelections fields) st = res
              obtain ⟨r, st1⟩ := res
              cases r <;> simp [toMap, tryNullify, catchAt, toOut] <;> cases ty.isNonNull <;> simp
            · exact hraise
          | union ms =>
            simp only [hposs, mergeSelectionSets_eq]
            split
            · rw [hsel]
              generalize executeSelectionSet (completeValue Choices.apollo env n) Choices.apollo env path resolvedTy id (subSelections fields) st = res
              obtain ⟨r, st1⟩ := res
              cases r <;> simp [toMap, tryNullify, catchAt, toOut] <;> cases ty.isNonNull <;> simp
            · exact hraise

/-- The refinement: for every schema, operation, coerced variables, world and fuel, the model of
    apollo-compiler's executor and the specification's algorithms (with apollo-compiler's documented
    choices) give the same response: same data (key order included), same errors with the same paths in
    the same order — and run out of fuel together. -/
theorem execute_eq_spec (fuel : Nat) (env : Env) (sels : List Sel) :
    Exec.execute fuel env sels = execute Choices.apollo fuel env sels := by
  unfold Exec.execute execute
  rw [selSet_refines _ _ (completeValue_refines env fuel)]
  generalize executeSelectionSet (completeValue Choices.apollo env fuel) Choices.apollo env [] env.schema.query 0 sels { errors := [] } = res
  obtain ⟨r, st⟩ := res
  cases r <;> rfl


end Apollo.ExecSpec
