import ApolloModel.Proofs.Strings
namespace Apollo.Strs

theorem unescape_flat : ∀ (s : Str) (fuel : Nat), s.length < fuel →
    unescapeStringAux fuel (s.flatMap escapeChar) = some s
  | [], fuel, h => by
    cases fuel with
    | zero => omega
    | succ f => simp [unescapeStringAux]
  | c :: s, fuel, h => by
    cases fuel with
    | zero => omega
    | succ f =>
      simp only [List.flatMap_cons]
      rw [unescape_escapeChar, unescape_flat s f (by simp only [List.length_cons] at h; omega)]
      rfl

theorem escapeChar_length_pos (c : Char) : 0 < (escapeChar c).length := by
  unfold escapeChar; repeat' split
  all_goals simp

theorem flat_length_ge (s : Str) : s.length ≤ (s.flatMap escapeChar).length := by
  induction s with
  | nil => simp
  | cons c s ih =>
    have := escapeChar_length_pos c
    simp only [List.flatMap_cons, List.length_append, List.length_cons]
    omega

/-- the quoted body decodes to the string -/
theorem quoted_body_roundtrip (s : Str) : unescapeString (s.flatMap escapeChar) = some s :=
  unescape_flat s _ (by have := flat_length_ge s; omega)

theorem escapeChar_head_ne_quote (c : Char) : (escapeChar c).head? ≠ some '"' := by
  unfold escapeChar; repeat' split
  all_goals first | (simp; done) | skip
  rename_i h1 h2 h3 h4 h5 h6 h7
  simp only [List.head?_cons, ne_eq, Option.some.injEq]
  intro e; subst e; simp at h5

theorem flat_head_ne_quote (s : Str) : (s.flatMap escapeChar).head? ≠ some '"' := by
  cases s with
  | nil => simp
  | cons c s =>
    have h := escapeChar_head_ne_quote c
    have hp := escapeChar_length_pos c
    simp only [List.flatMap_cons]
    cases he : escapeChar c with
    | nil => simp [he] at hp
    | cons x xs => simpa [he] using h

/-- **C09, quoted form** — the printed literal `"…"` decodes back to exactly the string, for every
    Unicode string (quotes, backslashes, control characters, line terminators included). -/
theorem quoted_roundtrip (s : Str) : decodeStringToken (quotedForm s) = some s := by
  have hh := flat_head_ne_quote s
  have hr := quoted_body_roundtrip s
  unfold quotedForm decodeStringToken
  cases hf : s.flatMap escapeChar with
  | nil =>
    rw [hf] at hr
    simpa using hr
  | cons x xs =>
    rw [hf] at hh hr
    have hx : x ≠ '"' := by simpa using hh
    simp only [List.cons_append]
    split
    · rename_i heq; simp only [List.cons.injEq, true_and] at heq; exact absurd heq.1 hx
    · simp only [List.length_cons, List.length_append, List.length_nil]
      have : ¬ (xs.length + 0 + 1 + 1 + 1 < 2) := by omega
      simp only [this, if_false, List.drop_succ_cons, List.drop_zero]
      have ht : List.take (xs.length + 0 + 1 + 1 + 1 - 2) (x :: (xs ++ ['"'])) = x :: xs := by
        have : xs.length + 0 + 1 + 1 + 1 - 2 = (x :: xs).length := by simp
        rw [this, ← List.cons_append, List.take_left']
        rfl
      rw [ht]; exact hr

end Apollo.Strs
