import ApolloModel.Proofs.StringsBlock
/-
The block-form round trip (C09): what `can_be_block_string` guarantees, the raw text that
`serialize_block_string` prints, and BlockStringValue of that text.
-/
namespace Apollo.Strs

/-! ### blank lines and indentation -/

theorem trimStart_isEmpty (l : Str) : (trimStartWs l).isEmpty = isBlankLine l := by
  unfold trimStartWs isBlankLine
  induction l with
  | nil => rfl
  | cons c l ih =>
    simp only [List.dropWhile_cons, List.all_cons]
    cases h : isWs c <;> simp [ih]

theorem countIndent_le (l : Str) : countIndent l ≤ l.length := by
  unfold countIndent
  induction l with
  | nil => simp
  | cons c l ih =>
    simp only [List.takeWhile_cons]
    split <;> simp <;> omega

theorem countIndent_lt_iff (l : Str) : countIndent l < l.length ↔ isBlankLine l = false := by
  unfold countIndent isBlankLine
  induction l with
  | nil => simp
  | cons c l ih =>
    simp only [List.takeWhile_cons, List.all_cons]
    cases h : isWs c
    · simp
    · simp only [if_true, List.length_cons, Bool.true_and]
      rw [← ih]; omega

theorem countIndent_append_ws (I x : Str) (hI : I.all isWs = true) : countIndent (I ++ x) = I.length + countIndent x := by
  unfold countIndent
  induction I with
  | nil => simp
  | cons c I ih =>
    simp only [List.all_cons, Bool.and_eq_true] at hI
    simp only [List.cons_append, List.takeWhile_cons, hI.1, if_true, List.length_cons, ih hI.2]
    omega

theorem countIndent_escapeTriple (l : Str) : countIndent (escapeTriple l) = countIndent l := by
  unfold countIndent; rw [takeWhile_ws_escapeTriple]

theorem isBlank_escapeTriple (l : Str) : isBlankLine (escapeTriple l) = isBlankLine l := all_ws_escapeTriple l

theorem isBlank_append_ws (I x : Str) (hI : I.all isWs = true) : isBlankLine (I ++ x) = isBlankLine x := by
  unfold isBlankLine; simp [List.all_append, hI]

/-! ### `Iterator::min` under a shift -/

theorem foldl_min_add (n : Nat) : ∀ (xs : List Nat) (x : Nat), (xs.map (· + n)).foldl min (x + n) = xs.foldl min x + n := by
  intro xs
  induction xs with
  | nil => intro x; rfl
  | cons y ys ih =>
    intro x
    simp only [List.map_cons, List.foldl_cons]
    have : min (x + n) (y + n) = min x y + n := by omega
    rw [this, ih]

theorem listMin_map_add (n : Nat) (xs : List Nat) : listMin? (xs.map (· + n)) = (listMin? xs).map (· + n) := by
  cases xs with
  | nil => rfl
  | cons x xs => simp [listMin?, foldl_min_add]

/-! ### what `can_be_block_string` guarantees -/

/-- the indentation `can_be_block_string` looks at -/
def indentOfNonBlank (l : Str) : Option Nat := if (trimStartWs l).isEmpty then none else some (countIndent l)

structure BlockOk (s : Str) : Prop where
  noCr : s.contains '\r' = false
  first : ∃ l1 rest, splitNl s = l1 :: rest ∧ isBlankLine l1 = false
  last : ∀ l, (splitNl s).getLast? = some l → isBlankLine l = false
  minZero : listMin? ((splitNl s).filterMap indentOfNonBlank) = some 0

theorem indentOfNonBlank_eq (l : Str) : indentOfNonBlank l = if isBlankLine l = true then none else some (countIndent l) := by
  unfold indentOfNonBlank; rw [trimStart_isEmpty]

theorem minZero_of (l1 : Str) (rest : List Str) (hfirst : isBlankLine l1 = false)
    (h : ((listMin? ((l1 :: rest).filterMap fun l => if isBlankLine l = true then none else some (countIndent l))).getD 0 == 0) = true) :
    listMin? ((l1 :: rest).filterMap indentOfNonBlank) = some 0 := by
  have e : (fun l => if isBlankLine l = true then none else some (countIndent l)) = indentOfNonBlank := by
    funext l; rw [indentOfNonBlank_eq]
  rw [e] at h
  have hne : indentOfNonBlank l1 = some (countIndent l1) := by
    rw [indentOfNonBlank_eq, hfirst]; simp
  have : (l1 :: rest).filterMap indentOfNonBlank = countIndent l1 :: rest.filterMap indentOfNonBlank := by
    simp [List.filterMap_cons, hne]
  rw [this] at h ⊢
  simp only [listMin?, Option.getD_some, beq_iff_eq] at h ⊢
  rw [h]

theorem canBeBlock_spec (s : Str) (h : canBeBlockString s = true) : BlockOk s := by
  unfold canBeBlockString at h
  cases hcr : s.contains '\r' with
  | true => rw [hcr] at h; simp at h
  | false =>
    rw [hcr] at h
    simp only [Bool.false_eq_true, if_false, trimStart_isEmpty] at h
    cases hL : splitNl s with
    | nil => exact absurd hL (by simpa [splitNl] using go_ne_nil s [])
    | cons l1 rest =>
      rw [hL] at h
      simp only [List.head?_cons] at h
      have hfirst : isBlankLine l1 = false := by
        cases hb : isBlankLine l1 with
        | false => rfl
        | true => simp [hb] at h
      simp only [hfirst, Bool.false_or] at h
      cases rest with
      | nil =>
        simp only [Bool.false_eq_true, if_false] at h
        refine ⟨hcr, ⟨l1, [], hL, hfirst⟩, ?_, by rw [hL]; exact minZero_of l1 [] hfirst h⟩
        intro l hl; rw [hL] at hl; simp at hl; rw [← hl]; exact hfirst
      | cons l2 rest2 =>
        simp only at h
        cases hg : (l1 :: l2 :: rest2).getLast? with
        | none => simp at hg
        | some l =>
          simp only [hg] at h
          cases hb : isBlankLine l with
          | true => simp [hb] at h
          | false =>
            simp only [hb, Bool.false_eq_true, if_false] at h
            refine ⟨hcr, ⟨l1, l2 :: rest2, hL, hfirst⟩, ?_, by rw [hL]; exact minZero_of l1 (l2 :: rest2) hfirst h⟩
            intro l' hl'; rw [hL, hg] at hl'; cases hl'; exact hb

/-! ### the raw text printed in the multi-line form -/

/-- one printed line: empty lines stay empty, the others get the indentation and `\"""` escapes -/
def printedLine (I l : Str) : Str := if l.isEmpty then [] else I ++ escapeTriple l

theorem printedLine_noBreak (I l : Str) (hI : I.all isWs = true) (hl : NoBreak l) : NoBreak (printedLine I l) := by
  intro c hc
  unfold printedLine at hc
  split at hc
  · cases hc
  · rcases List.mem_append.mp hc with h | h
    · have : isWs c = true := List.all_eq_true.mp hI c h
      unfold isWs at this
      constructor <;> (intro e; subst e; simp at this)
    · rcases mem_escapeTriple c l h with h | h
      · exact hl c h
      · subst h; constructor <;> decide

theorem ws_noBreak (I : Str) (hI : I.all isWs = true) : NoBreak I := by
  intro c hc
  have : isWs c = true := List.all_eq_true.mp hI c hc
  unfold isWs at this
  constructor <;> (intro e; subst e; simp at this)

theorem drop_printedLine (I l : Str) :
    (printedLine I l).drop (min I.length (printedLine I l).length) = escapeTriple l := by
  unfold printedLine
  cases l with
  | nil => simp [escapeTriple_nil]
  | cons c l =>
    simp only [List.isEmpty_cons, Bool.false_eq_true, if_false, List.length_append]
    rw [Nat.min_eq_left (by omega), List.drop_left]

/-- the indentation seen by BlockStringValue on a printed line -/
theorem indent_printedLine (I l : Str) (hI : I.all isWs = true) :
    (if countIndent (printedLine I l) < (printedLine I l).length then some (countIndent (printedLine I l)) else none) =
      (indentOfNonBlank l).map (· + I.length) := by
  unfold printedLine indentOfNonBlank
  cases l with
  | nil => simp [trimStartWs, countIndent]
  | cons c l =>
    simp only [List.isEmpty_cons, Bool.false_eq_true, if_false, trimStart_isEmpty]
    rw [countIndent_append_ws I _ hI, countIndent_escapeTriple, List.length_append]
    have h1 := countIndent_lt_iff (escapeTriple (c :: l))
    rw [countIndent_escapeTriple, isBlank_escapeTriple] at h1
    cases hb : isBlankLine (c :: l) with
    | false =>
      have := h1.mpr hb
      simp only [Bool.false_eq_true, if_false, Option.map_some]
      rw [if_pos (by omega)]
      congr 1; omega
    | true =>
      have : ¬ countIndent (c :: l) < (escapeTriple (c :: l)).length := by
        intro hh; have := h1.mp hh; rw [hb] at this; cases this
      simp only [if_true, Option.map_none]
      rw [if_neg (by omega)]

theorem filterMap_printed (I : Str) (hI : I.all isWs = true) (L : List Str) :
    ((L.map (printedLine I) ++ [I]).filterMap fun l => if countIndent l < l.length then some (countIndent l) else none) =
      (L.filterMap indentOfNonBlank).map (· + I.length) := by
  rw [List.filterMap_append]
  have hI' : ([I].filterMap fun l => if countIndent l < l.length then some (countIndent l) else none) = [] := by
    have : ¬ countIndent I < I.length := by
      intro h; have := (countIndent_lt_iff I).mp h
      unfold isBlankLine at this; rw [hI] at this; cases this
    simp [this]
  rw [hI', List.append_nil]
  induction L with
  | nil => rfl
  | cons l L ih =>
    simp only [List.map_cons, List.filterMap_cons, indent_printedLine I l hI]
    cases indentOfNonBlank l with
    | none => simpa using ih
    | some v => simp only [Option.map_some, List.map_cons, ih]

/-- BlockStringValue of the multi-line raw text is the original string -/
theorem unescapeBlock_printed (I s : Str) (hI : I.all isWs = true) (ok : BlockOk s) :
    unescapeBlockString ((((splitNl s).map (printedLine I)) ++ [I]).flatMap fun y => '\n' :: y) = s := by
  obtain ⟨l1, rest, hL, hfirst⟩ := ok.first
  have hnb := splitNl_noBreak s ok.noCr
  -- 1. lines
  have hlines : splitLines ((((splitNl s).map (printedLine I)) ++ [I]).flatMap fun y => '\n' :: y) =
      [] :: ((splitNl s).map (printedLine I) ++ [I]) := by
    unfold splitLines
    apply splitLinesAux_flatMap
    intro y hy
    rcases List.mem_append.mp hy with h | h
    · obtain ⟨l, hl, rfl⟩ := List.mem_map.mp h
      exact printedLine_noBreak I l hI (hnb l hl)
    · simp at h; rw [h]; exact ws_noBreak I hI
  -- 2. common indentation = the printed indentation
  have hcommon : commonIndent ([] :: ((splitNl s).map (printedLine I) ++ [I])) = I.length := by
    unfold commonIndent
    simp only [List.drop_succ_cons, List.drop_zero]
    rw [filterMap_printed I hI, listMin_map_add, ok.minZero]
    simp
  -- 3. stripping it gives the escaped lines back
  have hstrip : stripIndent I.length ([] :: ((splitNl s).map (printedLine I) ++ [I])) =
      [] :: ((splitNl s).map escapeTriple ++ [[]]) := by
    simp only [stripIndent, List.map_append, List.map_map, List.map_cons, List.map_nil]
    congr 2
    · apply List.map_congr_left
      intro l _
      exact drop_printedLine I l
    · simp
  simp only [unescapeBlockString, hlines, hcommon, hstrip]
  -- 4. the leading empty line goes, the first real line is not blank
  rw [hL]
  have hblank_nil : isBlankLine ([] : Str) = true := rfl
  have hf : isBlankLine (escapeTriple l1) = false := by rw [isBlank_escapeTriple]; exact hfirst
  simp only [List.map_cons, List.cons_append, List.dropWhile_cons, hblank_nil, if_true, hf, Bool.false_eq_true, if_false]
  rw [formatTruncate_eq _ _ hf]
  -- 5. the trailing empty line goes, the last real line is not blank
  have hdrop : dropTrailingBlank (escapeTriple l1 :: (rest.map escapeTriple ++ [[]])) = (l1 :: rest).map escapeTriple := by
    have e1 : escapeTriple l1 :: (rest.map escapeTriple ++ [[]]) = (l1 :: rest).map escapeTriple ++ [[]] := by simp
    rw [e1, dropTrailingBlank_snoc]
    simp only [hblank_nil, if_true]
    -- split off the last line
    have hne : (l1 :: rest) ≠ [] := by simp
    obtain ⟨init, lastl, hsplit⟩ : ∃ init lastl, l1 :: rest = init ++ [lastl] :=
      ⟨(l1 :: rest).dropLast, (l1 :: rest).getLast hne, (List.dropLast_concat_getLast hne).symm⟩
    have hlast : isBlankLine lastl = false := by
      apply ok.last
      rw [hL, hsplit]; simp
    rw [hsplit, List.map_append, List.map_cons, List.map_nil, dropTrailingBlank_snoc]
    rw [isBlank_escapeTriple, hlast]
    simp
  rw [hdrop, List.map_map]
  have : (replaceEscapedTriple ∘ escapeTriple) = id := by funext x; exact replace_escapeTriple x
  rw [this, List.map_id, ← hL]
  exact joinNl_splitNl s

end Apollo.Strs
