import ApolloModel.Proofs.ParserExactT11
/-
Exact soundness for the type-system family, part 12: `type`, `interface`, `union` definitions in the `DefSound` shape of
ParserExactS14 (the fields `DefExact.object`, `.interface`, `.union`).
-/
set_option linter.unusedSimpArgs false
namespace Apollo.Parse.Exact
open Apollo.Rowan hiding Str
open Apollo.Lex hiding Str

/-! ### separated lists keep the state settled -/

theorem sp_namedTypeT : SP namedType := by
  unfold namedType
  exact sp_bind good_peek (fun _ => good_ite _ _ _ (good_withNode _ _ good_name) (good_pure _)) sp_peek
    (fun _ => sp_ite _ _ _ (se_withNode _ _ se_name.sp).sp (sp_pure _))

theorem good_namedTypeT : Good namedType := by
  unfold namedType
  exact good_bind _ _ good_peek (fun _ => good_ite _ _ _ (good_withNode _ _ good_name) (good_pure _))

theorem good_nameItemT : Good nameItem := by
  unfold nameItem
  exact good_bind _ _ good_peek (fun _ => good_ite _ _ _ good_namedTypeT good_err)

theorem sp_nameItemT : SP nameItem := by
  unfold nameItem
  exact sp_bind good_peek (fun _ => good_ite _ _ _ good_namedTypeT good_err) sp_peek (fun _ => sp_ite _ _ _ sp_namedTypeT se_err.sp)

theorem good_sepListT (sep : Kind) (sk : SK) (run : PI Unit) (gr : Good run) : Good (parseSeparatedList sep sk run) := by
  rw [parseSeparatedList_eq]
  unfold optKind sepRest
  have g2 : Good (run >>= fun _ => peekWhileKind sep (bump sk >>= fun _ => run)) :=
    good_bind _ _ gr (fun _ => good_peekWhileKind _ _ (good_bind _ _ (good_bump _) (fun _ => gr)))
  exact good_bind _ _ good_peek (fun _ => good_ite _ _ _ (good_bind _ _ (good_bump _) (fun _ => g2)) g2)

theorem sp_sepListT (sep : Kind) (sk : SK) (run : PI Unit) (gr : Good run) (hr : SP run) : SP (parseSeparatedList sep sk run) := by
  rw [parseSeparatedList_eq]
  unfold optKind sepRest
  have gb : Good (bump sk >>= fun _ => run) := good_bind _ _ (good_bump _) (fun _ => gr)
  have hb : SP (bump sk >>= fun _ => run) := sp_bind (good_bump _) (fun _ => gr) (se_bump _).sp (fun _ => hr)
  have g2 : Good (run >>= fun _ => peekWhileKind sep (bump sk >>= fun _ => run)) :=
    good_bind _ _ gr (fun _ => good_peekWhileKind _ _ gb)
  have h2 : SP (run >>= fun _ => peekWhileKind sep (bump sk >>= fun _ => run)) :=
    sp_bind gr (fun _ => good_peekWhileKind _ _ gb) hr (fun _ => sp_peekWhileKind _ _ gb hb)
  exact sp_bind good_peek (fun _ => good_ite _ _ _ (good_bind _ _ (good_bump _) (fun _ => g2)) g2) sp_peek
    (fun _ => sp_ite _ _ _ (sp_bind (good_bump _) (fun _ => g2) (se_bump _).sp (fun _ => h2)) h2)

theorem good_implementsInterfacesT : Good implementsInterfaces := by
  rw [implementsInterfaces_eq]
  exact good_withNode _ _ (good_bind _ _ (good_bump _) (fun _ => good_sepListT _ _ _ good_nameItemT))

theorem se_implementsInterfaces : SE implementsInterfaces := by
  rw [implementsInterfaces_eq]
  exact se_withNode _ _ (sp_bind (good_bump _) (fun _ => good_sepListT _ _ _ good_nameItemT) (se_bump _).sp
    (fun _ => sp_sepListT _ _ _ good_nameItemT sp_nameItemT))

theorem good_unionMemberTypesT : Good unionMemberTypes := by
  rw [unionMemberTypes_eq]
  exact good_withNode _ _ (good_bind _ _ (good_bump _) (fun _ => good_sepListT _ _ _ good_nameItemT))

/-! ### the definition shape, the tail knowing that it runs on a lexer queue -/

theorem defShape_soundEL (word : String) (sk : SK) (hw : KwWord word) (n : Nat) (tail : PI Unit) (L : Nat → Option Tok → List Ast.Tok → Prop)
    (gt : Good tail)
    (ht : ∀ s s', TW s → EofEnd s → LexQ (Toks s) → tail.run s = .ok () s' → ¬ Doomed s' → Cons s s' (L (bud s) s'.current))
    (s s' : PState) (w : TW s) (he : EofEnd s) (hq : LexQ (Toks s)) (hs : DefStart word (Toks s))
    (h : (defShape word sk n tail).run s = .ok () s') (hnd : ¬ Doomed s') :
    Cons s s' (fun x => ∃ desc nm x2, x = Ast.tDescription desc ++ .name word.toList :: .name nm :: x2 ∧ L (bud s) s'.current x2) := by
  obtain ⟨s1, h1, h2⟩ := defShape_split word sk n tail s s' h
  have hacc := accL_defEnteredBody word hw sk (nameOrErr >>= fun _ => (pure () : PI Unit)) (fun x => ∃ nm, x = [.name nm])
    ((accL_bind early_false (fun _ h => h) acc_nameOrErr (fun _ => (acc_pure E0 LexQ ()).mono (fun _ h => h) (fun _ _ h => h.2))).mono (fun _ h => h)
      (by rintro _ x ⟨_, x1, x2, e, ⟨nm, h1⟩, h2⟩; exact ⟨nm, by rw [e, h1, h2]; rfl⟩))
  have h1' : (optKind .stringValue description (optKw word sk (nameOrErr >>= fun _ => (pure () : PI Unit)))).run s = .ok () s1 := h1
  have a1 := hacc.1 s () s1 w h1'
  have hnd1 : ¬ Doomed s1 := fun d => hnd ((gt s1 () s' a1.w h2).doom d)
  have c1 := cons_of_acc hacc s s1 () w he ⟨hq, hs⟩ h1' hnd1
  have hq1 : LexQ (Toks s1) := by
    obtain ⟨cs, _, a, _⟩ := c1
    rw [a] at hq; exact hq.suffix
  have c2 := ht s1 s' a1.w c1.eofEnd hq1 h2 hnd
  refine (c1.seq c2).weaken ?_
  rintro z ⟨x, y, rfl, ⟨desc, x2, rfl, nm, rfl⟩, hy⟩
  rw [bud_adv a1] at hy
  exact ⟨desc, nm, y, by simp, hy⟩

theorem defNode_soundL (K : SK) (word : String) (sk : SK) (hw : KwWord word) (n : Nat) (tail : PI Unit) (L : Nat → Option Tok → List Ast.Tok → Prop)
    (gt : Good tail)
    (ht : ∀ s s', TW s → EofEnd s → LexQ (Toks s) → tail.run s = .ok () s' → ¬ Doomed s' → Cons s s' (L (bud s) s'.current))
    (s s' : PState) (w : TW s) (he : EofEnd s) (hq : LexQ (Toks s)) (hs : DStart word.toList (Toks s))
    (h : (withNode K (defShape word sk n tail)).run s = .ok () s') (hnd : ¬ Doomed s') :
    Cons s s' (fun x => ∃ desc nm x2, x = Ast.tDescription desc ++ .name word.toList :: .name nm :: x2 ∧ L (bud s) s'.current x2) := by
  obtain ⟨t, rest, htq, hni⟩ := dStart_sig word _ hs
  obtain ⟨s1, s2, e1, h1, o2⟩ := withNode_peeked _ _ s s' () t rest w htq hni h
  have hnd2 : ¬ Doomed s2 := fun d => hnd (o2.doomed.mpr d)
  have he1 : EofEnd s1 := eofEnd_eat he e1 (by intro x hx; cases hx)
  have h0 : Toks s = Toks s1 := by simpa using e1.toks
  have c := defShape_soundEL word sk hw n tail L gt ht s1 s2 e1.w he1 (by rw [← h0]; exact hq)
    (by rw [← h0]; exact defStart_of_DStart word _ hs) h1 hnd2
  refine (c.transport h0 o2.toks (eofEnd_same _ _ c.eofEnd o2.current o2.lx o2.errors)).weaken ?_
  rintro z ⟨desc, nm, x2, rfl, hl⟩
  rw [bud_eat e1, ← o2.current] at hl
  exact ⟨desc, nm, x2, rfl, hl⟩

/-! ### `implements` -/

theorem optImplTok_split (rest : PI Unit) (s s' : PState) (h : (optImplTok rest).run s = .ok () s') :
    ∃ s1, (optImplTok (pure ())).run s = .ok () s1 ∧ rest.run s1 = .ok () s' := by
  unfold optImplTok at *
  obtain ⟨o, sp, a, b⟩ := bind_dec peekToken _ s s' () h
  cases o with
  | none => exact ⟨sp, bind_intro _ _ s sp none _ a rfl, b⟩
  | some t =>
    simp only [] at b
    by_cases hc : (t.kind == Kind.name && kw "implements" t.data) = true
    · simp only [hc, if_true] at b
      obtain ⟨_, sI, b1, b2⟩ := bind_dec implementsInterfaces _ sp s' () b
      exact ⟨sI, bind_intro _ _ s sp (some t) _ a (by simp only [hc, if_true]; exact bind_intro _ _ sp sI () _ b1 rfl), b2⟩
    · simp only [hc, Bool.false_eq_true, if_false] at b
      exact ⟨sp, bind_intro _ _ s sp (some t) _ a (by simp only [hc, Bool.false_eq_true, if_false]; rfl), b⟩

theorem optData2_split (word : String) (m rest : PI Unit) (s s' : PState) (h : (optData2 word m rest rest).run s = .ok () s') :
    ∃ s1, (optData2 word m (pure ()) (pure ())).run s = .ok () s1 ∧ rest.run s1 = .ok () s' := by
  unfold optData2 at *
  obtain ⟨d, sp, a, b⟩ := bind_dec peekData _ s s' () h
  by_cases hc : kwOpt word d = true
  · simp only [hc, if_true] at b
    obtain ⟨_, sI, b1, b2⟩ := bind_dec m _ sp s' () b
    exact ⟨sI, bind_intro _ _ s sp d _ a (by simp only [hc, if_true]; exact bind_intro _ _ sp sI () _ b1 rfl), b2⟩
  · simp only [hc, Bool.false_eq_true, if_false] at b
    exact ⟨sp, bind_intro _ _ s sp d _ a (by simp only [hc, Bool.false_eq_true, if_false]; rfl), b⟩

/-- what follows the name of an object / interface definition -/
def ObjTailR (b : Nat) (cur : Option Tok) (x : List Ast.Tok) : Prop :=
  ∃ impl ds x2, x = tSepOpt [.name Ast.sImplements] .amp impl ++ (Ast.tDirectives ds ++ x2) ∧ dirsFit true b ds ∧
    (LFields b x2 ∨ (x2 = [] ∧ ∀ t, cur = some t → t.kind ≠ .lCurly))

theorem fieldsTail_sound (n : Nat) (s s' : PState) (w : TW s) (he : EofEnd s)
    (h : (dirsBody n .lCurly (fieldsDefinition n)).run s = .ok () s') (hnd : ¬ Doomed s') :
    Cons s s' (fun x => ∃ ds x2, x = Ast.tDirectives ds ++ x2 ∧ dirsFit true (bud s) ds ∧
      (LFields (bud s) x2 ∨ (x2 = [] ∧ ∀ t, s'.current = some t → t.kind ≠ .lCurly))) :=
  dirsBody_sound n _ LFields (acc_fieldsDefinition n).1
    (fun q1 q2 t rest w1 he1 ht hk h1 hnd1 => fieldsDefinition_sound n q1 q2 t rest w1 he1 ht hk h1 hnd1) s s' w he h hnd

theorem good_fieldsTail (n : Nat) : Good (dirsBody n .lCurly (fieldsDefinition n)) := good_dirsBody n _ (acc_fieldsDefinition n).1

theorem sp_fieldsTail (n : Nat) : SP (dirsBody n .lCurly (fieldsDefinition n)) :=
  sp_dirsBody n .lCurly _ (acc_fieldsDefinition n).1 (se_fieldsDefinition n).sp

/-- the common end of both: an `implements`-prefix consumed budget-free, then the fields tail -/
theorem objTail_of_split (n : Nat) (pre : PI Unit) (hacc : Acc E0 LexQ pre (fun _ => implR (fun x => x = [])))
    (s s1 s' : PState) (w : TW s) (he : EofEnd s) (hl : LexQ (Toks s)) (hp : pre.run s = .ok () s1)
    (ht : (dirsBody n .lCurly (fieldsDefinition n)).run s1 = .ok () s') (hnd : ¬ Doomed s') :
    Cons s s' (ObjTailR (bud s) s'.current) := by
  have a1 := hacc.1 s () s1 w hp
  have hnd1 : ¬ Doomed s1 := fun d => hnd ((good_fieldsTail n s1 () s' a1.w ht).doom d)
  have c1 := cons_of_acc hacc s s1 () w he hl hp hnd1
  have c2 := fieldsTail_sound n s1 s' a1.w c1.eofEnd ht hnd
  refine (c1.seq c2).weaken ?_
  rintro z ⟨x, y, rfl, ⟨impl, x2, rfl, rfl⟩, ds, x3, rfl, hds, hor⟩
  rw [bud_adv a1] at hds hor
  exact ⟨impl, ds, x3, by simp, hds, hor⟩

theorem acc_pureL : Acc E0 LexQ (pure () : PI Unit) (fun _ x => x = []) :=
  (acc_pure E0 LexQ ()).mono (fun _ h => h) (fun _ _ h => h.2)

theorem objTail_sound (n : Nat) (s s' : PState) (w : TW s) (he : EofEnd s) (hl : LexQ (Toks s))
    (h : (optImplTok (dirsBody n .lCurly (fieldsDefinition n))).run s = .ok () s') (hnd : ¬ Doomed s') :
    Cons s s' (ObjTailR (bud s) s'.current) := by
  obtain ⟨s1, hp, ht⟩ := optImplTok_split _ s s' h
  exact objTail_of_split n _ (accL_optImplTok _ _ acc_pureL) s s1 s' w he hl hp ht hnd

theorem ifaceTail_sound (n : Nat) (s s' : PState) (w : TW s) (he : EofEnd s) (hl : LexQ (Toks s))
    (h : (optData2 "implements" implementsInterfaces (dirsBody n .lCurly (fieldsDefinition n)) (dirsBody n .lCurly (fieldsDefinition n))).run s = .ok () s')
    (hnd : ¬ Doomed s') : Cons s s' (ObjTailR (bud s) s'.current) := by
  obtain ⟨s1, hp, ht⟩ := optData2_split _ _ _ s s' h
  exact objTail_of_split n _ (accL_optImplData _ _ _ acc_pureL acc_pureL) s s1 s' w he hl hp ht hnd

theorem good_objTail (n : Nat) : Good (optImplTok (dirsBody n .lCurly (fieldsDefinition n))) := by
  unfold optImplTok
  refine good_bind _ _ good_peekToken (fun o => ?_)
  cases o with
  | none => exact good_fieldsTail n
  | some t => exact good_ite _ _ _ (good_bind _ _ good_implementsInterfacesT (fun _ => good_fieldsTail n)) (good_fieldsTail n)

theorem sp_objTail (n : Nat) : SP (optImplTok (dirsBody n .lCurly (fieldsDefinition n))) := by
  unfold optImplTok
  refine sp_bind good_peekToken ?_ sp_peekToken (fun o => ?_)
  · intro o
    cases o with
    | none => exact good_fieldsTail n
    | some t => exact good_ite _ _ _ (good_bind _ _ good_implementsInterfacesT (fun _ => good_fieldsTail n)) (good_fieldsTail n)
  · cases o with
    | none => exact sp_fieldsTail n
    | some t => exact sp_ite _ _ _ (sp_bind good_implementsInterfacesT (fun _ => good_fieldsTail n) se_implementsInterfaces.sp (fun _ => sp_fieldsTail n)) (sp_fieldsTail n)

theorem good_ifaceTail (n : Nat) :
    Good (optData2 "implements" implementsInterfaces (dirsBody n .lCurly (fieldsDefinition n)) (dirsBody n .lCurly (fieldsDefinition n))) := by
  unfold optData2
  exact good_bind _ _ good_peekData (fun _ => good_ite _ _ _ (good_bind _ _ good_implementsInterfacesT (fun _ => good_fieldsTail n)) (good_fieldsTail n))

theorem sp_ifaceTail (n : Nat) :
    SP (optData2 "implements" implementsInterfaces (dirsBody n .lCurly (fieldsDefinition n)) (dirsBody n .lCurly (fieldsDefinition n))) := by
  unfold optData2
  exact sp_bind good_peekData (fun _ => good_ite _ _ _ (good_bind _ _ good_implementsInterfacesT (fun _ => good_fieldsTail n)) (good_fieldsTail n)) sp_peekData
    (fun _ => sp_ite _ _ _ (sp_bind good_implementsInterfacesT (fun _ => good_fieldsTail n) se_implementsInterfaces.sp (fun _ => sp_fieldsTail n)) (sp_fieldsTail n))

/-- **object type definition**, exact -/
theorem objectDef_sound (n : Nat) : DefSound (DStart "type".toList) (objectTypeDefinition n) := by
  refine defSound_of_loose _ _ ?_
  intro s s' w he hq hs hr hnd
  rw [objectTypeDefinition_eq] at hr
  have hset := defNode_settled "OBJECT_TYPE_DEFINITION" "type" "type_KW" n _ (good_objTail n) (sp_objTail n) s s' w hr hnd
  have c := defNode_soundL "OBJECT_TYPE_DEFINITION" "type" "type_KW" kwWord_type n _ ObjTailR (good_objTail n)
    (fun q q' wq heq hlq hrq hndq => objTail_sound n q q' wq heq hlq hrq hndq) s s' w he hq hs hr hnd
  obtain ⟨cs, x, a, b, e, d, desc, nm, x2, rfl, impl, ds, x3, rfl, hds, hor⟩ := c
  rcases hor with ⟨fs, hne, rfl, hfs⟩ | ⟨rfl, hcur⟩
  · refine ⟨cs, .object desc nm impl ds fs, a, b, e, ?_, ⟨hds, hfs⟩, hset, ?_⟩
    · simpa [LooseDef.toks, objectLikeToks, kwPart, List.append_assoc] using d
    · intro ho; exact absurd ho hne
  · refine ⟨cs, .object desc nm impl ds [], a, b, e, ?_, ⟨hds, by intro v hv; cases hv⟩, hset, fun _ => hcur⟩
    simpa [LooseDef.toks, objectLikeToks, kwPart, Ast.tBraced, List.append_assoc] using d

/-- **interface type definition**, exact -/
theorem interfaceDef_sound (n : Nat) : DefSound (DStart "interface".toList) (interfaceTypeDefinition n) := by
  refine defSound_of_loose _ _ ?_
  intro s s' w he hq hs hr hnd
  rw [interfaceTypeDefinition_eq] at hr
  have hset := defNode_settled "INTERFACE_TYPE_DEFINITION" "interface" "interface_KW" n _ (good_ifaceTail n) (sp_ifaceTail n) s s' w hr hnd
  have c := defNode_soundL "INTERFACE_TYPE_DEFINITION" "interface" "interface_KW" kwWord_interface n _ ObjTailR (good_ifaceTail n)
    (fun q q' wq heq hlq hrq hndq => ifaceTail_sound n q q' wq heq hlq hrq hndq) s s' w he hq hs hr hnd
  obtain ⟨cs, x, a, b, e, d, desc, nm, x2, rfl, impl, ds, x3, rfl, hds, hor⟩ := c
  rcases hor with ⟨fs, hne, rfl, hfs⟩ | ⟨rfl, hcur⟩
  · refine ⟨cs, .interface desc nm impl ds fs, a, b, e, ?_, ⟨hds, hfs⟩, hset, ?_⟩
    · simpa [LooseDef.toks, objectLikeToks, kwPart, List.append_assoc] using d
    · intro ho; exact absurd ho hne
  · refine ⟨cs, .interface desc nm impl ds [], a, b, e, ?_, ⟨hds, by intro v hv; cases hv⟩, hset, fun _ => hcur⟩
    simpa [LooseDef.toks, objectLikeToks, kwPart, Ast.tBraced, List.append_assoc] using d

/-! ### union -/

theorem unionTail_sound (n : Nat) (s s' : PState) (w : TW s) (he : EofEnd s)
    (h : (dirsBody n .eq unionMemberTypes).run s = .ok () s') (hnd : ¬ Doomed s') :
    Cons s s' (fun x => ∃ ds ms, x = Ast.tDirectives ds ++ tSepOpt [.p .eq] .pipe ms ∧ dirsFit true (bud s) ds) := by
  unfold dirsBody optKind at h
  obtain ⟨s1, h1, h2⟩ := optThen_dec .at (directives n true) (optBodyK .eq unionMemberTypes) s s' h
  have hacc := acc_optBodyK (E := E0) (H := fun _ => True) .eq unionMemberTypes _ (acc_unionMemberTypes early_false)
  have a1 := good_optDirsEnd n s () s1 w h1
  have hnd1 : ¬ Doomed s1 := fun d => hnd ((hacc.1 s1 () s' a1.w h2).doom d)
  have c1 := optDirsEnd_sound n s s1 w he h1 hnd1
  have c2 := cons_of_acc hacc s1 s' () a1.w c1.eofEnd trivial h2 hnd
  refine (c1.seq c2).weaken ?_
  rintro z ⟨x, y, rfl, ⟨ds, rfl, hds⟩, hy⟩
  rcases hy with ⟨lead, first, rest, rfl⟩ | rfl
  · exact ⟨ds, some (lead, first, rest), by simp [tSepOpt], hds⟩
  · exact ⟨ds, none, by simp [tSepOpt], hds⟩

/-- **union type definition**, exact -/
theorem unionDef_sound (n : Nat) : DefSound (DStart "union".toList) (unionTypeDefinition n) := by
  intro s s' w he hq hr hnd
  rw [unionTypeDefinition_eq] at hr
  have gt : Good (dirsBody n .eq unionMemberTypes) := by
    unfold dirsBody optKind optBodyK
    have g2 : Good (peek >>= fun k => if k == some Kind.eq then unionMemberTypes else pure ()) :=
      good_bind _ _ good_peek (fun _ => good_ite _ _ _ good_unionMemberTypesT (good_pure _))
    exact good_bind _ _ good_peek (fun _ => good_ite _ _ _ (good_bind _ _ (good_directives n true) (fun _ => g2)) g2)
  have c := defNode_sound "UNION_TYPE_DEFINITION" "union" "union_KW" kwWord_union n (dirsBody n .eq unionMemberTypes)
    (fun b _ x => ∃ ds ms, x = Ast.tDirectives ds ++ tSepOpt [.p .eq] .pipe ms ∧ dirsFit true b ds) gt
    (fun q q' wq heq hrq hndq => unionTail_sound n q q' wq heq hrq hndq) s s' w he hq.1 hq.2 hr hnd
  obtain ⟨cs, x, a, b, e, d, desc, nm, x2, rfl, ds, ms, rfl, hds⟩ := c
  exact ⟨cs, .loose (.union desc nm ds ms), a, b, e, by simpa [DocItem.toks, LooseDef.toks, unionToks, kwPart, List.append_assoc] using d, hds,
    fun q _ ho => ho.elim⟩

end Apollo.Parse.Exact
