import ApolloModel.Proofs.ParserRecursion24
/-
C04 growth, part 25: what can follow the first limit error in the error list.  `push_err` drops every error once
`accept_errors` is false, but `next_token` pushes what the lexer reports unconditionally: after the first limit
error (token or recursion limit) the only errors that can still be appended are lexer errors and the token-limit
error — never a syntax error.  Invariant `AL`, kept by every grammar function (generic pass of parts 21–23).
-/
set_option linter.unusedSimpArgs false
set_option linter.unusedVariables false
namespace Apollo.Parse
open Apollo.Rowan hiding Str
open Apollo.Lex hiding Str

/-- `es` is free of limit errors, or it is `pre ++ limit error :: extra` with `pre` free of limit errors and
    `extra` made of lexer errors and limit errors only -/
def AfterLimit (es : List PErr) : Prop :=
  ∃ pre i extra, es = pre ++ (⟨i, 0, .limit⟩ : PErr) :: extra ∧ ¬ HasLim pre ∧ ∀ e ∈ extra, e.kind = .lexer ∨ e.kind = .limit

structure AL (s : PState) : Prop where
  acc : s.acceptErrors = true → ¬ HasLim s.errors
  rej : s.acceptErrors = false → AfterLimit s.errors

theorem afterLimit_snoc {es : List PErr} (h : AfterLimit es) (e : PErr) (he : e.kind = .lexer ∨ e.kind = .limit) :
    AfterLimit (es ++ [e]) := by
  obtain ⟨pre, i, extra, rfl, h1, h2⟩ := h
  refine ⟨pre, i, extra ++ [e], by simp, h1, ?_⟩
  intro x hx
  rcases List.mem_append.mp hx with hx | hx
  · exact h2 x hx
  · simp at hx; subst hx; exact he

theorem al_next : ∀ (fuel : Nat) (s : PState), AL s → AL (nextTokenRaw fuel s).2
  | 0, s, h => by simpa [nextTokenRaw] using h
  | fuel + 1, s, h => by
    unfold nextTokenRaw
    cases hl : lexNext s.lx with
    | mk o l' =>
      cases o with
      | none => exact ⟨h.acc, h.rej⟩
      | some out =>
        cases out with
        | tok t => exact ⟨h.acc, h.rej⟩
        | err d i =>
          simp only []
          refine al_next fuel _ ⟨fun x => ?_, fun x => afterLimit_snoc (h.rej x) _ (Or.inl rfl)⟩
          intro hl2
          rcases (hasLim_append _ _).mp hl2 with y | y
          · exact h.acc x y
          · have := (hasLim_single _).mp y
            cases this
        | limit i =>
          simp only []
          refine al_next fuel _ ⟨fun x => (by cases x), fun _ => ?_⟩
          by_cases ha : s.acceptErrors = true
          · exact ⟨s.errors, i, [], rfl, h.acc ha, fun e he => by cases he⟩
          · exact afterLimit_snoc (h.rej (by simpa using ha)) _ (Or.inr rfl)

instance instStInvAL : StInv AL where
  cong := by
    intro s s' _ e2 e3 _ _ h
    exact ⟨by rw [e2, e3]; exact h.acc, by rw [e2, e3]; exact h.rej⟩
  next := al_next
  err := by
    intro s e he ha h
    refine ⟨fun _ hl => ?_, fun x => by rw [ha] at x; cases x⟩
    rcases (hasLim_append _ _).mp hl with y | y
    · exact h.acc ha y
    · exact he ((hasLim_single _).mp y)
  high := by
    intro s _ _ h
    exact ⟨h.acc, h.rej⟩
  limit := by
    intro s i _ h
    refine ⟨fun x => (by cases x), fun _ => ?_⟩
    show AfterLimit (if s.acceptErrors then s.errors ++ [⟨i, 0, .limit⟩] else s.errors)
    by_cases ha : s.acceptErrors = true
    · simp only [ha, if_true]
      exact ⟨s.errors, i, [], rfl, h.acc ha, fun e he => by cases he⟩
    · have ha' : s.acceptErrors = false := by simpa using ha
      simp only [ha', Bool.false_eq_true, if_false]
      exact h.rej ha'

/-- **every parse, every entry point, every pair of limits**: the error list is free of limit errors, or the
    first limit error is followed by lexer errors and limit errors only (never by a syntax error). -/
theorem parse_errors_after_limit (e : Entry) (tl : Option Nat) (r : Nat) (src : Str) :
    ¬ HasLim (parse e tl r src).errors ∨ AfterLimit (parse e tl r src).errors := by
  obtain ⟨s, hr, h1, _⟩ := parse_run e tl r src
  have h0 : AL (entryStartT e src tl r) := by
    have he : (entryStartT e src tl r).errors = [] := by cases e <;> rfl
    have ha : (entryStartT e src tl r).acceptErrors = true := by cases e <;> rfl
    exact ⟨fun _ => (by rw [he]; rintro ⟨x, hx, _⟩; cases hx), fun x => (by rw [ha] at x; cases x)⟩
  have h := (kp_entry e (fuelFor src)).k _ () s h0 hr
  rw [h1]
  by_cases ha : s.acceptErrors = true
  · exact Or.inl (h.acc ha)
  · exact Or.inr (h.rej (by simpa using ha))

end Apollo.Parse
