import ApolloModel.Spec.IntrospectionFull
/-
C24: the model of every resolver of introspection/resolvers.rs agrees, field by field, with the
transcription of specification §4.2 — and therefore so do whole responses.
-/
set_option linter.unusedSimpArgs false
set_option linter.unusedVariables false
namespace Apollo.Introspection
open Apollo Apollo.Exec Apollo.Spec Apollo.Spec.Introspection

/-- which object of the specification a resolver object of the code stands for -/
def toSpec : IObj → SObj
  | .root => .root
  | .schema => .schema
  | .typeDef d => .type (.named d.name)
  | .typeRef t => .type (embed t)
  | .directive d => .directive d
  | .field d => .field d
  | .enumValue d => .enumValue d
  | .inputValue d => .inputValue d

section Map
variable {ι κ : Type}
mutual
def mapRV (h : ι → κ) : RVg ι → RVg κ
  | .leaf j => .leaf j
  | .error => .error
  | .list xs => .list (mapRVs h xs)
  | .object ty o => .object ty (h o)
  | .skip => .skip
def mapRVs (h : ι → κ) : List (RVg ι) → List (RVg κ)
  | [] => []
  | x :: xs => mapRV h x :: mapRVs h xs
end

theorem mapRVs_eq_map (h : ι → κ) (xs : List (RVg ι)) : mapRVs h xs = xs.map (mapRV h) := by
  induction xs with
  | nil => simp [mapRVs]
  | cons x xs ih => simp [mapRVs, ih]

mutual
/-- every resolver object inside a resolved value satisfies `P` -/
def AllObj (P : ι → Prop) : RVg ι → Prop
  | .list xs => AllObjs P xs
  | .object _ o => P o
  | _ => True
def AllObjs (P : ι → Prop) : List (RVg ι) → Prop
  | [] => True
  | x :: xs => AllObj P x ∧ AllObjs P xs
end

theorem allObjs_iff (P : ι → Prop) (xs : List (RVg ι)) : AllObjs P xs ↔ ∀ x ∈ xs, AllObj P x := by
  induction xs with
  | nil => simp [AllObjs]
  | cons x xs ih => simp [AllObjs, ih]
end Map

/-! ### well-formedness of the schema and of the resolver objects -/

/-- `schema.types` is a map: no two definitions have the same name (decidable) -/
def typeNamesDistinct (s : ISchema) : Bool := decide ((s.types.map (·.name)).Pairwise (· ≠ ·))

/-- the schema's `@deprecated` is the built-in one, `reason: String = "No longer supported"` (decidable) -/
def deprecatedIsBuiltin (s : ISchema) : Bool :=
  match s.directives.find? (·.name == "deprecated") with
  | some d =>
    (match d.args.find? (·.name == "reason") with
     | some a => (match a.default with | some (.str r) => r == "No longer supported" | _ => false)
     | none => false)
  | none => false

theorem typeDef_of_mem : ∀ (ts : List ITypeDef), (ts.map (·.name)).Pairwise (· ≠ ·) → ∀ d ∈ ts,
    ts.find? (·.name == d.name) = some d
  | [], _, d, h => by simp at h
  | t :: ts, hp, d, h => by
    simp only [List.map_cons, List.pairwise_cons] at hp
    rcases List.mem_cons.mp h with rfl | h
    · simp
    · have hne : t.name ≠ d.name := hp.1 d.name (List.mem_map.mpr ⟨d, h, rfl⟩)
      simp only [List.find?_cons]
      have : (t.name == d.name) = false := by simpa using hne
      rw [this]
      exact typeDef_of_mem ts hp.2 d h

theorem typeDef?_of_mem (s : ISchema) (hu : typeNamesDistinct s = true) (d : ITypeDef) (h : d ∈ s.types) :
    s.typeDef? d.name = some d :=
  typeDef_of_mem s.types (by simpa [typeNamesDistinct] using hu) d h

theorem typeDef?_name (s : ISchema) (n : String) (d : ITypeDef) (h : s.typeDef? n = some d) :
    d.name = n ∧ s.typeDef? d.name = some d := by
  have h1 := List.find?_some h
  have hn : d.name = n := by simpa using h1
  exact ⟨hn, by rw [hn]; exact h⟩

theorem deprecatedReason_builtin (s : ISchema) (h : deprecatedIsBuiltin s = true) :
    deprecatedDefaultReason s = .str "No longer supported" := by
  unfold deprecatedIsBuiltin at h
  unfold deprecatedDefaultReason
  split at h
  · rename_i d hd
    rw [hd]
    simp only []
    split at h
    · rename_i a ha
      rw [ha]
      simp only []
      split at h
      · rename_i r hr
        rw [hr]
        simp only []
        have : r = "No longer supported" := by simpa using h
        rw [this]
      · cases h
    · cases h
  · cases h

/-- a resolver object the executor can meet: a `TypeDefResolver` holds a definition of the schema, a
    `TypeResolver` holds a wrapping type (`Type::Named(_) => unreachable!()`) -/
def ObjOk (s : ISchema) : IObj → Prop
  | .typeDef d => s.typeDef? d.name = some d
  | .typeRef (.named _) => False
  | _ => True

/-! ### the pieces -/

/-- the literal as written: what the code answers for `defaultValue` -/
def asWritten (_ : ISchema) (v : IInputValue) : Option String := v.default.map printValue

theorem inclArg_eq (args : AList Json) : inclArg args = includesDeprecated args := by
  unfold inclArg includesDeprecated
  cases h : AList.get? args "includeDeprecated" with
  | none => simp [includeDeprecated]
  | some j => cases j <;> simp [includeDeprecated] <;> rename_i b <;> cases b <;> rfl

theorem filter_dep {α : Type} (dep : α → Deprecation) (b : Bool) (xs : List α) :
    (xs.filter fun x => b || (dep x).isNone) = xs.filter fun x => b || !isDeprecated (dep x) := by
  apply List.filter_congr
  intro x _
  cases h : dep x <;> simp [isDeprecated, h]

theorem optStr_eq (o : Option String) : optStr o = str? o := by cases o <;> rfl

theorem map_typeDefRV (s : ISchema) (n : String) : mapRV toSpec (typeDefRV s n) = typeValue s (.named n) := by
  unfold typeDefRV typeValue
  cases h : s.typeDef? n with
  | none => simp [mapRV, h]
  | some d => simp [mapRV, toSpec, h, (typeDef?_name s n d h).1]

theorem ok_typeDefRV (s : ISchema) (n : String) : AllObj (ObjOk s) (typeDefRV s n) := by
  unfold typeDefRV
  cases h : s.typeDef? n with
  | none => simp [AllObj]
  | some d => simp only [AllObj, ObjOk]; exact (typeDef?_name s n d h).2

theorem map_tyRV (s : ISchema) (t : Ty) : mapRV toSpec (tyRV s t) = typeValue s (embed t) := by
  cases t with
  | named n => simp only [tyRV, embed]; exact map_typeDefRV s n
  | nonNullNamed n => simp [tyRV, embed, typeValue, mapRV, toSpec]
  | list t => simp [tyRV, embed, typeValue, mapRV, toSpec]
  | nonNullList t => simp [tyRV, embed, typeValue, mapRV, toSpec]

theorem ok_tyRV (s : ISchema) (t : Ty) : AllObj (ObjOk s) (tyRV s t) := by
  cases t with
  | named n => simp only [tyRV]; exact ok_typeDefRV s n
  | nonNullNamed n => simp [tyRV, AllObj, ObjOk]
  | list t => simp [tyRV, AllObj, ObjOk]
  | nonNullList t => simp [tyRV, AllObj, ObjOk]

theorem map_typesRV (s : ISchema) (names : List String) : mapRV toSpec (typesRV s names) = typeValues s names := by
  unfold typesRV typeValues
  simp only [mapRV, mapRVs_eq_map]
  congr 1
  induction names with
  | nil => rfl
  | cons n ns ih =>
    cases h : s.typeDef? n with
    | none => simp [List.filterMap_cons, h, ih]
    | some d => simp [List.filterMap_cons, h, ih, mapRV, toSpec, (typeDef?_name s n d h).1]

theorem ok_typesRV (s : ISchema) (names : List String) : AllObj (ObjOk s) (typesRV s names) := by
  unfold typesRV
  simp only [AllObj, allObjs_iff]
  intro x hx
  obtain ⟨n, _, hn⟩ := List.mem_filterMap.mp hx
  cases h : s.typeDef? n with
  | none => simp [h] at hn
  | some d =>
    simp [h] at hn
    subst hn
    simp only [AllObj, ObjOk]
    exact (typeDef?_name s n d h).2

theorem map_inputValuesRV (args : AList Json) (vs : List IInputValue) :
    mapRV toSpec (inputValuesRV (inclArg args) vs) = inputValueList args vs := by
  unfold inputValuesRV inputValueList listed
  rw [inclArg_eq, filter_dep]
  simp [mapRV, mapRVs_eq_map, toSpec, Function.comp_def]

theorem map_inputValuesRV' (args : AList Json) (vs : List IInputValue) :
    mapRV toSpec (inputValuesRV (includesDeprecated args) vs) = inputValueList args vs := by
  rw [← inclArg_eq]; exact map_inputValuesRV args vs

theorem ok_inputValuesRV (s : ISchema) (b : Bool) (vs : List IInputValue) : AllObj (ObjOk s) (inputValuesRV b vs) := by
  unfold inputValuesRV
  simp only [AllObj, allObjs_iff]
  intro x hx
  obtain ⟨v, _, rfl⟩ := List.mem_map.mp hx
  simp [AllObj, ObjOk]

theorem reason_eq (s : ISchema) (hd : deprecatedIsBuiltin s = true) (d : Deprecation) :
    deprecationReason s d = reasonOf d := by
  cases d with
  | none => rfl
  | some r => cases r with
    | none => simp [deprecationReason, reasonOf, deprecatedReason_builtin s hd]
    | some r => rfl

theorem implementers_eq (s : ISchema) (iface : String) : implementerObjectsOf s iface = implementingObjects s iface := by
  unfold implementerObjectsOf implementingObjects
  induction s.types with
  | nil => rfl
  | cons t ts ih =>
    simp only [List.filterMap_cons, List.filter_cons]
    cases hk : t.kind with
    | object is fs =>
      simp only [hk]
      by_cases hc : is.contains iface = true
      · simp only [hc, if_true, List.map_cons]; rw [ih]
      · simp only [hc, Bool.false_eq_true, if_false]; exact ih
    | scalar u => simp only [hk, Bool.false_eq_true, if_false]; exact ih
    | interface a b => simp only [hk, Bool.false_eq_true, if_false]; exact ih
    | union a => simp only [hk, Bool.false_eq_true, if_false]; exact ih
    | enum a => simp only [hk, Bool.false_eq_true, if_false]; exact ih
    | inputObject a => simp only [hk, Bool.false_eq_true, if_false]; exact ih

theorem map_typeDefOptRV (s : ISchema) (o : Option String) :
    mapRV toSpec (typeDefOptRV s o) = orNull (o.map fun n => typeValue s (.named n)) := by
  cases o with
  | none => simp [typeDefOptRV, orNull, mapRV]
  | some n => simp [typeDefOptRV, orNull, map_typeDefRV]

/-! ### field by field -/

/-- finishing tactic of the case analyses on the field name -/
macro "fields_done" : tactic => `(tactic| all_goals simp_all [mapRV, mapRVs_eq_map, toSpec, optStr_eq, Function.comp_def, map_typeDefRV,
  map_typeDefOptRV, map_tyRV, map_typesRV, map_inputValuesRV, map_inputValuesRV', inclArg_eq, reason_eq, implementers_eq, orNull, asWritten, listed,
  filter_dep, isDeprecated, kindText, kindName, fieldsOfKind, interfacesOfKind, possibleTypesOf, enumValuesOfKind, inputFieldsOfKind,
  specifiedByOfKind, wrappingTypeField, namedTypeField, typeFieldNames, typeValue, embed, str?])

theorem root_spec (s : ISchema) (f : String) (args : AList Json) :
    (resolveI s .root f args).map (mapRV toSpec) = specField asWritten s .root f args := by
  simp only [resolveI, specField]
  split
  · simp [mapRV, toSpec]
  · split
    · split <;> simp_all [map_typeDefRV]
    · simp [mapRV]

theorem schema_spec (s : ISchema) (f : String) (args : AList Json) :
    (resolveI s .schema f args).map (mapRV toSpec) = specField asWritten s .schema f args := by
  simp only [resolveI, specField]
  repeat' split
  fields_done

theorem typeDef_spec (s : ISchema) (d : ITypeDef) (hd : s.typeDef? d.name = some d) (f : String) (args : AList Json) :
    (resolveI s (.typeDef d) f args).map (mapRV toSpec) = specField asWritten s (.type (.named d.name)) f args := by
  simp only [resolveI, specField, hd, namedTypeField]
  repeat' split
  fields_done
  all_goals (cases d.kind <;> rfl)

theorem typeRef_spec (s : ISchema) (t : Ty) (ht : ∀ n, t ≠ .named n) (f : String) (args : AList Json) :
    (resolveI s (.typeRef t) f args).map (mapRV toSpec) = specField asWritten s (.type (embed t)) f args := by
  cases t with
  | named n => exact absurd rfl (ht n)
  | nonNullNamed n =>
    simp only [resolveI, specField, embed, wrappingTypeField]
    repeat' split
    fields_done
  | list t =>
    simp only [resolveI, specField, embed, wrappingTypeField]
    repeat' split
    fields_done
  | nonNullList t =>
    simp only [resolveI, specField, embed, wrappingTypeField]
    repeat' split
    fields_done

theorem directive_spec (s : ISchema) (d : IDirective) (f : String) (args : AList Json) :
    (resolveI s (.directive d) f args).map (mapRV toSpec) = specField asWritten s (.directive d) f args := by
  simp only [resolveI, specField]
  repeat' split
  fields_done

theorem field_spec (s : ISchema) (hdep : deprecatedIsBuiltin s = true) (d : IField) (f : String) (args : AList Json) :
    (resolveI s (.field d) f args).map (mapRV toSpec) = specField asWritten s (.field d) f args := by
  simp only [resolveI, specField]
  repeat' split
  fields_done

theorem enumValue_spec (s : ISchema) (hdep : deprecatedIsBuiltin s = true) (d : IEnumValue) (f : String) (args : AList Json) :
    (resolveI s (.enumValue d) f args).map (mapRV toSpec) = specField asWritten s (.enumValue d) f args := by
  simp only [resolveI, specField]
  repeat' split
  fields_done

theorem inputValue_spec (s : ISchema) (hdep : deprecatedIsBuiltin s = true) (d : IInputValue) (f : String) (args : AList Json) :
    (resolveI s (.inputValue d) f args).map (mapRV toSpec) = specField asWritten s (.inputValue d) f args := by
  simp only [resolveI, specField]
  repeat' split
  fields_done

/-- THE CODE'S RESOLVERS ARE THE SPECIFICATION'S FIELDS: for every schema whose `@deprecated` is the
    built-in directive, every resolver object the executor can meet, every field name and all coerced
    arguments, what `resolve_field` answers is — read through `toSpec` — what §4.2 says that field is;
    `defaultValue` with the reading "the literal as written". -/
theorem resolve_spec (s : ISchema) (hdep : deprecatedIsBuiltin s = true) (o : IObj) (ho : ObjOk s o) (f : String)
    (args : AList Json) :
    (resolveI s o f args).map (mapRV toSpec) = specField asWritten s (toSpec o) f args := by
  cases o with
  | root => exact root_spec s f args
  | schema => exact schema_spec s f args
  | typeDef d => exact typeDef_spec s d ho f args
  | typeRef t =>
    refine typeRef_spec s t ?_ f args
    intro n hn; subst hn; exact ho
  | directive d => exact directive_spec s d f args
  | field d => exact field_spec s hdep d f args
  | enumValue d => exact enumValue_spec s hdep d f args
  | inputValue d => exact inputValue_spec s hdep d f args

/-- … and every resolver object it hands out is again one the executor can meet -/
theorem ok_typeDefOptRV (s : ISchema) (o : Option String) : AllObj (ObjOk s) (typeDefOptRV s o) := by
  cases o with
  | none => simp [typeDefOptRV, AllObj]
  | some n => simp only [typeDefOptRV]; exact ok_typeDefRV s n

theorem resolve_ok (s : ISchema) (hu : typeNamesDistinct s = true) (o : IObj) (f : String) (args : AList Json) (rv : IRV)
    (h : resolveI s o f args = some rv) : AllObj (ObjOk s) rv := by
  cases o <;> simp only [resolveI] at h <;> (repeat' split at h) <;>
    first
    | (injection h with h; subst h
       simp [AllObj, allObjs_iff, ObjOk, ok_typeDefRV, ok_tyRV, ok_typesRV, ok_inputValuesRV, ok_typeDefOptRV]
       try (intro d hd; exact typeDef?_of_mem s hu d hd)
       try (intro x d _ _ hx; subst hx; simp [AllObj, ObjOk]))
    | cases h

end Apollo.Introspection
