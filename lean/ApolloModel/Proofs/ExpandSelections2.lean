import ApolloModel.Proofs.ExpandSelections
/-
C17: the depth-first expansion lists the same fields as `expand_selections` (soundness, completeness, fuel).
-/
set_option linter.unusedSimpArgs false
set_option linter.unusedVariables false
namespace Apollo.Expand

/-! soundness -/
structure DSound (frags : Frags) (sets : List ESet) (acc : DAcc) : Prop where
  out : ∀ x ∈ acc.out, Expanded frags sets x
  visited : ∀ n ∈ acc.visited, ReachFrag frags sets n

def EnterSound (frags : Frags) (sets : List ESet) (enter : String → DAcc → DAcc) : Prop :=
  ∀ n acc, ReachFrag frags sets n → DSound frags sets acc → DSound frags sets (enter n acc)

mutual
theorem dfsSel_sound (frags : Frags) (sets : List ESet) (enter : String → DAcc → DAcc) (he : EnterSound frags sets enter) :
    ∀ (s : ESel) (ty : String) (acc : DAcc), GoodSet frags sets (ty, [s]) → DSound frags sets acc → DSound frags sets (dfsSel enter ty s acc)
  | .field id, ty, acc, hg, hs => by
    simp only [dfsSel]
    refine ⟨?_, hs.visited⟩
    intro x hx
    rcases List.mem_append.mp hx with h | h
    · exact hs.out x h
    · simp at h; subst h; exact hg.1 _ (.field (by simp))
  | .inline t ss, ty, acc, hg, hs => by
    simp only [dfsSel]
    exact dfsSels_sound frags sets enter he ss t acc
      ⟨fun x hx => hg.1 x (.inline (t := t) (ss := ss) (by simp) hx), fun n hn => hg.2 n (.inline (t := t) (ss := ss) (by simp) hn)⟩ hs
  | .spread n, ty, acc, hg, hs => by
    simp only [dfsSel]
    have hr : ReachFrag frags sets n := hg.2 n (.here (by simp))
    split
    · exact hs
    · apply he n _ hr
      refine ⟨hs.out, ?_⟩
      intro k hk
      rcases List.mem_cons.mp hk with rfl | hk
      · exact hr
      · exact hs.visited k hk
theorem dfsSels_sound (frags : Frags) (sets : List ESet) (enter : String → DAcc → DAcc) (he : EnterSound frags sets enter) :
    ∀ (sels : List ESel) (ty : String) (acc : DAcc), GoodSet frags sets (ty, sels) → DSound frags sets acc → DSound frags sets (dfsSels enter ty sels acc)
  | [], ty, acc, _, hs => by simpa [dfsSels] using hs
  | s :: rest, ty, acc, hg, hs => by
    simp only [dfsSels]
    apply dfsSels_sound frags sets enter he rest ty _ (goodSet_tail frags sets ty s rest hg)
    apply dfsSel_sound frags sets enter he s ty acc ?_ hs
    refine ⟨fun x hx => hg.1 x ?_, fun n hn => hg.2 n ?_⟩
    · cases hx with
      | field hm => simp at hm; subst hm; exact .field (by simp)
      | inline hm hi => simp at hm; subst hm; exact .inline (List.mem_cons_self) hi
    · cases hn with
      | here hm => simp at hm; subst hm; exact .here (by simp)
      | inline hm hi => simp at hm; subst hm; exact .inline (List.mem_cons_self) hi
end

theorem dfsFrag_sound (frags : Frags) (sets : List ESet) : ∀ k, EnterSound frags sets (dfsFrag frags k) := by
  intro k
  induction k with
  | zero =>
    intro n acc _ hs
    simp only [dfsFrag]
    split
    · exact ⟨hs.out, hs.visited⟩
    · exact hs
  | succ k ih =>
    intro n acc hr hs
    simp only [dfsFrag]
    cases hF : frags.get? n with
    | none => exact hs
    | some F =>
      simp only []
      exact dfsSels_sound frags sets _ ih F.2 F.1 acc
        ⟨fun x hx => Or.inr ⟨n, F, hr, hF, hx⟩, fun m hm => .step hr hF hm⟩ hs

theorem flatten_sound (frags : Frags) (sets : List ESet) : ∀ x ∈ (flatten frags sets).out, Expanded frags sets x := by
  have key : ∀ (l : List ESet) (acc : DAcc), (∀ S ∈ l, S ∈ sets) → DSound frags sets acc →
      DSound frags sets (l.foldl (fun acc S => dfsSels (dfsFrag frags frags.length) S.1 S.2 acc) acc) := by
    intro l
    induction l with
    | nil => intro acc _ h; simpa using h
    | cons S rest ih =>
      intro acc hl hs
      simp only [List.foldl_cons]
      apply ih _ (fun T hT => hl T (by simp [hT]))
      exact dfsSels_sound frags sets _ (dfsFrag_sound frags sets _) S.2 S.1 acc
        ⟨fun x hx => Or.inl ⟨S, hl S (by simp), hx⟩, fun n hn => .root (hl S (by simp)) hn⟩ hs
  exact (key sets _ (fun _ h => h) ⟨by simp, by simp⟩).out

/-! completeness (when no fragment had to be entered without fuel) -/

def CovD (b : DAcc) (F : ESet) : Prop :=
  (∀ x, InSels F.1 F.2 x → x ∈ b.out) ∧ (∀ k, SpreadsIn F.2 k → k ∈ b.visited)

structure LeD (frags : Frags) (a b : DAcc) : Prop where
  out : ∀ x ∈ a.out, x ∈ b.out
  visited : ∀ n ∈ a.visited, n ∈ b.visited
  exh : a.exhausted = true → b.exhausted = true
  new : ∀ m ∈ b.visited, m ∈ a.visited ∨ (b.exhausted = false → ∀ F, frags.get? m = some F → CovD b F)

theorem CovD.mono {frags : Frags} {a b : DAcc} (h : LeD frags a b) {F : ESet} (hc : CovD a F) : CovD b F :=
  ⟨fun x hx => h.out x (hc.1 x hx), fun k hk => h.visited k (hc.2 k hk)⟩

theorem LeD.refl (frags : Frags) (a : DAcc) : LeD frags a a := ⟨fun _ h => h, fun _ h => h, fun h => h, fun _ h => Or.inl h⟩

theorem LeD.trans {frags : Frags} {a b c : DAcc} (h1 : LeD frags a b) (h2 : LeD frags b c) : LeD frags a c := by
  refine ⟨fun x h => h2.out x (h1.out x h), fun n h => h2.visited n (h1.visited n h), fun h => h2.exh (h1.exh h), ?_⟩
  intro m hm
  rcases h2.new m hm with h | h
  · rcases h1.new m h with h' | h'
    · exact Or.inl h'
    · right
      intro hc F hF
      have hb : b.exhausted = false := by
        cases hbe : b.exhausted with
        | false => rfl
        | true => have := h2.exh hbe; rw [hc] at this; cases this
      exact (h' hb F hF).mono h2
  · exact Or.inr h

/-- what entering a fragment must achieve -/
def EnterSpec (frags : Frags) (enter : String → DAcc → DAcc) : Prop :=
  ∀ n acc, LeD frags acc (enter n acc) ∧ ((enter n acc).exhausted = false → ∀ F, frags.get? n = some F → CovD (enter n acc) F)

mutual
theorem dfsSel_spec (frags : Frags) (enter : String → DAcc → DAcc) (he : EnterSpec frags enter) :
    ∀ (s : ESel) (ty : String) (acc : DAcc),
      LeD frags acc (dfsSel enter ty s acc) ∧ ((dfsSel enter ty s acc).exhausted = false → CovD (dfsSel enter ty s acc) (ty, [s]))
  | .field id, ty, acc => by
    simp only [dfsSel]
    refine ⟨⟨fun x h => List.mem_append_left _ h, fun _ h => h, fun h => h, fun _ h => Or.inl h⟩, fun _ => ⟨?_, ?_⟩⟩
    · intro x hx
      cases hx with
      | field hm => simp at hm; subst hm; simp
      | inline hm _ => simp at hm
    · intro k hk
      cases hk with
      | here hm => simp at hm
      | inline hm _ => simp at hm
  | .inline t ss, ty, acc => by
    simp only [dfsSel]
    obtain ⟨h1, h2⟩ := dfsSels_spec frags enter he ss t acc
    refine ⟨h1, fun hc => ⟨?_, ?_⟩⟩
    · intro x hx
      cases hx with
      | field hm => simp at hm
      | inline hm hi => simp at hm; obtain ⟨rfl, rfl⟩ := hm; exact (h2 hc).1 x hi
    · intro k hk
      cases hk with
      | here hm => simp at hm
      | inline hm hi => simp at hm; obtain ⟨rfl, rfl⟩ := hm; exact (h2 hc).2 k hi
  | .spread n, ty, acc => by
    simp only [dfsSel]
    by_cases hv : acc.visited.contains n = true
    · simp only [hv, if_true]
      refine ⟨LeD.refl frags acc, fun _ => ⟨?_, ?_⟩⟩
      · intro x hx
        cases hx with
        | field hm => simp at hm
        | inline hm _ => simp at hm
      · intro k hk
        cases hk with
        | here hm => simp at hm; subst hm; simpa using hv
        | inline hm _ => simp at hm
    · simp only [hv, Bool.false_eq_true, if_false]
      obtain ⟨h1, h2⟩ := he n { acc with visited := n :: acc.visited }
      have hle : LeD frags acc (enter n { acc with visited := n :: acc.visited }) := by
        refine ⟨fun x h => h1.out x h, fun k h => h1.visited k (by simp [h]), fun h => h1.exh h, ?_⟩
        intro m hm
        rcases h1.new m hm with h | h
        · simp only [List.mem_cons] at h
          rcases h with rfl | h
          · exact Or.inr h2
          · exact Or.inl h
        · exact Or.inr h
      refine ⟨hle, fun _ => ⟨?_, ?_⟩⟩
      · intro x hx
        cases hx with
        | field hm => simp at hm
        | inline hm _ => simp at hm
      · intro k hk
        cases hk with
        | here hm => simp at hm; subst hm; exact h1.visited _ (by simp)
        | inline hm _ => simp at hm
theorem dfsSels_spec (frags : Frags) (enter : String → DAcc → DAcc) (he : EnterSpec frags enter) :
    ∀ (sels : List ESel) (ty : String) (acc : DAcc),
      LeD frags acc (dfsSels enter ty sels acc) ∧ ((dfsSels enter ty sels acc).exhausted = false → CovD (dfsSels enter ty sels acc) (ty, sels))
  | [], ty, acc => by
    simp only [dfsSels]
    refine ⟨LeD.refl frags acc, fun _ => ⟨?_, ?_⟩⟩
    · intro x hx
      cases hx with
      | field hm => simp at hm
      | inline hm _ => simp at hm
    · intro k hk
      cases hk with
      | here hm => simp at hm
      | inline hm _ => simp at hm
  | s :: rest, ty, acc => by
    simp only [dfsSels]
    obtain ⟨a1, a2⟩ := dfsSel_spec frags enter he s ty acc
    obtain ⟨b1, b2⟩ := dfsSels_spec frags enter he rest ty (dfsSel enter ty s acc)
    refine ⟨a1.trans b1, fun hc => ?_⟩
    have hmid : (dfsSel enter ty s acc).exhausted = false := by
      cases hme : (dfsSel enter ty s acc).exhausted with
      | false => rfl
      | true => have := b1.exh hme; rw [hc] at this; cases this
    have c1 := (a2 hmid).mono b1
    have c2 := b2 hc
    refine ⟨?_, ?_⟩
    · intro x hx
      cases hx with
      | field hm =>
        rcases List.mem_cons.mp hm with h | h
        · subst h; exact c1.1 _ (.field (by simp))
        · exact c2.1 _ (.field h)
      | inline hm hi =>
        rcases List.mem_cons.mp hm with h | h
        · subst h; exact c1.1 _ (.inline (List.mem_cons_self) hi)
        · exact c2.1 _ (.inline h hi)
    · intro k hk
      cases hk with
      | here hm =>
        rcases List.mem_cons.mp hm with h | h
        · subst h; exact c1.2 _ (.here (by simp))
        · exact c2.2 _ (.here h)
      | inline hm hi =>
        rcases List.mem_cons.mp hm with h | h
        · subst h; exact c1.2 _ (.inline (List.mem_cons_self) hi)
        · exact c2.2 _ (.inline h hi)
end

theorem dfsFrag_spec (frags : Frags) : ∀ k, EnterSpec frags (dfsFrag frags k) := by
  intro k
  induction k with
  | zero =>
    intro n acc
    simp only [dfsFrag]
    cases hF : frags.get? n with
    | none => exact ⟨LeD.refl frags acc, fun _ F hF' => by cases hF'⟩
    | some F =>
      simp only []
      exact ⟨⟨fun _ h => h, fun _ h => h, fun _ => rfl, fun _ h => Or.inl h⟩, fun h => by cases h⟩
  | succ k ih =>
    intro n acc
    simp only [dfsFrag]
    cases hF : frags.get? n with
    | none => exact ⟨LeD.refl frags acc, fun _ F hF' => by cases hF'⟩
    | some F =>
      simp only []
      obtain ⟨h1, h2⟩ := dfsSels_spec frags _ ih F.2 F.1 acc
      exact ⟨h1, fun hc F' hF' => by cases hF'; exact h2 hc⟩

/-- COMPLETENESS of the depth-first expansion -/
theorem flatten_complete (frags : Frags) (sets : List ESet) (hfuel : (flatten frags sets).exhausted = false) :
    ∀ x, Expanded frags sets x → x ∈ (flatten frags sets).out := by
  have key : ∀ (l : List ESet) (acc : DAcc),
      let fin := l.foldl (fun acc S => dfsSels (dfsFrag frags frags.length) S.1 S.2 acc) acc
      LeD frags acc fin ∧ (fin.exhausted = false → ∀ S ∈ l, CovD fin S) := by
    intro l
    induction l with
    | nil => intro acc; exact ⟨LeD.refl frags acc, fun _ S hS => by simp at hS⟩
    | cons S rest ih =>
      intro acc
      simp only [List.foldl_cons]
      obtain ⟨a1, a2⟩ := dfsSels_spec frags _ (dfsFrag_spec frags frags.length) S.2 S.1 acc
      obtain ⟨b1, b2⟩ := ih (dfsSels (dfsFrag frags frags.length) S.1 S.2 acc)
      refine ⟨a1.trans b1, fun hc T hT => ?_⟩
      rcases List.mem_cons.mp hT with rfl | hT
      · have hmid : (dfsSels (dfsFrag frags frags.length) T.1 T.2 acc).exhausted = false := by
          cases hme : (dfsSels (dfsFrag frags frags.length) T.1 T.2 acc).exhausted with
          | false => rfl
          | true => have := b1.exh hme; rw [hc] at this; cases this
        exact (a2 hmid).mono b1
      · exact b2 hc T hT
  obtain ⟨hle, hroots⟩ := key sets { visited := [], out := [] }
  have hroots := hroots hfuel
  have hvis : ∀ m ∈ (flatten frags sets).visited, ∀ F, frags.get? m = some F → CovD (flatten frags sets) F := by
    intro m hm F hF
    rcases hle.new m hm with h | h
    · simp at h
    · exact h hfuel F hF
  have hreach : ∀ n, ReachFrag frags sets n → n ∈ (flatten frags sets).visited := by
    intro n hr
    induction hr with
    | root hS hsp => exact (hroots _ hS).2 _ hsp
    | step _ hF hsp ih => exact (hvis _ ih _ hF).2 _ hsp
  intro x hx
  rcases hx with ⟨S, hS, hx⟩ | ⟨m, F, hr, hF, hx⟩
  · exact (hroots S hS).1 x hx
  · exact (hvis m (hreach m hr) F hF).1 x hx

/-! the fuel `frags.length` is never exhausted -/

/-- fragment definitions whose name has not been visited -/
def unvisited (frags : Frags) (acc : DAcc) : Nat := (frags.filter fun f => !acc.visited.contains f.1).length

theorem unvisited_le_length (frags : Frags) (acc : DAcc) : unvisited frags acc ≤ frags.length := by
  unfold unvisited; exact List.length_filter_le _ _

theorem unvisited_mono (frags : Frags) (a b : DAcc) (h : ∀ n ∈ a.visited, n ∈ b.visited) : unvisited frags b ≤ unvisited frags a := by
  unfold unvisited
  induction frags with
  | nil => simp
  | cons f rest ih =>
    simp only [List.filter_cons]
    by_cases ha : a.visited.contains f.1 = true
    · have hb : b.visited.contains f.1 = true := by simp at ha ⊢; exact h _ ha
      simp only [ha, hb, Bool.not_true, Bool.false_eq_true, if_false]; exact ih
    · have ha' : a.visited.contains f.1 = false := by simpa using ha
      by_cases hb : b.visited.contains f.1 = true
      · simp only [ha', hb, Bool.not_true, Bool.not_false, Bool.false_eq_true, if_false, if_true, List.length_cons]; omega
      · have hb' : b.visited.contains f.1 = false := by simpa using hb
        simp only [ha', hb', Bool.not_false, if_true, List.length_cons]; omega

theorem unvisited_add (frags : Frags) (acc : DAcc) (n : String) (hn : acc.visited.contains n = false) (hd : (frags.get? n).isSome = true) :
    unvisited frags { acc with visited := n :: acc.visited } + 1 ≤ unvisited frags acc := by
  unfold unvisited Frags.get? at *
  simp only [] at *
  induction frags with
  | nil => simp at hd
  | cons f rest ih =>
    simp only [List.filter_cons]
    by_cases hfn : (f.1 == n) = true
    · have hfe : f.1 = n := by simpa using hfn
      have h1 : acc.visited.contains f.1 = false := by rw [hfe]; exact hn
      have h2 : (n :: acc.visited).contains f.1 = true := by simp [hfe]
      simp only [h1, h2, Bool.not_true, Bool.not_false, Bool.false_eq_true, if_false, if_true, List.length_cons]
      have := unvisited_mono rest acc { acc with visited := n :: acc.visited } (fun k hk => by simp [hk])
      unfold unvisited at this
      simp only [] at this
      omega
    · have hfn' : (f.1 == n) = false := by simpa using hfn
      simp only [List.find?_cons, hfn', Bool.false_eq_true, if_false] at hd
      have ih' := ih hd
      have hne : f.1 ≠ n := by simpa using hfn'
      by_cases h1 : acc.visited.contains f.1 = true
      · have h2 : (n :: acc.visited).contains f.1 = true := by simp at h1 ⊢; exact Or.inr h1
        simp only [h1, h2, Bool.not_true, Bool.false_eq_true, if_false]; exact ih'
      · have h1' : acc.visited.contains f.1 = false := by simpa using h1
        have h2 : (n :: acc.visited).contains f.1 = false := by simp at h1' ⊢; exact ⟨hne, h1'⟩
        simp only [h1', h2, Bool.not_false, if_true, List.length_cons]; omega

/-- with fuel `k`, entering a defined fragment when at most `k - 1` definitions are unvisited does not exhaust -/
def EnterFuel (frags : Frags) (k : Nat) (enter : String → DAcc → DAcc) : Prop :=
  ∀ n acc, ((frags.get? n).isSome = true → unvisited frags acc + 1 ≤ k) → acc.exhausted = false → (enter n acc).exhausted = false

mutual
theorem dfsSel_fuel (frags : Frags) (k : Nat) (enter : String → DAcc → DAcc) (hs : EnterSpec frags enter) (hf : EnterFuel frags k enter) :
    ∀ (s : ESel) (ty : String) (acc : DAcc), unvisited frags acc ≤ k → acc.exhausted = false → (dfsSel enter ty s acc).exhausted = false
  | .field id, ty, acc, _, he => by simpa [dfsSel] using he
  | .inline t ss, ty, acc, hu, he => by simp only [dfsSel]; exact dfsSels_fuel frags k enter hs hf ss t acc hu he
  | .spread n, ty, acc, hu, he => by
    simp only [dfsSel]
    by_cases hv : acc.visited.contains n = true
    · rw [if_pos hv]; exact he
    · have hv' : acc.visited.contains n = false := by simpa using hv
      rw [if_neg hv]
      refine hf n { acc with visited := n :: acc.visited } ?_ he
      intro hd
      have := unvisited_add frags acc n hv' hd
      omega
theorem dfsSels_fuel (frags : Frags) (k : Nat) (enter : String → DAcc → DAcc) (hs : EnterSpec frags enter) (hf : EnterFuel frags k enter) :
    ∀ (sels : List ESel) (ty : String) (acc : DAcc), unvisited frags acc ≤ k → acc.exhausted = false → (dfsSels enter ty sels acc).exhausted = false
  | [], ty, acc, _, he => by simpa [dfsSels] using he
  | s :: rest, ty, acc, hu, he => by
    simp only [dfsSels]
    have h1 := dfsSel_fuel frags k enter hs hf s ty acc hu he
    have hle := (dfsSel_spec frags enter hs s ty acc).1
    have hu' : unvisited frags (dfsSel enter ty s acc) ≤ k :=
      Nat.le_trans (unvisited_mono frags acc _ hle.visited) hu
    exact dfsSels_fuel frags k enter hs hf rest ty _ hu' h1
end

theorem dfsFrag_fuel (frags : Frags) : ∀ k, EnterFuel frags k (dfsFrag frags k) := by
  intro k
  induction k with
  | zero =>
    intro n acc hu he
    simp only [dfsFrag]
    cases hF : frags.get? n with
    | none => simpa using he
    | some F => have := hu (by simp [hF]); omega
  | succ k ih =>
    intro n acc hu he
    simp only [dfsFrag]
    cases hF : frags.get? n with
    | none => simpa using he
    | some F =>
      simp only []
      have := hu (by simp [hF])
      exact dfsSels_fuel frags k _ (dfsFrag_spec frags k) ih F.2 F.1 acc (by omega) he

theorem flatten_not_exhausted (frags : Frags) (sets : List ESet) : (flatten frags sets).exhausted = false := by
  have key : ∀ (l : List ESet) (acc : DAcc), acc.exhausted = false →
      (l.foldl (fun acc S => dfsSels (dfsFrag frags frags.length) S.1 S.2 acc) acc).exhausted = false := by
    intro l
    induction l with
    | nil => intro acc h; simpa using h
    | cons S rest ih =>
      intro acc h
      simp only [List.foldl_cons]
      apply ih
      exact dfsSels_fuel frags frags.length _ (dfsFrag_spec frags frags.length) (dfsFrag_fuel frags frags.length) S.2 S.1 acc
        (unvisited_le_length frags acc) h
  exact key sets _ rfl

end Apollo.Expand

namespace Apollo.Expand
/-- THE TWO EXPANSIONS LIST THE SAME FIELDS: apollo's breadth-first `expand_selections` and the depth-first
    CollectFields-style expansion (each named fragment once) have exactly the same members -/
theorem expand_eq_flatten (frags : Frags) (sets : List ESet) (x : String × Nat) :
    x ∈ expand frags sets ↔ x ∈ (flatten frags sets).out := by
  rw [expand_iff]
  exact ⟨flatten_complete frags sets (flatten_not_exhausted frags sets) x, flatten_sound frags sets x⟩
end Apollo.Expand
