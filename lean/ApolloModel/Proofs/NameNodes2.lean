import ApolloModel.Proofs.NameNodes1
import ApolloModel.Proofs.ParserType3
/-
C11 growth, part 2: the loop combinators, `name`, ty.rs (the two producers of NAME nodes), and the
recursive families of the grammar.
-/
set_option linter.unusedSimpArgs false
set_option linter.unusedVariables false
namespace Apollo.Parse
open Apollo.Rowan hiding Str
open Apollo.Lex hiding Str

/-! ### loops -/

theorem ng_peekWhileLoop (body : Kind → PI Bool) (hb : ∀ k, NG (body k)) : ∀ fuel, NG (peekWhileLoop body fuel)
  | 0 => by unfold peekWhileLoop; exact ng_outOfFuel
  | fuel + 1 => by
    have ih := ng_peekWhileLoop body hb fuel
    unfold peekWhileLoop
    ng_auto_with (exact hb _)

theorem ng_peekWhile (body : Kind → PI Bool) (hb : ∀ k, NG (body k)) : NG (peekWhile body) := by
  unfold peekWhile
  exact ng_bind _ _ ng_srcLen (fun _ => ng_peekWhileLoop body hb _)

theorem ng_peekWhileKindLoop (k : Kind) (body : PI Unit) (hb : NG body) : ∀ fuel, NG (peekWhileKindLoop k body fuel)
  | 0 => by unfold peekWhileKindLoop; exact ng_outOfFuel
  | fuel + 1 => by
    have ih := ng_peekWhileKindLoop k body hb fuel
    unfold peekWhileKindLoop
    ng_auto

theorem ng_peekWhileKind (k : Kind) (body : PI Unit) (hb : NG body) : NG (peekWhileKind k body) := by
  unfold peekWhileKind
  exact ng_bind _ _ ng_srcLen (fun _ => ng_peekWhileKindLoop k body hb _)

theorem ng_parseSeparatedList (sep : Kind) (syn : SK) (run : PI Unit) (hr : NG run) :
    NG (parseSeparatedList sep syn run) := by
  unfold parseSeparatedList
  have := ng_peekWhileKind sep (do bump syn; run) (ng_bind _ _ (ng_bump _) (fun _ => hr))
  ng_auto

theorem ng_peekWhileFlagLoop (body : Kind → PI (Bool × Bool)) (hb : ∀ k, NG (body k)) :
    ∀ fuel flag, NG (peekWhileFlagLoop body fuel flag)
  | 0, _ => by unfold peekWhileFlagLoop; exact ng_outOfFuel
  | fuel + 1, flag => by
    have ih := ng_peekWhileFlagLoop body hb fuel
    unfold peekWhileFlagLoop
    ng_auto_with (first | exact hb _ | exact ih _)

theorem ng_peekWhileKindFlagLoop (k : Kind) (body : PI Unit) (hb : NG body) :
    ∀ fuel flag, NG (peekWhileKindFlagLoop k body fuel flag)
  | 0, _ => by unfold peekWhileKindFlagLoop; exact ng_outOfFuel
  | fuel + 1, flag => by
    have ih := ng_peekWhileKindFlagLoop k body hb fuel
    unfold peekWhileKindFlagLoop
    ng_auto_with (exact ih _)

/-! ### `name()`: the first producer of NAME nodes -/

/-- `peek_token` returns the (new) current token and leaves the builder alone -/
theorem peekToken_result (s : PState) :
    ∃ o s1, peekToken.run s = .ok o s1 ∧ s1.current = o ∧ s1.builder = s.builder := by
  cases hc : s.current with
  | some t => exact ⟨some t, s, by simp [peekToken, hc], hc, rfl⟩
  | none =>
    exact ⟨(nextToken s).1, { (nextToken s).2 with current := (nextToken s).1 }, by simp [peekToken, hc], rfl,
      (nextToken_spec s).builder⟩

theorem ng_name : NG name := by
  constructor
  intro s hi a s' h
  obtain ⟨o, s1, hr1, hc1, hb1⟩ := peekToken_result s
  have hi1 := (inv_of_ok peekToken s hi o s1 hr1).1
  unfold name at h
  rw [run_bind, hr1] at h
  simp only [] at h
  have hs : NBadd s s1 := NBadd.of_eq (by rw [hb1])
  refine hs.trans ?_
  cases o with
  | none => exact ng_err.out s1 hi1 a s' h
  | some t =>
    simp only [] at h
    by_cases hk : (t.kind == .name) = true
    · simp only [hk, if_true] at h
      have hk' : t.kind = .name := by simpa using hk
      -- from `s1` (whose current token is `t`) this branch is what `name` itself runs
      have hn : name.run s1 = .ok a s' := by
        unfold name
        rw [run_bind]
        have : peekToken.run s1 = .ok (some t) s1 := by simp [peekToken, hc1]
        rw [this]
        simp only [hk, if_true]
        exact h
      have := (name_builds s1 t hc1 hk' a s' hn).1
      refine ⟨s1.pending.map pendingElem ++ [Elem.node "NAME" [Elem.tok "IDENT" t.data]], by rw [this, List.append_assoc], ?_⟩
      rw [namesAreIdentsList_append, namesAreIdentsList_pending]
      simp [namesAreIdentsList, namesAreIdents]
    · simp only [hk, Bool.false_eq_true, if_false] at h
      exact ng_err.out s1 hi1 a s' h
macro_rules | `(tactic| ng_leaf) => `(tactic| exact ng_name)

/-! ### ty.rs: the second producer -/

/-- a NAME node opened on a (non-ignored) current token whose body appends exactly the IDENT token -/
theorem nameNode_exact {α : Type} (body : PI α) (s : PState) (t : Tok) (hi : Inv s) (hc : s.current = some t)
    (hig : isIgnoredKind t.kind = false)
    (hbody : ∀ s1, s1.current = some t → s1.pending = [] → ∀ a s2, body.run s1 = .ok a s2 →
      s2.builder.children = s1.builder.children ++ [Elem.tok "IDENT" t.data])
    (a : α) (s' : PState) (h : (withNode "NAME" body).run s = .ok a s') : NBadd s s' := by
  obtain ⟨s2, added, hr2, hadd, hres⟩ := withNode_children "NAME" body s hi a s' h
  have hcs : (rawStartNode "NAME" (flushed s)).current = some t := hc
  rw [run_bind, skipIgnored_noop _ t hcs hig] at hr2
  simp only [] at hr2
  have h2 := hbody _ hcs rfl a s2 hr2
  have : added = [Elem.tok "IDENT" t.data] := by
    have h1 : (flushed s).builder.children ++ added = (flushed s).builder.children ++ [Elem.tok "IDENT" t.data] := by
      rw [← hadd]; exact h2
    exact List.append_cancel_left h1
  subst this
  refine ⟨s.pending.map pendingElem ++ [Elem.node "NAME" [Elem.tok "IDENT" t.data]], by rw [hres, List.append_assoc], ?_⟩
  rw [namesAreIdentsList_append, namesAreIdentsList_pending]
  simp [namesAreIdentsList, namesAreIdents]

/-- `NAMED_TYPE[NAME[eat IDENT]]` of ty.rs, entered on a Name token -/
theorem ngs_namedTypeName (s : PState) (t : Tok) (hi : Inv s) (hc : s.current = some t) (hk : t.kind = .name)
    (a : TyRes) (s' : PState)
    (h : (withNode "NAMED_TYPE" (withNode "NAME" (do eat "IDENT"; pure TyRes.ok))).run s = .ok a s') : NBadd s s' := by
  have hig : isIgnoredKind t.kind = false := by rw [hk]; rfl
  refine ngs_withNode "NAMED_TYPE" _ (by decide) s hi ?_ a s' h
  intro a2 s2 hr2
  have hcs : (rawStartNode "NAMED_TYPE" (flushed s)).current = some t := hc
  rw [run_bind, skipIgnored_noop _ t hcs hig] at hr2
  simp only [] at hr2
  refine nameNode_exact _ _ t (startNode_inv _ _ (flushed_inv s hi)) hcs hig ?_ a2 s2 hr2
  intro s1 hc1 hp1 b s3 hr3
  rw [run_bind] at hr3
  obtain ⟨s4, he, _, hch⟩ := eat_builder "IDENT" s1 t hc1 hp1
  rw [he] at hr3
  simp only [run_pure] at hr3
  injection hr3 with _ h2
  subst h2
  exact hch

theorem peek_result (s : PState) :
    ∃ o s1, peek.run s = .ok (o.map (·.kind)) s1 ∧ s1.current = o ∧ s1.builder = s.builder := by
  obtain ⟨o, s1, hr1, hc1, hb1⟩ := peekToken_result s
  refine ⟨o, s1, ?_, hc1, hb1⟩
  unfold peek
  rw [run_bind, hr1]
  rfl

theorem ng_tyListBody (n : Nat) (ih : NG (tyParse n)) : NG (tyListBody n) := by
  unfold tyListBody
  ng_auto

theorem ng_tyCond (r : TyRes) : NG (tyCond r) := by
  unfold tyCond
  ng_auto

theorem ng_tyBody (n : Nat) (ih : NG (tyParse n)) : NG (tyBody n) := by
  have hl : NG (withNode "LIST_TYPE" (tyListBody n)) := ng_withNode _ _ (by decide) (ng_tyListBody n ih)
  have hp : NG (do match ← popDrop with
      | some t => pure (TyRes.errTok t)
      | none => pure TyRes.errNone) := by ng_auto
  constructor
  intro s hi a s' h
  obtain ⟨o, s1, hr1, hc1, hb1⟩ := peek_result s
  have hi1 := (inv_of_ok peek s hi _ s1 hr1).1
  unfold tyBody at h
  rw [run_bind, hr1] at h
  simp only [] at h
  refine (NBadd.of_eq (by rw [hb1])).trans ?_
  cases o with
  | none =>
    simp only [Option.map] at h
    exact (ng_pure _).out s1 hi1 a s' h
  | some t =>
    simp only [Option.map] at h
    by_cases hk : t.kind = .name
    · rw [hk] at h
      simp only [] at h
      exact ngs_namedTypeName s1 t hi1 hc1 hk a s' h
    · split at h
      · exact hl.out s1 hi1 a s' h
      · rename_i heq
        injection heq with heq
        exact absurd heq hk
      · exact hp.out s1 hi1 a s' h
      · exact (ng_pure _).out s1 hi1 a s' h

theorem ng_tyParse : ∀ n, NG (tyParse n) := by
  intro n
  induction n with
  | zero => unfold tyParse; exact ng_outOfFuel
  | succ n ih =>
    rw [tyParse_succ]
    have h1 : NG (wrapIf "NON_NULL_TYPE" (tyBody n) tyCond (eat "BANG")) :=
      ng_wrapIf _ _ _ _ (by decide) (ng_tyBody n ih) ng_tyCond (ng_eat _)
    ng_auto
macro_rules | `(tactic| ng_leaf) => `(tactic| exact ng_tyParse _)

theorem ng_ty (n : Nat) : NG (ty n) := by unfold ty; ng_auto
macro_rules | `(tactic| ng_leaf) => `(tactic| exact ng_ty _)

/-- the full structural automation: leaves, then every combinator of the grammar -/
macro "ng_go_with " t:tactic : tactic => `(tactic| repeat' (first
  | ($t:tactic)
  | (with_reducible ng_leaf)
  | (with_reducible apply ng_withNode)
  | (with_reducible apply ng_bind) | (with_reducible apply ng_dite) | (with_reducible apply ng_withRec)
  | (with_reducible apply ng_peekWhile) | (with_reducible apply ng_peekWhileKind)
  | (with_reducible apply ng_parseSeparatedList)
  | (with_reducible apply ng_peekWhileFlagLoop) | (with_reducible apply ng_peekWhileKindFlagLoop)
  | (intro _; try dsimp only)
  | (dsimp only)
  | (show (_ == _) = false; decide)
  | split))

macro "ng_go" : tactic => `(tactic| ng_go_with fail)

end Apollo.Parse
