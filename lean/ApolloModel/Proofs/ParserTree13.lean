import ApolloModel.Proofs.ParserTree12
/-
C08 growth (pipeline), part 13: arguments and directives — shapes and conversion.
-/
set_option linter.unusedSimpArgs false
set_option linter.unusedVariables false
namespace Apollo.FromCst
open Apollo.Rowan Apollo.Ast
open Apollo.Parse (isJunk isJunkKind sigE nameNode)

variable {R : List Loc}

/-- `ARGUMENT[NAME, COLON, value]` -/
def ArgTree (a : Ast.Str × Value) (e : Elem) : Prop :=
  ∃ cs col ev, e = .node "ARGUMENT" cs ∧ isValidName a.1 = true ∧ sigE cs = [nameNode a.1, .tok "COLON" col, ev] ∧ ValTree a.2 ev

/-- `ARGUMENTS[ ( Argument+ ) ]` -/
def ArgsNode (args : List (Ast.Str × Value)) (e : Elem) : Prop :=
  ∃ cs lp rp es, e = .node "ARGUMENTS" cs ∧ sigE cs = .tok "L_PAREN" lp :: (es ++ [.tok "R_PAREN" rp]) ∧
    All2 (fun e a => ArgTree a e) es args

/-- the optional ARGUMENTS child of a node, as the last significant children `tail` -/
def OptArgs (args : List (Ast.Str × Value)) (tail : List Elem) : Prop :=
  (args = [] ∧ tail = []) ∨ (∃ ea, tail = [ea] ∧ ArgsNode args ea)

/-- `DIRECTIVE[@ NAME Arguments?]` -/
def DirTree (d : Directive) (e : Elem) : Prop :=
  ∃ cs atx tail, e = .node "DIRECTIVE" cs ∧ isValidName d.name = true ∧
    sigE cs = .tok "AT" atx :: nameNode d.name :: tail ∧ OptArgs d.args tail

/-- `DIRECTIVES[Directive+]` -/
def DirsNode (ds : List Directive) (e : Elem) : Prop :=
  ∃ cs, e = .node "DIRECTIVES" cs ∧ All2 (fun e d => DirTree d e) (sigE cs) ds

/-- the optional DIRECTIVES child -/
def OptDirs (ds : List Directive) (tail : List Elem) : Prop :=
  (ds = [] ∧ tail = []) ∨ (∃ ed, tail = [ed] ∧ DirsNode ds ed)

theorem all2_conv {α : Type} (f : (R : List Loc) → PE R → M R α) (P : α → Elem → Prop) (n : Nat)
    (hP : ∀ a e, P a e → size e ≤ n → ConvE f a e) :
    ∀ (es : List Elem) (as : List α), All2 (fun e a => P a e) es as → sizeList es ≤ n →
      All2 (fun e a => ConvE f a e) es as
  | _, _, .nil, _ => All2.nil
  | _, _, .cons h1 h2, hs => by
    simp only [sizeList] at hs
    exact All2.cons (hP _ _ h1 (by omega)) (all2_conv f P n hP _ _ h2 (by omega))

theorem all2_filter {α : Type} (P : α → Elem → Prop) (g : Elem → Bool) (hg : ∀ a e, P a e → g e = true) :
    ∀ (es : List Elem) (as : List α), All2 (fun e a => P a e) es as → es.filter g = es
  | _, _, .nil => rfl
  | _, _, .cons h1 h2 => by simp [List.filter_cons, hg _ _ h1, all2_filter P g hg _ _ h2]

theorem size_node (k : SK) (cs : List Elem) : size (.node k cs) = sizeList cs + 1 := by simp [size]

theorem sizeList_sig_le {cs es : List Elem} (h : sigE cs = es) : sizeList es ≤ sizeList cs := by
  rw [← h]; exact sizeList_sigE_le cs

/-! ### arguments -/

theorem cArgument_conv (n : Nat) (a : Ast.Str × Value) (e : Elem) (h : ArgTree a e) (hs : size e ≤ n) :
    ConvE (fun R => @cArgument R n) a e := by
  obtain ⟨cs, col, ev, rfl, hvn, hsig, hv⟩ := h
  intro R s hp
  have hf : (sigE cs).find? (nodeP (· == "NAME")) = some (nameNode a.1) := by rw [hsig]; rfl
  obtain ⟨l1, hl1⟩ := nameOf_node "ARGUMENT" cs a.1 hvn hf R s hp
  have hfv : cs.find? (nodeP isValueKind) = some ev := by
    rw [find_nodeP_sigE, hsig]
    have : nodeP isValueKind (nameNode a.1) = false := rfl
    simp [List.find?_cons, nodeP_tok, this, hv.nodeP]
  obtain ⟨s', h', hc⟩ := childP_some (R := R) isValueKind "ARGUMENT" cs s hp ev hfv
  have hsz : size ev ≤ n := by
    have h1 := size_le_sizeList (mem_sigE (cs := cs) (e := ev) (by rw [hsig]; simp))
    rw [size_node] at hs; omega
  obtain ⟨l2, hl2⟩ := cValue_valTree n a.2 ev hv hsz R s' h'
  refine ⟨l1 ++ (([] ++ l2) ++ []), ?_⟩
  show cArgument n _ = _
  unfold cArgument
  refine bind_ok hl1 (bind_ok ?_ (pure_ok _))
  unfold valueOf
  rw [hc]
  exact bind_ok rfl hl2

theorem argTree_nodeP {a : Ast.Str × Value} {e : Elem} (h : ArgTree a e) : nodeP (· == "ARGUMENT") e = true := by
  obtain ⟨cs, _, _, rfl, _⟩ := h; simp [nodeP_node]

/-- `collect_opt(x.arguments(), …)` on a node whose ARGUMENTS child (if any) is known -/
theorem argumentsOf_conv (n : Nat) (k : SK) (cs : List Elem) (args : List (Ast.Str × Value)) (tail : List Elem)
    (hopt : OptArgs args tail) (hfind : (sigE cs).find? (nodeP (· == "ARGUMENTS")) = tail.head?)
    (hmem : ∀ e ∈ tail, e ∈ sigE cs) (hs : size (.node k cs) ≤ n + 1) :
    ConvE (fun R => @argumentsOf R n) args (.node k cs) := by
  intro R s hp
  rcases hopt with ⟨rfl, rfl⟩ | ⟨ea, rfl, cs', lp, rp, es, rfl, hsig, hall⟩
  · have := childP_none (R := R) (· == "ARGUMENTS") k cs s hp (by rw [find_nodeP_sigE]; exact hfind)
    refine ⟨[], ?_⟩
    show argumentsOf n _ = _
    unfold argumentsOf
    rw [child_eq_childP, this]; rfl
  · obtain ⟨s', h', hc⟩ := childP_some (R := R) (· == "ARGUMENTS") k cs s hp _ (by rw [find_nodeP_sigE]; exact hfind)
    have hfilter : cs'.filter (nodeP (· == "ARGUMENT")) = es := by
      rw [filter_nodeP_sigE, hsig]
      simp [List.filter_cons, nodeP_tok, List.filter_append, all2_filter _ _ (fun a e h => argTree_nodeP h) es args hall]
    have hmap := childrenP_map (R := R) (· == "ARGUMENT") "ARGUMENTS" cs' s' h'
    rw [hfilter] at hmap
    have hszs : sizeList es ≤ n := by
      have h1 := size_le_sizeList (mem_sigE (hmem (Elem.node "ARGUMENTS" cs') (by simp)))
      have h2 : sizeList (sigE cs') ≤ sizeList cs' := sizeList_sigE_le cs'
      rw [hsig] at h2
      simp only [sizeList, sizeList_append, size] at h1 h2 hs
      omega
    have hconv := all2_conv (fun R => @cArgument R n) ArgTree n (fun a e h hsz => cArgument_conv n a e h hsz) es args hall hszs
    obtain ⟨l, hl⟩ := collectM_conv (R := R) (fun R => @cArgument R n) _ es args hmap hconv
    refine ⟨l, ?_⟩
    show argumentsOf n _ = _
    unfold argumentsOf
    rw [child_eq_childP, hc]
    exact hl

/-! ### directives -/

theorem dirTree_nodeP {d : Directive} {e : Elem} (h : DirTree d e) : nodeP (· == "DIRECTIVE") e = true := by
  obtain ⟨cs, _, _, rfl, _⟩ := h; simp [nodeP_node]

theorem argsNode_props {args : List (Ast.Str × Value)} {ea : Elem} (h : ArgsNode args ea) :
    nodeP (· == "ARGUMENTS") ea = true ∧ nodeP (· == "NAME") ea = false := by
  obtain ⟨cs, _, _, _, rfl, _⟩ := h; simp [nodeP_node]

theorem cDirective_conv (n : Nat) (d : Directive) (e : Elem) (h : DirTree d e) (hs : size e ≤ n) :
    ConvE (fun R => @cDirective R n) d e := by
  obtain ⟨cs, at', tail, rfl, hvn, hsig, hopt⟩ := h
  intro R s hp
  have hf : (sigE cs).find? (nodeP (· == "NAME")) = some (nameNode d.name) := by rw [hsig]; rfl
  obtain ⟨l1, hl1⟩ := nameOf_node "DIRECTIVE" cs d.name hvn hf R s hp
  have hfa : (sigE cs).find? (nodeP (· == "ARGUMENTS")) = tail.head? := by
    rw [hsig]
    have : nodeP (· == "ARGUMENTS") (nameNode d.name) = false := rfl
    simp only [List.find?_cons, nodeP_tok, this]
    rcases hopt with ⟨_, rfl⟩ | ⟨ea, rfl, ha⟩
    · rfl
    · simp [List.find?_cons, (argsNode_props ha).1]
  obtain ⟨l2, hl2⟩ := argumentsOf_conv n "DIRECTIVE" cs d.args tail hopt hfa
    (by intro e he; rw [hsig]; simp [he]) (by omega) R s hp
  refine ⟨l1 ++ (l2 ++ []), ?_⟩
  show cDirective n _ = _
  unfold cDirective
  exact bind_ok hl1 (bind_ok hl2 (pure_ok _))

/-- `collect_opt(x.directives(), …)` on a node whose DIRECTIVES child (if any) is known -/
theorem directivesOf_conv (n : Nat) (k : SK) (cs : List Elem) (ds : List Directive) (tail : List Elem)
    (hopt : OptDirs ds tail) (hfind : (sigE cs).find? (nodeP (· == "DIRECTIVES")) = tail.head?)
    (hmem : ∀ e ∈ tail, e ∈ sigE cs) (hs : size (.node k cs) ≤ n + 1) :
    ConvE (fun R => @directivesOf R n) ds (.node k cs) := by
  intro R s hp
  rcases hopt with ⟨rfl, rfl⟩ | ⟨ed, rfl, cs', rfl, hall⟩
  · have := childP_none (R := R) (· == "DIRECTIVES") k cs s hp (by rw [find_nodeP_sigE]; exact hfind)
    refine ⟨[], ?_⟩
    show directivesOf n _ = _
    unfold directivesOf
    rw [child_eq_childP, this]; rfl
  · obtain ⟨s', h', hc⟩ := childP_some (R := R) (· == "DIRECTIVES") k cs s hp _ (by rw [find_nodeP_sigE]; exact hfind)
    have hfilter : cs'.filter (nodeP (· == "DIRECTIVE")) = sigE cs' := by
      rw [filter_nodeP_sigE]
      exact all2_filter _ _ (fun d e h => dirTree_nodeP h) _ ds hall
    have hmap := childrenP_map (R := R) (· == "DIRECTIVE") "DIRECTIVES" cs' s' h'
    rw [hfilter] at hmap
    have hszs : sizeList (sigE cs') ≤ n := by
      have h1 := size_le_sizeList (mem_sigE (hmem (Elem.node "DIRECTIVES" cs') (by simp)))
      have h2 : sizeList (sigE cs') ≤ sizeList cs' := sizeList_sigE_le cs'
      simp only [size] at h1 hs
      omega
    have hconv := all2_conv (fun R => @cDirective R n) DirTree n (fun d e h hsz => cDirective_conv n d e h hsz) _ ds hall hszs
    obtain ⟨l, hl⟩ := collectM_conv (R := R) (fun R => @cDirective R n) _ _ ds hmap hconv
    refine ⟨l, ?_⟩
    show directivesOf n _ = _
    unfold directivesOf
    rw [child_eq_childP, hc]
    exact hl

end Apollo.FromCst
