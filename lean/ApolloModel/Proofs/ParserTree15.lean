import ApolloModel.Proofs.ParserTree14
/-
C08 growth (pipeline), part 15: selections — shapes of FIELD / FRAGMENT_SPREAD / INLINE_FRAGMENT / SELECTION_SET nodes
and what `impl Convert for cst::Selection` (and `convert_selection_set`) reads from them.
-/
set_option linter.unusedSimpArgs false
set_option linter.unusedVariables false
namespace Apollo.FromCst
open Apollo.Rowan Apollo.Ast
open Apollo.Parse (isJunk isJunkKind sigE nameNode)

variable {R : List Loc}

/-- the optional `ALIAS[NAME :]` in front of a field's name -/
def AliasPre (alias : Option Ast.Str) (pre : List Elem) : Prop :=
  (alias = none ∧ pre = []) ∨
  (∃ a acs col, alias = some a ∧ isValidName a = true ∧ pre = [.node "ALIAS" acs] ∧ sigE acs = [nameNode a, .tok "COLON" col])

/-- the optional `TYPE_CONDITION[on NAMED_TYPE[NAME]]` of an inline fragment -/
def TcPre (tc : Option Ast.Str) (pre : List Elem) : Prop :=
  (tc = none ∧ pre = []) ∨
  (∃ t tcs ncs on, tc = some t ∧ isValidName t = true ∧ pre = [.node "TYPE_CONDITION" tcs] ∧
    sigE tcs = [.tok "on_KW" on, .node "NAMED_TYPE" ncs] ∧ sigE ncs = [nameNode t])

mutual
  inductive SelTree : Sel → Elem → Prop
    | field (alias : Option Ast.Str) (name : Ast.Str) (args : List (Ast.Str × Value)) (dirs : List Directive) (sels : Sels)
        (cs pre ta td ts : List Elem) : isValidName name = true → AliasPre alias pre → OptArgs args ta → OptDirs dirs td →
        OptSS sels ts → sigE cs = pre ++ nameNode name :: (ta ++ (td ++ ts)) →
        SelTree (.field alias name args dirs sels) (.node "FIELD" cs)
    | spread (name : Ast.Str) (dirs : List Directive) (cs fcs td : List Elem) (sp : Rowan.Str) : isValidName name = true →
        OptDirs dirs td → sigE fcs = [nameNode name] → sigE cs = .tok "SPREAD" sp :: .node "FRAGMENT_NAME" fcs :: td →
        SelTree (.spread name dirs) (.node "FRAGMENT_SPREAD" cs)
    | inline (tc : Option Ast.Str) (dirs : List Directive) (sels : Sels) (cs pre td : List Elem) (ess : Elem) (sp : Rowan.Str) :
        TcPre tc pre → OptDirs dirs td → SelSetNode sels ess → sigE cs = .tok "SPREAD" sp :: (pre ++ (td ++ [ess])) →
        SelTree (.inline tc dirs sels) (.node "INLINE_FRAGMENT" cs)
  inductive SelSetNode : Sels → Elem → Prop
    | mk (sels : Sels) (cs es : List Elem) (lc rc : Rowan.Str) : SelsTree sels es →
        sigE cs = .tok "L_CURLY" lc :: (es ++ [.tok "R_CURLY" rc]) → SelSetNode sels (.node "SELECTION_SET" cs)
  inductive SelsTree : Sels → List Elem → Prop
    | nil : SelsTree .nil []
    | cons (s : Sel) (e : Elem) (ss : Sels) (es : List Elem) : SelTree s e → SelsTree ss es → SelsTree (.cons s ss) (e :: es)
  inductive OptSS : Sels → List Elem → Prop
    | none : OptSS .nil []
    | some (sels : Sels) (es : Elem) : SelSetNode sels es → OptSS sels [es]
end

def selsToList : Sels → List Sel
  | .nil => []
  | .cons s tl => s :: selsToList tl

theorem listToSels_toList : ∀ ss : Sels, listToSels (selsToList ss) = ss
  | .nil => rfl
  | .cons s tl => by simp [selsToList, listToSels, listToSels_toList tl]

theorem SelTree.nodeP {s : Sel} {e : Elem} (h : SelTree s e) : nodeP isSelectionKind e = true := by
  cases h <;> simp [nodeP_node, isSelectionKind]

theorem SelsTree.filter {ss : Sels} {es : List Elem} (h : SelsTree ss es) : es.filter (nodeP isSelectionKind) = es := by
  induction es generalizing ss with
  | nil => rfl
  | cons e es ih =>
    cases h with
    | cons s _ ss' _ hs hss => simp [List.filter_cons, hs.nodeP, ih hss]

/-! ### equations of `cSelection` by node kind -/

theorem cSelection_field (n : Nat) (p : PE R) (hk : p.kind = "FIELD") :
    cSelection (n + 1) p = (optM (child "ALIAS" p) nameOf >>= fun alias => nameOf p >>= fun name =>
      argumentsOf n p >>= fun args => directivesOf n p >>= fun dirs =>
      (match child "SELECTION_SET" p with
        | some ss => collectM (cSelection n) (childrenP isSelectionKind ss)
        | none => M.pure' []) >>= fun sels => pure (Sel.field alias name args dirs (listToSels sels))) := by
  cases h : child "SELECTION_SET" p <;> simp [cSelection, hk, h]

theorem cSelection_spread (n : Nat) (p : PE R) (hk : p.kind = "FRAGMENT_SPREAD") :
    cSelection (n + 1) p = (M.ofOpt (child "FRAGMENT_NAME" p) >>= fun fname => nameOf fname >>= fun name =>
      directivesOf n p >>= fun dirs => pure (Sel.spread name dirs)) := by
  simp [cSelection, hk]

theorem cSelection_inline (n : Nat) (p : PE R) (hk : p.kind = "INLINE_FRAGMENT") :
    cSelection (n + 1) p = (optM (child "TYPE_CONDITION" p) cTypeCondition >>= fun tc => directivesOf n p >>= fun dirs =>
      M.ofOpt (child "SELECTION_SET" p) >>= fun ss => collectM (cSelection n) (childrenP isSelectionKind ss) >>= fun sels =>
      pure (Sel.inline tc dirs (listToSels sels))) := by
  simp [cSelection, hk]


/-! ### which kinds the optional groups have -/

theorem aliasPre_kinds {a : Option Ast.Str} {pre : List Elem} (h : AliasPre a pre) : pre = [] ∨ ∃ c, pre = [.node "ALIAS" c] := by
  rcases h with ⟨_, rfl⟩ | ⟨_, acs, _, _, _, rfl, _⟩
  · exact Or.inl rfl
  · exact Or.inr ⟨acs, rfl⟩

theorem tcPre_kinds {a : Option Ast.Str} {pre : List Elem} (h : TcPre a pre) : pre = [] ∨ ∃ c, pre = [.node "TYPE_CONDITION" c] := by
  rcases h with ⟨_, rfl⟩ | ⟨_, tcs, _, _, _, _, rfl, _⟩
  · exact Or.inl rfl
  · exact Or.inr ⟨tcs, rfl⟩

theorem optArgs_kinds {a : List (Ast.Str × Value)} {t : List Elem} (h : OptArgs a t) : t = [] ∨ ∃ c, t = [.node "ARGUMENTS" c] := by
  rcases h with ⟨_, rfl⟩ | ⟨_, rfl, cs, _, _, _, rfl, _⟩
  · exact Or.inl rfl
  · exact Or.inr ⟨cs, rfl⟩

theorem optDirs_kinds {a : List Directive} {t : List Elem} (h : OptDirs a t) : t = [] ∨ ∃ c, t = [.node "DIRECTIVES" c] := by
  rcases h with ⟨_, rfl⟩ | ⟨_, rfl, cs, rfl, _⟩
  · exact Or.inl rfl
  · exact Or.inr ⟨cs, rfl⟩

theorem optSS_kinds {a : Sels} {t : List Elem} (h : OptSS a t) : t = [] ∨ ∃ c, t = [.node "SELECTION_SET" c] := by
  cases h with
  | none => exact Or.inl rfl
  | some sels es hss => cases hss with | mk _ cs _ _ _ _ _ => exact Or.inr ⟨cs, rfl⟩

theorem optM_none {α β : Type} (f : α → M R β) : optM (none : Option α) f = some (none, []) := rfl

theorem optM_some {α β : Type} (f : α → M R β) (a : α) (b : β) (l : Locs R) (h : f a = some (b, l)) :
    optM (some a) f = some (some b, l ++ []) := by
  unfold optM
  simp only []
  unfold M.bind'
  rw [h]; rfl

/-- `convert_selection_set` on a SELECTION_SET node -/
theorem selSet_collect (n : Nat) (sels : Sels) (ess : Elem) (hss : SelSetNode sels ess)
    (hrec : ∀ es, SelsTree sels es → sizeList es ≤ n → All2 (fun e a => ConvE (fun R => @cSelection R n) a e) es (selsToList sels))
    (hs : size ess ≤ n + 1) (R : List Loc) (s : Nat) (hp : ∀ x ∈ nameRanges ess s, x ∈ R) :
    ∃ l, collectM (cSelection n) (childrenP isSelectionKind (⟨(ess, s), hp⟩ : PE R)) = some (selsToList sels, l) := by
  cases hss with
  | mk _ cs es lc rc hes hsig =>
    have hfilter : cs.filter (nodeP isSelectionKind) = es := by
      rw [filter_nodeP_sigE, hsig]
      simp [List.filter_cons, nodeP_tok, List.filter_append, hes.filter]
    have hmap := childrenP_map (R := R) isSelectionKind "SELECTION_SET" cs s hp
    rw [hfilter] at hmap
    have hszs : sizeList es ≤ n := by
      have h2 : sizeList (sigE cs) ≤ sizeList cs := sizeList_sigE_le cs
      rw [hsig] at h2
      simp only [sizeList, sizeList_append, size] at h2 hs
      omega
    exact collectM_conv (R := R) (fun R => @cSelection R n) _ es (selsToList sels) hmap (hrec es hes hszs)


/-- `self.named_type()?.name()?` on a TYPE_CONDITION node -/
theorem cTypeCondition_conv (t : Ast.Str) (tcs ncs : List Elem) (on : Rowan.Str) (hv : isValidName t = true)
    (h1 : sigE tcs = [.tok "on_KW" on, .node "NAMED_TYPE" ncs]) (h2 : sigE ncs = [nameNode t]) :
    ConvE (fun R => @cTypeCondition R) t (.node "TYPE_CONDITION" tcs) := by
  intro R s hp
  have hf : tcs.find? (nodeP (· == "NAMED_TYPE")) = some (.node "NAMED_TYPE" ncs) := by
    rw [find_nodeP_sigE, h1]; simp [List.find?_cons, nodeP_node, nodeP_tok]
  obtain ⟨s', h', hc⟩ := childP_some (R := R) (· == "NAMED_TYPE") "TYPE_CONDITION" tcs s hp _ hf
  obtain ⟨l, hl⟩ := nameOf_node "NAMED_TYPE" ncs t hv (by rw [h2]; rfl) R s' h'
  refine ⟨l, ?_⟩
  show cTypeCondition _ = _
  unfold cTypeCondition
  rw [child_eq_childP, hc]
  exact hl

macro "find_groups" : tactic => `(tactic|
  (simp [List.find?_cons, nodeP_node, nodeP_tok, nameNode]))

mutual
  theorem cSelection_selTree : ∀ (n : Nat) (sl : Sel) (e : Elem), SelTree sl e → size e ≤ n →
      ConvE (fun R => @cSelection R n) sl e
    | 0, _, e, h, hs => by
      cases h <;> simp [size] at hs
    | n + 1, _, _, .field alias name args dirs sels cs pre ta td ts hv hpre hta htd hts hsig, hs => by
      intro R s hp
      -- the name
      have hfn : (sigE cs).find? (nodeP (· == "NAME")) = some (nameNode name) := by
        rw [hsig]; rcases aliasPre_kinds hpre with rfl | ⟨c1, rfl⟩ <;> find_groups
      obtain ⟨l2, hl2⟩ := nameOf_node "FIELD" cs name hv hfn R s hp
      -- the alias
      have hal : ∃ l1, optM (child "ALIAS" (⟨(Elem.node "FIELD" cs, s), hp⟩ : PE R)) nameOf = some (alias, l1) := by
        rcases hpre with ⟨rfl, rfl⟩ | ⟨a, acs, col, rfl, hva, rfl, hacs⟩
        · have : cs.find? (nodeP (· == "ALIAS")) = none := by
            rw [find_nodeP_sigE, hsig]
            rcases optArgs_kinds hta with rfl | ⟨c2, rfl⟩ <;> rcases optDirs_kinds htd with rfl | ⟨c3, rfl⟩ <;>
              rcases optSS_kinds hts with rfl | ⟨c4, rfl⟩ <;> find_groups
          rw [child_eq_childP, childP_none (R := R) _ "FIELD" cs s hp this]
          exact ⟨[], rfl⟩
        · have : cs.find? (nodeP (· == "ALIAS")) = some (.node "ALIAS" acs) := by
            rw [find_nodeP_sigE, hsig]; find_groups
          obtain ⟨s', h', hc⟩ := childP_some (R := R) _ "FIELD" cs s hp _ this
          obtain ⟨l, hl⟩ := nameOf_node "ALIAS" acs a hva (by rw [hacs]; rfl) R s' h'
          rw [child_eq_childP, hc]
          exact ⟨l ++ [], optM_some _ _ _ _ hl⟩
      obtain ⟨l1, hl1⟩ := hal
      -- arguments and directives
      have hfa : (sigE cs).find? (nodeP (· == "ARGUMENTS")) = ta.head? := by
        rw [hsig]
        rcases aliasPre_kinds hpre with rfl | ⟨c1, rfl⟩ <;> rcases optArgs_kinds hta with rfl | ⟨c2, rfl⟩ <;>
          rcases optDirs_kinds htd with rfl | ⟨c3, rfl⟩ <;> rcases optSS_kinds hts with rfl | ⟨c4, rfl⟩ <;> find_groups
      obtain ⟨l3, hl3⟩ := argumentsOf_conv n "FIELD" cs args ta hta hfa
        (by intro e he; rw [hsig]; simp [he]) hs R s hp
      have hfd : (sigE cs).find? (nodeP (· == "DIRECTIVES")) = td.head? := by
        rw [hsig]
        rcases aliasPre_kinds hpre with rfl | ⟨c1, rfl⟩ <;> rcases optArgs_kinds hta with rfl | ⟨c2, rfl⟩ <;>
          rcases optDirs_kinds htd with rfl | ⟨c3, rfl⟩ <;> rcases optSS_kinds hts with rfl | ⟨c4, rfl⟩ <;> find_groups
      obtain ⟨l4, hl4⟩ := directivesOf_conv n "FIELD" cs dirs td htd hfd
        (by intro e he; rw [hsig]; simp [he]) hs R s hp
      -- the selection set
      have hss : ∃ l5, (match child "SELECTION_SET" (⟨(Elem.node "FIELD" cs, s), hp⟩ : PE R) with
          | some ss => collectM (cSelection n) (childrenP isSelectionKind ss)
          | none => M.pure' []) = some (selsToList sels, l5) := by
        cases hts with
        | none =>
          have : cs.find? (nodeP (· == "SELECTION_SET")) = none := by
            rw [find_nodeP_sigE, hsig]
            rcases aliasPre_kinds hpre with rfl | ⟨c1, rfl⟩ <;> rcases optArgs_kinds hta with rfl | ⟨c2, rfl⟩ <;>
              rcases optDirs_kinds htd with rfl | ⟨c3, rfl⟩ <;> find_groups
          rw [child_eq_childP, childP_none (R := R) _ "FIELD" cs s hp this]
          exact ⟨[], rfl⟩
        | some _ ess hnode =>
          have hk : ∃ c, ess = .node "SELECTION_SET" c := by cases hnode with | mk _ c _ _ _ _ _ => exact ⟨c, rfl⟩
          obtain ⟨c4, rfl⟩ := hk
          have : cs.find? (nodeP (· == "SELECTION_SET")) = some (.node "SELECTION_SET" c4) := by
            rw [find_nodeP_sigE, hsig]
            rcases aliasPre_kinds hpre with rfl | ⟨c1, rfl⟩ <;> rcases optArgs_kinds hta with rfl | ⟨c2, rfl⟩ <;>
              rcases optDirs_kinds htd with rfl | ⟨c3, rfl⟩ <;> find_groups
          obtain ⟨s', h', hc⟩ := childP_some (R := R) _ "FIELD" cs s hp _ this
          rw [child_eq_childP, hc]
          have hsz : size (Elem.node "SELECTION_SET" c4) ≤ n + 1 := by
            have := size_le_sizeList (mem_sigE (cs := cs) (e := Elem.node "SELECTION_SET" c4) (by rw [hsig]; simp))
            rw [size_node] at hs; omega
          exact selSet_collect n sels _ hnode (fun es hes hsz' => cSels_selsTree n sels es hes hsz') hsz R s' h'
      obtain ⟨l5, hl5⟩ := hss
      refine ⟨l1 ++ (l2 ++ (l3 ++ (l4 ++ (l5 ++ [])))), ?_⟩
      show cSelection (n + 1) _ = _
      rw [cSelection_field n _ rfl]
      refine bind_ok hl1 (bind_ok hl2 (bind_ok hl3 (bind_ok hl4 (bind_ok hl5 ?_))))
      rw [listToSels_toList]; rfl
    | n + 1, _, _, .spread name dirs cs fcs td sp hv htd hfcs hsig, hs => by
      intro R s hp
      have hff : cs.find? (nodeP (· == "FRAGMENT_NAME")) = some (.node "FRAGMENT_NAME" fcs) := by
        rw [find_nodeP_sigE, hsig]; find_groups
      obtain ⟨s', h', hc⟩ := childP_some (R := R) _ "FRAGMENT_SPREAD" cs s hp _ hff
      obtain ⟨l1, hl1⟩ := nameOf_node "FRAGMENT_NAME" fcs name hv (by rw [hfcs]; rfl) R s' h'
      have hfd : (sigE cs).find? (nodeP (· == "DIRECTIVES")) = td.head? := by
        rw [hsig]; rcases optDirs_kinds htd with rfl | ⟨c3, rfl⟩ <;> find_groups
      obtain ⟨l2, hl2⟩ := directivesOf_conv n "FRAGMENT_SPREAD" cs dirs td htd hfd
        (by intro e he; rw [hsig]; simp [he]) hs R s hp
      refine ⟨[] ++ (l1 ++ (l2 ++ [])), ?_⟩
      show cSelection (n + 1) _ = _
      rw [cSelection_spread n _ rfl, child_eq_childP, hc]
      exact bind_ok rfl (bind_ok hl1 (bind_ok hl2 (pure_ok _)))
    | n + 1, _, _, .inline tc dirs sels cs pre td ess sp hpre htd hnode hsig, hs => by
      intro R s hp
      have hk : ∃ c, ess = .node "SELECTION_SET" c := by cases hnode with | mk _ c _ _ _ _ _ => exact ⟨c, rfl⟩
      obtain ⟨c4, rfl⟩ := hk
      have htc : ∃ l1, optM (child "TYPE_CONDITION" (⟨(Elem.node "INLINE_FRAGMENT" cs, s), hp⟩ : PE R)) cTypeCondition = some (tc, l1) := by
        rcases hpre with ⟨rfl, rfl⟩ | ⟨t, tcs, ncs, on, rfl, hvt, rfl, h1, h2⟩
        · have : cs.find? (nodeP (· == "TYPE_CONDITION")) = none := by
            rw [find_nodeP_sigE, hsig]; rcases optDirs_kinds htd with rfl | ⟨c3, rfl⟩ <;> find_groups
          rw [child_eq_childP, childP_none (R := R) _ "INLINE_FRAGMENT" cs s hp this]
          exact ⟨[], rfl⟩
        · have : cs.find? (nodeP (· == "TYPE_CONDITION")) = some (.node "TYPE_CONDITION" tcs) := by
            rw [find_nodeP_sigE, hsig]; find_groups
          obtain ⟨s', h', hc⟩ := childP_some (R := R) _ "INLINE_FRAGMENT" cs s hp _ this
          obtain ⟨l, hl⟩ := cTypeCondition_conv t tcs ncs on hvt h1 h2 R s' h'
          rw [child_eq_childP, hc]
          exact ⟨l ++ [], optM_some _ _ _ _ hl⟩
      obtain ⟨l1, hl1⟩ := htc
      have hfd : (sigE cs).find? (nodeP (· == "DIRECTIVES")) = td.head? := by
        rw [hsig]; rcases tcPre_kinds hpre with rfl | ⟨c1, rfl⟩ <;> rcases optDirs_kinds htd with rfl | ⟨c3, rfl⟩ <;> find_groups
      obtain ⟨l2, hl2⟩ := directivesOf_conv n "INLINE_FRAGMENT" cs dirs td htd hfd
        (by intro e he; rw [hsig]; simp [he]) hs R s hp
      have hfs : cs.find? (nodeP (· == "SELECTION_SET")) = some (.node "SELECTION_SET" c4) := by
        rw [find_nodeP_sigE, hsig]
        rcases tcPre_kinds hpre with rfl | ⟨c1, rfl⟩ <;> rcases optDirs_kinds htd with rfl | ⟨c3, rfl⟩ <;> find_groups
      obtain ⟨s', h', hc⟩ := childP_some (R := R) _ "INLINE_FRAGMENT" cs s hp _ hfs
      have hsz : size (Elem.node "SELECTION_SET" c4) ≤ n + 1 := by
        have := size_le_sizeList (mem_sigE (cs := cs) (e := Elem.node "SELECTION_SET" c4) (by rw [hsig]; simp))
        rw [size_node] at hs; omega
      obtain ⟨l3, hl3⟩ := selSet_collect n sels _ hnode (fun es hes hsz' => cSels_selsTree n sels es hes hsz') hsz R s' h'
      refine ⟨l1 ++ (l2 ++ ([] ++ (l3 ++ []))), ?_⟩
      show cSelection (n + 1) _ = _
      rw [cSelection_inline n _ rfl]
      refine bind_ok hl1 (bind_ok hl2 ?_)
      rw [child_eq_childP, hc]
      refine bind_ok rfl (bind_ok hl3 ?_)
      rw [listToSels_toList]; rfl
  theorem cSels_selsTree : ∀ (n : Nat) (ss : Sels) (es : List Elem), SelsTree ss es → sizeList es ≤ n →
      All2 (fun e a => ConvE (fun R => @cSelection R n) a e) es (selsToList ss)
    | n, _, _, .nil, _ => All2.nil
    | n, _, _, .cons sl e ss es hs hss, hsz => by
      simp only [sizeList] at hsz
      exact All2.cons (cSelection_selTree n sl e hs (by omega)) (cSels_selsTree n ss es hss (by omega))
end

end Apollo.FromCst
