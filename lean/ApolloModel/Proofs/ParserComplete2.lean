import ApolloModel.Proofs.ParserComplete1
/-
C05 / C07 growth (completeness), part 2: rules for the token-consuming primitives, the recursion guard and
optional constructs.
-/
set_option linter.unusedSimpArgs false
namespace Apollo.Parse
open Apollo.Rowan hiding Str
open Apollo.Lex hiding Str

/-- a consumed token followed by skipped ignored tokens, when the state is settled afterwards: exactly the
    ignored tokens of the spelling were skipped -/
theorem settle_unique (s s' : PState) (t q0 : Tok) (i ign rest : List Tok) (e : Eat s s' (t :: ign))
    (hign : ∀ x ∈ ign, isIgnoredKind x.kind = true) (hset : Settled s') (ht : Toks s = t :: i ++ q0 :: rest) (hi : Ign i) (hq : Sigf q0) :
    ign = i ∧ Toks s' = q0 :: rest := by
  have hT : Toks s' = [] ∨ ∃ hd tl, Toks s' = hd :: tl ∧ Sigf hd := by
    cases hq' : Toks s' with
    | nil => exact Or.inl rfl
    | cons hd tl =>
      refine Or.inr ⟨hd, tl, rfl, ?_⟩
      have hc := hset.1
      rw [hq'] at hc
      exact hset.2 hd hc
  have := e.toks
  rw [ht] at this
  simp only [List.cons_append, List.cons.injEq, true_and] at this
  exact ign_unique i ign q0 rest (Toks s') this hi hign hq hT

/-- `bump`: one grammar token -/
theorem cmp_bump (sk : SK) : Cmp (fun _ => True) (bump sk) (fun _ x => ∃ a, x = [a]) (fun _ => True) (fun _ => True) := by
  intro s s' u c x q0 rest w hr hl hs ht hq _ _
  obtain ⟨a, rfl⟩ := hl
  obtain ⟨t, i, rfl, hta, hi⟩ := spells_single hs
  have ht' : Toks s = t :: (i ++ q0 :: rest) := by rw [ht]; simp
  obtain ⟨ign, e, hall, hset⟩ := bump_spec sk s s' w t _ ht' hr
  obtain ⟨rfl, ht2⟩ := settle_unique s s' t q0 i ign rest e hall hset (by rw [ht]) hi hq
  exact ⟨e, ht2, trivial⟩

/-- `name`: one Name token -/
theorem cmp_name : Cmp (fun _ => True) name (fun _ x => ∃ n, x = [.name n]) (fun _ => True) (fun _ => True) := by
  intro s s' u c x q0 rest w hr hl hs ht hq _ _
  obtain ⟨n, rfl⟩ := hl
  obtain ⟨t, i, rfl, hta, hi⟩ := spells_single hs
  have hk : t.kind = .name := kind_of_astOfV hta
  have ht' : Toks s = t :: (i ++ q0 :: rest) := by rw [ht]; simp
  obtain ⟨ign, e, hall, hset⟩ := name_settled s s' t _ w ht' hk hr
  obtain ⟨rfl, ht2⟩ := settle_unique s s' t q0 i ign rest e hall hset (by rw [ht]) hi hq
  exact ⟨e, ht2, trivial⟩

/-- `expect(k)`: one grammar token of kind `k` -/
theorem cmp_expect (k : Kind) (sk : SK) :
    Cmp (fun _ => True) (expect k sk) (fun _ x => ∃ a, x = [a] ∧ kindOfA a = k) (fun _ => True) (fun _ => True) := by
  intro s s' u c x q0 rest w hr hl hs ht hq _ _
  obtain ⟨a, rfl, hka⟩ := hl
  obtain ⟨t, i, rfl, hta, hi⟩ := spells_single hs
  have hk : t.kind = k := by rw [kind_of_astOfV hta, hka]
  obtain ⟨e, ht2, _⟩ := expect_match k sk s s' t q0 i rest w (by rw [ht]) hk hi hq hr
  exact ⟨e, ht2, trivial⟩

/-- the recursion guard: one unit of budget is spent on the body -/
theorem cmp_withRec {α : Type} {Hk : Kind → Prop} (onLimit body : PI α) {L L' : Nat → List Ast.Tok → Prop} {F : Kind → Prop} {Q : α → Prop}
    (h : Cmp Hk body L' F Q) (hL : ∀ b x, L b x → 1 ≤ b ∧ L' (b - 1) x) : Cmp Hk (withRec onLimit body) L F Q := by
  intro s s' a c x q0 rest w hr hl hs ht hq hf hk
  obtain ⟨hb1, hl'⟩ := hL _ _ hl
  rcases withRec_dec onLimit body s s' a hr with ⟨hlim, _⟩ | ⟨_, sr1, sr2, c1, l1, er1, a1, r1, rl1, hrb, c2, l2, er2, a2, r2, rl2⟩
  · omega
  · have wr1 : TW sr1 := w_same _ _ w er1 l1 a1
    have hbud : sr1.recLimit - sr1.recCur = s.recLimit - s.recCur - 1 := by rw [rl1, r1]; omega
    obtain ⟨e, t2, q⟩ := h sr1 sr2 a c x q0 rest wr1 hrb (by rw [hbud]; exact hl') hs (by rw [toks_same _ _ c1 l1]; exact ht) hq hf hk
    refine ⟨⟨?_, ?_, w_same _ _ e.w er2 l2 a2, ?_, ?_, ?_⟩, by rw [toks_same _ _ c2 l2]; exact t2, q⟩
    · rw [toks_same _ _ c2 l2, ← e.toks, toks_same _ _ c1 l1]
    · rw [doomed_same _ _ er2 l2, e.doom, doomed_same _ _ er1 l1]
    · rw [a2, e.accept, a1]
    · rw [r2, e.recCur, r1]; omega
    · rw [rl2, e.recLimit, rl1]

/-- `if p.peek() == Some(k0) { m }; rest` -/
theorem cmp_optKind {α : Type} {Hk : Kind → Prop} (k0 : Kind) (m : PI Unit) (rest : PI α)
    {Lm Lr : Nat → List Ast.Tok → Prop} {Fm Fr F : Kind → Prop} {Q : α → Prop}
    (hm : Cmp (fun _ => True) m Lm Fm (fun _ => True)) (hr : Cmp (fun _ => True) rest Lr Fr Q)
    (hmhead : ∀ b x, Lm b x → ∃ a x', x = a :: x' ∧ kindOfA a = k0)
    (hrhead : ∀ b a x, Lr b (a :: x) → kindOfA a ≠ k0 ∧ Fm (kindOfA a))
    (hF : ∀ k, F k → k ≠ k0 ∧ Fm k ∧ Fr k) :
    Cmp Hk (optKind k0 m rest) (fun b x => ∃ x1 x2, x = x1 ++ x2 ∧ (Lm b x1 ∨ x1 = []) ∧ Lr b x2) F Q := by
  intro s s' a c x q0 rst w hrun hl hs ht hq hf _
  obtain ⟨x1, x2, rfl, hl1, hl2⟩ := hl
  unfold optKind at hrun
  obtain ⟨ko, sP, hp, h2⟩ := bind_dec peek _ s s' a hrun
  obtain ⟨t, tl, htt, hkt⟩ := headK_toks c q0 rst
  obtain ⟨hko, eP, htP, _⟩ := peek_head s sP ko t tl w (by rw [ht]; exact htt) hp
  subst hko
  have hb : sP.recLimit - sP.recCur = s.recLimit - s.recCur := by rw [eP.recLimit, eP.recCur]
  have hTP : Toks sP = c ++ q0 :: rst := by rw [htP, ← htt]
  -- the kind of the first token of the queue
  rcases hl1 with hlm | rfl
  · -- the optional part is there
    obtain ⟨a1, x1', rfl, hk1⟩ := hmhead _ _ hlm
    obtain ⟨t1, tl1, hc, hta⟩ := spells_head (x := x1' ++ x2) (by simpa using hs)
    have hkk : t.kind = k0 := by
      rw [hkt, hc]; simp only [headK]; rw [kind_of_astOfV hta, hk1]
    simp only [hkk, beq_self_eq_true, if_true] at h2
    have hcomb := cmp_bind (Hk := fun _ => True) (F := F) hm (fun _ _ => hr)
      (fun b a x2 h => (hrhead b a x2 h).2) (fun k hk => (hF k hk).2.1) (fun k hk => (hF k hk).2.2)
    obtain ⟨e, t2, q⟩ := hcomb sP s' a c _ q0 rst eP.w h2 ⟨_, _, rfl, by rw [hb]; exact hlm, by rw [hb]; exact hl2⟩ hs hTP hq hf trivial
    exact ⟨by simpa using eP.trans e, t2, q⟩
  · -- absent: the first token must not have kind `k0`
    have hkk : (some t.kind == some k0) = false := by
      have : t.kind ≠ k0 := by
        rw [hkt]
        cases x2 with
        | nil =>
          have := spells_nil_inv (by simpa using hs)
          subst this
          exact (hF _ hf).1
        | cons a2 x2' =>
          obtain ⟨t1, tl1, hc, hta⟩ := spells_head (x := x2') (by simpa using hs)
          rw [hc]; simp only [headK]; rw [kind_of_astOfV hta]
          exact (hrhead _ _ _ hl2).1
      simpa using this
    simp only [hkk, Bool.false_eq_true, if_false] at h2
    obtain ⟨e, t2, q⟩ := hr sP s' a c x2 q0 rst eP.w h2 (by rw [hb]; exact hl2) (by simpa using hs) hTP hq (hF _ hf).2.2 trivial
    exact ⟨by simpa using eP.trans e, t2, q⟩

end Apollo.Parse
