import ApolloModel.Proofs.ParserDef4
/-
C05 growth (type-system definitions), part 5: default values, input value definitions, braced lists of items.
-/
set_option linter.unusedSimpArgs false
namespace Apollo.Parse
open Apollo.Rowan hiding Str
open Apollo.Lex hiding Str

theorem acc_of_run_eq {α : Type} {E H} {m m' : PI α} {R : α → List Ast.Tok → Prop} (h : ∀ s, m'.run s = m.run s)
    (ha : Acc E H m R) : Acc E H m' R := by
  refine ⟨?_, ?_⟩
  · intro s a s' w hr; rw [h] at hr; exact ha.1 s a s' w hr
  · intro s a s' w he hq hr hnd; rw [h] at hr; exact ha.2 s a s' w he hq hr hnd

theorem run_assoc {α β γ : Type} (m : PI α) (f : α → PI β) (g : β → PI γ) (s : PState) :
    (m >>= fun a => f a >>= g).run s = ((m >>= f) >>= g).run s := by
  simp only [run_bind]
  cases m.run s <;> rfl

theorem kindP_sig (p : Kind → Bool) (hp : ∀ k, p k = true → isIgnoredKind k = false) :
    ∀ q, KindP p q → ∃ t rest, q = t :: rest ∧ isIgnoredKind t.kind = false := by
  intro q ⟨t, hh, hk⟩
  cases q with
  | nil => cases hh
  | cons a b =>
    simp only [List.head?_cons, Option.some.injEq] at hh
    subst hh
    exact ⟨a, b, rfl, hp _ hk⟩

/-- `bump` of a punctuator whose kind is known -/
theorem acc_bumpKind {E : PState → Prop} (k0 : Kind) (sk : SK) (x0 : Ast.Tok)
    (hx : ∀ t : Tok, t.kind = k0 → astOfV t = some x0) (hni : isIgnoredKind k0 = false) (hne : k0 ≠ .eof) :
    Acc E (KindP (· == k0)) (bump sk) (fun _ x => x = [x0]) := by
  refine (acc_bump sk (fun t => t.kind = k0) (fun x => x = [x0]) ?_).mono ?_ (fun _ _ h => h)
  · intro t ht
    exact ⟨by rw [ht]; exact hni, by rw [ht]; exact hne, x0, hx t ht, rfl⟩
  · intro q ⟨t, h1, h2⟩; exact ⟨t, h1, by simpa using h2⟩

theorem acc_peekIf {α : Type} {E : PState → Prop} {H : List Tok → Prop} (c : Option Kind → Bool) (a b : PI α)
    (R : α → List Ast.Tok → Prop) (ha : Acc E (fun _ => True) a R) (hb : Acc E (fun _ => True) b R) :
    Acc E H (peek >>= fun k => if c k then a else b) R := by
  apply acc_peek
  intro k
  apply acc_ite
  · intro _; exact ha.mono (fun _ _ => trivial) (fun _ _ h => h)
  · intro _; exact hb.mono (fun _ _ => trivial) (fun _ _ h => h)

theorem acc_err' {α : Type} {E : PState → Prop} {H : List Tok → Prop} (rest : PI α) (hg : Good rest) {R : α → List Ast.Tok → Prop} :
    Acc E H (err >>= fun _ => rest) R := by
  refine ⟨good_bind _ _ good_err (fun _ => hg), ?_⟩
  intro s a s' w he _ hr hnd
  exfalso
  obtain ⟨_, s1, h1, h2⟩ := bind_dec err _ s s' a hr
  obtain ⟨ad, d⟩ := err_adv s s1 w h1
  have hnds : ¬ Doomed s := fun dd => hnd ((hg s1 a s' ad.w h2).doom (ad.doom dd))
  exact hnd ((hg s1 a s' ad.w h2).doom (d (eofEnd_nonempty s he hnds)))

/-! ### default value, directives at the end of a definition -/

def optDirsEnd (n : Nat) : PI Unit := peek >>= fun k => if k == some .at then directives n true else pure ()

theorem acc_optDirsEnd {E : PState → Prop} {H : List Tok → Prop} (n : Nat) :
    Acc E H (optDirsEnd n) (fun _ x => ∃ ds, x = Ast.tDirectives ds) := by
  unfold optDirsEnd
  apply acc_peekIf
  · exact (acc_directives n true).mono (fun _ h => h) (fun _ x ⟨ds, h, _⟩ => ⟨ds, h⟩)
  · exact (acc_pure E _ ()).mono (fun _ h => h) (fun _ x ⟨_, h⟩ => ⟨[], by rw [h]; rfl⟩)

theorem acc_defaultValue (n : Nat) :
    Acc AtEof (KindP (· == .eq)) (defaultValue n) (fun _ x => ∃ v, x = Ast.tDefault (some v)) := by
  unfold defaultValue
  have hsigEq : ∀ k : Kind, (k == Kind.eq) = true → isIgnoredKind k = false := by
    intro k hk
    have : k = .eq := by simpa using hk
    subst this; rfl
  refine acc_withNode early_atEof _ (kindP_sig (· == Kind.eq) hsigEq) ?_
  have hb := acc_bumpKind (E := AtEof) .eq "EQ" (.p .eq) (by intro t ht; simp [astOfV, ht]) rfl (by decide)
  refine (acc_bind early_atEof hb (fun _ => acc_value n true false)).mono (fun _ h => h) ?_
  rintro _ x ⟨_, x1, x2, e, h1, v, hv, _⟩
  exact ⟨v, by rw [e, h1, hv]; rfl⟩

/-! ### input value definition -/

def ivdAfterTy (n : Nat) : PI Unit := optKind .eq (defaultValue n) (optDirsEnd n)
def ivdType (n : Nat) : PI Unit :=
  peek >>= fun k => if (k == some .name || k == some .lBracket) then (ty n >>= fun _ => ivdAfterTy n) else err
def ivdColon (n : Nat) : PI Unit :=
  peek >>= fun k => if k == some .colon then (bump "COLON" >>= fun _ => ivdType n) else err
def ivdBody (n : Nat) : PI Unit := optKind .stringValue description (name >>= fun _ => ivdColon n)

theorem inputValueDefinition_eq (n : Nat) : inputValueDefinition n = withNode "INPUT_VALUE_DEFINITION" (ivdBody n) := rfl

def isNameOrStringK (k : Kind) : Bool := k == .name || k == .stringValue

theorem nameOrString_sig : ∀ k, isNameOrStringK k = true → isIgnoredKind k = false := by
  intro k hk; cases k <;> simp [isNameOrStringK] at hk <;> rfl

theorem acc_colon {E : PState → Prop} : Acc E (KindP (· == .colon)) (bump "COLON") (fun _ x => x = [.p .colon]) :=
  acc_bumpKind .colon "COLON" (.p .colon) (by intro t ht; simp [astOfV, ht]) rfl (by decide)

theorem acc_ivd (n : Nat) :
    Acc AtEof (KindP isNameOrStringK) (inputValueDefinition n) (fun _ x => ∃ v : Ast.InputValueDef, x = Ast.tIVD v) := by
  rw [inputValueDefinition_eq]
  refine acc_withNode early_atEof _ (kindP_sig _ nameOrString_sig) ?_
  have hAfter : Acc AtEof (fun _ => True) (ivdAfterTy n) (fun _ x => ∃ d ds, x = Ast.tDefault d ++ Ast.tDirectives ds) := by
    refine (acc_optKind early_atEof .eq (defaultValue n) (optDirsEnd n) _ _ (acc_defaultValue n) (acc_optDirsEnd n)).mono (fun _ h => h) ?_
    rintro _ x ⟨x1, x2, e, h1, ds, hds⟩
    rcases h1 with ⟨v, hv⟩ | h1
    · exact ⟨some v, ds, by rw [e, hv, hds]⟩
    · exact ⟨none, ds, by rw [e, h1, hds]; rfl⟩
  have hType : Acc AtEof (fun _ => True) (ivdType n) (fun _ x => ∃ t d ds, x = Ast.tTy t ++ Ast.tDefault d ++ Ast.tDirectives ds) := by
    unfold ivdType
    apply acc_peekIf
    · refine (acc_bind early_atEof (acc_ty n) (fun _ => hAfter)).mono (fun _ h => h) ?_
      rintro _ x ⟨_, x1, x2, e, ⟨t, ht⟩, d, ds, hd⟩
      exact ⟨t, d, ds, by rw [e, ht, hd, List.append_assoc]⟩
    · exact acc_err
  have hColon : Acc AtEof (fun _ => True) (ivdColon n)
      (fun _ x => ∃ t d ds, x = .p .colon :: Ast.tTy t ++ Ast.tDefault d ++ Ast.tDirectives ds) := by
    unfold ivdColon
    apply acc_ifKind
    · refine (acc_bind early_atEof acc_colon (fun _ => hType)).mono (fun _ h => h) ?_
      rintro _ x ⟨_, x1, x2, e, h1, t, d, ds, h2⟩
      exact ⟨t, d, ds, by rw [e, h1, h2]; rfl⟩
    · exact acc_err
  have hName : Acc AtEof (fun _ => True) (name >>= fun _ => ivdColon n)
      (fun _ x => ∃ nm t d ds, x = .name nm :: .p .colon :: Ast.tTy t ++ Ast.tDefault d ++ Ast.tDirectives ds) := by
    refine (acc_bind early_atEof acc_name (fun _ => hColon)).mono (fun _ h => h) ?_
    rintro _ x ⟨_, x1, x2, e, ⟨nm, h1⟩, t, d, ds, h2⟩
    exact ⟨nm, t, d, ds, by rw [e, h1, h2]; rfl⟩
  refine (acc_optDesc early_atEof _ _ hName).mono (fun _ _ => trivial) ?_
  rintro _ x ⟨desc, x2, e, nm, t, d, ds, h2⟩
  exact ⟨⟨desc, nm, t, d, ds⟩, by rw [e, h2]; simp [Ast.tIVD, List.append_assoc]⟩

end Apollo.Parse
