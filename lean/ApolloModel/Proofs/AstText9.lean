import ApolloModel.Proofs.AstText8
import ApolloModel.Proofs.LexerTokens
import ApolloModel.Proofs.StringsBlock3
/-
Text level, part 3 completed (1): numbers in the grammar's own terms (IsIntValue / IsFloatValue, via the C03
completeness theorems) and string literals in the quoted form lex back to their tokens.
-/
namespace Apollo.Ast
open Apollo.Lex (advance Item Kind isNameStart isNameContinue isAsciiDigit lex_int_complete lex_float_complete
  lex_string_complete LexStringChars D NS lexDigit_iff lexNameStart_iff specDigit_false_iff specNameStart_false_iff)
open Apollo.Spec.Lexical (IsIntValue IsFloatValue IsIntegerPart NumberLookaheadOk IsNegativeSignOpt)

theorem lookahead_of_follow (rest : Str) (h : FollowOk .num rest) : NumberLookaheadOk rest := by
  cases rest with
  | nil => trivial
  | cons c r =>
    obtain ⟨h1, h2, _, _, h5⟩ := follow_num c h
    refine ⟨(specDigit_false_iff c).mpr ?_, by simpa using h5, (specNameStart_false_iff c).mpr ?_⟩
    · intro hd; rw [(lexDigit_iff c).mpr hd] at h1; cases h1
    · intro hn; rw [(lexNameStart_iff c).mpr hn] at h2; cases h2

theorem intPart_head (i : Str) (h : IsIntegerPart i) : ∃ c r, i = c :: r ∧ (isAsciiDigit c = true ∨ c = '-') := by
  obtain ⟨neg, ds, rfl, hneg, hds⟩ := h
  have hds' : ∃ d r, ds = d :: r ∧ isAsciiDigit d = true := by
    rcases hds with hz | ⟨d, rest, hd, hnz, _⟩
    · exact ⟨'0', [], hz, by decide⟩
    · refine ⟨d, rest, hd, (lexDigit_iff d).mpr ?_⟩
      have := (Lex.specNonZero_iff d).mp hnz
      exact ⟨by omega, this.2⟩
  rcases hneg with hn | hn
  · subst hn
    obtain ⟨d, r, hd, hdig⟩ := hds'
    exact ⟨d, r, by simp [hd], .inl hdig⟩
  · subst hn
    exact ⟨'-', ds, by simp, .inr rfl⟩

theorem headOk_num_of_intPart (i tail : Str) (h : IsIntegerPart i) : HeadOk .num (i ++ tail) := by
  obtain ⟨c, r, rfl, hc⟩ := intPart_head i h
  simp only [List.cons_append, HeadOk, headChar, digit_not_ignored c hc, Bool.not_false, Bool.true_and,
    Bool.or_eq_true, beq_iff_eq]
  exact hc

/-- **IntValue tokens lex back** (the grammar's IntValue, C03 `lex_int_complete`) -/
theorem tokOk_int_spec (t : Str) (h : IsIntValue t) : TokOk (.int t) t := by
  refine ⟨by have := headOk_num_of_intPart t [] h; simp only [List.append_nil] at this; exact this, ?_⟩
  intro rest hf
  exact ⟨.int, t, lex_int_complete t rest h (lookahead_of_follow rest hf), rfl⟩

/-- **FloatValue tokens lex back** (C03 `lex_float_complete`) -/
theorem tokOk_float_spec (t : Str) (h : IsFloatValue t) : TokOk (.float t) t := by
  refine ⟨?_, ?_⟩
  · obtain ⟨i, f, e, rfl, hi, _⟩ := h
    have := headOk_num_of_intPart i (f ++ e) hi
    simp only [← List.append_assoc] at this
    exact this
  · intro rest hf
    exact ⟨.float, t, lex_float_complete t rest h (lookahead_of_follow rest hf), rfl⟩

/-! ### the quoted form -/

/-- the `\u00XY` escapes the serializer writes (control characters) are hex digits and not surrogates -/
theorem esc_unicode_ok : ∀ n, n < 32 →
    Spec.Lexical.isHexDigit (Strs.hexUpper (n / 16)) = true ∧ Spec.Lexical.isHexDigit (Strs.hexUpper (n % 16)) = true ∧
    Lex.isSurrogate (((Lex.hexVal '0' * 16 + Lex.hexVal '0') * 16 + Lex.hexVal (Strs.hexUpper (n / 16))) * 16 +
      Lex.hexVal (Strs.hexUpper (n % 16))) = false := by
  decide

theorem lsc_escapeChar (c : Char) : LexStringChars (Strs.escapeChar c) := by
  unfold Strs.escapeChar
  split
  · exact .escaped (by decide) .nil
  · split
    · exact .escaped (by decide) .nil
    · split
      · exact .escaped (by decide) .nil
      · split
        · exact .escaped (by decide) .nil
        · split
          · exact .escaped (by decide) .nil
          · split
            · exact .escaped (by decide) .nil
            · split
              · next h =>
                have hlt : c.toNat < 32 := by simp only [Bool.and_eq_true, decide_eq_true_eq] at h; exact h.1
                obtain ⟨h1, h2, h3⟩ := esc_unicode_ok c.toNat hlt
                exact .unicode (by decide) (by decide) h1 h2 h3 .nil
              · next hn _ hr hq hb _ =>
                refine .plain (by simpa using hq) (by simpa using hb) ?_ .nil
                simp only [Spec.Lexical.isLineTerminator, Bool.or_eq_false_iff]
                exact ⟨by simpa using hn, by simpa using hr⟩

theorem lsc_flatMap (s : Str) : LexStringChars (s.flatMap Strs.escapeChar) := by
  induction s with
  | nil => exact .nil
  | cons c r ih => simpa using Lex.lsc_append (lsc_escapeChar c) ih

theorem quote_not_ignored : isIgnoredChar '"' = false := by decide

/-- **quoted string literals lex back and decode to the string** -/
theorem tokOk_quoted (s : Str) : TokOk (.str s) (Strs.quotedForm s) := by
  refine ⟨by simp [Strs.quotedForm, HeadOk, headChar, clsTok, quote_not_ignored], ?_⟩
  intro rest hf
  refine ⟨.stringValue, Strs.quotedForm s, ?_, ?_⟩
  · have hl : s.flatMap Strs.escapeChar = [] → rest.head? ≠ some '"' := by
      intro _
      cases rest with
      | nil => simp
      | cons c r =>
        have : c ≠ '"' := by simpa [FollowOk, followChar, clsTok] using hf
        simpa using this
    have := lex_string_complete (s.flatMap Strs.escapeChar) rest (lsc_flatMap s) hl
    simpa [Strs.quotedForm, List.append_assoc] using this
  · simp [sigItem, Strs.quoted_roundtrip s]

end Apollo.Ast
