import ApolloModel.Proofs.ParserExactC21
import ApolloModel.Proofs.ParserComplete22
/-
EXACT-BUDGET COPY of ParserComplete22 (namespace Apollo.Parse.Exact, exact `vdepth`).
C05 growth (completeness of the whole Document grammar), part 22: directive definitions and schema definitions.
-/
set_option linter.unusedSimpArgs false
namespace Apollo.Parse.Exact
open Apollo.Rowan hiding Str
open Apollo.Lex hiding Str

/-! ### directive locations -/

theorem cmp_directiveLocation :
    Cmp (fun _ => True) directiveLocation (fun _ x => ∃ nm, x = [.name nm] ∧ IsDirLoc nm) (fun _ => True) (fun _ => True) := by
  intro s s' u c x q0 rest w hr hl hs ht hq _ _
  obtain ⟨nm, rfl, hloc⟩ := hl
  obtain ⟨t, i, rfl, hta, hi⟩ := spells_single hs
  have hkt : t.kind = .name := kind_of_astOfV hta
  have hd : t.data = nm := data_of_astOfV_name hta
  unfold directiveLocation at hr
  obtain ⟨o, sP, hp, h2⟩ := bind_dec peekToken _ s s' u hr
  obtain ⟨rfl, eP, htP⟩ := peekToken_head s sP o t (i ++ q0 :: rest) w (by rw [ht]; simp) hp
  simp only [hkt, beq_self_eq_true, if_true] at h2
  cases hfind : directiveLocationKeywords.find? (fun x => kw x t.data) with
  | none =>
    exfalso
    unfold IsDirLoc at hloc
    obtain ⟨k, hk, hkn⟩ := List.mem_map.mp hloc
    have := List.find?_eq_none.mp hfind k hk
    rw [hd, ← hkn] at this
    simp [kw] at this
  | some k =>
    simp only [hfind] at h2
    obtain ⟨e, t2, _⟩ := cmp_nodeBump "DIRECTIVE_LOCATION" (k ++ "_KW") sP s' u (t :: i) _ q0 rest eP.w h2 ⟨_, rfl⟩ hs
      (by rw [htP]; simp) hq trivial trivial
    exact ⟨by simpa using eP.trans e, t2, trivial⟩

def LLocs (_ : Nat) (x : List Ast.Tok) : Prop :=
  ∃ lead first rest, x = tSepLead .pipe lead first rest ∧ IsDirLoc first ∧ ∀ r ∈ rest, IsDirLoc r

theorem cmp_dLocs : Cmp (fun _ => True) dLocs LLocs (fun k => k ≠ .pipe) (fun _ => True) := by
  unfold dLocs
  apply cmp_peek
  intro k _
  apply cmp_ite
  · intro _
    unfold directiveLocations
    exact cmp_withNode _ (cmp_sepList (Hk := fun k' => k' = k) .pipe "PIPE" .pipe directiveLocation IsDirLoc rfl (by decide) cmp_directiveLocation)
  · intro hk
    apply cmp_absurd
    rintro b x cc q0 ⟨lead, first, rest, rfl, _⟩ hs _ hkk
    cases lead with
    | true =>
      obtain ⟨t, tl, rfl, hta⟩ := spells_head (a := .p .pipe) (x := .name first :: Ast.tSepNames .pipe rest) (by simpa [tSepLead] using hs)
      simp only [headK] at hkk
      rw [kind_of_astOfV hta] at hkk
      simp [← hkk, kindOfA] at hk
    | false =>
      obtain ⟨t, tl, rfl, hta⟩ := spells_head (a := .name first) (x := Ast.tSepNames .pipe rest) (by simpa [tSepLead] using hs)
      simp only [headK] at hkk
      rw [kind_of_astOfV hta] at hkk
      simp [← hkk, kindOfA] at hk

def LOn (b : Nat) (x : List Ast.Tok) : Prop := ∃ x2, x = .name Ast.sOn :: x2 ∧ LLocs b x2

theorem cmp_dOn : Cmp (fun _ => True) dOn LOn (fun k => k ≠ .pipe) (fun _ => True) := by
  intro s s' u c x q0 rest w hr hl hs ht hq hf _
  obtain ⟨x2, rfl, hl2⟩ := hl
  obtain ⟨t, tl, hc, hta⟩ := spells_head hs
  have hd : t.data = "on".toList := data_of_astOfV_name hta
  unfold dOn at hr
  obtain ⟨od, sP, hp, h2⟩ := bind_dec peekData _ s s' u hr
  obtain ⟨rfl, eP, htP⟩ := peekData_head s sP od t (tl ++ q0 :: rest) w (by rw [ht, hc]; simp) hp
  simp only [kw_iff.mpr hd, if_true] at h2
  have hb : sP.recLimit - sP.recCur = s.recLimit - s.recCur := by rw [eP.recLimit, eP.recCur]
  have hcomb := cmp_bind (Hk := fun _ => True) (F := fun k => k ≠ Kind.pipe) (F1 := fun _ => True) (cmp_bump "on_KW") (fun _ _ => cmp_dLocs)
    (fun _ _ _ _ => trivial) (fun _ _ => trivial) (fun _ h => h)
  obtain ⟨e, t2, _⟩ := hcomb sP s' u c _ q0 rest eP.w h2 ⟨[.name Ast.sOn], x2, rfl, ⟨_, rfl⟩, by rw [hb]; exact hl2⟩ hs
    (by rw [htP, hc]; simp) hq hf trivial
  exact ⟨by simpa using eP.trans e, t2, trivial⟩

/-- the keyword is absent: the next token is a Name with another text -/
theorem cmp_optKwAbsent {α : Type} {Hk : Kind → Prop} (word : String) (sk : SK) (rest : PI α)
    {Lr : Nat → List Ast.Tok → Prop} {F : Kind → Prop} {Q : α → Prop}
    (hr : Cmp (fun _ => True) rest Lr F Q) (hrhead : ∀ b x, Lr b x → ∃ w' x', x = .name w' :: x' ∧ w' ≠ word.toList) :
    Cmp Hk (optKw word sk rest) Lr F Q := by
  intro s s' a c x q0 rst w hrun hl hs ht hq hf _
  obtain ⟨w', x', rfl, hne⟩ := hrhead _ _ hl
  obtain ⟨t, tl, hc, hta⟩ := spells_head hs
  have hd : t.data = w' := data_of_astOfV_name hta
  unfold optKw at hrun
  obtain ⟨od, sP, hp, h2⟩ := bind_dec peekData _ s s' a hrun
  obtain ⟨rfl, eP, htP⟩ := peekData_head s sP od t (tl ++ q0 :: rst) w (by rw [ht, hc]; simp) hp
  have hk : kwOpt word (some t.data) = false := by
    cases hcase : kwOpt word (some t.data) with
    | false => rfl
    | true => exact absurd (hd ▸ kwOpt_some_eq.mp hcase) hne
  simp only [hk, Bool.false_eq_true, if_false] at h2
  have hb : sP.recLimit - sP.recCur = s.recLimit - s.recCur := by rw [eP.recLimit, eP.recCur]
  obtain ⟨e, t2, q⟩ := hr sP s' a c _ q0 rst eP.w h2 (by rw [hb]; exact hl) hs (by rw [htP, hc]; simp) hq hf trivial
  exact ⟨by simpa using eP.trans e, t2, q⟩

def LRep (b : Nat) (x : List Ast.Tok) : Prop := ∃ rep x2, x = kwPart "repeatable" rep ++ x2 ∧ LOn b x2

theorem cmp_dRep : Cmp (fun _ => True) (optKw "repeatable" "repeatable_KW" dOn) LRep (fun k => k ≠ .pipe) (fun _ => True) := by
  intro s s' a c x q0 rst w hrun hl hs ht hq hf hk
  obtain ⟨rep, x2, rfl, hl2⟩ := hl
  cases rep with
  | true =>
    exact cmp_optKwSeen (Hk := fun _ => True) "repeatable" "repeatable_KW" dOn cmp_dOn s s' a c _ q0 rst w hrun
      ⟨x2, by simp [kwPart], hl2⟩ hs ht hq hf hk
  | false =>
    refine cmp_optKwAbsent (Hk := fun _ => True) "repeatable" "repeatable_KW" dOn cmp_dOn ?_ s s' a c _ q0 rst w hrun
      (by simpa [kwPart] using hl2) hs ht hq hf hk
    rintro b x ⟨x3, rfl, _⟩
    exact ⟨_, x3, rfl, by decide⟩

def LDirName (b : Nat) (x : List Ast.Tok) : Prop :=
  ∃ x1 x2, x = x1 ++ x2 ∧ (∃ n, x1 = [.name n]) ∧ ∃ y1 y2, x2 = y1 ++ y2 ∧ (LArgsDef b y1 ∨ y1 = []) ∧ LRep b y2

theorem lrep_head {b : Nat} {a : Ast.Tok} {x : List Ast.Tok} (h : LRep b (a :: x)) : kindOfA a = .name := by
  obtain ⟨rep, x2, e, x3, rfl, _⟩ := h
  cases rep <;> simp [kwPart] at e <;> rw [e.1] <;> rfl

theorem lrep_ne (b : Nat) : ¬ LRep b [] := by
  rintro ⟨rep, x2, e, x3, rfl, _⟩
  cases rep <;> simp [kwPart] at e

theorem cmp_dName (n : Nat) : Cmp (fun _ => True) (dName n) LDirName (fun k => k ≠ .pipe) (fun _ => True) := by
  unfold dName
  have hargs := cmp_optKind_ne (Hk := fun _ => True) (F := fun k => k ≠ Kind.pipe) .lParen (argumentsDefinition n)
    (optKw "repeatable" "repeatable_KW" dOn) (cmp_argumentsDefinition n) cmp_dRep (fun b x h => largsDef_head h)
    (by intro b a x h; rw [lrep_head h]; exact ⟨by decide, trivial⟩) lrep_ne (fun _ h => h)
  exact cmp_bind (Hk := fun _ => True) (F1 := fun _ => True) cmp_name (fun _ _ => hargs)
    (fun _ _ _ _ => trivial) (fun _ _ => trivial) (fun _ h => h)

def LDirAt (b : Nat) (x : List Ast.Tok) : Prop := ∃ x2, x = .p .at :: x2 ∧ LDirName b x2

theorem cmp_dAt (n : Nat) : Cmp (fun _ => True) (dAt n) LDirAt (fun k => k ≠ .pipe) (fun _ => True) := by
  unfold dAt
  apply cmp_peek
  intro k _
  apply cmp_ite
  · intro _
    have := cmp_bind (Hk := fun k' => k' = k) (F := fun k => k ≠ Kind.pipe) (F1 := fun _ => True)
      ((cmp_bump "AT").mono (fun _ _ => trivial) (fun _ _ h => h) (fun _ h => h) (fun _ h => h))
      (fun _ _ => cmp_dName n) (fun _ _ _ _ => trivial) (fun _ _ => trivial) (fun _ h => h)
    refine this.mono (fun _ h => h) ?_ (fun _ h => h) (fun _ h => h)
    rintro b x ⟨x2, rfl, h⟩
    exact ⟨[.p .at], x2, rfl, ⟨_, rfl⟩, h⟩
  · intro hk
    apply cmp_absurd
    rintro b x cc q0 ⟨x2, rfl, _⟩ hs _ hkk
    obtain ⟨tk, tl, rfl, hta⟩ := spells_head hs
    simp only [headK] at hkk
    rw [kind_of_astOfV hta] at hkk
    simp [← hkk, kindOfA] at hk

def LDirective (b : Nat) (x : List Ast.Tok) : Prop :=
  ∃ desc nm args rep lead first rest, x = directiveToks desc true nm args rep lead first rest ∧
    (∀ a ∈ args, ivdFit b a) ∧ IsDirLoc first ∧ ∀ r ∈ rest, IsDirLoc r

theorem cmp_directiveDefinition (n : Nat) :
    Cmp (fun _ => True) (directiveDefinition n) LDirective (fun k => k ≠ .pipe) (fun _ => True) := by
  rw [directiveDefinition_eq]
  refine cmp_withNode _ ?_
  have h2 := cmp_optKwSeen (Hk := fun _ => True) "directive" "directive_KW" (dAt n) (cmp_dAt n)
  have h3 := cmp_optDesc (Hk := fun _ => True) _ h2
    (by rintro b a x ⟨x2, e, _⟩; injection e with e _; subst e; simp [kindOfA])
    (by rintro b ⟨x2, e, _⟩; cases e)
  refine h3.mono (fun _ h => h) ?_ (fun _ h => h) (fun _ h => h)
  rintro b x ⟨desc, nm, args, rep, lead, first, rest, rfl, hargs, h1, h2⟩
  refine ⟨desc, .name "directive".toList :: .p .at :: .name nm :: (Ast.tArgsDef args ++ (kwPart "repeatable" rep ++ .name Ast.sOn :: tSepLead .pipe lead first rest)),
    (by unfold directiveToks; rw [kwPart_true]; simp only [List.append_assoc, List.cons_append, List.nil_append]), _, rfl, _, rfl, [.name nm], _, rfl, ⟨nm, rfl⟩,
    Ast.tArgsDef args, _, rfl, ?_, rep, _, rfl, _, rfl, lead, first, rest, rfl, h1, h2⟩
  by_cases ha : args = []
  · subst ha; right; rfl
  · left; exact ⟨args, ha, rfl, hargs⟩

/-! ### schema definition -/

def LRootOp (_ : Nat) (x : List Ast.Tok) : Prop := ∃ r : Ast.OpType × Ast.Str, x = Ast.tRootOp r

theorem cmp_rootOperationTypeDefinition :
    Cmp (fun _ => True) rootOperationTypeDefinition LRootOp (fun _ => True) (fun _ => True) := by
  unfold rootOperationTypeDefinition
  refine cmp_withNode _ ?_
  have hcolon : Cmp (fun _ => True) (peek >>= fun k => if k == some Kind.colon then (bump "COLON" >>= fun _ => namedType) else err)
      (fun _ x => ∃ nm, x = [.p .colon, .name nm]) (fun _ => True) (fun _ => True) := by
    apply cmp_peek
    intro k _
    apply cmp_ite
    · intro _
      have := cmp_bind (Hk := fun k' => k' = k) (F := fun _ => True) (F1 := fun _ => True)
        ((cmp_bump "COLON").mono (fun _ _ => trivial) (fun _ _ h => h) (fun _ h => h) (fun _ h => h))
        (fun _ _ => cmp_namedType) (fun _ _ _ _ => trivial) (fun _ _ => trivial) (fun _ h => h)
      refine this.mono (fun _ h => h) ?_ (fun _ h => h) (fun _ h => h)
      rintro b x ⟨nm, rfl⟩
      exact ⟨[.p .colon], [.name nm], rfl, ⟨_, rfl⟩, nm, rfl⟩
    · intro hk
      apply cmp_absurd
      rintro b x cc q0 ⟨nm, rfl⟩ hs _ hkk
      obtain ⟨tk, tl, rfl, hta⟩ := spells_head hs
      simp only [headK] at hkk
      rw [kind_of_astOfV hta] at hkk
      simp [← hkk, kindOfA] at hk
  have := cmp_bind (Hk := fun _ => True) (F := fun _ => True) (F1 := fun _ => True) cmp_operationType (fun _ _ => hcolon)
    (fun _ _ _ _ => trivial) (fun _ _ => trivial) (fun _ h => h)
  refine this.mono (fun _ h => h) ?_ (fun _ h => h) (fun _ h => h)
  rintro b x ⟨r, rfl⟩
  exact ⟨[.name r.1.name.toList], [.p .colon, .name r.2], rfl, ⟨r.1, rfl⟩, r.2, rfl⟩

def rootItems : List (Ast.OpType × Ast.Str) → List (List Ast.Tok)
  | [] => []
  | v :: r => Ast.tRootOp v :: rootItems r

theorem rootItems_flatten : ∀ vs, (rootItems vs).flatten = Ast.tRootOpItems vs
  | [] => rfl
  | v :: r => by simp [rootItems, Ast.tRootOpItems, rootItems_flatten r]

theorem rootItems_ok (b : Nat) : ∀ vs, ∀ i ∈ rootItems vs, LRootOp b i
  | [] => by intro i hi; cases hi
  | v :: r => by
    intro i hi
    simp only [rootItems, List.mem_cons] at hi
    rcases hi with rfl | hi
    · exact ⟨v, rfl⟩
    · exact rootItems_ok b r i hi

theorem rootItems_isEmpty : ∀ vs : List (Ast.OpType × Ast.Str), (rootItems vs).isEmpty = vs.isEmpty
  | [] => rfl
  | _ :: _ => rfl

/-- `{ RootOperationTypeDefinition+ }` then the continuation `K` -/
theorem cmp_rootsBlock {α : Type} (K : PI α) {Lk : Nat → List Ast.Tok → Prop} {F : Kind → Prop} {Q : α → Prop}
    (hK : Cmp (fun _ => True) K Lk F Q) (hKhead : ∀ b x, Lk b x → ∃ x', x = .p .rCurly :: x') :
    Cmp (fun _ => True) (rootsBlock K)
      (fun b x => ∃ roots xk, roots ≠ [] ∧ x = .p .lCurly :: (Ast.tRootOpItems roots ++ xk) ∧ Lk b xk) F Q := by
  intro s s' u cv x q0 rest w hr hl hs ht hq hf _
  obtain ⟨roots, xk, hne, rfl, hlk⟩ := hl
  obtain ⟨xk', rfl⟩ := hKhead _ _ hlk
  obtain ⟨t, i, c', rfl, hta, hi, hs'⟩ := spells_cons hs
  obtain ⟨c2, c3, rfl, s2, s3⟩ := spells_split (x1 := Ast.tRootOpItems roots) (x2 := .p .rCurly :: xk') hs' (by simp)
  obtain ⟨tb, tlb, hc3, htb⟩ := spells_head s3
  have hkb : tb.kind = .rCurly := kind_of_astOfV htb
  obtain ⟨f, ftl, hfol, hsf, _⟩ := next_item_head (Li := LRootOp) (P := fun k => k = Kind.name) (b := 0)
    (by rintro b x ⟨r, rfl⟩; exact ⟨_, _, rfl, rfl⟩) (rootItems roots) (rootItems_ok 0 roots) c2
    (by rw [rootItems_flatten]; exact s2) tb (tlb ++ q0 :: rest) (sigf_of_astOfV htb)
  unfold rootsBlock at hr
  obtain ⟨_, sA, h1, h2⟩ := bind_dec (bump "L_CURLY") _ s s' u hr
  have hs1 : Spells (t :: i) [.p .lCurly] := by
    refine ⟨?_, by intro hd tl e; injection e with e _; subst e; exact sigf_of_astOfV hta⟩
    rw [sig_cons_ignV t i (sigf_of_astOfV hta) hi]
    exact TokIs.single t _ hta
  obtain ⟨e1, tA, _⟩ := cmp_bump "L_CURLY" s sA () (t :: i) [.p .lCurly] f (ftl) w h1 ⟨_, rfl⟩ hs1
    (by rw [ht, ← hfol, hc3]; simp) hsf trivial trivial
  obtain ⟨len, h3⟩ := srcLen_dec _ sA s' u h2
  obtain ⟨has, sB, h4, h5⟩ := bind_dec _ _ sA s' u h3
  have hbA : sA.recLimit - sA.recCur = s.recLimit - s.recCur := by rw [e1.recLimit, e1.recCur]
  obtain ⟨eB, tB, hhas⟩ := cmp_kindWhileFlagLoop .name rootOperationTypeDefinition LRootOp (fun _ => True)
    cmp_rootOperationTypeDefinition (by rintro b x ⟨r, rfl⟩; exact ⟨_, _, rfl, rfl⟩) trivial (rootItems roots) _ false sA sB has c2 tb
    (tlb ++ q0 :: rest) e1.w h4 (rootItems_ok _ roots) (by rw [rootItems_flatten]; exact s2) (by rw [tA, hfol]) (sigf_of_astOfV htb)
    (by rw [hkb]; decide) trivial
  have hhas' : has = true := by
    rw [hhas, rootItems_isEmpty]
    cases roots with
    | nil => exact absurd rfl hne
    | cons _ _ => rfl
  subst hhas'
  simp only [Bool.not_true, Bool.false_eq_true, if_false] at h5
  have hbB : sB.recLimit - sB.recCur = s.recLimit - s.recCur := by rw [eB.recLimit, eB.recCur, hbA]
  obtain ⟨eK, tK, q⟩ := hK sB s' u c3 _ q0 rest eB.w h5 (by rw [hbB]; exact hlk) s3 (by rw [tB, hc3]; simp) hq hf trivial
  exact ⟨by simpa [List.append_assoc] using (e1.trans eB).trans eK, tK, q⟩

theorem kindOfA_rCurly {a : Ast.Tok} (h : kindOfA a = .rCurly) : a = .p .rCurly := by
  cases a with
  | p q => cases q <;> simp [kindOfA] at h; rfl
  | _ => simp [kindOfA] at h

def LSBraces (_ : Nat) (x : List Ast.Tok) : Prop :=
  ∃ roots : List (Ast.OpType × Ast.Str), roots ≠ [] ∧ x = .p .lCurly :: Ast.tRootOpItems roots ++ [.p .rCurly]

theorem cmp_sBraces : Cmp (fun _ => True) sBraces LSBraces (fun _ => True) (fun _ => True) := by
  unfold sBraces
  apply cmp_peek
  intro k _
  apply cmp_ite
  · intro _
    have := cmp_rootsBlock (expect .rCurly "R_CURLY") (cmp_expect .rCurly "R_CURLY")
      (by rintro b x ⟨a, rfl, hk⟩; rw [kindOfA_rCurly hk]; exact ⟨[], rfl⟩)
    refine this.mono (fun _ _ => trivial) ?_ (fun _ h => h) (fun _ h => h)
    rintro b x ⟨roots, hne, rfl⟩
    exact ⟨roots, [.p .rCurly], hne, by simp, _, rfl, rfl⟩
  · intro hk
    apply cmp_absurd
    rintro b x cc q0 ⟨roots, _, rfl⟩ hs _ hkk
    obtain ⟨tk, tl, rfl, hta⟩ := spells_head hs
    simp only [headK] at hkk
    rw [kind_of_astOfV hta] at hkk
    simp [← hkk, kindOfA] at hk

def LSchema (b : Nat) (x : List Ast.Tok) : Prop :=
  ∃ (desc : Option Ast.Str) (ds : List Ast.Directive) (roots : List (Ast.OpType × Ast.Str)), roots ≠ [] ∧
    x = schemaToks desc true ds (roots.map fun r => (r.1, some r.2)) ∧ dirsFit true b ds

theorem cmp_schemaDefinition (n : Nat) :
    Cmp (fun _ => True) (schemaDefinition n) LSchema (fun _ => True) (fun _ => True) := by
  rw [schemaDefinition_eq]
  refine cmp_withNode _ ?_
  have h1 := cmp_optKind_ne (Hk := fun _ => True) (F := fun _ => True) .at (directives n true) sBraces (cmp_directivesNeB n true) cmp_sBraces
    (fun b x h => ldirsNeB_head h)
    (by rintro b a x ⟨roots, _, e⟩; injection e with e _; subst e; exact ⟨by decide, by decide, by decide⟩)
    (by rintro b ⟨roots, _, e⟩; cases e) (fun _ h => h)
  have h2 := cmp_optKwSeen (Hk := fun _ => True) "schema" "schema_KW" _ h1
  have h3 := cmp_optDesc (Hk := fun _ => True) _ h2
    (by rintro b a x ⟨x2, e, _⟩; injection e with e _; subst e; simp [kindOfA])
    (by rintro b ⟨x2, e, _⟩; cases e)
  refine h3.mono (fun _ h => h) ?_ (fun _ h => h) (fun _ h => h)
  rintro b x ⟨desc, ds, roots, hne, rfl, hd⟩
  exact ⟨desc, .name "schema".toList :: (Ast.tDirectives ds ++ (.p .lCurly :: Ast.tRootOpItems roots ++ [.p .rCurly])),
    (by unfold schemaToks; rw [kwPart_true, tRootOpItemsF_full]; simp only [List.append_assoc, List.cons_append, List.nil_append]), _, rfl, Ast.tDirectives ds, _, rfl,
    ldirsB_split true b ds hd, roots, hne, rfl⟩

end Apollo.Parse.Exact
