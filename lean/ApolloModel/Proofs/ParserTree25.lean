import ApolloModel.Proofs.ParserTree24
/-
C08 growth (pipeline), part 25 (stage iv): operation definitions — the shape of OPERATION_DEFINITION nodes and what
`impl Convert for cst::OperationDefinition` reads from them (conversion side).
-/
set_option linter.unusedSimpArgs false
set_option linter.unusedVariables false

namespace Apollo.FromCst
open Apollo.Rowan Apollo.Ast
open Apollo.Parse (isJunk isJunkKind sigE nameNode VarDefsNode)

variable {R : List Loc}

/-- the optional NAME child of an operation -/
def OptName (name : Option Ast.Str) (t : List Elem) : Prop :=
  (name = none ∧ t = []) ∨ (∃ x, name = some x ∧ isValidName x = true ∧ t = [nameNode x])

/-- the optional VARIABLE_DEFINITIONS child -/
def OptVarDefs (vs : List VarDef) (t : List Elem) : Prop :=
  (vs = [] ∧ t = []) ∨ (∃ ev, t = [ev] ∧ VarDefsNode vs ev)

/-- the keyword token of an OPERATION_TYPE node -/
def opKw : OpType → SK
  | .query => "query_KW"
  | .mutation => "mutation_KW"
  | .subscription => "subscription_KW"

/-- `OPERATION_DEFINITION[OPERATION_TYPE[kw] NAME? VARIABLE_DEFINITIONS? DIRECTIVES? SELECTION_SET]`, or the shorthand
    `OPERATION_DEFINITION[SELECTION_SET]` -/
def OpDefTree (ty : OpType) (name : Option Ast.Str) (vars : List VarDef) (dirs : List Directive) (sels : Sels) (e : Elem) : Prop :=
  ∃ cs ess, e = .node "OPERATION_DEFINITION" cs ∧ SelSetNode sels ess ∧
    ((∃ d tn tv td, OptName name tn ∧ OptVarDefs vars tv ∧ OptDirs dirs td ∧
        sigE cs = .node "OPERATION_TYPE" [.tok (opKw ty) d] :: (tn ++ (tv ++ (td ++ [ess])))) ∨
     (ty = .query ∧ name = none ∧ vars = [] ∧ dirs = [] ∧ sigE cs = [ess]))

theorem optName_kinds {a : Option Ast.Str} {t : List Elem} (h : OptName a t) : t = [] ∨ ∃ c, t = [.node "NAME" c] := by
  rcases h with ⟨_, rfl⟩ | ⟨x, _, _, rfl⟩
  · exact Or.inl rfl
  · exact Or.inr ⟨_, rfl⟩

theorem optVarDefs_kinds {a : List VarDef} {t : List Elem} (h : OptVarDefs a t) :
    t = [] ∨ ∃ c, t = [.node "VARIABLE_DEFINITIONS" c] := by
  rcases h with ⟨_, rfl⟩ | ⟨_, rfl, cs, _, _, _, rfl, _⟩
  · exact Or.inl rfl
  · exact Or.inr ⟨cs, rfl⟩

theorem cDefinition_operation_eq (n : Nat) (p : PE R) (hk : p.kind = "OPERATION_DEFINITION") :
    cDefinition n p = ((match child "OPERATION_TYPE" p with
        | some ot => cOperationType ot
        | none => M.pure' OpType.query) >>= fun ty => optNameOf p >>= fun name =>
      (match child "VARIABLE_DEFINITIONS" p with
        | some c => collectM (cVariableDefinition n) (children "VARIABLE_DEFINITION" c)
        | none => M.pure' []) >>= fun vars =>
      directivesOf n p >>= fun dirs => selectionSetOf n p >>= fun sels => pure (Definition.operation ty name vars dirs sels)) := by
  cases h1 : child "OPERATION_TYPE" p <;> cases h2 : child "VARIABLE_DEFINITIONS" p <;> simp [cDefinition, hk, h1, h2]

theorem cOperationType_leaf (ty : OpType) (d : Rowan.Str) : ConvE (fun R => @cOperationType R) ty (.node "OPERATION_TYPE" [.tok (opKw ty) d]) := by
  intro R s hp
  refine ⟨[], ?_⟩
  show cOperationType _ = _
  unfold cOperationType
  cases ty <;> simp [firstTok, firstTokList, opKw, M.pure']

/-- `impl Convert for cst::OperationDefinition` -/
theorem cDefinition_operation (n : Nat) (ty : OpType) (name : Option Ast.Str) (vars : List VarDef) (dirs : List Directive) (sels : Sels)
    (e : Elem) (h : OpDefTree ty name vars dirs sels e) (hs : size e ≤ n + 1) :
    ConvE (fun R => @cDefinition R n) (.operation ty name vars dirs sels) e := by
  obtain ⟨cs, ess, rfl, hnode, hshape⟩ := h
  intro R s hp
  have hk : ∃ c, ess = .node "SELECTION_SET" c := by cases hnode with | mk _ c _ _ _ _ _ => exact ⟨c, rfl⟩
  obtain ⟨c4, rfl⟩ := hk
  rcases hshape with ⟨d, tn, tv, td, hname, hvars, hdirs, hsig⟩ | ⟨rfl, rfl, rfl, rfl, hsig⟩
  · -- the long form
    have hfo : cs.find? (nodeP (· == "OPERATION_TYPE")) = some (.node "OPERATION_TYPE" [.tok (opKw ty) d]) := by
      rw [find_nodeP_sigE, hsig]; find_groups
    obtain ⟨s1, h1, hc1⟩ := childP_some (R := R) _ "OPERATION_DEFINITION" cs s hp _ hfo
    obtain ⟨l1, hl1⟩ := cOperationType_leaf ty d R s1 h1
    have hnm : ∃ l, optNameOf (⟨(Elem.node "OPERATION_DEFINITION" cs, s), hp⟩ : PE R) = some (name, l) := by
      unfold optNameOf
      rcases hname with ⟨rfl, rfl⟩ | ⟨x, rfl, hvx, rfl⟩
      · have : cs.find? (nodeP (· == "NAME")) = none := by
          rw [find_nodeP_sigE, hsig]
          rcases optVarDefs_kinds hvars with rfl | ⟨c2, rfl⟩ <;> rcases optDirs_kinds hdirs with rfl | ⟨c3, rfl⟩ <;> find_groups
        rw [child_eq_childP, childP_none (R := R) _ "OPERATION_DEFINITION" cs s hp this]
        exact ⟨[], rfl⟩
      · have : cs.find? (nodeP (· == "NAME")) = some (nameNode x) := by
          rw [find_nodeP_sigE, hsig]; find_groups
        obtain ⟨s', h', hc⟩ := childP_some (R := R) _ "OPERATION_DEFINITION" cs s hp _ this
        obtain ⟨l, hl⟩ := cName_nameNode x hvx R s' h'
        rw [child_eq_childP, hc]
        exact ⟨l ++ [], optM_some _ _ _ _ hl⟩
    obtain ⟨l2, hl2⟩ := hnm
    have hvd : ∃ l, (match child "VARIABLE_DEFINITIONS" (⟨(Elem.node "OPERATION_DEFINITION" cs, s), hp⟩ : PE R) with
        | some c => collectM (cVariableDefinition n) (children "VARIABLE_DEFINITION" c)
        | none => M.pure' []) = some (vars, l) := by
      rcases hvars with ⟨rfl, rfl⟩ | ⟨ev, rfl, hvn⟩
      · have : cs.find? (nodeP (· == "VARIABLE_DEFINITIONS")) = none := by
          rw [find_nodeP_sigE, hsig]
          rcases optName_kinds hname with rfl | ⟨c1, rfl⟩ <;> rcases optDirs_kinds hdirs with rfl | ⟨c3, rfl⟩ <;> find_groups
        rw [child_eq_childP, childP_none (R := R) _ "OPERATION_DEFINITION" cs s hp this]
        exact ⟨[], rfl⟩
      · obtain ⟨c2, rfl⟩ : ∃ c, ev = .node "VARIABLE_DEFINITIONS" c := by
          obtain ⟨c, _, _, _, rfl, _⟩ := hvn; exact ⟨c, rfl⟩
        have : cs.find? (nodeP (· == "VARIABLE_DEFINITIONS")) = some (.node "VARIABLE_DEFINITIONS" c2) := by
          rw [find_nodeP_sigE, hsig]
          rcases optName_kinds hname with rfl | ⟨c1, rfl⟩ <;> find_groups
        obtain ⟨s', h', hc⟩ := childP_some (R := R) _ "OPERATION_DEFINITION" cs s hp _ this
        have hsz : size (Elem.node "VARIABLE_DEFINITIONS" c2) ≤ n + 1 := by
          have := size_le_sizeList (mem_sigE (cs := cs) (e := Elem.node "VARIABLE_DEFINITIONS" c2) (by rw [hsig]; simp))
          rw [size_node] at hs; omega
        obtain ⟨l, hl⟩ := varDefs_collect n vars _ hvn hsz R s' h'
        rw [child_eq_childP, hc]
        exact ⟨l, hl⟩
    obtain ⟨l3, hl3⟩ := hvd
    have hfd : (sigE cs).find? (nodeP (· == "DIRECTIVES")) = td.head? := by
      rw [hsig]
      rcases optName_kinds hname with rfl | ⟨c1, rfl⟩ <;> rcases optVarDefs_kinds hvars with rfl | ⟨c2, rfl⟩ <;>
        rcases optDirs_kinds hdirs with rfl | ⟨c3, rfl⟩ <;> find_groups
    obtain ⟨l4, hl4⟩ := directivesOf_conv n "OPERATION_DEFINITION" cs dirs td hdirs hfd
      (by intro e he; rw [hsig]; simp [he]) hs R s hp
    have hfs : (sigE cs).find? (nodeP (· == "SELECTION_SET")) = some (.node "SELECTION_SET" c4) := by
      rw [hsig]
      rcases optName_kinds hname with rfl | ⟨c1, rfl⟩ <;> rcases optVarDefs_kinds hvars with rfl | ⟨c2, rfl⟩ <;>
        rcases optDirs_kinds hdirs with rfl | ⟨c3, rfl⟩ <;> find_groups
    obtain ⟨l5, hl5⟩ := selectionSetOf_conv n "OPERATION_DEFINITION" cs sels _ hnode hfs hs R s hp
    refine ⟨l1 ++ (l2 ++ (l3 ++ (l4 ++ (l5 ++ [])))), ?_⟩
    show cDefinition n _ = _
    rw [cDefinition_operation_eq n _ rfl]
    refine bind_ok ?_ (bind_ok hl2 (bind_ok hl3 (bind_ok hl4 (bind_ok hl5 (pure_ok _)))))
    rw [child_eq_childP, hc1]
    exact hl1
  · -- the shorthand
    have hno : cs.find? (nodeP (· == "OPERATION_TYPE")) = none := by rw [find_nodeP_sigE, hsig]; find_groups
    have hnn : cs.find? (nodeP (· == "NAME")) = none := by rw [find_nodeP_sigE, hsig]; find_groups
    have hnv : cs.find? (nodeP (· == "VARIABLE_DEFINITIONS")) = none := by rw [find_nodeP_sigE, hsig]; find_groups
    have hfd : (sigE cs).find? (nodeP (· == "DIRECTIVES")) = ([] : List Elem).head? := by rw [hsig]; find_groups
    obtain ⟨l4, hl4⟩ := directivesOf_conv n "OPERATION_DEFINITION" cs [] [] (Or.inl ⟨rfl, rfl⟩) hfd
      (by intro e he; cases he) hs R s hp
    have hfs : (sigE cs).find? (nodeP (· == "SELECTION_SET")) = some (.node "SELECTION_SET" c4) := by rw [hsig]; find_groups
    obtain ⟨l5, hl5⟩ := selectionSetOf_conv n "OPERATION_DEFINITION" cs sels _ hnode hfs hs R s hp
    refine ⟨[] ++ ([] ++ ([] ++ (l4 ++ (l5 ++ [])))), ?_⟩
    show cDefinition n _ = _
    rw [cDefinition_operation_eq n _ rfl]
    refine bind_ok ?_ (bind_ok ?_ (bind_ok ?_ (bind_ok hl4 (bind_ok hl5 (pure_ok _)))))
    · rw [child_eq_childP, childP_none (R := R) _ "OPERATION_DEFINITION" cs s hp hno]; rfl
    · unfold optNameOf
      rw [child_eq_childP, childP_none (R := R) _ "OPERATION_DEFINITION" cs s hp hnn]; rfl
    · rw [child_eq_childP, childP_none (R := R) _ "OPERATION_DEFINITION" cs s hp hnv]; rfl

end Apollo.FromCst
