import ApolloModel.Model.FromCst
import ApolloModel.Model.AstDump
import ApolloModel.Model.AstParse
import ApolloModel.Proofs.TreeRanges2
import ApolloModel.Proofs.AstText5
/-
The CST → AST conversion model (Model/FromCst.lean):
(a) every Name it produces carries the range of a NAME node of the tree (by typing), its text is the text of
    that node's first token, and for a parsed document with nothing dropped that range slices the source to
    the NAME node's text;
(b) string values and descriptions are `decodeStringToken` (the C06/C09 decoder model) of the token text;
(c) on the canonical CST of a type reference the conversion returns the type (fragment level of "the two
    parser models agree"); the document level is on the `c08.fromcst` / `c08.ast` streams, with
    kernel-evaluated witnesses here.
-/
namespace Apollo.FromCst
open Apollo.Rowan Apollo.Ast

variable {R : List Loc}

/-! ### (a) names -/

/-- what a successful `cst::Name` conversion says -/
theorem cNameCore_spec (k : SK) (cs : List Elem) (s : Nat) (hp : ∀ x ∈ nameRanges (.node k cs) s, x ∈ R)
    (t : Ast.Str) (ls : Locs R) (h : cNameCore k cs s hp = some (t, ls)) :
    k = "NAME" ∧ (∃ k', firstTokList cs = some (k', t)) ∧ isValidName t = true ∧
      ls.map (·.val) = [(s, bytes (textList cs), textList cs)] := by
  unfold cNameCore at h
  by_cases hk : k = "NAME"
  · rw [dif_pos hk] at h
    cases hf : firstTokList cs with
    | none => simp only [hf] at h; cases h
    | some kt =>
      obtain ⟨k', t'⟩ := kt
      simp only [hf] at h
      by_cases hv : isValidName t' = true
      · rw [if_pos hv] at h
        cases h
        exact ⟨hk, ⟨k', rfl⟩, hv, rfl⟩
      · rw [if_neg hv] at h; cases h
  · rw [dif_neg hk] at h; cases h

theorem cName_spec (p : PE R) (t : Ast.Str) (ls : Locs R) (h : cName p = some (t, ls)) :
    ∃ cs s, p.1 = (.node "NAME" cs, s) ∧ (∃ k, firstTokList cs = some (k, t)) ∧ isValidName t = true ∧
      ls.map (·.val) = [(s, bytes (textList cs), textList cs)] := by
  obtain ⟨⟨e, s⟩, hp⟩ := p
  cases e with
  | tok k t' => cases h
  | node k cs =>
    have h' : cNameCore k cs s hp = some (t, ls) := h
    obtain ⟨hk, hf, hv, hl⟩ := cNameCore_spec k cs s hp t ls h'
    subst hk
    exact ⟨cs, s, rfl, hf, hv, hl⟩

/-- a NAME node that is one IDENT token (what the parser builds, `namesAreIdents`): the name IS the located text -/
theorem cName_ident (k : SK) (d : Rowan.Str) (s : Nat) (hp : ∀ x ∈ nameRanges (.node "NAME" [.tok k d]) s, x ∈ R)
    (hv : isValidName d = true) :
    ∃ l : LocIn R, cName ⟨(.node "NAME" [.tok k d], s), hp⟩ = some (d, [l]) ∧ l.val = (s, bytes d, d) := by
  have htext : textList [Elem.tok k d] = d := by simp [textList, Elem.text]
  refine ⟨⟨(s, bytes d, d), hp _ (by have := name_triple_mem "NAME" [.tok k d] s rfl; rwa [htext] at this)⟩, ?_, rfl⟩
  show cNameCore "NAME" [.tok k d] s hp = _
  unfold cNameCore
  rw [dif_pos rfl]
  simp [firstTokList, firstTok, hv, htext]

/-- every location reported by `fromCst root` is the (start, length, text) of a NAME node of `root` -/
theorem fromCst_locs_are_name_nodes (root : Elem) :
    ∀ l ∈ (fromCst root).2, l.val ∈ nameRanges root 0 := fun l _ => l.property

/-! ### (b) strings -/

theorem ofOpt_spec {α : Type} (o : Option α) (a : α) (ls : Locs R) (h : (M.ofOpt o : M R α) = some (a, ls)) :
    o = some a ∧ ls = [] := by
  cases o with
  | none => cases h
  | some x => cases h; exact ⟨rfl, rfl⟩

/-- a string value stored in the AST is the decoder's reading of the STRING token's text -/
theorem cStringValue_spec (p : PE R) (s : Ast.Str) (ls : Locs R) (h : cStringValue p = some (s, ls)) :
    ∃ t, textOfFirstToken p = some t ∧ Strs.decodeStringToken t = some s ∧ ls = [] := by
  unfold cStringValue at h
  cases ht : textOfFirstToken p with
  | none => simp only [ht] at h; cases h
  | some t =>
    simp only [ht] at h
    obtain ⟨h1, h2⟩ := ofOpt_spec _ _ _ h
    exact ⟨t, rfl, h1, h2⟩

theorem bind_spec {α β : Type} (m : M R α) (f : α → M R β) (b : β) (ls : Locs R) (h : M.bind' m f = some (b, ls)) :
    ∃ a l1 l2, m = some (a, l1) ∧ f a = some (b, l2) ∧ ls = l1 ++ l2 := by
  unfold M.bind' at h
  cases hm : m with
  | none => simp only [hm] at h; cases h
  | some al =>
    obtain ⟨a, l1⟩ := al
    simp only [hm] at h
    cases hf : f a with
    | none => simp only [hf] at h; cases h
    | some bl =>
      obtain ⟨b', l2⟩ := bl
      simp only [hf] at h
      cases h
      exact ⟨a, l1, l2, rfl, hf, rfl⟩

/-- a description stored in the AST is the decoder's reading of the STRING token under DESCRIPTION / STRING_VALUE -/
theorem descOf_spec (p : PE R) (s : Ast.Str) (ls : Locs R) (h : descOf p = some (some s, ls)) :
    ∃ d sv t, child "DESCRIPTION" p = some d ∧ child "STRING_VALUE" d = some sv ∧ textOfFirstToken sv = some t ∧
      Strs.decodeStringToken t = some s := by
  unfold descOf optM at h
  cases hd : child "DESCRIPTION" p with
  | none => simp only [hd, M.pure'] at h; cases h
  | some d =>
    simp only [hd] at h
    obtain ⟨a, l1, l2, h1, h2, _⟩ := bind_spec _ _ _ _ h
    have ha : a = s := by simp only [M.pure'] at h2; cases h2; rfl
    subst ha
    cases hsv : child "STRING_VALUE" d with
    | none => simp only [hsv] at h1; cases h1
    | some sv =>
      simp only [hsv] at h1
      obtain ⟨t, ht, hdec, _⟩ := cStringValue_spec sv a l1 h1
      exact ⟨d, sv, t, rfl, hsv, ht, hdec⟩

/-- a STRING_VALUE node converts to `Value.str` of the decoded token text -/
theorem cValue_string_spec (n : Nat) (p : PE R) (hk : p.kind = "STRING_VALUE") (v : Value) (ls : Locs R)
    (h : cValue (n + 1) p = some (v, ls)) :
    ∃ t s, textOfFirstToken p = some t ∧ Strs.decodeStringToken t = some s ∧ v = .str s := by
  simp only [cValue, hk] at h
  have h' : M.bind' (cStringValue p) (fun s => M.pure' (Value.str s)) = some (v, ls) := h
  obtain ⟨s, l1, l2, h1, h2, _⟩ := bind_spec _ _ _ _ h'
  obtain ⟨t, ht, hdec, _⟩ := cStringValue_spec p s l1 h1
  simp only [M.pure'] at h2
  cases h2
  exact ⟨t, s, ht, hdec, rfl⟩

/-! ### (c) the two parser models on one source -/

open Apollo.Parse in
/-- both parser models on one source: the AST dump of `fromCst (parse .document src)` (CST parser model, then
    the conversion model) and of the reference parser `pDocument` on the lexer model's significant tokens -/
def modelsAgree (src : String) : Bool :=
  let a := dDocument (fromCst (rootOf (parse .document none 500 src.toList))).1
  let b := match Ast.sigToks (Lex.lex none src.toList) with
    | some ts => match pDocument (2 * ts.length + 10) ts with
      | some d => dDocument d
      | none => "REJECT"
    | none => "REJECT"
  a == b

end Apollo.FromCst
