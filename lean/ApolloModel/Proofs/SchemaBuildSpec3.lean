import ApolloModel.Proofs.SchemaBuildSpec2
/-
C14 growth 3, third part: the loop invariant of `add_ast_document` and the step lemmas per definition kind.
-/
namespace Apollo.SchemaBuild

theorem find_replace {α : Type} (nm : α → Name) (a : Name) (y : α) (hy : nm y = a) (n : Name) : ∀ (l : List α),
    (l.map (fun x => if nm x == a then y else x)).find? (fun x => nm x == n) =
      if n = a then (l.find? (fun x => nm x == a)).map (fun _ => y) else l.find? (fun x => nm x == n) := by
  intro l
  induction l with
  | nil => simp
  | cons x l ih =>
    simp only [List.map_cons]
    by_cases hxa : nm x = a
    · have e1 : (if nm x == a then y else x) = y := by simp [hxa]
      rw [e1]
      by_cases hna : n = a
      · rw [if_pos hna, List.find?_cons_of_pos (by simp [hy, hna]), List.find?_cons_of_pos (by simp [hxa])]; rfl
      · have h1 : ¬ a = n := fun h => hna h.symm
        rw [if_neg hna, List.find?_cons_of_neg (by simp [hy, h1]), List.find?_cons_of_neg (by simp [hxa, h1]), ih, if_neg hna]
    · have e1 : (if nm x == a then y else x) = x := by simp [hxa]
      rw [e1]
      by_cases hxn : nm x = n
      · have hna : ¬ n = a := fun h => hxa (hxn.trans h)
        rw [if_neg hna, List.find?_cons_of_pos (by simp [hxn]), List.find?_cons_of_pos (by simp [hxn])]
      · rw [List.find?_cons_of_neg (by simp [hxn]), ih]
        by_cases hna : n = a
        · rw [if_pos hna, if_pos hna, List.find?_cons_of_neg (by simp [hxa])]
        · rw [if_neg hna, if_neg hna, List.find?_cons_of_neg (by simp [hxn])]

theorem findType_append (ts : List TypeEntry) (t : TypeEntry) (n : Name) :
    findType (ts ++ [t]) n = (findType ts n).or (if t.name == n then some t else none) := by
  unfold findType
  rw [List.find?_append]
  simp [List.find?_cons]
  split <;> simp_all

theorem findType_setType (ts : List TypeEntry) (n : Name) (t' : TypeEntry) (h : t'.name = n) (m : Name) :
    findType (setType ts n t') m = if m = n then (findType ts n).map (fun _ => t') else findType ts m := by
  unfold findType setType
  exact find_replace (fun t : TypeEntry => t.name) n t' h m ts

theorem findType_name {ts : List TypeEntry} {n : Name} {t : TypeEntry} (h : findType ts n = some t) : t.name = n := by
  unfold findType at h
  have := List.find?_some h
  simpa using this

/-- loop invariant, type part -/
structure TInv (pre : List Def) (s : Builder) : Prop where
  kinds : ∀ n, (findType s.types n).map (·.kind) = kindOfName pre n
  members : ∀ n t, findType s.types n = some t → Views t.body.members (memberNames pre n)
  ifaces : ∀ n t, findType s.types n = some t → Views t.body.interfaces (ifaceNames pre n)
  queue : s.orphanQ = pre.filter (fun e => e.extKind.isSome && (kindOfName pre e.name).isNone)

/-- loop invariant, schema part -/
structure SInv (pre : List Def) (s : Builder) : Prop where
  found : s.schemaFound = true ↔ schemaDefCount pre ≠ 0
  whenFound : s.schemaFound = true → s.orphanSchemaExts = [] ∧ Views s.schemaDef.body.members (schemaOpNames pre) ∧
    Views s.schemaDef.body.interfaces []
  whenNot : s.schemaFound = false → s.orphanSchemaExts = schemaExts pre ∧ s.schemaDef = ⟨none, Body.empty⟩

/-- loop invariant, directive part -/
structure DInv (pre : List Def) (s : Builder) : Prop where
  unknown : ∀ n, findDir s.directiveDefs n = none → n ∉ dirDefNames pre
  builtin : ∀ n e, findDir s.directiveDefs n = some e → (e.builtin = true ↔ n ∉ dirDefNames pre)

structure Inv (pre : List Def) (s : Builder) : Prop where
  adopt : s.adopt = false
  ignore : s.ignoreBuiltin = false
  t : TInv pre s
  sch : SInv pre s
  d : DInv pre s

/-! a definition that is not about types leaves the type part alone, and so on -/

theorem TInv_other {pre : List Def} {s s' : Builder} {d : Def} (h : TInv pre s) (hd : d.isTypePart = false)
    (h1 : s'.types = s.types) (h2 : s'.orphanQ = s.orphanQ) : TInv (pre ++ [d]) s' := by
  have hdk : d.defKind = none := by
    cases hk : d.defKind with
    | none => rfl
    | some k => simp [Def.isTypePart, hk] at hd
  have hek : d.extKind = none := by
    cases hk : d.extKind with
    | none => rfl
    | some k => simp [Def.isTypePart, hk] at hd
  have hk : ∀ n, kindOfName (pre ++ [d]) n = kindOfName pre n := fun n => kindOfName_snoc_noDef pre d n hdk
  refine ⟨?_, ?_, ?_, ?_⟩
  · intro n; rw [h1, hk]; exact h.kinds n
  · intro n t ht; rw [h1] at ht; rw [memberNames_snoc, hd]; simpa using h.members n t ht
  · intro n t ht; rw [h1] at ht; rw [ifaceNames_snoc, hd]; simpa using h.ifaces n t ht
  · rw [h2, h.queue, List.filter_append]
    simp only [hk]
    simp [hek]

theorem SInv_other {pre : List Def} {s s' : Builder} {d : Def} (h : SInv pre s) (hd : d.isSchemaPart = false)
    (h1 : s'.schemaFound = s.schemaFound) (h2 : s'.schemaDef = s.schemaDef) (h3 : s'.orphanSchemaExts = s.orphanSchemaExts) :
    SInv (pre ++ [d]) s' := by
  have hsd : d.isSchemaDef = false := by
    cases hk : d.isSchemaDef with
    | false => rfl
    | true => simp [Def.isSchemaPart, hk] at hd
  have hse : d.isSchemaExt = false := by
    cases hk : d.isSchemaExt with
    | false => rfl
    | true => simp [Def.isSchemaPart, hk] at hd
  have hc : schemaDefCount (pre ++ [d]) = schemaDefCount pre := by rw [schemaDefCount_snoc, hsd]; rfl
  have ho : schemaOpNames (pre ++ [d]) = schemaOpNames pre := by rw [schemaOpNames_snoc, hd]; simp
  have he : schemaExts (pre ++ [d]) = schemaExts pre := by rw [schemaExts_snoc, hse]; simp
  exact ⟨by rw [hc, h1]; exact h.found, by rw [ho, h1, h2, h3]; exact h.whenFound, by rw [he, h1, h2, h3]; exact h.whenNot⟩

theorem DInv_other {pre : List Def} {s s' : Builder} {d : Def} (h : DInv pre s) (hd : d.isDirectiveDef = false)
    (h1 : s'.directiveDefs = s.directiveDefs) : DInv (pre ++ [d]) s' := by
  have : dirDefNames (pre ++ [d]) = dirDefNames pre := by rw [dirDefNames_snoc, hd]; simp
  exact ⟨by rw [this, h1]; exact h.unknown, by rw [this, h1]; exact h.builtin⟩


/-! ### `TOK` by tag -/

theorem TOK_ext_iff (pre : List Def) (e : Def) (k : Kind) (htag : e.tag = .typeExt k) :
    TOK pre e ↔ ∀ k', kindOfName pre e.name = some k' →
      k' = k ∧ (memberNames pre e.name ++ names e.members).Nodup ∧ (ifaceNames pre e.name ++ names e.interfaces).Nodup := by
  unfold TOK
  constructor
  · intro h; exact h.2 k htag
  · intro h
    refine ⟨fun k1 hk1 => (by rw [htag] at hk1; cases hk1), fun k1 hk1 => ?_⟩
    have : k1 = k := by rw [htag] at hk1; cases hk1; rfl
    subst this; exact h

theorem TOK_def_iff (pre : List Def) (d : Def) (k : Kind) (htag : d.tag = .typeDef k) :
    TOK pre d ↔ (kindOfName pre d.name = none ∧
      (∀ e ∈ pre, e.name = d.name → ∀ k', e.tag = .typeExt k' → k' = k) ∧
      (memberNames pre d.name ++ names d.members).Nodup ∧ (ifaceNames pre d.name ++ names d.interfaces).Nodup) := by
  unfold TOK
  constructor
  · intro h; exact h.1 k htag
  · intro h
    refine ⟨fun k1 hk1 => ?_, fun k1 hk1 => (by rw [htag] at hk1; cases hk1)⟩
    have : k1 = k := by rw [htag] at hk1; cases hk1; rfl
    subst this; exact h

theorem TOK_other (pre : List Def) (d : Def) (h : d.isTypePart = false) : TOK pre d := by
  unfold TOK
  constructor
  · intro k hk; simp [Def.isTypePart, (defKind_some d k).mpr hk] at h
  · intro k hk; simp [Def.isTypePart, (extKind_some d k).mpr hk] at h

theorem kind_of_find {pre : List Def} {s : Builder} (h : TInv pre s) {n : Name} {t : TypeEntry}
    (hf : findType s.types n = some t) : kindOfName pre n = some t.kind := by
  rw [← h.kinds n, hf]; rfl

theorem kind_of_find_none {pre : List Def} {s : Builder} (h : TInv pre s) {n : Name}
    (hf : findType s.types n = none) : kindOfName pre n = none := by
  rw [← h.kinds n, hf]; rfl

/-! ### a type extension -/

theorem stepTypeExt_frame (s : Builder) (k : Kind) (e : Def) :
    (stepTypeExt s k e).adopt = s.adopt ∧ (stepTypeExt s k e).ignoreBuiltin = s.ignoreBuiltin ∧
    (stepTypeExt s k e).directiveDefs = s.directiveDefs ∧ (stepTypeExt s k e).schemaDef = s.schemaDef ∧
    (stepTypeExt s k e).schemaFound = s.schemaFound ∧ (stepTypeExt s k e).orphanSchemaExts = s.orphanSchemaExts := by
  unfold stepTypeExt
  cases findType s.types e.name with
  | none => simp
  | some t =>
    by_cases h : t.kind = k
    · simp [h]
    · simp [h, push]

theorem stepTypeExt_spec (pre : List Def) (s : Builder) (e : Def) (k : Kind) (hi : TInv pre s) (hp : PT pre)
    (htag : e.tag = .typeExt k) :
    Grow s.errors (stepTypeExt s k e).errors (TOK pre e) ∧
    ((stepTypeExt s k e).errors = s.errors → TInv (pre ++ [e]) (stepTypeExt s k e)) := by
  have hek : e.extKind = some k := (extKind_some e k).mpr htag
  have hdk : e.defKind = none := by simp [Def.defKind, htag]
  have hpart : e.isTypePart = true := by simp [Def.isTypePart, hek]
  have hk : ∀ n, kindOfName (pre ++ [e]) n = kindOfName pre n := fun n => kindOfName_snoc_noDef pre e n hdk
  rw [TOK_ext_iff pre e k htag]
  cases hf : findType s.types e.name with
  | none =>
    have hnone := kind_of_find_none hi hf
    have heq : stepTypeExt s k e = { s with orphanQ := s.orphanQ ++ [e] } := by unfold stepTypeExt; rw [hf]
    rw [heq]
    refine ⟨(Grow.refl _).congr ?_, fun _ => ⟨?_, ?_, ?_, ?_⟩⟩
    · rw [hnone]; simp
    · intro n; rw [hk]; exact hi.kinds n
    · intro n t ht
      have hne : ¬ e.name = n := fun h => by rw [h] at hf; rw [hf] at ht; cases ht
      rw [memberNames_snoc]; simpa [hne] using hi.members n t ht
    · intro n t ht
      have hne : ¬ e.name = n := fun h => by rw [h] at hf; rw [hf] at ht; cases ht
      rw [ifaceNames_snoc]; simpa [hne] using hi.ifaces n t ht
    · show s.orphanQ ++ [e] = _
      rw [hi.queue, List.filter_append]
      simp only [hk]
      simp [hek, hnone]
  | some t =>
    have hkind := kind_of_find hi hf
    have hname := findType_name hf
    have hM := hi.members e.name t hf
    have hI := hi.ifaces e.name t hf
    have hndM := hp.uniqueMembers e.name (by rw [hkind]; simp)
    have hndI := hp.uniqueInterfaces e.name (by rw [hkind]; simp)
    by_cases hkk : t.kind = k
    · have heq : stepTypeExt s k e = { s with types := setType s.types e.name (extendType t e s.errors).1, errors := (extendType t e s.errors).2 } := by
        unfold stepTypeExt; rw [hf]; simp [hkk]
      obtain ⟨n1, k1, v1, v2, g⟩ := extendType_spec t e s.errors _ _ hM hI
      rw [heq]
      refine ⟨g.congr ?_, fun _ => ⟨?_, ?_, ?_, ?_⟩⟩
      · rw [hkind]
        constructor
        · intro ⟨a, b⟩ k' hk'
          have : t.kind = k' := Option.some.inj hk'
          exact ⟨this ▸ hkk, (nodup_append_fresh _ _).mpr ⟨hndM, a⟩, (nodup_append_fresh _ _).mpr ⟨hndI, b⟩⟩
        · intro h
          obtain ⟨_, a, b⟩ := h t.kind rfl
          exact ⟨((nodup_append_fresh _ _).mp a).2, ((nodup_append_fresh _ _).mp b).2⟩
      · intro n
        show (findType (setType s.types e.name (extendType t e s.errors).1) n).map (·.kind) = _
        rw [findType_setType _ _ _ (n1.trans hname), hk]
        by_cases hn : n = e.name
        · rw [if_pos hn, hf, hn, hkind]; simp [k1]
        · rw [if_neg hn]; exact hi.kinds n
      · intro n t2 ht2
        change findType (setType s.types e.name (extendType t e s.errors).1) n = some t2 at ht2
        rw [findType_setType _ _ _ (n1.trans hname)] at ht2
        rw [memberNames_snoc]
        by_cases hn : n = e.name
        · rw [if_pos hn, hf] at ht2
          have : t2 = (extendType t e s.errors).1 := by simpa using ht2.symm
          subst this
          rw [hn]; simpa [hpart] using v1
        · rw [if_neg hn] at ht2
          have hne : ¬ e.name = n := fun h => hn h.symm
          simpa [hne] using hi.members n t2 ht2
      · intro n t2 ht2
        change findType (setType s.types e.name (extendType t e s.errors).1) n = some t2 at ht2
        rw [findType_setType _ _ _ (n1.trans hname)] at ht2
        rw [ifaceNames_snoc]
        by_cases hn : n = e.name
        · rw [if_pos hn, hf] at ht2
          have : t2 = (extendType t e s.errors).1 := by simpa using ht2.symm
          subst this
          rw [hn]; simpa [hpart] using v2
        · rw [if_neg hn] at ht2
          have hne : ¬ e.name = n := fun h => hn h.symm
          simpa [hne] using hi.ifaces n t2 ht2
      · show s.orphanQ = _
        rw [hi.queue, List.filter_append]
        simp only [hk]
        simp [hkind]
    · have heq : stepTypeExt s k e = push s e.namePos (.typeExtensionKindMismatch e.name k t.kind) := by
        unfold stepTypeExt; rw [hf]; simp [hkk]
      rw [heq]
      refine ⟨(Grow.push _ _).congr ?_, fun h => ?_⟩
      · constructor
        · intro h; exact absurd h id
        · intro h; exact hkk (h t.kind hkind).1
      · simp [push] at h


/-! ### a type definition -/

theorem no_def_of_unknown {pre : List Def} {n : Name} (hnone : kindOfName pre n = none) {e : Def} (he : e ∈ pre)
    (hn : e.name = n) : e.defKind = none := by
  cases hk : e.defKind with
  | none => rfl
  | some k0 =>
    exfalso
    rw [kindOfName_none_iff] at hnone
    apply hnone
    apply List.mem_append_right
    unfold typeDefNames
    exact List.mem_map.mpr ⟨e, List.mem_filter.mpr ⟨he, by simp [hk]⟩, hn⟩

theorem parts_are_exts {pre : List Def} {n : Name} (hnone : kindOfName pre n = none) {e : Def} (he : e ∈ partsOf pre n) :
    ∃ k', e.tag = .typeExt k' := by
  unfold partsOf at he
  obtain ⟨hmem, hc⟩ := List.mem_filter.mp he
  simp only [Bool.and_eq_true, beq_iff_eq] at hc
  have hdk := no_def_of_unknown hnone hmem hc.2
  have : e.extKind.isSome = true := by simpa [Def.isTypePart, hdk] using hc.1
  obtain ⟨k', hk'⟩ := Option.isSome_iff_exists.mp this
  exact ⟨k', (extKind_some e k').mp hk'⟩

theorem queue_parts {pre : List Def} {s : Builder} (hi : TInv pre s) {n : Name} (hnone : kindOfName pre n = none) :
    s.orphanQ.filter (fun e => e.name == n) = partsOf pre n := by
  rw [hi.queue, List.filter_filter]
  unfold partsOf
  apply List.filter_congr
  intro e he
  by_cases hn : e.name = n
  · have hdk := no_def_of_unknown hnone he hn
    rw [hn, hnone]
    simp [Def.isTypePart, hdk]
  · have hb : (e.name == n) = false := beq_eq_false_iff_ne.mpr hn
    rw [hb]; simp

theorem stepTypeDef_frame (s : Builder) (k : Kind) (d : Def) :
    (stepTypeDef s k d).adopt = s.adopt ∧ (stepTypeDef s k d).ignoreBuiltin = s.ignoreBuiltin ∧
    (stepTypeDef s k d).directiveDefs = s.directiveDefs ∧ (stepTypeDef s k d).schemaDef = s.schemaDef ∧
    (stepTypeDef s k d).schemaFound = s.schemaFound ∧ (stepTypeDef s k d).orphanSchemaExts = s.orphanSchemaExts := by
  unfold stepTypeDef
  cases findType s.types d.name with
  | none => exact ⟨rfl, rfl, rfl, rfl, rfl, rfl⟩
  | some t =>
    by_cases h1 : (s.ignoreBuiltin && t.builtin) = true
    · simp [h1]
    · by_cases h2 : (k == Kind.scalar && t.builtin) = true
      · simp only [h1, h2]; simp [push]
      · simp only [h1, h2]; simp [push]

theorem stepTypeDef_spec (pre : List Def) (s : Builder) (d : Def) (k : Kind) (hi : TInv pre s)
    (hig : s.ignoreBuiltin = false) (htag : d.tag = .typeDef k) :
    Grow s.errors (stepTypeDef s k d).errors (TOK pre d) ∧
    ((stepTypeDef s k d).errors = s.errors → TInv (pre ++ [d]) (stepTypeDef s k d)) := by
  have hdk : d.defKind = some k := (defKind_some d k).mpr htag
  have hek : d.extKind = none := by simp [Def.extKind, htag]
  have hpart : d.isTypePart = true := by simp [Def.isTypePart, hdk]
  rw [TOK_def_iff pre d k htag]
  cases hf : findType s.types d.name with
  | some prev =>
    have hkind := kind_of_find hi hf
    have : ∃ p x, stepTypeDef s k d = push s p x := by
      unfold stepTypeDef
      rw [hf]
      by_cases h2 : (k == Kind.scalar && prev.builtin) = true
      · exact ⟨_, _, by simp only [hig, Bool.false_and, h2]; rfl⟩
      · exact ⟨_, _, by simp only [hig, Bool.false_and, h2]; rfl⟩
    obtain ⟨p, x, heq⟩ := this
    rw [heq]
    refine ⟨(Grow.push _ _).congr ?_, fun h => ?_⟩
    · constructor
      · intro h; exact absurd h id
      · intro h; rw [hkind] at h; cases h.1
    · simp [push] at h
  | none =>
    have hnone := kind_of_find_none hi hf
    have hq := queue_parts hi hnone
    have heq : stepTypeDef s k d = { s with types := s.types ++ [(typeFromAst k d (s.orphanQ.filter (fun e => e.name == d.name)) s.errors).1], orphanQ := s.orphanQ.filter (fun e => !(e.name == d.name)), errors := (typeFromAst k d (s.orphanQ.filter (fun e => e.name == d.name)) s.errors).2 } := by
      unfold stepTypeDef; rw [hf]
    rw [heq, hq]
    obtain ⟨n1, k1, v, g⟩ := typeFromAst_spec k d (partsOf pre d.name) s.errors
    have htags : (∀ e ∈ partsOf pre d.name, e.tag = .typeExt k) ↔
        (∀ e ∈ pre, e.name = d.name → ∀ k', e.tag = .typeExt k' → k' = k) := by
      constructor
      · intro h e he hn k' hk'
        have hmem : e ∈ partsOf pre d.name := by
          unfold partsOf
          exact List.mem_filter.mpr ⟨he, by simp [Def.isTypePart, (extKind_some e k').mpr hk', hn]⟩
        have := h e hmem
        rw [hk'] at this; cases this; rfl
      · intro h e he
        obtain ⟨k', hk'⟩ := parts_are_exts hnone he
        have hm := List.mem_filter.mp he
        have hn : e.name = d.name := by
          have := hm.2
          simp only [Bool.and_eq_true, beq_iff_eq] at this
          exact this.2
        rw [hk', h e hm.1 hn k' hk']
    have hmn : (partsOf pre d.name).flatMap mems = memberNames pre d.name := rfl
    have hin : (partsOf pre d.name).flatMap ifs = ifaceNames pre d.name := rfl
    rw [hmn, hin] at g v
    refine ⟨g.congr ?_, fun hsame => ?_⟩
    · rw [htags]
      constructor
      · intro ⟨a, b, c⟩; exact ⟨hnone, a, b, c⟩
      · intro ⟨_, a, b, c⟩; exact ⟨a, b, c⟩
    · have hP := (g.same_iff).mp hsame
      obtain ⟨v1, v2⟩ := v hP.1
      refine ⟨?_, ?_, ?_, ?_⟩
      · intro n
        show (findType (s.types ++ [_]) n).map (·.kind) = _
        rw [findType_append, kindOfName_snoc, ← hi.kinds n]
        cases hfn : findType s.types n with
        | some x => rfl
        | none =>
          simp only [Option.map_none, Option.none_or, n1, hdk]
          by_cases hn : d.name = n
          · subst hn; simp [k1]
          · simp [hn]
      · intro n t ht
        change findType (s.types ++ [_]) n = some t at ht
        rw [findType_append] at ht
        rw [memberNames_snoc]
        cases hfn : findType s.types n with
        | some x =>
          rw [hfn] at ht
          have hne : ¬ d.name = n := fun h => by rw [h] at hf; rw [hf] at hfn; cases hfn
          have : x = t := by simpa using ht
          subst this
          simpa [hne] using hi.members n x hfn
        | none =>
          rw [hfn, n1] at ht
          by_cases hn : d.name = n
          · have : (typeFromAst k d (partsOf pre d.name) s.errors).1 = t := by simpa [hn] using ht
            subst this
            rw [← hn]; simpa [hpart] using v1
          · simp [hn] at ht
      · intro n t ht
        change findType (s.types ++ [_]) n = some t at ht
        rw [findType_append] at ht
        rw [ifaceNames_snoc]
        cases hfn : findType s.types n with
        | some x =>
          rw [hfn] at ht
          have hne : ¬ d.name = n := fun h => by rw [h] at hf; rw [hf] at hfn; cases hfn
          have : x = t := by simpa using ht
          subst this
          simpa [hne] using hi.ifaces n x hfn
        | none =>
          rw [hfn, n1] at ht
          by_cases hn : d.name = n
          · have : (typeFromAst k d (partsOf pre d.name) s.errors).1 = t := by simpa [hn] using ht
            subst this
            rw [← hn]; simpa [hpart] using v2
          · simp [hn] at ht
      · show s.orphanQ.filter (fun e => !(e.name == d.name)) = _
        rw [hi.queue, List.filter_filter, List.filter_append]
        have : [d].filter (fun e => e.extKind.isSome && (kindOfName (pre ++ [d]) e.name).isNone) = [] := by simp [hek]
        rw [this, List.append_nil]
        apply List.filter_congr
        intro e he
        rw [kindOfName_snoc]
        cases hke : kindOfName pre e.name with
        | some x => simp
        | none =>
          by_cases hn : d.name = e.name
          · simp [hn, hdk]
          · have : ¬ e.name = d.name := fun h => hn h.symm
            simp [hn, this]

end Apollo.SchemaBuild
