import ApolloModel.Spec.Execution
/- C26: the executor model refines the specification's algorithms — part 1: CollectFields,
   CoerceArgumentValues, ResolveAbstractType. -/
namespace Apollo.ExecSpec
open Apollo Apollo.Exec

theorem directiveIf_eq (vars : AList Json) (c : Option Cond) : directiveIf vars c = evalIf vars c := by
  cases c with
  | none => rfl
  | some c => cases c <;> rfl

theorem skipped_eq (vars : AList Json) (d : Dirs) : skipped vars d = excluded vars d := by
  unfold skipped excluded
  rw [directiveIf_eq, directiveIf_eq]
  cases evalIf vars d.skip with
  | none => cases evalIf vars d.incl with
    | none => rfl
    | some b => cases b <;> rfl
  | some a => cases evalIf vars d.incl with
    | none => cases a <;> rfl
    | some b => cases a <;> cases b <;> rfl

theorem doesFragmentTypeApply_eq (s : Schema) (o f : String) : doesFragmentTypeApply s o f = fragmentApplies s o f := by
  unfold doesFragmentTypeApply fragmentApplies
  cases s.kind? f with
  | none => rfl
  | some k =>
    cases k <;> simp
    · simp [BEq.comm]
    · cases AList.get? s.objects o <;> simp

theorem appendToGroup_eq : ∀ (g : AList (List Sel)) (k : String) (s : Sel), appendToGroup g k s = pushGroup g k s := by
  intro g
  induction g with
  | nil => intro k s; rfl
  | cons hd tl ih =>
    intro k s
    obtain ⟨k', fs⟩ := hd
    simp [appendToGroup, pushGroup, ih]

/-- CollectFields: the specification's algorithm and `collect_fields` are the same function. -/
theorem collectFields_eq (env : Env) (objTy : String) : ∀ n sels visited groups,
    collectFields env objTy n sels visited groups = Exec.collectFields env objTy n sels visited groups := by
  intro n
  induction n with
  | zero => intro sels visited groups; rfl
  | succ n ih =>
    intro sels visited groups
    cases sels with
    | nil => rfl
    | cons sel rest =>
      simp only [collectFields, Exec.collectFields, skipped_eq]
      cases hx : excluded env.vars sel.dirs with
      | true => simp [ih]
      | false =>
        simp only [Bool.false_eq_true, if_false]
        cases sel with
        | field a nm args d sub => simp [ih, appendToGroup_eq]
        | spread name d =>
          simp only
          cases hv : visited.contains name with
          | true => simp [ih]
          | false =>
            simp only [Bool.false_eq_true, if_false]
            cases hf : AList.get? env.frags name with
            | none => simp [ih]
            | some frag =>
              simp only [doesFragmentTypeApply_eq]
              cases ha : fragmentApplies env.schema objTy frag.cond with
              | true =>
                simp only [if_true, Bool.not_true, Bool.false_eq_true, if_false, ih]
                generalize Exec.collectFields env objTy n frag.sub (name :: visited) groups = r
                cases r with
                | none => rfl
                | some p => obtain ⟨a, b⟩ := p; rfl
              | false => simp [ih]
        | inline cond d sub =>
          have hmatch : (match Exec.collectFields env objTy n sub visited groups with
                | none => none
                | some (visited', grouped') => Exec.collectFields env objTy n rest visited' grouped') =
              (match Exec.collectFields env objTy n sub visited groups with
                | none => none
                | some (visited, groups) => Exec.collectFields env objTy n rest visited groups) := rfl
          cases cond with
          | none =>
            simp [ih]
            generalize Exec.collectFields env objTy n sub visited groups = r
            cases r with
            | none => rfl
            | some p => obtain ⟨a, b⟩ := p; rfl
          | some c =>
            simp only [Option.map_some, Option.getD_some, doesFragmentTypeApply_eq]
            by_cases ha : fragmentApplies env.schema objTy c = true
            · simp only [ha, if_true, Bool.not_true, Bool.false_eq_true, if_false, ih]
              generalize Exec.collectFields env objTy n sub visited groups = r
              cases r with
              | none => rfl
              | some p => obtain ⟨a, b⟩ := p; rfl
            · have ha' : fragmentApplies env.schema objTy c = false := by simpa using ha
              simp [ha', ih]

theorem apollo_coerceLiteral (env : Env) (ty : Ty) (v : AVal) :
    Choices.apollo.coerceLiteral env ty v = coerceArgValue env (v.size + ty.depth + 2) ty v := rfl

macro "lit_case" : tactic => `(tactic| (
  simp only [apollo_coerceLiteral]
  split
  · rfl
  · generalize coerceArgValue _ _ _ _ = r
    cases r <;> simp [*]))

/-- CoerceArgumentValues: the specification's hasValue / default / non-null case analysis and the loop
    of `coerce_argument_values` agree (literal coercion being apollo's). -/
theorem coerceArgumentValues_eq (env : Env) (given : List (String × AVal)) : ∀ defs acc,
    coerceArgumentValues Choices.apollo env given defs acc = coerceArgs env given defs acc := by
  intro defs
  induction defs with
  | nil => intro acc; rfl
  | cons ad rest ih =>
    intro acc
    simp only [coerceArgumentValues, coerceArgs, argSource]
    cases hg : aget? given ad.name with
    | none =>
      simp only
      cases hd : ad.default with
      | none => simp only; split <;> simp [ih]
      | some d => simp [ih]
    | some v =>
      cases v with
      | var vn =>
        simp only
        cases hv : AList.get? env.vars vn with
        | none =>
          simp only
          cases hd : ad.default with
          | none => simp only; split <;> simp [ih]
          | some d => simp [ih]
        | some val => simp only; split <;> simp [ih]
      | null => lit_case
      | bool b => lit_case
      | int z => lit_case
      | float t => lit_case
      | str s => lit_case
      | «enum» e => lit_case
      | list xs => lit_case
      | obj kvs => lit_case

theorem kind_object_get (s : Schema) (n : String) (d : ObjectDef) (h : s.kind? n = some (.object d)) :
    AList.get? s.objects n = some d := by
  unfold Schema.kind? at h
  cases hg : AList.get? s.objects n with
  | some d' => simp [hg] at h; rw [h]
  | none =>
    simp only [hg] at h
    split at h
    · cases h
    · split at h
      · cases h
      · split at h <;> cases h

/-- ResolveAbstractType / possible-type check -/
theorem isPossibleType_eq (s : Schema) (tyName : String) (k : Kind) (hk : s.kind? tyName = some k) (resolvedTy : String) :
    isPossibleType s tyName k resolvedTy = resolveObjectType s tyName k resolvedTy := by
  unfold isPossibleType resolveObjectType
  cases k with
  | scalar => cases AList.get? s.objects resolvedTy <;> rfl
  | «enum» vs => cases AList.get? s.objects resolvedTy <;> rfl
  | inputObject fs => cases AList.get? s.objects resolvedTy <;> rfl
  | interface => cases AList.get? s.objects resolvedTy <;> rfl
  | union ms => cases AList.get? s.objects resolvedTy <;> rfl
  | object d =>
    have hg := kind_object_get s tyName d hk
    by_cases he : resolvedTy = tyName
    · subst he
      simp [hg]
    · cases AList.get? s.objects resolvedTy <;> simp [he]

theorem mergeSelectionSets_eq : ∀ fields, mergeSelectionSets fields = subSelections fields := by
  intro fields
  induction fields with
  | nil => rfl
  | cons f rest ih => simp [mergeSelectionSets, subSelections, ih]

theorem resolveFieldValue_eq (env : Env) (objTy : String) (objId : Nat) (fname : String) (args : AList Json) :
    resolveFieldValue env objTy objId fname args =
      (if fname = "__typename" then some (.leaf (.str objTy))
       else
         match env.world.get? objId fname with
         | none => none
         | some .error => none
         | some .echo => some (.leaf (.obj args))
         | some rv => some rv) := by
  unfold resolveFieldValue
  split
  · rfl
  · cases h : env.world.get? objId fname with
    | none => rfl
    | some rv => cases rv <;> rfl

end Apollo.ExecSpec
