import ApolloModel.Proofs.ParserExactC12
/-
EXACT-BUDGET COPY of ParserComplete14 (namespace Apollo.Parse.Exact, exact `vdepth`).
C05 / C07 growth (completeness), part 14: executable definitions through the document dispatch, and the
document loop.
-/
set_option linter.unusedSimpArgs false
namespace Apollo.Parse.Exact
open Apollo.Rowan hiding Str
open Apollo.Lex hiding Str

/-! ### `select_definition` on the keywords of executable definitions -/

theorem selectDefinition_op (n : Nat) (d : Str) (h1 : kw "directive" d = false) (h2 : kw "enum" d = false)
    (h3 : kw "extend" d = false) (h4 : kw "fragment" d = false) (h5 : kw "input" d = false) (h6 : kw "interface" d = false)
    (h7 : kw "type" d = false) (h8 : (kw "query" d || kw "mutation" d || kw "subscription" d || kw "{" d) = true) :
    selectDefinition n d = operationDefinition n := by
  unfold selectDefinition
  simp only [h1, h2, h3, h4, h5, h6, h7, h8, Bool.false_eq_true, if_false, if_true]

theorem selectDefinition_opType (n : Nat) (ty : Ast.OpType) : selectDefinition n ty.name.toList = operationDefinition n := by
  cases ty <;> exact selectDefinition_op n _ (by decide) (by decide) (by decide) (by decide) (by decide) (by decide) (by decide) (by decide)

theorem selectDefinition_curly (n : Nat) : selectDefinition n ['{'] = operationDefinition n :=
  selectDefinition_op n _ (by decide) (by decide) (by decide) (by decide) (by decide) (by decide) (by decide) (by decide)

theorem selectDefinition_fragment (n : Nat) : selectDefinition n "fragment".toList = fragmentDefinition n := by
  unfold selectDefinition
  have h1 : kw "directive" "fragment".toList = false := by decide
  have h2 : kw "enum" "fragment".toList = false := by decide
  have h3 : kw "extend" "fragment".toList = false := by decide
  have h4 : kw "fragment" "fragment".toList = true := by decide
  simp only [h1, h2, h3, h4, Bool.false_eq_true, if_false, if_true]

/-- an executable definition within the budget: an operation (full or shorthand) or a fragment definition -/
def LExecDef (b : Nat) (x : List Ast.Tok) : Prop := LOperation b x ∨ LFragment b x

/-- **`executable definition` is complete**: whichever definition parser the document dispatch selects -/
theorem dispatch_comp (n : Nat) (sP s2 : PState) (t : Tok) (tl1 : List Tok) (x : List Ast.Tok) (q1 : Tok) (r1 : List Tok)
    (w : TW sP) (hcur : sP.current = some t) (hcq : t.kind = .lCurly → t.data = ['{'])
    (hl : LExecDef (sP.recLimit - sP.recCur) x) (hs : Spells (t :: tl1) x) (ht : Toks sP = (t :: tl1) ++ q1 :: r1) (hq : Sigf q1)
    (h : (documentDispatch n t.kind).run sP = .ok () s2) : Eat sP s2 (t :: tl1) ∧ Toks s2 = q1 :: r1 := by
  have viaData : ∀ (m : PI Unit) (Lx : Nat → List Ast.Tok → Prop), selectDefinition n t.data = m → (t.kind = .name ∨ t.kind = .lCurly) →
      Cmp (fun _ => True) m Lx (fun _ => True) (fun _ => True) → Lx (sP.recLimit - sP.recCur) x → Eat sP s2 (t :: tl1) ∧ Toks s2 = q1 :: r1 := by
    intro m Lx hm hk hc hlx
    unfold documentDispatch at h
    have hk1 : (t.kind == Kind.stringValue) = false := by rcases hk with h0 | h0 <;> rw [h0] <;> rfl
    have hk2 : (t.kind == Kind.name || t.kind == Kind.lCurly) = true := by rcases hk with h0 | h0 <;> rw [h0] <;> rfl
    simp only [hk1, hk2, Bool.false_eq_true, if_false, if_true] at h
    obtain ⟨d, sQ, hq2, h3⟩ := bind_dec peekData _ sP s2 () h
    obtain ⟨hsQ, hd⟩ := peekData_cur sP sQ d t hcur hq2
    subst hsQ hd
    simp only [] at h3
    rw [hm] at h3
    obtain ⟨e, t2, _⟩ := hc _ s2 () (t :: tl1) x q1 r1 w h3 hlx hs ht hq trivial trivial
    exact ⟨e, t2⟩
  rcases hl with (hl | hl) | hl
  · -- full operation
    obtain ⟨ty, nm, vs, ds, ss, rfl, hrest⟩ := hl
    obtain ⟨x', e⟩ := tOperation_head ty nm vs ds ss
    have hs' := hs
    rw [e] at hs'
    obtain ⟨t', tl', e', hta⟩ := spells_head hs'
    injection e' with e1 _
    subst e1
    have hd : t.data = ty.name.toList := data_of_astOfV_name hta
    exact viaData (operationDefinition n) LOperation (by rw [hd]; exact selectDefinition_opType n ty) (Or.inl (kind_of_astOfV hta))
      (operationDefinition_complete n) (Or.inl ⟨ty, nm, vs, ds, ss, rfl, hrest⟩)
  · -- shorthand
    obtain ⟨x', e⟩ := lset_head hl
    have hs' := hs
    rw [e] at hs'
    obtain ⟨t', tl', e', hta⟩ := spells_head hs'
    injection e' with e1 _
    subst e1
    have hk : t.kind = .lCurly := kind_of_astOfV hta
    exact viaData (operationDefinition n) LOperation (by rw [hcq hk]; exact selectDefinition_curly n) (Or.inr hk)
      (operationDefinition_complete n) (Or.inr hl)
  · obtain ⟨nm, tc, ds, ss, rfl, hrest⟩ := hl
    have hs' := hs
    simp only [Ast.tDefinition] at hs'
    obtain ⟨t', tl', e', hta⟩ := spells_head hs'
    injection e' with e1 _
    subst e1
    have hd : t.data = "fragment".toList := data_of_astOfV_name hta
    exact viaData (fragmentDefinition n) LFragment (by rw [hd]; exact selectDefinition_fragment n) (Or.inl (kind_of_astOfV hta))
      (fragmentDefinition_complete n) ⟨nm, tc, ds, ss, rfl, hrest⟩

/-! ### the document loop -/

theorem lexecDef_head {b : Nat} {x : List Ast.Tok} (h : LExecDef b x) :
    ∃ a x', x = a :: x' ∧ (kindOfA a = .name ∨ kindOfA a = .lCurly) := by
  rcases h with (h | h) | h
  · obtain ⟨ty, nm, vs, ds, ss, rfl, _⟩ := h
    obtain ⟨x', e⟩ := tOperation_head ty nm vs ds ss
    exact ⟨_, x', e, Or.inl rfl⟩
  · obtain ⟨x', e⟩ := lset_head h
    exact ⟨_, x', e, Or.inr rfl⟩
  · obtain ⟨nm, tc, ds, ss, rfl, _⟩ := h
    exact ⟨.name "fragment".toList, _, by simp only [Ast.tDefinition]; rfl, Or.inl rfl⟩

theorem eat_flagged (s : PState) (w : TW s) : Eat s (flagged s) [] := ⟨rfl, Iff.rfl, tw_flagged w, rfl, rfl, rfl⟩

theorem docLoop_comp (n : Nat) : ∀ (items : List (List Ast.Tok)) (fuel : Nat) (s s' : PState) (c : List Tok) (e : Tok) (rest : List Tok),
    TW s → CurlyQ (Toks s) → (peekWhileLoop (documentStep n) fuel).run s = .ok () s' →
    (∀ i ∈ items, LExecDef (s.recLimit - s.recCur) i) → Spells c items.flatten → Toks s = c ++ e :: rest → e.kind = .eof →
    Eat s s' c ∧ Toks s' = e :: rest := by
  intro items
  induction items with
  | nil =>
    intro fuel s s' c e rest w _ hr _ hs ht he
    have := spells_nil_inv (by simpa using hs)
    subst this
    cases fuel with
    | zero => simp [peekWhileLoop, PI.outOfFuel] at hr
    | succ fuel =>
      unfold peekWhileLoop at hr
      obtain ⟨ko, sP, hp, h2⟩ := bind_dec peek _ s s' () hr
      obtain ⟨rfl, eP, htP, _⟩ := peek_head s sP ko e rest w (by simpa using ht) hp
      simp only [] at h2
      have h3 := getCurrent_dec _ sP s' () h2
      obtain ⟨b, sB, hb, h4⟩ := bind_dec (documentStep n e.kind) _ sP s' () h3
      unfold documentStep at hb
      simp only [he, beq_self_eq_true, if_true] at hb
      obtain ⟨_, sC, hc1, hc2⟩ := bind_dec assertRecZero _ sP sB b hb
      rw [assertRecZero_run] at hc1
      injection hc1 with _ hc1
      subst hc1
      rw [run_pure] at hc2
      injection hc2 with hb' hs'
      subst hb' hs'
      simp only [Bool.false_eq_true, if_false] at h4
      rw [run_pure] at h4
      injection h4 with _ h4
      subst h4
      exact ⟨by simpa using eP.trans (eat_flagged sP eP.w), by rw [toks_flagged]; simpa using htP⟩
  | cons item r ih =>
    intro fuel s s' c e rest w hcq hr hall hs ht he
    cases fuel with
    | zero => simp [peekWhileLoop, PI.outOfFuel] at hr
    | succ fuel =>
      obtain ⟨a, x', rfl, hka⟩ := lexecDef_head (hall item (by simp))
      obtain ⟨c1, c2, rfl, s1, s2⟩ := spells_split0 (x1 := a :: x') (x2 := r.flatten) (by simpa using hs)
      obtain ⟨t, tl1, hc1, hta⟩ := spells_head s1
      subst hc1
      have hkt : t.kind = kindOfA a := kind_of_astOfV hta
      have hse : Sigf e := by unfold Sigf; rw [he]; rfl
      obtain ⟨q1, r1, hq1, hsq1⟩ : ∃ q1 r1, c2 ++ e :: rest = q1 :: r1 ∧ Sigf q1 := by
        cases c2 with
        | nil => exact ⟨e, rest, rfl, hse⟩
        | cons u v => exact ⟨u, v ++ e :: rest, rfl, s2.2 u v rfl⟩
      have ht' : Toks s = (t :: tl1) ++ q1 :: r1 := by rw [ht, ← hq1]; simp
      unfold peekWhileLoop at hr
      obtain ⟨ko, sP, hp, h2⟩ := bind_dec peek _ s s' () hr
      obtain ⟨rfl, eP, htP, hcur⟩ := peek_head s sP ko t (tl1 ++ q1 :: r1) w (by simpa using ht') hp
      have hbP : sP.recLimit - sP.recCur = s.recLimit - s.recCur := by rw [eP.recLimit, eP.recCur]
      simp only [] at h2
      have h3 := getCurrent_dec _ sP s' () h2
      obtain ⟨b, sB, hb, h4⟩ := bind_dec (documentStep n t.kind) _ sP s' () h3
      unfold documentStep at hb
      have hne : (t.kind == Kind.eof) = false := by rw [hkt]; rcases hka with h | h <;> rw [h] <;> rfl
      simp only [hne, Bool.false_eq_true, if_false] at hb
      obtain ⟨_, sC, hc1, hc2⟩ := bind_dec assertRecZero _ sP sB b hb
      rw [assertRecZero_run] at hc1
      injection hc1 with _ hc1
      subst hc1
      obtain ⟨_, sD, hd1, hd2⟩ := bind_dec (documentDispatch n t.kind) _ _ sB b hc2
      rw [run_pure] at hd2
      injection hd2 with hb' hs'
      subst hb' hs'
      have htmem : t ∈ Toks s := by rw [ht']; simp
      obtain ⟨eD, tD⟩ := dispatch_comp n (flagged sP) sD t tl1 (a :: x') q1 r1 (tw_flagged eP.w) hcur (hcq t htmem)
        (by show LExecDef (sP.recLimit - sP.recCur) _; rw [hbP]; exact hall _ (by simp)) s1
        (by rw [toks_flagged, htP]; simp) hsq1 hd1
      simp only [if_true] at h4
      have h5 := getCurrent_dec _ sD s' () h4
      by_cases hsame : (sP.current == sD.current) = true
      · simp only [hsame, if_true] at h5
        exact absurd h5 (stuck_not_ok _ _ _)
      · simp only [hsame, Bool.false_eq_true, if_false] at h5
        have eSD : Eat s sD (t :: tl1) := by simpa using (eP.trans (eat_flagged sP eP.w)).trans eD
        have hbD : sD.recLimit - sD.recCur = s.recLimit - s.recCur := by rw [eSD.recLimit, eSD.recCur]
        have hcqD : CurlyQ (Toks sD) := by
          have := eSD.toks
          rw [this] at hcq
          exact hcq.suffix
        obtain ⟨eR, tR⟩ := ih fuel sD s' c2 e rest eSD.w hcqD h5 (by rw [hbD]; exact fun i hi => hall i (by simp [hi])) s2
          (by rw [tD, hq1]) he
        exact ⟨eSD.trans eR, tR⟩

end Apollo.Parse.Exact
