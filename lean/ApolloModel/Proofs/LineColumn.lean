import ApolloModel.Model.LineColumn
namespace Apollo.LC

theorem utf8Size_pos (c : Char) : 0 < c.utf8Size := Char.utf8Size_pos c

/-- the line start found by the scan is the one passed in, or lies strictly after the current position -/
theorem scan_ls (offset : Nat) : ∀ (rest : Str) (pos line ls : Nat),
    (scanLines offset pos line ls rest).2 = ls ∨ pos < (scanLines offset pos line ls rest).2
  | [], pos, line, ls => Or.inl rfl
  | c :: rest, pos, line, ls => by
    have hc := utf8Size_pos c
    unfold scanLines
    by_cases hp : pos < offset
    · simp only [hp, if_true]
      split
      · rcases scan_ls offset rest (pos + c.utf8Size) (line + 1) (pos + c.utf8Size) with h | h
        · right; rw [h]; omega
        · right; omega
      · rcases scan_ls offset rest (pos + c.utf8Size) line ls with h | h
        · left; exact h
        · right; omega
    · simp [hp]

theorem cnt_skip (ls offset pos : Nat) (c : Char) (rest : Str) (h : pos < ls) :
    countCharsFrom ls offset pos (c :: rest) = countCharsFrom ls offset (pos + c.utf8Size) rest := by
  simp [countCharsFrom, h]

theorem cnt_take (ls offset pos : Nat) (c : Char) (rest : Str) (h1 : ls ≤ pos) (h2 : pos < offset) :
    countCharsFrom ls offset pos (c :: rest) = 1 + countCharsFrom ls offset (pos + c.utf8Size) rest := by
  have : ¬ pos < ls := by omega
  simp [countCharsFrom, this, h2]

theorem cnt_stop (ls offset pos : Nat) (s : Str) (h1 : ls ≤ pos) (h2 : ¬ pos < offset) :
    countCharsFrom ls offset pos s = 0 := by
  cases s with
  | nil => rfl
  | cons c rest =>
    have : ¬ pos < ls := by omega
    simp [countCharsFrom, this, h2]

theorem spec_cr (offset pos line col : Nat) (rest : Str) (hp : pos < offset) (h : rest.head? ≠ some '\n') :
    specWalk offset pos line col ('\r' :: rest) = specWalk offset (pos + '\r'.utf8Size) (line + 1) 1 rest := by
  have h1 : ('\r' == '\n') = false := by decide
  cases rest with
  | nil => simp [specWalk, hp, h1]
  | cons d rest' =>
    have hd : d ≠ '\n' := by simpa using h
    simp only [specWalk, hp, if_true, h1, Bool.false_eq_true, if_false, beq_self_eq_true]
    split
    · rename_i heq; simp only [List.cons.injEq] at heq; exact absurd heq.1 hd
    · rfl

theorem spec_crlf (offset pos line col : Nat) (rest' : Str) (hp : pos < offset) :
    specWalk offset pos line col ('\r' :: '\n' :: rest') =
      specWalk offset (pos + '\r'.utf8Size) line (col + 1) ('\n' :: rest') := by
  have h1 : ('\r' == '\n') = false := by decide
  simp only [specWalk, hp, if_true, h1, Bool.false_eq_true, if_false, beq_self_eq_true]

theorem scan_cr (offset pos line ls : Nat) (rest : Str) (hp : pos < offset) (h : rest.head? ≠ some '\n') :
    scanLines offset pos line ls ('\r' :: rest) =
      scanLines offset (pos + '\r'.utf8Size) (line + 1) (pos + '\r'.utf8Size) rest := by
  have : (('\r' == '\n') || ('\r' == '\r' && rest.head? != some '\n')) = true := by simp [h]
  simp only [scanLines, hp, if_true, this]

theorem scan_crlf (offset pos line ls : Nat) (rest' : Str) (hp : pos < offset) :
    scanLines offset pos line ls ('\r' :: '\n' :: rest') =
      scanLines offset (pos + '\r'.utf8Size) line ls ('\n' :: rest') := by
  simp [scanLines, hp]

/-- a new line starts right after the current character: both formulations restart there -/
theorem newline_case (offset pos line ls col : Nat) (c : Char) (rest : Str) (hle : ls ≤ pos)
    (ih : specWalk offset (pos + c.utf8Size) (line + 1) 1 rest =
      ((scanLines offset (pos + c.utf8Size) (line + 1) (pos + c.utf8Size) rest).1,
       if (scanLines offset (pos + c.utf8Size) (line + 1) (pos + c.utf8Size) rest).2 = pos + c.utf8Size
       then 1 + countCharsFrom (pos + c.utf8Size) offset (pos + c.utf8Size) rest
       else 1 + countCharsFrom (scanLines offset (pos + c.utf8Size) (line + 1) (pos + c.utf8Size) rest).2 offset (pos + c.utf8Size) rest)) :
    specWalk offset (pos + c.utf8Size) (line + 1) 1 rest =
      ((scanLines offset (pos + c.utf8Size) (line + 1) (pos + c.utf8Size) rest).1,
       if (scanLines offset (pos + c.utf8Size) (line + 1) (pos + c.utf8Size) rest).2 = ls
       then col + countCharsFrom ls offset pos (c :: rest)
       else 1 + countCharsFrom (scanLines offset (pos + c.utf8Size) (line + 1) (pos + c.utf8Size) rest).2 offset pos (c :: rest)) := by
  have hc := utf8Size_pos c
  have hls := scan_ls offset rest (pos + c.utf8Size) (line + 1) (pos + c.utf8Size)
  rw [ih]
  have hne : ¬ (scanLines offset (pos + c.utf8Size) (line + 1) (pos + c.utf8Size) rest).2 = ls := by
    rcases hls with h | h <;> omega
  have hgt : pos < (scanLines offset (pos + c.utf8Size) (line + 1) (pos + c.utf8Size) rest).2 := by
    rcases hls with h | h <;> omega
  simp only [hne, if_false, cnt_skip _ _ _ _ _ hgt]
  split
  · rename_i h; rw [h]
  · rfl

/-- the current character stays on the line: both formulations count it -/
theorem sameline_case (offset pos line ls col : Nat) (c : Char) (rest : Str) (hle : ls ≤ pos) (hp : pos < offset)
    (ih : specWalk offset (pos + c.utf8Size) line (col + 1) rest =
      ((scanLines offset (pos + c.utf8Size) line ls rest).1,
       if (scanLines offset (pos + c.utf8Size) line ls rest).2 = ls
       then (col + 1) + countCharsFrom ls offset (pos + c.utf8Size) rest
       else 1 + countCharsFrom (scanLines offset (pos + c.utf8Size) line ls rest).2 offset (pos + c.utf8Size) rest)) :
    specWalk offset (pos + c.utf8Size) line (col + 1) rest =
      ((scanLines offset (pos + c.utf8Size) line ls rest).1,
       if (scanLines offset (pos + c.utf8Size) line ls rest).2 = ls
       then col + countCharsFrom ls offset pos (c :: rest)
       else 1 + countCharsFrom (scanLines offset (pos + c.utf8Size) line ls rest).2 offset pos (c :: rest)) := by
  have hc := utf8Size_pos c
  have hls := scan_ls offset rest (pos + c.utf8Size) line ls
  rw [ih]
  congr 1
  split
  · rw [cnt_take _ _ _ _ _ hle hp]; omega
  · rename_i hne
    have hgt : pos < (scanLines offset (pos + c.utf8Size) line ls rest).2 := by
      rcases hls with h | h
      · exact absurd h hne
      · omega
    rw [cnt_skip _ _ _ _ _ hgt]

/-- the running column of the one-pass walk is the recount from the line start -/
theorem walk_eq_scan (offset : Nat) : ∀ (rest : Str) (pos line ls col : Nat), ls ≤ pos →
    specWalk offset pos line col rest =
      ((scanLines offset pos line ls rest).1,
       if (scanLines offset pos line ls rest).2 = ls then col + countCharsFrom ls offset pos rest
       else 1 + countCharsFrom (scanLines offset pos line ls rest).2 offset pos rest)
  | [], pos, line, ls, col, _ => by simp [specWalk, scanLines, countCharsFrom]
  | c :: rest, pos, line, ls, col, hle => by
    have hc := utf8Size_pos c
    by_cases hp : pos < offset
    · by_cases hnl : c = '\n'
      · subst hnl
        have ih := walk_eq_scan offset rest (pos + '\n'.utf8Size) (line + 1) (pos + '\n'.utf8Size) 1 (Nat.le_refl _)
        have e1 : specWalk offset pos line col ('\n' :: rest) = specWalk offset (pos + '\n'.utf8Size) (line + 1) 1 rest := by
          simp [specWalk, hp]
        have e2 : scanLines offset pos line ls ('\n' :: rest) =
            scanLines offset (pos + '\n'.utf8Size) (line + 1) (pos + '\n'.utf8Size) rest := by
          simp [scanLines, hp]
        rw [e1, e2]
        exact newline_case offset pos line ls col '\n' rest hle ih
      · by_cases hcr : c = '\r'
        · subst hcr
          by_cases hh : rest.head? = some '\n'
          · obtain ⟨rest', rfl⟩ : ∃ rest', rest = '\n' :: rest' := by
              cases rest with
              | nil => simp at hh
              | cons d r => simp only [List.head?_cons, Option.some.injEq] at hh; exact ⟨r, by rw [hh]⟩
            have ih := walk_eq_scan offset ('\n' :: rest') (pos + '\r'.utf8Size) line ls (col + 1) (by omega)
            rw [spec_crlf _ _ _ _ _ hp, scan_crlf _ _ _ _ _ hp]
            exact sameline_case offset pos line ls col '\r' ('\n' :: rest') hle hp ih
          · have ih := walk_eq_scan offset rest (pos + '\r'.utf8Size) (line + 1) (pos + '\r'.utf8Size) 1 (Nat.le_refl _)
            rw [spec_cr _ _ _ _ _ hp hh, scan_cr _ _ _ _ _ hp hh]
            exact newline_case offset pos line ls col '\r' rest hle ih
        · have ih := walk_eq_scan offset rest (pos + c.utf8Size) line ls (col + 1) (by omega)
          have hb1 : (c == '\n') = false := by simpa using hnl
          have hb2 : (c == '\r') = false := by simpa using hcr
          have e1 : specWalk offset pos line col (c :: rest) = specWalk offset (pos + c.utf8Size) line (col + 1) rest := by
            simp [specWalk, hp, hb1, hb2]
          have e2 : scanLines offset pos line ls (c :: rest) = scanLines offset (pos + c.utf8Size) line ls rest := by
            simp [scanLines, hp, hb1, hb2]
          rw [e1, e2]
          exact sameline_case offset pos line ls col c rest hle hp ih
    · simp [specWalk, scanLines, hp, cnt_stop ls offset pos (c :: rest) hle hp]

/-- **C11 (line/column)** — for every source text and every offset, `get_line_column` returns the
    line according to the GraphQL LineTerminator rule and a column counting Unicode scalar values. -/
theorem line_column_spec (src : Str) (offset : Nat) : getLineColumn src offset = specLineColumn src offset := by
  unfold getLineColumn specLineColumn
  split
  · rfl
  · have h := walk_eq_scan offset src 0 1 0 1 (Nat.le_refl _)
    rw [h]
    simp only []
    by_cases he : (scanLines offset 0 1 0 src).2 = 0
    · simp only [he, if_true]; rw [Nat.add_comm]
    · simp only [he, if_false]; rw [Nat.add_comm]

end Apollo.LC
