import ApolloModel.Proofs.ParserRecursion28
/-
C04 growth (closed form of the nesting depth), part 29: the guard sites of value.rs — every item of a list value,
the value of every object field.

`AD Pr` (what is added to the tree satisfies `Pr`, the tracker is left alone) for the token-level primitives,
what `bump` puts into the tree, "an accepted value adds a node" (`N1`), then `GD` for `value`, `list_value`,
`object_value`, `object_field`.
-/
set_option linter.unusedSimpArgs false
set_option linter.unusedVariables false
namespace Apollo.Parse
open Apollo.Rowan hiding Str
open Apollo.Lex hiding Str

/-! ### what the token-level primitives add to the tree -/

structure Mon (Pr : List Elem → Prop) : Prop where
  nil : Pr []
  app : ∀ a b, Pr a → Pr b → Pr (a ++ b)
  pend : ∀ ps : List Pending, Pr (ps.map pendingElem)

structure AD (Pr : List Elem → Prop) {α : Type} (m : PI α) : Prop where
  d : ∀ s a s', Inv s → m.run s = .ok a s' → ∃ added, s'.builder.children = s.builder.children ++ added ∧ Pr added ∧
    s'.recHigh = s.recHigh

variable {Pr : List Elem → Prop}

theorem ad_nil (M : Mon Pr) {α : Type} {m : PI α}
    (h : ∀ s a s', m.run s = .ok a s' → s'.builder.children = s.builder.children ∧ s'.recHigh = s.recHigh) : AD Pr m := by
  constructor
  intro s a s' _ hr
  obtain ⟨h1, h2⟩ := h s a s' hr
  exact ⟨[], by simp [h1], M.nil, h2⟩

theorem ad_pure (M : Mon Pr) {α : Type} (a : α) : AD Pr (pure a : PI α) :=
  ad_nil M (fun s a' s' h => by rw [run_pure] at h; injection h with _ h; subst h; exact ⟨rfl, rfl⟩)

theorem ad_bind (M : Mon Pr) {α β : Type} (m : PI α) (f : α → PI β) (hm : AD Pr m) (hf : ∀ a, AD Pr (f a)) : AD Pr (m >>= f) := by
  constructor
  intro s b s'' hi h
  obtain ⟨a, s', h1, h2⟩ := bind_dec m f s s'' b h
  obtain ⟨hi', _⟩ := post_of_run m s hi a s' h1
  obtain ⟨a1, k1, g1, r1⟩ := hm.d s a s' hi h1
  obtain ⟨a2, k2, g2, r2⟩ := (hf a).d s' b s'' hi' h2
  exact ⟨a1 ++ a2, by rw [k2, k1, List.append_assoc], M.app _ _ g1 g2, r2.trans r1⟩

theorem ad_ite {α : Type} (c : Bool) (a b : PI α) (ha : AD Pr a) (hb : AD Pr b) : AD Pr (if c then a else b) := by
  cases c <;> simp [ha, hb]

theorem peekToken_kids (s s' : PState) (o : Option Tok) (h : peekToken.run s = .ok o s') :
    s'.builder.children = s.builder.children ∧ s'.recHigh = s.recHigh := by
  have hp := plain_peekToken.out s o s' h
  refine ⟨?_, hp.recHigh⟩
  unfold peekToken at h
  simp only [] at h
  cases hc : s.current with
  | some t => simp only [hc, Res.ok.injEq] at h; obtain ⟨_, rfl⟩ := h; rfl
  | none =>
    simp only [hc, Res.ok.injEq] at h
    obtain ⟨_, rfl⟩ := h
    have hb := (nextTokenRaw_spec (s.lx.src.length + 3) s).builder
    show (nextTokenRaw (s.lx.src.length + 3) s).2.builder.children = _
    simp [hb]

theorem ad_peekToken (M : Mon Pr) : AD Pr peekToken := ad_nil M (fun s a s' h => peekToken_kids s s' a h)

theorem ad_moveCurToPending (M : Mon Pr) : AD Pr moveCurToPending := by
  refine ad_nil M ?_
  intro s b s' h
  unfold moveCurToPending at h
  simp only [] at h
  cases hc : s.current with
  | none => simp only [hc] at h; injection h with _ h; subst h; exact ⟨rfl, rfl⟩
  | some t => simp only [hc] at h; split at h <;> (injection h with _ h; subst h; exact ⟨rfl, rfl⟩)

theorem ad_srcLen (M : Mon Pr) : AD Pr srcLen :=
  ad_nil M (fun s a s' h => by unfold srcLen at h; simp only [] at h; injection h with _ h; subst h; exact ⟨rfl, rfl⟩)

theorem ad_pushErr (M : Mon Pr) (e : PErr) : AD Pr (pushErr e) :=
  ad_nil M (fun s a s' h => by unfold pushErr errUpdate at h; simp only [] at h; injection h with _ h; subst h; exact ⟨rfl, rfl⟩)

theorem ad_pushIgnored (M : Mon Pr) : AD Pr pushIgnored := by
  constructor
  intro s a s' _ h
  unfold pushIgnored at h; simp only [] at h; injection h with _ h; subst h
  exact ⟨_, rfl, M.pend _, rfl⟩

theorem ad_moveCurToTree (M : Mon Pr) (kind : SK) (hK : ∀ t, Pr [Elem.tok kind t]) : AD Pr (moveCurToTree kind) := by
  constructor
  intro s a s' _ h
  unfold moveCurToTree at h
  simp only [] at h
  cases hc : s.current with
  | none => simp only [hc] at h; injection h with _ h; subst h; exact ⟨[], by simp, M.nil, rfl⟩
  | some t =>
    simp only [hc] at h; injection h with _ h; subst h
    exact ⟨s.pending.map pendingElem ++ [.tok kind t.data], by simp [List.append_assoc], M.app _ _ (M.pend _) (hK _), rfl⟩

theorem ad_skipIgnoredLoop (M : Mon Pr) : ∀ fuel, AD Pr (skipIgnoredLoop fuel)
  | 0 => ⟨fun s a s' _ h => by simp [skipIgnoredLoop, PI.outOfFuel] at h⟩
  | fuel + 1 => by
    unfold skipIgnoredLoop
    exact ad_bind M _ _ (ad_peekToken M) (fun _ => ad_bind M _ _ (ad_moveCurToPending M)
      (fun b => ad_ite b _ _ (ad_skipIgnoredLoop M fuel) (ad_pure M _)))

theorem ad_skipIgnored (M : Mon Pr) : AD Pr skipIgnored := by
  unfold skipIgnored
  exact ad_bind M _ _ (ad_srcLen M) (fun n => ad_skipIgnoredLoop M (n + 3))

theorem ad_peek (M : Mon Pr) : AD Pr peek := by
  unfold peek
  exact ad_bind M _ _ (ad_peekToken M) (fun _ => ad_pure M _)

theorem ad_eat (M : Mon Pr) (k : SK) (hK : ∀ t, Pr [Elem.tok k t]) : AD Pr (eat k) := by
  unfold eat
  exact ad_bind M _ _ (ad_pushIgnored M) (fun _ => ad_bind M _ _ (ad_peekToken M) (fun _ => ad_moveCurToTree M k hK))

theorem ad_bump (M : Mon Pr) (k : SK) (hK : ∀ t, Pr [Elem.tok k t]) : AD Pr (bump k) := by
  unfold bump
  exact ad_bind M _ _ (ad_eat M k hK) (fun _ => ad_skipIgnored M)

theorem ad_err (M : Mon Pr) : AD Pr err := by
  unfold err
  refine ad_bind M _ _ (ad_peekToken M) (fun o => ?_)
  cases o with
  | none => exact ad_pure M _
  | some t => exact ad_pushErr M _

theorem ad_withNode (M : Mon Pr) {α : Type} (K : SK) (body : PI α) (hK : ∀ cs, Pr cs → Pr [Elem.node K cs])
    (hb : AD Pr body) : AD Pr (withNode K body) := by
  constructor
  intro s a s' hi h
  obtain ⟨s2, cs, b, hr, hi0, hcs, rfl, hbc⟩ := withNode_added K body s s' a hi h
  obtain ⟨ad, k, g, r⟩ := (ad_bind M _ _ (ad_skipIgnored M) (fun _ => hb)).d _ a s2 hi0 hr
  have : ad = cs := List.append_cancel_left (k.symm.trans hcs)
  subst this
  exact ⟨_, hbc, M.app _ _ (M.pend _) (hK _ g), r⟩

theorem ad_name (M : Mon Pr) (hI : ∀ t, Pr [Elem.tok "IDENT" t]) (hN : ∀ cs, Pr cs → Pr [Elem.node "NAME" cs]) : AD Pr name := by
  unfold name
  refine ad_bind M _ _ (ad_peekToken M) (fun o => ?_)
  cases o with
  | none => exact ad_err M
  | some t => exact ad_ite _ _ _ (ad_withNode M _ _ hN (ad_bump M _ hI)) (ad_err M)

/-- all tokens -/
theorem mon_allTok : Mon AllTok :=
  ⟨fun e he => (by cases he), fun a b => allTok_append, allTok_pending⟩

theorem allTok_single (k : SK) (t : Rowan.Str) : AllTok [Elem.tok k t] := fun e he => by simp at he; exact ⟨_, _, he⟩

/-- flat, and no `:` token at top level -/
def NoColon (es : List Elem) : Prop := gdl es = 0 ∧ hasTok "COLON" es = false

theorem hasTok_pending (ps : List Pending) : hasTok "COLON" (ps.map pendingElem) = false := by
  induction ps with
  | nil => rfl
  | cons p ps ih =>
    cases p with
    | ignored t =>
      simp only [List.map_cons, pendingElem, hasTok, ih, Bool.or_false]
      cases t.kind <;> decide
    | error d => simp only [List.map_cons, pendingElem, hasTok, ih, Bool.or_false]; decide

theorem mon_noColon : Mon NoColon :=
  ⟨⟨rfl, rfl⟩, fun a b ha hb => ⟨by rw [gdl_append, ha.1, hb.1]; rfl, by rw [hasTok_append, ha.2, hb.2]; rfl⟩,
   fun ps => ⟨gdl_pending ps, hasTok_pending ps⟩⟩

theorem fn_name : AD NoColon name :=
  ad_name mon_noColon (fun t => ⟨gdl_tok _ _, by simp [hasTok]⟩)
    (fun cs h => ⟨by rw [gdl_single, gd_plain (by decide)]; exact h.1, by simp [hasTok]⟩)

/-! ### token presence -/

theorem peekToken_cur (s : PState) (t : Tok) (h : s.current = some t) : peekToken.run s = .ok (some t) s := by
  unfold peekToken
  simp only [h]

theorem peek_cur (s : PState) (t : Tok) (h : s.current = some t) : peek.run s = .ok (some t.kind) s := by
  show (peekToken >>= fun o => (pure (o.map (·.kind)) : PI (Option Kind))).run s = _
  rw [run_bind, peekToken_cur s t h]
  rfl

/-- `peek` answering `some k` leaves that token in `current` -/
theorem peek_some_cur (s s' : PState) (k : Kind) (h : peek.run s = .ok (some k) s') : ∃ t, s'.current = some t ∧ t.kind = k := by
  obtain ⟨o, s1, hpt, hpk⟩ := peek_run s
  rw [hpk] at h
  injection h with h1 h2
  subst h2
  cases o with
  | none => simp at h1
  | some t =>
    simp only [Option.map_some, Option.some.injEq] at h1
    exact ⟨t, peekToken_some s s1 t hpt, h1⟩

/-- `bump K` with a token in `current` puts a `K` token into the tree -/
theorem bump_hasTok (K : SK) (s s' : PState) (u : Unit) (t : Tok) (hi : Inv s) (hc : s.current = some t)
    (h : (bump K).run s = .ok u s') : ∃ added, s'.builder.children = s.builder.children ++ added ∧ hasTok K added = true := by
  unfold bump eat at h
  obtain ⟨_, s1, h1, h2⟩ := bind_dec _ _ s s' u h
  obtain ⟨_, s2, h3, h4⟩ := bind_dec pushIgnored _ s s1 _ h1
  obtain ⟨o, s3, h5, h6⟩ := bind_dec peekToken _ s2 s1 _ h4
  have e2 : s2 = { s with builder := { s.builder with children := s.builder.children ++ s.pending.map pendingElem }, pending := [] } := by
    have : pushIgnored.run s = .ok () { s with builder := { s.builder with children := s.builder.children ++ s.pending.map pendingElem }, pending := [] } := rfl
    rw [this] at h3; injection h3 with _ h3; exact h3.symm
  have hc2 : s2.current = some t := by rw [e2]; exact hc
  rw [peekToken_cur s2 t hc2] at h5
  injection h5 with h5a h5b
  subst h5a h5b
  unfold moveCurToTree at h6
  simp only [hc2] at h6
  injection h6 with _ h6
  obtain ⟨hi1, _⟩ := post_of_run (pushIgnored >>= fun _ => peekToken >>= fun _ => moveCurToTree K) s hi _ s1 h1
  obtain ⟨a3, k3, _, _⟩ := (ad_skipIgnored mon_allTok).d s1 u s' hi1 h2
  refine ⟨(s.pending.map pendingElem ++ (s2.pending.map pendingElem ++ [.tok K t.data])) ++ a3, ?_, ?_⟩
  · rw [k3, ← h6]
    simp only []
    rw [e2]
    simp [List.append_assoc]
  · simp [hasTok_append, hasTok]

/-! ### an accepted value adds a node -/

/-- started with a token in `current` and errors being accepted, a run that records no error adds a node -/
def N1 {α : Type} (m : PI α) : Prop :=
  ∀ s a s', Inv s → s.current.isSome = true → s.acceptErrors = true → m.run s = .ok a s' → s'.errors = s.errors →
    ∃ added, s'.builder.children = s.builder.children ++ added ∧ hasNode added = true

theorem n1_withNode {α : Type} (K : SK) (body : PI α) : N1 (withNode K body) := by
  intro s a s' hi _ _ h _
  obtain ⟨s2, cs, b, _, _, _, rfl, hbc⟩ := withNode_added K body s s' a hi h
  exact ⟨_, hbc, by simp [hasNode_append, hasNode]⟩

/-- whatever runs first, a node added afterwards is a node added -/
theorem hasNode_after {α β : Type} (m : PI α) (f : α → PI β) (s s'' : PState) (b : β) (hi : Inv s)
    (h : (m >>= f).run s = .ok b s'')
    (h2 : ∀ a s', Inv s' → (f a).run s' = .ok b s'' → ∃ added, s''.builder.children = s'.builder.children ++ added ∧ hasNode added = true) :
    ∃ added, s''.builder.children = s.builder.children ++ added ∧ hasNode added = true := by
  obtain ⟨a, s', hr1, hr2⟩ := bind_dec m f s s'' b h
  obtain ⟨hi', fr⟩ := post_of_run m s hi a s' hr1
  obtain ⟨a1, k1⟩ := fr.children
  obtain ⟨a2, k2, n2⟩ := h2 a s' hi' hr2
  exact ⟨a1 ++ a2, by rw [k2, k1, List.append_assoc], by simp [hasNode_append, n2]⟩

/-- `err` with a token in `current`, while errors are accepted, records an error -/
theorem err_records (s s' : PState) (u : Unit) (hi : Inv s) (t : Tok) (hc : s.current = some t) (ha : s.acceptErrors = true)
    (h : err.run s = .ok u s') : s'.errors ≠ s.errors := by
  unfold err at h
  rw [run_bind, peekToken_cur s t hc] at h
  simp only [] at h
  unfold pushErr errUpdate at h
  simp only [] at h
  injection h with _ h
  subst h
  simp [ha]

theorem errAndPop_records (s s' : PState) (u : Unit) (hi : Inv s) (t : Tok) (hc : s.current = some t) (ha : s.acceptErrors = true)
    (h : errAndPop.run s = .ok u s') : s'.errors ≠ s.errors := by
  unfold errAndPop at h
  obtain ⟨_, s2, h3, h4⟩ := bind_dec pushIgnored _ s s' u h
  have e2 : s2 = { s with builder := { s.builder with children := s.builder.children ++ s.pending.map pendingElem }, pending := [] } := by
    have : pushIgnored.run s = .ok () { s with builder := { s.builder with children := s.builder.children ++ s.pending.map pendingElem }, pending := [] } := rfl
    rw [this] at h3; injection h3 with _ h3; exact h3.symm
  have hc2 : s2.current = some t := by rw [e2]; exact hc
  rw [run_bind, peekToken_cur s2 t hc2] at h4
  simp only [] at h4
  obtain ⟨_, s3, h5, h6⟩ := bind_dec (moveCurToTree "ERROR") _ s2 s' u h4
  obtain ⟨_, s4, h7, h8⟩ := bind_dec (pushErr (tokErr t)) _ s3 s' u h6
  have e3 : s3.errors = s.errors ∧ s3.acceptErrors = true := by
    unfold moveCurToTree at h5
    simp only [hc2] at h5
    injection h5 with _ h5
    subst h5
    rw [e2]
    exact ⟨rfl, ha⟩
  have e4 : s4.errors = s.errors ++ [tokErr t] := by
    unfold pushErr errUpdate at h7
    simp only [] at h7
    injection h7 with _ h7
    subst h7
    simp [e3.1, e3.2]
  obtain ⟨hi2, _⟩ := post_of_run pushIgnored s hi _ s2 h3
  obtain ⟨hi3, _⟩ := post_of_run _ s2 hi2 _ s3 h5
  obtain ⟨hi4, _⟩ := post_of_run _ s3 hi3 _ s4 h7
  obtain ⟨ex, ad, w, _⟩ := gd_skipIgnored.g s4 u s' hi4 h8
  rw [w.errs, e4]
  intro hcon
  have := congrArg List.length hcon
  simp at this

theorem n1_value (n : Nat) (c : Bool) : N1 (value (n + 1) c true) := by
  intro s a s' hi hcur ha h herr
  obtain ⟨t, hc⟩ := Option.isSome_iff_exists.mp hcur
  rw [value_succ, run_bind, peek_cur s t hc] at h
  simp only [] at h
  have wn : ∀ (K : SK) (body : PI Unit), (withNode K body).run s = .ok a s' →
      ∃ added, s'.builder.children = s.builder.children ++ added ∧ hasNode added = true :=
    fun K body hr => n1_withNode K body s a s' hi hcur ha hr herr
  have verr : (valueErr true).run s = .ok a s' → False := fun hr => by
    have : (valueErr true) = errAndPop := rfl
    rw [this] at hr
    exact errAndPop_records s s' a hi t hc ha hr herr
  cases hk : t.kind <;> rw [hk] at h <;> simp only [valueBranch] at h
  case dollar =>
    unfold variableBranch at h
    cases c with
    | true =>
      simp only [if_true] at h
      exact hasNode_after _ _ s s' a hi h (fun _ s1 hi1 hr => by
        unfold variableNode at hr
        obtain ⟨s2, cs, b, _, _, _, rfl, hbc⟩ := withNode_added _ _ s1 s' a hi1 hr
        exact ⟨_, hbc, by simp [hasNode_append, hasNode]⟩)
    | false =>
      simp only [Bool.false_eq_true, if_false] at h
      unfold variableNode at h
      exact wn _ _ h
  case int => exact wn _ _ h
  case float => exact wn _ _ h
  case stringValue => exact wn _ _ h
  case name =>
    rw [run_bind, peekToken_cur s t hc] at h
    simp only [nameValueBranch] at h
    split at h
    · exact wn _ _ h
    · split at h
      · exact wn _ _ h
      · split at h
        · exact wn _ _ h
        · unfold enumValue at h
          exact wn _ _ h
  case lBracket =>
    cases n with
    | zero => simp [listValue, PI.outOfFuel] at h
    | succ m => rw [listValue_succ] at h; exact wn _ _ h
  case lCurly =>
    cases n with
    | zero => simp [objectValue, PI.outOfFuel] at h
    | succ m => rw [objectValue_succ] at h; exact wn _ _ h
  all_goals exact (verr h).elim

/-- `peek`: nothing into the tree, the tracker untouched -/
theorem peek_out (s s' : PState) (k : Option Kind) (hi : Inv s) (h : peek.run s = .ok k s') :
    ∃ e, GWOut s s' e [] ∧ s'.recHigh = s.recHigh := by
  obtain ⟨e, a0, w, _⟩ := gd_peek.g s k s' hi h
  obtain ⟨a1, k1, g1, r1⟩ := (ad_peek mon_allTok).d s k s' hi h
  obtain ⟨o, s1, hpt, hpk⟩ := peek_run s
  rw [hpk] at h
  injection h with _ h
  subst h
  have := (peekToken_kids s s1 o hpt).1
  have ha0 : a0 = [] := by
    have := w.kids
    rw [‹s1.builder.children = s.builder.children›] at this
    exact (List.self_eq_append_right.mp this)
  subst ha0
  exact ⟨e, w, r1⟩

/-- `bump`: only tokens into the tree, the tracker untouched -/
theorem bump_out (K : SK) (s s' : PState) (u : Unit) (hi : Inv s) (h : (bump K).run s = .ok u s') :
    ∃ e a, GWOut s s' e a ∧ AllTok a ∧ s'.recHigh = s.recHigh := by
  obtain ⟨e, a0, w, _⟩ := (gd_bump K).g s u s' hi h
  obtain ⟨a1, k1, g1, r1⟩ := (ad_bump mon_allTok K (allTok_single K)).d s u s' hi h
  have : a1 = a0 := List.append_cancel_left (k1.symm.trans w.kids)
  subst this
  exact ⟨e, a1, w, g1, r1⟩

theorem GWOut.trans {a b c : PState} {e1 e2 : List PErr} {a1 a2 : List Elem} (h1 : GWOut a b e1 a1) (h2 : GWOut b c e2 a2) :
    GWOut a c (e1 ++ e2) (a1 ++ a2) :=
  ⟨by rw [h2.errs, h1.errs, List.append_assoc], by rw [h2.kids, h1.kids, List.append_assoc], Nat.le_trans h1.mono h2.mono,
   fun he => by
    obtain ⟨he1, he2⟩ := List.append_eq_nil_iff.mp he
    rw [h2.acc he2, h1.acc he1]⟩

/-- the item loop of a list value: every item one level down -/
theorem listLoop_gd (n : Nat) (c : Bool) (hv : GD (value n c true)) (hn : N1 (value n c true)) :
    ∀ (fuel : Nat) (s s' : PState), Inv s → (peekWhileLoop (listLoopBody n c) fuel).run s = .ok () s' →
      ∃ extra added, GWOut s s' extra added ∧
        (extra = [] → s.acceptErrors = true → s'.recHigh ≤ s.recLimit → s.recCur ≤ s.recHigh →
          s'.recHigh = max s.recHigh (s.recCur + idl added)) := by
  intro fuel
  induction fuel with
  | zero => intro s s' _ h; simp [peekWhileLoop, PI.outOfFuel] at h
  | succ fuel ih =>
    intro s s' hi h
    unfold peekWhileLoop at h
    obtain ⟨ko, sP, hp, h2⟩ := bind_dec peek _ s s' () h
    obtain ⟨hiP, frP⟩ := post_of_run peek s hi ko sP hp
    obtain ⟨e0, w0, r0⟩ := peek_out s sP ko hi hp
    cases ko with
    | none =>
      simp only [] at h2
      rw [run_pure] at h2
      injection h2 with _ h2
      subst h2
      exact ⟨e0, [], w0, fun _ _ _ hc => by rw [r0]; simp [idl]; omega⟩
    | some k =>
      simp only [] at h2
      obtain ⟨t, hct, hkt⟩ := peek_some_cur s sP k hp
      have h3 := getCurrent_dec _ sP s' () h2
      obtain ⟨b, sB, hb, h4⟩ := bind_dec (listLoopBody n c k) _ sP s' () h3
      obtain ⟨hiB, frB⟩ := post_of_run _ sP hiP b sB hb
      unfold listLoopBody at hb
      by_cases hk1 : (k == Kind.rBracket) = true
      · simp only [hk1, if_true] at hb
        obtain ⟨_, sC, hc1, hc2⟩ := bind_dec (bump "R_BRACK") _ sP sB b hb
        rw [run_pure] at hc2
        injection hc2 with hb' hs'
        subst hb' hs'
        simp only [Bool.false_eq_true, if_false] at h4
        rw [run_pure] at h4
        injection h4 with _ h4
        subst h4
        obtain ⟨e1, a1, w1, g1, r1⟩ := bump_out _ sP sC () hiP hc1
        refine ⟨e0 ++ e1, [] ++ a1, w0.trans w1, fun _ _ _ hc => ?_⟩
        rw [r1, r0, List.nil_append, allTok_idl g1]
        omega
      · simp only [hk1, Bool.false_eq_true, if_false] at hb
        by_cases hk2 : (k == Kind.eof) = true
        · simp only [hk2, if_true] at hb
          rw [run_pure] at hb
          injection hb with hb' hs'
          subst hb' hs'
          simp only [Bool.false_eq_true, if_false] at h4
          rw [run_pure] at h4
          injection h4 with _ h4
          subst h4
          exact ⟨e0, [], w0, fun _ _ _ hc => by rw [r0]; simp [idl]; omega⟩
        · simp only [hk2, Bool.false_eq_true, if_false] at hb
          have hbody : GD (value n c true >>= fun _ => (pure true : PI Bool)) := gd_bind _ _ hv (fun _ => gd_pure _)
          obtain ⟨e1, a1, w1, x1⟩ := (gd1_withRec _ _ (gw_bind_pure false) hbody).g sP b sB hiP hb
          -- the rest of the loop
          have hrest : ∃ e2 a2, GWOut sB s' e2 a2 ∧ (b = false → a2 = [] ∧ s'.recHigh = sB.recHigh) ∧
              (e2 = [] → sB.acceptErrors = true → s'.recHigh ≤ sB.recLimit → sB.recCur ≤ sB.recHigh →
                s'.recHigh = max sB.recHigh (sB.recCur + idl a2)) := by
            cases b with
            | false =>
              simp only [Bool.false_eq_true, if_false] at h4
              rw [run_pure] at h4
              injection h4 with _ h4
              subst h4
              exact ⟨[], [], ⟨by simp, by simp, Nat.le_refl _, fun _ => rfl⟩, fun _ => ⟨rfl, rfl⟩,
                fun _ _ _ hc => by simp [idl]; omega⟩
            | true =>
              simp only [if_true] at h4
              have h5 := getCurrent_dec _ sB s' () h4
              by_cases hsame : (sP.current == sB.current) = true
              · simp only [hsame, if_true] at h5
                exact absurd h5 (stuck_not_ok _ _ _)
              · simp only [hsame, Bool.false_eq_true, if_false] at h5
                obtain ⟨e2, a2, w2, x2⟩ := ih sB s' hiB h5
                exact ⟨e2, a2, w2, fun hb => (by cases hb), x2⟩
          obtain ⟨e2, a2, w2, hfalse, x2⟩ := hrest
          refine ⟨e0 ++ (e1 ++ e2), [] ++ (a1 ++ a2), w0.trans (w1.trans w2), ?_⟩
          intro he ha hh hc
          obtain ⟨he0, he12⟩ := List.append_eq_nil_iff.mp he
          obtain ⟨he1, he2⟩ := List.append_eq_nil_iff.mp he12
          have haP : sP.acceptErrors = true := by rw [w0.acc he0]; exact ha
          have hlP : sP.recLimit = s.recLimit := frP.recLimit
          have hcP : sP.recCur = s.recCur := frP.recCur
          have hhB : sB.recHigh ≤ sP.recLimit := by rw [hlP]; exact Nat.le_trans w2.mono hh
          have hcurP : sP.recCur ≤ sP.recHigh := by rw [hcP, r0]; exact hc
          have r1 := x1 he1 haP hhB hcurP
          -- the guard was not hit: the value ran, and added a node
          have hnode : hasNode a1 = true := by
            rcases withRec_decH _ _ sP sB b hb with ⟨hover, hrun⟩ | ⟨hunder, s2, hrun, hsB⟩
            · exfalso
              have := w1.mono
              have h1 : sP.recCur + 1 > sP.recLimit := hover
              rw [r1] at hhB
              omega
            · obtain ⟨u, s3, hv1, hv2⟩ := bind_dec (value n c true) _ _ s2 b hrun
              rw [run_pure] at hv2
              injection hv2 with _ hv2
              subst hv2
              have hi0 : Inv { sP with recCur := sP.recCur + 1, recHigh := max sP.recHigh (sP.recCur + 1) } :=
                ⟨hiP.text, hiP.parents, hiP.lexDone, hiP.eofTok, hiP.errNonempty⟩
              have herrs : s3.errors = sP.errors := by
                have := w1.errs
                rw [he1, List.append_nil, hsB] at this
                exact this
              obtain ⟨ad, kad, nad⟩ := hn _ u s3 hi0 (by show sP.current.isSome = true; rw [hct]; rfl) haP hv1 herrs
              have : ad = a1 := by
                have hk := w1.kids
                rw [hsB] at hk
                exact List.append_cancel_left (kad.symm.trans hk)
              rw [← this]
              exact nad
          have hidl : idl a1 = gdl a1 + 1 := by rw [(idl_eq a1).1, hnode]; rfl
          have haB : sB.acceptErrors = true := by rw [w1.acc he1]; exact haP
          have hlB : sB.recLimit = s.recLimit := frB.recLimit.trans hlP
          have hcB : sB.recCur = s.recCur := frB.recCur.trans hcP
          have r2 := x2 he2 haB (by rw [hlB]; exact hh) (by rw [hcB]; exact Nat.le_trans hc (Nat.le_trans (by rw [r0]; exact Nat.le_refl _) w1.mono))
          rw [r2, r1, hcB, hcP, r0, List.nil_append, idl_append, hidl]
          omega

/-- a computation that is both `GD` and `AD Pr`: one set of additions for both -/
theorem out_of {α : Type} {m : PI α} (hg : GD m) (ha : AD Pr m) (s : PState) (a : α) (s' : PState) (hi : Inv s)
    (h : m.run s = .ok a s') : ∃ e ad, GWOut s s' e ad ∧ Pr ad ∧ s'.recHigh = s.recHigh := by
  obtain ⟨e, a0, w, _⟩ := hg.g s a s' hi h
  obtain ⟨a1, k1, g1, r1⟩ := ha.d s a s' hi h
  have : a1 = a0 := List.append_cancel_left (k1.symm.trans w.kids)
  subst this
  exact ⟨e, a1, w, g1, r1⟩

theorem gd_listValue_succ (n : Nat) (c : Bool) (hv : GD (value n c true)) (hn : N1 (value n c true)) :
    GD (listValue (n + 1) c) := by
  rw [listValue_succ]
  constructor
  intro s a s' hi h
  obtain ⟨s2, cs, b, hr, hi0, hcs, rfl, hb⟩ := withNode_added _ _ s s' a hi h
  obtain ⟨u1, sa, h1, h2⟩ := bind_dec skipIgnored _ _ s2 a hr
  obtain ⟨hia, fra⟩ := post_of_run _ _ hi0 u1 sa h1
  obtain ⟨ea, aa, wa, ga, ra⟩ := out_of gd_skipIgnored (ad_skipIgnored mon_allTok) _ u1 sa hi0 h1
  obtain ⟨u2, sb, h3, h4⟩ := bind_dec (bump "L_BRACK") _ sa s2 a h2
  obtain ⟨hib, frb⟩ := post_of_run _ _ hia u2 sb h3
  obtain ⟨eb, ab, wb, gb, rb⟩ := bump_out _ sa sb u2 hia h3
  unfold peekWhile at h4
  obtain ⟨fuel, h5⟩ := srcLen_dec _ sb s2 a h4
  obtain ⟨el, al, wl, xl⟩ := listLoop_gd n c hv hn (fuel + 3) sb s2 hib h5
  have wtot := (wa.trans wb).trans wl
  have hcs2 : (aa ++ ab) ++ al = cs := List.append_cancel_left (wtot.kids.symm.trans hcs)
  subst hcs2
  refine ⟨(ea ++ eb) ++ el, s.pending.map pendingElem ++ [Elem.node "LIST_VALUE" ((aa ++ ab) ++ al)],
    ⟨wtot.errs, hb, wtot.mono, wtot.acc⟩, ?_⟩
  intro he ha hh hc
  obtain ⟨heab, hel⟩ := List.append_eq_nil_iff.mp he
  obtain ⟨hea, heb⟩ := List.append_eq_nil_iff.mp heab
  have hcb : sb.recCur = s.recCur := (frb.recCur.trans fra.recCur)
  have hlb : sb.recLimit = s.recLimit := (frb.recLimit.trans fra.recLimit)
  have hrb : sb.recHigh = s.recHigh := rb.trans ra
  have hab : sb.acceptErrors = true := by rw [wb.acc heb, wa.acc hea]; exact ha
  have r := xl hel hab (by rw [hlb]; exact hh) (by rw [hcb, hrb]; exact hc)
  show s2.recHigh = _
  rw [r, hrb, hcb, gdl_append, gdl_pending, gdl_single, gd_listValue, idl_append, idl_append, allTok_idl ga, allTok_idl gb]
  show max s.recHigh (s.recCur + idl al) = max s.recHigh (s.recCur + max 0 (max (max 0 0) (idl al)) + 0)
  omega

theorem gd_objectField_succ (n : Nat) (c : Bool) (hv : GD (value n c true)) : GD (objectField (n + 1) c) := by
  rw [objectField_succ]
  constructor
  intro s a s' hi h
  obtain ⟨s2, cs, b, hr, hi0, hcs, rfl, hb⟩ := withNode_added _ _ s s' a hi h
  obtain ⟨u1, sa, h1, h2⟩ := bind_dec skipIgnored _ _ s2 a hr
  obtain ⟨hia, fra⟩ := post_of_run _ _ hi0 u1 sa h1
  obtain ⟨ea, aa, wa, ga, ra⟩ := out_of gd_skipIgnored (ad_skipIgnored mon_noColon) _ u1 sa hi0 h1
  obtain ⟨u2, sb, h3, h4⟩ := bind_dec name _ sa s2 a h2
  obtain ⟨hib, frb⟩ := post_of_run _ _ hia u2 sb h3
  obtain ⟨eb, ab, wb, gb, rb⟩ := out_of gd_name fn_name sa u2 sb hia h3
  obtain ⟨k, sc, h5, h6⟩ := bind_dec peek _ sb s2 a h4
  obtain ⟨hic, frc⟩ := post_of_run _ _ hib k sc h5
  obtain ⟨ec, wc, rc⟩ := peek_out sb sc k hib h5
  have hcc : sc.recCur = s.recCur := (frc.recCur.trans (frb.recCur.trans fra.recCur))
  have hlc : sc.recLimit = s.recLimit := (frc.recLimit.trans (frb.recLimit.trans fra.recLimit))
  have hrc : sc.recHigh = s.recHigh := rc.trans (rb.trans ra)
  unfold objectFieldTail at h6
  by_cases hk : (k == some Kind.colon) = true
  · simp only [hk, if_true] at h6
    have hks : k = some Kind.colon := by simpa using hk
    subst hks
    obtain ⟨t, hct, _⟩ := peek_some_cur sb sc _ h5
    obtain ⟨u4, sd, h7, h8⟩ := bind_dec (bump "COLON") _ sc s2 a h6
    obtain ⟨hid, frd⟩ := post_of_run _ _ hic u4 sd h7
    obtain ⟨ed, ad, wd, gd', rd⟩ := bump_out _ sc sd u4 hic h7
    obtain ⟨ad2, kd2, hcol⟩ := bump_hasTok "COLON" sc sd u4 t hic hct h7
    have : ad2 = ad := List.append_cancel_left (kd2.symm.trans wd.kids)
    subst this
    obtain ⟨ev, av, wv, xv⟩ := (gd1_withRec _ _ gw_limitErr hv).g sd a s2 hid h8
    have wtot := (((wa.trans wb).trans wc).trans wd).trans wv
    have hcs2 : (((aa ++ ab) ++ []) ++ ad2) ++ av = cs := List.append_cancel_left (wtot.kids.symm.trans hcs)
    subst hcs2
    refine ⟨_, s.pending.map pendingElem ++ [Elem.node "OBJECT_FIELD" ((((aa ++ ab) ++ []) ++ ad2) ++ av)],
      ⟨wtot.errs, hb, wtot.mono, wtot.acc⟩, ?_⟩
    intro he ha hh hc
    obtain ⟨he1, hev⟩ := List.append_eq_nil_iff.mp he
    obtain ⟨he2, hed⟩ := List.append_eq_nil_iff.mp he1
    obtain ⟨he3, hec⟩ := List.append_eq_nil_iff.mp he2
    obtain ⟨hea, heb⟩ := List.append_eq_nil_iff.mp he3
    have had : sd.acceptErrors = true := by rw [wd.acc hed, wc.acc hec, wb.acc heb, wa.acc hea]; exact ha
    have hcd : sd.recCur = s.recCur := frd.recCur.trans hcc
    have hld : sd.recLimit = s.recLimit := frd.recLimit.trans hlc
    have hrd : sd.recHigh = s.recHigh := rd.trans hrc
    have r := xv hev had (by rw [hld]; exact hh) (by rw [hcd, hrd]; exact hc)
    have hcolon : hasTok "COLON" ((((aa ++ ab) ++ []) ++ ad2) ++ av) = true := by
      simp [hasTok_append, hcol]
    show s2.recHigh = _
    rw [r, hrd, hcd, gdl_append, gdl_pending, gdl_single, gd_objectField, hcolon]
    simp only [if_true, gdl_append, ga.1, gb.1, allTok_gdl gd', gdl]
    omega
  · simp only [hk, Bool.false_eq_true, if_false] at h6
    obtain ⟨ed, ad, wd, gd', rd⟩ := out_of gd_err (ad_err mon_noColon) sc a s2 hic h6
    have wtot := ((wa.trans wb).trans wc).trans wd
    have hcs2 : ((aa ++ ab) ++ []) ++ ad = cs := List.append_cancel_left (wtot.kids.symm.trans hcs)
    subst hcs2
    refine ⟨_, s.pending.map pendingElem ++ [Elem.node "OBJECT_FIELD" (((aa ++ ab) ++ []) ++ ad)],
      ⟨wtot.errs, hb, wtot.mono, wtot.acc⟩, ?_⟩
    intro he ha hh hc
    have hcolon : hasTok "COLON" (((aa ++ ab) ++ []) ++ ad) = false := by
      simp [hasTok_append, ga.2, gb.2, gd'.2, hasTok]
    show s2.recHigh = _
    rw [rd, hrc, gdl_append, gdl_pending, gdl_single, gd_objectField, hcolon]
    simp only [Bool.false_eq_true, if_false, gdl_append, ga.1, gb.1, gd'.1, gdl]
    omega

end Apollo.Parse
