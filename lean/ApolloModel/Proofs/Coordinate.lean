import ApolloModel.Model.Coordinate
namespace Apollo.Coord

theorem splitOnce_spec (c : Char) : ∀ (s a b : Str), splitOnce c s = some (a, b) → s = a ++ c :: b ∧ c ∉ a
  | [], a, b, h => by simp [splitOnce] at h
  | x :: xs, a, b, h => by
    unfold splitOnce at h
    by_cases hx : x = c
    · subst hx; simp at h; obtain ⟨rfl, rfl⟩ := h; simp
    · have hx' : (x == c) = false := by simpa using hx
      simp only [hx', Bool.false_eq_true, if_false] at h
      cases hr : splitOnce c xs with
      | none => simp [hr] at h
      | some p =>
        obtain ⟨a', b'⟩ := p
        simp [hr] at h
        obtain ⟨rfl, rfl⟩ := h
        have ih := splitOnce_spec c xs a' b' hr
        refine ⟨by simp [ih.1], ?_⟩
        simp only [List.mem_cons, not_or]
        exact ⟨fun e => hx e.symm, ih.2⟩

theorem splitOnce_append (c : Char) : ∀ (a b : Str), c ∉ a → splitOnce c (a ++ c :: b) = some (a, b)
  | [], b, _ => by simp [splitOnce]
  | x :: xs, b, h => by
    simp only [List.mem_cons, not_or] at h
    have hx : (x == c) = false := by simpa using fun e => h.1 e.symm
    simp [splitOnce, hx, splitOnce_append c xs b h.2]

theorem splitOnce_none (c : Char) : ∀ (s : Str), c ∉ s → splitOnce c s = none
  | [], _ => rfl
  | x :: xs, h => by
    simp only [List.mem_cons, not_or] at h
    have hx : (x == c) = false := by simpa using fun e => h.1 e.symm
    simp [splitOnce, hx, splitOnce_none c xs h.2]

theorem nameStart_continue (c : Char) : isNameStart c = true → isNameContinue c = true := by
  unfold isNameStart isNameContinue; intro h
  cases ha : isAsciiAlpha c <;> simp_all

theorem valid_all_continue {n : Str} (h : isValidName n = true) : ∀ x ∈ n, isNameContinue x = true := by
  cases n with
  | nil => simp [isValidName] at h
  | cons c cs =>
    simp only [isValidName, Bool.and_eq_true, List.all_eq_true] at h
    intro x hx
    rcases List.mem_cons.mp hx with rfl | hx
    · exact nameStart_continue _ h.1
    · exact h.2 x hx

theorem valid_not_mem {n : Str} (h : isValidName n = true) (ch : Char) (hc : isNameContinue ch = false) : ch ∉ n := by
  intro hm
  have := valid_all_continue h ch hm
  simp [hc] at this

theorem valid_head {n : Str} (h : isValidName n = true) : ∃ c cs, n = c :: cs ∧ isNameStart c = true := by
  cases n with
  | nil => simp [isValidName] at h
  | cons c cs =>
    simp only [isValidName, Bool.and_eq_true] at h
    exact ⟨c, cs, rfl, h.1⟩

theorem nameOk_eq_some {s t : Str} : nameOk s = some t ↔ (isValidName s = true ∧ t = s) := by
  unfold nameOk
  by_cases h : isValidName s = true
  · simp only [h, if_true, Option.some.injEq, true_and]; exact eq_comm
  · simp [h]

theorem nameOk_valid {s : Str} (h : isValidName s = true) : nameOk s = some s := by
  simp [nameOk, h]



theorem parseTypeAttribute_spec {s t a : Str} (h : parseTypeAttribute s = some (t, a)) :
    s = t ++ '.' :: a ∧ isValidName t = true ∧ isValidName a = true := by
  unfold parseTypeAttribute at h
  cases hs : splitOnce '.' s with
  | none => simp [hs] at h
  | some p =>
    obtain ⟨x, y⟩ := p
    simp only [hs] at h
    cases hx : nameOk x <;> cases hy : nameOk y <;> simp [hx, hy] at h
    obtain ⟨rfl, rfl⟩ := h
    obtain ⟨vx, rfl⟩ := nameOk_eq_some.mp hx
    obtain ⟨vy, rfl⟩ := nameOk_eq_some.mp hy
    exact ⟨(splitOnce_spec _ _ _ _ hs).1, vx, vy⟩

/-- the `Some((argument, ")"))` pattern after `split_once(':')` -/
theorem argTail_spec {rest : Str} {k : Str → Coord} {c : Coord}
    (h : (match splitOnce ':' rest with
          | some (argument, [')']) => (nameOk argument).map k
          | _ => none) = some c) :
    ∃ arg, rest = arg ++ [':', ')'] ∧ isValidName arg = true ∧ c = k arg := by
  cases hr : splitOnce ':' rest with
  | none => simp [hr] at h
  | some r =>
    obtain ⟨arg, tail⟩ := r
    have e2 := (splitOnce_spec _ _ _ _ hr).1
    simp only [hr] at h
    split at h
    · rename_i heq
      simp only [Option.some.injEq, Prod.mk.injEq] at heq
      obtain ⟨rfl, rfl⟩ := heq
      cases harg : nameOk arg with
      | none => simp [harg] at h
      | some a' =>
        simp [harg] at h
        obtain ⟨varg, rfl⟩ := nameOk_eq_some.mp harg
        exact ⟨a', e2, varg, h.symm⟩
    · simp at h

theorem parseFieldArgument_spec {s : Str} {c : Coord} (h : parseFieldArgument s = some c) :
    print c = s ∧ c.valid = true := by
  unfold parseFieldArgument at h
  cases hs : splitOnce '(' s with
  | none => simp [hs] at h
  | some p =>
    obtain ⟨fld, rest⟩ := p
    simp only [hs] at h
    cases hta : parseTypeAttribute fld with
    | none => simp [hta] at h
    | some q =>
      obtain ⟨t, a⟩ := q
      simp only [hta] at h
      obtain ⟨rfl, vt, va⟩ := parseTypeAttribute_spec hta
      obtain ⟨arg, rfl, varg, rfl⟩ := argTail_spec h
      have e1 := (splitOnce_spec _ _ _ _ hs).1
      refine ⟨?_, by simp [Coord.valid, vt, va, varg]⟩
      rw [e1]; simp [print]

theorem parseDirective_spec {s d : Str} (h : parseDirective s = some d) :
    s = '@' :: d ∧ isValidName d = true := by
  unfold parseDirective at h
  split at h
  · obtain ⟨v, rfl⟩ := nameOk_eq_some.mp h; exact ⟨rfl, v⟩
  · simp at h

theorem parseDirectiveArgument_spec {s : Str} {c : Coord} (h : parseDirectiveArgument s = some c) :
    print c = s ∧ c.valid = true := by
  unfold parseDirectiveArgument at h
  cases hs : splitOnce '(' s with
  | none => simp [hs] at h
  | some p =>
    obtain ⟨dir, rest⟩ := p
    simp only [hs] at h
    cases hd : parseDirective dir with
    | none => simp [hd] at h
    | some d =>
      simp only [hd] at h
      obtain ⟨rfl, vd⟩ := parseDirective_spec hd
      obtain ⟨arg, rfl, varg, rfl⟩ := argTail_spec h
      have e1 := (splitOnce_spec _ _ _ _ hs).1
      refine ⟨?_, by simp [Coord.valid, vd, varg]⟩
      rw [e1]; simp [print]



theorem lookupAttr_ok {s : Schema} {t a : Str} {f : Found} {o : Option FieldDef}
    (h : lookupAttr s t a = .ok (f, o)) :
    (f = .field t a ∨ f = .inputField t a ∨ f = .enumValue t a) := by
  unfold lookupAttr at h
  cases ht : s.types.lookup t with
  | none => simp [ht] at h
  | some td =>
    cases td with
    | scalar => simp [ht] at h
    | union => simp [ht] at h
    | enum vs => by_cases hm : a ∈ vs <;> simp [ht, hm] at h; simp [h.1]
    | inputObject fs => by_cases hm : a ∈ fs <;> simp [ht, hm] at h; simp [h.1]
    | object fs =>
      cases hf : fs.find? (·.name == a) <;> simp [ht, hf] at h; simp [h.1]
    | interface fs =>
      cases hf : fs.find? (·.name == a) <;> simp [ht, hf] at h; simp [h.1]


end Apollo.Coord
