import ApolloModel.Proofs.ParserTreeDef3
/-
C08 growth (pipeline), stage (v), part 4: separated lists (implements interfaces, union member types, directive
locations) and root operation type definitions — tree shapes and conversion.
-/
set_option linter.unusedSimpArgs false
set_option linter.unusedVariables false
namespace Apollo.FromCst
open Apollo.Rowan Apollo.Ast
open Apollo.Parse (isJunk isJunkKind sigE nameNode)

variable {R : List Loc}

/-- `NAMED_TYPE[NAME[IDENT]]` -/
def NamedTy (nm : Ast.Str) (e : Elem) : Prop :=
  ∃ ncs, e = .node "NAMED_TYPE" ncs ∧ isValidName nm = true ∧ sigE ncs = [nameNode nm]

theorem nameOf_namedTy (nm : Ast.Str) (e : Elem) (h : NamedTy nm e) : ConvE (fun R => @nameOf R) nm e := by
  obtain ⟨ncs, rfl, hv, hs⟩ := h
  exact nameOf_node "NAMED_TYPE" ncs nm hv (by rw [hs]; rfl)

/-- a container whose NAMED_TYPE children are the names `names` (separators and the introducing token are
    tokens and do not matter to the conversion) -/
def NamesNode (K : SK) (names : List Ast.Str) (e : Elem) : Prop :=
  ∃ cs, e = .node K cs ∧ All2 (fun e n => NamedTy n e) ((sigE cs).filter (nodeP (· == "NAMED_TYPE"))) names

def OptNames (K : SK) (names : List Ast.Str) (tail : List Elem) : Prop :=
  (names = [] ∧ tail = []) ∨ (∃ e, tail = [e] ∧ NamesNode K names e)

theorem optNames_kinds {K : SK} {names : List Ast.Str} {t : List Elem} (h : OptNames K names t) : t = [] ∨ ∃ c, t = [.node K c] := by
  rcases h with ⟨_, rfl⟩ | ⟨_, rfl, c, rfl, _⟩
  · exact Or.inl rfl
  · exact Or.inr ⟨c, rfl⟩

theorem all2_convE {α : Type} (f : (R : List Loc) → PE R → M R α) (P : α → Elem → Prop) (hP : ∀ a e, P a e → ConvE f a e) :
    ∀ (es : List Elem) (as : List α), All2 (fun e a => P a e) es as → All2 (fun e a => ConvE f a e) es as
  | _, _, .nil => All2.nil
  | _, _, .cons h1 h2 => All2.cons (hP _ _ h1) (all2_convE f P hP _ _ h2)

theorem namedTypesOf_conv (K : SK) (k : SK) (cs : List Elem) (names : List Ast.Str) (tail : List Elem)
    (hopt : OptNames K names tail) (hfind : (sigE cs).find? (nodeP (· == K)) = tail.head?) :
    ConvE (fun R => @namedTypesOf R K) names (.node k cs) := by
  intro R s hp
  rcases hopt with ⟨rfl, rfl⟩ | ⟨ea, rfl, cs', rfl, hall⟩
  · have := childP_none (R := R) (· == K) k cs s hp (by rw [find_nodeP_sigE]; exact hfind)
    refine ⟨[], ?_⟩
    show namedTypesOf K _ = _
    unfold namedTypesOf
    rw [child_eq_childP, this]; rfl
  · obtain ⟨s', h', hc⟩ := childP_some (R := R) (· == K) k cs s hp _ (by rw [find_nodeP_sigE]; exact hfind)
    have hmap := childrenP_map (R := R) (· == "NAMED_TYPE") K cs' s' h'
    rw [filter_nodeP_sigE] at hmap
    obtain ⟨l, hl⟩ := collectM_conv (R := R) (fun R => @nameOf R) _ _ names hmap
      (all2_convE _ _ (fun a e h => nameOf_namedTy a e h) _ _ hall)
    refine ⟨l, ?_⟩
    show namedTypesOf K _ = _
    unfold namedTypesOf
    rw [child_eq_childP, hc]
    exact hl

/-! ### directive locations -/

/-- `DIRECTIVE_LOCATION[<NAME>_KW]` -/
def LocTree (nm : Ast.Str) (e : Elem) : Prop :=
  ∃ (k : String) (d : Rowan.Str), k ∈ Apollo.Parse.directiveLocationKeywords ∧ nm = k.toList ∧
    e = .node "DIRECTIVE_LOCATION" [.tok (k ++ "_KW") d]

theorem dirLoc_find : ∀ k ∈ Apollo.Parse.directiveLocationKeywords,
    (["QUERY", "MUTATION", "SUBSCRIPTION", "FIELD", "FRAGMENT_DEFINITION", "FRAGMENT_SPREAD", "INLINE_FRAGMENT",
      "VARIABLE_DEFINITION", "SCHEMA", "SCALAR", "OBJECT", "FIELD_DEFINITION", "ARGUMENT_DEFINITION", "INTERFACE",
      "UNION", "ENUM", "ENUM_VALUE", "INPUT_OBJECT", "INPUT_FIELD_DEFINITION"] : List String).find?
        (fun l => (k ++ "_KW") == l ++ "_KW") = some k := by decide

theorem cDirectiveLocation_conv (nm : Ast.Str) (e : Elem) (h : LocTree nm e) : ConvE (fun R => @cDirectiveLocation R) nm e := by
  obtain ⟨k, d, hk, rfl, rfl⟩ := h
  intro R s hp
  refine ⟨[], ?_⟩
  show cDirectiveLocation _ = _
  unfold cDirectiveLocation
  simp only [firstTok, firstTokList, dirLoc_find k hk]
  rfl

/-- the DIRECTIVE_LOCATIONS container, by its DIRECTIVE_LOCATION children -/
def LocsNode (locs : List Ast.Str) (e : Elem) : Prop :=
  ∃ cs, e = .node "DIRECTIVE_LOCATIONS" cs ∧ All2 (fun e n => LocTree n e) ((sigE cs).filter (nodeP (· == "DIRECTIVE_LOCATION"))) locs

theorem locationsOf_conv (k : SK) (cs : List Elem) (locs : List Ast.Str) (el : Elem) (hl : LocsNode locs el)
    (hfind : (sigE cs).find? (nodeP (· == "DIRECTIVE_LOCATIONS")) = some el) :
    ConvE (fun R => @locationsOf R) locs (.node k cs) := by
  intro R s hp
  obtain ⟨cs', rfl, hall⟩ := hl
  obtain ⟨s', h', hc⟩ := childP_some (R := R) (· == "DIRECTIVE_LOCATIONS") k cs s hp _ (by rw [find_nodeP_sigE]; exact hfind)
  have hmap := childrenP_map (R := R) (· == "DIRECTIVE_LOCATION") "DIRECTIVE_LOCATIONS" cs' s' h'
  rw [filter_nodeP_sigE] at hmap
  obtain ⟨l, hl⟩ := collectM_conv (R := R) (fun R => @cDirectiveLocation R) _ _ locs hmap
    (all2_convE _ _ (fun a e h => cDirectiveLocation_conv a e h) _ _ hall)
  refine ⟨l, ?_⟩
  show locationsOf _ = _
  unfold locationsOf
  rw [child_eq_childP, hc]
  exact hl

/-! ### root operation types -/

def rootKw : OpType → SK
  | .query => "query_KW"
  | .mutation => "mutation_KW"
  | .subscription => "subscription_KW"

/-- `ROOT_OPERATION_TYPE_DEFINITION[OPERATION_TYPE[kw] : NamedType?]` — the named type may be missing (KNOWN FINDING) -/
def RootTree (r : OpType × Option Ast.Str) (e : Elem) : Prop :=
  ∃ cs d col tail, e = .node "ROOT_OPERATION_TYPE_DEFINITION" cs ∧
    sigE cs = .node "OPERATION_TYPE" [.tok (rootKw r.1) d] :: .tok "COLON" col :: tail ∧
    ((r.2 = none ∧ tail = []) ∨ (∃ nm en, r.2 = some nm ∧ tail = [en] ∧ NamedTy nm en))

theorem rootTree_nodeP {r : OpType × Option Ast.Str} {e : Elem} (h : RootTree r e) :
    nodeP (· == "ROOT_OPERATION_TYPE_DEFINITION") e = true := by
  obtain ⟨cs, _, _, _, rfl, _⟩ := h; simp [nodeP_node]

theorem cRootOperation_some (op : OpType) (nm : Ast.Str) (e : Elem) (h : RootTree (op, some nm) e) :
    ConvE (fun R => @cRootOperation R) (op, nm) e := by
  obtain ⟨cs, d, col, tail, rfl, hsig, htail⟩ := h
  rcases htail with ⟨h0, _⟩ | ⟨nm', en, h0, rfl, hen⟩
  · cases h0
  · simp only [Option.some.injEq] at h0
    subst h0
    obtain ⟨ncs, rfl, hv, hns⟩ := hen
    intro R s hp
    have hf1 : cs.find? (nodeP (· == "OPERATION_TYPE")) = some (.node "OPERATION_TYPE" [.tok (rootKw op) d]) := by
      rw [find_nodeP_sigE, hsig]; simp [List.find?_cons, nodeP_node]
    obtain ⟨s1, h1, hc1⟩ := childP_some (R := R) (· == "OPERATION_TYPE") _ cs s hp _ hf1
    have hf2 : cs.find? (nodeP (· == "NAMED_TYPE")) = some (.node "NAMED_TYPE" ncs) := by
      rw [find_nodeP_sigE, hsig]; simp [List.find?_cons, nodeP_node, nodeP_tok]
    obtain ⟨s2, h2, hc2⟩ := childP_some (R := R) (· == "NAMED_TYPE") _ cs s hp _ hf2
    obtain ⟨l, hl⟩ := nameOf_node "NAMED_TYPE" ncs nm hv (by rw [hns]; rfl) R s2 h2
    have hot : cOperationType (⟨(Elem.node "OPERATION_TYPE" [.tok (rootKw op) d], s1), h1⟩ : PE R) = some (op, []) := by
      cases op <;> simp [cOperationType, firstTok, firstTokList, rootKw, M.pure']
    refine ⟨[] ++ ([] ++ ([] ++ (l ++ []))), ?_⟩
    show cRootOperation _ = _
    unfold cRootOperation
    rw [child_eq_childP, hc1]
    refine bind_ok rfl (bind_ok hot ?_)
    rw [child_eq_childP, hc2]
    exact bind_ok rfl (bind_ok hl (pure_ok _))

theorem cRootOperation_none (op : OpType) (e : Elem) (h : RootTree (op, none) e) (R : List Loc) (s : Nat)
    (hp : ∀ x ∈ nameRanges e s, x ∈ R) : cRootOperation (⟨(e, s), hp⟩ : PE R) = none := by
  obtain ⟨cs, d, col, tail, rfl, hsig, htail⟩ := h
  rcases htail with ⟨_, rfl⟩ | ⟨nm', en, h0, _, _⟩
  · have hf1 : cs.find? (nodeP (· == "OPERATION_TYPE")) = some (.node "OPERATION_TYPE" [.tok (rootKw op) d]) := by
      rw [find_nodeP_sigE, hsig]; simp [List.find?_cons, nodeP_node]
    obtain ⟨s1, h1, hc1⟩ := childP_some (R := R) (· == "OPERATION_TYPE") _ cs s hp _ hf1
    have hf2 : cs.find? (nodeP (· == "NAMED_TYPE")) = none := by
      rw [find_nodeP_sigE, hsig]; simp [List.find?_cons, nodeP_node, nodeP_tok]
    have hc2 := childP_none (R := R) (· == "NAMED_TYPE") _ cs s hp hf2
    have hot : cOperationType (⟨(Elem.node "OPERATION_TYPE" [.tok (rootKw op) d], s1), h1⟩ : PE R) = some (op, []) := by
      cases op <;> simp [cOperationType, firstTok, firstTokList, rootKw, M.pure']
    unfold cRootOperation
    rw [child_eq_childP, hc1]
    show M.bind' _ _ = none
    simp only [M.ofOpt, M.bind', hot, child_eq_childP, hc2]
    rfl
  · cases h0

/-- the root operation types that convert: those with their named type -/
def rootsConv : List (OpType × Option Ast.Str) → List (OpType × Ast.Str)
  | [] => []
  | (op, some nm) :: r => (op, nm) :: rootsConv r
  | (_, none) :: r => rootsConv r

theorem filterMapM_roots : ∀ (qs : List (PE R)) (rs : List (OpType × Option Ast.Str)),
    All2 (fun (q : PE R) r => RootTree r q.1.1) qs rs → ∃ l, filterMapM cRootOperation qs = (rootsConv rs, l)
  | [], [], _ => ⟨[], rfl⟩
  | [], _ :: _, h => by cases h
  | _ :: _, [], h => by cases h
  | q :: qs, (op, onm) :: rs, h => by
    cases h with
    | cons h1 h2 =>
      obtain ⟨l2, e2⟩ := filterMapM_roots qs rs h2
      obtain ⟨⟨e, s⟩, hp⟩ := q
      cases onm with
      | none =>
        have := cRootOperation_none op e h1 R s hp
        exact ⟨l2, by simp only [filterMapM, e2, this, rootsConv]⟩
      | some nm =>
        obtain ⟨l1, e1⟩ := cRootOperation_some op nm e h1 R s hp
        exact ⟨l1 ++ l2, by simp only [filterMapM, e2, e1, rootsConv]⟩

/-- `roots` of a schema definition / extension: the ROOT_OPERATION_TYPE_DEFINITION children -/
theorem rootsOf_conv (k : SK) (cs : List Elem) (rs : List (OpType × Option Ast.Str))
    (hall : All2 (fun e r => RootTree r e) ((sigE cs).filter (nodeP (· == "ROOT_OPERATION_TYPE_DEFINITION"))) rs) :
    ConvE (fun R => @rootsOf R) (rootsConv rs) (.node k cs) := by
  intro R s hp
  have hmap := childrenP_map (R := R) (· == "ROOT_OPERATION_TYPE_DEFINITION") k cs s hp
  rw [filter_nodeP_sigE] at hmap
  have hq : All2 (fun (q : PE R) r => RootTree r q.1.1)
      (childrenP (· == "ROOT_OPERATION_TYPE_DEFINITION") (⟨(Elem.node k cs, s), hp⟩ : PE R)) rs := by
    generalize childrenP (· == "ROOT_OPERATION_TYPE_DEFINITION") (⟨(Elem.node k cs, s), hp⟩ : PE R) = qs at hmap
    generalize (sigE cs).filter (nodeP (· == "ROOT_OPERATION_TYPE_DEFINITION")) = es at hmap hall
    subst hmap
    induction qs generalizing rs with
    | nil => cases hall; exact All2.nil
    | cons q qs ih =>
      cases hall with
      | cons h1 h2 => exact All2.cons h1 (ih _ h2)
  obtain ⟨l, hl⟩ := filterMapM_roots _ rs hq
  refine ⟨l, ?_⟩
  show rootsOf _ = _
  unfold rootsOf collectM
  rw [children_eq_childrenP, hl]

end Apollo.FromCst

namespace Apollo.Parse
open Apollo.Rowan hiding Str
open Apollo.Lex hiding Str
open Apollo.FromCst (TyTree DescPre OptDirs All2 NamedTy NamesNode OptNames LocTree LocsNode RootTree rootKw nodeP)

/-- `withNode` when the significance of the head token follows from the lexer fact `LexQ` -/
theorem tr_withNodeL {α : Type} {E : PState → Prop} (hE : Early E) {H : List Tok → Prop} (K : SK) {body : PI α}
    {R : α → List Tok → List Elem → Prop}
    (hsig : ∀ q, LexQ q → H q → ∃ t rest, q = t :: rest ∧ isIgnoredKind t.kind = false)
    (h : Tr E H body R) :
    Tr E H (withNode K body) (fun a cs e => ∃ inner, e = [Elem.node K inner] ∧ R a cs (sigE inner)) := by
  refine ⟨good_withNode K body h.1, ?_⟩
  intro s a s' w hi he hlq hq hr hnd
  obtain ⟨t, rest, ht, hni⟩ := hsig _ hlq.1 hq
  obtain ⟨s0, s2, inner, o0, hi0, _, hr2, o2, hin, hout⟩ := withNode_tree K body s hi a s' hr
  obtain ⟨_, s1, hs, hb⟩ := bind_dec skipIgnored _ s0 s2 a hr2
  obtain ⟨ign, e, hall, _⟩ := skipIgnored_spec s0 s1 (o0.w w) hs
  have : ign = [] := skip_nothing s0 s1 t rest ign (by rw [o0.toks]; exact ht) hni e hall
  subst this
  have e01 : Eat s s1 [] := by simpa using (Eat.ofObsEq o0 w).trans e
  have ht1 : Toks s1 = Toks s := by have := e01.toks; simpa using this.symm
  have he1 : EofEnd s1 := eofEnd_eat he e01 (by intro x hx; cases hx)
  have hi1 := (run_inv_added skipIgnored s0 hi0 () s1 hs).1
  have hnd2 : ¬ Doomed s2 := fun d => hnd (o2.doomed.mpr d)
  obtain ⟨cs, ad, a1, a2, a3, a4, a5⟩ := h.2 s1 a s2 e01.w hi1 he1 (hlq.of_eq ht1) (by rw [ht1]; exact hq) hb hnd2
  have hk1 : s1.builder = s0.builder := keeps_skipIgnored s0 () s1 hs
  have hinner : inner = ad := by
    rw [hk1] at a4
    rw [a4] at hin
    exact (List.append_cancel_left hin).symm
  subst hinner
  refine ⟨cs, s.pending.map pendingElem ++ [Elem.node K inner], ?_, a2, eofEnd_obs a3 o2, by rw [hout, List.append_assoc], ?_⟩
  · rw [← ht1, a1, o2.toks]
  · rcases a5 with r | ev
    · left
      rw [sigE_append, sigE_pending, List.nil_append, sigE_node]
      exact ⟨inner, rfl, r⟩
    · exact Or.inr (hE.toks s2 s' o2.toks ev)

/-- bumping a token whose text is the keyword `word` (as the look-ahead established) -/
theorem tr_bumpKw {E : PState → Prop} (word : String) (hw : KwWord word) (sk : SK) (hk : isJunkKind sk = false) :
    Tr E (HeadData word) (bump sk)
      (fun _ cs e => ∃ t : Tok, t.data = word.toList ∧ t.kind = .name ∧ cs = [t] ∧ e = [Elem.tok sk t.data]) := by
  obtain ⟨c, r, hw1, hw2⟩ := hw
  have hb := tr_bump (E := E) sk hk (fun t => t.data = word.toList ∧ t.kind = .name)
    (by rintro t ⟨_, h⟩; rw [h]; exact ⟨rfl, by decide⟩)
  refine ⟨hb.1, ?_⟩
  intro s a s' w hi he hlq ⟨t, hh, hd⟩ hr hnd
  have hkn : t.kind = .name := hlq.1.headKw hh word c r hw1 hw2 hd
  obtain ⟨cs, ad, a1, a2, a3, a4, a5⟩ := hb.2 s a s' w hi he hlq ⟨t, hh, hd, hkn⟩ hr hnd
  refine ⟨cs, ad, a1, a2, a3, a4, ?_⟩
  rcases a5 with ⟨t', ⟨h1, h2⟩, _, h3, h4⟩ | ev
  · exact Or.inl ⟨t', h1, h2, h3, h4⟩
  · exact Or.inr ev

/-! ### named types as list items -/

def SepItem (Q : Ast.Str → Elem → Prop) (cs : List Tok) (e : List Elem) : Prop :=
  ∃ (t : Tok) (ei : Elem), t.kind = .name ∧ cs = [t] ∧ e = [ei] ∧ Q t.data ei

theorem tr_namedTypeAtName {E : PState → Prop} (hE : Early E) :
    Tr E (KindP (· == .name)) namedType (fun _ => SepItem NamedTy) := by
  unfold namedType
  apply tr_peek
  intro k
  refine tr_ite _ (fun _ => ?_) (fun hk => ?_)
  · refine (tr_withNodeAny hE "NAMED_TYPE" (tr_name (E := E) (H := fun _ => True))).mono (fun _ _ => trivial) ?_
    rintro _ cs e ⟨inner, rfl, t, hk, hv, rfl, hin⟩
    exact ⟨t, _, hk, rfl, rfl, inner, rfl, hv, hin⟩
  · refine tr_absurd (good_pure ()) ?_
    rintro q ⟨⟨t, hh, hp⟩, h2⟩
    rw [hh] at h2
    subst h2
    simp at hk hp
    exact hk hp

theorem tr_nameItem {E : PState → Prop} (hE : Early E) {H : List Tok → Prop} : Tr E H nameItem (fun _ => SepItem NamedTy) := by
  unfold nameItem
  exact tr_ifKind .name _ _ _ (tr_namedTypeAtName hE) tr_err

/-! ### `parse_separated_list` -/

def SepR (psep : Ast.P) (IK : SK) (Q : Ast.Str → Elem → Prop) (cs : List Tok) (e : List Elem) : Prop :=
  ∃ (lead : Bool) (first : Ast.Str) (rest : List Ast.Str), TokIs cs (tSepLead psep lead first rest) ∧
    All2 (fun e n => Q n e) (e.filter (nodeP (· == IK))) (first :: rest)

theorem tr_sepList {E : PState → Prop} (hE : Early E) {H : List Tok → Prop} (sep : Kind) (sk : SK) (psep : Ast.P)
    (hjk : isJunkKind sk = false) (hx : ∀ t : Tok, t.kind = sep → astOfV t = some (.p psep))
    (hni : isIgnoredKind sep = false) (hne : sep ≠ .eof) (run : PI Unit) (IK : SK) (Q : Ast.Str → Elem → Prop)
    (hQ : ∀ n e, Q n e → nodeP (· == IK) e = true)
    (hrun : Tr E (fun _ => True) run (fun _ => SepItem Q)) :
    Tr E H (parseSeparatedList sep sk run) (fun _ => SepR psep IK Q) := by
  rw [parseSeparatedList_eq]
  have hbs := tr_bump (E := E) sk hjk (fun t => t.kind = sep) (by intro t h; rw [h]; exact ⟨hni, hne⟩)
  have hbs' : Tr E (KindP (· == sep)) (bump sk) (fun _ cs e => ∃ ts : Tok, ts.kind = sep ∧ cs = [ts] ∧ e = [Elem.tok sk ts.data]) :=
    hbs.mono (fun q ⟨t, h1, h2⟩ => ⟨t, h1, by simpa using h2⟩) (fun _ _ _ ⟨t, h1, _, h2, h3⟩ => ⟨t, h1, h2, h3⟩)
  let ItemQ : List Tok → List Elem → Prop := fun cs e => ∃ (ts t : Tok) (ei : Elem), ts.kind = sep ∧ t.kind = .name ∧
    cs = [ts, t] ∧ e = [Elem.tok sk ts.data, ei] ∧ Q t.data ei
  have hitem : Tr E (KindP (· == sep)) (bump sk >>= fun _ => run) (fun _ => ItemQ) := by
    refine (tr_bind hE hbs' (fun _ => hrun)).mono (fun _ h => h) ?_
    rintro _ cs e ⟨_, c1, c2, e1, e2, rfl, rfl, ⟨ts, h1, rfl, rfl⟩, t, ei, h2, rfl, rfl, h3⟩
    exact ⟨ts, t, ei, h1, h2, rfl, rfl, h3⟩
  have hitems : ∀ cs e, ItemsT ItemQ cs e → ∃ rest : List Ast.Str, TokIs cs (Ast.tSepNames psep rest) ∧
      All2 (fun e n => Q n e) (e.filter (nodeP (· == IK))) rest := by
    rintro cs e ⟨items, rfl, rfl, hall⟩
    induction items with
    | nil => exact ⟨[], TokIs.nil, All2.nil⟩
    | cons i items ih =>
      obtain ⟨rest, h1, h2⟩ := ih (fun j hj => hall j (List.mem_cons_of_mem _ hj))
      obtain ⟨ts, t, ei, hk1, hk2, hc, he, hq⟩ := hall i List.mem_cons_self
      refine ⟨t.data :: rest, ?_, ?_⟩
      · simp only [List.map_cons, List.flatten_cons, hc, Ast.tSepNames]
        exact TokIs.cons (hx ts hk1) (TokIs.cons (by simp [astOfV, hk2]) h1)
      · simp only [List.map_cons, List.flatten_cons, he, List.filter_append, List.filter_cons, FromCst.nodeP_tok, hQ _ _ hq]
        exact All2.cons hq h2
  have hrest : Tr E (fun _ => True) (sepRest sep sk run) (fun _ cs e => ∃ (first : Ast.Str) (rest : List Ast.Str),
      TokIs cs (.name first :: Ast.tSepNames psep rest) ∧ All2 (fun e n => Q n e) (e.filter (nodeP (· == IK))) (first :: rest)) := by
    unfold sepRest
    refine (tr_bind hE hrun (fun _ => tr_kindWhile hE sep _ ItemQ hitem)).mono (fun _ h => h) ?_
    rintro _ cs e ⟨_, c1, c2, e1, e2, rfl, rfl, ⟨t, ei, hk, rfl, rfl, hq⟩, hit⟩
    obtain ⟨rest, h1, h2⟩ := hitems _ _ hit
    refine ⟨t.data, rest, TokIs.cons (by simp [astOfV, hk]) h1, ?_⟩
    simp only [List.filter_append, List.filter_cons, hQ _ _ hq, List.filter_nil, List.cons_append, List.nil_append, if_true]
    exact All2.cons hq h2
  refine (tr_optKind hE sep (bump sk) _ _ _ hbs' hrest).mono (fun _ _ => trivial) ?_
  rintro _ cs e ⟨c1, c2, e1, e2, rfl, rfl, h1, first, rest, h2, h3⟩
  rcases h1 with ⟨ts, hk, rfl, rfl⟩ | ⟨rfl, rfl⟩
  · refine ⟨true, first, rest, ?_, ?_⟩
    · have := (TokIs.single ts _ (hx ts hk)).append h2
      simpa [tSepLead] using this
    · simpa [List.filter_cons, FromCst.nodeP_tok] using h3
  · exact ⟨false, first, rest, by simpa [tSepLead] using h2, by simpa using h3⟩

/-! ### implements interfaces, union member types -/

theorem namedTy_nodeP {n : Ast.Str} {e : Elem} (h : NamedTy n e) : nodeP (· == "NAMED_TYPE") e = true := by
  obtain ⟨c, rfl, _⟩ := h; simp [FromCst.nodeP_node]

/-- what a names container contributes: tokens `intro ++ tSepLead …`, one `K` node -/
def NamesR (K : SK) (intro : List Ast.Tok) (psep : Ast.P) (cs : List Tok) (e : List Elem) : Prop :=
  ∃ (lead : Bool) (first : Ast.Str) (rest : List Ast.Str) (en : Elem), TokIs cs (intro ++ tSepLead psep lead first rest) ∧
    e = [en] ∧ NamesNode K (first :: rest) en

theorem tr_implementsInterfaces {E : PState → Prop} (hE : Early E) :
    Tr E (HeadData "implements") implementsInterfaces (fun _ => NamesR "IMPLEMENTS_INTERFACES" [.name Ast.sImplements] .amp) := by
  rw [implementsInterfaces_eq]
  have hb := tr_bind hE (tr_bumpKw (E := E) "implements" kwWord_implements "implements_KW" (by decide))
    (fun _ => tr_sepList hE (H := fun _ => True) .amp "AMP" .amp (by decide) (by intro t ht; simp [astOfV, ht]) rfl (by decide)
      nameItem "NAMED_TYPE" NamedTy (fun n e h => namedTy_nodeP h) (tr_nameItem hE))
  refine (tr_withNodeL hE "IMPLEMENTS_INTERFACES" (fun q hl hq => kwWord_sig kwWord_implements q ⟨hl, hq⟩) hb).mono (fun _ h => h) ?_
  rintro _ cs e ⟨inner, rfl, _, c1, c2, e1, e2, rfl, hin, ⟨t, hd, hk, rfl, rfl⟩, lead, first, rest, h1, h2⟩
  refine ⟨lead, first, rest, _, ?_, rfl, inner, rfl, ?_⟩
  · refine TokIs.cons (t := t) ?_ h1
    rw [show astOfV t = some (.name t.data) from by simp [astOfV, hk], hd]; rfl
  · rw [hin]
    simpa [List.filter_cons, FromCst.nodeP_tok] using h2

theorem tr_unionMemberTypes {E : PState → Prop} (hE : Early E) :
    Tr E (KindP (· == .eq)) unionMemberTypes (fun _ => NamesR "UNION_MEMBER_TYPES" [.p .eq] .pipe) := by
  rw [unionMemberTypes_eq]
  have hbe := tr_bump (E := E) "EQ" (by decide) (fun t => t.kind = .eq) (by intro t h; rw [h]; exact ⟨rfl, by decide⟩)
  have hbe' : Tr E (KindP (· == .eq)) (bump "EQ") (fun _ cs e => ∃ t : Tok, t.kind = Kind.eq ∧ TokFact t ∧ cs = [t] ∧ e = [Elem.tok "EQ" t.data]) :=
    hbe.mono (fun q hq => by obtain ⟨t, h1, h2⟩ := hq; exact ⟨t, h1, by simpa using h2⟩) (fun _ _ _ h => h)
  have hb := tr_bind hE hbe'
    (fun _ => tr_sepList hE (H := fun _ => True) .pipe "PIPE" .pipe (by decide) (by intro t ht; simp [astOfV, ht]) rfl (by decide)
      nameItem "NAMED_TYPE" NamedTy (fun n e h => namedTy_nodeP h) (tr_nameItem hE))
  refine (tr_withNode hE "UNION_MEMBER_TYPES" (kindP_sig _ eq_sig) hb).mono (fun _ h => h) ?_
  rintro _ cs e ⟨inner, rfl, _, c1, c2, e1, e2, rfl, hin, ⟨t, hk, _, rfl, rfl⟩, lead, first, rest, h1, h2⟩
  refine ⟨lead, first, rest, _, ?_, rfl, inner, rfl, ?_⟩
  · exact TokIs.cons (by simp [astOfV, hk]) h1
  · rw [hin]
    simpa [List.filter_cons, FromCst.nodeP_tok] using h2

/-! ### directive locations -/

theorem locTree_nodeP {n : Ast.Str} {e : Elem} (h : LocTree n e) : nodeP (· == "DIRECTIVE_LOCATION") e = true := by
  obtain ⟨k, d, _, _, rfl⟩ := h; simp [FromCst.nodeP_node]

theorem dirLocKw_notJunk : ∀ k ∈ directiveLocationKeywords, isJunkKind (k ++ "_KW") = false := by decide

theorem tr_directiveLocation {E : PState → Prop} (hE : Early E) {H : List Tok → Prop} :
    Tr E H directiveLocation (fun _ => SepItem LocTree) := by
  unfold directiveLocation
  apply tr_peekToken
  intro o
  cases o with
  | none =>
    refine (tr_never (acc_emptyQueue (good_pure ()))).mono (fun _ h => h.2) (fun _ _ _ h => h)
  | some t =>
    simp only []
    refine tr_ite _ (fun hk => ?_) (fun _ => tr_err)
    have hk' : t.kind = .name := by simpa using hk
    split
    · rename_i k hf
      have hkw : t.data = k.toList := by
        have := List.find?_some hf
        simpa [kw] using this
      have hmem : k ∈ directiveLocationKeywords := List.mem_of_find?_eq_some hf
      have hj : isJunkKind (k ++ "_KW") = false := dirLocKw_notJunk k hmem
      refine (tr_leaf (E := E) "DIRECTIVE_LOCATION" (k ++ "_KW") hj (fun t' => t' = t)
        (by rintro t' rfl; rw [hk']; exact ⟨rfl, by decide⟩)).mono ?_ ?_
      · rintro q ⟨_, hq⟩; exact ⟨t, hq, rfl⟩
      · rintro _ cs e ⟨t', rfl, _, rfl, rfl⟩
        exact ⟨t', _, hk', rfl, rfl, k, t'.data, hmem, hkw, rfl⟩
    · exact tr_err

def LocationsR (cs : List Tok) (e : List Elem) : Prop :=
  ∃ (lead : Bool) (first : Ast.Str) (rest : List Ast.Str), TokIs cs (tSepLead .pipe lead first rest) ∧
    All2 (fun e n => LocTree n e) (e.filter (nodeP (· == "DIRECTIVE_LOCATION"))) (first :: rest)

theorem tr_directiveLocations {E : PState → Prop} (hE : Early E) {H : List Tok → Prop} :
    Tr E H directiveLocations (fun _ => LocationsR) := by
  unfold directiveLocations
  exact tr_sepList hE .pipe "PIPE" .pipe (by decide) (by intro t ht; simp [astOfV, ht]) rfl (by decide) directiveLocation
    "DIRECTIVE_LOCATION" LocTree (fun n e h => locTree_nodeP h) (tr_directiveLocation hE)

/-! ### root operation type definition -/

theorem tr_opBump {E : PState → Prop} (t : Tok) (op : Ast.OpType) (hd : t.data = op.name.toList) :
    Tr E (fun q => KindP (· == .name) q ∧ q.head? = some t) (withNode "OPERATION_TYPE" (bump (rootKw op)))
      (fun _ cs e => ∃ t' : Tok, t'.kind = .name ∧ t'.data = op.name.toList ∧ cs = [t'] ∧
        e = [Elem.node "OPERATION_TYPE" [Elem.tok (rootKw op) t'.data]]) := by
  have hj : isJunkKind (rootKw op) = false := by cases op <;> decide
  refine (tr_leaf (E := E) "OPERATION_TYPE" (rootKw op) hj (fun t' => t'.kind = .name ∧ t'.data = op.name.toList)
    (by rintro t' ⟨h, _⟩; rw [h]; exact ⟨rfl, by decide⟩)).mono ?_ ?_
  · rintro q ⟨⟨t', hh, hk⟩, h2⟩
    rw [hh] at h2
    have : t' = t := by simpa using h2
    subst this
    exact ⟨t', hh, by simpa using hk, hd⟩
  · rintro _ cs e ⟨t', ⟨h1, h2⟩, _, h3, h4⟩
    exact ⟨t', h1, h2, h3, h4⟩

/-- `operation_type` on a Name token: one of the three keywords, as `OPERATION_TYPE[<kw>_KW]` -/
theorem tr_operationTypeD {E : PState → Prop} (hE : Early E) :
    Tr E (KindP (· == .name)) operationType
      (fun _ cs e => ∃ (op : Ast.OpType) (t : Tok), t.kind = .name ∧ t.data = op.name.toList ∧ cs = [t] ∧
        e = [Elem.node "OPERATION_TYPE" [Elem.tok (rootKw op) t.data]]) := by
  unfold operationType
  apply tr_peekData
  intro o
  cases o with
  | none =>
    refine tr_absurd (good_pure ()) ?_
    rintro q ⟨⟨t, hh, _⟩, h2⟩
    rw [hh] at h2; cases h2
  | some t =>
    simp only [Option.map]
    by_cases h1 : kw "query" t.data = true
    · simp only [h1, if_true]
      exact (tr_opBump t .query (by have h0 := h1; simp only [kw, beq_iff_eq] at h0; exact h0)).mono (fun _ h => h)
        (fun _ _ _ ⟨t', a, b, c, d⟩ => ⟨.query, t', a, b, c, d⟩)
    · simp only [h1, Bool.false_eq_true, if_false]
      by_cases h2 : kw "subscription" t.data = true
      · simp only [h2, if_true]
        exact (tr_opBump t .subscription (by have h0 := h2; simp only [kw, beq_iff_eq] at h0; exact h0)).mono (fun _ h => h)
          (fun _ _ _ ⟨t', a, b, c, d⟩ => ⟨.subscription, t', a, b, c, d⟩)
      · simp only [h2, Bool.false_eq_true, if_false]
        by_cases h3 : kw "mutation" t.data = true
        · simp only [h3, if_true]
          exact (tr_opBump t .mutation (by have h0 := h3; simp only [kw, beq_iff_eq] at h0; exact h0)).mono (fun _ h => h)
            (fun _ _ _ ⟨t', a, b, c, d⟩ => ⟨.mutation, t', a, b, c, d⟩)
        · simp only [h3, Bool.false_eq_true, if_false]
          refine (tr_withNode (R := fun _ _ _ => False) hE "OPERATION_TYPE" (fun q hq => kindP_sig _ name_sig q hq.1) tr_errAndPop).mono
            (fun _ h => h) ?_
          rintro _ cs e ⟨_, _, hf⟩
          exact absurd hf id

/-- `named_type`: a Name under NAMED_TYPE, or — silently — nothing -/
theorem tr_namedTypeOpt {E : PState → Prop} (hE : Early E) {H : List Tok → Prop} :
    Tr E H namedType (fun _ cs e => SepItem NamedTy cs e ∨ (cs = [] ∧ e = [])) := by
  have h1 := tr_namedTypeAtName hE
  unfold namedType at h1 ⊢
  apply tr_peek
  intro k
  refine tr_ite _ (fun hk => ?_) (fun _ => ?_)
  · refine (tr_withNodeAny hE "NAMED_TYPE" (tr_name (E := E) (H := fun _ => True))).mono (fun _ _ => trivial) ?_
    rintro _ cs e ⟨inner, rfl, t, hk, hv, rfl, hin⟩
    exact Or.inl ⟨t, _, hk, rfl, rfl, inner, rfl, hv, hin⟩
  · exact (tr_pure E _ ()).mono (fun _ _ => trivial) (fun _ _ _ h => Or.inr h.2)

def RootR (cs : List Tok) (e : List Elem) : Prop :=
  ∃ (r : Ast.OpType × Option Ast.Str) (er : Elem), TokIs cs (tRootOpF r) ∧ e = [er] ∧ RootTree r er

theorem tr_rootOperationTypeDefinition {E : PState → Prop} (hE : Early E) :
    Tr E (KindP (· == .name)) rootOperationTypeDefinition (fun _ => RootR) := by
  unfold rootOperationTypeDefinition
  have hbc := tr_bump (E := E) "COLON" (by decide) (fun t => t.kind = .colon) (by intro t h; rw [h]; exact ⟨rfl, by decide⟩)
  have hbc' : Tr E (KindP (· == .colon)) (bump "COLON") (fun _ cs e => ∃ t : Tok, t.kind = Kind.colon ∧ TokFact t ∧ cs = [t] ∧
      e = [Elem.tok "COLON" t.data]) :=
    hbc.mono (fun q hq => by obtain ⟨t, h1, h2⟩ := hq; exact ⟨t, h1, by simpa using h2⟩) (fun _ _ _ h => h)
  have hc := tr_ifKind (E := E) (H := fun _ => True) .colon _ _ _
    (tr_bind hE hbc' (fun _ => tr_namedTypeOpt hE (H := fun _ => True))) tr_err
  have hb := tr_bind hE (tr_operationTypeD hE) (fun _ => hc)
  refine (tr_withNode hE "ROOT_OPERATION_TYPE_DEFINITION" (kindP_sig _ name_sig) hb).mono (fun _ h => h) ?_
  rintro _ cs e ⟨inner, rfl, _, c1, c2, e1, e2, rfl, hin, ⟨op, t, hk, hd, rfl, rfl⟩, _, c3, c4, e3, e4, rfl, rfl,
    ⟨tc, hkc, _, rfl, rfl⟩, hnt⟩
  have hop : astOfV t = some (.name op.name.toList) := by
    rw [show astOfV t = some (.name t.data) from by simp [astOfV, hk], hd]
  have hcol : astOfV tc = some (.p .colon) := by simp [astOfV, hkc]
  rcases hnt with ⟨tn, en, hkn, rfl, rfl, hen⟩ | ⟨rfl, rfl⟩
  · refine ⟨(op, some tn.data), _, ?_, rfl, inner, t.data, tc.data, [en], rfl, by rw [hin]; rfl, Or.inr ⟨tn.data, en, rfl, rfl, hen⟩⟩
    exact TokIs.cons hop (TokIs.cons hcol (TokIs.single tn _ (by simp [astOfV, hkn])))
  · refine ⟨(op, none), _, ?_, rfl, inner, t.data, tc.data, [], rfl, by rw [hin]; rfl, Or.inl ⟨rfl, rfl⟩⟩
    exact TokIs.cons hop (TokIs.single tc _ hcol)

end Apollo.Parse
