import ApolloModel.Proofs.ParserTree9
/-
C08 growth (pipeline), part 10: value.rs in the tree calculus — an accepted value `v` is built as `ValTree v`.
-/
set_option linter.unusedSimpArgs false
set_option linter.unusedVariables false
namespace Apollo.Parse
open Apollo.Rowan hiding Str
open Apollo.Lex hiding Str
open Apollo.FromCst (ValTree ValsTree FieldsTree)

/-! ### a general `peek_while` loop: items while the closure says `Continue`, then what the `Break` step did -/

def HeadK (k : Kind) (q : List Tok) : Prop := q.head?.map (·.kind) = some k

theorem tr_whileLoop {E : PState → Prop} (hE : Early E) (body : Kind → PI Bool)
    (Q Fin : List Tok → List Elem → Prop)
    (hbody : ∀ k, Tr E (HeadK k) (body k) (fun b cs e => (b = true ∧ Q cs e) ∨ (b = false ∧ Fin cs e))) : ∀ fuel,
    Tr E (fun _ => True) (peekWhileLoop body fuel)
      (fun _ cs e => ∃ c1 c2 e1 e2, cs = c1 ++ c2 ∧ e = e1 ++ e2 ∧ ItemsT Q c1 e1 ∧ Fin c2 e2) := by
  intro fuel
  refine ⟨good_peekWhileLoop _ (fun k => (hbody k).1) fuel, ?_⟩
  induction fuel with
  | zero => intro s a s' _ _ _ _ _ h; simp [peekWhileLoop, PI.outOfFuel] at h
  | succ fuel ih =>
    intro s a s' w hi he hlq _ h hnd
    unfold peekWhileLoop at h
    obtain ⟨ko, sP, hp, h2⟩ := bind_dec peek _ s s' () h
    obtain ⟨o, p', hko⟩ := peek_obs s sP ko w hp
    subst hko
    have heP : EofEnd sP := eofEnd_eat he p'.eat (by intro x hx; cases hx)
    have hiP := (run_inv_added peek s hi _ sP hp).1
    have hbP : sP.builder = s.builder := keeps_peek s _ sP hp
    cases o with
    | none =>
      exfalso
      simp only [Option.map_none] at h2
      rw [run_pure] at h2
      injection h2 with _ h2
      subst h2
      have hh := p'.head
      have : Toks s = [] := by
        cases ht : Toks s with
        | nil => rfl
        | cons a b => rw [ht] at hh; cases hh
      exact eofEnd_nonempty s he (fun d => hnd (p'.doom.mpr d)) this
    | some t =>
      simp only [Option.map_some] at h2
      have h3 := getCurrent_dec _ sP s' () h2
      obtain ⟨b, sB, hb, h4⟩ := bind_dec (body t.kind) _ sP s' () h3
      have aB := (hbody t.kind).1 sP b sB p'.w hb
      have hq : HeadK t.kind (Toks sP) := by unfold HeadK; rw [p'.toks, ← p'.head]; rfl
      have hiB := (run_inv_added (body t.kind) sP hiP b sB hb).1
      cases b with
      | false =>
        simp only [Bool.false_eq_true, if_false] at h4
        rw [run_pure] at h4
        injection h4 with _ h4
        subst h4
        obtain ⟨c1, d1, t1, n1, e1, b1, r1⟩ := (hbody t.kind).2 sP false sB p'.w hiP heP (hlq.of_eq p'.toks) hq hb hnd
        refine ⟨c1, d1, by rw [← p'.toks]; exact t1, n1, e1, by rw [b1, hbP], ?_⟩
        rcases r1 with (⟨hx, _⟩ | ⟨_, hfin⟩) | ev
        · cases hx
        · exact Or.inl ⟨[], sig c1, [], sigE d1, rfl, rfl, itemsT_nil Q, hfin⟩
        · exact Or.inr ev
      | true =>
        simp only [if_true] at h4
        have h5 := getCurrent_dec _ sB s' () h4
        by_cases hsame : (sP.current == sB.current) = true
        · simp only [hsame, if_true] at h5
          exact absurd h5 (stuck_not_ok _ _ _)
        · simp only [hsame, Bool.false_eq_true, if_false] at h5
          have hndB : ¬ Doomed sB := fun d => hnd ((good_peekWhileLoop _ (fun k => (hbody k).1) fuel sB () s' aB.w h5).doom d)
          obtain ⟨c1, d1, t1, n1, e1, b1, r1⟩ := (hbody t.kind).2 sP true sB p'.w hiP heP (hlq.of_eq p'.toks) hq hb hndB
          obtain ⟨c2, d2, t2, n2, e2, b2, r2⟩ := ih sB () s' aB.w hiB e1
            (LQ.suffix (cs := c1) (by rw [← t1, p'.toks]; exact hlq)) trivial h5 hnd
          refine ⟨c1 ++ c2, d1 ++ d2, by rw [← p'.toks, t1, t2, List.append_assoc], noEof_append n1 n2, e2,
            by rw [b2, b1, hbP, List.append_assoc], ?_⟩
          rcases r1 with (⟨_, hq1⟩ | ⟨hx, _⟩) | ev
          · rcases r2 with ⟨x1, x2, y1, y2, hc, hee, hit, hfin⟩ | ev2
            · left
              refine ⟨sig c1 ++ x1, x2, sigE d1 ++ y1, y2, by rw [sig_append, hc, List.append_assoc],
                by rw [sigE_append, hee, List.append_assoc], itemsT_cons hq1 hit, hfin⟩
            · exact Or.inr ev2
          · cases hx
          · exact Or.inr (hE.carries sB s' c2 e1 hndB ev t2 n2)

theorem tr_while {E : PState → Prop} (hE : Early E) {H : List Tok → Prop} (body : Kind → PI Bool)
    (Q Fin : List Tok → List Elem → Prop)
    (hbody : ∀ k, Tr E (HeadK k) (body k) (fun b cs e => (b = true ∧ Q cs e) ∨ (b = false ∧ Fin cs e))) :
    Tr E H (peekWhile body)
      (fun _ cs e => ∃ c1 c2 e1 e2, cs = c1 ++ c2 ∧ e = e1 ++ e2 ∧ ItemsT Q c1 e1 ∧ Fin c2 e2) := by
  have hl := tr_whileLoop hE body Q Fin hbody
  refine ⟨good_peekWhile _ (fun k => (hbody k).1), ?_⟩
  intro s a s' w hi he hlq _ h hnd
  unfold peekWhile at h
  obtain ⟨fuel, h5⟩ := srcLen_dec _ s s' () h
  exact (hl _).2 s () s' w hi he hlq trivial h5 hnd

/-- stopping (without consuming anything) when the head of the queue is the EOF token: the "early" alternative -/
theorem tr_stopAtEof {α : Type} (a : α) {R : α → List Tok → List Elem → Prop} :
    Tr AtEof (HeadK .eof) (pure a : PI α) R := by
  refine ⟨good_pure a, ?_⟩
  intro s a' s' w hi he hlq hq hr _
  rw [run_pure] at hr
  injection hr with h1 h2
  subst h1 h2
  refine ⟨[], [], rfl, (by intro x hx; cases hx), he, by simp, Or.inr ?_⟩
  unfold HeadK at hq
  cases hh : (Toks s).head? with
  | none => rw [hh] at hq; cases hq
  | some t => rw [hh] at hq; exact ⟨t, hh, by simpa using hq⟩

theorem headP_of_headK {k : Kind} {q : List Tok} (h : HeadK k q) : HeadP (fun t : Tok => t.kind = k) q := by
  unfold HeadK at h
  unfold HeadP
  cases hh : q.head? with
  | none => rw [hh] at h; cases h
  | some t => rw [hh] at h; exact ⟨t, rfl, by simpa using h⟩

theorem headK_of_peek {H : List Tok → Prop} {k : Option Kind} {k0 : Kind} {q : List Tok}
    (h : H q ∧ q.head?.map (·.kind) = k) (hk : k = some k0) : HeadK k0 q := by
  unfold HeadK; rw [h.2, hk]

theorem kindP_of_headK {k : Kind} {q : List Tok} (h : HeadK k q) : KindP (· == k) q := by
  obtain ⟨t, hh, hk⟩ := headP_of_headK h
  exact ⟨t, hh, by simp [hk]⟩

end Apollo.Parse
