import ApolloModel.Proofs.ParserExactC8
/-
EXACT-BUDGET COPY of ParserComplete9 (namespace Apollo.Parse.Exact, exact `vdepth`).
C05 / C07 growth (completeness), part 9: `field_set` and the entry point `Parser::parse_selection_set`.
-/
set_option linter.unusedSimpArgs false
namespace Apollo.Parse.Exact
open Apollo.Rowan hiding Str
open Apollo.Lex hiding Str

theorem tSels_head (ss : Ast.Sels) (hne : ss ≠ .nil) :
    ∃ a x', Ast.tSels ss = a :: x' ∧ (kindOfA a = .name ∨ kindOfA a = .spread) := by
  cases ss with
  | nil => exact absurd rfl hne
  | cons f tl =>
    obtain ⟨a, x', e, hk⟩ := tSel_head f
    exact ⟨a, x' ++ Ast.tSels tl, by rw [Ast.tSels, e]; rfl, hk⟩

/-- braced form -/
theorem fieldSet_comp_braced (n : Nat) : Cmp (fun _ => True) (fieldSet n) LSet (fun _ => True) (fun _ => True) := by
  unfold fieldSet
  apply cmp_peek
  intro k _
  apply cmp_ite
  · intro _
    exact (selectionSet_complete n).mono (fun _ _ => trivial) (fun _ _ h => h) (fun _ h => h) (fun _ h => h)
  · intro hk
    apply cmp_absurd
    intro b x cc q0 hl hs _ hkk
    obtain ⟨x', rfl⟩ := lset_head hl
    obtain ⟨t, tl, rfl, hta⟩ := spells_head hs
    simp only [headK] at hkk
    rw [kind_of_astOfV hta] at hkk
    simp [← hkk, kindOfA] at hk

/-- brace-less form `a b { c }`: also one level of the recursion budget -/
theorem fieldSet_comp_bare (n : Nat) :
    Cmp (fun _ => True) (fieldSet n) (fun b x => 1 ≤ b ∧ LSels (b - 1) x) (fun k => k = .rCurly ∨ k = .eof) (fun _ => True) := by
  unfold fieldSet
  apply cmp_peek
  intro k _
  apply cmp_ite
  · intro hk
    apply cmp_absurd
    rintro b x cc q0 ⟨_, ss, hne, rfl, _⟩ hs _ hkk
    obtain ⟨a, x', e, hka⟩ := tSels_head ss hne
    rw [e] at hs
    obtain ⟨t, tl, rfl, hta⟩ := spells_head hs
    simp only [headK] at hkk
    rw [kind_of_astOfV hta] at hkk
    rcases hka with h | h <;> simp [← hkk, h] at hk
  · intro _
    refine cmp_withNode _ ?_
    exact cmp_withRec _ _ ((sel_all_comp n).2.1.mono (fun _ _ => trivial) (fun _ _ h => h) (fun _ h => h) (fun _ h => h))
      (fun b x h => h)

/-- the field sets within the recursion budget `b` -/
def FieldSetFit (b : Nat) (x : List Ast.Tok) : Prop :=
  ∃ ss, ss ≠ Ast.Sels.nil ∧ 1 ≤ b ∧ fitSels ss (b - 1) ∧ (x = .p .lCurly :: Ast.tSels ss ++ [.p .rCurly] ∨ x = Ast.tSels ss)

theorem FieldSetFit.isFieldSet {b : Nat} {x : List Ast.Tok} (h : FieldSetFit b x) : IsFieldSet x := by
  obtain ⟨ss, hne, _, _, hx⟩ := h
  exact ⟨ss, hne, hx⟩

theorem fieldSet_complete (n : Nat) :
    Cmp (fun _ => True) (fieldSet n) FieldSetFit (fun k => k = .eof) (fun _ => True) := by
  intro s s' a c x q0 rest w hr hl hs ht hq hf hk
  obtain ⟨ss, hne, hb, hfit, hx | hx⟩ := hl
  · exact fieldSet_comp_braced n s s' a c x q0 rest w hr ⟨ss, hne, hx, hb, hfit⟩ hs ht hq trivial trivial
  · exact fieldSet_comp_bare n s s' a c x q0 rest w hr ⟨hb, ss, hne, hx, hfit⟩ hs ht hq (Or.inr hf) trivial

theorem noEof_of_tokIs (c : List Tok) (x : List Ast.Tok) (h : TokIs (sig c) x) : NoEof c := by
  intro y hy hk
  by_cases hi : isIgnoredKind y.kind = true
  · rw [hk] at hi; simp [isIgnoredKind] at hi
  · have hmem : y ∈ sig c := by simp [sig, hy, hi]
    have : astOfV y ∈ (sig c).map astOfV := List.mem_map_of_mem hmem
    unfold TokIs at h
    rw [h] at this
    obtain ⟨a, _, ha⟩ := List.mem_map.mp this
    unfold astOfV at ha
    rw [hk] at ha
    cases ha

/-- **acceptance is complete** for `Parser::parse_selection_set` (queue form): the queue is a spelling of a
    field set within the recursion limit, followed by the EOF token -/
theorem parseFieldSet_complete (rl : Nat) (src : Str) (x : List Ast.Tok) (c : List Tok) (e : Tok)
    (hclean : LexClean src) (htoks : srcToks src = c ++ [e]) (hsp : Spells c x) (he : e.kind = .eof)
    (hfit : FieldSetFit rl x) : (parse .selectionSet none rl src).errors = [] := by
  obtain ⟨root, htree⟩ := parseFieldSet_tree none rl src
  unfold parse runEntry at htree ⊢
  simp only [Entry.standalone, Entry.grammar] at htree ⊢
  generalize hs0 : ({ initState src none rl with builder := (initState src none rl).builder.startNode "SELECTION_SET" } : PState) = s0 at htree ⊢
  have w0 : TW s0 := by subst hs0; exact ⟨rfl, by intro h; simp [initState] at h⟩
  have ht0 : Toks s0 = c ++ e :: [] := by subst hs0; exact htoks
  have hnd0 : ¬ Doomed s0 := by
    subst hs0
    rintro (h | h)
    · exact h rfl
    · unfold LexClean at hclean
      rw [show ({ initState src none rl with builder := (initState src none rl).builder.startNode "SELECTION_SET" } : PState).lx
        = (initState src none 0).lx from rfl, hclean] at h
      cases h
  have hb0 : s0.recLimit - s0.recCur = rl := by subst hs0; simp [initState]
  cases hr : (fieldSet (fuelFor src) >>= fun _ => expectEndOfInput).run s0 with
  | abort w => simp [hr] at htree
  | panic m => simp [hr] at htree
  | ok a s =>
    simp only []
    obtain ⟨_, sT, hT, h2⟩ := bind_dec (fieldSet (fuelFor src)) _ s0 s a hr
    have hse : Sigf e := by unfold Sigf; rw [he]; rfl
    obtain ⟨eT, htT, _⟩ := fieldSet_complete (fuelFor src) s0 sT () c x e [] w0 hT (by rw [hb0]; exact hfit) hsp ht0 hse he trivial
    unfold expectEndOfInput at h2
    obtain ⟨_, sK, hK, h4⟩ := bind_dec skipIgnored _ sT s a h2
    obtain ⟨eK, htK, _⟩ := skip_exact sT sK [] e [] eT.w hK (by simpa using htT) (by intro x hx; cases hx) hse
    obtain ⟨k, sP, hP, h5⟩ := bind_dec peek _ sK s a h4
    obtain ⟨hk, eP, _, _⟩ := peek_head sK sP k e [] eK.w htK hP
    subst hk
    have h5' : (pure () : PI Unit).run sP = .ok a s := by
      simpa [errUnlessEnd, he] using h5
    rw [run_pure] at h5'
    injection h5' with _ h5'
    subst h5'
    have hnd : ¬ Doomed sP := by
      intro d
      exact hnd0 (eT.doom.mp (eK.doom.mp (eP.doom.mp d)))
    by_cases herr : sP.errors = []
    · exact herr
    · exact absurd (Or.inl herr) hnd

/-- the same in terms of significant tokens -/
theorem parseFieldSet_complete_sig (rl : Nat) (src : Str) (x : List Ast.Tok) (ts : List Tok) (e : Tok)
    (hclean : LexClean src) (hsig : sig (srcToks src) = ts ++ [e]) (he : e.kind = .eof)
    (hx : TokIs ts x) (hfit : FieldSetFit rl x) (hhead : HeadSig (srcToks src)) :
    (parse .selectionSet none rl src).errors = [] := by
  obtain ⟨c, c2, hc, h1, h2, hh2, hh1⟩ := sig_split (srcToks src) ts [e] hsig (by simp)
  obtain ⟨i, rfl, hi⟩ := sig_single_inv c2 e hh2 h2
  have htsne : ts ≠ [] := by
    intro h0; subst h0
    obtain ⟨ss, hne, _, _, hor⟩ := hfit
    unfold TokIs at hx
    rcases hor with rfl | rfl
    · simp at hx
    · obtain ⟨a, x', e', _⟩ := tSels_head ss hne
      rw [e'] at hx; simp at hx
  have hnoc : NoEof c := noEof_of_tokIs c x (by rw [h1]; exact hx)
  obtain ⟨pre, e0, hp, he0, hnop⟩ := stream_eof_end src.length (initState src none 0).lx (Nat.le_refl _) rfl rfl
  have hq : srcToks src = pre ++ [e0] := hp
  rw [hc] at hq
  obtain ⟨pre', hr, hnop'⟩ := split_eof c pre (e :: i) e0 hq.symm he0 hnoc hnop
  have hi0 : i = [] := by
    cases pre' with
    | nil => simp at hr; exact hr.2
    | cons y pre' =>
      exfalso
      simp only [List.cons_append] at hr
      injection hr with hr1 _
      exact hnop' y (by simp) (hr1 ▸ he)
  subst hi0
  exact parseFieldSet_complete rl src x c e hclean hc ⟨by rw [h1]; exact hx, hh1 htsne hhead⟩ he hfit

end Apollo.Parse.Exact
