import ApolloModel.Spec.DirectiveApplications
/-
C14 growth: `validate_directives` with a schema pushes no diagnostic iff the applied directives satisfy
the specification's rules (values aside).
-/
namespace Apollo.DirApps
open Apollo.Standalone Apollo.DirApps.Spec

theorem uniqueArgs_nil_iff : ∀ (args : List Arg) (seen : List Name),
    uniqueArgs seen args = [] ↔ (args.map (·.name)).Nodup ∧ ∀ a ∈ args, a.name ∉ seen := by
  intro args
  induction args with
  | nil => intro seen; simp [uniqueArgs]
  | cons a as ih =>
    intro seen
    unfold uniqueArgs
    by_cases h : a.name ∈ seen
    · simp only [h, if_true]
      constructor
      · intro h'; cases h'
      · intro ⟨_, h2⟩; exact absurd h (h2 a List.mem_cons_self)
    · rw [if_neg h]
      simp only [ih, List.map_cons, List.nodup_cons, List.mem_cons, forall_eq_or_imp, not_or]
      constructor
      · intro ⟨hnd, hav⟩
        refine ⟨⟨?_, hnd⟩, h, fun x hx => (hav x hx).2⟩
        intro hmem
        obtain ⟨x, hx, hname⟩ := List.mem_map.mp hmem
        exact (hav x hx).1 hname
      · intro ⟨⟨hnot, hnd⟩, _, hav⟩
        refine ⟨hnd, fun x hx => ⟨?_, hav x hx⟩⟩
        intro heq
        exact hnot (List.mem_map.mpr ⟨x, hx, heq⟩)

theorem undefinedArgs_nil_iff (defs : List ArgDef) (args : List Arg) :
    undefinedArgs defs args = [] ↔ ∀ a ∈ args, ∃ ad ∈ defs, ad.name = a.name := by
  unfold undefinedArgs
  rw [List.map_eq_nil_iff, List.filter_eq_nil_iff]
  constructor
  · intro h a ha
    have := h a ha
    simpa using this
  · intro h a ha
    obtain ⟨ad, had, hn⟩ := h a ha
    simp only [Bool.not_eq_true', Bool.not_eq_false, List.any_eq_true, beq_iff_eq, Bool.not_eq_eq_eq_not, Bool.not_true]
    simpa using ⟨ad, had, hn⟩

theorem find?_of_nodup : ∀ (args : List Arg) (a : Arg), (args.map (·.name)).Nodup → a ∈ args →
    args.find? (fun x => x.name == a.name) = some a := by
  intro args
  induction args with
  | nil => intro a _ h; cases h
  | cons x xs ih =>
    intro a hnd ha
    rw [List.map_cons, List.nodup_cons] at hnd
    rcases List.mem_cons.mp ha with rfl | hmem
    · simp
    · have hne : x.name ≠ a.name := fun heq => hnd.1 (heq ▸ List.mem_map.mpr ⟨a, hmem, rfl⟩)
      simp only [List.find?_cons]
      have : (x.name == a.name) = false := by simpa using hne
      rw [this]
      exact ih a hnd.2 hmem

theorem requiredArgs_nil_iff (defs : List ArgDef) (args : List Arg) (hnd : (args.map (·.name)).Nodup) :
    requiredArgs defs args = [] ↔
      ∀ ad ∈ defs, ad.required = true → ∃ a ∈ args, a.name = ad.name ∧ a.value.isNull = false := by
  unfold requiredArgs
  rw [List.map_eq_nil_iff, List.filter_eq_nil_iff]
  constructor
  · intro h ad had hreq
    have := h ad had
    simp only [hreq, Bool.true_and] at this
    cases hf : args.find? (fun a => a.name == ad.name) with
    | none => simp [hf] at this
    | some a =>
      simp only [hf] at this
      refine ⟨a, List.mem_of_find?_eq_some hf, by simpa using List.find?_some hf, ?_⟩
      cases hn : a.value.isNull
      · rfl
      · simp [hn] at this
  · intro h ad had
    cases hreq : ad.required
    · simp
    · obtain ⟨a, ha, hname, hnull⟩ := h ad had hreq
      have hf := find?_of_nodup args a hnd ha
      rw [hname] at hf
      simp [hf, hnull]

/-- the invariant of the loop with its `seen_directives` -/
theorem dirDiagsAux_nil_iff (p : Params) (sc : Schema) (loc : Loc) : ∀ (dirs : List Dir) (seen : List Name),
    dirDiagsAux p (some sc) loc seen dirs = [] ↔
      (∀ d ∈ dirs, DirectiveValid sc.dirDef loc d) ∧
      (∀ d ∈ dirs, d.name ∈ seen → ∀ df, sc.dirDef d.name = some df → df.repeatable = true) ∧
      dirs.Pairwise (fun d1 d2 => d1.name = d2.name → ∀ df, sc.dirDef d2.name = some df → df.repeatable = true) := by
  intro dirs
  induction dirs with
  | nil => intro seen; simp [dirDiagsAux]
  | cons d ds ih =>
    intro seen
    simp only [dirDiagsAux, Option.bind_some, List.append_eq_nil_iff, ih, List.mem_cons, forall_eq_or_imp,
      List.pairwise_cons, Option.isSome_some, Bool.true_or, if_true]
    rcases Option.eq_none_or_eq_some (sc.dirDef d.name) with hdd | ⟨df, hdd⟩
    · simp only [DirectiveValid, hdd]
      constructor
      · intro ⟨⟨⟨_, _⟩, h⟩, _⟩; simp at h
      · intro ⟨⟨⟨df, h, _⟩, _⟩, _⟩; cases h
    · simp only [hdd, Option.map_some, Option.getD_some, List.append_eq_nil_iff, Option.some.injEq, forall_eq']
      have hseen' : ∀ x : Name, x ∈ (if d.name ∈ seen then seen else d.name :: seen) ↔ (x ∈ seen ∨ x = d.name) := by
        intro x
        by_cases hm : d.name ∈ seen
        · simp only [hm, if_true]
          constructor
          · exact Or.inl
          · rintro (h | h)
            · exact h
            · exact h ▸ hm
        · simp only [hm, if_false, List.mem_cons]
          constructor
          · rintro (h | h)
            · exact Or.inr h
            · exact Or.inl h
          · rintro (h | h)
            · exact Or.inr h
            · exact Or.inl h
      constructor
      · intro ⟨⟨⟨ha, hb⟩, ⟨hloc, hund⟩, hreq⟩, hvalid, hseen, hpw⟩
        have ha' := (uniqueArgs_nil_iff d.args []).mp ha
        have hloc' : loc ∈ df.locs := by
          by_cases hl : loc ∈ df.locs
          · exact hl
          · simp [hl] at hloc
        refine ⟨⟨⟨df, hdd, hloc', ha'.1, (undefinedArgs_nil_iff _ _).mp hund,
          (requiredArgs_nil_iff _ _ ha'.1).mp hreq⟩, hvalid⟩, ⟨?_, ?_⟩, ?_, hpw⟩
        · intro hm
          by_cases hr : df.repeatable = true
          · exact hr
          · simp [hm, hr] at hb
        · intro d' hd' hm; exact hseen d' hd' ((hseen' _).mpr (Or.inl hm))
        · intro d' hd' heq; exact hseen d' hd' ((hseen' _).mpr (Or.inr heq.symm))
      · intro ⟨⟨⟨df', hdf', hloc, hnd, hund, hreq⟩, hvalid⟩, ⟨hrep, hseen⟩, hfirst, hpw⟩
        rw [hdd] at hdf'
        have : df = df' := by simpa using hdf'
        subst this
        refine ⟨⟨⟨(uniqueArgs_nil_iff d.args []).mpr ⟨hnd, by simp⟩, ?_⟩, ⟨by simp [hloc], (undefinedArgs_nil_iff _ _).mpr hund⟩,
          (requiredArgs_nil_iff _ _ hnd).mpr hreq⟩, hvalid, ?_, hpw⟩
        · by_cases hm : d.name ∈ seen
          · simp [hm, hrep hm]
          · simp [hm]
        · intro d' hd' hm
          rcases (hseen' _).mp hm with h | h
          · exact hseen d' hd' h
          · exact hfirst d' hd' h.symm

theorem schemaDirDiags_nil_iff (dirDef : Name → Option DirDef) (loc : Loc) (dirs : List Dir) :
    schemaDirDiags dirDef loc dirs = [] ↔ DirectivesValid dirDef loc dirs := by
  unfold schemaDirDiags dirDiags DirectivesValid
  rw [dirDiagsAux_nil_iff]
  simp [view]

theorem argDefDups_zero_iff : ∀ (ns seen : List Name),
    argDefDups seen ns = 0 ↔ ns.Nodup ∧ ∀ n ∈ ns, n ∉ seen := by
  intro ns
  induction ns with
  | nil => intro seen; simp [argDefDups]
  | cons n ns ih =>
    intro seen
    unfold argDefDups
    by_cases h : n ∈ seen
    · simp only [h, if_true]
      constructor
      · intro h'; omega
      · intro ⟨_, h2⟩; exact absurd h (h2 n List.mem_cons_self)
    · rw [if_neg h]
      simp only [ih, List.nodup_cons, List.mem_cons, forall_eq_or_imp, not_or]
      constructor
      · intro ⟨hnd, hav⟩
        exact ⟨⟨fun hm => (hav n hm).1 rfl, hnd⟩, h, fun x hx => (hav x hx).2⟩
      · intro ⟨⟨hnot, hnd⟩, _, hav⟩
        exact ⟨hnd, fun x hx => ⟨fun heq => hnot (heq ▸ hx), hav x hx⟩⟩

end Apollo.DirApps
