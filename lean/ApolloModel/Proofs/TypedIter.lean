import ApolloModel.Model.TypedDoc
/-
Property C18, iterators: the explicit-stack loop of `root_fields` / `all_fields` (`run`) yields exactly the
fields of the recursive walk that enters each named fragment once (`dfs`), for every document, cyclic or not.
-/
namespace Apollo.Typed
open Apollo.Standalone

/-- `fragments_seen` holds pairwise distinct names of defined fragments -/
def SeenInv (doc : TDoc) (seen : List Name) : Prop := seen.Nodup ∧ ∀ x ∈ seen, x ∈ doc.frags.map (·.name)

theorem seenInv_length_le (doc : TDoc) (seen : List Name) (h : SeenInv doc seen) : seen.length ≤ doc.frags.length := by
  have := List.Nodup.length_le_of_subset h.1 (fun x hx => h.2 x hx)
  simpa using this

theorem seenInv_cons (doc : TDoc) (seen : List Name) (f : Name) (d : TFrag) (h : SeenInv doc seen)
    (hf : doc.findFrag f = some d) (hv : ¬ f ∈ seen) : SeenInv doc (f :: seen) := by
  refine ⟨List.nodup_cons.mpr ⟨hv, h.1⟩, ?_⟩
  intro x hx
  simp only [List.mem_cons] at hx
  rcases hx with hx | hx
  · subst hx
    have hm : d ∈ doc.frags := List.mem_of_find?_eq_some hf
    have hn : (d.name == x) = true := by
      have := List.find?_some hf
      simpa using this
    simp only [List.mem_map]
    exact ⟨d, hm, by simpa using hn⟩
  · exact h.2 x hx

/-- The declarative specification (no fuel): the recursive depth-first walk of a selection set that enters
    each named fragment once, at its first occurrence; `all = false` does not descend into fields. -/
inductive Walk (doc : TDoc) (all : Bool) : TSels → List Name → List Item → List Name → Prop where
  | nil (seen : List Name) : Walk doc all .nil seen [] seen
  | fieldAll (name : Name) (d : FDef) (ty : Name) (sub rest : TSels) (seen s1 s2 : List Name) (o1 o2 : List Item) :
      all = true → Walk doc all sub seen o1 s1 → Walk doc all rest s1 o2 s2 →
      Walk doc all (.field name d ty sub rest) seen ((name, ty) :: o1 ++ o2) s2
  | fieldRoot (name : Name) (d : FDef) (ty : Name) (sub rest : TSels) (seen s2 : List Name) (o2 : List Item) :
      all = false → Walk doc all rest seen o2 s2 →
      Walk doc all (.field name d ty sub rest) seen ((name, ty) :: o2) s2
  | inline (tc : Option Name) (ty : Name) (sub rest : TSels) (seen s1 s2 : List Name) (o1 o2 : List Item) :
      Walk doc all sub seen o1 s1 → Walk doc all rest s1 o2 s2 →
      Walk doc all (.inline tc ty sub rest) seen (o1 ++ o2) s2
  | spreadUndefined (f : Name) (rest : TSels) (seen s2 : List Name) (o2 : List Item) :
      doc.findFrag f = none → Walk doc all rest seen o2 s2 → Walk doc all (.spread f rest) seen o2 s2
  | spreadSeen (f : Name) (rest : TSels) (seen s2 : List Name) (o2 : List Item) :
      f ∈ seen → Walk doc all rest seen o2 s2 → Walk doc all (.spread f rest) seen o2 s2
  | spreadNew (f : Name) (g : TFrag) (rest : TSels) (seen s1 s2 : List Name) (o1 o2 : List Item) :
      doc.findFrag f = some g → ¬ f ∈ seen → Walk doc all g.sels (f :: seen) o1 s1 → Walk doc all rest s1 o2 s2 →
      Walk doc all (.spread f rest) seen (o1 ++ o2) s2

/-- `e` (a walk of a fragment body) is simulated by the loop whenever at least `K` fragments are marked -/
def Sim (doc : TDoc) (all : Bool) (K : Nat) (e : TSels → List Name → List Item × List Name × Nat) : Prop :=
  ∀ body seen, SeenInv doc seen → K ≤ seen.length →
    (∀ st m, run doc all ((e body seen).2.2 + m) (body :: st) seen = (e body seen).1 ++ run doc all m st (e body seen).2.1) ∧
      SeenInv doc (e body seen).2.1 ∧ seen.length ≤ (e body seen).2.1.length ∧
      Walk doc all body seen (e body seen).1 (e body seen).2.1

theorem run_succ (doc : TDoc) (all : Bool) (k m : Nat) (stack : List TSels) (seen : List Name) :
    run doc all (1 + k + m) stack seen = run doc all ((k + m) + 1) stack seen := by
  congr 1; omega

theorem dfsSels_sim (doc : TDoc) (all : Bool) (K : Nat) (e : TSels → List Name → List Item × List Name × Nat)
    (he : Sim doc all (K + 1) e) : Sim doc all K (dfsSels all doc.find e) := by
  intro t
  induction t with
  | nil =>
    intro seen hi hk
    refine ⟨?_, hi, Nat.le_refl _, by simpa [dfsSels] using Walk.nil seen⟩
    intro st m
    simp only [dfsSels, List.nil_append]
    rw [show 1 + m = m + 1 by omega]
    simp [run]
  | field name d ty sub rest ihs ihr =>
    intro seen hi hk
    by_cases hc : (all && !sub.isNil) = true
    · obtain ⟨a1, a2, a3, a4⟩ := ihs seen hi hk
      obtain ⟨b1, b2, b3, b4⟩ := ihr _ a2 (Nat.le_trans hk a3)
      have hall : all = true := by cases all <;> simp_all
      simp only [dfsSels, hc, ↓reduceIte]
      refine ⟨?_, b2, Nat.le_trans a3 b3, Walk.fieldAll _ _ _ _ _ _ _ _ _ _ hall a4 b4⟩
      intro st m
      rw [show 1 + (dfsSels all doc.find e sub seen).2.2 + (dfsSels all doc.find e rest (dfsSels all doc.find e sub seen).2.1).2.2 + m
          = ((dfsSels all doc.find e sub seen).2.2 + ((dfsSels all doc.find e rest (dfsSels all doc.find e sub seen).2.1).2.2 + m)) + 1 by omega]
      simp only [run, hc, ↓reduceIte]
      rw [a1, b1]
      simp
    · obtain ⟨b1, b2, b3, b4⟩ := ihr seen hi hk
      simp only [dfsSels, hc, Bool.false_eq_true, ↓reduceIte]
      have hw : Walk doc all (.field name d ty sub rest) seen ((name, ty) :: (dfsSels all doc.find e rest seen).1)
          (dfsSels all doc.find e rest seen).2.1 := by
        rcases Bool.eq_false_or_eq_true all with hall | hall
        · have hn : sub = .nil := by
            cases sub <;> simp_all [TSels.isNil]
          subst hn
          have := Walk.fieldAll name d ty .nil rest seen seen _ [] _ hall (Walk.nil seen) b4
          simpa using this
        · exact Walk.fieldRoot _ _ _ _ _ _ _ _ hall b4
      refine ⟨?_, b2, b3, hw⟩
      intro st m
      rw [show 1 + (dfsSels all doc.find e rest seen).2.2 + m = ((dfsSels all doc.find e rest seen).2.2 + m) + 1 by omega]
      simp only [run, hc, Bool.false_eq_true, ↓reduceIte]
      rw [b1]
      simp
  | inline tc ty sub rest ihs ihr =>
    intro seen hi hk
    obtain ⟨a1, a2, a3, a4⟩ := ihs seen hi hk
    obtain ⟨b1, b2, b3, b4⟩ := ihr _ a2 (Nat.le_trans hk a3)
    simp only [dfsSels]
    refine ⟨?_, b2, Nat.le_trans a3 b3, Walk.inline _ _ _ _ _ _ _ _ _ a4 b4⟩
    intro st m
    rw [show 1 + (dfsSels all doc.find e sub seen).2.2 + (dfsSels all doc.find e rest (dfsSels all doc.find e sub seen).2.1).2.2 + m
        = ((dfsSels all doc.find e sub seen).2.2 + ((dfsSels all doc.find e rest (dfsSels all doc.find e sub seen).2.1).2.2 + m)) + 1 by omega]
    simp only [run]
    rw [a1, b1]
    simp
  | spread f rest ihr =>
    intro seen hi hk
    cases hf : doc.findFrag f with
    | none =>
      obtain ⟨b1, b2, b3, b4⟩ := ihr seen hi hk
      have hfind : doc.find f = none := by simp [TDoc.find, hf]
      simp only [dfsSels, hfind]
      refine ⟨?_, b2, b3, Walk.spreadUndefined _ _ _ _ _ hf b4⟩
      intro st m
      rw [show 1 + (dfsSels all doc.find e rest seen).2.2 + m = ((dfsSels all doc.find e rest seen).2.2 + m) + 1 by omega]
      simp only [run, hf]
      rw [b1]
    | some d =>
      have hfind : doc.find f = some d.sels := by simp [TDoc.find, hf]
      by_cases hv : f ∈ seen
      · obtain ⟨b1, b2, b3, b4⟩ := ihr seen hi hk
        simp only [dfsSels, hfind, hv, ↓reduceIte]
        refine ⟨?_, b2, b3, Walk.spreadSeen _ _ _ _ _ hv b4⟩
        intro st m
        rw [show 1 + (dfsSels all doc.find e rest seen).2.2 + m = ((dfsSels all doc.find e rest seen).2.2 + m) + 1 by omega]
        simp only [run, hf, hv, ↓reduceIte]
        rw [b1]
      · have hi' := seenInv_cons doc seen f d hi hf hv
        obtain ⟨a1, a2, a3, a4⟩ := he d.sels (f :: seen) hi' (by simp; omega)
        have a3' : seen.length ≤ (e d.sels (f :: seen)).2.1.length := by simp at a3; omega
        obtain ⟨b1, b2, b3, b4⟩ := ihr _ a2 (Nat.le_trans hk a3')
        simp only [dfsSels, hfind, hv, ↓reduceIte]
        refine ⟨?_, b2, Nat.le_trans a3' b3, Walk.spreadNew _ _ _ _ _ _ _ _ hf hv a4 b4⟩
        intro st m
        rw [show 1 + (e d.sels (f :: seen)).2.2 + (dfsSels all doc.find e rest (e d.sels (f :: seen)).2.1).2.2 + m
            = ((e d.sels (f :: seen)).2.2 + ((dfsSels all doc.find e rest (e d.sels (f :: seen)).2.1).2.2 + m)) + 1 by omega]
        simp only [run, hf, hv, ↓reduceIte]
        rw [a1, b1]
        simp

theorem dfsFrag_sim (doc : TDoc) (all : Bool) (k : Nat) :
    Sim doc all (doc.frags.length + 1 - k) (dfsFrag all doc.find k) := by
  induction k with
  | zero =>
    intro body seen hi hk
    have := seenInv_length_le doc seen hi
    omega
  | succ k ih =>
    have ih' : Sim doc all ((doc.frags.length - k) + 1) (dfsFrag all doc.find k) := by
      intro body seen hi hk
      exact ih body seen hi (by omega)
    have := dfsSels_sim doc all (doc.frags.length - k) _ ih'
    intro body seen hi hk
    simp only [dfsFrag]
    exact this body seen hi (by omega)

/-- the loop, given the specification's number of turns (or more), yields the specification's fields -/
theorem run_eq_dfs (doc : TDoc) (all : Bool) (t : TSels) (m : Nat) :
    run doc all ((dfs doc all t).2.2 + m) [t] [] = (dfs doc all t).1 := by
  have hg : Sim doc all (0 + 1) (dfsFrag all doc.find doc.frags.length) := by
    have := dfsFrag_sim doc all doc.frags.length
    simpa using this
  have h := (dfsSels_sim doc all 0 _ hg t [] ⟨List.nodup_nil, by simp⟩ (Nat.le_refl _)).1 [] m
  unfold dfs
  rw [h]
  cases m <;> simp [run]

/-! ### the specification only visits each named fragment once, and only defined ones -/

theorem dfs_walk (doc : TDoc) (all : Bool) (t : TSels) : Walk doc all t [] (dfs doc all t).1 (dfs doc all t).2.1 := by
  have hg : Sim doc all (0 + 1) (dfsFrag all doc.find doc.frags.length) := by
    have := dfsFrag_sim doc all doc.frags.length
    simpa using this
  exact (dfsSels_sim doc all 0 _ hg t [] ⟨List.nodup_nil, by simp⟩ (Nat.le_refl _)).2.2.2

theorem dfs_seen_inv (doc : TDoc) (all : Bool) (t : TSels) : SeenInv doc (dfs doc all t).2.1 := by
  have hg : Sim doc all (0 + 1) (dfsFrag all doc.find doc.frags.length) := by
    have := dfsFrag_sim doc all doc.frags.length
    simpa using this
  exact (dfsSels_sim doc all 0 _ hg t [] ⟨List.nodup_nil, by simp⟩ (Nat.le_refl _)).2.1

end Apollo.Typed
