import ApolloModel.Proofs.SmithResponse
/-
The response object of a selection set has exactly the response keys of `collect_fields` for the chosen
concrete type, in that order, and each key's value is what `groupValue_spec` says.
-/
namespace Apollo.Smith

def Grouped.keys (g : Grouped) : List String := g.map (·.1)

def JFields.toList : JFields → List (String × Json)
  | .nil => []
  | .cons k v tl => (k, v) :: tl.toList

def JFields.keys (j : JFields) : List String := j.toList.map (·.1)

theorem insert_fresh : ∀ (acc : JFields) (k : String) (v : Json), k ∉ acc.keys →
    (acc.insert k v).toList = acc.toList ++ [(k, v)]
  | .nil, _, _, _ => rfl
  | .cons k0 v0 tl, k, v, h => by
    simp only [JFields.keys, JFields.toList, List.map_cons, List.mem_cons, not_or] at h
    have hne : (k0 == k) = false := by
      simp only [beq_eq_false_iff_ne, ne_eq]; exact fun e => h.1 e.symm
    simp only [JFields.insert, hne, Bool.false_eq_true, if_false, JFields.toList, List.cons_append]
    rw [insert_fresh tl k v (by simpa [JFields.keys] using h.2)]

theorem keys_add (g : Grouped) (k : String) (fs : List FieldInfo) :
    (g.add k fs).keys = if k ∈ g.keys then g.keys else g.keys ++ [k] := by
  induction g with
  | nil => simp [Grouped.add, Grouped.keys]
  | cons e rest ih =>
    obtain ⟨k0, fs0⟩ := e
    simp only [Grouped.add]
    by_cases hk : (k0 == k) = true
    · simp only [hk, if_true, Grouped.keys, List.map_cons, List.mem_cons]
      have : k = k0 := by simpa using (beq_iff_eq.mp hk).symm
      simp [this]
    · have hne : ¬ k = k0 := by intro e; exact hk (by simp [e])
      simp only [hk, Grouped.keys, List.map_cons, List.mem_cons, hne, false_or] at ih ⊢
      simp only [Bool.false_eq_true, if_false, List.map_cons]
      rw [ih]
      split <;> simp_all

theorem nodup_add (g : Grouped) (k : String) (fs : List FieldInfo) (h : g.keys.Nodup) : (g.add k fs).keys.Nodup := by
  rw [keys_add]
  split
  · exact h
  · rename_i hk
    exact List.nodup_append.mpr ⟨h, by simp, by intro a ha b hb; simp at hb; subst hb; intro e; exact hk (e ▸ ha)⟩

theorem nodup_addAll (g more : Grouped) (h : g.keys.Nodup) : (g.addAll more).keys.Nodup := by
  unfold Grouped.addAll
  induction more generalizing g with
  | nil => exact h
  | cons e rest ih => exact ih _ (nodup_add g e.1 e.2 h)

theorem collectFields_nodup (s : Schema) (frags : Fragments) (concrete : Name) (f : Nat) (sels : Sels) (g : Grouped)
    (h : collectFields s frags concrete f sels = some g) : g.keys.Nodup := by
  cases f with
  | zero => simp [collectFields] at h
  | succ f =>
    cases sels with
    | nil => simp only [collectFields] at h; cases h; exact List.nodup_nil
    | cons sel tl =>
      simp only [collectFields] at h
      split at h
      · cases h
        exact nodup_addAll _ _ (nodup_addAll _ _ List.nodup_nil)
      · cases h

/-- the entries written for a list of groups: same keys in the same order, each value meeting `P` -/
def entriesOk (P : FieldInfo → Json → Prop) : Grouped → List (String × Json) → Prop
  | [], [] => True
  | (k, fs) :: g, (k', v) :: l => k = k' ∧ (∃ mf rest, fs = mf :: rest ∧ P mf v) ∧ entriesOk P g l
  | _, _ => False

theorem entriesOk_keys (P : FieldInfo → Json → Prop) : ∀ (g : Grouped) (l : List (String × Json)), entriesOk P g l →
    l.map (·.1) = g.keys
  | [], [], _ => rfl
  | (k, fs) :: g, (k', v) :: l, h => by
    obtain ⟨rfl, _, h3⟩ := h
    simp [Grouped.keys, entriesOk_keys P g l h3]
  | [], _ :: _, h => by simp [entriesOk] at h
  | _ :: _, [], h => by simp [entriesOk] at h

theorem groupValues_entries (s : Schema) (frags : Fragments) (cfg : Cfg) (concrete : Name) :
    ∀ (f : Nat) (grouped : Grouped) (acc : JFields) (script : List Nat) (fields : JFields) (r : List Nat),
    groupValues s frags cfg f concrete grouped acc script = .ok fields r →
    grouped.keys.Nodup → (∀ k ∈ grouped.keys, k ∉ acc.keys) →
    ∃ l, fields.toList = acc.toList ++ l ∧
      entriesOk (fun mf v => (mf.name = "__typename" ∧ v = .str concrete) ∨ (v = .null ∧ mf.ty.isNonNull = false)
        ∨ shape s (!mf.sub.isEmpty) mf.ty v) grouped l
  | 0, _, _, _, _, _, h, _, _ => by simp [groupValues] at h
  | f + 1, [], acc, script, fields, r, h, _, _ => by
    simp only [groupValues] at h
    cases h
    exact ⟨[], by simp, trivial⟩
  | f + 1, (key, fs) :: rest, acc, script, fields, r, h, hnd, hdis => by
    unfold groupValues at h
    cases fs with
    | nil => simp at h
    | cons mf more =>
      simp only at h
      cases hv : groupValue s frags cfg f concrete mf (mf :: more) script with
      | ok v r1 =>
        simp only [hv] at h
        have hkey : key ∉ acc.keys := hdis key (by simp [Grouped.keys])
        have hnd' : (Grouped.keys rest).Nodup := by
          simp only [Grouped.keys, List.map_cons, List.nodup_cons] at hnd; exact hnd.2
        have hnot : key ∉ Grouped.keys rest := by
          simp only [Grouped.keys, List.map_cons, List.nodup_cons] at hnd; exact hnd.1
        have hdis' : ∀ k ∈ Grouped.keys rest, k ∉ (acc.insert key v).keys := by
          intro k hk
          simp only [JFields.keys, insert_fresh acc key v hkey, List.map_append, List.map_cons, List.map_nil,
            List.mem_append, List.mem_singleton, not_or]
          refine ⟨?_, fun e => hnot (e ▸ hk)⟩
          have := hdis k (by simp [Grouped.keys] at hk ⊢; exact Or.inr hk)
          simpa [JFields.keys] using this
        obtain ⟨l, hl, hok⟩ := groupValues_entries s frags cfg concrete f rest (acc.insert key v) r1 fields r h hnd' hdis'
        refine ⟨(key, v) :: l, ?_, ?_⟩
        · rw [hl, insert_fresh acc key v hkey]; simp
        · exact ⟨rfl, ⟨mf, more, rfl, groupValue_spec s frags cfg f concrete mf (mf :: more) script v r1 hv⟩, hok⟩
      | exhausted => simp [hv] at h
      | emptyChoose => simp [hv] at h
      | panic p => simp [hv] at h
      | outOfFuel => simp [hv] at h

/-- **The response object of a selection set.** -/
theorem selectionSet_spec (s : Schema) (frags : Fragments) (cfg : Cfg) (f : Nat) (ty : Name) (sels : Sels)
    (script : List Nat) (j : Json) (r : List Nat) (h : selectionSet s frags cfg f ty sels script = .ok j r) :
    ∃ concrete script' grouped fields,
      concreteType s ty script = .ok concrete script'
      ∧ collectFields s frags concrete f sels = some grouped
      ∧ j = .obj fields
      ∧ fields.keys = grouped.keys
      ∧ entriesOk (fun mf v => (mf.name = "__typename" ∧ v = .str concrete) ∨ (v = .null ∧ mf.ty.isNonNull = false)
          ∨ shape s (!mf.sub.isEmpty) mf.ty v) grouped fields.toList := by
  cases f with
  | zero => simp [selectionSet] at h
  | succ f =>
    unfold selectionSet at h
    cases hc : concreteType s ty script with
    | ok concrete r1 =>
      simp only [hc] at h
      cases hg : collectFields s frags concrete (f + 1) sels with
      | none => simp [hg] at h
      | some grouped =>
        simp only [hg] at h
        cases hv : groupValues s frags cfg f concrete grouped .nil r1 with
        | ok fields r2 =>
          simp only [hv] at h
          cases h
          obtain ⟨l, hl, hok⟩ := groupValues_entries s frags cfg concrete f grouped .nil r1 fields _ hv
            (collectFields_nodup s frags concrete (f + 1) sels grouped hg) (by simp [JFields.keys, JFields.toList])
          simp only [JFields.toList, List.nil_append] at hl
          refine ⟨concrete, r1, grouped, fields, rfl, hg, rfl, ?_, ?_⟩
          · simp only [JFields.keys, hl]; exact entriesOk_keys _ grouped l hok
          · rw [hl]; exact hok
        | exhausted => simp [hv] at h
        | emptyChoose => simp [hv] at h
        | panic p => simp [hv] at h
        | outOfFuel => simp [hv] at h
    | exhausted => simp [hc] at h
    | emptyChoose => simp [hc] at h
    | panic p => simp [hc] at h
    | outOfFuel => simp [hc] at h

end Apollo.Smith
