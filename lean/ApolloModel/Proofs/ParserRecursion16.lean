import ApolloModel.Proofs.ParserRecursion15
/-
C04 growth (recursion limit across runs), part 16: every definition parser of the grammar and `document()`
in the two-run calculus, by a small automation that takes compositions apart.
-/
set_option linter.unusedSimpArgs false
set_option linter.unusedVariables false
namespace Apollo.Parse
open Apollo.Rowan hiding Str
open Apollo.Lex hiding Str

/-- leaves: extended with `macro_rules` as the grammar functions are proved -/
syntax "xg_leaf" : tactic
macro_rules | `(tactic| xg_leaf) => `(tactic| assumption)
macro_rules | `(tactic| xg_leaf) => `(tactic| first
  | exact xg_pure _ | exact xg_peek | exact xg_err | exact xg_name | exact xg_bump _ | exact xg_expect _ _
  | exact xg_of_plain plain_peekToken | exact xg_of_plain plain_peekData | exact xg_of_plain (plain_peekDataN _)
  | exact xg_of_plain (plain_peekN _) | exact xg_of_plain (plain_peekTokenN _) | exact xg_of_plain plain_errAndPop
  | exact xg_of_plain plain_srcLen | exact xg_of_plain plain_pushIgnored | exact xg_of_plain plain_assertRecZero
  | exact xg_of_plain plain_namedType | exact xg_of_plain plain_enumValue | exact xg_of_plain plain_variableNode
  | exact xg_of_plain plain_fragmentName | exact xg_of_plain plain_typeCondition | exact xg_of_plain plain_alias
  | exact xg_directives _ _ | exact xg_arguments _ _ | exact xg_ty _ | exact xg_value _ _ _
  | exact (xSel _).selSet | exact (xSel _).sel | exact (xSel _).field | exact (xSel _).inline)

/-- takes a composition apart.  The `do` notation shares continuations as join points
    (`have __do_jp := fun r => …`); they are pulled out and proved once, not once per use. -/
syntax "xg_auto" : tactic
macro_rules | `(tactic| xg_auto) => `(tactic| repeat (first
  | (with_reducible xg_leaf)
  | (with_reducible apply_assumption)
  | (with_reducible apply xg_withNode) | (with_reducible apply xg_bind) | (with_reducible apply xg_ite)
  | (with_reducible apply xg_peekWhile) | (with_reducible apply xg_peekWhileKind)
  | (with_reducible apply xg_parseSeparatedList) | (with_reducible apply xg_peekWhileKindFlagLoop)
  | (extract_lets jp
     have hjp : ∀ r, XG (jp r) := by
       intro r
       dsimp (config := { zeta := false }) only [jp]
       xg_auto
     clear_value jp)
  | intro _
  | split))

theorem xg_description : XG description := by unfold description; xg_auto
macro_rules | `(tactic| xg_leaf) => `(tactic| exact xg_description)

theorem xg_operationType : XG operationType := by unfold operationType; xg_auto
macro_rules | `(tactic| xg_leaf) => `(tactic| exact xg_operationType)

theorem xg_defaultValue (n : Nat) : XG (defaultValue n) := by unfold defaultValue; xg_auto
macro_rules | `(tactic| xg_leaf) => `(tactic| exact xg_defaultValue _)

theorem xg_inputValueDefinition (n : Nat) : XG (inputValueDefinition n) := by unfold inputValueDefinition; xg_auto
macro_rules | `(tactic| xg_leaf) => `(tactic| exact xg_inputValueDefinition _)

theorem xg_variableDefinition (n : Nat) : XG (variableDefinition n) := by unfold variableDefinition; xg_auto
macro_rules | `(tactic| xg_leaf) => `(tactic| exact xg_variableDefinition _)

theorem xg_variableDefinitions (n : Nat) : XG (variableDefinitions n) := by unfold variableDefinitions; xg_auto
macro_rules | `(tactic| xg_leaf) => `(tactic| exact xg_variableDefinitions _)

theorem xg_argumentsDefinitionBody (n : Nat) : XG (argumentsDefinitionBody n) := by unfold argumentsDefinitionBody isNameOrString; xg_auto
macro_rules | `(tactic| xg_leaf) => `(tactic| exact xg_argumentsDefinitionBody _)

theorem xg_argumentsDefinition (n : Nat) : XG (argumentsDefinition n) := by unfold argumentsDefinition; xg_auto
macro_rules | `(tactic| xg_leaf) => `(tactic| exact xg_argumentsDefinition _)

theorem xg_fragmentDefinition (n : Nat) : XG (fragmentDefinition n) := by unfold fragmentDefinition; xg_auto
macro_rules | `(tactic| xg_leaf) => `(tactic| exact xg_fragmentDefinition _)

theorem xg_operationDefinition (n : Nat) : XG (operationDefinition n) := by unfold operationDefinition; xg_auto
macro_rules | `(tactic| xg_leaf) => `(tactic| exact xg_operationDefinition _)

theorem xg_fieldDefinition (n : Nat) : XG (fieldDefinition n) := by unfold fieldDefinition; xg_auto
macro_rules | `(tactic| xg_leaf) => `(tactic| exact xg_fieldDefinition _)

theorem xg_fieldsDefinition (n : Nat) : XG (fieldsDefinition n) := by unfold fieldsDefinition isNameOrString; xg_auto
macro_rules | `(tactic| xg_leaf) => `(tactic| exact xg_fieldsDefinition _)

theorem xg_rootOperationTypeDefinition : XG rootOperationTypeDefinition := by unfold rootOperationTypeDefinition; xg_auto
macro_rules | `(tactic| xg_leaf) => `(tactic| exact xg_rootOperationTypeDefinition)

theorem xg_schemaDefinition (n : Nat) : XG (schemaDefinition n) := by unfold schemaDefinition; xg_auto
macro_rules | `(tactic| xg_leaf) => `(tactic| exact xg_schemaDefinition _)

theorem xg_schemaExtension (n : Nat) : XG (schemaExtension n) := by unfold schemaExtension; xg_auto
macro_rules | `(tactic| xg_leaf) => `(tactic| exact xg_schemaExtension _)

theorem xg_nameOrErr : XG nameOrErr := by unfold nameOrErr; xg_auto
macro_rules | `(tactic| xg_leaf) => `(tactic| exact xg_nameOrErr)

theorem xg_scalarTypeDefinition (n : Nat) : XG (scalarTypeDefinition n) := by unfold scalarTypeDefinition; xg_auto
macro_rules | `(tactic| xg_leaf) => `(tactic| exact xg_scalarTypeDefinition _)

theorem xg_scalarTypeExtension (n : Nat) : XG (scalarTypeExtension n) := by unfold scalarTypeExtension; xg_auto
macro_rules | `(tactic| xg_leaf) => `(tactic| exact xg_scalarTypeExtension _)

theorem xg_implementsInterfaces : XG implementsInterfaces := by unfold implementsInterfaces; xg_auto
macro_rules | `(tactic| xg_leaf) => `(tactic| exact xg_implementsInterfaces)

theorem xg_objectTypeDefinition (n : Nat) : XG (objectTypeDefinition n) := by unfold objectTypeDefinition; xg_auto
macro_rules | `(tactic| xg_leaf) => `(tactic| exact xg_objectTypeDefinition _)

theorem xg_objectTypeExtension (n : Nat) : XG (objectTypeExtension n) := by unfold objectTypeExtension; xg_auto
macro_rules | `(tactic| xg_leaf) => `(tactic| exact xg_objectTypeExtension _)

theorem xg_interfaceTypeDefinition (n : Nat) : XG (interfaceTypeDefinition n) := by unfold interfaceTypeDefinition; xg_auto
macro_rules | `(tactic| xg_leaf) => `(tactic| exact xg_interfaceTypeDefinition _)

theorem xg_interfaceTypeExtension (n : Nat) : XG (interfaceTypeExtension n) := by unfold interfaceTypeExtension; xg_auto
macro_rules | `(tactic| xg_leaf) => `(tactic| exact xg_interfaceTypeExtension _)

theorem xg_unionMemberTypes : XG unionMemberTypes := by unfold unionMemberTypes; xg_auto
macro_rules | `(tactic| xg_leaf) => `(tactic| exact xg_unionMemberTypes)

theorem xg_unionTypeDefinition (n : Nat) : XG (unionTypeDefinition n) := by unfold unionTypeDefinition; xg_auto
macro_rules | `(tactic| xg_leaf) => `(tactic| exact xg_unionTypeDefinition _)

theorem xg_unionTypeExtension (n : Nat) : XG (unionTypeExtension n) := by unfold unionTypeExtension; xg_auto
macro_rules | `(tactic| xg_leaf) => `(tactic| exact xg_unionTypeExtension _)

theorem xg_enumValueDefinition (n : Nat) : XG (enumValueDefinition n) := by unfold enumValueDefinition isNameOrString; xg_auto
macro_rules | `(tactic| xg_leaf) => `(tactic| exact xg_enumValueDefinition _)

theorem xg_enumValuesDefinition (n : Nat) : XG (enumValuesDefinition n) := by unfold enumValuesDefinition isNameOrString; xg_auto
macro_rules | `(tactic| xg_leaf) => `(tactic| exact xg_enumValuesDefinition _)

theorem xg_enumTypeDefinition (n : Nat) : XG (enumTypeDefinition n) := by unfold enumTypeDefinition; xg_auto
macro_rules | `(tactic| xg_leaf) => `(tactic| exact xg_enumTypeDefinition _)

theorem xg_enumTypeExtension (n : Nat) : XG (enumTypeExtension n) := by unfold enumTypeExtension; xg_auto
macro_rules | `(tactic| xg_leaf) => `(tactic| exact xg_enumTypeExtension _)

theorem xg_inputFieldsDefinition (n : Nat) : XG (inputFieldsDefinition n) := by unfold inputFieldsDefinition isNameOrString; xg_auto
macro_rules | `(tactic| xg_leaf) => `(tactic| exact xg_inputFieldsDefinition _)

theorem xg_inputObjectTypeDefinition (n : Nat) : XG (inputObjectTypeDefinition n) := by unfold inputObjectTypeDefinition; xg_auto
macro_rules | `(tactic| xg_leaf) => `(tactic| exact xg_inputObjectTypeDefinition _)

theorem xg_inputObjectTypeExtension (n : Nat) : XG (inputObjectTypeExtension n) := by unfold inputObjectTypeExtension; xg_auto
macro_rules | `(tactic| xg_leaf) => `(tactic| exact xg_inputObjectTypeExtension _)

theorem xg_directiveLocation : XG directiveLocation := by unfold directiveLocation; xg_auto
macro_rules | `(tactic| xg_leaf) => `(tactic| exact xg_directiveLocation)

theorem xg_directiveLocations : XG directiveLocations := by unfold directiveLocations; xg_auto
macro_rules | `(tactic| xg_leaf) => `(tactic| exact xg_directiveLocations)

theorem xg_directiveDefinition (n : Nat) : XG (directiveDefinition n) := by unfold directiveDefinition; xg_auto
macro_rules | `(tactic| xg_leaf) => `(tactic| exact xg_directiveDefinition _)

theorem xg_extensions (n : Nat) : XG (extensions n) := by unfold extensions; xg_auto
macro_rules | `(tactic| xg_leaf) => `(tactic| exact xg_extensions _)

theorem xg_selectDefinition (n : Nat) (d : Str) : XG (selectDefinition n d) := by unfold selectDefinition; xg_auto
macro_rules | `(tactic| xg_leaf) => `(tactic| exact xg_selectDefinition _ _)

theorem xg_documentDispatch (n : Nat) (k : Kind) : XG (documentDispatch n k) := by unfold documentDispatch; xg_auto
macro_rules | `(tactic| xg_leaf) => `(tactic| exact xg_documentDispatch _ _)

theorem xg_documentStep (n : Nat) (k : Kind) : XG (documentStep n k) := by unfold documentStep; xg_auto
macro_rules | `(tactic| xg_leaf) => `(tactic| exact xg_documentStep _ _)

theorem xg_documentBody (n : Nat) : XG (documentBody n) := by unfold documentBody errIfEmpty; xg_auto

theorem xg_document (n : Nat) : XG (document n) := by unfold document; exact xg_withNode _ _ (xg_documentBody n)

end Apollo.Parse
