import ApolloModel.Spec.SchemaValidation
/-
Lemmas for C14: the stack-based searches of apollo-compiler's schema validation against the
declarative predicates of Spec/SchemaValidation.lean.
-/
namespace Apollo.SchemaValidation
open Apollo.SchemaValidation.Spec

/-! ### `firstErr` -/

theorem firstErr_eq_ok {α} {f : α → R} {l : List α} :
    firstErr f l = .ok ↔ ∀ x ∈ l, f x = .ok := by
  induction l with
  | nil => simp [firstErr]
  | cons x xs ih =>
    simp only [firstErr, List.mem_cons, forall_eq_or_imp]
    cases h : f x <;> simp [ih]

theorem firstErr_ne_ok_of_mem {α} {f : α → R} {l : List α} {x : α} (hx : x ∈ l) (h : f x ≠ .ok) :
    firstErr f l ≠ .ok := by
  intro h'
  exact h (firstErr_eq_ok.mp h' x hx)

theorem firstErr_err {α} {f : α → R} {l : List α} {e : R} (he : e ≠ .ok) (h : firstErr f l = e) :
    ∃ x ∈ l, f x = e := by
  induction l with
  | nil => simp [firstErr] at h; exact absurd h.symm he
  | cons x xs ih =>
    simp only [firstErr] at h
    cases hx : f x with
    | ok => rw [hx] at h; obtain ⟨y, hy, hfy⟩ := ih h; exact ⟨y, List.mem_cons_of_mem _ hy, hfy⟩
    | recursed => rw [hx] at h; exact ⟨x, List.mem_cons_self, by rw [hx]; exact h⟩
    | limit => rw [hx] at h; exact ⟨x, List.mem_cons_self, by rw [hx]; exact h⟩
    | outOfFuel => rw [hx] at h; exact ⟨x, List.mem_cons_self, by rw [hx]; exact h⟩

/-! ### input-object cycle search -/

theorem head?_append_of_head? {l : List Nat} {r x : Nat} (h : l.head? = some r) :
    (l ++ [x]).head? = some r := by
  cases l with
  | nil => simp at h
  | cons a t => simpa using h

/-- soundness: a reported cycle is a real chain of non-null singular references back to the root -/
theorem search_sound (g : IGraph) (limit : Nat) :
    ∀ (fuel : Nat) (seen : List Nat) (fs : List IField) (u r : Nat),
      seen.head? = some r → r < g.length → (∀ f ∈ fs, f ∈ g.fields u) →
      searchFields g limit fuel seen fs = .recursed → IReach g u r := by
  intro fuel
  induction fuel with
  | zero => intro seen fs u r _ _ _ h; simp [searchFields] at h
  | succ fuel ih =>
    intro seen fs u r hhead hr hfs h
    unfold searchFields at h
    obtain ⟨f, hf, hbody⟩ := firstErr_err (by decide) h
    have hfu := hfs f hf
    by_cases hnn : f.nonNullNamed = true
    · simp only [hnn, if_true] at hbody
      by_cases hc : seen.contains f.target = true
      · simp only [hc, Bool.not_true, Bool.false_eq_true, if_false] at hbody
        by_cases hh : (seen.head? == some f.target) = true
        · have : f.target = r := by
            rw [hhead] at hh
            have h2 : r = f.target := by simpa using hh
            exact h2.symm
          exact .single ⟨f, hfu, hnn, this, hr⟩
        · simp [hh] at hbody
      · simp only [hc, Bool.not_false, if_true] at hbody
        by_cases hlt : f.target < g.length
        · simp only [hlt, if_true] at hbody
          by_cases hlim : seen.length + 1 > limit
          · simp [hlim] at hbody
          · simp only [hlim, if_false] at hbody
            have := ih (seen ++ [f.target]) (g.fields f.target) f.target r
              (head?_append_of_head? hhead) hr (fun _ h => h) hbody
            exact .cons ⟨f, hfu, hnn, rfl, hlt⟩ this
        · simp [hlt] at hbody
    · simp [hnn] at hbody

/-- completeness along an explicit simple path: the search cannot return `ok` -/
theorem search_complete_path (g : IGraph) (limit : Nat) :
    ∀ (ws : List Nat) (fuel : Nat) (seen : List Nat) (u r : Nat),
      seen.head? = some r → IPath g u ws r → (∀ w ∈ ws, w ∉ seen) → ws.Nodup →
      searchFields g limit fuel seen (g.fields u) ≠ .ok := by
  intro ws
  induction ws with
  | nil =>
    intro fuel seen u r hhead hp _ _
    cases fuel with
    | zero => simp [searchFields]
    | succ fuel =>
      obtain ⟨f, hf, hnn, ht, _⟩ := hp
      unfold searchFields
      apply firstErr_ne_ok_of_mem hf
      have hmem : r ∈ seen := by
        cases seen with
        | nil => simp at hhead
        | cons a t => simp at hhead; simp [hhead]
      have hc : seen.contains f.target = true := by simpa [ht] using hmem
      simp [hnn, hhead, ht, hmem]
  | cons w ws ih =>
    intro fuel seen u r hhead hp havoid hnd
    cases fuel with
    | zero => simp [searchFields]
    | succ fuel =>
      obtain ⟨⟨f, hf, hnn, ht, hlt⟩, hrest⟩ := hp
      unfold searchFields
      apply firstErr_ne_ok_of_mem hf
      have hw : w ∉ seen := havoid w List.mem_cons_self
      subst ht
      have hc : seen.contains f.target = false := by simpa using hw
      simp only [hnn, if_true, hc, Bool.not_false, hlt]
      by_cases hlim : seen.length + 1 > limit
      · simp [hlim]
      · simp only [hlim, if_false]
        have hnd' := List.nodup_cons.mp hnd
        apply ih fuel (seen ++ [f.target]) f.target r (head?_append_of_head? hhead) hrest _ hnd'.2
        intro w' hw' hmem
        rcases List.mem_append.mp hmem with h | h
        · exact havoid w' (List.mem_cons_of_mem _ hw') h
        · have : w' = f.target := by simpa using h
          exact hnd'.1 (this ▸ hw')

theorem ipath_suffix (g : IGraph) : ∀ (l1 : List Nat) (u a : Nat) (l2 : List Nat) (b : Nat),
    IPath g u (l1 ++ a :: l2) b → IPath g a l2 b := by
  intro l1
  induction l1 with
  | nil => intro u a l2 b h; exact h.2
  | cons x l1 ih => intro u a l2 b h; exact ih x a l2 b h.2

/-- loop removal: any chain contains a simple one -/
theorem ireach_simple_path (g : IGraph) {a b : Nat} (h : IReach g a b) :
    ∃ ws, IPath g a ws b ∧ ws.Nodup ∧ a ∉ ws ∧ b ∉ ws := by
  induction h with
  | single e => exact ⟨[], e, List.nodup_nil, by simp, by simp⟩
  | @cons a c b e _ ih =>
    obtain ⟨ws, hp, hnd, hc, hb⟩ := ih
    by_cases hcb : c = b
    · subst hcb; exact ⟨[], e, List.nodup_nil, by simp, by simp⟩
    · by_cases hac : a = c
      · subst hac; exact ⟨ws, hp, hnd, hc, hb⟩
      · by_cases haw : a ∈ ws
        · obtain ⟨l1, l2, hsplit⟩ := List.append_of_mem haw
          subst hsplit
          have hp' := ipath_suffix g l1 c a l2 b hp
          have hnd2 : (a :: l2).Nodup := (List.nodup_append.mp hnd).2.1
          have := List.nodup_cons.mp hnd2
          exact ⟨l2, hp', this.2, this.1, fun h => hb (by simp [h])⟩
        · refine ⟨c :: ws, ⟨e, hp⟩, List.nodup_cons.mpr ⟨hc, hnd⟩, ?_, ?_⟩
          · simp [hac, haw]
          · intro h
            rcases List.mem_cons.mp h with h | h
            · exact hcb h.symm
            · exact hb h

/-- fuel `limit + 1` is enough: the search never runs out of fuel -/
theorem search_fuel (g : IGraph) (limit : Nat) :
    ∀ (fuel : Nat) (seen : List Nat) (fs : List IField),
      fuel + seen.length ≥ limit + 2 → seen.length ≤ limit + 1 →
      searchFields g limit fuel seen fs ≠ .outOfFuel := by
  intro fuel
  induction fuel with
  | zero => intro seen fs h1 h2; omega
  | succ fuel ih =>
    intro seen fs h1 h2 h
    unfold searchFields at h
    obtain ⟨f, _, hbody⟩ := firstErr_err (by decide) h
    by_cases hnn : f.nonNullNamed = true
    · simp only [hnn, if_true] at hbody
      by_cases hc : seen.contains f.target = true
      · simp only [hc, Bool.not_true, Bool.false_eq_true, if_false] at hbody
        by_cases hh : (seen.head? == some f.target) = true <;> simp [hh] at hbody
      · simp only [hc, Bool.not_false, if_true] at hbody
        by_cases hlt : f.target < g.length
        · simp only [hlt, if_true] at hbody
          by_cases hlim : seen.length + 1 > limit
          · simp [hlim] at hbody
          · simp only [hlim, if_false] at hbody
            exact ih (seen ++ [f.target]) _ (by simp; omega) (by simp; omega) hbody
        · simp [hlt] at hbody
    · simp [hnn] at hbody

/-- pigeonhole: distinct naturals below `n` are at most `n` many -/
theorem nodup_bounded_length : ∀ (n : Nat) (l : List Nat), l.Nodup → (∀ x ∈ l, x < n) → l.length ≤ n := by
  intro n
  induction n with
  | zero =>
    intro l _ hb
    cases l with
    | nil => simp
    | cons a t => exact absurd (hb a List.mem_cons_self) (Nat.not_lt_zero _)
  | succ n ih =>
    intro l hnd hb
    have h1 : (l.erase n).Nodup := hnd.erase n
    have h2 : ∀ x ∈ l.erase n, x < n := by
      intro x hx
      have hx' := (List.Nodup.mem_erase_iff hnd).mp hx
      have := hb x hx'.2
      have hne : x ≠ n := hx'.1
      omega
    have h3 := ih (l.erase n) h1 h2
    have h4 : l.length ≤ (l.erase n).length + 1 := by
      rw [List.length_erase]; split <;> omega
    omega

/-- with at most `limit` input objects the depth limit is never hit -/
theorem search_no_limit (g : IGraph) (limit : Nat) (hg : g.length ≤ limit) :
    ∀ (fuel : Nat) (seen : List Nat) (fs : List IField),
      seen.Nodup → (∀ x ∈ seen, x < g.length) →
      searchFields g limit fuel seen fs ≠ .limit := by
  intro fuel
  induction fuel with
  | zero => intro seen fs _ _; simp [searchFields]
  | succ fuel ih =>
    intro seen fs hnd hb h
    unfold searchFields at h
    obtain ⟨f, _, hbody⟩ := firstErr_err (by decide) h
    by_cases hnn : f.nonNullNamed = true
    · simp only [hnn, if_true] at hbody
      by_cases hc : seen.contains f.target = true
      · simp only [hc, Bool.not_true, Bool.false_eq_true, if_false] at hbody
        by_cases hh : (seen.head? == some f.target) = true <;> simp [hh] at hbody
      · simp only [hc, Bool.not_false, if_true] at hbody
        by_cases hlt : f.target < g.length
        · simp only [hlt, if_true] at hbody
          have hnotin : f.target ∉ seen := by simpa using hc
          have hnd' : (seen ++ [f.target]).Nodup := by
            rw [List.nodup_append]
            refine ⟨hnd, by simp, ?_⟩
            intro a ha b hb' hab
            have : b = f.target := by simpa using hb'
            exact hnotin (this ▸ hab ▸ ha)
          have hb' : ∀ x ∈ seen ++ [f.target], x < g.length := by
            intro x hx
            rcases List.mem_append.mp hx with hx | hx
            · exact hb x hx
            · have : x = f.target := by simpa using hx
              exact this ▸ hlt
          by_cases hlim : seen.length + 1 > limit
          · have := nodup_bounded_length g.length _ hnd' hb'
            simp at this; omega
          · simp only [hlim, if_false] at hbody
            exact ih _ _ hnd' hb' hbody
        · simp [hlt] at hbody
    · simp [hnn] at hbody

/-! ### transitive interfaces -/

theorem getInterface_some {s : ISchema} {n : Nat} {t : TypeInfo} (h : getInterface s n = some t) :
    s[n]? = some t := by
  unfold getInterface at h
  cases hs : s[n]? with
  | none => simp [hs] at h
  | some t' =>
    simp only [hs] at h
    by_cases hi : t'.isInterface = true
    · simp [hi] at h; rw [h]
    · simp [hi] at h

theorem missingTransitive_nil_iff (s : ISchema) (t : TypeInfo) :
    missingTransitive s t = [] ↔
      ∀ via ∈ t.implements, ∀ i, getInterface s via = some i → ∀ tr ∈ i.implements, tr ∈ t.implements := by
  unfold missingTransitive
  rw [List.flatMap_eq_nil_iff]
  constructor
  · intro h via hvia i hi tr htr
    have := h via hvia
    simp only [hi, List.map_eq_nil_iff, List.filter_eq_nil_iff] at this
    have := this tr htr
    simpa using this
  · intro h via hvia
    cases hi : getInterface s via with
    | none => rfl
    | some i =>
      simp only [List.map_eq_nil_iff, List.filter_eq_nil_iff]
      intro tr htr
      simpa using h via hvia i hi tr htr

/-- the one-step check on every type is the same as closure under transitive implementation -/
theorem transitive_closed_iff (s : ISchema) :
    (∀ (a : Nat) (t : TypeInfo), s[a]? = some t → missingTransitive s t = []) ↔ TransitiveClosed s := by
  constructor
  · intro h a c hr
    induction hr with
    | base d => exact d
    | @step a b c d hb _ ih =>
      obtain ⟨ta, hta, hbin⟩ := d
      obtain ⟨tb', htb', hc⟩ := ih
      cases hi : getInterface s b with
      | none => simp [hi] at hb
      | some ib =>
        have hib := getInterface_some hi
        rw [hib] at htb'
        have : ib = tb' := by simpa using htb'
        subst this
        exact ⟨ta, hta, (missingTransitive_nil_iff s ta).mp (h a ta hta) b hbin ib hi c hc⟩
  · intro h a t hta
    rw [missingTransitive_nil_iff]
    intro via hvia i hi tr htr
    have hr : ImplReach s a tr :=
      .step (b := via) ⟨t, hta, hvia⟩ (by simp [hi]) (.base (a := via) (c := tr) ⟨i, getInterface_some hi, htr⟩)
    obtain ⟨t', ht', hmem⟩ := h a tr hr
    rw [hta] at ht'
    have : t = t' := by simpa using ht'
    subst this
    exact hmem

/-! ### root operation types -/

theorem rootLoop_nil_iff : ∀ (ts : List RootTarget) (seen : List Nat),
    rootLoop seen ts = [] ↔
      (∀ t ∈ ts, ∃ n, t = RootTarget.object n) ∧ (ts.map RootTarget.name).Nodup ∧
        ∀ t ∈ ts, t.name ∉ seen := by
  intro ts
  induction ts with
  | nil => intro seen; simp [rootLoop]
  | cons t rest ih =>
    intro seen
    unfold rootLoop
    by_cases hc : seen.contains t.name = true
    · simp only [hc, if_true]
      constructor
      · intro h; simp at h
      · intro ⟨_, _, h3⟩
        exact absurd (by simpa using hc) (h3 t List.mem_cons_self)
    · simp only [hc]
      cases t with
      | object n =>
        have hn : n ∉ seen := by simpa [RootTarget.name] using hc
        simp only [Bool.false_eq_true, if_false, List.nil_append]
        show rootLoop (seen ++ [n]) rest = [] ↔ _
        rw [ih]
        constructor
        · intro ⟨h1, h2, h3⟩
          refine ⟨?_, ?_, ?_⟩
          · intro t ht
            rcases List.mem_cons.mp ht with rfl | ht
            · exact ⟨n, rfl⟩
            · exact h1 t ht
          · rw [List.map_cons, List.nodup_cons]
            refine ⟨?_, h2⟩
            intro hmem
            obtain ⟨t', ht', hname⟩ := List.mem_map.mp hmem
            exact h3 t' ht' (by rw [hname]; simp [RootTarget.name])
          · intro t ht
            rcases List.mem_cons.mp ht with rfl | ht
            · exact hn
            · intro hm; exact h3 t ht (List.mem_append_left _ hm)
        · intro ⟨h1, h2, h3⟩
          rw [List.map_cons, List.nodup_cons] at h2
          refine ⟨fun t ht => h1 t (List.mem_cons_of_mem _ ht), h2.2, ?_⟩
          intro t ht hm
          rcases List.mem_append.mp hm with hm | hm
          · exact h3 t (List.mem_cons_of_mem _ ht) hm
          · have : t.name = n := by simpa using hm
            exact h2.1 (List.mem_map.mpr ⟨t, ht, this⟩)
      | otherKind n =>
        simp only [Bool.false_eq_true, if_false]
        constructor
        · intro h; simp at h
        · intro ⟨h1, _⟩
          obtain ⟨m, hm⟩ := h1 _ List.mem_cons_self
          cases hm
      | undefined n =>
        simp only [Bool.false_eq_true, if_false]
        constructor
        · intro h; simp at h
        · intro ⟨h1, _⟩
          obtain ⟨m, hm⟩ := h1 _ List.mem_cons_self
          cases hm

/-! ### directive self-reference search: soundness -/

theorem dreach_trans {s : DSchema} {x y z : Item} (h1 : DReach s x y) (h2 : DReach s y z) : DReach s x z := by
  induction h1 with
  | refl => exact h2
  | step st _ ih => exact .step st (ih h2)

theorem walk_sound (s : DSchema) (limit : Nat) :
    ∀ (fuel : Nat) (dg tg : List Nat) (item : Item) (r : Nat),
      dg.head? = some r → walk s limit fuel dg tg item = .recursed → DReach s item (.dir r) := by
  intro fuel
  induction fuel with
  | zero => intro dg tg item r _ h; simp [walk] at h
  | succ fuel ih =>
    intro dg tg item r hhead h
    cases item with
    | dir d =>
      simp only [walk] at h
      by_cases hc : dg.contains d = true
      · simp only [hc, Bool.not_true, Bool.false_eq_true, if_false] at h
        by_cases hh : (dg.head? == some d) = true
        · rw [hhead] at hh
          have : r = d := by simpa using hh
          subst this; exact .refl
        · simp [hh] at h
      · simp only [hc, Bool.not_false, if_true] at h
        cases hd : s.dirs[d]? with
        | none => simp [hd] at h
        | some args =>
          simp only [hd] at h
          by_cases hlim : dg.length + 1 > limit
          · simp [hlim] at h
          · simp only [hlim, if_false] at h
            obtain ⟨x, hx, hwx⟩ := firstErr_err (by decide) h
            obtain ⟨a, ha, rfl⟩ := List.mem_map.mp hx
            exact .step (.dirArg hd ha) (ih _ _ _ r (head?_append_of_head? hhead) hwx)
    | arg a =>
      simp only [walk] at h
      cases hf : firstErr (walk s limit fuel dg tg) (a.dirs.map Item.dir) with
      | ok =>
        simp only [hf] at h
        cases hty : a.ty with
        | none => simp [hty] at h
        | some k =>
          simp only [hty] at h
          by_cases hk : k < s.types.length
          · simp only [hk, if_true] at h
            exact .step (.argTy hty hk) (ih _ _ _ r hhead h)
          · simp [hk] at h
      | recursed =>
        obtain ⟨x, hx, hwx⟩ := firstErr_err (by decide) hf
        obtain ⟨d, hd, rfl⟩ := List.mem_map.mp hx
        exact .step (.argDir hd) (ih _ _ _ r hhead hwx)
      | limit => simp [hf] at h
      | outOfFuel => simp [hf] at h
    | ty k =>
      simp only [walk] at h
      by_cases hc : tg.contains k = true
      · rw [if_pos hc] at h; cases h
      · rw [if_neg hc] at h
        cases ht : s.types[k]? with
        | none => simp [ht] at h
        | some t =>
          simp only [ht] at h
          by_cases hlim : tg.length + 1 > limit
          · simp [hlim] at h
          · simp only [hlim, if_false] at h
            obtain ⟨x, hx, hwx⟩ := firstErr_err (by decide) h
            exact .step (.tyItem ht hx) (ih _ _ _ r hhead hwx)

end Apollo.SchemaValidation
